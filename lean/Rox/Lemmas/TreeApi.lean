/-
  Rox.Lemmas.TreeApi — from the link structure to the facts the read API relies on.
-/
import Rox.Lemmas.BInv4

namespace Rox.Lemmas
open Rox Rox.Spec

/-- Two nodes on one ancestor chain are comparable. -/
theorem anc_total (a : Arena) (h : ParentLt a) : ∀ (m x y : Nat), Anc a x m → Anc a y m →
    Anc a x y ∨ Anc a y x := by
  intro m
  induction m using Nat.strongRecOn with
  | _ m ih =>
    intro x y hx hy
    cases hp : par a m with
    | none =>
      rw [anc_root a x m hp] at hx; rw [anc_root a y m hp] at hy
      subst hx; subst hy; exact Or.inl (anc_refl _ _)
    | some p =>
      rw [anc_step a h x m p hp] at hx; rw [anc_step a h y m p hp] at hy
      rcases hx with rfl | hx
      · rcases hy with rfl | hy
        · exact Or.inl (anc_refl _ _)
        · exact Or.inr ((anc_step a h y x p hp).mpr (Or.inr hy))
      · rcases hy with rfl | hy
        · exact Or.inl ((anc_step a h x y p hp).mpr (Or.inr hx))
        · exact ih p (h m p hp) x y hx hy

/-- A strict ancestor `p` of `i` has a child on the chain of `i`. -/
theorem child_on_chain (a : Arena) (h : ParentLt a) : ∀ (i p : Nat), Anc a p i → p ≠ i →
    ∃ s, Anc a s i ∧ par a s = some p := by
  intro i
  induction i using Nat.strongRecOn with
  | _ i ih =>
    intro p hp hne
    cases hq : par a i with
    | none => rw [anc_root a p i hq] at hp; exact absurd hp hne
    | some q =>
      rw [anc_step a h p i q hq] at hp
      rcases hp with hp | hp
      · exact absurd hp hne
      · by_cases hpq : p = q
        · subst hpq; exact ⟨i, anc_refl _ _, hq⟩
        · obtain ⟨s, hs, hps⟩ := ih q (h i q hq) p hp hpq
          exact ⟨s, (anc_step a h s i q hq).mpr (Or.inr hs), hps⟩

/-- The target of `next_subtree` always has a previous sibling (the `expect` in
`Node::next_sibling` cannot fail). -/
theorem next_has_prev {a : Arena} (h : LinkWF a) (i j : Nat) (hi : i < a.size)
    (hn : nextSub a i = some j) : ∃ k, prevSib a j = some k := by
  have hPL := h.parentLt
  rw [h.next i hi] at hn
  unfold nextSubtreeSpec at hn
  rw [find_range'_some] at hn
  obtain ⟨h1, h2, h3, h4⟩ := hn
  have hj : j < a.size := by omega
  have hnot : ¬ Anc a i j := by simpa [Anc] using h3
  have hj0 : j ≠ 0 := by omega
  obtain ⟨p, hp, hplt, _⟩ := h.parent_lt j (by omega) hj
  -- j - 1 is `i` or a descendant of `i`
  have hprev : Anc a i (j - 1) := by
    by_cases hij : j - 1 = i
    · rw [hij]; exact anc_refl _ _
    · have := h4 (j - 1) (by omega) (by omega)
      simpa [Anc] using this
  -- the parent of j is on the chain of j - 1
  have hpc : Anc a p (j - 1) := by
    have := h.preorder' (j - 1) p (by rw [show j - 1 + 1 = j by omega]; exact hp) (by omega)
    exact this
  -- p is a strict ancestor of i
  have hpi : Anc a p i ∧ p ≠ i := by
    rcases anc_total a hPL (j - 1) p i hpc hprev with hx | hx
    · refine ⟨hx, ?_⟩
      rintro rfl
      exact hnot ((anc_step a hPL p j p hp).mpr (Or.inr (anc_refl _ _)))
    · exfalso
      exact hnot ((anc_step a hPL i j p hp).mpr (Or.inr hx))
  obtain ⟨s, hs, hps⟩ := child_on_chain a hPL i p hpi.1 hpi.2
  have hsi : s ≤ i := anc_le a hPL i s hs
  rw [h.prev j hj]
  simp only [hj0, if_false]
  unfold prevSibSpec
  cases hf : (List.range j).reverse.find? (fun k => par a k == par a j) with
  | some k => exact ⟨k, rfl⟩
  | none =>
    rw [find_rev_range_none] at hf
    have := hf s (by omega)
    rw [hps, hp] at this
    simp at this

/-- Everything `Rox.Props.C10.ApiSafe` asks of the links follows from the link structure. -/
theorem links_in_range {a : Arena} (h : LinkWF a) (i : Nat) (n : NodeData) (hn : a[i]? = some n) :
    (∀ j, n.parent = some j → j < a.size) ∧
    (∀ j, n.prevSibling = some j → j < a.size) ∧
    (∀ j, n.lastChild = some j → j < a.size ∧ i + 1 < a.size) ∧
    (∀ j, n.nextSubtree = some j → ∃ m, a[j]? = some m ∧ m.prevSibling.isSome) := by
  have hi : i < a.size := (Array.getElem?_eq_some_iff.mp hn).1
  have hpar : par a i = n.parent := by simp [Spec.par, hn]
  have hprev : prevSib a i = n.prevSibling := by simp [Spec.prevSib, hn]
  have hlast : lastCh a i = n.lastChild := by simp [Spec.lastCh, hn]
  have hnext : nextSub a i = n.nextSubtree := by simp [Spec.nextSub, hn]
  refine ⟨?_, ?_, ?_, ?_⟩
  · intro j hj
    have := h.parentLt i j (by rw [hpar]; exact hj); omega
  · intro j hj
    rw [← hprev, h.prev i hi] at hj
    split at hj
    · simp at hj
    · unfold prevSibSpec at hj
      rw [find_rev_range_some] at hj; omega
  · intro j hj
    rw [← hlast, h.last i hi] at hj
    unfold lastChildSpec at hj
    rw [find_rev_range_some] at hj
    obtain ⟨h1, h2, _⟩ := hj
    have := h.parentLt j i (by simpa using h2)
    omega
  · intro j hj
    obtain ⟨k, hk⟩ := next_has_prev h i j hi (by rw [hnext]; exact hj)
    have hjlt : j < a.size := by
      rw [← hnext, h.next i hi] at hj
      unfold nextSubtreeSpec at hj
      rw [find_range'_some] at hj; omega
    refine ⟨a[j], by simp [hjlt], ?_⟩
    simp [Spec.prevSib, hjlt] at hk
    simp [hk]

end Rox.Lemmas
