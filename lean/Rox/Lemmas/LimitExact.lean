/-
  Rox.Lemmas.LimitExact — C15, the converse of `parse_limit_mono`: a limit that is at least the
  number of nodes of the document gives exactly that document.

  The two runs (limit `L'`, limit `L`) are followed in lock step as in `LimitMono`, in the other
  direction: whenever the `L'`-run returns a context whose arena has at most `L` nodes, the `L`-run
  returns the same context (up to the limit field).  The arena never shrinks along a run; the
  relation `ExR` carries that monotonicity itself (its lower bound `n0`), so that a bound on the
  FINAL size gives the bound at every intermediate `append_node`.
-/
import Rox.Parse
import Rox.Lemmas.Size
import Rox.Lemmas.LimitMono

namespace Rox.Lemmas
open Rox

namespace LimitExact
open LimitMono

/-- size of the arena of a context, of `(ctx, x)`, of `(x, ctx)` -/
@[reducible] def csz (c : Ctx) : Nat := c.doc.nodes.size
@[reducible] def psz {β} (p : Ctx × β) : Nat := p.1.doc.nodes.size
@[reducible] def qsz {β} (p : β × Ctx) : Nat := p.2.doc.nodes.size

/-- The backwards simulation: `r'` is the run with the large limit, `r` the run with limit `L`,
`n0` the size of the arena both started from.  If `r'` succeeds, the arena has not shrunk, and if
the final arena has at most `L` nodes then `r` succeeds with the same value (up to `w`, which
resets the limit field). -/
def ExR {α} (sz : α → Nat) (w : α → α) (L n0 : Nat) (r r' : Res α) : Prop :=
  ∀ a', r' = .ok a' → n0 ≤ sz a' ∧ (sz a' ≤ L → r = .ok (w a'))

theorem ExR.of_eq {α} {sz : α → Nat} {w : α → α} {L n0 : Nat} {r r' : Res α}
    (h : r = mapL w r') (hs : ∀ a', r' = .ok a' → n0 ≤ sz a') : ExR sz w L n0 r r' := by
  intro a' h'
  refine ⟨hs a' h', fun _ => ?_⟩
  rw [h, h']; rfl

theorem ExR.of_not_ok {α} {sz : α → Nat} {w : α → α} {L n0 : Nat} {r r' : Res α}
    (h : ∀ a', r' ≠ .ok a') : ExR sz w L n0 r r' := fun a' h' => absurd h' (h a')

theorem ExR.ok {α} {sz : α → Nat} {w : α → α} {L n0 : Nat} {a b : α}
    (hw : b = w a) (hs : n0 ≤ sz a) : ExR sz w L n0 (.ok b) (.ok a) := by
  intro a' h'
  simp only [Res.ok.injEq] at h'
  subst h'
  exact ⟨hs, fun _ => by rw [hw]⟩

theorem ExR.weaken {α} {sz : α → Nat} {w : α → α} {L n0 n1 : Nat} {r r' : Res α}
    (hle : n0 ≤ n1) (h : ExR sz w L n1 r r') : ExR sz w L n0 r r' :=
  fun a' h' => ⟨Nat.le_trans hle (h a' h').1, (h a' h').2⟩

theorem ExR.bind {α β} {sz : α → Nat} {sz2 : β → Nat} {w : α → α} {w2 : β → β} {L n0 : Nat}
    {m m' : Res α} {k k' : α → Res β}
    (hm : ExR sz w L n0 m m')
    (hk : ∀ a', m' = .ok a' → ExR sz2 w2 L (sz a') (k (w a')) (k' a')) :
    ExR sz2 w2 L n0 (m >>= k) (m' >>= k') := by
  intro b' h
  cases m' with
  | ok a' =>
    have hk' := hk a' rfl b' h
    have hm' := hm a' rfl
    refine ⟨Nat.le_trans hm'.1 hk'.1, fun hb => ?_⟩
    have hmm : m = .ok (w a') := hm'.2 (Nat.le_trans hk'.1 hb)
    rw [hmm]; exact hk'.2 hb
  | err e => simp at h
  | panic s => simp at h
  | fuel => simp at h

theorem ExR.bindp {β γ} {sz2 : γ → Nat} {w2 : γ → γ} {L n0 : Nat}
    {m m' : Res (Ctx × β)} {k k' : Ctx × β → Res γ}
    (hm : ExR psz (wl1 L) L n0 m m')
    (hk : ∀ a b, m' = .ok (a, b) → ExR sz2 w2 L a.doc.nodes.size (k (wl L a, b)) (k' (a, b))) :
    ExR sz2 w2 L n0 (m >>= k) (m' >>= k') :=
  ExR.bind hm (fun a h => hk a.1 a.2 h)

theorem ExR.bind_same {α β} {sz2 : β → Nat} {w2 : β → β} {L n0 : Nat} {m : Res α}
    {k k' : α → Res β}
    (hk : ∀ a, m = .ok a → ExR sz2 w2 L n0 (k a) (k' a)) :
    ExR sz2 w2 L n0 (m >>= k) (m >>= k') := by
  intro b' h
  cases m with
  | ok a => exact hk a rfl b' h
  | err e => simp at h
  | panic s => simp at h
  | fuel => simp at h

theorem ExR.errPos {α} {sz : α → Nat} {w : α → α} {L n0 : Nat} (txt : Bytes) (mk : TextPos → Err)
    (p : Nat) (r : Res α) : ExR sz w L n0 r (errPos txt mk p) :=
  ExR.of_not_ok (fun a => errPos_ne_ok txt mk p a)

theorem ExR.errAt {α} {sz : α → Nat} {w : α → α} {L n0 : Nat} (txt : Bytes) (mk : TextPos → Err)
    (p : Nat) (r : Res α) : ExR sz w L n0 r (errAt txt mk p) :=
  ExR.of_not_ok (fun a => errAt_ne_ok txt mk p a)

/-! ### The functions that do not look at the limit -/

theorem resetAfterText_ex (L : Nat) (c : Ctx) :
    ExR csz (wl L) L c.doc.nodes.size (wl L c).resetAfterText c.resetAfterText :=
  ExR.of_eq (resetAfterText_wl L c) (fun _ h => (resetAfterText_sizeOk _ _ h).2.1)

theorem resolveNamespaces_ex (L : Nat) (c : Ctx) :
    ExR psz (wl1 L) L c.doc.nodes.size (resolveNamespaces (wl L c)) (resolveNamespaces c) :=
  ExR.of_eq (resolveNamespaces_wl L c) (fun a h => (resolveNamespaces_sizeOk c a.1 a.2 h).2.1)

theorem resolveAttributes_ex (txt : Bytes) (L : Nat) (c : Ctx) (nss : Range) :
    ExR psz (wl1 L) L c.doc.nodes.size (resolveAttributes txt (wl L c) nss)
      (resolveAttributes txt c nss) :=
  ExR.of_eq (resolveAttributes_wl txt L c nss)
    (fun a h => (resolveAttributes_sizeOk txt c a.1 nss a.2 h).2.1)

theorem processAttribute_ex (T : Tables) (txt : Bytes) (L : Nat) (c : Ctx) (r : Range) (q e : Nat)
    (pfx loc v : Span) :
    ExR csz (wl L) L c.doc.nodes.size (processAttribute T txt (wl L c) r q e pfx loc v)
      (processAttribute T txt c r q e pfx loc v) :=
  ExR.of_eq (processAttribute_wl T txt L c r q e pfx loc v)
    (fun _ h => (processAttribute_sizeOk _ _ _ _ _ _ _ _ _ _ h).2.1)

/-! ### The functions that reach `append_node` -/

theorem appendNode_ex (L : Nat) (c : Ctx) (k : Kind) (r : Range) :
    ExR psz (wl1 L) L c.doc.nodes.size ((wl L c).appendNode k r) (c.appendNode k r) := by
  intro a' h
  obtain ⟨c2, id⟩ := a'
  obtain ⟨h1, h2, _, _, _⟩ := appendNode_size c c2 k r id h
  refine ⟨by show c.doc.nodes.size ≤ c2.doc.nodes.size; omega, fun hb => ?_⟩
  have hb' : c2.doc.nodes.size ≤ L := hb
  have heq : (wl L c).appendNode k r = mapL (wl1 L) (c.appendNode k r) := by
    unfold Ctx.appendNode
    have h1' : ¬ (c.doc.nodes.size ≥ c.nodesLimit) := by omega
    have h2' : ¬ ((wl L c).doc.nodes.size ≥ (wl L c).nodesLimit) := by
      show ¬ (c.doc.nodes.size ≥ L); omega
    rw [if_neg h1', if_neg h2']
    clear h h1 h2 hb hb' h1' h2'
    wl_norm
    lim_bash
  rw [heq, h]; rfl

theorem appendText_ex (L : Nat) (c : Ctx) (t : Str) (r : Range) :
    ExR csz (wl L) L c.doc.nodes.size ((wl L c).appendText t r) (c.appendText t r) := by
  unfold Ctx.appendText
  wl_norm
  sim_split
  · refine ExR.bind (appendNode_ex L _ _ _) (fun a _ => ?_)
    exact ExR.ok rfl (Nat.le_refl _)
  · exact ExR.ok rfl (Nat.le_refl _)

theorem processCdata_ex (L : Nat) (c : Ctx) (t : Span) (r : Range) :
    ExR csz (wl L) L c.doc.nodes.size (processCdata (wl L c) t r) (processCdata c t r) := by
  unfold processCdata
  split <;> exact appendText_ex L _ _ _

theorem flushBuffer_ex (L : Nat) (c : Ctx) (b : TextBuffer) (r : Range) :
    ExR csz (wl L) L c.doc.nodes.size (flushBuffer (wl L c) b r) (flushBuffer c b r) := by
  unfold flushBuffer
  split
  · exact ExR.bind_same (fun a _ => appendText_ex L _ _ _)
  · exact ExR.ok rfl (Nat.le_refl _)

theorem processElement_ex (txt : Bytes) (L : Nat) (c : Ctx) (e : EndKind) (r : Range) :
    ExR csz (wl L) L c.doc.nodes.size (processElement txt (wl L c) e r) (processElement txt c e r) := by
  unfold processElement
  wl_norm
  sim_split
  · sim_split
    · exact ExR.errPos _ _ _ _
    · exact ExR.of_not_ok (fun a h => by cases h)
  · refine ExR.bind (resolveNamespaces_ex L c) (fun ⟨c1, nss⟩ h1 => ?_)
    wl_norm
    refine ExR.bind (resolveAttributes_ex txt L
      { c1 with nsStartIdx := c1.doc.ns.treeOrder.size, xmlDeclared := false } nss) (fun ⟨c2, attrs⟩ h2 => ?_)
    wl_norm
    split
    · refine ExR.bind_same (fun tagNs _ => ?_)
      refine ExR.bind (appendNode_ex L c2 _ _) (fun a _ => ?_)
      exact ExR.ok rfl (Nat.le_refl _)
    · refine ExR.of_eq ?_ ?_
      · lim_bash
      · intro a' h
        split at h
        · exact absurd h (errPos_ne_ok _ _ _ _)
        · rw [Res.bind_eq_ok] at h
          obtain ⟨p, _, h⟩ := h
          split at h
          · simp at h
          · split at h
            · exact absurd h (errPos_ne_ok _ _ _ _)
            · split at h
              · res_norm at h
                subst h
                simp only [psz, csz, Array.size_setIfInBounds, Nat.le_refl]
              · exact absurd h (errPos_ne_ok _ _ _ _)
    · refine ExR.bind_same (fun tagNs _ => ?_)
      refine ExR.bind (appendNode_ex L c2 _ _) (fun a _ => ?_)
      exact ExR.ok rfl (Nat.le_refl _)

/-- What the backwards simulation needs from a builder step. -/
def StepEx (L : Nat) (step : Token → Ctx → Res Ctx) : Prop :=
  ∀ t c, ExR csz (wl L) L c.doc.nodes.size (step t (wl L c)) (step t c)

theorem feed_ex (L : Nat) (step : Token → Ctx → Res Ctx) (hstep : StepEx L step) :
    ∀ (toks : List Token) (c : Ctx),
      ExR csz (wl L) L c.doc.nodes.size (feed step toks (wl L c)) (feed step toks c) := by
  intro toks
  induction toks with
  | nil => intro c; exact ExR.ok rfl (Nat.le_refl _)
  | cons t ts ih =>
    intro c
    rw [feed_cons, feed_cons]
    exact ExR.bind (hstep t c) (fun c1 _ => ih c1)

theorem runTokens_ex {α} (L : Nat) (step : Token → Ctx → Res Ctx) (hstep : StepEx L step)
    (toks : List Token) (stop : Res α) (c : Ctx) :
    ExR csz (wl L) L c.doc.nodes.size (runTokens step toks stop (wl L c))
      (runTokens step toks stop c) := by
  rw [runTokens_eq, runTokens_eq]
  refine ExR.bind (feed_ex L step hstep toks c) (fun c1 _ => ?_)
  cases stop with
  | ok _ => exact ExR.ok rfl (Nat.le_refl _)
  | err e => exact ExR.of_not_ok (fun a h => by cases h)
  | panic s => exact ExR.of_not_ok (fun a h => by cases h)
  | fuel => exact ExR.of_not_ok (fun a h => by cases h)

theorem processTextLoop_ex (T : Tables) (txt : Bytes) (L : Nat) (lower : Token → Ctx → Res Ctx)
    (hlower : StepEx L lower) (range : Range) :
    ∀ (fuel : Nat) (s : Stream) (buf : TextBuffer) (c : Ctx),
      ExR qsz (wl2 L) L c.doc.nodes.size (processTextLoop T txt lower range fuel s buf (wl L c))
        (processTextLoop T txt lower range fuel s buf c) := by
  intro fuel
  induction fuel with
  | zero => intro s buf c; exact ExR.of_not_ok (fun a h => by cases h)
  | succ fuel ih =>
    intro s buf c
    simp only [processTextLoop]
    wl_norm
    sim_split
    · exact ExR.ok rfl (Nat.le_refl _)
    · refine ExR.bind_same (fun ⟨s1, chunk⟩ _ => ?_)
      wl_norm
      split
      · exact ih _ _ _
      · sim_split
        · exact ih _ _ _
        · exact ih _ _ _
      · refine ExR.bind (flushBuffer_ex L c buf range) (fun c1 h1 => ?_)
        wl_norm
        split
        · exact ExR.errAt _ _ _ _
        · wl_norm
          split
          · exact ExR.errAt _ _ _ _
          · wl_norm
            refine ExR.bind (runTokens_ex L lower hlower _ _ _) (fun c2 h2 => ?_)
            wl_norm
            sim_split
            · exact ExR.of_not_ok (fun a h => by cases h)
            · exact ih _ _ _

theorem processText_ex (T : Tables) (txt : Bytes) (L : Nat) (lower : Token → Ctx → Res Ctx)
    (hlower : StepEx L lower) (c : Ctx) (t : Span) (r : Range) :
    ExR csz (wl L) L c.doc.nodes.size (processText T txt lower (wl L c) t r)
      (processText T txt lower c t r) := by
  unfold processText
  split
  · exact appendText_ex L _ _ _
  · dsimp only
    refine ExR.bind (processTextLoop_ex T txt L lower hlower r _ _ _ c) (fun ⟨buf, c1⟩ h1 => ?_)
    exact flushBuffer_ex L c1 buf r

theorem tokenStep_ex (T : Tables) (txt : Bytes) (L : Nat) (lower : Token → Ctx → Res Ctx)
    (hlower : StepEx L lower) (t : Token) (c : Ctx) :
    ExR csz (wl L) L c.doc.nodes.size (tokenStep T txt lower t (wl L c))
      (tokenStep T txt lower t c) := by
  unfold tokenStep
  dsimp only
  simp only [log_wl]
  show ExR csz (wl L) L (c.log (.token t)).doc.nodes.size _ _
  generalize c.log (.token t) = c0
  split
  · refine ExR.bind (resetAfterText_ex L c0) (fun c1 h1 => ?_)
    refine ExR.bind (appendNode_ex L c1 _ _) (fun a _ => ?_)
    exact ExR.ok rfl (Nat.le_refl _)
  · refine ExR.bind (resetAfterText_ex L c0) (fun c1 h1 => ?_)
    refine ExR.bind (appendNode_ex L c1 _ _) (fun a _ => ?_)
    exact ExR.ok rfl (Nat.le_refl _)
  · exact ExR.ok rfl (Nat.le_refl _)
  · refine ExR.bind (resetAfterText_ex L c0) (fun c1 h1 => ?_)
    sim_split
    · exact ExR.errPos _ _ _ _
    · exact ExR.ok rfl (Nat.le_refl _)
  · exact processAttribute_ex T txt L c0 _ _ _ _ _ _
  · refine ExR.bind (resetAfterText_ex L c0) (fun c1 h1 => ?_)
    exact processElement_ex txt L c1 _ _
  · exact processText_ex T txt L lower hlower c0 _ _
  · exact processCdata_ex L c0 _ _

theorem token_stepEx (T : Tables) (txt : Bytes) (L : Nat) : ∀ d, StepEx L (token T txt d) := by
  intro d
  induction d with
  | zero => exact fun t c => ExR.of_not_ok (fun a h => by cases h)
  | succ d ih => exact fun t c => tokenStep_ex T txt L (token T txt d) ih t c

theorem finish_size (c c' : Ctx) (h : finish c = .ok c') : c'.doc.nodes.size = c.doc.nodes.size := by
  unfold finish at h
  rw [Res.bind_eq_ok] at h
  obtain ⟨has, _, h⟩ := h
  split at h
  · simp at h
  · split at h
    · simp at h
    · res_norm at h
      subst h
      rfl

theorem finish_ex (L : Nat) (c : Ctx) :
    ExR csz (wl L) L c.doc.nodes.size (finish (wl L c)) (finish c) :=
  ExR.of_eq (finish_wl L c) (fun a h => Nat.le_of_eq (finish_size c a h).symm)

theorem initCtx_ex (txt : Bytes) (opt : Opt) (L L' : Nat) :
    ExR csz (wl L) L 0 (initCtx txt { opt with nodesLimit := L })
      (initCtx txt { opt with nodesLimit := L' }) :=
  ExR.of_eq (initCtx_wl txt opt L' L) (fun _ _ => Nat.zero_le _)

/-- The backwards simulation for the whole parse (any two limits). -/
theorem parseCtx_ex (T : Tables) (txt : Bytes) (d : Nat) (opt : Opt) (L L' : Nat) :
    ExR csz (wl L) L 0 (parseCtx T txt d { opt with nodesLimit := L })
      (parseCtx T txt d { opt with nodesLimit := L' }) := by
  unfold parseCtx
  refine ExR.bind (initCtx_ex txt opt L L') (fun c0 h0 => ?_)
  dsimp only
  refine ExR.bind (runTokens_ex L _ (token_stepEx T txt L d) _ _ c0) (fun c1 _ => ?_)
  exact finish_ex L c1

end LimitExact

open LimitMono LimitExact in
/-- Exactness of the cap, for any two limits (no order between `L` and `L'` is needed): if the
parse with limit `L'` returns `d` and `d` has at most `L` nodes, the parse with limit `L` returns
`d` as well. -/
theorem parse_limit_exact_any (T : Tables) (txt : Bytes) (opt : Opt) (L L' : Nat) (d : Doc)
    (h : parse T txt { opt with nodesLimit := L' } = .ok d)
    (hN : d.nodes.size ≤ L) :
    parse T txt { opt with nodesLimit := L } = .ok d := by
  unfold parse at h ⊢
  rw [Res.bind_eq_ok] at h
  obtain ⟨c, hc, h⟩ := h
  res_norm at h
  subst h
  have := (parseCtx_ex T txt depthFuel opt L L' c hc).2 hN
  rw [this]
  rfl

/-- **Exactness of the cap** (all inputs, all other options), the converse of `parse_limit_mono`:
if the parse with limit `L'` returns a document `d`, then every smaller limit `L` that is at least
the number of nodes of `d` returns exactly the same document.  (Together with
`parse_size_le_limit` and `parse_limit_mono`: the limits that accept the input are exactly the
`L ≥ d.nodes.size`, and all of them give `d`.) -/
theorem parse_limit_exact (T : Tables) (txt : Bytes) (opt : Opt) (L L' : Nat) (d : Doc)
    (hle : L ≤ L')
    (h : parse T txt { opt with nodesLimit := L' } = .ok d)
    (hN : d.nodes.size ≤ L) :
    parse T txt { opt with nodesLimit := L } = .ok d :=
  have _ := hle
  parse_limit_exact_any T txt opt L L' d h hN

-- #print axioms parse_limit_exact

end Rox.Lemmas
