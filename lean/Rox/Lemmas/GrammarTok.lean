/-
  Rox.Lemmas.GrammarTok — Stage A of the grammar-soundness proof: an input the tokenizer accepts
  (without DOCTYPE) is cut into an optional BOM, an optional XML declaration and a flat list of
  lexical items, each with the syntax the tokenizer checked and the tokens it delivered.

  The walk follows `parseMisc`, `parseContent`, `parseElement`, `parseProlog`, `parseBody`,
  `parseDocument` (the same case splits as `Rox.Lemmas.TokSpec`), chaining the per-construct
  statements of `Rox.Lemmas.GrammarTok1` with `gt_Seg` (a stretch of the input cut into items).
-/
import Rox.Lemmas.GrammarTok1

namespace Rox.Lemmas
open Rox Rox.Spec.Grammar Rox.TM

theorem gt_flat_append (a b : List Item) : flat (a ++ b) = flat a ++ flat b := by
  induction a with
  | nil => rfl
  | cons x xs ih => simp [flat, ih]

theorem gt_itemsToks_append {a b : List Item} {ta tb : List Token} (ha : ItemsToks a ta)
    (hb : ItemsToks b tb) : ItemsToks (a ++ b) (ta ++ tb) := by
  induction ha with
  | nil => simpa using hb
  | cons it its ts tss h1 _ ih =>
    rw [List.cons_append, List.append_assoc]
    exact .cons _ _ _ _ h1 ih

/-- a stretch of the input cut into items -/
def gt_Seg (T : Tables) (txt : Bytes) (s s' : Stream) (items : List Item) (toks : List Token) : Prop :=
  Took s s' (flat items) ∧ SOk txt s' ∧ (∀ it ∈ items, it.Lex T) ∧ ItemsToks items toks

theorem gt_Seg.nil {T : Tables} {txt : Bytes} {s : Stream} (hs : SOk txt s) : gt_Seg T txt s s [] [] :=
  ⟨Took.nil s, hs, (by simp), .nil⟩

theorem gt_Seg.cons {T : Tables} {txt : Bytes} {s s1 s2 : Stream} {it : Item} {items : List Item}
    {t1 t2 : List Token}
    (h1 : Took s s1 it.bytes ∧ SOk txt s1 ∧ it.Lex T ∧ ItemToks it t1)
    (h2 : gt_Seg T txt s1 s2 items t2) : gt_Seg T txt s s2 (it :: items) (t1 ++ t2) := by
  obtain ⟨a1, _, a3, a4⟩ := h1
  obtain ⟨b1, b2, b3, b4⟩ := h2
  refine ⟨a1.trans b1, b2, ?_, .cons _ _ _ _ a4 b4⟩
  intro x hx
  rcases List.mem_cons.mp hx with rfl | hx
  · exact a3
  · exact b3 x hx

theorem gt_Seg.trans {T : Tables} {txt : Bytes} {s s1 s2 : Stream} {a b : List Item}
    {ta tb : List Token} (h1 : gt_Seg T txt s s1 a ta) (h2 : gt_Seg T txt s1 s2 b tb) :
    gt_Seg T txt s s2 (a ++ b) (ta ++ tb) := by
  obtain ⟨a1, _, a3, a4⟩ := h1
  obtain ⟨b1, b2, b3, b4⟩ := h2
  refine ⟨by rw [gt_flat_append]; exact a1.trans b1, b2, ?_, gt_itemsToks_append a4 b4⟩
  intro x hx
  rcases List.mem_append.mp hx with hx | hx
  · exact a3 x hx
  · exact b3 x hx

theorem gt_misc_append {a b : List Item} (ha : ∀ it ∈ a, it.isMiscI = true)
    (hb : ∀ it ∈ b, it.isMiscI = true) : ∀ it ∈ a ++ b, it.isMiscI = true := by
  intro x hx
  rcases List.mem_append.mp hx with hx | hx
  · exact ha x hx
  · exact hb x hx

theorem gt_fuel_ne_ok {α} {toks : List Token} {b : α} : (lift (.fuel : Res α) : TM α) ≠ (toks, .ok b) :=
  tm_lift_ne_ok (by intro a h; cases h)

section
variable (T : Tables) (hT : TablesOK T) (hG : TablesGrammar T) (txt : Bytes)
include hT

/-- `skip_spaces` outside the root element: at most one white-space item -/
theorem gt_skipSpaces_seg {s : Stream} (hs : SOk txt s) :
    ∃ items, (∀ it ∈ items, it.isMiscI = true) ∧ gt_Seg T txt s (s.skipSpaces T) items [] := by
  obtain ⟨w, hw, hsp, _⟩ := skipSpaces_took T s
  have h1 := skipSpaces_step T hT hs
  by_cases h : w = []
  · subst h
    exact ⟨[], (by simp), hw, h1.2, (by simp), .nil⟩
  · refine ⟨[.sp w], ?_, ?_, h1.2, ?_, ?_⟩
    · intro it hit
      rcases List.mem_singleton.mp hit with rfl
      rfl
    · simpa [flat, Item.bytes] using hw
    · intro it hit
      rcases List.mem_singleton.mp hit with rfl
      exact ⟨h, hsp⟩
    · exact ItemsToks.cons _ _ _ _ (.sp w) .nil

include hG

theorem gt_parseMisc_items : ∀ (fuel : Nat) (s s' : Stream) (toks : List Token), SOk txt s →
    parseMisc T txt fuel s = (toks, .ok s') →
    ∃ items, (∀ it ∈ items, it.isMiscI = true) ∧ gt_Seg T txt s s' items toks := by
  intro fuel
  induction fuel with
  | zero =>
    intro s s' toks hs h
    unfold parseMisc at h
    exact absurd h gt_fuel_ne_ok
  | succ n ih =>
    intro s s' toks hs h
    unfold parseMisc at h
    split at h
    · obtain ⟨rfl, rfl⟩ := tm_pure_ok h
      exact ⟨[], (by simp), gt_Seg.nil hs⟩
    · simp only at h
      obtain ⟨sps, hm, hseg⟩ := gt_skipSpaces_seg T hT txt hs
      split at h
      · rename_i hc
        obtain ⟨t1, s2, t2, hx, hk, rfl⟩ := tm_bind_ok h
        obtain ⟨b, hb⟩ := parseComment_item T hT hG txt hseg.2.1 hc hx
        obtain ⟨items, him, hiseg⟩ := ih s2 s' t2 hb.2.1 hk
        refine ⟨sps ++ (.comment b :: items), gt_misc_append hm ?_, ?_⟩
        · intro x hx
          rcases List.mem_cons.mp hx with rfl | hx
          · rfl
          · exact him x hx
        · exact hseg.trans (gt_Seg.cons hb hiseg)
      · split at h
        · rename_i hc
          obtain ⟨t1, s2, t2, hx, hk, rfl⟩ := tm_bind_ok h
          obtain ⟨t, sp, v, hb⟩ := parsePi_item T hT hG txt hseg.2.1 hc hx
          obtain ⟨items, him, hiseg⟩ := ih s2 s' t2 hb.2.1 hk
          refine ⟨sps ++ (.pi t sp v :: items), gt_misc_append hm ?_, ?_⟩
          · intro x hx
            rcases List.mem_cons.mp hx with rfl | hx
            · rfl
            · exact him x hx
          · exact hseg.trans (gt_Seg.cons hb hiseg)
        · obtain ⟨rfl, rfl⟩ := tm_pure_ok h
          refine ⟨sps, hm, ?_⟩
          simpa using hseg

omit hT hG in
theorem gt_nextByte {s : Stream} {c n : UInt8} {r : Bytes} (hr : s.rest = c :: r)
    (hn : s.nextByte = .ok n) : ∃ r', s.rest = c :: n :: r' := by
  unfold Stream.nextByte at hn
  rw [hr] at hn
  cases r with
  | nil => simp at hn
  | cons x xs =>
    simp at hn
    subst hn
    exact ⟨xs, hr⟩

theorem gt_parseContent_items : ∀ (fuel depth : Nat) (s s' : Stream) (toks : List Token), SOk txt s →
    parseContent T txt fuel depth s = (toks, .ok s') →
    ∃ items, Content depth items ∧ gt_Seg T txt s s' items toks ∧
      (∀ t r, items = .text t :: r → ∃ b rest, s.rest = b :: rest ∧ b ≠ bLt) := by
  intro fuel
  induction fuel with
  | zero =>
    intro depth s s' toks hs h
    unfold parseContent at h
    exact absurd h gt_fuel_ne_ok
  | succ n ih =>
    intro depth s s' toks hs h
    unfold parseContent at h
    split at h
    · obtain ⟨rfl, rfl⟩ := tm_pure_ok h
      exact ⟨[], .eof _, gt_Seg.nil hs, by intro t r h; cases h⟩
    · rename_i c r hr
      split at h
      · rename_i hc
        have hcl : c = bLt := by simpa using hc
        subst hcl
        split at h
        · rename_i nb hnb
          obtain ⟨r', hr'⟩ := gt_nextByte hr hnb
          split at h
          · split at h
            · rename_i hcs
              obtain ⟨t1, s2, t2, hx, hk, rfl⟩ := tm_bind_ok h
              obtain ⟨b, hb⟩ := parseComment_item T hT hG txt hs hcs hx
              obtain ⟨items, hcn, hseg, _⟩ := ih depth s2 s' t2 hb.2.1 hk
              exact ⟨.comment b :: items, .leaf _ _ _ rfl hcn, gt_Seg.cons hb hseg,
                by intro t r h; cases h⟩
            · split at h
              · rename_i hcs
                obtain ⟨t1, s2, t2, hx, hk, rfl⟩ := tm_bind_ok h
                obtain ⟨b, hb⟩ := parseCdata_item T hT hG txt hs hcs hx
                obtain ⟨items, hcn, hseg, _⟩ := ih depth s2 s' t2 hb.2.1 hk
                exact ⟨.cdata b :: items, .leaf _ _ _ rfl hcn, gt_Seg.cons hb hseg,
                  by intro t r h; cases h⟩
              · exact absurd h (tm_lift_ne_ok (errAt_ne_ok _ _ _))
          · split at h
            · rename_i _ hq
              have : nb = bQuest := by simpa using hq
              subst this
              have hsw : s.startsWith Lit.piStart = true := by
                simp [Stream.startsWith, hr', Lit.piStart, bLt, bQuest]
              obtain ⟨t1, s2, t2, hx, hk, rfl⟩ := tm_bind_ok h
              obtain ⟨t, sp, v, hb⟩ := parsePi_item T hT hG txt hs hsw hx
              obtain ⟨items, hcn, hseg, _⟩ := ih depth s2 s' t2 hb.2.1 hk
              exact ⟨.pi t sp v :: items, .leaf _ _ _ rfl hcn, gt_Seg.cons hb hseg,
                by intro t r h; cases h⟩
            · split at h
              · rename_i _ _ hsl
                have : nb = bSlash := by simpa using hsl
                subst this
                obtain ⟨t1, s2, t2, hx, hk, rfl⟩ := tm_bind_ok h
                obtain ⟨q, s2', hb⟩ := parseCloseElement_item T hT hG txt hs ⟨r', hr'⟩ hx
                cases depth with
                | zero =>
                  simp only [beq_self_eq_true, if_true] at hk
                  obtain ⟨rfl, rfl⟩ := tm_pure_ok hk
                  exact ⟨[.etag q s2'], .last _ _, gt_Seg.cons hb (gt_Seg.nil hb.2.1),
                    by intro t r h; cases h⟩
                | succ d =>
                  have hd : (d + 1 == 0) = false := by simp
                  simp only [hd, Bool.false_eq_true, if_false, Nat.add_sub_cancel] at hk
                  obtain ⟨items, hcn, hseg, _⟩ := ih d s2 s' t2 hb.2.1 hk
                  exact ⟨.etag q s2' :: items, .close _ _ _ _ hcn, gt_Seg.cons hb hseg,
                    by intro t r h; cases h⟩
              · obtain ⟨t1, ⟨s2, opened⟩, t2, hx, hk, rfl⟩ := tm_bind_ok h
                obtain ⟨q, attrs, s1, hb⟩ := parseStartTag_item T hT hG txt hs ⟨r, hr⟩ hx
                simp only at hk
                cases opened with
                | true =>
                  simp only [if_true] at hk
                  obtain ⟨items, hcn, hseg, _⟩ := ih (depth + 1) s2 s' t2 hb.2.1 hk
                  exact ⟨.stag q attrs s1 false :: items, .open _ _ _ _ _ hcn, gt_Seg.cons hb hseg,
                    by intro t r h; cases h⟩
                | false =>
                  simp only [Bool.false_eq_true, if_false] at hk
                  obtain ⟨items, hcn, hseg, _⟩ := ih depth s2 s' t2 hb.2.1 hk
                  exact ⟨.stag q attrs s1 true :: items, .empty _ _ _ _ _ hcn, gt_Seg.cons hb hseg,
                    by intro t r h; cases h⟩
        · exact absurd h (tm_lift_ne_ok (errAt_ne_ok _ _ _))
      · rename_i hc
        have hne : c ≠ bLt := by simpa using hc
        obtain ⟨t1, s2, t2, hx, hk, rfl⟩ := tm_bind_ok h
        obtain ⟨t, hb1, hb2, hb3, hb4, hstop⟩ := parseText_item T hT hG txt hs ⟨c, r, hr, hne⟩ hx
        obtain ⟨items, hcn, hseg, htx⟩ := ih depth s2 s' t2 hb2 hk
        refine ⟨.text t :: items, .text _ _ _ ?_ hcn, gt_Seg.cons ⟨hb1, hb2, hb3, hb4⟩ hseg,
          fun _ _ _ => ⟨c, r, hr, hne⟩⟩
        intro t' r' he
        obtain ⟨b, rest, hbr, hbne⟩ := htx t' r' he
        rcases hstop with h0 | ⟨r0, h0⟩
        · rw [h0] at hbr; cases hbr
        · rw [h0] at hbr
          injection hbr with e1 _
          exact hbne e1.symm

theorem gt_parseElement_items {s s' : Stream} {toks : List Token} (hs : SOk txt s)
    (hp : ∃ r, s.rest = bLt :: r) (h : parseElement T txt s = (toks, .ok s')) :
    ∃ root, RootShape root ∧ gt_Seg T txt s s' root toks := by
  unfold parseElement at h
  obtain ⟨t1, ⟨s2, opened⟩, t2, hx, hk, rfl⟩ := tm_bind_ok h
  obtain ⟨q, attrs, s1, hb⟩ := parseStartTag_item T hT hG txt hs hp hx
  simp only at hk
  cases opened with
  | true =>
    simp only [if_true] at hk
    obtain ⟨items, hcn, hseg, _⟩ := gt_parseContent_items T hT hG txt _ 0 s2 s' t2 hb.2.1 hk
    exact ⟨.stag q attrs s1 false :: items, .inr (.inr ⟨q, attrs, s1, items, rfl, hcn⟩),
      gt_Seg.cons hb hseg⟩
  | false =>
    simp only [Bool.false_eq_true, if_false] at hk
    obtain ⟨rfl, rfl⟩ := tm_pure_ok hk
    exact ⟨[.stag q attrs s1 true], .inr (.inl ⟨q, attrs, s1, rfl⟩),
      gt_Seg.cons hb (gt_Seg.nil hb.2.1)⟩

theorem gt_parseProlog_items (hv : ValidUtf8 txt) {s' : Stream} {toks : List Token}
    (h : parseProlog T txt = (toks, .ok s')) :
    ∃ (bom decl : Bytes) (pre : List Item), (bom = [] ∨ bom = Lit.bom) ∧ (decl = [] ∨ XmlDecl T decl) ∧
      (∀ it ∈ pre, it.isMiscI = true) ∧ txt = bom ++ decl ++ flat pre ++ s'.rest ∧ SOk txt s' ∧
      (∀ it ∈ pre, it.Lex T) ∧ ItemsToks pre toks := by
  unfold parseProlog at h
  have hs0 := sok_new txt hv
  simp only at h
  obtain ⟨s1, h1, h⟩ := tm_lift_bind_ok h
  obtain ⟨s2, h2, h⟩ := tm_lift_bind_ok h
  obtain ⟨t1, s3, t2, h3, hk, rfl⟩ := tm_bind_ok h
  obtain ⟨rfl, rfl⟩ := tm_pure_ok hk
  -- BOM
  have hbom : ∃ bom, (bom = [] ∨ bom = Lit.bom) ∧ Took (Stream.new txt) s1 bom ∧ SOk txt s1 := by
    split at h1
    · rename_i hb
      have hvb : ValidUtf8 Lit.bom := by unfold ValidUtf8; decide
      exact ⟨Lit.bom, .inr rfl, advance_took Lit.bom hb h1,
        ((advance_lit hs0 Lit.bom hb hvb).post _ h1).1.2⟩
    · injection h1 with h1
      subst h1
      exact ⟨[], .inl rfl, Took.nil _, hs0⟩
  obtain ⟨bom, hbom, htb, hs1⟩ := hbom
  -- declaration
  have hdecl : ∃ decl, (decl = [] ∨ XmlDecl T decl) ∧ Took s1 s2 decl ∧ SOk txt s2 := by
    split at h2
    · rename_i hd
      obtain ⟨decl, hd1, hd2, hd3⟩ := parseDeclaration_decl T hT hG txt hs1 hd h2
      exact ⟨decl, .inr hd3, hd1, hd2⟩
    · injection h2 with h2
      subst h2
      exact ⟨[], .inl rfl, Took.nil _, hs1⟩
  obtain ⟨decl, hdecl, htd, hs2⟩ := hdecl
  obtain ⟨m, hm, hmseg⟩ := gt_parseMisc_items T hT hG txt _ s2 s3 t1 hs2 h3
  obtain ⟨sps, hsm, hsseg⟩ := gt_skipSpaces_seg T hT txt hmseg.2.1
  have hall := hmseg.trans hsseg
  refine ⟨bom, decl, m ++ sps, hbom, hdecl, gt_misc_append hm hsm, ?_, hall.2.1, hall.2.2.1, ?_⟩
  · have := ((htb.trans htd).trans hall.1).eq
    simpa [Stream.new] using this
  · simpa using hall.2.2.2

theorem gt_parseBody_items {s : Stream} {toks : List Token} (hs : SOk txt s)
    (h : parseBody T txt s = (toks, .ok ())) :
    ∃ (sps root post : List Item), (∀ it ∈ sps, it.isMiscI = true) ∧
      (∀ it ∈ post, it.isMiscI = true) ∧ RootShape root ∧
      s.rest = flat sps ++ flat root ++ flat post ∧ (∀ it ∈ sps ++ root ++ post, it.Lex T) ∧
      ItemsToks (sps ++ root ++ post) toks := by
  unfold parseBody at h
  simp only at h
  obtain ⟨sps, hsm, hsseg⟩ := gt_skipSpaces_seg T hT txt hs
  obtain ⟨t1, s2, t2, h2, hk, rfl⟩ := tm_bind_ok h
  obtain ⟨t3, s3, t4, h3, hk2, rfl⟩ := tm_bind_ok hk
  have hroot : ∃ root, RootShape root ∧ gt_Seg T txt (s.skipSpaces T) s2 root t1 := by
    unfold parseRootElement at h2
    split at h2
    · rename_i hc
      cases hr : (s.skipSpaces T).rest with
      | nil => simp [Stream.currByte?, hr] at hc
      | cons b r =>
        have : b = bLt := by simpa [Stream.currByte?, hr] using hc
        subst this
        exact gt_parseElement_items T hT hG txt hsseg.2.1 ⟨r, hr⟩ h2
    · obtain ⟨rfl, rfl⟩ := tm_pure_ok h2
      exact ⟨[], .inl rfl, gt_Seg.nil hsseg.2.1⟩
  obtain ⟨root, hrs, hrseg⟩ := hroot
  obtain ⟨post, hpm, hpseg⟩ := gt_parseMisc_items T hT hG txt _ s2 s3 t3 hrseg.2.1 h3
  split at hk2
  · exact absurd hk2 (tm_lift_ne_ok (errAt_ne_ok _ _ _))
  · rename_i he
    obtain ⟨rfl, _⟩ := tm_pure_ok hk2
    have hend : s3.rest = [] := by simpa [Stream.atEnd] using he
    have hall := (hsseg.trans hrseg).trans hpseg
    refine ⟨sps, root, post, hsm, hpm, hrs, ?_, hall.2.2.1, ?_⟩
    · have := hall.1.eq
      rw [hend] at this
      simpa [gt_flat_append] using this
    · simpa using hall.2.2.2

end

/-- **Stage A**: an input the tokenizer accepts without DOCTYPE is an optional BOM, an optional XML
declaration and three lists of items (before, in, after the root element). -/
theorem tokenize_items (T : Tables) (hT : TablesOK T) (hG : TablesGrammar T) (txt : Bytes)
    (hv : ValidUtf8 txt) (toks : List Token) (h : tokenize T txt false = (toks, .ok ())) :
    ∃ (bom decl : Bytes) (pre root post : List Item),
      txt = bom ++ decl ++ flat pre ++ flat root ++ flat post ∧
      (bom = [] ∨ bom = Lit.bom) ∧ (decl = [] ∨ XmlDecl T decl) ∧
      (∀ it ∈ pre, it.isMiscI = true) ∧ (∀ it ∈ post, it.isMiscI = true) ∧ RootShape root ∧
      (∀ it ∈ pre ++ root ++ post, it.Lex T) ∧ ItemsToks (pre ++ root ++ post) toks := by
  unfold tokenize parseDocument at h
  obtain ⟨t1, s1, t2, h1, hk, rfl⟩ := tm_bind_ok h
  obtain ⟨bom, decl, pre, hbom, hdecl, hpm, htxt, hs1, hplex, hptk⟩ :=
    gt_parseProlog_items T hT hG txt hv h1
  have hbody : parseBody T txt s1 = (t2, .ok ()) := by
    split at hk
    · simp only [Bool.not_false, if_true] at hk
      exact absurd hk (tm_lift_ne_ok (by intro a h; cases h))
    · exact hk
  obtain ⟨sps, root, post, hsm, hpostm, hrs, hrest, hlex, htk⟩ :=
    gt_parseBody_items T hT hG txt hs1 hbody
  refine ⟨bom, decl, pre ++ sps, root, post, ?_, hbom, hdecl, gt_misc_append hpm hsm, hpostm, hrs,
    ?_, ?_⟩
  · rw [htxt, hrest]
    simp [gt_flat_append]
  · intro x hx
    rw [List.append_assoc, List.append_assoc] at hx
    rcases List.mem_append.mp hx with hx | hx
    · exact hplex x hx
    · exact hlex x (by rw [List.append_assoc]; exact hx)
  · have := gt_itemsToks_append hptk htk
    simpa using this

end Rox.Lemmas
