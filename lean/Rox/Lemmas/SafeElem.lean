/-
  Rox.Lemmas.SafeElem — `process_element` and `process_attribute` never panic under the builder
  invariants, and keep them.
-/
import Rox.Lemmas.SafeTree
import Rox.Lemmas.SafeNs
import Rox.Lemmas.SafeAttr

namespace Rox.Lemmas
open Rox Rox.Props.C06

/-- Replacing the namespace table by a larger one keeps every bound of `NsOk`. -/
theorem NsOk.grow {d : Doc} {st : Nat} (h : NsOk d st) {ns' : Namespaces} (hinv : NsInv ns')
    (ht : d.ns.treeOrder.size ≤ ns'.treeOrder.size) (hv : d.ns.values.size ≤ ns'.values.size) :
    NsOk { d with ns := ns' } st := by
  refine ⟨hinv, ?_, ?_, ?_, ?_⟩
  · show 0 < ns'.values.size
    have := h.xml0; omega
  · show st ≤ ns'.treeOrder.size
    have := h.start; omega
  · intro i n tn name attrs nss hn hk
    obtain ⟨f1, f2, f3, f4, f5⟩ := h.elem i n tn name attrs nss hn hk
    refine ⟨f1, ?_, f3, f4, ?_⟩
    · show nss.2 ≤ ns'.treeOrder.size
      omega
    · intro j hj
      show j < ns'.values.size
      have := f5 j hj; omega
  · intro k a hk j hj
    show j < ns'.values.size
    have := h.attrNs k a hk j hj; omega

/-- the namespace push of `process_attribute` -/
theorem processAttribute_push (txt : Bytes) (c : Ctx) (ha : AInv txt c) (name : Option Span) (value : Str) :
    RSpec (do
        let ns ← c.doc.ns.pushNs name value
        (pure { c with doc := { c.doc with ns := ns } } : Res Ctx)) (fun c' => AInv txt c' ∧ Keep c c') := by
  refine rspec_bind _ _ _ _ (pushNs_safe c.doc.ns ha.nsOk.ns name value) ?_
  intro ns ⟨g1, g2, g3, _⟩
  exact rspec_ok _ _ ⟨⟨ha.lim, ha.nsOk.grow g1 (by omega) g3, ha.text, ha.ents, ha.depth⟩, Keep.refl _⟩

/-- Replacing a node by one of the same kind keeps `NsOk`. -/
theorem NsOk.setNode {d : Doc} {st : Nat} (h : NsOk d st) (i : Nat) (p p' : NodeData)
    (hp : d.nodes[i]? = some p) (hk : p'.kind = p.kind) :
    NsOk { d with nodes := d.nodes.setIfInBounds i p' } st := by
  refine ⟨h.ns, h.xml0, h.start, ?_, h.attrNs⟩
  intro j n tn name attrs nss hn hkn
  have hn' : (d.nodes.setIfInBounds i p')[j]? = some n := hn
  rw [Array.getElem?_setIfInBounds] at hn'
  split at hn'
  · rename_i heq
    subst heq
    split at hn'
    · simp only [Option.some.injEq] at hn'
      subst hn'
      exact h.elem i p tn name attrs nss hp (by rw [← hk]; exact hkn)
    · simp at hn'
  · exact h.elem j n tn name attrs nss hn' hkn

/-- The part of `process_element` that appends the element node (`Open` and `Empty`). -/
theorem processElement_append (txt : Bytes) (c2 : Ctx) (nss attrs : Range) (r : Range) (hb2 : BInv c2)
    (ha2 : AInv txt c2) (hat : c2.afterText = [])
    (hn : nss.1 ≤ nss.2 ∧ nss.2 ≤ c2.doc.ns.treeOrder.size)
    (hattrs : attrs.1 ≤ attrs.2 ∧ attrs.2 ≤ c2.doc.attrs.size)
    (k : Ctx → Nat → Ctx)
    (hk : ∀ c3 id, AInv txt c3 → AInv txt (k c3 id))
    (hk' : ∀ c3 id, Keep c3 (k c3 id)) :
    RSpec (do
        let tagNs ← getNsIdxByPrefix txt c2.doc nss c2.tagName.prefixPos c2.tagName.pfx
        let (c, newId) ← c2.appendNode (.element tagNs c2.tagName.nameSpan attrs nss)
                            (c2.tagName.pos, r.2)
        (pure (k c newId) : Res Ctx)) (fun c' => AInv txt c' ∧ Keep c2 c') := by
  refine rspec_bind _ _ _ _ (getNsIdxByPrefix_safe txt c2.doc ha2.nsOk.ns ha2.nsOk.xml0 nss hn _ _) ?_
  intro tagNs htn
  refine rspec_bind_eq _ _ _ _ (appendNode_safe c2 _ _ hb2 ha2.lim) ?_
  rintro ⟨c3, newId⟩ h3 _
  obtain ⟨a3, k3⟩ := appendNode_ainv hb2 ha2 (fun hne => absurd hat hne)
    (by
      intro tn name attrs' nss' hk
      simp only [Kind.element.injEq] at hk
      obtain ⟨rfl, _, rfl, rfl⟩ := hk
      exact ⟨hn.1, hn.2, hattrs.1, hattrs.2, htn⟩) h3
  exact rspec_ok _ _ ⟨hk _ _ a3, k3.trans (hk' _ _)⟩

/-- `process_element` (called after `reset_after_text`, so no text run is open). For
`ElementEnd(Open|Empty)` the element name recorded by the preceding `ElementStart` must be
non-empty — otherwise the code reaches its `unreachable!`. -/
theorem processElement_safe (txt : Bytes) (c : Ctx) (e : EndKind) (r : Range) (hb : BInv c)
    (ha : AInv txt c) (hat : c.afterText = [])
    (htag : (∀ p l, e ≠ .close p l) → c.tagName.name ≠ []) :
    RSpec (processElement txt c e r) (fun c' => BInv c' ∧ AInv txt c' ∧ Keep c c') := by
  have key : RSpec (processElement txt c e r) (fun c' => AInv txt c' ∧ Keep c c') := by
    unfold processElement
    split
    · rename_i hemp
      split
      · exact errPos_safe _ _ _ _
      · rename_i hne
        exfalso
        refine htag ?_ (by simpa using hemp)
        intro p l hpl
        exact hne p l hpl
    · refine rspec_bind _ _ _ _ (resolveNamespaces_safe c hb.pid_lt ha.nsOk) ?_
      rintro ⟨c1, nss⟩ ⟨hns1, hn1, hn2, hfr1⟩
      dsimp only at hns1 hn1 hn2 hfr1 ⊢
      have hns1' : NsOk ({ c1 with nsStartIdx := c1.doc.ns.treeOrder.size, xmlDeclared := false } : Ctx).doc
          c1.doc.ns.treeOrder.size :=
        ⟨hns1.ns, hns1.xml0, Nat.le_refl _, hns1.elem, hns1.attrNs⟩
      refine rspec_bind _ _ _ _ (resolveAttributes_safe txt { c1 with nsStartIdx := c1.doc.ns.treeOrder.size, xmlDeclared := false }
        nss c1.doc.ns.treeOrder.size hns1' ⟨hn1, hn2⟩) ?_
      rintro ⟨c2, attrs⟩ ⟨hns2, ha1, ha2', hnodes2, hnsEq2, hfr2⟩
      dsimp only at hns2 ha1 ha2' hnodes2 hnsEq2 hfr2 ⊢
      have hc2 : c2 = { c with doc := c2.doc, curAttrs := c2.curAttrs,
                                 nsStartIdx := c2.doc.ns.treeOrder.size, xmlDeclared := false } := by
        rw [hfr2, hfr1]
        simp only [hnsEq2]
      have hnodes : c2.doc.nodes = c.doc.nodes := by
        rw [hnodes2]; show c1.doc.nodes = _; rw [hfr1]
      have hb2 : BInv c2 := hb.congr hnodes (by rw [hc2]) (by rw [hc2])
      have hst2 : c2.nsStartIdx = c2.doc.ns.treeOrder.size := by rw [hc2]
      have haa2 : AInv txt c2 := by
        refine ⟨by rw [hc2]; exact ha.lim, ?_, ?_, by rw [hc2]; exact ha.ents, by rw [hc2]; exact ha.depth⟩
        · rw [hst2, hnsEq2]; exact hns2
        · intro hne; exfalso; apply hne; rw [hc2]; exact hat
      have hat2 : c2.afterText = [] := by rw [hc2]; exact hat
      have hk2 : Keep c c2 := by rw [hc2]; exact ⟨rfl, rfl⟩
      have hnss : nss.1 ≤ nss.2 ∧ nss.2 ≤ c2.doc.ns.treeOrder.size := by
        rw [hnsEq2]; exact ⟨hn1, hn2⟩
      clear hfr2 hc2
      split
      · -- empty
        refine rspec_weaken (processElement_append txt c2 nss attrs r hb2 haa2 hat2 hnss ⟨ha1, ha2'⟩
          (fun c newId => { c with awaiting := c.awaiting ++ [newId] }) ?_ ?_) ?_
        · intro c3 id a3
          exact ⟨a3.lim, a3.nsOk, a3.text, a3.ents, a3.depth⟩
        · intro c3 id; exact ⟨rfl, rfl⟩
        · intro c' h; exact ⟨h.1, hk2.trans h.2⟩
      · -- close
        rename_i pfx loc
        split
        · exact errPos_safe _ _ _ _
        · rename_i hlen
          have hpl := hb2.pid_lt
          have hp' : c2.nodeAt c2.parentId = .ok c2.doc.nodes[c2.parentId] := by
            unfold Ctx.nodeAt; rw [Array.getElem?_eq_getElem hpl]
          rw [hp']
          simp only [Res.bind_ok]
          split
          · rename_i hnil
            rw [hnil] at hlen
            simp at hlen
          · split
            · exact errPos_safe _ _ _ _
            · split
              · refine rspec_ok _ _ ⟨⟨haa2.lim, ?_, ?_, haa2.ents, haa2.depth⟩, hk2.trans ⟨rfl, rfl⟩⟩
                · refine haa2.nsOk.setNode c2.parentId _ _ (Array.getElem?_eq_getElem hb2.pid_lt) ?_
                  split <;> rfl
                · intro hne; exact absurd hat2 hne
              · exact errPos_safe _ _ _ _
      · -- open
        refine rspec_weaken (processElement_append txt c2 nss attrs r hb2 haa2 hat2 hnss ⟨ha1, ha2'⟩
          (fun c newId => { c with parentId := newId, parentPrefixes := c.tagName.pfx :: c.parentPrefixes }) ?_ ?_) ?_
        · intro c3 id a3
          exact ⟨a3.lim, a3.nsOk, a3.text, a3.ents, a3.depth⟩
        · intro c3 id; exact ⟨rfl, rfl⟩
        · intro c' h; exact ⟨h.1, hk2.trans h.2⟩
  refine rspec_weaken (rspec_and key (fun c' h => binv_processElement hb h)) ?_
  intro c' ⟨⟨h1, h2⟩, h3⟩
  exact ⟨h3, h1, h2⟩

/-- `process_attribute` -/
theorem processAttribute_safe (T : Tables) (hT : TablesOK T) (txt : Bytes) (c : Ctx) (range : Range)
    (qnameLen eqLen : Nat) (pfx loc value : Span) (hv : SpanU txt value) (hb : BInv c) (ha : AInv txt c) :
    RSpec (processAttribute T txt c range qnameLen eqLen pfx loc value)
      (fun c' => BInv c' ∧ AInv txt c' ∧ Keep c c') := by
  have key : RSpec (processAttribute T txt c range qnameLen eqLen pfx loc value)
      (fun c' => AInv txt c' ∧ Keep c c') := by
    unfold processAttribute
    apply rspec_bind _ _ _ _ (normalizeAttribute_safe T hT txt c value hv ha.ents ha.depth)
    rintro ⟨c1, v1⟩ ⟨hd, hfr⟩
    dsimp only at hd hfr ⊢
    have ha2 : AInv txt (c1.log (.attrValue v1)) := by
      rw [hfr]
      exact ⟨ha.lim, ha.nsOk, ha.text, ha.ents, by show c1.ld.depth ≤ 10; rw [hd]; exact ha.depth⟩
    have hk2 : Keep c (c1.log (.attrValue v1)) := by
      refine ⟨hd, ?_⟩
      rw [hfr]; rfl
    generalize c1.log (.attrValue v1) = c2 at ha2 hk2 ⊢
    split
    · split
      · exact errPos_safe _ _ _ _
      · split
        · exact errPos_safe _ _ _ _
        · split
          · exact errPos_safe _ _ _ _
          · split
            · exact errPos_safe _ _ _ _
            · refine rspec_bind _ _ _ _ (exists_safe c2.doc.ns ha2.nsOk.ns c2.nsStartIdx ha2.nsOk.start _) ?_
              intro b _
              split
              · exact errPos_safe _ _ _ _
              · split
                · exact rspec_weaken (processAttribute_push txt c2 ha2 _ _) (fun c' h => ⟨h.1, hk2.trans h.2⟩)
                · exact rspec_ok _ _ ⟨⟨ha2.lim, ha2.nsOk, ha2.text, ha2.ents, ha2.depth⟩, hk2⟩
    · split
      · split
        · exact errPos_safe _ _ _ _
        · split
          · exact errPos_safe _ _ _ _
          · refine rspec_bind _ _ _ _ (exists_safe c2.doc.ns ha2.nsOk.ns c2.nsStartIdx ha2.nsOk.start _) ?_
            intro b _
            split
            · exact errPos_safe _ _ _ _
            · exact rspec_weaken (processAttribute_push txt c2 ha2 _ _) (fun c' h => ⟨h.1, hk2.trans h.2⟩)
      · exact rspec_ok _ _ ⟨⟨ha2.lim, ha2.nsOk, ha2.text, ha2.ents, ha2.depth⟩, hk2⟩
  refine rspec_weaken (rspec_and key (fun c' h => (processAttribute_triEq T txt c c' _ _ _ _ _ _ h).binv hb)) ?_
  intro c' ⟨⟨h1, h2⟩, h3⟩
  exact ⟨h3, h1, h2⟩

end Rox.Lemmas
