/-
  Rox.Lemmas.CompleteAll — every well-formed, namespace-well-formed document without DOCTYPE, within
  the documented limits, is ACCEPTED (and then, by `accepted_tree_mirrors`, gets the tree of its
  abstract document).

    Stage 0   `flatten_doc`        (CompleteFlat)  the derivation `RDoc` as a flat list of lexical items
    Stage S   `sem_doc`, `cost_doc` (CompleteSem)  constraints of the tree → item-level checks and costs
    Stage A⁻¹ `tokenize_complete`  (CompleteTok*)  the tokenizer follows the items
    Stage B⁻¹ `parseCtx_complete`  (CompleteRef, CompleteStag, CompleteBuild)  the builder accepts
-/
import Rox.Spec.Complete
import Rox.Lemmas.MirrorAll
import Rox.Lemmas.CompleteDefs
import Rox.Lemmas.CompleteFlat
import Rox.Lemmas.CompleteSem
import Rox.Lemmas.CompleteTok3
import Rox.Lemmas.CompleteBuild

namespace Rox.Lemmas
open Rox Rox.Spec.Grammar Rox.Spec.Canon4 Rox.Spec.Mirror Rox.Spec.MirrorNs Rox.Spec.Complete

/-- **Completeness** (every abstract document `x` that is well-formed — `GDocWf` —, whose PI targets
are not reserved — `DocStrict` —, that satisfies the namespace constraints — `DocNsWf` — and is within
the limits — `WithinLimits` —, every concrete syntax `txt` of it — `RDoc`: any white space where S is
allowed, either quote, `<e/>` or `<e></e>`, optional BOM and XML declaration, any Misc around the
root —, both values of `allow_dtd`, with or without positions): `parse` accepts `txt`. -/
theorem wellformed_is_accepted (T : Tables) (hT : TablesOK T) (hG : TablesGrammar T)
    (hX : TablesComplete T) (txt : Bytes) (hv : ValidUtf8 txt) (x : GDoc)
    (hwf : GDocWf T x) (hr : RDoc T x txt) (hs : DocStrict x) (hns : DocNsWf x)
    (opt : Opt) (hlim : WithinLimits x opt) :
    ∃ d, parse T txt opt = .ok d := by
  -- Stage 0
  obtain ⟨bom, decl, pre, root, post, htxt, hbom, hdecl, hpre, hpost, hpa, hra, hqa, hel, hcl,
    hbal, hall⟩ := flatten_doc T x txt hwf hr hs
  -- Stage A⁻¹
  obtain ⟨toks, htok, hit⟩ := CT.tokenize_complete T hT hG hX bom decl pre root.items post hbom
    hdecl hpre hpost hbal (fun it hi => ⟨(hall it hi).1, (hall it hi).2.2⟩) opt.allowDtd
  rw [← htxt] at htok
  -- Stage S
  have hns' : nsWf [] root.abs = true := by rw [hra]; exact hns
  obtain ⟨hok, hend⟩ := sem_doc pre root post hpre hpost hcl hns'
  obtain ⟨hc1, hc2, hc3⟩ := cost_doc pre root post hpre hpost hel
  have hx : (⟨miscAbs pre, root.abs, miscAbs post⟩ : GDoc) = x := by
    cases x
    simp only at hpa hra hqa
    rw [hpa, hra, hqa]
  rw [hx] at hc1 hc2
  rw [hra] at hc3
  obtain ⟨hl1, hl2, hl3, hl4⟩ := hlim
  -- Stage B⁻¹
  obtain ⟨c, hc⟩ := CB.parseCtx_complete T hT hX txt hv opt toks htok _ hit
    (fun it hi => (hall it hi).1) (fun it hi => (hall it hi).2.1) hok hend
    (stag_doc pre root post hel) (by omega) hl2 (by omega) (by omega)
  exact ⟨c.doc, by unfold parse; rw [hc]; rfl⟩

end Rox.Lemmas
