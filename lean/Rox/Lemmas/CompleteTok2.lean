/-
  Rox.Lemmas.CompleteTok2 — Stage A⁻¹ of the completeness proof, the lexical constructs one by one:
  each parsing function of the tokenizer, started on the concrete syntax of an item that satisfies
  `Item.Lex` (any white space where S is allowed, either quote, names over the full repertoire, any
  XML characters), succeeds, stops exactly behind the item and delivers its tokens (`ItemToks`).
  (The cursor primitives are in `Rox.Lemmas.CompleteTok1`.)
-/
import Rox.Lemmas.CompleteDefs
import Rox.Lemmas.RtTok5
import Rox.Lemmas.CompleteTok1

set_option linter.unusedSectionVars false

namespace Rox.Lemmas.CT1
open Rox Rox.Spec Rox.Spec.Grammar Rox.Spec.Complete Rox.TM

/-! ### Start tags -/

section
variable (T : Tables) (txt : Bytes)

theorem atEnd_append_cons (p : Nat) (s : Bytes) (b : UInt8) (R : Bytes) :
    Stream.atEnd ⟨p, s ++ b :: R⟩ = false := by
  cases s <;> rfl

/-- one round of the attribute loop -/
theorem startTagLoop_attr (hT : TablesOK T) (hG : TablesGrammar T) (hX : TablesComplete T)
    (a : AttrC) (ha : a.Lex T) (Y : Bytes) (fuel p : Nat) :
    ∃ tok p', startTagLoop T txt (fuel + 1) ⟨p, a.bytes ++ Y⟩ =
        pre [tok] (startTagLoop T txt fuel ⟨p', Y⟩) ∧ AttrTok a tok := by
  obtain ⟨hs1, hn, hs2, hs3, hq, hqv, hltv, hch⟩ := ha
  obtain ⟨cs, hcs, hall⟩ := chars_bridge T hX hch
  have hC5 := canon5 T hT hX
  have hr : a.bytes ++ Y =
      a.s1 ++ (a.n ++ (a.s2 ++ bEq :: (a.s3 ++ a.q :: (a.v ++ a.q :: Y)))) := by
    simp [AttrC.bytes]
  obtain ⟨b, n', en, hbsp, _, h47, h62, _⟩ := qname_head T hT hX hn
  have hae : Stream.atEnd ⟨p, a.s1 ++ (a.n ++ (a.s2 ++ bEq :: (a.s3 ++ a.q :: (a.v ++ a.q :: Y))))⟩ =
      false := by
    rw [en]; exact atEnd_append_cons p a.s1 b _
  have hsp := startsWithSpace_sp T a.s1
    (a.n ++ (a.s2 ++ bEq :: (a.s3 ++ a.q :: (a.v ++ a.q :: Y)))) hs1 p
  have hsk := skipSpaces_sp0 T a.s1 (a.n ++ (a.s2 ++ bEq :: (a.s3 ++ a.q :: (a.v ++ a.q :: Y))))
    hs1.2 (qname_noSp T hT hX hn _) p
  have hcb : Stream.currByte
      ⟨p + a.s1.length, a.n ++ (a.s2 ++ bEq :: (a.s3 ++ a.q :: (a.v ++ a.q :: Y)))⟩ = .ok b := by
    rw [en]; rfl
  have hb1 : (b == bSlash) = false := by rw [beq_eq_false_iff_ne]; exact h47
  have hb2 : (b == bGt) = false := by rw [beq_eq_false_iff_ne]; exact h62
  obtain ⟨c1, R1, e1, hc1⟩ := head_sp0_stop T hT hX hs2 bEq (a.s3 ++ a.q :: (a.v ++ a.q :: Y))
    (qstop_delim T hX (by simp [bEq]))
  obtain ⟨pfx, loc, hqn, hqp⟩ := consumeQName_item T txt hT hG hX a.n hn c1 R1 hc1 (p + a.s1.length)
  rw [← e1] at hqn
  have heq := consumeEq_item T txt hX a.s2 a.s3 (a.q :: (a.v ++ a.q :: Y)) hs2 hs3
    (quote_noSp T hX a.q hq _) (p + a.s1.length + a.n.length)
  have hqu := consumeQuote_q txt a.q hq (a.v ++ a.q :: Y)
    (p + a.s1.length + a.n.length + a.s2.length + 1 + a.s3.length)
  have hadv := advanceUntil2_quote a.q a.v Y hqv hltv
    (p + a.s1.length + a.n.length + a.s2.length + 1 + a.s3.length + 1)
  have hxs := isXmlStr_chars T txt hC5 a.v cs hcs hall
    (p + a.s1.length + a.n.length + a.s2.length + 1 + a.s3.length + 1)
  have hcq := consumeByte_same txt a.q Y
    (p + a.s1.length + a.n.length + a.s2.length + 1 + a.s3.length + 1 + a.v.length)
  refine ⟨.attribute (p + a.s1.length,
      p + a.s1.length + a.n.length + a.s2.length + 1 + a.s3.length + 1 + a.v.length + 1)
      (min (p + a.s1.length + a.n.length - (p + a.s1.length)) 65535)
      (min (p + a.s1.length + a.n.length + a.s2.length + 1 + a.s3.length -
        (p + a.s1.length + a.n.length)) 255) pfx loc
      ⟨p + a.s1.length + a.n.length + a.s2.length + 1 + a.s3.length + 1, a.v⟩,
    p + a.s1.length + a.n.length + a.s2.length + 1 + a.s3.length + 1 + a.v.length + 1, ?_, ?_⟩
  · rw [hr]
    simp only [startTagLoop, hae, Bool.false_eq_true, if_false, hsp, hsk, hcb, lift_ok_bind, hb1,
      hb2, Bool.not_true, hqn, heq, hqu, hadv, hxs, hcq, emit_bind]
  · exact ⟨hqp, rfl⟩

theorem attrsBytes_length_ge (hT' : ∀ a : AttrC, a.Lex T → 1 ≤ a.bytes.length) :
    ∀ (attrs : List AttrC), (∀ a ∈ attrs, a.Lex T) → attrs.length ≤ (attrsBytes attrs).length := by
  intro attrs
  induction attrs with
  | nil => intro _; simp
  | cons a r ih =>
    intro h
    have h1 := hT' a (h a (by simp))
    have h2 := ih (fun x hx => h x (by simp [hx]))
    simp only [attrsBytes, List.length_cons, List.length_append]
    omega

theorem attr_bytes_pos (a : AttrC) : 1 ≤ a.bytes.length := by
  simp [AttrC.bytes]
  omega

/-- the attribute loop over the attributes and the end of the tag -/
theorem startTagLoop_attrs (hT : TablesOK T) (hG : TablesGrammar T) (hX : TablesComplete T)
    (e : Bool) (s1 rest : Bytes) (hs1 : Sp0 T s1) :
    ∀ (attrs : List AttrC), (∀ a ∈ attrs, a.Lex T) → ∀ (fuel p : Nat), attrs.length < fuel →
    ∃ ats r p', startTagLoop T txt fuel
        ⟨p, attrsBytes attrs ++ (s1 ++ ((if e then [bSlash, bGt] else [bGt]) ++ rest))⟩ =
          ret (ats ++ [.elementEnd (if e then .empty else .open) r]) (⟨p', rest⟩, some (!e)) ∧
        AttrToks attrs ats := by
  intro attrs
  induction attrs with
  | nil =>
    intro _ fuel p hf
    obtain ⟨fuel, rfl⟩ : ∃ f, fuel = f + 1 := ⟨fuel - 1, by simp at hf; omega⟩
    cases e with
    | true =>
      have hae := atEnd_append_cons p s1 bSlash (bGt :: rest)
      have hsk := skipSpaces_sp0 T s1 (bSlash :: bGt :: rest) hs1
        (noSp_cons T (hX.delim_not_space bSlash (by simp [bSlash]))) p
      have hcb : Stream.currByte ⟨p + s1.length, bSlash :: bGt :: rest⟩ = .ok bSlash := rfl
      have h1 : Stream.advance ⟨p + s1.length, bSlash :: bGt :: rest⟩ 1 =
          .ok ⟨p + s1.length + 1, bGt :: rest⟩ := by simp [Stream.advance]
      have h2 := consumeByte_same txt bGt rest (p + s1.length + 1)
      refine ⟨[], (p + s1.length, p + s1.length + 1 + 1), p + s1.length + 1 + 1, ?_, .nil⟩
      simp only [attrsBytes, List.nil_append, if_true, List.cons_append, startTagLoop, hae,
        Bool.false_eq_true, if_false, hsk, hcb, lift_ok_bind, beq_self_eq_true, h1, h2, emit_bind]
      rfl
    | false =>
      have hae := atEnd_append_cons p s1 bGt rest
      have hsk := skipSpaces_sp0 T s1 (bGt :: rest) hs1 (noSp_cons T hT.gt_not_space) p
      have hcb : Stream.currByte ⟨p + s1.length, bGt :: rest⟩ = .ok bGt := rfl
      have h0 : (bGt == bSlash) = false := by decide
      have h1 : Stream.advance ⟨p + s1.length, bGt :: rest⟩ 1 = .ok ⟨p + s1.length + 1, rest⟩ := by
        simp [Stream.advance]
      refine ⟨[], (p + s1.length, p + s1.length + 1), p + s1.length + 1, ?_, .nil⟩
      simp only [attrsBytes, List.nil_append, Bool.false_eq_true, if_false, List.cons_append,
        startTagLoop, hae, hsk, hcb, lift_ok_bind, h0, beq_self_eq_true, if_true, h1, emit_bind]
      rfl
  | cons a r ih =>
    intro hall fuel p hf
    obtain ⟨fuel, rfl⟩ : ∃ f, fuel = f + 1 := ⟨fuel - 1, by simp at hf; omega⟩
    obtain ⟨tok, p1, h1, ht⟩ := startTagLoop_attr T txt hT hG hX a (hall a (by simp))
      (attrsBytes r ++ (s1 ++ ((if e then [bSlash, bGt] else [bGt]) ++ rest))) fuel p
    obtain ⟨ats, rr, p2, h2, hts⟩ := ih (fun x hx => hall x (by simp [hx])) fuel p1
      (by simp at hf; omega)
    refine ⟨tok :: ats, rr, p2, ?_, .cons a tok r ats ht hts⟩
    simp only [attrsBytes, List.append_assoc]
    rw [h1, h2, pre_mk]
    rfl

end

/-! ### The XML declaration -/

section
variable (T : Tables) (txt : Bytes)

/-- a lower-case ASCII name -/
def LowerName (name : Bytes) : Prop := name ≠ [] ∧ ∀ b ∈ name, 97 ≤ b ∧ b ≤ 122

theorem lower_version : LowerName Lit.version := by
  refine ⟨by simp [Lit.version], ?_⟩
  decide
theorem lower_encoding : LowerName Lit.encoding := by
  refine ⟨by simp [Lit.encoding], ?_⟩
  decide
theorem lower_standalone : LowerName Lit.standalone := by
  refine ⟨by simp [Lit.standalone], ?_⟩
  decide

theorem pseudo_prefix {name a : Bytes} (ha : PseudoAttr T name a) : ∃ W, a = name ++ W := by
  obtain ⟨s2, s3, v, q, _, _, _, _, _, _, rfl⟩ := ha
  exact ⟨s2 ++ [bEq] ++ s3 ++ [q] ++ v ++ [q], by simp⟩

theorem pseudo_noSp (hX : TablesComplete T) {name a : Bytes} (hname : LowerName name)
    (ha : PseudoAttr T name a) (Z : Bytes) : NoSp T (a ++ Z) := by
  obtain ⟨W, rfl⟩ := pseudo_prefix T ha
  obtain ⟨hne, hl⟩ := hname
  cases name with
  | nil => exact absurd rfl hne
  | cons b n' =>
    exact noSp_cons T (lower_not_space T hX b (hl b (by simp)).1 (hl b (by simp)).2)

theorem pseudo_startsWith {name a : Bytes} (ha : PseudoAttr T name a) (Z : Bytes) (p : Nat) :
    Stream.startsWith ⟨p, a ++ Z⟩ name = true := by
  obtain ⟨W, rfl⟩ := pseudo_prefix T ha
  simp only [Stream.startsWith, List.append_assoc]
  exact List.isPrefixOf_iff_prefix.mpr (List.prefix_append _ _)

theorem parseAttribute_item (hT : TablesOK T) (hG : TablesGrammar T) (hX : TablesComplete T)
    (name : Bytes) (hname : LowerName name) (a : Bytes) (ha : PseudoAttr T name a) (Y : Bytes)
    (p : Nat) :
    ∃ p', parseAttribute T txt ⟨p, a ++ Y⟩ = .ok (⟨p', Y⟩, ⟨p, []⟩, ⟨p, name⟩) := by
  obtain ⟨s2, s3, v, q, hs2, hs3, hq, hch, hqv, hltv, rfl⟩ := ha
  have hr : (name ++ s2 ++ [bEq] ++ s3 ++ [q] ++ v ++ [q]) ++ Y =
      name ++ (s2 ++ bEq :: (s3 ++ q :: (v ++ q :: Y))) := by simp
  obtain ⟨c1, R1, e1, hc1⟩ := head_sp0_stop T hT hX hs2 bEq (s3 ++ q :: (v ++ q :: Y))
    (qstop_delim T hX (by simp [bEq]))
  have hqn := consumeQName_ncname T txt hT hG hX name (lower_ncname T hX name hname.1 hname.2)
    c1 R1 hc1 p
  rw [← e1] at hqn
  have heq := consumeEq_item T txt hX s2 s3 (q :: (v ++ q :: Y)) hs2 hs3 (quote_noSp T hX q hq _)
    (p + name.length)
  have hqu := consumeQuote_q txt q hq (v ++ q :: Y) (p + name.length + s2.length + 1 + s3.length)
  obtain ⟨hq128, hqx⟩ := quote_facts T hX q hq
  have hcc := consumeChars_runC T txt (fun _ c => c != q.toNat && c != 60) q Y hq128 hqx
    (by intro _; simp) v (run_value T hX q hq128 v hch hqv hltv _)
    (p + name.length + s2.length + 1 + s3.length + 1)
  have hcb := consumeByte_same txt q Y (p + name.length + s2.length + 1 + s3.length + 1 + v.length)
  refine ⟨p + name.length + s2.length + 1 + s3.length + 1 + v.length + 1, ?_⟩
  rw [hr]
  simp only [parseAttribute, hqn, Res.bind_ok, heq, hqu, hcc, hcb]
  rfl

theorem parsePseudoAttribute_item (hT : TablesOK T) (hG : TablesGrammar T) (hX : TablesComplete T)
    (name : Bytes) (hname : LowerName name) (a : Bytes) (ha : PseudoAttr T name a) (Y : Bytes)
    (p : Nat) : ∃ p', parsePseudoAttribute T txt ⟨p, a ++ Y⟩ name = .ok ⟨p', Y⟩ := by
  obtain ⟨p', h⟩ := parseAttribute_item T txt hT hG hX name hname a ha Y p
  refine ⟨p', ?_⟩
  simp only [parsePseudoAttribute, h, Res.bind_ok, List.isEmpty_nil, Bool.not_true, Bool.false_or,
    bne_self_eq_false, Bool.false_eq_true, if_false]
  rfl

theorem declEnd_item (hX : TablesComplete T) (s4 rest : Bytes) (hs4 : Sp0 T s4) (p : Nat) :
    declEnd T txt ⟨p, s4 ++ 63 :: 62 :: rest⟩ = .ok ⟨p + s4.length + 2, rest⟩ := by
  have hq : byteIsSpace T 63 = false := hX.delim_not_space 63 (by simp)
  have h2 := skipSpaces_sp0 T s4 (63 :: 62 :: rest) hs4 (noSp_cons T hq) p
  have h3 : Stream.skipString txt ⟨p + s4.length, 63 :: 62 :: rest⟩ Lit.piEnd =
      .ok ⟨p + s4.length + 2, rest⟩ := by
    simp [Stream.skipString, Stream.startsWith, Lit.piEnd, Stream.advance]
  simp only [declEnd, h2, h3]

/-- after the version (and the encoding): `(S standalone…)? S? ?>` -/
theorem decl_sd (hT : TablesOK T) (hG : TablesGrammar T) (hX : TablesComplete T)
    (sd s4 rest : Bytes) (hsd : OptPseudo T Lit.standalone sd) (hs4 : Sp0 T s4) (p : Nat) :
    ∃ p' Z, declConsumeSpaces T txt ⟨p, sd ++ (s4 ++ 63 :: 62 :: rest)⟩ = .ok ⟨p', Z⟩ ∧
      Stream.startsWith ⟨p', Z⟩ Lit.encoding = false ∧
      ∃ p'', declStandalone T txt ⟨p', Z⟩ = .ok ⟨p'', rest⟩ := by
  have hq : byteIsSpace T 63 = false := hX.delim_not_space 63 (by simp)
  rcases hsd with rfl | ⟨s, a, hs, ha, rfl⟩
  · refine ⟨p + s4.length, 63 :: 62 :: rest, ?_, ?_, p + s4.length + 0 + 2, ?_⟩
    · exact declConsumeSpaces_sp0 T txt s4 (63 :: 62 :: rest) hs4 (noSp_cons T hq)
        (Or.inr (Or.inl (by simp [Lit.piEnd]))) p
    · simp [Stream.startsWith, Lit.encoding, List.isPrefixOf]
    · have h1 : Stream.startsWith ⟨p + s4.length, 63 :: 62 :: rest⟩ Lit.standalone = false := by
        simp [Stream.startsWith, Lit.standalone, List.isPrefixOf]
      have h2 := declEnd_item T txt hX [] rest (fun _ h => by cases h) (p + s4.length)
      simp only [List.nil_append, List.length_nil] at h2
      simp only [declStandalone, h1, Bool.false_eq_true, if_false, h2]
  · obtain ⟨p4, h4⟩ := parsePseudoAttribute_item T txt hT hG hX Lit.standalone lower_standalone a ha
      (s4 ++ 63 :: 62 :: rest) (p + s.length)
    refine ⟨p + s.length, a ++ (s4 ++ 63 :: 62 :: rest), ?_, ?_, p4 + s4.length + 2, ?_⟩
    · rw [List.append_assoc]
      exact declConsumeSpaces_sp0 T txt s (a ++ (s4 ++ 63 :: 62 :: rest)) hs.2
        (pseudo_noSp T hX lower_standalone ha _) (Or.inl hs.1) p
    · obtain ⟨W, rfl⟩ := pseudo_prefix T ha
      simp [Stream.startsWith, Lit.encoding, Lit.standalone, List.isPrefixOf]
    · have h1 := pseudo_startsWith T ha (s4 ++ 63 :: 62 :: rest) (p + s.length)
      simp only [declStandalone, h1, if_true, h4, Res.bind_ok, declEnd_item T txt hX s4 rest hs4 p4]

end

end Rox.Lemmas.CT1

namespace Rox.Lemmas.CT
open Rox Rox.Spec Rox.Spec.Grammar Rox.Spec.Complete Rox.TM Rox.Lemmas.CT1

section
variable (T : Tables) (hT : TablesOK T) (hG : TablesGrammar T) (hX : TablesComplete T)
  (hK : TablesTok T) (txt : Bytes)

include hT hG hX in
theorem parseComment_item (b rest : Bytes) (hlex : (Item.comment b).Lex T) (p : Nat) :
    ∃ toks p', parseComment T txt ⟨p, (Item.comment b).bytes ++ rest⟩ = (toks, .ok ⟨p', rest⟩) ∧
      ItemToks (.comment b) toks := by
  obtain ⟨hch, hsub, hlast⟩ := hlex
  obtain ⟨cs, hcs, hall⟩ := chars_bridge T hX hch
  have hrun := run_comment T rest b cs hcs hall hsub hlast
  have hr : (Item.comment b).bytes ++ rest = 60 :: 33 :: 45 :: 45 :: (b ++ 45 :: 45 :: 62 :: rest) := by
    simp [Item.bytes, Lit.commentStart, Lit.commentEnd]
  have h1 : Stream.advance ⟨p, 60 :: 33 :: 45 :: 45 :: (b ++ 45 :: 45 :: 62 :: rest)⟩ 4 =
      .ok ⟨p + 4, b ++ 45 :: 45 :: 62 :: rest⟩ := by
    simp [Stream.advance]
  have h2 := consumeChars_runC T txt (fun s c => !(c == 45 && s.startsWith Lit.commentEnd)) 45
    (45 :: 62 :: rest) (by decide) (hX.delim_xmlChar 45 (by simp))
    (by intro q; simp [Stream.startsWith, Lit.commentEnd]) b hrun (p + 4)
  have h3 : Stream.skipString txt ⟨p + 4 + b.length, 45 :: 45 :: 62 :: rest⟩ Lit.commentEnd =
      .ok ⟨p + 4 + b.length + 3, rest⟩ := by
    simp [Stream.skipString, Stream.startsWith, Lit.commentEnd, Stream.advance]
  have h5 : (b.getLast? == some bDash) = false := by
    rw [beq_eq_false_iff_ne]
    exact hlast
  refine ⟨[.comment ⟨p + 4, b⟩ (p, p + 4 + b.length + 3)], p + 4 + b.length + 3, ?_,
    .comment b _ _ rfl⟩
  rw [hr]
  unfold parseComment
  simp only [h1, lift_ok_bind, h2, h3, hsub, h5, Bool.false_eq_true, if_false, emit_bind]
  rfl

include hT hG hX in
/-- `<?xml` followed by white space does not begin a PI whose target is not reserved -/
theorem pi_not_decl (t s v rest : Bytes) (hlex : (Item.pi t s v).Lex T)
    (hstrict : (Item.pi t s v).StrictI) (p : Nat) :
    Stream.startsWithXmlDecl T ⟨p, (Item.pi t s v).bytes ++ rest⟩ = false := by
  obtain ⟨ht, hs, hsv, _, _⟩ := hlex
  obtain ⟨c0, R0, e0, _, hcn⟩ := pi_after_target T hT hX hs hsv rest
  have hr : (Item.pi t s v).bytes ++ rest = 60 :: 63 :: (t ++ c0 :: R0) := by
    rw [← e0]; simp [Item.bytes, Lit.piStart, Lit.piEnd]
  rw [hr]
  exact not_xmlDeclWC T hT hX t ht hstrict c0 hcn R0 p

include hT hG hX hK in
/-- (`hK`: U+0020 is not a name character — `parse_pi` tests for the literal `<?xml` + U+0020) -/
theorem parsePi_item (t s v rest : Bytes) (hlex : (Item.pi t s v).Lex T)
    (hstrict : (Item.pi t s v).StrictI) (p : Nat) :
    ∃ toks p', parsePi T txt ⟨p, (Item.pi t s v).bytes ++ rest⟩ = (toks, .ok ⟨p', rest⟩) ∧
      ItemToks (.pi t s v) toks := by
  obtain ⟨ht, hs, hsv, hch, hsub⟩ := hlex
  obtain ⟨c0, R0, e0, hc0, hcn⟩ := pi_after_target T hT hX hs hsv rest
  obtain ⟨sv, v', rfl, hsv0, hv'⟩ := split_sp0 T v
  obtain ⟨cs, hcs, hall⟩ := chars_bridge T hX hch
  obtain ⟨cs', hcs', hsub'⟩ :=
    chars_drop_ascii sv (fun b hb => hT.space_ascii b (hsv0 b hb)) v' cs hcs
  have hsub2 := containsSub_suffix _ sv v' hsub
  have hr : (Item.pi t s (sv ++ v')).bytes ++ rest = 60 :: 63 :: (t ++ c0 :: R0) := by
    rw [← e0]; simp [Item.bytes, Lit.piStart, Lit.piEnd]
  have hx : Stream.startsWith ⟨p, 60 :: 63 :: (t ++ c0 :: R0)⟩ Lit.xmlDecl = false :=
    not_xmlDeclC T hX hK t ht hstrict c0 hcn R0
  have h1 : Stream.advance ⟨p, 60 :: 63 :: (t ++ c0 :: R0)⟩ 2 = .ok ⟨p + 2, t ++ c0 :: R0⟩ := by
    simp [Stream.advance]
  have h2 := consumeName_stopC T txt hX c0 R0 hc0 hcn t ht (p + 2)
  have e0' : c0 :: R0 = (s ++ sv) ++ (v' ++ 63 :: 62 :: rest) := by rw [← e0]; simp
  rw [e0'] at h2 hx h1 hr
  have hq : byteIsSpace T 63 = false := hX.delim_not_space 63 (by simp)
  have hns : NoSp T (v' ++ 63 :: 62 :: rest) := by
    cases v' with
    | nil => exact noSp_cons T hq
    | cons x v'' => exact noSp_append_of_ne T hv' (by simp) _
  have hor : s ++ sv ≠ [] ∨ Lit.piEnd.isPrefixOf (v' ++ 63 :: 62 :: rest) = true ∨
      v' ++ 63 :: 62 :: rest = [] := by
    cases s with
    | cons b s' => left; simp
    | nil =>
      cases sv with
      | cons b sv' => left; simp
      | nil =>
        cases v' with
        | nil => right; left; simp [Lit.piEnd]
        | cons x v'' => exact absurd rfl (hsv (by simp))
  have h3 := declConsumeSpaces_sp0 T txt (s ++ sv) (v' ++ 63 :: 62 :: rest) (sp0_append T hs hsv0)
    hns hor (p + 2 + t.length)
  have h4 := consumeChars_runC T txt (fun s c => !(c == 63 && s.startsWith Lit.piEnd)) 63
    (62 :: rest) (by decide) (hX.delim_xmlChar 63 (by simp))
    (by intro q; simp [Stream.startsWith, Lit.piEnd]) v'
    (run_pi T rest v' cs' hcs' (fun c hc => hall c (hsub' c hc)) hsub2)
    (p + 2 + t.length + (s ++ sv).length)
  have h5 : Stream.skipString txt ⟨p + 2 + t.length + (s ++ sv).length + v'.length, 63 :: 62 :: rest⟩
      Lit.piEnd = .ok ⟨p + 2 + t.length + (s ++ sv).length + v'.length + 2, rest⟩ := by
    simp [Stream.skipString, Stream.startsWith, Lit.piEnd, Stream.advance]
  refine ⟨[.pi ⟨p + 2, t⟩
      (if (!(v'.isEmpty)) = true then some ⟨p + 2 + t.length + (s ++ sv).length, v'⟩ else none)
      (p, p + 2 + t.length + (s ++ sv).length + v'.length + 2)],
    p + 2 + t.length + (s ++ sv).length + v'.length + 2, ?_, .pi _ _ _ _ _ _ rfl⟩
  rw [hr]
  unfold parsePi
  simp only [hx, Bool.false_eq_true, if_false, h1, lift_ok_bind, h2, h3, h4, h5, emit_bind]
  rfl

include hT hG hX in
theorem parseCdata_item (b rest : Bytes) (hlex : (Item.cdata b).Lex T) (p : Nat) :
    ∃ toks p', parseCdata T txt ⟨p, (Item.cdata b).bytes ++ rest⟩ = (toks, .ok ⟨p', rest⟩) ∧
      ItemToks (.cdata b) toks := by
  obtain ⟨hch, hsub⟩ := hlex
  obtain ⟨cs, hcs, hall⟩ := chars_bridge T hX hch
  have hrun := run_cdata T rest b cs hcs hall hsub
  have hr : (Item.cdata b).bytes ++ rest =
      60 :: 33 :: 91 :: 67 :: 68 :: 65 :: 84 :: 65 :: 91 :: (b ++ 93 :: 93 :: 62 :: rest) := by
    simp [Item.bytes, Lit.cdataStart, Lit.cdataEnd]
  have h1 : Stream.advance
      ⟨p, 60 :: 33 :: 91 :: 67 :: 68 :: 65 :: 84 :: 65 :: 91 :: (b ++ 93 :: 93 :: 62 :: rest)⟩ 9 =
      .ok ⟨p + 9, b ++ 93 :: 93 :: 62 :: rest⟩ := by
    simp [Stream.advance]
  have h2 := consumeChars_runC T txt (fun s c => !(c == 93 && s.startsWith Lit.cdataEnd)) 93
    (93 :: 62 :: rest) (by decide) (hX.delim_xmlChar 93 (by simp))
    (by intro q; simp [Stream.startsWith, Lit.cdataEnd]) b hrun (p + 9)
  have h3 : Stream.skipString txt ⟨p + 9 + b.length, 93 :: 93 :: 62 :: rest⟩ Lit.cdataEnd =
      .ok ⟨p + 9 + b.length + 3, rest⟩ := by
    simp [Stream.skipString, Stream.startsWith, Lit.cdataEnd, Stream.advance]
  refine ⟨[.cdata ⟨p + 9, b⟩ (p, p + 9 + b.length + 3)], p + 9 + b.length + 3, ?_,
    .cdata b _ _ rfl⟩
  rw [hr]
  unfold parseCdata
  simp only [h1, lift_ok_bind, h2, h3, emit_bind]
  rfl

include hT hG hX in
/-- character data is always followed by a `<` -/
theorem parseText_item (t R : Bytes) (hlex : (Item.text t).Lex T) (p : Nat) :
    ∃ toks p', parseText T txt ⟨p, t ++ bLt :: R⟩ = (toks, .ok ⟨p', bLt :: R⟩) ∧
      ItemToks (.text t) toks := by
  obtain ⟨_, hch, hlt, hsub⟩ := hlex
  obtain ⟨cs, hcs, hall, hav⟩ := chars_bridge_avoid T hX hch
  have hrun : Run T (fun _ c => c != 60) (bLt :: R) t :=
    run_of_chars T _ _ (fun c => c != 60) (fun c h _ => h) t cs hcs
      (fun c hc => ⟨hall c hc, by
        have h2 : c ≠ 60 := fun e => hav bLt (by decide) hlt (by rw [e] at hc; exact hc)
        simp [h2]⟩)
  have h2 := consumeChars_runC T txt (fun _ c => c != 60) bLt R (by decide)
    (hX.delim_xmlChar bLt (by simp [bLt])) (by intro q; simp [bLt]) t hrun p
  have h3 : (t.contains bGt && containsSub t Lit.cdataEnd) = false := by simp [hsub]
  refine ⟨[.text ⟨p, t⟩ (p, p + t.length)], p + t.length, ?_, .text t _ _ rfl⟩
  unfold parseText
  simp only [h2, lift_ok_bind, h3, Bool.false_eq_true, if_false, emit_bind]
  rfl

include hT hG hX in
/-- the byte after the `<` of a start tag -/
theorem stag_head (q : Bytes) (attrs : List AttrC) (s1 : Bytes) (e : Bool)
    (hlex : (Item.stag q attrs s1 e).Lex T) :
    ∃ b R, (Item.stag q attrs s1 e).bytes = bLt :: b :: R ∧ b ≠ bBang ∧ b ≠ bQuest ∧ b ≠ bSlash := by
  obtain ⟨b, q', rfl, _, h33, h47, _, h63⟩ := qname_head T hT hX hlex.1
  exact ⟨b, _, by simp only [Item.bytes, List.cons_append, List.nil_append, List.append_assoc]; rfl,
    h33, h63, h47⟩

include hT hG hX in
theorem parseStartTag_item (q : Bytes) (attrs : List AttrC) (s1 : Bytes) (e : Bool) (rest : Bytes)
    (hlex : (Item.stag q attrs s1 e).Lex T) (p : Nat) :
    ∃ toks p', parseStartTag T txt ⟨p, (Item.stag q attrs s1 e).bytes ++ rest⟩ =
        (toks, .ok (⟨p', rest⟩, !e)) ∧
      ItemToks (.stag q attrs s1 e) toks := by
  obtain ⟨hq, hs1, hattrs⟩ := hlex
  have hr : (Item.stag q attrs s1 e).bytes ++ rest =
      60 :: (q ++ (attrsBytes attrs ++ (s1 ++ ((if e then [bSlash, bGt] else [bGt]) ++ rest)))) := by
    simp [Item.bytes, bLt]
  obtain ⟨c1, R1, e1, hc1⟩ : ∃ c1 R1,
      attrsBytes attrs ++ (s1 ++ ((if e then [bSlash, bGt] else [bGt]) ++ rest)) = c1 :: R1 ∧
        QStop T c1 := by
    cases attrs with
    | cons a r =>
      have := (hattrs a (by simp)).1
      simp only [attrsBytes, AttrC.bytes, List.append_assoc]
      exact head_sp T hT hX this _
    | nil =>
      cases e with
      | true => exact head_sp0_stop T hT hX hs1 bSlash (bGt :: rest) (qstop_delim T hX (by simp [bSlash]))
      | false => exact head_sp0_stop T hT hX hs1 bGt rest (qstop_delim T hX (by simp [bGt]))
  obtain ⟨pfx, loc, hqn, hqp⟩ := consumeQName_item T txt hT hG hX q hq c1 R1 hc1 (p + 1)
  rw [← e1] at hqn
  have h1 : Stream.advance
      ⟨p, 60 :: (q ++ (attrsBytes attrs ++ (s1 ++ ((if e then [bSlash, bGt] else [bGt]) ++ rest))))⟩ 1 =
      .ok ⟨p + 1, q ++ (attrsBytes attrs ++ (s1 ++ ((if e then [bSlash, bGt] else [bGt]) ++ rest)))⟩ := by
    simp [Stream.advance]
  have hlen : attrs.length <
      (attrsBytes attrs ++ (s1 ++ ((if e then [bSlash, bGt] else [bGt]) ++ rest))).length + 1 := by
    have := attrsBytes_length_ge T (fun a _ => attr_bytes_pos a) attrs hattrs
    simp only [List.length_append]
    omega
  obtain ⟨ats, rr, p2, h2, hts⟩ := startTagLoop_attrs T txt hT hG hX e s1 rest hs1 attrs hattrs
    ((attrsBytes attrs ++ (s1 ++ ((if e then [bSlash, bGt] else [bGt]) ++ rest))).length + 1)
    (p + 1 + q.length) hlen
  refine ⟨.elementStart pfx loc p :: (ats ++ [.elementEnd (if e then .empty else .open) rr]), p2, ?_,
    .stag q attrs s1 e pfx loc p ats rr hqp hts⟩
  rw [hr]
  unfold parseStartTag
  simp only [h1, lift_ok_bind, hqn, emit_bind, h2, ok_bind, pre_pure, pre_mk]
  rfl

include hT hG hX in
theorem parseCloseElement_item (q s2 rest : Bytes) (hlex : (Item.etag q s2).Lex T) (p : Nat) :
    ∃ toks p', parseCloseElement T txt ⟨p, (Item.etag q s2).bytes ++ rest⟩ =
        (toks, .ok ⟨p', rest⟩) ∧
      ItemToks (.etag q s2) toks := by
  obtain ⟨hq, hs2⟩ := hlex
  have hgt : QStop T 62 := qstop_delim T hX (by simp)
  have hr : (Item.etag q s2).bytes ++ rest = 60 :: 47 :: (q ++ (s2 ++ 62 :: rest)) := by
    simp [Item.bytes, bLt, bSlash, bGt]
  obtain ⟨c1, R1, e1, hc1⟩ := head_sp0_stop T hT hX hs2 62 rest hgt
  obtain ⟨pfx, loc, hqn, hqp⟩ := consumeQName_item T txt hT hG hX q hq c1 R1 hc1 (p + 2)
  rw [← e1] at hqn
  have h1 : Stream.advance ⟨p, 60 :: 47 :: (q ++ (s2 ++ 62 :: rest))⟩ 2 =
      .ok ⟨p + 2, q ++ (s2 ++ 62 :: rest)⟩ := by
    simp [Stream.advance]
  have hsk := skipSpaces_sp0 T s2 (62 :: rest) hs2 (noSp_cons T hT.gt_not_space) (p + 2 + q.length)
  have hcb : Stream.consumeByte txt ⟨p + 2 + q.length + s2.length, 62 :: rest⟩ bGt =
      .ok ⟨p + 2 + q.length + s2.length + 1, rest⟩ := consumeByte_same txt 62 rest _
  refine ⟨[.elementEnd (.close pfx loc) (p, p + 2 + q.length + s2.length + 1)],
    p + 2 + q.length + s2.length + 1, ?_, .etag q s2 pfx loc _ hqp⟩
  rw [hr]
  unfold parseCloseElement
  simp only [h1, lift_ok_bind, hqn, hsk, hcb, emit_bind]
  rfl

include hT hG hX in
/-- the XML declaration -/
theorem parseDeclaration_decl (decl rest : Bytes) (hd : XmlDecl T decl) (p : Nat) :
    ∃ p', parseDeclaration T txt ⟨p, decl ++ rest⟩ = .ok ⟨p', rest⟩ := by
  obtain ⟨s1, ver, encd, sd, s4, hs1, hver, hencd, hsd, hs4, rfl⟩ := hd
  have hr : (litXmlDeclOpen ++ s1 ++ ver ++ encd ++ sd ++ s4 ++ Lit.piEnd) ++ rest =
      60 :: 63 :: 120 :: 109 :: 108 :: (s1 ++ (ver ++ (encd ++ (sd ++ (s4 ++ 63 :: 62 :: rest))))) := by
    simp [litXmlDeclOpen, Lit.piEnd]
  have h1 : Stream.advance
      ⟨p, 60 :: 63 :: 120 :: 109 :: 108 :: (s1 ++ (ver ++ (encd ++ (sd ++ (s4 ++ 63 :: 62 :: rest)))))⟩ 5 =
      .ok ⟨p + 5, s1 ++ (ver ++ (encd ++ (sd ++ (s4 ++ 63 :: 62 :: rest))))⟩ := by
    simp [Stream.advance]
  have h2 := declConsumeSpaces_sp0 T txt s1 (ver ++ (encd ++ (sd ++ (s4 ++ 63 :: 62 :: rest)))) hs1.2
    (pseudo_noSp T hX lower_version hver _) (Or.inl hs1.1) (p + 5)
  have h3 := pseudo_startsWith T hver (encd ++ (sd ++ (s4 ++ 63 :: 62 :: rest))) (p + 5 + s1.length)
  obtain ⟨p3, h4⟩ := parsePseudoAttribute_item T txt hT hG hX Lit.version lower_version ver hver
    (encd ++ (sd ++ (s4 ++ 63 :: 62 :: rest))) (p + 5 + s1.length)
  rw [hr]
  rcases hencd with rfl | ⟨s, a, hs, ha, rfl⟩
  · obtain ⟨p', Z, h5, h6, p'', h7⟩ := decl_sd T txt hT hG hX sd s4 rest hsd hs4 p3
    refine ⟨p'', ?_⟩
    rw [List.nil_append] at h1 h2 h3 h4 ⊢
    simp only [parseDeclaration, h1, Res.bind_ok, h2, h3, Bool.not_true, Bool.false_eq_true,
      if_false, h4, h5, declEncoding, h6, h7]
  · have h5 := declConsumeSpaces_sp0 T txt s (a ++ (sd ++ (s4 ++ 63 :: 62 :: rest))) hs.2
      (pseudo_noSp T hX lower_encoding ha _) (Or.inl hs.1) p3
    have h6 := pseudo_startsWith T ha (sd ++ (s4 ++ 63 :: 62 :: rest)) (p3 + s.length)
    obtain ⟨p4, h7⟩ := parsePseudoAttribute_item T txt hT hG hX Lit.encoding lower_encoding a ha
      (sd ++ (s4 ++ 63 :: 62 :: rest)) (p3 + s.length)
    obtain ⟨p', Z, h8, _, p'', h9⟩ := decl_sd T txt hT hG hX sd s4 rest hsd hs4 p4
    refine ⟨p'', ?_⟩
    rw [List.append_assoc] at h1 h2 h3 h4 ⊢
    simp only [parseDeclaration, h1, Res.bind_ok, h2, h3, Bool.not_true, Bool.false_eq_true,
      if_false, h4, h5, declEncoding, h6, if_true, h7, h8, h9]

end

end Rox.Lemmas.CT
