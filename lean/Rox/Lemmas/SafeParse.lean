/-
  Rox.Lemmas.SafeParse — the whole of `parse`: for every valid-UTF-8 input and every option value
  the model reaches neither a panic site nor the end of any fuel.
-/
import Rox.Lemmas.SafeText
import Rox.Lemmas.SafeElem
import Rox.Lemmas.Children

namespace Rox.Lemmas
open Rox Rox.Props.C06 Rox.Api

theorem AInv.log {txt : Bytes} {c : Ctx} (h : AInv txt c) (e : Ev) : AInv txt (c.log e) :=
  ⟨h.lim, h.nsOk, h.text, h.ents, h.depth⟩

theorem BInv.log {c : Ctx} (h : BInv c) (e : Ev) : BInv (c.log e) := h.congr rfl rfl rfl

theorem TokSafe.mono {txt : Bytes} {step : Token → Ctx → Res Ctx} {lo lo' : Nat}
    (h : TokSafe txt step lo) (hle : lo ≤ lo') : TokSafe txt step lo' :=
  fun q q' t c hp ht hb ha hq hlo => h q q' t c hp ht hb ha hq (by omega)

section
variable (T : Tables) (hT : TablesOK T) (txt : Bytes)

/-- a comment / PI node: `reset_after_text`, then `append_node` of a leaf -/
theorem appendLeaf_safe (c : Ctx) (k : Kind) (r : Range) (hkr : k.isRoot = false)
    (hke : k.isElement = false) (hb : BInv c) (ha : AInv txt c) :
    RSpec (do let c ← c.resetAfterText; let (c, _) ← c.appendNode k r; pure c)
      (fun c' => BInv c' ∧ AInv txt c' ∧ Keep c c') := by
  apply rspec_bind_eq _ _ _ _ (resetAfterText_safe (txt := txt) c ha)
  rintro c1 h1 ⟨a1, k1, ht1⟩
  have hb1 := binv_resetAfterText hb h1
  apply rspec_bind_eq _ _ _ _ (appendNode_safe c1 k r hb1 a1.lim)
  rintro ⟨c2, id⟩ h2 _
  obtain ⟨a2, k2⟩ := appendNode_ainv hb1 a1 (by intro hne; exact absurd ht1 hne)
    (by intro tn name attrs nss hk; subst hk; simp [Kind.isElement] at hke) h2
  exact rspec_ok _ _ ⟨binv_appendLeaf hb1 hkr hke h2, a2, Keep.trans k1 k2⟩

include hT in
theorem tokenStep_safe (lower : Token → Ctx → Res Ctx) (lo : Nat) (hlower : TokSafe txt lower (lo + 1)) :
    TokSafe txt (tokenStep T txt lower) lo := by
  intro q q' t c hp ht hb ha hq hlo
  unfold tokenStep
  dsimp only
  have hbl := hb.log (.token t)
  have hal := ha.log (.token t)
  cases t with
  | pi target value range =>
    have : q = false ∧ q' = false := by cases q <;> simp [protoStep] at hp ⊢; exact hp
    obtain ⟨rfl, rfl⟩ := this
    refine rspec_weaken (appendLeaf_safe txt _ (.pi target value) range rfl rfl hbl hal) ?_
    rintro c' ⟨b, a, k⟩
    exact ⟨b, a, by intro h; simp at h, k.1⟩
  | comment text range =>
    have : q = false ∧ q' = false := by cases q <;> simp [protoStep] at hp ⊢; exact hp
    obtain ⟨rfl, rfl⟩ := this
    refine rspec_weaken (appendLeaf_safe txt _ (.comment (.borrowed text)) range rfl rfl hbl hal) ?_
    rintro c' ⟨b, a, k⟩
    exact ⟨b, a, by intro h; simp at h, k.1⟩
  | entityDecl name value =>
    have : q = false ∧ q' = false := by cases q <;> simp [protoStep] at hp ⊢; exact hp
    obtain ⟨rfl, rfl⟩ := this
    refine rspec_ok _ _ ⟨hbl.congr rfl rfl rfl, ⟨hal.lim, hal.nsOk, hal.text, ?_, hal.depth⟩,
      by intro h; simp at h, rfl⟩
    intro e he
    simp only [List.mem_append, List.mem_singleton] at he
    rcases he with he | rfl
    · exact hal.ents e he
    · exact ht.2
  | elementStart pfx loc start =>
    have : q = false ∧ q' = true := by cases q <;> simp [protoStep] at hp ⊢; exact hp
    obtain ⟨rfl, rfl⟩ := this
    apply rspec_bind_eq _ _ _ _ (resetAfterText_safe (txt := txt) _ hal)
    rintro c1 h1 ⟨a1, k1, _⟩
    have hb1 := binv_resetAfterText hbl h1
    split
    · exact errPos_safe _ _ _ _
    · refine rspec_ok _ _ ⟨hb1.congr rfl rfl rfl, ⟨a1.lim, a1.nsOk, a1.text, a1.ents, a1.depth⟩, ?_, k1.1⟩
      intro _
      exact ht.2.2.2.1
  | «attribute» range qnameLen eqLen pfx loc value =>
    have : q = true ∧ q' = true := by cases q <;> simp [protoStep] at hp ⊢; exact hp
    obtain ⟨rfl, rfl⟩ := this
    refine rspec_weaken (processAttribute_safe T hT txt _ range qnameLen eqLen pfx loc value
      ht.2.2.2.1 hbl hal) ?_
    rintro c' ⟨b, a, k⟩
    refine ⟨b, a, ?_, k.1⟩
    intro _
    rw [k.2]
    exact hq rfl
  | elementEnd e range =>
    apply rspec_bind_eq _ _ _ _ (resetAfterText_safe (txt := txt) _ hal)
    rintro c1 h1 ⟨a1, k1, ht1⟩
    have hb1 := binv_resetAfterText hbl h1
    have htag : (∀ p l, e ≠ .close p l) → c1.tagName.name ≠ [] := by
      intro hne
      rw [k1.2]
      apply hq
      cases e with
      | close p l => exact absurd rfl (hne p l)
      | «open» => cases q <;> simp [protoStep] at hp ⊢
      | empty => cases q <;> simp [protoStep] at hp ⊢
    have hq' : q' = false := by
      cases e <;> cases q <;> simp [protoStep] at hp <;> exact hp
    subst hq'
    refine rspec_weaken (processElement_safe txt c1 e range hb1 a1 ht1 htag) ?_
    rintro c' ⟨b, a, k⟩
    exact ⟨b, a, by intro h; simp at h, by rw [k.1, k1.1]; rfl⟩
  | text text range =>
    have : q = false ∧ q' = false := by cases q <;> simp [protoStep] at hp ⊢; exact hp
    obtain ⟨rfl, rfl⟩ := this
    refine rspec_weaken (processText_safe T hT txt lower lo hlower _ text range ht.1 ht.2.2.1 hbl hal hlo) ?_
    rintro c' ⟨b, a, k⟩
    exact ⟨b, a, by intro h; simp at h, k.1⟩
  | cdata text range =>
    have : q = false ∧ q' = false := by cases q <;> simp [protoStep] at hp ⊢; exact hp
    obtain ⟨rfl, rfl⟩ := this
    refine rspec_weaken (processCdata_safe (txt := txt) _ text range hbl hal) ?_
    rintro c' ⟨b, a, k⟩
    exact ⟨b, a, by intro h; simp at h, k.1⟩

include hT in
/-- The builder with `d` levels of entity re-entry in reserve is safe for every context whose
loop-detector depth is at least `11 - d`; the loop detector never lets the depth exceed 10. -/
theorem token_safe : ∀ (d : Nat), TokSafe txt (token T txt d) (11 - d) := by
  intro d
  induction d with
  | zero =>
    intro q q' t c _ _ _ ha _ hlo
    have := ha.depth
    omega
  | succ d ih =>
    have : TokSafe txt (token T txt d) (11 - (d + 1) + 1) := ih.mono (by omega)
    exact tokenStep_safe T hT txt (token T txt d) (11 - (d + 1)) this

/-! ### The final checks -/

omit T in
theorem childrenList_safe (d : Doc) (h : LinkWF d.nodes) (p : Nat) :
    ∀ (fuel : Nat) (it : ChildrenIt), Reach d.nodes p it → (absIt d.nodes p it).length < fuel →
      childrenList d fuel it = .ok (absIt d.nodes p it) := by
  intro fuel
  induction fuel with
  | zero => intro it _ hl; omega
  | succ n ih =>
    intro it hr hl
    obtain ⟨it', hn, hr', habs⟩ := children_next d h p it hr
    simp only [childrenList, hn, Res.bind_ok]
    cases hk : absIt d.nodes p it with
    | nil => simp
    | cons x xs =>
      rw [hk] at habs hl
      simp only [List.head?_cons, List.tail_cons] at habs ⊢
      simp only [List.length_cons] at hl
      rw [ih it' hr' (by rw [habs]; omega), habs]
      rfl

omit T in
theorem findElement_safe (d : Doc) : ∀ (l : List Nat), (∀ j ∈ l, j < d.nodes.size) →
    RSpec (findElement d l) (fun _ => True) := by
  intro l
  induction l with
  | nil => intro _; exact rspec_ok _ _ trivial
  | cons j r ih =>
    intro h
    have hj : j < d.nodes.size := h j (by simp)
    have : d.nodes[j]? = some d.nodes[j] := by simp [hj]
    simp only [findElement, isElement, kindOf, getNodeUnwrap, this, Res.bind_ok, Res.pure_eq]
    split
    · exact rspec_ok _ _ trivial
    · exact ih (fun k hk => h k (by simp [hk]))

omit T in
theorem kidsIn_lt (a : Spec.Arena) (p lo hi : Nat) : ∀ j ∈ kidsIn a p lo hi, j ≤ hi := by
  intro j hj
  unfold kidsIn at hj
  have := (List.mem_filter.mp hj).1
  rw [List.mem_range'_1] at this
  omega

omit T in
theorem kidsIn_length (a : Spec.Arena) (p lo hi : Nat) : (kidsIn a p lo hi).length ≤ hi + 1 - lo := by
  unfold kidsIn
  exact Nat.le_trans (List.length_filter_le _ _) (by simp)

omit T in
theorem rootHasElement_safe (d : Doc) (h : LinkWF d.nodes) (hsz : 0 < d.nodes.size)
    (hsmall : d.nodes.size ≤ 4294967295) : RSpec (rootHasElement d) (fun _ => True) := by
  obtain ⟨it, hc, hr, habs⟩ := children_init d h hsmall 0 hsz
  unfold rootHasElement
  simp only [hc, Res.bind_ok]
  have hlen : (absIt d.nodes 0 it).length < fuelN d := by
    rw [habs]
    have := kidsIn_length d.nodes 0 0 (d.nodes.size - 1)
    unfold fuelN; omega
  rw [childrenList_safe d h 0 _ it hr hlen]
  simp only [Res.bind_ok]
  apply rspec_bind _ _ (fun _ => True)
  · apply findElement_safe
    intro j hj
    rw [habs] at hj
    have := kidsIn_lt _ _ _ _ j hj
    omega
  · intro _ _; exact rspec_ok _ _ trivial

omit T in
theorem finish_safe (c : Ctx) (hb : BInv c) (hl : c.doc.nodes.size ≤ 4294967295)
    (hn : NsOk c.doc c.nsStartIdx) :
    RSpec (finish c) (fun c' => BInv c' ∧ NsOk c'.doc c'.nsStartIdx ∧ c'.doc.nodes.size ≤ 4294967295) := by
  unfold finish
  apply rspec_bind _ _ (fun _ => True) _
    (rootHasElement_safe c.doc hb.wf (by have := hb.pid_lt; omega) hl)
  intro has _
  split
  · exact rspec_err _ _
  · split
    · exact rspec_err _ _
    · refine rspec_ok _ _ ⟨hb.congr rfl rfl rfl, ?_, hl⟩
      exact ⟨⟨hn.ns.size_le, hn.ns.tree_lt, by intro i hi; simp at hi⟩, hn.xml0, hn.start, hn.elem, hn.attrNs⟩

include hT in
/-- **`parse` never panics and always terminates**: for every input that is valid UTF-8 (what a
Rust `&str` is) and every option value whose node limit fits the `u32` it is declared as, the
outcome is `Ok` or `Err` — no `unwrap`, `expect`, index, slice or `unreachable!` site of tokenizer,
builder or final checks is reached, and no loop runs out of its (locally computed) fuel. -/
theorem parseCtx_spec (hv : ValidUtf8 txt) (opt : Opt) (hlim : opt.nodesLimit ≤ 4294967295) :
    RSpec (parseCtx T txt depthFuel opt)
      (fun c => BInv c ∧ NsOk c.doc c.nsStartIdx ∧ c.doc.nodes.size ≤ 4294967295) := by
  have key : RSpec (parseCtx T txt depthFuel opt)
      (fun c => BInv c ∧ NsOk c.doc c.nsStartIdx ∧ c.doc.nodes.size ≤ 4294967295) := by
    unfold parseCtx
    apply rspec_bind_eq _ _ (fun c0 => AInv txt c0 ∧ c0.ld.depth = 0)
    · -- initCtx
      unfold initCtx
      have hns0 : NsInv ({} : Namespaces) :=
        ⟨by simp, by intro i hi; simp at hi, by intro i hi; simp at hi⟩
      apply rspec_bind_eq _ _ _ _ (pushNs_safe {} hns0 (some ⟨0, Lit.xml⟩) (.borrowed ⟨0, nsXmlUri⟩))
      rintro ns hpush ⟨hns, htree, _, _⟩
      obtain ⟨_, idx, v, _, _, hv0, _⟩ := pushNs_spec {} ns _ _ hns0 hpush
      have hpos : 0 < ns.values.size := by
        have := (Array.getElem?_eq_some_iff.mp hv0).1; omega
      refine rspec_ok _ _ ⟨⟨hlim, ⟨hns, hpos, by simp only; rw [htree]; simp, ?_, ?_⟩, by intro h; simp at h,
        by intro e he; simp at he, by simp⟩, rfl⟩
      · intro i n tn name attrs nss hi hk
        simp only at hi
        cases i with
        | zero =>
          simp only [List.getElem?_toArray, List.getElem?_cons_zero, Option.some.injEq] at hi
          subst hi
          simp [rootNode] at hk
        | succ i => simp at hi
      · intro k a hk
        simp at hk
    · rintro c0 h0 ⟨ha0, hd0⟩
      have hb0 := binv_init txt opt c0 h0
      dsimp only
      have hspec := parseDocument_spec T hT txt hv opt.allowDtd
      obtain ⟨qe, hrun, _⟩ := parseDocument_proto T txt opt.allowDtd
      apply rspec_bind_eq _ _ _ _
        (runTokens_safe txt (token T txt depthFuel) (11 - depthFuel) (token_safe T hT txt depthFuel)
          (tokenize T txt opt.allowDtd).1 (tokenize T txt opt.allowDtd).2 hspec.safe false qe c0 hrun
          hspec.toks hb0 ha0 (by intro h; simp at h) (by simp [depthFuel]))
      rintro c1 h1 ⟨hb1, ha1, _, _⟩
      have hsz : c1.doc.nodes.size ≤ 4294967295 := by
        have hso := runTokens_sizeOk (token T txt depthFuel) (token_sizeOk T txt depthFuel) _ _ _ _ h1
        have hl0 : c0.nodesLimit = opt.nodesLimit := by
          unfold initCtx at h0
          rw [Res.bind_eq_ok] at h0
          obtain ⟨ns, _, h0⟩ := h0
          simp only [Res.pure_eq, Res.ok.injEq] at h0
          subst h0; rfl
        have hs0 : c0.doc.nodes.size = 1 := by
          unfold initCtx at h0
          rw [Res.bind_eq_ok] at h0
          obtain ⟨ns, _, h0⟩ := h0
          simp only [Res.pure_eq, Res.ok.injEq] at h0
          subst h0; rfl
        obtain ⟨e1, e2, e3⟩ := hso
        rcases e3 with e3 | e3
        · omega
        · rw [e1, hl0] at e3; omega
      exact finish_safe c1 hb1 hsz ha1.nsOk
  exact key

include hT in
theorem parseCtx_safe (hv : ValidUtf8 txt) (opt : Opt) (hlim : opt.nodesLimit ≤ 4294967295) :
    Res.Safe (parseCtx T txt depthFuel opt) := (parseCtx_spec T hT txt hv opt hlim).safe

end
end Rox.Lemmas
