/-
  Rox.Lemmas.MirrorNsBuild2 — Stage B'' of the proof of `accepted_namespaces_resolve`, part 2: the
  correspondence `NCore` between a builder context and a state of the namespace machine
  (`Rox.Lemmas.MirrorNsDefs`), the frame `NKeep` (steps that touch neither the tables nor an
  element node), and the items that are not start tags.
-/
import Rox.Lemmas.MirrorNsBuild1
import Rox.Lemmas.MirrorBuild4

namespace Rox.Lemmas.MN
open Rox Rox.Spec Rox.Spec.Grammar Rox.Spec.Canon4 Rox.Spec.Mirror Rox.Spec.MirrorNs
open Rox.Props.C06 Rox.Lemmas.RtB Rox.Lemmas.GB Rox.Lemmas.MB

/-! ### The element nodes -/

/-- the kind of an element node -/
def ek (x : Kind × Option Nat) : Option Kind := if x.1.isElement then some x.1 else none

/-- the kinds of the element nodes, in id order -/
def ekinds (c : Ctx) : List Kind := (kps c).filterMap ek

theorem ek_keep {k k' : Kind} {p p' : Option Nat} (h : KindKeep k k') : ek (k', p') = ek (k, p) := by
  rcases h with rfl | ⟨h1, h2⟩
  · rfl
  · cases k <;> cases k' <;> simp_all [Kind.isText, ek, Kind.isElement]

theorem filterMap_set_same {α β} (f : α → Option β) (l : List α) (i : Nat) (x y : α)
    (hx : l[i]? = some x) (h : f y = f x) : (l.set i y).filterMap f = l.filterMap f := by
  induction l generalizing i with
  | nil => rfl
  | cons a t ih =>
    cases i with
    | zero =>
      simp only [List.getElem?_cons_zero, Option.some.injEq] at hx
      subst hx
      simp only [List.set_cons_zero, List.filterMap_cons, h]
    | succ i =>
      simp only [List.getElem?_cons_succ] at hx
      simp only [List.set_cons_succ, List.filterMap_cons, ih i hx]

theorem mem_ekinds {c : Ctx} {i : Nat} {nd : NodeData} (h : c.doc.nodes[i]? = some nd)
    (he : nd.kind.isElement = true) : nd.kind ∈ ekinds c := by
  unfold ekinds
  rw [List.mem_filterMap]
  refine ⟨kp nd, ?_, by simp [ek, kp, he]⟩
  have : (kps c)[i]? = some (kp nd) := by rw [kps_getElem?, h]; rfl
  exact List.mem_of_getElem? this

/-! ### Steps that touch neither the tables nor an element node -/

structure NKeep (c c' : Ctx) : Prop where
  ns : c'.doc.ns = c.doc.ns
  attrs : c'.doc.attrs = c.doc.attrs
  nsi : c'.nsStartIdx = c.nsStartIdx
  keep : SKeep c.doc.nodes c'.doc.nodes
  ek : ekinds c' = ekinds c

theorem NKeep.refl (c : Ctx) : NKeep c c := ⟨rfl, rfl, rfl, SKeep.refl _, rfl⟩

theorem NKeep.trans {a b c : Ctx} (h1 : NKeep a b) (h2 : NKeep b c) : NKeep a c :=
  ⟨h2.ns.trans h1.ns, h2.attrs.trans h1.attrs, h2.nsi.trans h1.nsi, h1.keep.trans h2.keep,
    h2.ek.trans h1.ek⟩

theorem NKeep.of_eq {c c' : Ctx} (hd : c'.doc = c.doc) (hn : c'.nsStartIdx = c.nsStartIdx) :
    NKeep c c' :=
  ⟨by rw [hd], by rw [hd], hn, by rw [hd]; exact SKeep.refl _, by unfold ekinds kps; rw [hd]⟩

theorem nkeep_log (c : Ctx) (e : Ev) : NKeep c (c.log e) := NKeep.of_eq rfl rfl

theorem gsh_tables {c c' : Ctx} (h : GSh c c') :
    c'.doc.ns = c.doc.ns ∧ c'.doc.attrs = c.doc.attrs ∧ c'.nsStartIdx = c.nsStartIdx := by
  obtain ⟨n, a, f, t, rfl⟩ := h
  exact ⟨rfl, rfl, rfl⟩

theorem nkeep_mergeText {c c' : Ctx} (h : c.mergeText = .ok c') : NKeep c c' := by
  obtain ⟨g1, g2, g3⟩ := gsh_tables (gb_mergeText_sh h)
  refine ⟨g1, g2, g3, (mergeText_sfr (txt := []) h).1.keep, ?_⟩
  unfold Ctx.mergeText at h
  dsimp only at h
  split at h
  · simp at h
  · split at h
    · simp at h
    · rename_i n hn
      split at h
      · rename_i sx hkx
        simp only [Res.ok.injEq] at h
        subst h
        unfold ekinds kps Ctx.setNode
        simp only [Array.toList_setIfInBounds, List.map_set]
        apply filterMap_set_same ek _ _ (kp n)
        · simp only [List.getElem?_map, Array.getElem?_toList, hn, Option.map_some]
        · simp [ek, kp, hkx, Kind.isElement]
      · simp at h

theorem nkeep_reset {c c' : Ctx} (h : c.resetAfterText = .ok c') : NKeep c c' := by
  unfold Ctx.resetAfterText at h
  dsimp only at h
  split at h
  · simp only [Res.ok.injEq] at h; subst h; exact NKeep.refl _
  · split at h
    · rw [Res.bind_eq_ok] at h
      obtain ⟨c1, h1, h⟩ := h
      res_norm at h
      subst h
      exact (nkeep_mergeText h1).trans (NKeep.of_eq rfl rfl)
    · res_norm at h; subst h
      exact NKeep.of_eq rfl rfl

/-- `append_node`: the tables are not touched, one node is appended -/
theorem appendNode_ekinds {c c' : Ctx} {k : Kind} {r : Range} {id : Nat} (hb : BInv c)
    (h : c.appendNode k r = .ok (c', id)) :
    c'.doc.ns = c.doc.ns ∧ c'.doc.attrs = c.doc.attrs ∧ c'.nsStartIdx = c.nsStartIdx ∧
      SKeep c.doc.nodes c'.doc.nodes ∧ id = c.doc.nodes.size ∧
      (∃ nd, c'.doc.nodes[id]? = some nd ∧ nd.kind = k) ∧
      ekinds c' = ekinds c ++ (if k.isElement then [k] else []) := by
  obtain ⟨g1, g2, g3⟩ := gsh_tables (gb_appendNode_sh h)
  obtain ⟨hkps, hid, _⟩ := appendNode_kps hb h
  obtain ⟨hf, _, nd, hnd, _, hk⟩ := appendNode_sfr (txt := []) hb h
  refine ⟨g1, g2, g3, hf.keep, hid, ⟨nd, hnd, hk⟩, ?_⟩
  unfold ekinds
  rw [hkps, List.filterMap_append]
  congr 1
  simp only [List.filterMap_cons, List.filterMap_nil, ek]
  cases k.isElement <;> rfl

theorem nkeep_appendLeaf {c c' : Ctx} {k : Kind} {r : Range} {id : Nat} (hb : BInv c)
    (hk : k.isElement = false) (h : c.appendNode k r = .ok (c', id)) : NKeep c c' := by
  obtain ⟨g1, g2, g3, g4, _, _, g5⟩ := appendNode_ekinds hb h
  refine ⟨g1, g2, g3, g4, ?_⟩
  rw [g5, hk]
  simp

theorem nkeep_appendText {c c' : Ctx} {s : Str} {r : Range} (hb : BInv c)
    (h : c.appendText s r = .ok c') : NKeep c c' := by
  unfold Ctx.appendText at h
  dsimp only at h
  have hb0 : BInv (c.log (.textFragment s r)) := hb.congr rfl rfl rfl
  split at h
  · rw [Res.bind_eq_ok] at h
    obtain ⟨⟨c2, id⟩, h2, h1⟩ := h
    res_norm at h1
    subst h1
    exact ((nkeep_log c _).trans (nkeep_appendLeaf hb0 rfl h2)).trans (NKeep.of_eq rfl rfl)
  · res_norm at h
    subst h
    exact NKeep.of_eq rfl rfl

theorem nkeep_leaf {c c1 c2 : Ctx} {e : Ev} {k : Kind} {r : Range} {id : Nat} (hb : BInv c)
    (hk : k.isElement = false) (h1 : (c.log e).resetAfterText = .ok c1)
    (h2 : c1.appendNode k r = .ok (c2, id)) : NKeep c c2 := by
  have hb0 : BInv (c.log e) := hb.congr rfl rfl rfl
  have hb1 := binv_resetAfterText hb0 h1
  exact ((nkeep_log c e).trans (nkeep_reset h1)).trans (nkeep_appendLeaf hb1 hk h2)

/-! ### The correspondence -/

/-- the scopes of the open elements -/
def StkOk (d : Doc) : List Nat → List Scope → Prop
  | [], [] => True
  | id :: ids, sc :: scs => (∃ nd, d.nodes[id]? = some nd ∧ scopeK d.ns nd.kind = sc) ∧ StkOk d ids scs
  | _, _ => False

theorem StkOk.mono {d d' : Doc}
    (h : ∀ (id : Nat) (nd : NodeData), d.nodes[id]? = some nd →
      ∃ nd' : NodeData, d'.nodes[id]? = some nd' ∧ scopeK d'.ns nd'.kind = scopeK d.ns nd.kind) :
    ∀ (ids : List Nat) (scs : List Scope), StkOk d ids scs → StkOk d' ids scs
  | [], [], _ => trivial
  | id :: ids, sc :: scs, ⟨⟨nd, h1, h2⟩, hr⟩ => by
    obtain ⟨nd', g1, g2⟩ := h id nd h1
    exact ⟨⟨nd', g1, g2.trans h2⟩, StkOk.mono h ids scs hr⟩
  | [], _ :: _, hf => hf.elim
  | _ :: _, [], hf => hf.elim

theorem StkOk.tail {d : Doc} : ∀ (ids : List Nat) (scs : List Scope), StkOk d ids scs →
    StkOk d ids.tail scs.tail
  | [], [], _ => trivial
  | _ :: _, _ :: _, h => h.2
  | [], _ :: _, hf => hf.elim
  | _ :: _, [], hf => hf.elim

theorem StkOk.head {d : Doc} : ∀ (ids : List Nat) (scs : List Scope), StkOk d ids scs → ids ≠ [] →
    nodeScope d (ids.headD 0) = scs.headD [] ∧ (ids.headD 0) < d.nodes.size
  | [], _, _, hne => absurd rfl hne
  | id :: ids, sc :: scs, ⟨⟨nd, h1, h2⟩, _⟩, _ => by
    refine ⟨?_, (Array.getElem?_eq_some_iff.mp h1).1⟩
    show nodeScope d id = sc
    unfold nodeScope
    rw [h1]
    exact h2
  | _ :: _, [], hf, _ => hf.elim

/-- the builder context `c` is in the state `n` of the namespace machine; `ids` are the ids of the
open elements (the stack of the arena machine) -/
structure NCore (ids : List Nat) (n : NStk) (c : Ctx) : Prop where
  nsinv : NsInv c.doc.ns
  xml0 : ∃ v, c.doc.ns.values[0]? = some v ∧ v.uri.bytes = nsXmlUri
  start : c.nsStartIdx ≤ c.doc.ns.treeOrder.size
  good : ∀ k ∈ ekinds c, GoodE c.doc k
  agood : ∀ a ∈ c.doc.attrs.toList, ∀ j, a.nsIdx = some j → j < c.doc.ns.values.size
  out : (ekinds c).filterMap (viewE c.doc) = n.out
  stk : StkOk c.doc ids n.stk
  nd : NdStk n.stk

theorem NCore.nsOk {ids : List Nat} {n : NStk} {c : Ctx} (h : NCore ids n c) :
    NsOk c.doc c.nsStartIdx := by
  obtain ⟨v, hv, _⟩ := h.xml0
  refine ⟨h.nsinv, (Array.getElem?_eq_some_iff.mp hv).1, h.start, ?_, ?_⟩
  · intro i nd tn name attrs nss hi hk
    have := h.good nd.kind (mem_ekinds hi (by rw [hk]; rfl))
    rw [hk] at this
    exact this
  · intro k a hk j hj
    exact h.agood a (List.mem_of_getElem? (by simpa using hk)) j hj

theorem GoodE.ext {d d' : Doc} (he : TExt d d') {k : Kind} (h : GoodE d k) : GoodE d' k := by
  cases k with
  | element tn name attrs nss =>
    obtain ⟨g1, g2, g3, g4, g5⟩ := h
    obtain ⟨m1, ht⟩ := he.tree
    obtain ⟨m2, ha⟩ := he.attrs
    have s1 : d.ns.treeOrder.size ≤ d'.ns.treeOrder.size := by
      rw [← Array.length_toList, ← Array.length_toList, ht, List.length_append]; omega
    have s2 : d.attrs.size ≤ d'.attrs.size := by
      rw [← Array.length_toList, ← Array.length_toList, ha, List.length_append]; omega
    refine ⟨g1, by omega, g3, by omega, ?_⟩
    intro j hj
    have hlt := g5 j hj
    have := he.vals j hlt
    rw [Array.getElem?_eq_getElem hlt] at this
    exact (Array.getElem?_eq_some_iff.mp this).1
  | _ => trivial

theorem scopeK_keep {ns : Namespaces} {k k' : Kind} (h : KindKeep k k') : scopeK ns k' = scopeK ns k := by
  rcases h with rfl | ⟨h1, h2⟩
  · rfl
  · cases k <;> cases k' <;> simp_all [Kind.isText, scopeK]

/-- the correspondence survives a step that touches neither the tables nor an element node -/
theorem NCore.keep {ids : List Nat} {n : NStk} {c c' : Ctx} (h : NCore ids n c) (hk : NKeep c c') :
    NCore ids n c' := by
  have he : TExt c.doc c'.doc := TExt.of_eq hk.ns hk.attrs
  refine ⟨by rw [hk.ns]; exact h.nsinv, by rw [hk.ns]; exact h.xml0,
    by rw [hk.ns, hk.nsi]; exact h.start, ?_, by rw [hk.ns, hk.attrs]; exact h.agood, ?_, ?_, h.nd⟩
  · intro k hkm
    rw [hk.ek] at hkm
    exact (h.good k hkm).ext he
  · rw [hk.ek, ← h.out]
    apply filterMap_congr'
    intro k hkm
    exact viewE_ext he h.nsinv h.agood k (h.good k hkm)
  · refine StkOk.mono ?_ ids n.stk h.stk
    intro id nd hnd
    obtain ⟨nd', g1, _, g3⟩ := hk.keep id nd hnd
    refine ⟨nd', g1, ?_⟩
    rw [hk.ns]
    exact scopeK_keep g3

/-- the scope of the current parent -/
theorem NCore.parent {ids : List Nat} {n : NStk} {c : Ctx} (h : NCore ids n c) (hne : ids ≠ [])
    (hp : c.parentId = ids.headD 0) : nodeScope c.doc c.parentId = n.top ∧ NdScope n.top := by
  rw [hp]
  exact ⟨(StkOk.head ids n.stk h.stk hne).1, ndstk_top h.nd⟩

/-! ### Items that are not start tags -/

section
variable (T : Tables) (txt : Bytes) (lower : Token → Ctx → Res Ctx)

theorem mn_tok_comment {stk : List QP} {ids : List Nat} {n : NStk} {c c' : Ctx} {sp : Span}
    {r : Range} (hg : GInv stk c) (hn : NCore ids n c)
    (h : tokenStep T txt lower (.comment sp r) c = .ok c') : NCore ids n c' := by
  unfold tokenStep at h
  dsimp only at h
  rw [Res.bind_eq_ok] at h
  obtain ⟨c1, h1, h⟩ := h
  rw [Res.bind_eq_ok] at h
  obtain ⟨⟨c2, id⟩, h2, h⟩ := h
  res_norm at h
  subst h
  exact hn.keep (nkeep_leaf hg.binv rfl h1 h2)

theorem mn_tok_pi {stk : List QP} {ids : List Nat} {n : NStk} {c c' : Ctx} {sp : Span}
    {vo : Option Span} {r : Range} (hg : GInv stk c) (hn : NCore ids n c)
    (h : tokenStep T txt lower (.pi sp vo r) c = .ok c') : NCore ids n c' := by
  unfold tokenStep at h
  dsimp only at h
  rw [Res.bind_eq_ok] at h
  obtain ⟨c1, h1, h⟩ := h
  rw [Res.bind_eq_ok] at h
  obtain ⟨⟨c2, id⟩, h2, h⟩ := h
  res_norm at h
  subst h
  exact hn.keep (nkeep_leaf hg.binv rfl h1 h2)

theorem mn_tok_cdata {stk : List QP} {ids : List Nat} {n : NStk} {c c' : Ctx} {sp : Span}
    {r : Range} (hg : GInv stk c) (hn : NCore ids n c)
    (h : tokenStep T txt lower (.cdata sp r) c = .ok c') : NCore ids n c' := by
  unfold tokenStep at h
  dsimp only at h
  have hb0 : BInv (c.log (.token (.cdata sp r))) := hg.binv.congr rfl rfl rfl
  unfold processCdata at h
  split at h
  · exact hn.keep ((nkeep_log c _).trans (nkeep_appendText hb0 h))
  · exact hn.keep ((nkeep_log c _).trans (nkeep_appendText hb0 h))

theorem mn_tok_text (hP : TextDec T txt lower) {stk : List QP} {a : AS} {ids : List Nat} {n : NStk}
    {c c' : Ctx} {sp : Span} {r : Range} (hg : GInv stk c) (hm : MCore a c) (hn : NCore ids n c)
    (htok : TokOk txt (.text sp r)) (hne : sp.bytes ≠ []) (hlt : bLt ∉ sp.bytes)
    (h : tokenStep T txt lower (.text sp r) c = .ok c') : NCore ids n c' := by
  unfold tokenStep at h
  dsimp only at h
  have hb0 : BInv (c.log (.token (.text sp r))) := hg.binv.congr rfl rfl rfl
  obtain ⟨hsu, _, hr, _⟩ := htok
  obtain ⟨s, _, happ⟩ := hP (c.log (.token (.text sp r))) c' sp r hg.ents hm.ld hr hsu.1.1 hne hlt h
  exact hn.keep ((nkeep_log c _).trans (nkeep_appendText hb0 happ))

/-- `resolve_namespaces` does nothing when no declaration is pending -/
theorem resolveNamespaces_nodecl {c c1 : Ctx} {nss : Range}
    (hs : c.nsStartIdx = c.doc.ns.treeOrder.size) (h : resolveNamespaces c = .ok (c1, nss)) :
    c1 = c := by
  unfold resolveNamespaces at h
  rw [Res.bind_eq_ok] at h
  obtain ⟨p, _, h⟩ := h
  split at h
  · split at h
    · res_norm at h
      exact h.1.symm
    · rename_i hne
      exact absurd (by simpa using hs) hne
  · res_norm at h
    exact h.1.symm

theorem nkeep_close {stk : List QP} {c c' : Ctx} {p l : Span} {r : Range} (hg : GInv stk c)
    (h : processElement txt c (.close p l) r = .ok c') : NKeep c c' := by
  unfold processElement at h
  split at h
  · exact absurd h (errPos_ne_ok _ _ _ _)
  · rw [Res.bind_eq_ok] at h
    obtain ⟨⟨c1, nss⟩, h1, h⟩ := h
    try dsimp only at h
    rw [Res.bind_eq_ok] at h
    obtain ⟨⟨c2, attrs⟩, h2, h⟩ := h
    have e1 := resolveNamespaces_nodecl hg.nsi h1
    subst e1
    have hk2 : NKeep c1 c2 := by
      unfold resolveAttributes at h2
      have : ({ c1 with nsStartIdx := c1.doc.ns.treeOrder.size, xmlDeclared := false } :
          Ctx).curAttrs.isEmpty = true := by
        show c1.curAttrs.isEmpty = true
        rw [hg.cur]; rfl
      rw [if_pos this] at h2
      simp only [Res.ok.injEq, Prod.mk.injEq] at h2
      obtain ⟨e2, _⟩ := h2
      subst e2
      exact NKeep.of_eq rfl hg.nsi.symm
    refine hk2.trans ?_
    clear h1 h2 hk2 hg
    split at h
    · exact absurd h (errPos_ne_ok _ _ _ _)
    · rw [Res.bind_eq_ok] at h
      obtain ⟨nd, hpn', h⟩ := h
      split at h
      · simp at h
      · rename_i parentPrefix restPrefixes hpp
        split at h
        · exact absurd h (errPos_ne_ok _ _ _ _)
        · rename_i hmis
          split at h
          · rename_i id hid
            dsimp only at hpn' hpp hmis hid
            have hpn : c2.doc.nodes[c2.parentId]? = some nd := by
              unfold Ctx.nodeAt at hpn'
              split at hpn' <;> simp at hpn'
              subst hpn'; assumption
            generalize hpd : (if c2.positions = true then
                ({ nd with range := (nd.range.1, r.2) } : NodeData) else nd) = pnew at h hmis hid
            have hpk : pnew.kind = nd.kind ∧ pnew.parent = nd.parent := by
              subst hpd; split <;> exact ⟨rfl, rfl⟩
            res_norm at h
            subst h
            refine ⟨rfl, rfl, rfl, ?_, ?_⟩
            · exact skeep_set _ _ nd _ hpn hpk.2 (Or.inl hpk.1)
            · show (kps (c2.setNode c2.parentId pnew)).filterMap ek = _
              have : kps (c2.setNode c2.parentId pnew) = kps c2 := by
                unfold kps Ctx.setNode
                exact kps_set_same _ _ nd _ hpn (by simp [kp, hpk.1, hpk.2])
              rw [this]
              rfl
          · exact absurd h (errPos_ne_ok _ _ _ _)

theorem mn_tok_close {stk : List QP} {ids : List Nat} {n : NStk} {c c' : Ctx} {p l : Span}
    {r : Range} (hg : GInv stk c) (hn : NCore ids n c)
    (h : tokenStep T txt lower (.elementEnd (.close p l) r) c = .ok c') :
    NCore ids.tail ⟨n.out, n.stk.tail⟩ c' := by
  unfold tokenStep at h
  dsimp only at h
  rw [Res.bind_eq_ok] at h
  obtain ⟨c1, h1, h⟩ := h
  obtain ⟨hg1, _, _⟩ := gb_reset hg h1
  have hn' := hn.keep (((nkeep_log c _).trans (nkeep_reset h1)).trans (nkeep_close txt hg1 h))
  exact ⟨hn'.nsinv, hn'.xml0, hn'.start, hn'.good, hn'.agood, hn'.out,
    StkOk.tail ids n.stk hn'.stk, fun sc hsc => hn'.nd sc (List.mem_of_mem_tail hsc)⟩

end

end Rox.Lemmas.MN
