/-
  Rox.Lemmas.ErrPayloadBuild — the tree builder in the payload logic: with the invariant `CI` and
  tokens that carry pieces of the input (`TokP`), every error the builder raises carries names taken
  from the input; entity re-entry included.
-/
import Rox.Lemmas.ErrPayloadCtx
import Rox.Lemmas.ErrPayloadTok

namespace Rox.Lemmas.EP
open Rox

/-- the end-tag name is one piece of the input -/
def EndP (txt : Bytes) : EndKind → Prop
  | .close p l => genQNameString p.bytes l.bytes <:+: txt
  | _ => True

theorem endP_of_tokP {txt : Bytes} {e : EndKind} {r : Range} (h : TokP txt (.elementEnd e r)) :
    EndP txt e := by
  cases e with
  | close p l => exact h
  | «open» => trivial
  | empty => trivial

theorem ek_ht_true {txt : Bytes} {α} {r : Res α} (h : EK txt r) : HT txt r (fun _ => True) :=
  ht_of_ek h (fun _ _ => trivial)

theorem sigs_getElem? (a : Array NodeData) (i : Nat) : (sigs a)[i]? = (a[i]?).map sig := by
  simp [sigs]

theorem sigs_length (a : Array NodeData) : (sigs a).length = a.size := by simp [sigs]

theorem nodeAt_ok {c : Ctx} {i : Nat} {n : NodeData} (h : c.nodeAt i = .ok n) :
    c.doc.nodes[i]? = some n := by
  unfold Ctx.nodeAt at h
  split at h
  · rename_i m hm; cases h; exact hm
  · cases h

section
variable (T : Tables) (txt : Bytes)

theorem getNsIdxByPrefix_ek (doc : Doc) (nss : Range) (pp : Nat) (pfx : Bytes) (h : pfx <:+: txt) :
    EK txt (getNsIdxByPrefix txt doc nss pp pfx) := by
  unfold getNsIdxByPrefix
  ek using getNsFind_ek
  all_goals exact ek_errPos _ _ _ (fun _ => h)

theorem attrNsIdx_ek (doc : Doc) (nss : Range) (a : TempAttr) (h : a.pfx.bytes <:+: txt) :
    EK txt (attrNsIdx txt doc nss a) := by
  unfold attrNsIdx
  ek using getNsIdxByPrefix_ek

theorem resolveAttrsLoop_ek (positions : Bool) (nss : Range) (startIdx : Nat) :
    ∀ (l : List TempAttr) (doc : Doc), (∀ a ∈ l, a.pfx.bytes <:+: txt ∧ a.loc.bytes <:+: txt) →
      EK txt (resolveAttrsLoop txt positions nss startIdx l doc) := by
  intro l
  induction l with
  | nil => intro doc _; unfold resolveAttrsLoop; ek
  | cons a r ih =>
    intro doc h
    have h1 := (h a (by simp)).1
    have h2 := (h a (by simp)).2
    have hr : ∀ x ∈ r, x.pfx.bytes <:+: txt ∧ x.loc.bytes <:+: txt := fun x hx => h x (by simp [hx])
    unfold resolveAttrsLoop
    ek using ih, attrNsIdx_ek, expandedName_ek, anyM_ek, attrExpanded_ek
    all_goals exact ek_errPos _ _ _ (fun _ => h2)

theorem resolveAttributes_ek {c : Ctx} (hc : CI txt c) (nss : Range) :
    EK txt (resolveAttributes txt c nss) := by
  unfold resolveAttributes
  have := hc.attrs
  ek using resolveAttrsLoop_ek

theorem processElement_ht {c : Ctx} (hc : CI txt c) (e : EndKind) (he : EndP txt e) (r : Range) :
    HT txt (processElement txt c e r) (CI txt) := by
  unfold processElement
  split
  · split
    · ht
    · ht
  · apply ht_bind _ _ _ (ht_of_ek (resolveNamespaces_ek txt c) (Q := fun p => Fr c p.1)
      (fun a ha => resolveNamespaces_Fr ha))
    rintro ⟨c1, nss⟩ h1
    dsimp only at h1 ⊢
    have hc1 : CI txt { c1 with nsStartIdx := c1.doc.ns.treeOrder.size, xmlDeclared := false } :=
      (hc.frame h1).frame (Fr.of_eq rfl rfl rfl rfl rfl rfl)
    apply ht_bind _ _ _ (ht_of_ek (resolveAttributes_ek txt hc1 nss) (Q := fun p => Fr _ p.1)
      (fun a ha => resolveAttributes_Fr ha))
    rintro ⟨c2, attrs⟩ h2
    have hc2 : CI txt c2 := hc1.frame h2
    dsimp only
    split
    · -- empty
      apply ht_bind _ _ _ (ek_ht_true (getNsIdxByPrefix_ek txt _ _ _ _ hc2.tagPfx))
      intro tagNs _
      apply ht_bind _ _ _ (ht_of_ek (appendNode_ek txt _ _ _) (Q := fun p => Fr c2 p.1)
        (fun a ha => appendNode_Fr ha))
      rintro ⟨c3, newId⟩ h3
      exact ht_pure _ _ ((hc2.frame h3).frame (Fr.of_eq rfl rfl rfl rfl rfl rfl))
    · -- close
      rename_i pfx loc
      split
      · ht
      · apply ht_bind _ _ _ (ht_of_ek (nodeAt_ek txt c2 _)
          (Q := fun p => c2.doc.nodes[c2.parentId]? = some p) (fun a ha => nodeAt_ok ha))
        intro p hp
        split
        · exact ht_panic _ _
        · rename_i parentPrefix restPrefixes hpp
          have hch := hc2.chain
          rw [hpp] at hch
          obtain ⟨par, nm, hsm, hnm, hpar⟩ := hch
          rw [sigs_getElem?, hp] at hsm
          simp only [Option.map_some, Option.some.injEq, sig, Prod.mk.injEq] at hsm
          obtain ⟨rfl, rfl⟩ := hsm
          try dsimp only
          generalize hp' : (if c2.positions = true then { p with range := (p.range.1, r.2) } else p) = p'
          have hk : p'.kind = p.kind := by rw [← hp']; split <;> rfl
          have hpa : p'.parent = p.parent := by rw [← hp']; split <;> rfl
          split
          · rename_i exp act heq
            refine ht_errPos _ _ _ (fun _ => ?_)
            show exp <:+: txt ∧ act <:+: txt
            split at heq
            · rename_i ns tn at' nss' hkind
              split at heq
              · simp only [Option.some.injEq, Prod.mk.injEq] at heq
                obtain ⟨rfl, rfl⟩ := heq
                refine ⟨hnm tn.bytes ?_, he⟩
                rw [← hk, hkind]; rfl
              · cases heq
            · cases heq
          · try dsimp only
            split
            · rename_i id hid
              refine ht_pure _ _ ⟨hc2.ents, hc2.attrs, hc2.tagPfx, hc2.tagQ, ?_⟩
              show PP txt (sigs (c2.doc.nodes.setIfInBounds c2.parentId p')) id restPrefixes
              rw [sigs_set _ _ p p' hp (by simp [sig, hk, hpa])]
              exact hpar id (by rw [← hpa]; exact hid)
            · ht
    · -- open
      apply ht_bind _ _ _ (ek_ht_true (getNsIdxByPrefix_ek txt _ _ _ _ hc2.tagPfx))
      intro tagNs _
      apply ht_bind _ _ _ (ht_of_ek (appendNode_ek txt _ _ _)
        (Q := fun p => Fr c2 p.1 ∧ sigs p.1.doc.nodes = sigs c2.doc.nodes ++
          [(some c2.parentId, elemName (.element tagNs c2.tagName.nameSpan attrs nss))] ∧
          p.2 = c2.doc.nodes.size)
        (fun a ha => ⟨appendNode_Fr ha, (appendNode_fr ha).2.2.2.2.2.1, (appendNode_fr ha).2.2.2.2.2.2⟩))
      rintro ⟨c3, newId⟩ ⟨h3, hsg, hid⟩
      dsimp only at h3 hsg hid ⊢
      have hc3 := hc2.frame h3
      refine ht_pure _ _ ⟨hc3.ents, hc3.attrs, hc3.tagPfx, hc3.tagQ, ?_⟩
      show PP txt (sigs c3.doc.nodes) newId (c3.tagName.pfx :: c3.parentPrefixes)
      refine ⟨some c2.parentId, some c2.tagName.nameSpan.bytes, ?_, ?_, ?_⟩
      · rw [hsg, hid, ← sigs_length, List.getElem?_concat_length]; rfl
      · intro tn htn
        simp only [Option.some.injEq] at htn
        subst htn
        rw [h3.tag]; exact hc2.tagQ
      · intro pid hpid
        simp only [Option.some.injEq] at hpid
        subst hpid
        have := hc3.chain
        rw [h3.pid] at this
        exact this

variable (hv : ValidUtf8 txt)
include hv
set_option linter.unusedSectionVars false

theorem normAttrLoop_ht (ents : List Entity) (hents : ∀ e ∈ ents, e.value.bytes <:+: txt)
    (rec : Span → TextBuffer → LD → List Ev → Res (TextBuffer × LD × List Ev))
    (hrec : ∀ a b c d, a.bytes <:+: txt → HT txt (rec a b c d) (fun _ => True)) :
    ∀ (fuel : Nat) (s : Stream) (buf : TextBuffer) (ld : LD) (tr : List Ev), Sub txt s →
      HT txt (normAttrLoop T txt ents rec fuel s buf ld tr) (fun _ => True) := by
  intro fuel
  induction fuel with
  | zero => intro s buf ld tr _; unfold normAttrLoop; ht
  | succ n ih =>
    intro s buf ld tr hs
    unfold normAttrLoop
    split
    · ht
    · rename_i c r hr
      split
      · split
        · ht
        · exact ih _ _ _ _ (tail_sub txt hs hr _)
      · apply ht_bind _ _ _ (consumeReference_ht T txt hs)
        rintro ⟨s', ref⟩ ⟨hs', href⟩
        dsimp only at hs' href ⊢
        split
        · try dsimp only
          split
          · split
            · ht
            · exact ih _ _ _ _ hs'
          · exact ih _ _ _ _ hs'
        · rename_i name
          have hn : name.bytes <:+: txt := href _ rfl
          split
          · rename_i ent hfind
            have hent := hents ent (List.mem_of_find?_eq_some hfind)
            split
            · ht
            · try dsimp only
              split
              · ht
              · apply ht_bind _ _ _ (skipXmlChars_ht T txt hv (s := ⟨ent.value.off, ent.value.bytes⟩) hent)
                intro _ _
                apply ht_bind _ _ _ (hrec _ _ _ _ hent)
                rintro ⟨buf', ld3, tr'⟩ _
                exact ih _ _ _ _ hs'
          · exact ht_errFrom _ _ _ (fun _ => hn)
        · ht

theorem normAttrRec_ht (ents : List Entity) (hents : ∀ e ∈ ents, e.value.bytes <:+: txt) :
    ∀ (d : Nat) (text : Span) (buf : TextBuffer) (ld : LD) (tr : List Ev), text.bytes <:+: txt →
      HT txt (normAttrRec T txt ents d text buf ld tr) (fun _ => True) := by
  intro d
  induction d with
  | zero => intro text buf ld tr _; unfold normAttrRec; ht
  | succ n ih =>
    intro text buf ld tr h
    unfold normAttrRec
    exact normAttrLoop_ht T txt hv ents hents _ ih _ _ _ _ _ h

theorem normalizeAttribute_ht {c : Ctx} (hc : CI txt c) (v : Span) (hval : v.bytes <:+: txt) :
    HT txt (normalizeAttribute T txt c v) (fun p => Fr c p.1) := by
  unfold normalizeAttribute
  split
  · apply ht_bind _ _ _ (normAttrRec_ht T txt hv _ hc.ents _ _ _ _ _ hval)
    rintro ⟨buf, ld, tr⟩ _
    apply ht_bind _ _ _ (ek_ht_true (bufFinish_ek txt _))
    intro out _
    exact ht_pure _ _ (Fr.of_eq rfl rfl rfl rfl rfl rfl)
  · exact ht_ok _ _ (Fr.refl _)

theorem processAttribute_ht {c : Ctx} (hc : CI txt c) (range : Range) (q e : Nat) (pfx loc value : Span)
    (hp : pfx.bytes <:+: txt) (hl : loc.bytes <:+: txt) (hval : value.bytes <:+: txt) :
    HT txt (processAttribute T txt c range q e pfx loc value) (CI txt) := by
  unfold processAttribute
  apply ht_bind _ _ _ (normalizeAttribute_ht T txt hv hc value hval)
  rintro ⟨c1, value'⟩ h1
  dsimp only at h1 ⊢
  have hc1 : CI txt (c1.log (.attrValue value')) := (hc.frame h1).frame (log_Fr _ _)
  revert hc1
  generalize c1.log (.attrValue value') = c2
  intro hc2
  have hnil : ([] : Bytes) <:+: txt := List.nil_infix
  split
  · ht using (ek_ht_true (exists_ek txt _ _ _)), (ek_ht_true (pushNs_ek txt _ _ _))
    all_goals first
      | exact ht_pure _ _ (hc2.frame (Fr.of_eq rfl rfl rfl rfl rfl rfl))
      | skip
  · split
    · ht using (ek_ht_true (exists_ek txt _ _ _)), (ek_ht_true (pushNs_ek txt _ _ _))
      all_goals first
        | exact ht_pure _ _ (hc2.frame (Fr.of_eq rfl rfl rfl rfl rfl rfl))
        | skip
    · refine ht_pure _ _ ⟨hc2.ents, ?_, hc2.tagPfx, hc2.tagQ, hc2.chain⟩
      intro a ha
      rcases List.mem_append.mp ha with h | h
      · exact hc2.attrs a h
      · simp only [List.mem_singleton] at h
        subst h
        exact ⟨hp, hl⟩

omit hv in
theorem parseNextChunk_ht (ents : List Entity) {s : Stream} (hs : Sub txt s) :
    HT txt (parseNextChunk T txt ents s) (fun p => Sub txt p.1) := by
  unfold parseNextChunk
  split
  · ht
  · rename_i c r hr
    split
    · apply ht_bind _ _ _ (consumeReference_ht T txt hs)
      rintro ⟨s', ref⟩ ⟨hs', href⟩
      dsimp only at hs' href ⊢
      split
      · exact ht_pure _ _ hs'
      · split
        · exact ht_pure _ _ hs'
        · exact ht_errFrom _ _ _ (fun _ => href _ rfl)
      · ht
    · exact ht_ok _ _ (tail_sub txt hs hr _)

omit hv in
theorem feed_ht (step : Token → Ctx → Res Ctx)
    (hstep : ∀ t c, TokP txt t → CI txt c → HT txt (step t c) (CI txt)) :
    ∀ (l : List Token) (c : Ctx), (∀ t ∈ l, TokP txt t) → CI txt c →
      HT txt (feed step l c) (CI txt) := by
  intro l
  induction l with
  | nil => intro c _ hc; unfold feed; exact ht_ok _ _ hc
  | cons a r ih =>
    intro c hl hc
    unfold feed
    have h := hstep a c (hl a (by simp)) hc
    split
    · rename_i c' heq
      exact ih _ (fun t ht => hl t (by simp [ht])) (h.ok _ heq)
    · rename_i e heq
      exact ht_err _ _ (h.err _ heq)
    · exact ht_panic _ _
    · exact ht_fuel _

omit hv in
theorem runTokens_ht {α} (step : Token → Ctx → Res Ctx)
    (hstep : ∀ t c, TokP txt t → CI txt c → HT txt (step t c) (CI txt))
    (toks : List Token) (htoks : ∀ t ∈ toks, TokP txt t) (stop : Res α) (hstop : EK txt stop)
    (c : Ctx) (hc : CI txt c) : HT txt (runTokens step toks stop c) (CI txt) := by
  unfold runTokens
  have h := feed_ht txt step hstep toks c htoks hc
  split
  · rename_i c' heq
    split
    · exact ht_ok _ _ (h.ok _ heq)
    · rename_i e
      exact ht_err _ _ (hstop.out _ rfl)
    · exact ht_panic _ _
    · exact ht_fuel _
  · exact h

theorem processTextLoop_ht (lower : Token → Ctx → Res Ctx)
    (hl : ∀ t c, TokP txt t → CI txt c → HT txt (lower t c) (CI txt)) (range : Range) :
    ∀ (fuel : Nat) (s : Stream) (buf : TextBuffer) (c : Ctx), Sub txt s → CI txt c →
      HT txt (processTextLoop T txt lower range fuel s buf c) (fun p => CI txt p.2) := by
  intro fuel
  induction fuel with
  | zero => intro s buf c _ _; unfold processTextLoop; ht
  | succ n ih =>
    intro s buf c hs hc
    unfold processTextLoop
    split
    · exact ht_ok _ _ hc
    · apply ht_bind _ _ _ (parseNextChunk_ht T txt c.entities hs)
      rintro ⟨s1, chunk⟩ hs1
      dsimp only at hs1 ⊢
      split
      · exact ih _ _ _ hs1 hc
      · try dsimp only
        split
        · exact ih _ _ _ hs1 hc
        · exact ih _ _ _ hs1 hc
      · rename_i fragment
        apply ht_bind _ _ _ (ht_of_ek (flushBuffer_ek txt c buf range) (Q := fun c1 => Fr c c1)
          (fun a ha => flushBuffer_Fr ha))
        intro c1 h1
        have hc1 := hc.frame h1
        split
        · ht
        · try dsimp only
          split
          · ht
          · rename_i ld1 _ ld2 _
            try dsimp only
            have htk := tokenizeContent_ht T txt hv fragment.off fragment.stop
            revert htk
            cases tokenizeContent T txt fragment.off fragment.stop with
            | mk toks stop =>
              intro htk
              dsimp only
              refine ht_bind _ _ _ (runTokens_ht txt lower hl toks htk.toks stop (ek_of_ht htk.res) _
                ⟨hc1.ents, hc1.attrs, List.nil_infix, List.nil_infix, hc1.chain⟩) ?_
              intro c2 hc2
              split
              · ht
              · exact ih _ _ _ hs1 ⟨hc2.ents, hc2.attrs, hc1.tagPfx, hc1.tagQ, hc2.chain⟩

theorem processText_ht (lower : Token → Ctx → Res Ctx)
    (hl : ∀ t c, TokP txt t → CI txt c → HT txt (lower t c) (CI txt)) {c : Ctx} (hc : CI txt c)
    (t : Span) (r : Range) : HT txt (processText T txt lower c t r) (CI txt) := by
  unfold processText
  split
  · exact ht_of_ek (appendText_ek txt _ _ _) (fun a ha => hc.frame (appendText_Fr ha))
  · dsimp only
    apply ht_bind _ _ _ (processTextLoop_ht T txt hv lower hl r _ _ _ _ (sub_ofRange txt _ _) hc)
    rintro ⟨buf, c1⟩ hc1
    exact ht_of_ek (flushBuffer_ek txt _ _ _) (fun a ha => CI.frame hc1 (flushBuffer_Fr ha))

theorem tokenStep_ht (lower : Token → Ctx → Res Ctx)
    (hl : ∀ t c, TokP txt t → CI txt c → HT txt (lower t c) (CI txt)) (t : Token) (c : Ctx)
    (ht : TokP txt t) (hc : CI txt c) : HT txt (tokenStep T txt lower t c) (CI txt) := by
  unfold tokenStep
  dsimp only
  have hc0 : CI txt (c.log (.token t)) := hc.frame (log_Fr _ _)
  revert hc0
  generalize c.log (.token t) = c0
  intro hc0
  have hreset : HT txt c0.resetAfterText (CI txt) :=
    ht_of_ek (resetAfterText_ek txt c0) (fun a ha => hc0.frame (resetAfterText_Fr ha))
  split
  · apply ht_bind _ _ _ hreset
    intro c1 hc1
    apply ht_bind _ _ _ (ht_of_ek (appendNode_ek txt _ _ _) (Q := fun p => CI txt p.1)
      (fun a ha => hc1.frame (appendNode_Fr ha)))
    rintro ⟨c2, _⟩ hc2
    exact ht_pure _ _ hc2
  · apply ht_bind _ _ _ hreset
    intro c1 hc1
    apply ht_bind _ _ _ (ht_of_ek (appendNode_ek txt _ _ _) (Q := fun p => CI txt p.1)
      (fun a ha => hc1.frame (appendNode_Fr ha)))
    rintro ⟨c2, _⟩ hc2
    exact ht_pure _ _ hc2
  · rename_i name value
    refine ht_pure _ _ ⟨?_, hc0.attrs, hc0.tagPfx, hc0.tagQ, hc0.chain⟩
    intro e he
    rcases List.mem_append.mp he with h | h
    · exact hc0.ents e h
    · simp only [List.mem_singleton] at h
      subst h
      exact ht
  · rename_i pfx loc start
    apply ht_bind _ _ _ hreset
    intro c1 hc1
    split
    · ht
    · exact ht_pure _ _ ⟨hc1.ents, hc1.attrs, ht.1, ht.2, hc1.chain⟩
  · rename_i range qnameLen eqLen pfx loc value
    exact processAttribute_ht T txt hv hc0 _ _ _ _ _ _ ht.1 ht.2.1 ht.2.2
  · rename_i e range
    apply ht_bind _ _ _ hreset
    intro c1 hc1
    exact processElement_ht txt hc1 e (endP_of_tokP ht) range
  · exact processText_ht T txt hv lower hl hc0 _ _
  · exact ht_of_ek (processCdata_ek txt _ _ _) (fun a ha => hc0.frame (processCdata_Fr ha))

theorem token_ht : ∀ (d : Nat) (t : Token) (c : Ctx), TokP txt t → CI txt c →
    HT txt (token T txt d t c) (CI txt) := by
  intro d
  induction d with
  | zero => intro t c _ _; unfold token; exact ht_fuel _
  | succ n ih => intro t c ht hc; unfold token; exact tokenStep_ht T txt hv _ ih t c ht hc

omit hv in
theorem initCtx_ci {opt : Opt} {c : Ctx} (h : initCtx txt opt = .ok c) : CI txt c := by
  unfold initCtx at h
  dsimp only at h
  rw [Res.bind_eq_ok] at h
  obtain ⟨ns, _, h⟩ := h
  res_norm at h
  subst h
  refine ⟨(by intro e he; cases he), (by intro a ha; cases ha), List.nil_infix, List.nil_infix, ?_⟩
  exact ⟨none, none, rfl, (by intro tn h; cases h), (by intro pid h; cases h)⟩

theorem parseCtx_ek (d : Nat) (opt : Opt) : EK txt (parseCtx T txt d opt) := by
  unfold parseCtx
  apply ek_of_ht (Q := fun _ => True)
  apply ht_bind _ _ _ (ht_of_ek (initCtx_ek txt opt) (Q := CI txt) (fun a ha => initCtx_ci txt ha))
  intro c hc
  have htk := tokenize_ht T txt hv opt.allowDtd
  revert htk
  cases tokenize T txt opt.allowDtd with
  | mk toks stop =>
    intro htk
    dsimp only
    apply ht_bind _ _ _ (runTokens_ht txt _ (token_ht T txt hv d) toks htk.toks stop (ek_of_ht htk.res) c hc)
    intro c1 _
    exact ek_ht_true (finish_ek txt c1)

theorem parse_ek (opt : Opt) : EK txt (parse T txt opt) := by
  unfold parse
  ek using parseCtx_ek

end

end Rox.Lemmas.EP
