/-
  Rox.Lemmas.GrammarBuild1 — Stage B of the grammar-soundness proof, part 1: the invariant of the
  builder between two items (`GInv`), frame lemmas for the node-appending primitives, and the
  items that are not start tags (comments, PIs, CDATA sections, character data, end tags).
-/
import Rox.Lemmas.GrammarDefs
import Rox.Lemmas.GrammarRef
import Rox.Lemmas.GrammarAttr
import Rox.Lemmas.Shape
import Rox.Lemmas.SingleRoot
import Rox.Props.C16Base

namespace Rox.Lemmas.GB
open Rox Rox.Spec.Grammar

/-! ### Shape of the context after the node-appending primitives -/

/-- only the arena, `awaiting`, `afterText` and the ghost trace differ -/
def GSh (c c' : Ctx) : Prop :=
  ∃ nodes aw af tr, c' = { c with doc := { c.doc with nodes := nodes }, awaiting := aw,
                                  afterText := af, trace := tr }

theorem GSh.refl (c : Ctx) : GSh c c := ⟨c.doc.nodes, c.awaiting, c.afterText, c.trace, rfl⟩

theorem GSh.trans {a b c : Ctx} (h1 : GSh a b) (h2 : GSh b c) : GSh a c := by
  obtain ⟨n1, a1, f1, t1, rfl⟩ := h1
  obtain ⟨n2, a2, f2, t2, rfl⟩ := h2
  exact ⟨n2, a2, f2, t2, rfl⟩

theorem gb_log_sh (c : Ctx) (e : Ev) : GSh c (c.log e) := ⟨c.doc.nodes, c.awaiting, c.afterText, _, rfl⟩

theorem gb_appendNode_sh {c c' : Ctx} {k : Kind} {r : Range} {id : Nat}
    (h : c.appendNode k r = .ok (c', id)) : GSh c c' := by
  unfold Ctx.appendNode at h
  split at h
  · simp at h
  · rw [Res.bind_eq_ok] at h
    obtain ⟨newId, hid, h⟩ := h
    simp only at h
    split at h
    · simp at h
    · split at h
      · simp at h
      · split at h
        · simp at h
        · rw [Res.bind_eq_ok] at h
          obtain ⟨nodes', hs, h⟩ := h
          simp only [pure, Res.ok.injEq, Prod.mk.injEq] at h
          obtain ⟨hc, hi⟩ := h
          subst hc
          exact ⟨_, _, _, _, rfl⟩

theorem gb_appendText_sh {c c' : Ctx} {t : Str} {r : Range} (h : c.appendText t r = .ok c') :
    GSh c c' := by
  unfold Ctx.appendText at h
  dsimp only at h
  split at h
  · rw [Res.bind_eq_ok] at h
    obtain ⟨⟨c2, id⟩, h2, h1⟩ := h
    res_norm at h1
    subst h1
    obtain ⟨n, a, f, t, rfl⟩ := (gb_log_sh c _).trans (gb_appendNode_sh h2)
    exact ⟨_, _, _, _, rfl⟩
  · res_norm at h
    subst h
    exact ⟨_, _, _, _, rfl⟩

theorem gb_mergeText_sh {c c' : Ctx} (h : c.mergeText = .ok c') : GSh c c' := by
  unfold Ctx.mergeText at h
  dsimp only at h
  split at h
  · simp at h
  · split at h
    · simp at h
    · split at h
      · simp only [Res.ok.injEq] at h
        subst h
        exact ⟨_, _, _, _, rfl⟩
      · simp at h

theorem gb_resetAfterText_sh {c c' : Ctx} (h : c.resetAfterText = .ok c') : GSh c c' := by
  unfold Ctx.resetAfterText at h
  dsimp only at h
  split at h
  · simp only [Res.ok.injEq] at h; subst h; exact GSh.refl _
  · split at h
    · rw [Res.bind_eq_ok] at h
      obtain ⟨c1, h1, h⟩ := h
      res_norm at h
      subst h
      obtain ⟨n, a, f, t, rfl⟩ := gb_mergeText_sh h1
      exact ⟨_, _, _, _, rfl⟩
    · res_norm at h; subst h
      exact ⟨_, _, _, _, rfl⟩

theorem gb_processCdata_sh {c c' : Ctx} {t : Span} {r : Range} (h : processCdata c t r = .ok c') :
    GSh c c' := by
  unfold processCdata at h
  split at h <;> exact gb_appendText_sh h

/-! ### The invariant -/

/-- walking up from `pid`: one element per entry of the stack, with that local name; then a node
without parent -/
def GChain (a : Array NodeData) : List QP → Nat → Prop
  | [], pid => ∃ nd, a[pid]? = some nd ∧ nd.parent = none
  | (_, l) :: rest, pid => ∃ nd ns tn as nss q, a[pid]? = some nd ∧
      nd.kind = .element ns tn as nss ∧ tn.bytes = l ∧ nd.parent = some q ∧ GChain a rest q

theorem GChain.mono {a a' : Array NodeData} (hk : SKeep a a') :
    ∀ (stk : List QP) (pid : Nat), GChain a stk pid → GChain a' stk pid := by
  intro stk
  induction stk with
  | nil =>
    intro pid h
    obtain ⟨nd, hn, hp⟩ := h
    obtain ⟨nd', hn', hp', _⟩ := hk pid nd hn
    exact ⟨nd', hn', hp'.trans hp⟩
  | cons top rest ih =>
    intro pid h
    obtain ⟨p, l⟩ := top
    obtain ⟨nd, ns, tn, as, nss, q, hn, hkd, htn, hp, hr⟩ := h
    obtain ⟨nd', hn', hp', hk'⟩ := hk pid nd hn
    refine ⟨nd', ns, tn, as, nss, q, hn', ?_, htn, hp'.trans hp, ih q hr⟩
    rcases hk' with e | ⟨ht, _⟩
    · rw [e]; exact hkd
    · rw [hkd] at ht; simp [Kind.isText] at ht

/-- the part of the invariant that also holds inside a start tag -/
structure GCore (stk : List QP) (c : Ctx) : Prop where
  binv : BInv c
  ents : c.entities = []
  floor : c.entityFloor = 0
  pp : c.parentPrefixes = stk.map Prod.fst ++ [[]]
  chain : GChain c.doc.nodes stk c.parentId

/-- the invariant between two items -/
structure GInv (stk : List QP) (c : Ctx) : Prop extends GCore stk c where
  cur : c.curAttrs = []
  xd : c.xmlDeclared = false
  nsi : c.nsStartIdx = c.doc.ns.treeOrder.size

/-- no element node yet -/
def NoElem (a : Array NodeData) : Prop := ∀ (i : Nat) (nd : NodeData), a[i]? = some nd → nd.kind.isElement = false

/-- a frame step: `GSh` and `SFr` -/
theorem GCore.frame {stk : List QP} {c c' : Ctx} (h : GCore stk c) (hs : GSh c c') (hf : SFr c c')
    (hb : BInv c') : GCore stk c' := by
  obtain ⟨n, a, f, t, rfl⟩ := hs
  refine ⟨hb, h.ents, h.floor, h.pp, ?_⟩
  have := GChain.mono hf.keep stk _ h.chain
  exact this

theorem GInv.frame {stk : List QP} {c c' : Ctx} (h : GInv stk c) (hs : GSh c c') (hf : SFr c c')
    (hb : BInv c') : GInv stk c' := by
  have hc := h.toGCore.frame hs hf hb
  obtain ⟨n, a, f, t, rfl⟩ := hs
  exact ⟨hc, h.cur, h.xd, h.nsi⟩

/-! ### `NoElem` -/

theorem gb_set_noelem (a : Array NodeData) (i : Nat) (m' : NodeData) (hn : NoElem a)
    (hk : m'.kind.isElement = false) : NoElem (a.setIfInBounds i m') := by
  intro j nd hj
  rw [Array.getElem?_setIfInBounds] at hj
  split at hj
  · split at hj
    · simp only [Option.some.injEq] at hj; subst hj; exact hk
    · simp at hj
  · exact hn j nd hj

theorem gb_appendNode_noelem {c c' : Ctx} {k : Kind} {r : Range} {id : Nat} (hb : BInv c)
    (h : c.appendNode k r = .ok (c', id)) (hk : k.isElement = false) (hn : NoElem c.doc.nodes) :
    NoElem c'.doc.nodes := by
  obtain ⟨hid, hsz, hold, ⟨p, hp, hnew⟩, _⟩ :=
    appendNode_spec c c' k r id hb.pid_lt hb.awaiting_lt h
  intro i nd hi
  have hlt : i < c'.doc.nodes.size := (Array.getElem?_eq_some_iff.mp hi).1
  by_cases hi' : i < c.doc.nodes.size
  · have := hold i hi'
    rw [hi] at this
    cases hci : c.doc.nodes[i]? with
    | none => rw [hci] at this; simp at this
    | some m =>
      rw [hci] at this
      simp only [Option.map_some, Option.some.injEq] at this
      subst this
      exact hn i m hci
  · have : i = c.doc.nodes.size := by omega
    subst this
    rw [hnew] at hi
    simp only [Option.some.injEq] at hi
    subst hi
    exact hk

theorem gb_appendText_noelem {c c' : Ctx} {t : Str} {r : Range} (hb : BInv c)
    (h : c.appendText t r = .ok c') (hn : NoElem c.doc.nodes) : NoElem c'.doc.nodes := by
  unfold Ctx.appendText at h
  dsimp only at h
  split at h
  · rw [Res.bind_eq_ok] at h
    obtain ⟨⟨c2, id⟩, h2, h1⟩ := h
    res_norm at h1
    subst h1
    have hb1 : BInv (c.log (Ev.textFragment t r)) := hb.congr rfl rfl rfl
    exact gb_appendNode_noelem (c' := c2) hb1 h2 (k := .text t) rfl hn
  · res_norm at h
    subst h
    exact hn

theorem gb_mergeText_noelem {c c' : Ctx} (h : c.mergeText = .ok c') (hn : NoElem c.doc.nodes) :
    NoElem c'.doc.nodes := by
  unfold Ctx.mergeText at h
  dsimp only at h
  split at h
  · simp at h
  · split at h
    · simp at h
    · split at h
      · simp only [Res.ok.injEq] at h
        subst h
        exact gb_set_noelem _ _ _ hn rfl
      · simp at h

theorem gb_resetAfterText_noelem {c c' : Ctx} (h : c.resetAfterText = .ok c')
    (hn : NoElem c.doc.nodes) : NoElem c'.doc.nodes := by
  unfold Ctx.resetAfterText at h
  dsimp only at h
  split at h
  · simp only [Res.ok.injEq] at h; subst h; exact hn
  · split at h
    · rw [Res.bind_eq_ok] at h
      obtain ⟨c1, h1, h⟩ := h
      res_norm at h
      subst h
      exact gb_mergeText_noelem (c' := c1) h1 hn
    · res_norm at h; subst h
      exact hn

theorem gb_processCdata_noelem {c c' : Ctx} {t : Span} {r : Range} (hb : BInv c)
    (h : processCdata c t r = .ok c') (hn : NoElem c.doc.nodes) : NoElem c'.doc.nodes := by
  unfold processCdata at h
  split at h <;> exact gb_appendText_noelem hb h hn

/-! ### `resolve_namespaces`, `resolve_attributes` -/

theorem gb_resolveNamespaces_sh {c c' : Ctx} {r : Range} (h : resolveNamespaces c = .ok (c', r)) :
    ∃ ns, c' = { c with doc := { c.doc with ns := ns } } := by
  unfold resolveNamespaces at h
  rw [Res.bind_eq_ok] at h
  obtain ⟨p, _, h⟩ := h
  split at h
  · split at h
    · res_norm at h; rw [← h.1]; exact ⟨c.doc.ns, rfl⟩
    · rw [Res.bind_eq_ok] at h
      obtain ⟨ns, _, h⟩ := h
      res_norm at h
      rw [← h.1]; exact ⟨ns, rfl⟩
  · res_norm at h; rw [← h.1]; exact ⟨c.doc.ns, rfl⟩

theorem gb_resolveAttrsLoop_sh (txt : Bytes) (pos : Bool) (nss : Range) (st : Nat) :
    ∀ (l : List TempAttr) (d d' : Doc), resolveAttrsLoop txt pos nss st l d = .ok d' →
      ∃ attrs, d' = { d with attrs := attrs } := by
  intro l
  induction l with
  | nil => intro d d' h; simp [resolveAttrsLoop] at h; subst h; exact ⟨d.attrs, rfl⟩
  | cons a r ih =>
    intro d d' h
    simp only [resolveAttrsLoop] at h
    rw [Res.bind_eq_ok] at h
    obtain ⟨nsIdx, _, h⟩ := h
    rw [Res.bind_eq_ok] at h
    obtain ⟨en, _, h⟩ := h
    rw [Res.bind_eq_ok] at h
    obtain ⟨dup, _, h⟩ := h
    split at h
    · exact absurd h (errPos_ne_ok _ _ _ _)
    · obtain ⟨attrs, rfl⟩ := ih _ _ h
      exact ⟨attrs, rfl⟩

theorem gb_resolveAttributes_sh {txt : Bytes} {c c' : Ctx} {nss r : Range}
    (h : resolveAttributes txt c nss = .ok (c', r)) :
    ∃ attrs, c' = { c with doc := { c.doc with attrs := attrs }, curAttrs := [] } := by
  unfold resolveAttributes at h
  split at h
  · rename_i he
    res_norm at h
    rw [← h.1]
    have : c.curAttrs = [] := by simpa using he
    refine ⟨c.doc.attrs, ?_⟩
    rw [← this]
  · split at h
    · simp at h
    · rw [Res.bind_eq_ok] at h
      obtain ⟨doc, hd, h⟩ := h
      res_norm at h
      obtain ⟨attrs, rfl⟩ := gb_resolveAttrsLoop_sh _ _ _ _ _ _ _ hd
      rw [← h.1]
      exact ⟨attrs, rfl⟩

/-! ### Items that are not tags -/

section
variable (T : Tables) (txt : Bytes) (lower : Token → Ctx → Res Ctx)

theorem gb_leaf {stk : List QP} {c c1 c2 c' : Ctx} {e : Ev} {k : Kind} {r : Range} {id : Nat}
    (hg : GInv stk c) (hb' : BInv c') (h1 : (c.log e).resetAfterText = .ok c1)
    (h2 : c1.appendNode k r = .ok (c2, id)) (he : c' = c2) (hk : k.isElement = false)
    (hb1 : BInv c1) :
    GInv stk c' ∧ (NoElem c.doc.nodes → NoElem c'.doc.nodes) := by
  subst he
  have s0 := gb_log_sh c e
  have f0 : SFr c (c.log e) := SFr.of_eq rfl rfl rfl rfl rfl rfl
  have s1 := gb_resetAfterText_sh h1
  obtain ⟨f1, _⟩ := resetAfterText_sfr (txt := []) h1
  have s2 := gb_appendNode_sh h2
  obtain ⟨f2, _, _⟩ := appendNode_sfr (txt := []) hb1 h2
  refine ⟨hg.frame ((s0.trans s1).trans s2) ((f0.trans f1).trans f2) hb', fun hn => ?_⟩
  exact gb_appendNode_noelem hb1 h2 hk (gb_resetAfterText_noelem h1 hn)

theorem gb_tok_comment {stk : List QP} {c c' : Ctx} {sp : Span} {r : Range} (hg : GInv stk c)
    (hb' : BInv c') (h : tokenStep T txt lower (.comment sp r) c = .ok c') :
    GInv stk c' ∧ (NoElem c.doc.nodes → NoElem c'.doc.nodes) := by
  unfold tokenStep at h
  dsimp only at h
  rw [Res.bind_eq_ok] at h
  obtain ⟨c1, h1, h⟩ := h
  rw [Res.bind_eq_ok] at h
  obtain ⟨⟨c2, id⟩, h2, h⟩ := h
  res_norm at h
  have hb0 : BInv (c.log (.token (.comment sp r))) := hg.binv.congr rfl rfl rfl
  exact gb_leaf hg hb' h1 h2 h.symm rfl (binv_resetAfterText hb0 h1)

theorem gb_tok_pi {stk : List QP} {c c' : Ctx} {sp : Span} {vo : Option Span} {r : Range}
    (hg : GInv stk c) (hb' : BInv c') (h : tokenStep T txt lower (.pi sp vo r) c = .ok c') :
    GInv stk c' ∧ (NoElem c.doc.nodes → NoElem c'.doc.nodes) := by
  unfold tokenStep at h
  dsimp only at h
  rw [Res.bind_eq_ok] at h
  obtain ⟨c1, h1, h⟩ := h
  rw [Res.bind_eq_ok] at h
  obtain ⟨⟨c2, id⟩, h2, h⟩ := h
  res_norm at h
  have hb0 : BInv (c.log (.token (.pi sp vo r))) := hg.binv.congr rfl rfl rfl
  exact gb_leaf hg hb' h1 h2 h.symm rfl (binv_resetAfterText hb0 h1)

theorem gb_tok_cdata {stk : List QP} {c c' : Ctx} {sp : Span} {r : Range}
    (hg : GInv stk c) (hb' : BInv c') (h : tokenStep T txt lower (.cdata sp r) c = .ok c') :
    GInv stk c' ∧ (NoElem c.doc.nodes → NoElem c'.doc.nodes) := by
  unfold tokenStep at h
  dsimp only at h
  have hb0 : BInv (c.log (.token (.cdata sp r))) := hg.binv.congr rfl rfl rfl
  have s0 := gb_log_sh c (.token (.cdata sp r))
  have f0 : SFr c (c.log (.token (.cdata sp r))) := SFr.of_eq rfl rfl rfl rfl rfl rfl
  have s1 := gb_processCdata_sh h
  have f1 : SFr (c.log (.token (.cdata sp r))) c' := by
    unfold processCdata at h
    split at h <;> exact (appendText_sfr (txt := []) hb0 h).1
  exact ⟨hg.frame (s0.trans s1) (f0.trans f1) hb', fun hn => gb_processCdata_noelem hb0 h hn⟩

theorem gb_tok_text {stk : List QP} {c c' : Ctx} {sp : Span} {r : Range}
    (hg : GInv stk c) (hb' : BInv c') (hsl : sliceBytes txt r.1 r.2 = sp.bytes)
    (hlt : bLt ∉ sp.bytes) (h : tokenStep T txt lower (.text sp r) c = .ok c') :
    GInv stk c' ∧ (NoElem c.doc.nodes → NoElem c'.doc.nodes) ∧ RefText T sp.bytes := by
  unfold tokenStep at h
  dsimp only at h
  have hb0 : BInv (c.log (.token (.text sp r))) := hg.binv.congr rfl rfl rfl
  have s0 := gb_log_sh c (.token (.text sp r))
  have f0 : SFr c (c.log (.token (.text sp r))) := SFr.of_eq rfl rfl rfl rfl rfl rfl
  obtain ⟨hrt, hc⟩ := processText_noent T txt lower (c.log (.token (.text sp r))) c' sp r hg.ents hsl hlt h
  rcases hc with hc | ⟨s, hs⟩
  · subst hc
    exact ⟨hg.frame s0 f0 hb', fun hn => hn, hrt⟩
  · have s1 := gb_appendText_sh hs
    have f1 := (appendText_sfr (txt := []) hb0 hs).1
    exact ⟨hg.frame (s0.trans s1) (f0.trans f1) hb', fun hn => gb_appendText_noelem hb0 hs hn, hrt⟩

/-- the preparatory steps of `process_element` re-establish the between-items invariant -/
theorem gb_prelude {stk : List QP} {c c1 c2 : Ctx} {nss attrs : Range} (hg : GCore stk c)
    (h1 : resolveNamespaces c = .ok (c1, nss))
    (h2 : resolveAttributes txt { c1 with nsStartIdx := c1.doc.ns.treeOrder.size, xmlDeclared := false }
      nss = .ok (c2, attrs)) :
    GInv stk c2 ∧ c2.doc.nodes = c.doc.nodes ∧ c2.tagName = c.tagName ∧
      c1.curAttrs = c.curAttrs := by
  have t1 := resolveNamespaces_triEq _ _ _ h1
  have t2 := resolveAttributes_triEq _ _ _ _ _ h2
  have hb2 : BInv c2 := t2.binv ((t1.binv hg.binv).congr rfl rfl rfl)
  obtain ⟨ns, e1⟩ := gb_resolveNamespaces_sh h1
  obtain ⟨ats, e2⟩ := gb_resolveAttributes_sh h2
  subst e1
  subst e2
  exact ⟨⟨⟨hb2, hg.ents, hg.floor, hg.pp, hg.chain⟩, rfl, rfl, rfl⟩, rfl, rfl, rfl⟩

theorem gb_close {stk : List QP} {c c' : Ctx} {p l : Span} {r : Range} (hg : GInv stk c)
    (hb' : BInv c') (h : processElement txt c (.close p l) r = .ok c') :
    ∃ rest, stk = (p.bytes, l.bytes) :: rest ∧ GInv rest c' ∧
      (NoElem c.doc.nodes → NoElem c'.doc.nodes) := by
  unfold processElement at h
  split at h
  · exact absurd h (errPos_ne_ok _ _ _ _)
  · rw [Res.bind_eq_ok] at h
    obtain ⟨⟨c1, nss⟩, h1, h⟩ := h
    try dsimp only at h
    rw [Res.bind_eq_ok] at h
    obtain ⟨⟨c2, attrs⟩, h2, h⟩ := h
    obtain ⟨hg2, hn2, _, _⟩ := gb_prelude txt hg.toGCore h1 h2
    rw [← hn2]
    clear h1 h2 hg hn2
    split at h
    · exact absurd h (errPos_ne_ok _ _ _ _)
    · rename_i hfloor
      rw [Res.bind_eq_ok] at h
      obtain ⟨nd, hpn', h⟩ := h
      split at h
      · simp at h
      · rename_i parentPrefix restPrefixes hpp
        split at h
        · exact absurd h (errPos_ne_ok _ _ _ _)
        · rename_i hmis
          split at h
          · rename_i id hid
            dsimp only at hfloor hpn' hpp hmis hid
            have hpn : c2.doc.nodes[c2.parentId]? = some nd := by
              unfold Ctx.nodeAt at hpn'
              split at hpn' <;> simp at hpn'
              subst hpn'; assumption
            generalize hpd : (if c2.positions = true then
                ({ nd with range := (nd.range.1, r.2) } : NodeData) else nd) = pnew at h hmis hid
            have hpk : pnew.kind = nd.kind ∧ pnew.parent = nd.parent := by
              subst hpd; split <;> exact ⟨rfl, rfl⟩
            have hkeep : SKeep c2.doc.nodes (c2.doc.nodes.setIfInBounds c2.parentId pnew) :=
              skeep_set _ _ nd _ hpn hpk.2 (Or.inl hpk.1)
            have hpp2 := hg2.pp
            have hch := hg2.chain
            rw [hpk.1] at hmis
            rw [hpk.2] at hid
            res_norm at h
            subst h
            cases stk with
            | nil =>
              obtain ⟨nd0, hn0, hp0⟩ := hch
              rw [hpn] at hn0
              simp only [Option.some.injEq] at hn0
              subst hn0
              rw [hp0] at hid
              simp at hid
            | cons top rest =>
              obtain ⟨pp, ll⟩ := top
              obtain ⟨nd0, ns0, tn, as0, nss0, q, hn0, hkd, htn, hp0, hr⟩ := hch
              rw [hpn] at hn0
              simp only [Option.some.injEq] at hn0
              subst hn0
              rw [hp0] at hid
              simp only [Option.some.injEq] at hid
              subst hid
              rw [hpp] at hpp2
              simp only [List.map_cons, List.cons_append, List.cons.injEq] at hpp2
              obtain ⟨e1, e2⟩ := hpp2
              rw [hkd] at hmis
              simp only at hmis
              split at hmis
              · simp at hmis
              · rename_i hne
                simp only [Bool.or_eq_true, bne_iff_ne, ne_eq, not_or, Decidable.not_not] at hne
                obtain ⟨e3, e4⟩ := hne
                refine ⟨rest, ?_, ⟨⟨hb', hg2.ents, hg2.floor, e2, ?_⟩, hg2.cur, hg2.xd, hg2.nsi⟩, ?_⟩
                · rw [e3, e4, htn, e1]
                · exact GChain.mono hkeep rest q hr
                · intro hn
                  refine gb_set_noelem _ _ _ hn ?_
                  rw [hpk.1]
                  exact hn _ _ hpn
          · exact absurd h (errPos_ne_ok _ _ _ _)

/-- `reset_after_text` after logging the token: a frame step -/
theorem gb_reset {stk : List QP} {c c1 : Ctx} {e : Ev} (hg : GInv stk c)
    (h1 : (c.log e).resetAfterText = .ok c1) :
    GInv stk c1 ∧ (NoElem c.doc.nodes → NoElem c1.doc.nodes) ∧ c1.tagName = c.tagName := by
  have hb0 : BInv (c.log e) := hg.binv.congr rfl rfl rfl
  have s0 := gb_log_sh c e
  have f0 : SFr c (c.log e) := SFr.of_eq rfl rfl rfl rfl rfl rfl
  have s1 := gb_resetAfterText_sh h1
  obtain ⟨f1, _⟩ := resetAfterText_sfr (txt := []) h1
  exact ⟨hg.frame (s0.trans s1) (f0.trans f1) (binv_resetAfterText hb0 h1),
    fun hn => gb_resetAfterText_noelem h1 hn, f1.tag⟩

theorem gb_tok_close {stk : List QP} {c c' : Ctx} {p l : Span} {r : Range} (hg : GInv stk c)
    (hb' : BInv c') (h : tokenStep T txt lower (.elementEnd (.close p l) r) c = .ok c') :
    ∃ rest, stk = (p.bytes, l.bytes) :: rest ∧ GInv rest c' ∧
      (NoElem c.doc.nodes → NoElem c'.doc.nodes) := by
  unfold tokenStep at h
  dsimp only at h
  rw [Res.bind_eq_ok] at h
  obtain ⟨c1, h1, h⟩ := h
  obtain ⟨hg1, hn1, _⟩ := gb_reset hg h1
  obtain ⟨rest, e, hg', hn'⟩ := gb_close txt hg1 hb' h
  exact ⟨rest, e, hg', fun hn => hn' (hn1 hn)⟩

end

end Rox.Lemmas.GB
