/-
  Rox.Lemmas.CompleteFlat — Stage 0 of the completeness proof: a derivation `RDoc T x txt` of a
  well-formed abstract document is flattened into the item list of `Rox.Lemmas.GrammarDefs` (the
  inverse of `Rox.Lemmas.GrammarAsm.assemble`): the concrete-syntax tree `CNode` of the root element
  and the Misc items around it, with everything the tokenizer and the builder will check of each
  item (`Item.Lex`, `Item.Sem`, `Item.StrictI`), end tags that name their start tags (`Closed`) and
  the shape `RootBal` that `parse_content` follows.
-/
import Rox.Lemmas.CompleteDefs
import Rox.Lemmas.GrammarPrim
import Rox.Lemmas.GrammarAsm

namespace Rox.Lemmas
open Rox Rox.Spec Rox.Spec.Grammar Rox.Spec.Mirror Rox.Spec.MirrorNs Rox.Spec.Complete

/-! ### References contain no `<` -/

theorem cfl_ref_no_lt (T : Tables) (r : Bytes) (h : Ref T r) : bLt ∉ r := by
  cases h with
  | named n hn =>
    simp only [predefined, List.mem_cons, List.not_mem_nil, or_false] at hn
    rcases hn with rfl | rfl | rfl | rfl | rfl <;> decide
  | dec ds n hd _ _ =>
    intro hm
    simp only [List.mem_append, List.mem_cons, List.not_mem_nil, or_false] at hm
    rcases hm with (hm | hm) | hm
    · rcases hm with hm | hm <;> exact absurd hm (by decide)
    · exact absurd (hd _ hm) (by decide)
    · exact absurd hm (by decide)
  | hex hs n hd _ _ =>
    intro hm
    simp only [List.mem_append, List.mem_cons, List.not_mem_nil, or_false] at hm
    rcases hm with (hm | hm) | hm
    · rcases hm with hm | hm | hm <;> exact absurd hm (by decide)
    · exact absurd (hd _ hm) (by decide)
    · exact absurd hm (by decide)

theorem cfl_refText_no_lt (T : Tables) (v : Bytes) (h : RefText T v) : bLt ∉ v := by
  induction h with
  | nil => exact List.not_mem_nil
  | lit b rest _ hb _ ih =>
    intro hm
    rcases List.mem_cons.1 hm with e | hm
    · exact hb e.symm
    · exact ih hm
  | ref r rest hr _ ih =>
    intro hm
    rcases List.mem_append.1 hm with hm | hm
    · exact cfl_ref_no_lt T r hr hm
    · exact ih hm

/-! ### The name of an end tag -/

theorem cfl_encodeChar_ne_nil (ch : Nat) : encodeChar ch ≠ [] := by
  unfold encodeChar
  repeat' split
  all_goals simp

theorem cfl_name_ne_nil (T : Tables) (bs : Bytes) (h : Name T bs) : bs ≠ [] := by
  obtain ⟨c, cs, rfl, _, _⟩ := h
  intro e
  simp only [enc, List.flatMap_cons, List.append_eq_nil_iff] at e
  exact cfl_encodeChar_ne_nil c e.1

theorem cfl_qparts_cons_left {all p l : Bytes} (hp : p ≠ []) (h : qparts all = (p, l)) :
    all = p ++ bColon :: l := by
  unfold qparts at h
  cases hsp : all.span (· != bColon) with
  | mk a y =>
    obtain ⟨h1, h2⟩ := gp_span_spec _ all a y hsp
    rw [hsp] at h
    cases y with
    | nil =>
      simp only [Prod.mk.injEq] at h
      exact (hp h.1.symm).elim
    | cons z t =>
      simp only [Prod.mk.injEq] at h
      obtain ⟨rfl, rfl⟩ := h
      have := h2 z t rfl
      simp only [bne_eq_false_iff_eq] at this
      rw [h1, this]

/-- WFC "Element Type Match" with the leading-colon leniency: a name with the parts of a `QName` is
a `QName`. -/
theorem cfl_qname_of_qparts (T : Tables) (q q' : Bytes) (hq : QName T q) (h : qparts q' = qparts q) :
    QName T q' := by
  rcases hq with hn | ⟨p, l, hp, hl, rfl⟩ | ⟨l, hl, rfl⟩
  · rw [gp_qparts_none q hn.2] at h
    rcases qparts_nil_left h with rfl | rfl
    · exact Or.inl hn
    · exact Or.inr (Or.inr ⟨q, hn, rfl⟩)
  · rw [List.append_assoc, List.singleton_append, gp_qparts_some p l hp.2] at h
    rw [cfl_qparts_cons_left (cfl_name_ne_nil T p hp.1) h]
    exact Or.inr (Or.inl ⟨p, l, hp, hl, by simp⟩)
  · have e : qparts (bColon :: l) = ([], l) := gp_qparts_some [] l List.not_mem_nil
    rw [e] at h
    rcases qparts_nil_left h with rfl | rfl
    · exact Or.inl hl
    · exact Or.inr (Or.inr ⟨l, hl, rfl⟩)

/-! ### Attributes -/

theorem cfl_attrs (T : Tables) (attrs : List (Bytes × Bytes)) (ab : Bytes) (h : RAttrs T attrs ab)
    (hw : ∀ a ∈ attrs, QName T a.1 ∧ AttValueOk T a.2) :
    ∃ cs : List AttrC, attrsAbs cs = attrs ∧ attrsBytes cs = ab ∧ (∀ a ∈ cs, a.Lex T) ∧
      (∀ a ∈ cs, RefText T a.v) := by
  induction h with
  | nil => exact ⟨[], rfl, rfl, fun a ha => absurd ha List.not_mem_nil, fun a ha => absurd ha List.not_mem_nil⟩
  | cons n v rest bs s1 s2 s3 q h1 h2 h3 hq hqv _ ih =>
    obtain ⟨cs, hca, hcb, hcl, hcr⟩ := ih (fun a ha => hw a (List.mem_cons_of_mem _ ha))
    obtain ⟨hn, hv⟩ := hw (n, v) (List.mem_cons_self ..)
    refine ⟨⟨s1, n, s2, s3, q, v⟩ :: cs, ?_, ?_, ?_, ?_⟩
    · show (n, v) :: attrsAbs cs = (n, v) :: rest
      rw [hca]
    · show (s1 ++ n ++ s2 ++ [bEq] ++ s3 ++ [q] ++ v ++ [q]) ++ attrsBytes cs = _
      rw [hcb]
    · intro a ha
      rcases List.mem_cons.1 ha with rfl | ha
      · exact ⟨h1, hn, h2, h3, hq, hqv, cfl_refText_no_lt T v hv.2, hv.1⟩
      · exact hcl a ha
    · intro a ha
      rcases List.mem_cons.1 ha with rfl | ha
      · exact hv.2
      · exact hcr a ha

/-- the start tag of an element whose attributes are well-formed -/
theorem cfl_stag (T : Tables) (q : Bytes) (attrs : List (Bytes × Bytes)) (ab s1 : Bytes) (e : Bool)
    (ha : RAttrs T attrs ab) (hs1 : Sp0 T s1) (hq : QName T q)
    (hw : ∀ a ∈ attrs, QName T a.1 ∧ AttValueOk T a.2)
    (hnd : (attrs.map fun a => qparts a.1).Nodup) :
    ∃ cs : List AttrC, attrsAbs cs = attrs ∧ attrsBytes cs = ab ∧
      (Item.stag q cs s1 e).Lex T ∧ (Item.stag q cs s1 e).Sem T := by
  obtain ⟨cs, hca, hcb, hcl, hcr⟩ := cfl_attrs T attrs ab ha hw
  refine ⟨cs, hca, hcb, ⟨hq, hs1, hcl⟩, hcr, ?_⟩
  rw [← hca, attrsAbs, List.map_map] at hnd
  exact hnd

/-! ### Nodes -/

/-- the item list begins with a run of character data -/
def flatStartsText : List Item → Bool
  | .text _ :: _ => true
  | _ => false

theorem cfl_startsText_ne (its : List Item) (h : flatStartsText its = false) :
    ∀ t' r, its ≠ .text t' :: r := by
  intro t' r e
  subst e
  exact Bool.noConfusion h

/-- what the flattening of a node delivers -/
structure FlatNode (T : Tables) (k : GNode) (b : Bytes) (c : CNode) : Prop where
  abs : c.abs = k
  bytes : flat c.items = b
  closed : c.Closed
  items : ∀ it ∈ c.items, it.Lex T ∧ it.Sem T ∧ it.StrictI
  bal : ∀ d rest, Bal d rest → (isText k = true → flatStartsText rest = false) → Bal d (c.items ++ rest)
  head : isText k = false → ∀ rest, flatStartsText (c.items ++ rest) = false
  root : isElem k = true → c.isElemC = true ∧ RootBal c.items

/-- what the flattening of the children of an element delivers -/
structure FlatKids (T : Tables) (ks : List GNode) (b : Bytes) (cs : List CNode) : Prop where
  abs : CNode.absAll cs = ks
  bytes : flat (CNode.itemsAll cs) = b
  closed : CNode.ClosedAll cs
  items : ∀ it ∈ CNode.itemsAll cs, it.Lex T ∧ it.Sem T ∧ it.StrictI
  bal : ∀ d rest, Bal d rest → flatStartsText rest = false → Bal d (CNode.itemsAll cs ++ rest)
  head : (∀ k' ks', ks = k' :: ks' → isText k' = false) → ∀ rest, flatStartsText rest = false →
    flatStartsText (CNode.itemsAll cs ++ rest) = false

/-- a node that is one item -/
theorem cfl_leaf_out (T : Tables) (k : GNode) (b : Bytes) (c : CNode) (it : Item)
    (hi : c.items = [it]) (ha : c.abs = k) (hb : it.bytes = b) (hc : c.Closed)
    (hl : it.Lex T ∧ it.Sem T ∧ it.StrictI) (he : isElem k = false)
    (hk : (it.isLeafNT = true ∧ isText k = false) ∨ (∃ t, it = .text t ∧ isText k = true)) :
    FlatNode T k b c := by
  refine ⟨ha, ?_, hc, ?_, ?_, ?_, ?_⟩
  · rw [hi]
    show it.bytes ++ [] = b
    rw [List.append_nil, hb]
  · intro x hx
    rw [hi] at hx
    rcases List.mem_cons.1 hx with rfl | hx
    · exact hl
    · exact absurd hx List.not_mem_nil
  · intro d rest hbal hrest
    rw [hi]
    show Bal d (it :: rest)
    rcases hk with ⟨h1, _⟩ | ⟨t, rfl, h2⟩
    · exact Bal.leaf d it rest h1 hbal
    · exact Bal.text d t rest (cfl_startsText_ne rest (hrest h2)) hbal
  · intro hnt rest
    rw [hi]
    show flatStartsText (it :: rest) = false
    rcases hk with ⟨h1, _⟩ | ⟨t, rfl, h2⟩
    · cases it <;> first | rfl | exact Bool.noConfusion h1
    · rw [h2] at hnt
      exact Bool.noConfusion hnt
  · intro h
    rw [he] at h
    exact Bool.noConfusion h

theorem cfl_noAdj_cons (k : GNode) (ks : List GNode) (h : noAdjText (k :: ks) = true) :
    noAdjText ks = true ∧ (isText k = true → ∀ k' ks', ks = k' :: ks' → isText k' = false) := by
  cases ks with
  | nil => exact ⟨rfl, fun _ k' ks' e => by cases e⟩
  | cons k1 r =>
    have h' : (!(isText k && isText k1) && noAdjText (k1 :: r)) = true := h
    rw [Bool.and_eq_true] at h'
    refine ⟨h'.2, ?_⟩
    intro hk k' ks' e
    injection e with e1 _
    subst e1
    have := h'.1
    rw [hk, Bool.true_and] at this
    cases hh : isText k1 with
    | false => rfl
    | true => rw [hh] at this; exact Bool.noConfusion this

theorem cfl_nil_out (T : Tables) : FlatKids T [] [] [] := by
  refine ⟨by simp only [CNode.absAll], by simp only [CNode.itemsAll]; rfl, by simp only [CNode.ClosedAll], ?_, ?_, ?_⟩
  · intro it hit
    simp only [CNode.itemsAll] at hit
    exact absurd hit List.not_mem_nil
  · intro d rest hb _
    simp only [CNode.itemsAll, List.nil_append]
    exact hb
  · intro _ rest hr
    simp only [CNode.itemsAll, List.nil_append]
    exact hr

theorem cfl_cons_out (T : Tables) (k : GNode) (ks : List GNode) (b bs : Bytes) (c : CNode)
    (cs : List CNode) (h1 : FlatNode T k b c) (h2 : FlatKids T ks bs cs)
    (hn : noAdjText (k :: ks) = true) : FlatKids T (k :: ks) (b ++ bs) (c :: cs) := by
  obtain ⟨_, hadj⟩ := cfl_noAdj_cons k ks hn
  have hit : CNode.itemsAll (c :: cs) = c.items ++ CNode.itemsAll cs := by simp only [CNode.itemsAll]
  refine ⟨?_, ?_, ?_, ?_, ?_, ?_⟩
  · simp only [CNode.absAll]
    rw [h1.abs, h2.abs]
  · rw [hit, asm_flat_append, h1.bytes, h2.bytes]
  · simp only [CNode.ClosedAll]
    exact ⟨h1.closed, h2.closed⟩
  · intro it hmem
    rw [hit] at hmem
    rcases List.mem_append.1 hmem with hm | hm
    · exact h1.items it hm
    · exact h2.items it hm
  · intro d rest hb hr
    rw [hit, List.append_assoc]
    apply h1.bal d _ (h2.bal d rest hb hr)
    intro hk
    exact h2.head (hadj hk) rest hr
  · intro hh rest _
    rw [hit, List.append_assoc]
    exact h1.head (hh k ks rfl) _

theorem cfl_text_out (T : Tables) (t : Bytes) (hw : GWf T (.text t)) :
    FlatNode T (.text t) t (.text t) := by
  rw [asm_gwf_text] at hw
  obtain ⟨h1, h2, h3, h4⟩ := hw
  exact cfl_leaf_out T _ _ (.text t) (.text t) (by simp only [CNode.items]) (by simp only [CNode.abs])
    rfl (by simp only [CNode.Closed]) ⟨⟨h1, h2, cfl_refText_no_lt T t h3, h4⟩, h3, trivial⟩ rfl
    (Or.inr ⟨t, rfl, rfl⟩)

theorem cfl_cdata_out (T : Tables) (b : Bytes) (hw : GWf T (.cdata b)) :
    FlatNode T (.cdata b) (Lit.cdataStart ++ b ++ Lit.cdataEnd) (.cdata b) := by
  rw [asm_gwf_cdata] at hw
  exact cfl_leaf_out T _ _ (.cdata b) (.cdata b) (by simp only [CNode.items]) (by simp only [CNode.abs])
    rfl (by simp only [CNode.Closed]) ⟨hw, trivial, trivial⟩ rfl (Or.inl ⟨rfl, rfl⟩)

theorem cfl_comment_out (T : Tables) (b : Bytes) (hw : GWf T (.comment b)) :
    FlatNode T (.comment b) (Lit.commentStart ++ b ++ Lit.commentEnd) (.comment b) := by
  rw [asm_gwf_comment] at hw
  exact cfl_leaf_out T _ _ (.comment b) (.comment b) (by simp only [CNode.items])
    (by simp only [CNode.abs]) rfl (by simp only [CNode.Closed]) ⟨hw, trivial, trivial⟩ rfl
    (Or.inl ⟨rfl, rfl⟩)

theorem cfl_pi_out (T : Tables) (t s v : Bytes) (hs : Sp0 T s) (hvs : v ≠ [] → s ≠ [])
    (hw : GWf T (.pi t v)) (hst : Strict (.pi t v)) :
    FlatNode T (.pi t v) (Lit.piStart ++ t ++ s ++ v ++ Lit.piEnd) (.pi t s v) := by
  rw [asm_gwf_pi] at hw
  obtain ⟨h1, h2, h3⟩ := hw
  simp only [Strict] at hst
  exact cfl_leaf_out T _ _ (.pi t s v) (.pi t s v) (by simp only [CNode.items])
    (by simp only [CNode.abs]) rfl (by simp only [CNode.Closed]) ⟨⟨h1, hs, hvs, h2, h3⟩, trivial, hst⟩
    rfl (Or.inl ⟨rfl, rfl⟩)

theorem cfl_empty_out (T : Tables) (q : Bytes) (attrs : List (Bytes × Bytes)) (ab s1 : Bytes)
    (ha : RAttrs T attrs ab) (hs1 : Sp0 T s1) (hw : GWf T (.elem q attrs [])) :
    ∃ c, FlatNode T (.elem q attrs []) ([bLt] ++ q ++ ab ++ s1 ++ [bSlash, bGt]) c := by
  rw [asm_gwf_elem] at hw
  obtain ⟨hq, hat, hnd, _, _⟩ := hw
  obtain ⟨cs, hca, hcb, hlex, hsem⟩ := cfl_stag T q attrs ab s1 true ha hs1 hq hat hnd
  have hi : (CNode.empty q cs s1).items = [.stag q cs s1 true] := by simp only [CNode.items]
  refine ⟨.empty q cs s1, ?_, ?_, by simp only [CNode.Closed], ?_, ?_, ?_, ?_⟩
  · simp only [CNode.abs]
    rw [hca]
  · rw [hi]
    show ([bLt] ++ q ++ attrsBytes cs ++ s1 ++ [bSlash, bGt]) ++ [] = _
    rw [List.append_nil, hcb]
  · intro it hit
    rw [hi] at hit
    rcases List.mem_cons.1 hit with rfl | hit
    · exact ⟨hlex, hsem, trivial⟩
    · exact absurd hit List.not_mem_nil
  · intro d rest hb _
    rw [hi]
    exact Bal.empty d q cs s1 rest hb
  · intro _ rest
    rw [hi]
    rfl
  · intro _
    exact ⟨rfl, Or.inl ⟨q, cs, s1, hi⟩⟩

theorem cfl_elem_out (T : Tables) (q q' : Bytes) (attrs : List (Bytes × Bytes)) (kids : List GNode)
    (ab s1 kb s2 : Bytes) (ha : RAttrs T attrs ab) (hs1 : Sp0 T s1) (hs2 : Sp0 T s2)
    (hqq : qparts q' = qparts q) (hw : GWf T (.elem q attrs kids)) (ks : List CNode)
    (hk : FlatKids T kids kb ks) :
    ∃ c, FlatNode T (.elem q attrs kids)
      ([bLt] ++ q ++ ab ++ s1 ++ [bGt] ++ kb ++ [bLt, bSlash] ++ q' ++ s2 ++ [bGt]) c := by
  rw [asm_gwf_elem] at hw
  obtain ⟨hq, hat, hnd, _, _⟩ := hw
  obtain ⟨cs, hca, hcb, hlex, hsem⟩ := cfl_stag T q attrs ab s1 false ha hs1 hq hat hnd
  have hi : (CNode.elem q cs s1 ks q' s2).items =
      .stag q cs s1 false :: (CNode.itemsAll ks ++ [.etag q' s2]) := by simp only [CNode.items]
  have hbal : ∀ d rest, Bal (d + 1) (Item.etag q' s2 :: rest) →
      Bal d ((CNode.elem q cs s1 ks q' s2).items ++ rest) := by
    intro d rest hb
    rw [hi]
    show Bal d (.stag q cs s1 false :: ((CNode.itemsAll ks ++ [.etag q' s2]) ++ rest))
    rw [List.append_assoc]
    exact Bal.open d q cs s1 _ (hk.bal (d + 1) _ hb rfl)
  refine ⟨.elem q cs s1 ks q' s2, ?_, ?_, ?_, ?_, ?_, ?_, ?_⟩
  · simp only [CNode.abs]
    rw [hca, hk.abs]
  · rw [hi]
    show ([bLt] ++ q ++ attrsBytes cs ++ s1 ++ [bGt]) ++ flat (CNode.itemsAll ks ++ [.etag q' s2]) = _
    have he : flat [Item.etag q' s2] = [bLt, bSlash] ++ q' ++ s2 ++ [bGt] := List.append_nil _
    rw [asm_flat_append, hk.bytes, hcb, asm_elem_bytes, he]
  · simp only [CNode.Closed]
    exact ⟨hqq, hk.closed⟩
  · intro it hit
    rw [hi] at hit
    rcases List.mem_cons.1 hit with rfl | hit
    · exact ⟨hlex, hsem, trivial⟩
    · rcases List.mem_append.1 hit with hit | hit
      · exact hk.items it hit
      · rcases List.mem_cons.1 hit with rfl | hit
        · exact ⟨⟨cfl_qname_of_qparts T q q' hq hqq, hs2⟩, trivial, trivial⟩
        · exact absurd hit List.not_mem_nil
  · intro d rest hb _
    exact hbal d rest (Bal.close d q' s2 rest hb)
  · intro _ rest
    rw [hi]
    rfl
  · intro _
    refine ⟨rfl, Or.inr ⟨q, cs, s1, CNode.itemsAll ks ++ [.etag q' s2], hi, ?_⟩⟩
    exact hk.bal 0 _ (Bal.last q' s2) rfl

/-- **Nodes**: the derivation of a well-formed node is flattened into its concrete-syntax tree -/
theorem cfl_node (T : Tables) {k : GNode} {b : Bytes} (h : RNode T k b) :
    GWf T k → Strict k → ∃ c, FlatNode T k b c := by
  refine RNode.rec (T := T)
    (motive_1 := fun k b _ => GWf T k → Strict k → ∃ c, FlatNode T k b c)
    (motive_2 := fun ks b _ => GWfAll T ks → StrictAll ks → noAdjText ks = true →
      ∃ cs, FlatKids T ks b cs)
    ?_ ?_ ?_ ?_ ?_ ?_ ?_ ?_ ?_ h
  · intro q q' attrs kids ab s1 kb s2 ha hs1 _ hs2 hqq ih hw hst
    have hw' := (asm_gwf_elem T q attrs kids).1 hw
    simp only [Strict] at hst
    obtain ⟨ks, hk⟩ := ih hw'.2.2.2.2 hst hw'.2.2.2.1
    exact cfl_elem_out T q q' attrs kids ab s1 kb s2 ha hs1 hs2 hqq hw ks hk
  · intro q attrs ab s1 ha hs1 hw _
    exact cfl_empty_out T q attrs ab s1 ha hs1 hw
  · intro t hw _
    exact ⟨_, cfl_text_out T t hw⟩
  · intro b hw _
    exact ⟨_, cfl_cdata_out T b hw⟩
  · intro b hw _
    exact ⟨_, cfl_comment_out T b hw⟩
  · intro t s hs hw hst
    have := cfl_pi_out T t s [] hs (fun h => absurd rfl h) hw hst
    rw [List.append_nil] at this
    exact ⟨_, this⟩
  · intro t s v hs _ hw hst
    exact ⟨_, cfl_pi_out T t s v hs.2 (fun _ => hs.1) hw hst⟩
  · intro _ _ _
    exact ⟨[], cfl_nil_out T⟩
  · intro k ks b bs _ _ ih1 ih2 hw hst hn
    rw [asm_gwfall_cons] at hw
    simp only [StrictAll] at hst
    obtain ⟨c, hc⟩ := ih1 hw.1 hst.1
    obtain ⟨cs, hcs⟩ := ih2 hw.2 hst.2 (cfl_noAdj_cons k ks hn).1
    exact ⟨c :: cs, cfl_cons_out T k ks b bs c cs hc hcs hn⟩

/-! ### Misc -/

theorem cfl_misc (T : Tables) (ms : List GNode) (bs : Bytes) (h : RMisc T ms bs)
    (hw : ∀ k ∈ ms, isMisc k = true ∧ GWf T k) (hs : StrictAll ms) :
    ∃ its : List Item, flat its = bs ∧ miscAbs its = ms ∧
      ∀ it ∈ its, it.isMiscI = true ∧ it.Lex T ∧ it.Sem T ∧ it.StrictI := by
  induction h with
  | nil => exact ⟨[], rfl, rfl, fun it hit => absurd hit List.not_mem_nil⟩
  | sp s ms bs hsp _ ih =>
    obtain ⟨its, h1, h2, h3⟩ := ih hw hs
    refine ⟨.sp s :: its, ?_, ?_, ?_⟩
    · show s ++ flat its = s ++ bs
      rw [h1]
    · show miscAbs its = ms
      exact h2
    · intro it hit
      rcases List.mem_cons.1 hit with rfl | hit
      · exact ⟨rfl, hsp, trivial, trivial⟩
      · exact h3 it hit
  | item k b ms bs hm hr _ ih =>
    simp only [StrictAll] at hs
    obtain ⟨its, h1, h2, h3⟩ := ih (fun k hk => hw k (List.mem_cons_of_mem _ hk)) hs.2
    have hwk := (hw k (List.mem_cons_self ..)).2
    have key : ∃ it : Item, it.bytes = b ∧ miscAbs [it] = [k] ∧ it.isMiscI = true ∧ it.Lex T ∧
        it.Sem T ∧ it.StrictI := by
      cases k with
      | elem q a ks => exact Bool.noConfusion hm
      | text t => exact Bool.noConfusion hm
      | cdata t => exact Bool.noConfusion hm
      | comment c =>
        cases hr
        rw [asm_gwf_comment] at hwk
        exact ⟨.comment c, rfl, rfl, rfl, hwk, trivial, trivial⟩
      | pi t v =>
        rw [asm_gwf_pi] at hwk
        have hst := hs.1
        simp only [Strict] at hst
        cases hr with
        | piNone _ s hs0 =>
          refine ⟨.pi t s [], ?_, rfl, rfl, ⟨hwk.1, hs0, fun h => absurd rfl h, hwk.2⟩, trivial, hst⟩
          show Lit.piStart ++ t ++ s ++ [] ++ Lit.piEnd = _
          rw [List.append_nil]
        | piSome _ s _ hs1 _ =>
          exact ⟨.pi t s v, rfl, rfl, rfl, ⟨hwk.1, hs1.2, fun _ => hs1.1, hwk.2⟩, trivial, hst⟩
    obtain ⟨it, e1, e2, e3, e4⟩ := key
    refine ⟨it :: its, ?_, ?_, ?_⟩
    · show it.bytes ++ flat its = b ++ bs
      rw [e1, h1]
    · have : miscAbs (it :: its) = miscAbs [it] ++ miscAbs its := by
        cases it <;> first | rfl | exact Bool.noConfusion e3
      rw [this, e2, h2]
      rfl
    · intro x hx
      rcases List.mem_cons.1 hx with rfl | hx
      · exact ⟨e3, e4⟩
      · exact h3 x hx

/-- **Stage 0** -/
theorem flatten_doc (T : Tables) (x : GDoc) (txt : Bytes) (hwf : GDocWf T x) (hr : RDoc T x txt)
    (hs : DocStrict x) :
    ∃ (bom decl : Bytes) (pre : List Item) (root : CNode) (post : List Item),
      txt = bom ++ decl ++ flat (pre ++ root.items ++ post) ∧
      (bom = [] ∨ bom = Lit.bom) ∧ (decl = [] ∨ XmlDecl T decl) ∧
      (∀ it ∈ pre, it.isMiscI = true) ∧ (∀ it ∈ post, it.isMiscI = true) ∧
      miscAbs pre = x.pre ∧ root.abs = x.root ∧ miscAbs post = x.post ∧
      root.isElemC = true ∧ root.Closed ∧ RootBal root.items ∧
      (∀ it ∈ pre ++ root.items ++ post, it.Lex T ∧ it.Sem T ∧ it.StrictI) := by
  cases hr with
  | mk pre root post bom decl pb rb qb hbom hdecl hpre hroot hpost =>
    obtain ⟨he, hwroot, hwpre, hwpost⟩ := hwf
    obtain ⟨hspre, hsroot, hspost⟩ := hs
    obtain ⟨ipre, p1, p2, p3⟩ := cfl_misc T pre pb hpre hwpre hspre
    obtain ⟨ipost, q1, q2, q3⟩ := cfl_misc T post qb hpost hwpost hspost
    obtain ⟨c, hc⟩ := cfl_node T hroot hwroot hsroot
    obtain ⟨r1, r2⟩ := hc.root he
    refine ⟨bom, decl, ipre, c, ipost, ?_, hbom, hdecl, fun it hit => (p3 it hit).1,
      fun it hit => (q3 it hit).1, p2, hc.abs, q2, r1, hc.closed, r2, ?_⟩
    · rw [asm_flat_append, asm_flat_append, p1, q1, hc.bytes]
      simp only [List.append_assoc]
    · intro it hit
      rcases List.mem_append.1 hit with hit | hit
      · rcases List.mem_append.1 hit with hit | hit
        · exact (p3 it hit).2
        · exact hc.items it hit
      · exact (q3 it hit).2

end Rox.Lemmas
