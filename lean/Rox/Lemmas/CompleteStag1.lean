/-
  Rox.Lemmas.CompleteStag1 — helpers for `Rox.Lemmas.CompleteStag`: success ("no `.err` branch is
  taken") of the namespace primitives, lookups in the abstract scopes vs. searches in the tables,
  monotonicity of `ScopeRel` / `NChain`.
-/
import Rox.Lemmas.CompleteBuildDefs
import Rox.Lemmas.MirrorDecode
import Rox.Lemmas.RtBuild
import Rox.Lemmas.MirrorNsBuild1

namespace Rox.Lemmas.CB
open Rox Rox.Spec Rox.Spec.Grammar Rox.Spec.Mirror Rox.Spec.MirrorNs Rox.Spec.Complete Rox.Props.C06
  Rox.Lemmas.GB

/-! ### Computations without an error branch -/

/-- the computation does not return an error -/
def NoErr {α} (r : Res α) : Prop := ∀ e, r ≠ .err e

theorem ok_of_safe {α} {r : Res α} (hs : Res.Safe r) (hn : NoErr r) : ∃ a, r = .ok a := by
  cases r with
  | ok a => exact ⟨a, rfl⟩
  | err e => exact absurd rfl (hn e)
  | panic s => exact absurd hs (by simp [Res.Safe])
  | fuel => exact absurd hs (by simp [Res.Safe])

theorem noErr_ok {α} (a : α) : NoErr (.ok a : Res α) := fun _ h => by cases h
theorem noErr_pure {α} (a : α) : NoErr (pure a : Res α) := fun _ h => by cases h
theorem noErr_panic {α} (s : String) : NoErr (.panic s : Res α) := fun _ h => by cases h
theorem noErr_fuel {α} : NoErr (.fuel : Res α) := fun _ h => by cases h

theorem noErr_bind {α β} (m : Res α) (k : α → Res β) (hm : NoErr m)
    (hk : ∀ a, m = .ok a → NoErr (k a)) : NoErr (m >>= k) := by
  cases m with
  | ok a => exact hk a rfl
  | err e => exact absurd rfl (hm e)
  | panic s => exact noErr_panic s
  | fuel => exact noErr_fuel

theorem existsAux_noErr (values : Array Namespace) (pfx : Option Bytes) :
    ∀ l : List Nat, NoErr (Namespaces.existsAux values pfx l)
  | [] => noErr_ok _
  | idx :: r => by
    simp only [Namespaces.existsAux]
    split
    · exact noErr_panic _
    · split
      · exact noErr_ok _
      · exact existsAux_noErr values pfx r

theorem exists_noErr (ns : Namespaces) (start : Nat) (pfx : Option Bytes) :
    NoErr (ns.exists start pfx) := by
  unfold Namespaces.exists
  split
  · exact noErr_panic _
  · exact existsAux_noErr _ _ _

/-- `Namespaces::exists` says whether the prefix is bound by the entries from `start` on -/
theorem exists_ok (ns : Namespaces) (hns : NsInv ns) (start : Nat) (hs : start ≤ ns.treeOrder.size)
    (pfx : Option Bytes) :
    ns.exists start pfx = .ok (scopeFind ns (ns.treeOrder.toList.drop start) pfx).isSome := by
  obtain ⟨b, hb⟩ := ok_of_safe (exists_safe ns hns start hs pfx).safe (exists_noErr ns start pfx)
  rw [hb, exists_scope ns start pfx b hb]

theorem pushRef_noErr (ns : Namespaces) (i : Nat) : NoErr (ns.pushRef i) := by
  unfold Namespaces.pushRef
  split
  · exact noErr_ok _
  · exact noErr_panic _

theorem inheritLoop_noErr (start : Nat) : ∀ (l : List Nat) (ns : Namespaces),
    NoErr (inheritLoop start l ns) := by
  intro l
  induction l with
  | nil => intro ns; exact noErr_ok _
  | cons i r ih =>
    intro ns
    simp only [inheritLoop]
    split
    · exact noErr_panic _
    · split
      · exact noErr_panic _
      · refine noErr_bind _ _ (exists_noErr _ _ _) ?_
        intro ex _
        split
        · refine noErr_bind _ _ (pushRef_noErr _ _) ?_
          intro ns' _
          exact ih ns'
        · exact ih ns

theorem resolveNamespaces_noErr (c : Ctx) : NoErr (resolveNamespaces c) := by
  unfold resolveNamespaces
  refine noErr_bind _ _ ?_ ?_
  · unfold Ctx.nodeAt
    split
    · exact noErr_ok _
    · exact noErr_panic _
  · intro p _
    split
    · split
      · exact noErr_pure _
      · refine noErr_bind _ _ (inheritLoop_noErr _ _ _) ?_
        intro ns _
        exact noErr_pure _
    · exact noErr_pure _

/-- `resolve_namespaces` succeeds -/
theorem resolveNamespaces_ok (c : Ctx) (hp : c.parentId < c.doc.nodes.size)
    (h : NsOk c.doc c.nsStartIdx) : ∃ c1 nss, resolveNamespaces c = .ok (c1, nss) := by
  obtain ⟨⟨c1, nss⟩, h1⟩ := ok_of_safe (resolveNamespaces_safe c hp h).safe (resolveNamespaces_noErr c)
  exact ⟨c1, nss, h1⟩

theorem find_noErr (doc : Doc) (po : Option Bytes) :
    ∀ l : List Nat, NoErr (getNsIdxByPrefix.find doc po l)
  | [] => noErr_ok _
  | idx :: r => by
    simp only [getNsIdxByPrefix.find]
    split
    · exact noErr_panic _
    · split
      · exact noErr_ok _
      · exact find_noErr doc po r

/-- `get_ns_idx_by_prefix` succeeds when the prefix is empty, `xml`, or bound in the range -/
theorem getNsIdxByPrefix_ok (txt : Bytes) (doc : Doc) (hns : NsInv doc.ns) (h0 : 0 < doc.ns.values.size)
    (nss : Range) (hn : nss.1 ≤ nss.2 ∧ nss.2 ≤ doc.ns.treeOrder.size) (pp : Nat) (pfx : Bytes)
    (hb : pfx = Lit.xml ∨ pfx = [] ∨
      (scopeFind doc.ns (rangeList doc.ns nss) (some pfx)).isSome = true) :
    ∃ r, getNsIdxByPrefix txt doc nss pp pfx = .ok r := by
  have hsafe := (getNsIdxByPrefix_safe txt doc hns h0 nss hn pp pfx).safe
  refine ok_of_safe hsafe ?_
  unfold getNsIdxByPrefix
  dsimp only
  split
  · exact noErr_ok _
  · rename_i hx
    split
    · exact noErr_panic _
    · refine noErr_bind _ _ (find_noErr _ _ _) ?_
      intro r hr
      have hr' := find_scope doc _ _ r hr
      split
      · exact noErr_pure _
      · split
        · rename_i hne
          exfalso
          rcases hb with rfl | rfl | hb
          · simp at hx
          · simp at hne
          · have hne' : pfx.isEmpty = false := by simpa using hne
            rw [hne'] at hr'
            simp only [Bool.false_eq_true, if_false] at hr'
            have : scopeFind doc.ns (rangeList doc.ns nss) (some pfx) = none := hr'.symm
            rw [this] at hb
            simp at hb
        · exact noErr_pure _

/-! ### `push_ns` -/

theorem searchGo_noErr (ns : Namespaces) (name : Option Bytes) (uri : Bytes) :
    ∀ (fuel i : Nat), NoErr (ns.searchGo name uri fuel i) := by
  intro fuel
  induction fuel with
  | zero => intro i; simp only [Namespaces.searchGo]; exact noErr_ok _
  | succ f ih =>
    intro i
    simp only [Namespaces.searchGo]
    split
    · exact noErr_ok _
    · split
      · exact noErr_panic _
      · split
        · exact ih _
        · exact noErr_ok _
        · exact noErr_ok _

/-- `push_ns` succeeds below the limit; the table grows by at most one entry -/
theorem pushNs_ok (ns : Namespaces) (hns : NsInv ns) (name : Option Span) (uri : Str)
    (hsz : ns.values.size ≤ 65535) :
    ∃ ns', ns.pushNs name uri = .ok ns' ∧ ns'.values.size ≤ ns.values.size + 1 := by
  have hsafe := (pushNs_safe ns hns name uri).safe
  have hne : NoErr (ns.pushNs name uri) := by
    unfold Namespaces.pushNs
    refine noErr_bind _ _ (searchGo_noErr _ _ _ _ _) ?_
    rintro ⟨si, found⟩ _
    dsimp only
    split
    · split
      · exact noErr_pure _
      · exact noErr_panic _
    · split
      · omega
      · exact noErr_pure _
  obtain ⟨ns', h⟩ := ok_of_safe hsafe hne
  refine ⟨ns', h, ?_⟩
  unfold Namespaces.pushNs at h
  rw [Res.bind_eq_ok] at h
  obtain ⟨⟨si, found⟩, _, h⟩ := h
  dsimp only at h
  split at h
  · split at h
    · res_norm at h; subst h; simp
    · cases h
  · split at h
    · cases h
    · res_norm at h; subst h; simp

/-! ### Lookups -/

theorem lookup_nil (p : Option Bytes) : lookup [] p = none := rfl

theorem lookup_append (a b : Scope) (p : Option Bytes) :
    lookup (a ++ b) p = (lookup a p).orElse (fun _ => lookup b p) := by
  unfold lookup
  rw [List.find?_append]
  cases List.find? _ a <;> rfl

theorem scopeList_append (d : Doc) (l1 l2 : List Nat) :
    scopeList d (l1 ++ l2) = scopeList d l1 ++ scopeList d l2 := by
  unfold scopeList
  rw [List.filterMap_append]

theorem scopeList_congr {d d' : Doc} (l : List Nat)
    (h : ∀ i ∈ l, d'.ns.values[i]? = d.ns.values[i]?) : scopeList d' l = scopeList d l := by
  unfold scopeList
  apply filterMap_congr'
  intro i hi
  unfold nsPair
  rw [h i hi]

/-- the first-binding search over table indices is the `lookup` of the bindings read -/
theorem lookup_scopeList (d : Doc) (p : Option Bytes) : ∀ l : List Nat,
    lookup (scopeList d l) p = uriAt d (scopeFind d.ns l p)
  | [] => rfl
  | k :: t => by
    have ih := lookup_scopeList d p t
    unfold scopeList at ih ⊢
    unfold scopeFind at ih ⊢
    rw [List.filterMap_cons, List.find?_cons]
    unfold nsPair
    cases hv : d.ns.values[k]? with
    | none =>
      simp only [Option.map_none]
      exact ih
    | some v =>
      simp only [Option.map_some]
      rw [MN.lookup_cons]
      dsimp only
      cases hb : v.nameBytes == p with
      | true =>
        simp only [if_true]
        unfold uriAt
        simp only [Option.bind_some, hv, Option.map_some]
      | false =>
        simp only [Bool.false_eq_true, if_false]
        exact ih

theorem scopeFind_valid {ns : Namespaces} {l : List Nat} {p : Option Bytes} {i : Nat}
    (h : scopeFind ns l p = some i) : ∃ v, ns.values[i]? = some v ∧ v.nameBytes = p ∧ i ∈ l := by
  unfold scopeFind at h
  have h1 := List.find?_some h
  have h2 := List.mem_of_find?_eq_some h
  cases hv : ns.values[i]? with
  | none => rw [hv] at h1; simp at h1
  | some v =>
    rw [hv] at h1
    exact ⟨v, rfl, by simpa using h1, h2⟩

theorem lookup_scopeList_isSome (d : Doc) (p : Option Bytes) (l : List Nat) :
    (lookup (scopeList d l) p).isSome = (scopeFind d.ns l p).isSome := by
  rw [lookup_scopeList]
  cases h : scopeFind d.ns l p with
  | none => rfl
  | some i =>
    obtain ⟨v, hv, _⟩ := scopeFind_valid h
    unfold uriAt
    simp [hv]

theorem find?_filter_of_imp {α} (p q : α → Bool) (h : ∀ x, p x = true → q x = true) :
    ∀ l : List α, (l.filter q).find? p = l.find? p
  | [] => rfl
  | a :: r => by
    rw [List.filter_cons]
    cases hq : q a with
    | true =>
      simp only [if_true, List.find?_cons]
      cases p a
      · exact find?_filter_of_imp p q h r
      · rfl
    | false =>
      simp only [Bool.false_eq_true, if_false, List.find?_cons]
      have : p a = false := by
        cases hp : p a with
        | false => rfl
        | true => rw [h a hp] at hq; cases hq
      rw [this]
      exact find?_filter_of_imp p q h r

/-- own declarations first, then the parent's bindings -/
theorem lookup_scopeOf (parent : Scope) (attrs : List (Bytes × Bytes)) (p : Option Bytes) :
    lookup (scopeOf parent attrs) p =
      (lookup (declsOf attrs) p).orElse (fun _ => lookup parent p) := by
  unfold scopeOf
  rw [lookup_append]
  cases hd : lookup (declsOf attrs) p with
  | some u => rfl
  | none =>
    simp only [Option.orElse_none]
    unfold lookup
    rw [find?_filter_of_imp]
    intro b hb
    have hbp : b.1 = p := by simpa using hb
    unfold lookup at hd
    simp only [Option.map_eq_none_iff, List.find?_eq_none] at hd
    simp only [Bool.not_eq_eq_eq_not, Bool.not_true, List.any_eq_false]
    intro o ho
    have := hd o ho
    rw [hbp]
    simpa using this

theorem lookup_isSome_iff (sc : Scope) (p : Option Bytes) :
    (lookup sc p).isSome = true ↔ p ∈ sc.map (·.1) := by
  unfold lookup
  rw [Option.isSome_map, List.find?_isSome]
  simp only [List.mem_map]
  constructor
  · rintro ⟨b, hb, he⟩
    exact ⟨b, hb, by simpa using he⟩
  · rintro ⟨b, hb, he⟩
    exact ⟨b, hb, by simpa using he⟩

/-! ### Extending the tables keeps what the open elements denote -/

theorem scopeRel_ext {d d' : Doc} (he : MN.TExt d d') (hi : NsInv d.ns) {r : Range} {sc : Scope}
    (h : ScopeRel d r sc) : ScopeRel d' r sc := by
  obtain ⟨h1, h2, h3⟩ := h
  obtain ⟨more, ht⟩ := he.tree
  have hsz : d'.ns.treeOrder.size = d.ns.treeOrder.size + more.length := by
    have := congrArg List.length ht
    simpa using this
  refine ⟨h1, by omega, ?_⟩
  intro p
  have : scopeList d' (rangeList d'.ns r) = scopeList d (rangeList d.ns r) :=
    MN.readRange_ext he hi r h2
  rw [this]
  exact h3 p

/-- the chain of open elements survives a step that keeps the old nodes (`SKeep`) and extends the
tables -/
theorem nchain_mono {d d' : Doc} (hk : SKeep d.nodes d'.nodes) (he : MN.TExt d d') (hi : NsInv d.ns) :
    ∀ (scs : List Scope) (pid : Nat), NChain d scs pid → NChain d' scs pid := by
  intro scs
  induction scs with
  | nil =>
    intro pid h
    obtain ⟨nd, hn, hkd⟩ := h
    obtain ⟨nd', hn', _, hk'⟩ := hk pid nd hn
    refine ⟨nd', hn', ?_⟩
    rcases hk' with e | ⟨ht, _⟩
    · rw [e]; exact hkd
    · rw [hkd] at ht; simp [Kind.isText] at ht
  | cons sc rest ih =>
    intro pid h
    obtain ⟨nd, ns, tn, as, nss, q, hn, hkd, hsr, hp, hr⟩ := h
    obtain ⟨nd', hn', hp', hk'⟩ := hk pid nd hn
    refine ⟨nd', ns, tn, as, nss, q, hn', ?_, scopeRel_ext he hi hsr, hp'.trans hp, ih q hr⟩
    rcases hk' with e | ⟨ht, _⟩
    · rw [e]; exact hkd
    · rw [hkd] at ht; simp [Kind.isText] at ht

theorem hasRootEl_mono {d d' : Doc} (hk : SKeep d.nodes d'.nodes) (h : HasRootEl d) : HasRootEl d' := by
  obtain ⟨j, nj, hj, hp, hke⟩ := h
  obtain ⟨nd', hn', hp', hk'⟩ := hk j nj hj
  refine ⟨j, nd', hn', hp'.trans hp, ?_⟩
  rcases hk' with e | ⟨ht, _⟩
  · rw [e]; exact hke
  · cases hkk : nj.kind <;> rw [hkk] at ht hke <;> simp [Kind.isText, Kind.isElement] at ht hke

end Rox.Lemmas.CB
