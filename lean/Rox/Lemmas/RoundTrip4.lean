/-
  Rox.Lemmas.RoundTrip4 — parse ∘ renderDoc: whole documents with processing instructions, BOM,
  XML declaration, DOCTYPE, prolog and epilog Misc.
-/
import Rox.Lemmas.RtTok4
import Rox.Lemmas.RtBuild4

namespace Rox.Lemmas
open Rox Rox.Spec.Canon Rox.Spec.Canon4

/-- **Round trip, whole documents** (every document of the class `docOk`; every option value that
admits it): the parse of the rendering succeeds, and the arena read back in id order is the root
followed by the prolog Misc items, the root element's subtree and the epilog Misc items, all top-level
items children of the root node, in source order. The BOM, the XML declaration, the DOCTYPE and the
white space between top-level items contribute nothing. -/
theorem parse_renderDoc (T : Tables) (hT : TablesOK T) (hC : TablesCanon T) (hC4 : TablesCanon4 T)
    (y : YDoc) (hy : docOk y = true) (opt : Opt)
    (hdtd : y.doctype.isSome = true → opt.allowDtd = true)
    (hlim : countAllY y.items + 1 ≤ opt.nodesLimit) (hl32 : opt.nodesLimit ≤ 4294967295)
    (hattrs : attrCountAllY y.items < 4294967295) :
    ∃ d, parse T (renderDoc y) opt = .ok d ∧
      d.nodes.toList.map (viewY d) =
        some (none, YKind.root) :: (expectAllY 0 1 y.items).map some :=
  parse_of_docToks T (renderDoc y) opt y hy
    (tokenize_renderDoc T hT hC hC4 y hy opt.allowDtd hdtd) hlim hl32 hattrs

end Rox.Lemmas
