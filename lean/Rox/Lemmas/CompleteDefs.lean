/-
  Rox.Lemmas.CompleteDefs — the interface between the stages of the COMPLETENESS proof
  (`Rox.Lemmas.CompleteAll.wellformed_is_accepted`): every concrete syntax of a well-formed,
  namespace-well-formed abstract document within the limits is accepted.

    Stage 0  (CompleteFlat):   `RDoc T x txt`, `GDocWf T x`  →  a concrete-syntax tree `CNode` and the
                               flat item list (`Rox.Lemmas.GrammarDefs`) with `Lex`, `Sem`, `RootBal`
    Stage S  (CompleteSem):    `nsWf`, `WithinLimits` of the abstract tree  →  the item-level checks
                               `runOk` and the item-level costs `nodeCost`, `attrCost`, `declCost`
    Stage A⁻¹ (CompleteTok*):  the tokenizer on `bom ++ decl ++ flat items` succeeds with `ItemsToks`
    Stage B⁻¹ (CompleteRef, CompleteStag, CompleteBuild): the builder accepts those tokens
-/
import Rox.Spec.Complete
import Rox.Lemmas.GrammarDefs

namespace Rox.Lemmas
open Rox Rox.Spec Rox.Spec.Grammar Rox.Spec.Mirror Rox.Spec.MirrorNs Rox.Spec.Complete

/-! ### Table facts -/

/-- What the completeness proof needs from the tables beyond `TablesOK` and `TablesGrammar`
(each true of the XML 1.0 tables of the build: `Rox.Lemmas.CompleteTables`). -/
structure TablesComplete (T : Tables) : Prop where
  /-- white space is not a name character (`<?xml…` + white space is the declaration, a name ends at
  white space) and is an XML character -/
  space_not_name : ∀ b : UInt8, byteIsSpace T b = true → charIsName T b.toNat = false
  space_xmlChar : ∀ b : UInt8, byteIsSpace T b = true → charIsXmlChar T b.toNat = true
  /-- on ASCII the byte tables of the fast paths contain what the character tables contain -/
  byte_name_of_char : ∀ b : UInt8, b < 128 → charIsName T b.toNat = true → byteIsName T b = true
  byte_nameStart_of_char : ∀ b : UInt8, b < 128 → charIsNameStart T b.toNat = true →
    byteIsNameStart T b = true
  byte_xmlChar_of_char : ∀ b : UInt8, b < 128 → charIsXmlChar T b.toNat = true →
    byteIsXmlChar T b = true
  /-- every NameStartChar is a NameChar -/
  nameStart_sub_name : ∀ c : Nat, charIsNameStart T c = true → charIsName T c = true
  /-- the character classes contain code points only -/
  name_lt : ∀ c : Nat, charIsName T c = true → c < 0x110000
  xmlChar_lt : ∀ c : Nat, charIsXmlChar T c = true → c < 0x110000
  /-- the delimiters `! " # & ' / ; < = > ?` are not name characters -/
  delim_not_name : ∀ b : UInt8, b ∈ ([33, 34, 35, 38, 39, 47, 59, 60, 61, 62, 63] : List UInt8) →
    charIsName T b.toNat = false
  /-- the delimiters `! " & ' / : < = > ?` are not white space -/
  delim_not_space : ∀ b : UInt8, b ∈ ([33, 34, 38, 39, 47, 58, 60, 61, 62, 63] : List UInt8) →
    byteIsSpace T b = false
  /-- the bytes at which a run of characters is made to stop (`" ' - < ? ]`) are XML characters -/
  delim_xmlChar : ∀ b : UInt8, b ∈ ([34, 39, 45, 60, 63, 93] : List UInt8) →
    charIsXmlChar T b.toNat = true
  /-- the lower-case Latin letters (the predefined entity names, `version`, `encoding`,
  `standalone`) are name-start characters -/
  lower_nameStart : ∀ b : UInt8, 97 ≤ b → b ≤ 122 → charIsNameStart T b.toNat = true
  /-- U+0020 is not a name character (`parse_pi` tests for the literal `<?xml` + U+0020) -/
  sp_not_name : charIsName T 32 = false

/-! ### Concrete syntax trees -/

/-- an element, character data, … as written: the abstract node plus the lexical choices (white
space, quotes, `<e/>` or `<e></e>`, the spelling of the end tag) -/
inductive CNode where
  | elem (q : Bytes) (attrs : List AttrC) (s1 : Bytes) (kids : List CNode) (q' s2 : Bytes)
  | empty (q : Bytes) (attrs : List AttrC) (s1 : Bytes)
  | text (t : Bytes)
  | cdata (b : Bytes)
  | comment (b : Bytes)
  | pi (t s v : Bytes)

/-- the attributes of a start tag as the abstract document has them -/
def attrsAbs (attrs : List AttrC) : List (Bytes × Bytes) := attrs.map fun a => (a.n, a.v)

mutual
  /-- the abstract node -/
  def CNode.abs : CNode → GNode
    | .elem q attrs _ kids _ _ => .elem q (attrsAbs attrs) (CNode.absAll kids)
    | .empty q attrs _ => .elem q (attrsAbs attrs) []
    | .text t => .text t
    | .cdata b => .cdata b
    | .comment b => .comment b
    | .pi t _ v => .pi t v
  def CNode.absAll : List CNode → List GNode
    | [] => []
    | k :: ks => k.abs :: CNode.absAll ks
end

mutual
  /-- the lexical items in source order -/
  def CNode.items : CNode → List Item
    | .elem q attrs s1 kids q' s2 => .stag q attrs s1 false :: (CNode.itemsAll kids ++ [.etag q' s2])
    | .empty q attrs s1 => [.stag q attrs s1 true]
    | .text t => [.text t]
    | .cdata b => [.cdata b]
    | .comment b => [.comment b]
    | .pi t s v => [.pi t s v]
  def CNode.itemsAll : List CNode → List Item
    | [] => []
    | k :: ks => k.items ++ CNode.itemsAll ks
end

mutual
  /-- every end tag names its start tag (up to a leading ':') -/
  def CNode.Closed : CNode → Prop
    | .elem q _ _ kids q' _ => qparts q' = qparts q ∧ CNode.ClosedAll kids
    | _ => True
  def CNode.ClosedAll : List CNode → Prop
    | [] => True
    | k :: ks => k.Closed ∧ CNode.ClosedAll ks
end

def CNode.isElemC : CNode → Bool
  | .elem .. => true
  | .empty .. => true
  | _ => false

/-- the Misc items (comments, PIs; white space dropped) of a prolog / epilog item list -/
def miscAbs : List Item → List GNode
  | [] => []
  | .comment b :: r => .comment b :: miscAbs r
  | .pi t _ v :: r => .pi t v :: miscAbs r
  | _ :: r => miscAbs r

/-- a PI item whose target is not reserved -/
def Item.StrictI : Item → Prop
  | .pi t _ _ => piTargetOk t = true
  | _ => True

/-! ### How the tokenizer walks through the root element (as `Content`, with the input going on
after the end tag met at depth 0) -/

inductive Bal : Nat → List Item → Prop where
  | leaf (d : Nat) (it : Item) (its : List Item) : it.isLeafNT = true → Bal d its → Bal d (it :: its)
  | text (d : Nat) (t : Bytes) (its : List Item) : (∀ t' r, its ≠ .text t' :: r) → Bal d its →
      Bal d (.text t :: its)
  | «open» (d : Nat) (q : Bytes) (attrs : List AttrC) (s1 : Bytes) (its : List Item) :
      Bal (d + 1) its → Bal d (.stag q attrs s1 false :: its)
  | empty (d : Nat) (q : Bytes) (attrs : List AttrC) (s1 : Bytes) (its : List Item) :
      Bal d its → Bal d (.stag q attrs s1 true :: its)
  | close (d : Nat) (q s2 : Bytes) (its : List Item) : Bal d its → Bal (d + 1) (.etag q s2 :: its)
  | last (q s2 : Bytes) : Bal 0 [.etag q s2]

/-- the items of the root element: `<e/>`, or `<e>` content `</e>` -/
def RootBal (root : List Item) : Prop :=
  (∃ q attrs s1, root = [.stag q attrs s1 true]) ∨
    (∃ q attrs s1 content, root = .stag q attrs s1 false :: content ∧ Bal 0 content)

/-! ### The semantic checks, item by item -/

/-- the open elements, innermost first: (prefix, local name) and the bindings in scope -/
abbrev SStk := List (QP × Scope)

/-- the bindings in scope at the current parent -/
def topSc : SStk → Scope
  | [] => []
  | (_, sc) :: _ => sc

/-- what the builder checks of an item beyond `Item.Sem`: the namespace constraints of a start tag,
the name of an end tag -/
def itemOk (st : SStk) : Item → Bool
  | .stag q attrs _ _ => tagNsOk (topSc st) q (attrsAbs attrs)
  | .etag q _ =>
    match st with
    | (top, _) :: _ => top == qparts q
    | [] => false
  | _ => true

def itemSt (st : SStk) : Item → SStk
  | .stag q attrs _ false => (qparts q, scopeOf (topSc st) (attrsAbs attrs)) :: st
  | .etag _ _ => st.tail
  | _ => st

def runOk : SStk → List Item → Bool
  | _, [] => true
  | st, it :: r => itemOk st it && runOk (itemSt st it) r

def runSt : SStk → List Item → SStk
  | st, [] => st
  | st, it :: r => runSt (itemSt st it) r

/-! ### Costs -/

/-- the nodes the items still to come will append; `pend` = a text run is being collected (its node
exists already) -/
def nodeCost : Bool → List Item → Nat
  | _, [] => 0
  | pend, .sp _ :: r => nodeCost pend r
  | pend, .text _ :: r => (if pend then 0 else 1) + nodeCost true r
  | pend, .cdata _ :: r => (if pend then 0 else 1) + nodeCost true r
  | _, .etag _ _ :: r => nodeCost false r
  | _, .comment _ :: r => 1 + nodeCost false r
  | _, .pi _ _ _ :: r => 1 + nodeCost false r
  | _, .stag _ _ _ _ :: r => 1 + nodeCost false r

/-- the attributes proper of a start tag -/
def properCount (attrs : List AttrC) : Nat := ((attrsAbs attrs).filter fun a => !isNsDecl a.1).length

/-- the attributes the items still to come will append -/
def attrCost : List Item → Nat
  | [] => 0
  | .stag _ attrs _ _ :: r => properCount attrs + attrCost r
  | _ :: r => attrCost r

/-- the namespace declarations the items still to come will push -/
def declCost : List Item → Nat
  | [] => 0
  | .stag _ attrs _ _ :: r => (declsOf (attrsAbs attrs)).length + declCost r
  | _ :: r => declCost r

end Rox.Lemmas
