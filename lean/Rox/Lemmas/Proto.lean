/-
  Rox.Lemmas.Proto — the order in which the tokenizer delivers tag tokens: an `ElementStart`
  is followed by `Attribute` tokens only and then by exactly one `ElementEnd(Open|Empty)`; no
  other token comes in between, and `Attribute` / `ElementEnd(Open|Empty)` never come outside.
  (This is the "should be already checked by the tokenizer" `unreachable!` of `process_element`.)
-/
import Rox.Tok

namespace Rox.Lemmas
open Rox Rox.TM

/-- The tag automaton: the state says whether a start tag is being delivered. -/
def protoStep (q : Bool) : Token → Option Bool
  | .elementStart .. => if q then none else some true
  | .attribute .. => if q then some true else none
  | .elementEnd .open _ => if q then some false else none
  | .elementEnd .empty _ => if q then some false else none
  | _ => if q then none else some false

def protoRun : Bool → List Token → Option Bool
  | q, [] => some q
  | q, t :: ts =>
    match protoStep q t with
    | some q' => protoRun q' ts
    | none => none

theorem protoRun_append (q : Bool) (l1 l2 : List Token) :
    protoRun q (l1 ++ l2) = (protoRun q l1).bind (fun q1 => protoRun q1 l2) := by
  induction l1 generalizing q with
  | nil => simp [protoRun]
  | cons t ts ih =>
    simp only [List.cons_append, protoRun]
    cases protoStep q t with
    | none => simp
    | some q' => exact ih q'

/-- From state `q` the automaton accepts every token `m` delivers; if `m` succeeds with `a` it is
left in state `f a`. -/
def ProtoF {α} (m : TM α) (q : Bool) (f : α → Bool) : Prop :=
  ∃ qe, protoRun q m.1 = some qe ∧ (∀ a, m.2 = .ok a → qe = f a)

abbrev Proto {α} (m : TM α) (q q' : Bool) : Prop := ProtoF m q (fun _ => q')

theorem proto_pure {α} (a : α) (q : Bool) : Proto (pure a : TM α) q q :=
  ⟨q, by simp [pure, pure', protoRun], fun _ _ => rfl⟩

theorem protoF_pure {α} (a : α) (q : Bool) (f : α → Bool) (h : f a = q) : ProtoF (pure a : TM α) q f :=
  ⟨q, by simp [pure, pure', protoRun], fun b hb => by
    simp [pure, pure'] at hb; subst hb; exact h.symm⟩

theorem proto_lift {α} (r : Res α) (q : Bool) : Proto (lift r) q q :=
  ⟨q, by simp [lift, protoRun], fun _ _ => rfl⟩

/-- a failing computation that delivers nothing fits anywhere -/
theorem proto_lift_fail {α} (r : Res α) (q : Bool) (f : α → Bool) (h : ∀ a, r ≠ .ok a) :
    ProtoF (lift r) q f :=
  ⟨q, by simp [lift, protoRun], fun a ha => absurd (by simpa [lift] using ha) (h a)⟩

theorem proto_emit (t : Token) (q q' : Bool) (h : protoStep q t = some q') : Proto (emit t) q q' :=
  ⟨q', by simp [emit, protoRun, h], fun _ _ => rfl⟩

theorem proto_bind {α β} (m : TM α) (k : α → TM β) (q : Bool) (f : α → Bool) (g : β → Bool)
    (hm : ProtoF m q f) (hk : ∀ a, ProtoF (k a) (f a) g) : ProtoF (m >>= k) q g := by
  obtain ⟨t1, r⟩ := m
  obtain ⟨qe, hrun, hq⟩ := hm
  cases r with
  | ok a =>
    have := hq a rfl
    subst this
    obtain ⟨qe2, hrun2, hq2⟩ := hk a
    simp only [bind, bind']
    refine ⟨qe2, ?_, hq2⟩
    rw [protoRun_append]
    simp only at hrun
    rw [hrun]
    exact hrun2
  | err e => simp only [bind, bind']; exact ⟨qe, hrun, fun a ha => by simp at ha⟩
  | panic s => simp only [bind, bind']; exact ⟨qe, hrun, fun a ha => by simp at ha⟩
  | fuel => simp only [bind, bind']; exact ⟨qe, hrun, fun a ha => by simp at ha⟩

theorem proto_bind_lift {α β} (r : Res α) (k : α → TM β) (q : Bool) (g : β → Bool)
    (hk : ∀ a, ProtoF (k a) q g) : ProtoF (lift r >>= k) q g :=
  proto_bind _ _ _ (fun _ => q) _ (proto_lift _ _) hk

section
variable (T : Tables) (txt : Bytes)

theorem parseComment_proto (s : Stream) : Proto (parseComment T txt s) false false := by
  unfold parseComment
  apply proto_bind_lift; intro s1
  apply proto_bind_lift; rintro ⟨s2, text⟩
  apply proto_bind_lift; intro s3
  split
  · exact proto_lift _ _
  · split
    · exact proto_lift _ _
    · exact proto_bind _ _ _ (fun _ => false) _ (proto_emit _ _ _ rfl) (fun _ => proto_pure _ _)

theorem parsePi_proto (s : Stream) : Proto (parsePi T txt s) false false := by
  unfold parsePi
  split
  · exact proto_lift _ _
  · apply proto_bind_lift; intro s1
    apply proto_bind_lift; rintro ⟨s2, target⟩
    apply proto_bind_lift; intro s2'
    apply proto_bind_lift; rintro ⟨s3, content⟩
    apply proto_bind_lift; intro s4
    exact proto_bind _ _ _ (fun _ => false) _ (proto_emit _ _ _ rfl) (fun _ => proto_pure _ _)

theorem parseMisc_proto : ∀ (fuel : Nat) (s : Stream), Proto (parseMisc T txt fuel s) false false := by
  intro fuel
  induction fuel with
  | zero => intro s; unfold parseMisc; exact proto_lift _ _
  | succ f ih =>
    intro s
    unfold parseMisc
    split
    · exact proto_pure _ _
    · dsimp only
      split
      · exact proto_bind _ _ _ (fun _ => false) _ (parseComment_proto T txt _) (fun _ => ih _)
      · split
        · exact proto_bind _ _ _ (fun _ => false) _ (parsePi_proto T txt _) (fun _ => ih _)
        · exact proto_pure _ _

theorem parseEntityDeclBody_proto (s : Stream) (isGe : Bool) :
    Proto (parseEntityDeclBody T txt s isGe) false false := by
  unfold parseEntityDeclBody
  apply proto_bind_lift; rintro ⟨s1, name⟩
  apply proto_bind_lift; intro s2
  apply proto_bind_lift; rintro ⟨s3, defn⟩
  dsimp only
  split
  · split
    · exact proto_bind _ _ _ (fun _ => false) _ (proto_emit _ _ _ rfl) (fun _ => proto_lift _ _)
    · exact proto_lift _ _
  · exact proto_lift _ _

theorem parseEntityDecl_proto (s : Stream) : Proto (parseEntityDecl T txt s) false false := by
  unfold parseEntityDecl
  apply proto_bind_lift; intro s1
  apply proto_bind_lift; intro s2
  dsimp only
  split
  · apply proto_bind_lift; intro s3
    exact parseEntityDeclBody_proto T txt _ _
  · exact parseEntityDeclBody_proto T txt _ _

theorem doctypeLoop_proto (start : Nat) :
    ∀ (fuel : Nat) (s : Stream), Proto (doctypeLoop T txt start fuel s) false false := by
  intro fuel
  induction fuel with
  | zero => intro s; unfold doctypeLoop; exact proto_lift _ _
  | succ f ih =>
    intro s
    unfold doctypeLoop
    split
    · exact proto_pure _ _
    · dsimp only
      split
      · exact proto_bind _ _ _ (fun _ => false) _ (parseEntityDecl_proto T txt _) (fun _ => ih _)
      · split
        · exact proto_bind _ _ _ (fun _ => false) _ (parseComment_proto T txt _) (fun _ => ih _)
        · split
          · exact proto_bind _ _ _ (fun _ => false) _ (parsePi_proto T txt _) (fun _ => ih _)
          · split
            · apply proto_bind_lift; intro s1
              split
              · exact proto_lift _ _
              · split
                · exact proto_pure _ _
                · exact proto_lift _ _
            · split
              · split
                · exact proto_lift _ _
                · exact ih _
              · exact proto_lift _ _

theorem parseDoctype_proto (s : Stream) : Proto (parseDoctype T txt s) false false := by
  unfold parseDoctype
  apply proto_bind_lift; intro s1
  dsimp only
  split
  · split
    · exact proto_pure _ _
    · apply proto_bind_lift; intro s2
      exact doctypeLoop_proto T txt _ _ _
  · exact proto_lift _ _

/-- The attribute loop starts inside a start tag; on success the tag was closed, unless the input
ended (`none`), in which case `parse_start_tag` fails. -/
theorem startTagLoop_proto :
    ∀ (fuel : Nat) (s : Stream), ProtoF (startTagLoop T txt fuel s) true (fun p => p.2.isNone) := by
  intro fuel
  induction fuel with
  | zero => intro s; unfold startTagLoop; exact proto_lift_fail _ _ _ (by simp)
  | succ f ih =>
    intro s
    unfold startTagLoop
    split
    · exact protoF_pure _ _ _ rfl
    · dsimp only
      apply proto_bind_lift; intro c
      split
      · apply proto_bind_lift; intro s1
        apply proto_bind_lift; intro s2
        exact proto_bind _ _ _ (fun _ => false) _ (proto_emit _ _ _ rfl) (fun _ => protoF_pure _ _ _ rfl)
      · split
        · apply proto_bind_lift; intro s1
          exact proto_bind _ _ _ (fun _ => false) _ (proto_emit _ _ _ rfl) (fun _ => protoF_pure _ _ _ rfl)
        · apply proto_bind_lift; intro s1
          apply proto_bind_lift; rintro ⟨s2, pfx, loc⟩
          apply proto_bind_lift; intro s3
          apply proto_bind_lift; rintro ⟨s4, quote⟩
          apply proto_bind_lift; rintro ⟨s5, value⟩
          apply proto_bind_lift; intro _
          apply proto_bind_lift; intro s6
          exact proto_bind _ _ _ (fun _ => true) _ (proto_emit _ _ _ rfl) (fun _ => ih _)

theorem parseStartTag_proto (s : Stream) : Proto (parseStartTag T txt s) false false := by
  unfold parseStartTag
  apply proto_bind_lift; intro s1
  apply proto_bind_lift; rintro ⟨s2, pfx, loc⟩
  apply proto_bind _ _ _ (fun _ => true) _ (proto_emit _ _ _ rfl); intro _
  apply proto_bind _ _ _ _ _ (startTagLoop_proto T txt _ _); rintro ⟨s3, fin⟩
  dsimp only
  split
  · exact proto_lift_fail _ _ _ (by simp)
  · exact proto_pure _ _

theorem parseCdata_proto (s : Stream) : Proto (parseCdata T txt s) false false := by
  unfold parseCdata
  apply proto_bind_lift; intro s1
  apply proto_bind_lift; rintro ⟨s2, text⟩
  apply proto_bind_lift; intro s3
  exact proto_bind _ _ _ (fun _ => false) _ (proto_emit _ _ _ rfl) (fun _ => proto_pure _ _)

theorem parseCloseElement_proto (s : Stream) : Proto (parseCloseElement T txt s) false false := by
  unfold parseCloseElement
  apply proto_bind_lift; intro s1
  apply proto_bind_lift; rintro ⟨s2, pfx, loc⟩
  apply proto_bind_lift; intro s3
  exact proto_bind _ _ _ (fun _ => false) _ (proto_emit _ _ _ rfl) (fun _ => proto_pure _ _)

theorem parseText_proto (s : Stream) : Proto (parseText T txt s) false false := by
  unfold parseText
  apply proto_bind_lift; rintro ⟨s1, text⟩
  dsimp only
  split
  · exact proto_lift _ _
  · exact proto_bind _ _ _ (fun _ => false) _ (proto_emit _ _ _ rfl) (fun _ => proto_pure _ _)

theorem parseContent_proto :
    ∀ (fuel depth : Nat) (s : Stream), Proto (parseContent T txt fuel depth s) false false := by
  intro fuel
  induction fuel with
  | zero => intro d s; unfold parseContent; exact proto_lift _ _
  | succ f ih =>
    intro d s
    unfold parseContent
    split
    · exact proto_pure _ _
    · split
      · split
        · split
          · split
            · exact proto_bind _ _ _ (fun _ => false) _ (parseComment_proto T txt _) (fun _ => ih _ _)
            · split
              · exact proto_bind _ _ _ (fun _ => false) _ (parseCdata_proto T txt _) (fun _ => ih _ _)
              · exact proto_lift _ _
          · split
            · exact proto_bind _ _ _ (fun _ => false) _ (parsePi_proto T txt _) (fun _ => ih _ _)
            · split
              · refine proto_bind _ _ _ (fun _ => false) _ (parseCloseElement_proto T txt _) ?_
                intro _
                split
                · exact proto_pure _ _
                · exact ih _ _
              · refine proto_bind _ _ _ (fun _ => false) _ (parseStartTag_proto T txt _) ?_
                rintro ⟨s1, opened⟩
                exact ih _ _
        · exact proto_lift _ _
      · exact proto_bind _ _ _ (fun _ => false) _ (parseText_proto T txt _) (fun _ => ih _ _)

theorem parseElement_proto (s : Stream) : Proto (parseElement T txt s) false false := by
  unfold parseElement
  refine proto_bind _ _ _ (fun _ => false) _ (parseStartTag_proto T txt _) ?_
  rintro ⟨s1, opened⟩
  dsimp only
  split
  · exact parseContent_proto T txt _ _ _
  · exact proto_pure _ _

theorem parseProlog_proto : Proto (parseProlog T txt) false false := by
  unfold parseProlog
  apply proto_bind_lift; intro s1
  apply proto_bind_lift; intro s2
  refine proto_bind _ _ _ (fun _ => false) _ (parseMisc_proto T txt _ _) ?_
  intro _; exact proto_pure _ _

theorem parseBody_proto (s : Stream) : Proto (parseBody T txt s) false false := by
  unfold parseBody
  refine proto_bind _ _ _ (fun _ => false) _ ?_ ?_
  · unfold parseRootElement
    split
    · exact parseElement_proto T txt _
    · exact proto_pure _ _
  intro s1
  refine proto_bind _ _ _ (fun _ => false) _ (parseMisc_proto T txt _ _) ?_
  intro s2
  split
  · exact proto_lift _ _
  · exact proto_pure _ _

/-- The whole token stream of a document obeys the tag protocol. -/
theorem parseDocument_proto (allowDtd : Bool) : Proto (parseDocument T txt allowDtd) false false := by
  unfold parseDocument
  refine proto_bind _ _ _ (fun _ => false) _ (parseProlog_proto T txt) ?_
  intro s1
  split
  · split
    · exact proto_lift _ _
    · refine proto_bind _ _ _ (fun _ => false) _ (parseDoctype_proto T txt _) ?_
      intro s2
      refine proto_bind _ _ _ (fun _ => false) _ (parseMisc_proto T txt _ _) ?_
      intro s3
      exact parseBody_proto T txt _
  · exact parseBody_proto T txt _

/-- So does the token stream of an expanded entity value. -/
theorem tokenizeContent_proto (a b : Nat) :
    ∃ qe, protoRun false (tokenizeContent T txt a b).1 = some qe ∧
      (∀ s, (tokenizeContent T txt a b).2 = .ok s → qe = false) :=
  parseContent_proto T txt _ _ _

end
end Rox.Lemmas
