/-
  Rox.Lemmas.SafeNs — the namespace / attribute resolution part of the builder never panics, and
  keeps every stored index in range (`NsOk`).
-/
import Rox.Lemmas.SafeDefs

namespace Rox.Lemmas
open Rox Rox.Props.C06

theorem existsAux_safe (values : Array Namespace) (pfx : Option Bytes) :
    ∀ (l : List Nat), (∀ i ∈ l, i < values.size) →
      RSpec (Namespaces.existsAux values pfx l) (fun _ => True)
  | [], _ => rspec_ok _ _ trivial
  | idx :: r, h => by
    simp only [Namespaces.existsAux]
    have hlt : idx < values.size := h idx (by simp)
    rw [Array.getElem?_eq_getElem hlt]
    dsimp only
    split
    · exact rspec_ok _ _ trivial
    · exact existsAux_safe values pfx r (fun i hi => h i (by simp [hi]))

theorem exists_safe (ns : Namespaces) (hns : NsInv ns) (start : Nat) (hs : start ≤ ns.treeOrder.size)
    (pfx : Option Bytes) : RSpec (ns.exists start pfx) (fun _ => True) := by
  unfold Namespaces.exists
  split
  · omega
  · exact existsAux_safe ns.values pfx _ (fun i hi => hns.tree_lt i (List.mem_of_mem_drop hi))

theorem searchGo_safe (ns : Namespaces) (hns : NsInv ns) (name : Option Bytes) (uri : Bytes) :
    ∀ (fuel i : Nat), RSpec (ns.searchGo name uri fuel i) (fun _ => True) := by
  intro fuel
  induction fuel with
  | zero => intro i; simp only [Namespaces.searchGo]; exact rspec_ok _ _ trivial
  | succ f ih =>
    intro i
    simp only [Namespaces.searchGo]
    split
    · exact rspec_ok _ _ trivial
    · rename_i vi hvi
      have hlt : vi < ns.values.size := hns.sorted_lt vi (by
        have := List.mem_of_getElem? (l := ns.sortedOrder.toList) (i := i) (by simpa using hvi)
        exact this)
      rw [Array.getElem?_eq_getElem hlt]
      dsimp only
      split
      · exact ih _
      · exact rspec_ok _ _ trivial
      · exact rspec_ok _ _ trivial

theorem pushNs_safe (ns : Namespaces) (hns : NsInv ns) (name : Option Span) (uri : Str) :
    RSpec (ns.pushNs name uri) (fun ns' => NsInv ns' ∧ ns'.treeOrder.size = ns.treeOrder.size + 1 ∧
      ns.values.size ≤ ns'.values.size ∧
      (∀ k, k < ns.treeOrder.size → ns'.treeOrder[k]? = ns.treeOrder[k]?)) := by
  refine ⟨?_, ?_⟩
  · intro ns' h
    obtain ⟨hinv, idx, v, ht, _, _, _, _, hk⟩ := pushNs_spec ns ns' name uri hns h
    refine ⟨hinv, by rw [ht, Array.size_push], ?_, ?_⟩
    · by_cases hz : ns.values.size = 0
      · omega
      · have h1 := hk (ns.values.size - 1) (by omega)
        rw [Array.getElem?_eq_getElem (by omega : ns.values.size - 1 < ns.values.size)] at h1
        have := (Array.getElem?_eq_some_iff.mp h1).1
        omega
    · intro k hk'
      rw [ht, Array.getElem?_push]
      have : k ≠ ns.treeOrder.size := by omega
      simp [this]
  · unfold Namespaces.pushNs
    have hs := searchGo_safe ns hns (name.map (·.bytes)) uri.bytes (ns.sortedOrder.size + 1) 0
    unfold Namespaces.search
    cases hsg : ns.searchGo (name.map (·.bytes)) uri.bytes (ns.sortedOrder.size + 1) 0 with
    | ok a =>
      obtain ⟨si, found⟩ := a
      simp only [Res.bind_ok]
      split
      · rename_i hf
        subst hf
        obtain ⟨vi, v, hvi, _⟩ := searchGo_found ns _ _ _ _ _ hsg
        rw [hvi]
        trivial
      · split
        · trivial
        · trivial
    | err e => trivial
    | panic s => rw [hsg] at hs; exact absurd hs.safe (by simp [Res.Safe])
    | fuel => rw [hsg] at hs; exact absurd hs.safe (by simp [Res.Safe])

theorem pushRef_safe (ns : Namespaces) (hns : NsInv ns) (i : Nat) (hi : i < ns.treeOrder.size) :
    RSpec (ns.pushRef i) (fun ns' => NsInv ns' ∧ ns'.values = ns.values ∧
      ns'.treeOrder.size = ns.treeOrder.size + 1 ∧
      (∀ k, k < ns.treeOrder.size → ns'.treeOrder[k]? = ns.treeOrder[k]?)) := by
  unfold Namespaces.pushRef
  rw [Array.getElem?_eq_getElem hi]
  dsimp only
  refine rspec_ok _ _ ⟨⟨hns.size_le, ?_, hns.sorted_lt⟩, rfl, by simp, ?_⟩
  · intro j hj
    simp only [Array.toList_push, List.mem_append, List.mem_singleton] at hj
    rcases hj with hj | rfl
    · exact hns.tree_lt j hj
    · exact hns.tree_lt _ (by simp)
  · intro k hk
    simp only [Array.getElem?_push]
    have : k ≠ ns.treeOrder.size := by omega
    simp [this]

theorem find_safe (doc : Doc) (po : Option Bytes) :
    ∀ (l : List Nat), (∀ i ∈ l, i < doc.ns.values.size) →
      RSpec (getNsIdxByPrefix.find doc po l) (fun r => ∀ j, r = some j → j < doc.ns.values.size)
  | [], _ => by
    simp only [getNsIdxByPrefix.find]
    exact rspec_ok _ _ (by intro j hj; simp at hj)
  | idx :: r, h => by
    simp only [getNsIdxByPrefix.find]
    have hlt : idx < doc.ns.values.size := h idx (by simp)
    rw [Array.getElem?_eq_getElem hlt]
    dsimp only
    split
    · exact rspec_ok _ _ (by intro j hj; simp at hj; omega)
    · exact find_safe doc po r (fun i hi => h i (by simp [hi]))

theorem getNsIdxByPrefix_safe (txt : Bytes) (doc : Doc) (hns : NsInv doc.ns) (h0 : 0 < doc.ns.values.size)
    (nss : Range) (hn : nss.1 ≤ nss.2 ∧ nss.2 ≤ doc.ns.treeOrder.size) (pp : Nat) (pfx : Bytes) :
    RSpec (getNsIdxByPrefix txt doc nss pp pfx) (fun r => ∀ j, r = some j → j < doc.ns.values.size) := by
  unfold getNsIdxByPrefix
  dsimp only
  split
  · exact rspec_ok _ _ (by intro j hj; simp at hj; omega)
  · split
    · rename_i hc
      simp [hn.1, hn.2] at hc
    · refine rspec_bind _ _ _ _ (find_safe doc _ _ ?_) ?_
      · intro i hi
        exact hns.tree_lt i (List.mem_of_mem_drop (List.mem_of_mem_take hi))
      · intro r hr
        split
        · rename_i idx
          exact rspec_ok _ _ (by intro j hj; exact hr j hj)
        · split
          · exact errPos_safe _ _ _ _
          · exact rspec_ok _ _ (by intro j hj; simp at hj)

theorem inheritLoop_safe (startIdx : Nat) : ∀ (l : List Nat) (ns : Namespaces), NsInv ns →
    startIdx ≤ ns.treeOrder.size → (∀ i ∈ l, i < ns.treeOrder.size) →
    RSpec (inheritLoop startIdx l ns) (fun ns' => NsInv ns' ∧ ns'.values = ns.values ∧
      ns.treeOrder.size ≤ ns'.treeOrder.size) := by
  intro l
  induction l with
  | nil =>
    intro ns hns _ _
    simp only [inheritLoop]
    exact rspec_ok _ _ ⟨hns, rfl, Nat.le_refl _⟩
  | cons i r ih =>
    intro ns hns hst hl
    simp only [inheritLoop]
    have hi : i < ns.treeOrder.size := hl i (by simp)
    rw [Array.getElem?_eq_getElem hi]
    dsimp only
    have hvi : ns.treeOrder[i] < ns.values.size := hns.tree_lt _ (by simp)
    rw [Array.getElem?_eq_getElem hvi]
    dsimp only
    refine rspec_bind _ _ _ _ (exists_safe ns hns startIdx hst _) ?_
    intro ex _
    have hk : ∀ ns1, NsInv ns1 ∧ ns1.values = ns.values ∧ ns.treeOrder.size ≤ ns1.treeOrder.size →
        RSpec (inheritLoop startIdx r ns1) (fun ns' => NsInv ns' ∧ ns'.values = ns.values ∧
          ns.treeOrder.size ≤ ns'.treeOrder.size) := by
      intro ns1 ⟨h1, h2, h3⟩
      refine rspec_weaken (ih ns1 h1 (by omega) (fun j hj => by have := hl j (by simp [hj]); omega)) ?_
      intro ns2 ⟨g1, g2, g3⟩
      exact ⟨g1, by rw [g2, h2], by omega⟩
    split
    · refine rspec_bind _ _ _ _ (pushRef_safe ns hns i hi) ?_
      intro ns1 h1
      exact hk ns1 ⟨h1.1, h1.2.1, by omega⟩
    · exact hk ns ⟨hns, rfl, Nat.le_refl _⟩

/-- `resolve_namespaces`: only `doc.ns` can change; the range it returns is a valid slice of
`tree_order`. -/
theorem resolveNamespaces_safe (c : Ctx) (hp : c.parentId < c.doc.nodes.size)
    (h : NsOk c.doc c.nsStartIdx) :
    RSpec (resolveNamespaces c) (fun p => NsOk p.1.doc p.1.nsStartIdx ∧ p.2.1 ≤ p.2.2 ∧
      p.2.2 ≤ p.1.doc.ns.treeOrder.size ∧ p.1 = { c with doc := { c.doc with ns := p.1.doc.ns } }) := by
  unfold resolveNamespaces
  have hp' : c.nodeAt c.parentId = .ok c.doc.nodes[c.parentId] := by
    unfold Ctx.nodeAt; rw [Array.getElem?_eq_getElem hp]
  rw [hp']
  simp only [Res.bind_ok]
  split
  · rename_i tn name attrs parentNs hk
    obtain ⟨e1, e2, _, _, _⟩ :=
      h.elem c.parentId _ tn name attrs parentNs (Array.getElem?_eq_getElem hp) hk
    split
    · exact rspec_ok _ _ ⟨h, e1, e2, rfl⟩
    · refine rspec_bind _ _ _ _ (inheritLoop_safe c.nsStartIdx _ c.doc.ns h.ns h.start ?_) ?_
      · intro i hi
        simp only [List.mem_map, List.mem_range] at hi
        obtain ⟨a, ha, rfl⟩ := hi
        omega
      · intro ns ⟨g1, g2, g3⟩
        refine rspec_ok _ _ ⟨⟨g1, ?_, ?_, ?_, ?_⟩, ?_, Nat.le_refl _, rfl⟩
        · show 0 < ns.values.size
          rw [g2]; exact h.xml0
        · show c.nsStartIdx ≤ ns.treeOrder.size
          have := h.start; omega
        · intro i n tn' name' attrs' nss' hn hk'
          obtain ⟨f1, f2, f3, f4, f5⟩ := h.elem i n tn' name' attrs' nss' hn hk'
          refine ⟨f1, ?_, f3, f4, ?_⟩
          · show nss'.2 ≤ ns.treeOrder.size
            omega
          · show ∀ j, tn' = some j → j < ns.values.size
            rw [g2]; exact f5
        · intro k a ha j hj
          show j < ns.values.size
          rw [g2]; exact h.attrNs k a ha j hj
        · show c.nsStartIdx ≤ ns.treeOrder.size
          have := h.start; omega
  · exact rspec_ok _ _ ⟨h, h.start, Nat.le_refl _, rfl⟩

theorem expandedName_safe (d : Doc) (nsIdx : Option Nat) (loc : Span)
    (h : ∀ j, nsIdx = some j → j < d.ns.values.size) :
    RSpec (Api.expandedName d nsIdx loc) (fun _ => True) := by
  unfold Api.expandedName
  split
  · exact rspec_ok _ _ trivial
  · rename_i vi
    have hlt := h vi rfl
    unfold Api.nsByIdx
    rw [Array.getElem?_eq_getElem hlt]
    exact rspec_ok _ _ trivial

theorem attrExpanded_safe (d : Doc) (st : Nat) (h : NsOk d st) (k : Nat) (hk : k < d.attrs.size) :
    RSpec (Api.attrExpanded d k) (fun _ => True) := by
  unfold Api.attrExpanded Api.attrAt
  rw [Array.getElem?_eq_getElem hk]
  simp only [Res.bind_ok]
  exact expandedName_safe d _ _ (h.attrNs k _ (Array.getElem?_eq_getElem hk))

theorem attrNsIdx_safe (txt : Bytes) (doc : Doc) (hns : NsInv doc.ns) (h0 : 0 < doc.ns.values.size)
    (nss : Range) (hn : nss.1 ≤ nss.2 ∧ nss.2 ≤ doc.ns.treeOrder.size) (a : TempAttr) :
    RSpec (attrNsIdx txt doc nss a) (fun r => ∀ j, r = some j → j < doc.ns.values.size) := by
  unfold attrNsIdx
  split
  · exact rspec_ok _ _ (by intro j hj; simp at hj; omega)
  · split
    · exact rspec_ok _ _ (by intro j hj; simp at hj)
    · exact getNsIdxByPrefix_safe txt doc hns h0 nss hn _ _

theorem anyM_safe {α} (f : α → Res Bool) :
    ∀ (l : List α), (∀ k ∈ l, RSpec (f k) (fun _ => True)) → RSpec (l.anyM f) (fun _ => True)
  | [], _ => by simp only [List.anyM]; exact rspec_ok _ _ trivial
  | a :: r, h => by
    simp only [List.anyM]
    refine rspec_bind _ _ _ _ (h a (by simp)) ?_
    intro b _
    cases b
    · exact anyM_safe f r (fun k hk => h k (by simp [hk]))
    · exact rspec_ok _ _ trivial

theorem resolveAttrsLoop_safe (txt : Bytes) (pos : Bool) (nss : Range) (startIdx st : Nat) :
    ∀ (l : List TempAttr) (doc : Doc), NsOk doc st →
      (nss.1 ≤ nss.2 ∧ nss.2 ≤ doc.ns.treeOrder.size) →
      RSpec (resolveAttrsLoop txt pos nss startIdx l doc) (fun doc' => NsOk doc' st ∧
        doc'.nodes = doc.nodes ∧ doc'.ns = doc.ns ∧ doc.attrs.size ≤ doc'.attrs.size) := by
  intro l
  induction l with
  | nil =>
    intro doc h _
    simp only [resolveAttrsLoop]
    exact rspec_ok _ _ ⟨h, rfl, rfl, Nat.le_refl _⟩
  | cons a r ih =>
    intro doc h hn
    simp only [resolveAttrsLoop]
    refine rspec_bind _ _ _ _ (attrNsIdx_safe txt doc h.ns h.xml0 nss hn a) ?_
    intro nsIdx hidx
    refine rspec_bind _ _ _ _ (expandedName_safe doc nsIdx a.loc hidx) ?_
    intro en _
    refine rspec_bind _ _ (fun _ => True) _ ?_ ?_
    · apply anyM_safe
      intro k hk
      simp only [List.mem_map, List.mem_range] at hk
      obtain ⟨x, hx, rfl⟩ := hk
      refine rspec_bind _ _ _ _ (attrExpanded_safe doc st h _ (by omega)) ?_
      intro e _
      exact rspec_ok _ _ trivial
    · intro dup _
      split
      · exact errPos_safe _ _ _ _
      · generalize had : (if pos = true then
            ({ nsIdx := nsIdx, localName := a.loc, value := a.value, range := a.range,
               qnameLen := a.qnameLen, eqLen := a.eqLen } : AttrData)
          else
            { nsIdx := nsIdx, localName := a.loc, value := a.value, range := (0, 0),
              qnameLen := 0, eqLen := 0 }) = ad
        have hadns : ad.nsIdx = nsIdx := by
          rw [← had]; split <;> rfl
        have h1 : NsOk { doc with attrs := doc.attrs.push ad } st := by
          refine ⟨h.ns, h.xml0, h.start, ?_, ?_⟩
          · intro i n tn name attrs nss' hn' hk'
            obtain ⟨f1, f2, f3, f4, f5⟩ := h.elem i n tn name attrs nss' hn' hk'
            refine ⟨f1, f2, f3, ?_, f5⟩
            show attrs.2 ≤ (doc.attrs.push ad).size
            rw [Array.size_push]; omega
          · intro k a' ha' j hj
            show j < doc.ns.values.size
            have ha'' : (doc.attrs.push ad)[k]? = some a' := ha'
            rw [Array.getElem?_push] at ha''
            split at ha''
            · simp only [Option.some.injEq] at ha''
              subst ha''
              exact hidx j (by rw [← hadns]; exact hj)
            · exact h.attrNs k a' ha'' j hj
        refine rspec_weaken (ih _ h1 hn) ?_
        intro doc' ⟨g1, g2, g3, g4⟩
        refine ⟨g1, g2, g3, ?_⟩
        simp only [Array.size_push] at g4
        omega

/-- `resolve_attributes`: only `doc.attrs` (and the drained `curAttrs`) can change; the range it
returns is a valid slice of `attrs`. -/
theorem resolveAttributes_safe (txt : Bytes) (c : Ctx) (nss : Range) (st : Nat) (h : NsOk c.doc st)
    (hn : nss.1 ≤ nss.2 ∧ nss.2 ≤ c.doc.ns.treeOrder.size) :
    RSpec (resolveAttributes txt c nss) (fun p => NsOk p.1.doc st ∧ p.2.1 ≤ p.2.2 ∧
      p.2.2 ≤ p.1.doc.attrs.size ∧ p.1.doc.nodes = c.doc.nodes ∧ p.1.doc.ns = c.doc.ns ∧
      p.1 = { c with doc := p.1.doc, curAttrs := p.1.curAttrs }) := by
  unfold resolveAttributes
  split
  · exact rspec_ok _ _ ⟨h, Nat.le_refl _, Nat.zero_le _, rfl, rfl, rfl⟩
  · split
    · exact rspec_err _ _
    · refine rspec_bind _ _ _ _ (resolveAttrsLoop_safe txt c.positions nss c.doc.attrs.size st
        c.curAttrs c.doc h hn) ?_
      intro doc' ⟨g1, g2, g3, g4⟩
      exact rspec_ok _ _ ⟨g1, g4, Nat.le_refl _, g2, g3, rfl⟩

end Rox.Lemmas
