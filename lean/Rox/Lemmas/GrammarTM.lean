/-
  Rox.Lemmas.GrammarTM — inversion of successful token-emitting computations (`Rox.TM`): what
  `m >>= k = (toks, .ok b)` says about `m` and `k` (used by Stage A of the grammar-soundness proof).
-/
import Rox.Lemmas.GrammarDefs

namespace Rox.Lemmas
open Rox Rox.TM

theorem tm_bind_ok {α β} {m : TM α} {k : α → TM β} {toks : List Token} {b : β}
    (h : (m >>= k) = (toks, .ok b)) :
    ∃ t1 a t2, m = (t1, .ok a) ∧ k a = (t2, .ok b) ∧ toks = t1 ++ t2 := by
  obtain ⟨t1, r⟩ := m
  cases r with
  | ok a =>
    simp only [bind, bind'] at h
    obtain ⟨h1, h2⟩ := Prod.mk.inj h
    exact ⟨t1, a, (k a).1, rfl, Prod.ext rfl h2, h1.symm⟩
  | err e => simp only [bind, bind'] at h; cases (Prod.mk.inj h).2
  | panic s => simp only [bind, bind'] at h; cases (Prod.mk.inj h).2
  | fuel => simp only [bind, bind'] at h; cases (Prod.mk.inj h).2

theorem tm_lift_bind_ok {α β} {r : Res α} {k : α → TM β} {toks : List Token} {b : β}
    (h : (lift r >>= k) = (toks, .ok b)) : ∃ a, r = .ok a ∧ k a = (toks, .ok b) := by
  obtain ⟨t1, a, t2, h1, h2, h3⟩ := tm_bind_ok h
  obtain ⟨e1, e2⟩ := Prod.mk.inj h1
  subst e1; subst e2
  exact ⟨a, rfl, by rw [h2, h3]; rfl⟩

theorem tm_emit_bind_ok {β} {t : Token} {k : Unit → TM β} {toks : List Token} {b : β}
    (h : (emit t >>= k) = (toks, .ok b)) : ∃ t2, k () = (t2, .ok b) ∧ toks = t :: t2 := by
  obtain ⟨t1, a, t2, h1, h2, h3⟩ := tm_bind_ok h
  obtain ⟨e1, e2⟩ := Prod.mk.inj h1
  cases e2
  subst e1
  exact ⟨t2, h2, h3⟩

theorem tm_pure_ok {α} {a b : α} {toks : List Token} (h : (pure a : TM α) = (toks, .ok b)) :
    toks = [] ∧ a = b := by
  obtain ⟨e1, e2⟩ := Prod.mk.inj h
  cases e2
  exact ⟨e1.symm, rfl⟩

theorem tm_lift_ok {α} {r : Res α} {b : α} {toks : List Token} (h : (lift r : TM α) = (toks, .ok b)) :
    toks = [] ∧ r = .ok b := by
  obtain ⟨e1, e2⟩ := Prod.mk.inj h
  exact ⟨e1.symm, e2⟩

/-- a failing token-free computation is not a success -/
theorem tm_lift_ne_ok {α} {r : Res α} {b : α} {toks : List Token} (hr : ∀ a, r ≠ .ok a) :
    (lift r : TM α) ≠ (toks, .ok b) := by
  intro h
  exact hr b (tm_lift_ok h).2

end Rox.Lemmas
