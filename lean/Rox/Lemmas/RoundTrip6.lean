/-
  Rox.Lemmas.RoundTrip6 — C04/C07: an entity reference inside a run of character data contributes
  its replacement text to the run; the run is still ONE text node whose value is the concatenation.
-/
import Rox.Spec.Canon6
import Rox.Lemmas.RtTok6
import Rox.Lemmas.RtBuild6
import Rox.Lemmas.RoundTrip3

namespace Rox.Lemmas
open Rox Rox.Spec.Canon

/-- **Entity text merges with its neighbours** (every abstract document `<n as>pre (t1 v t2) post</n>`
of the class `ok`, any shape; `t1`, `v`, `t2` any plain strings, each possibly empty, `v` without an
apostrophe): the document with `v` moved into the replacement text of an entity and `&e;` written
in its place inside the run parses (with `allow_dtd = true`) to exactly the tree of the inline
document — in particular the run is one text node with value `t1 ++ v ++ t2`. -/
theorem parse_hoistT (T : Tables) (hT : TablesOK T) (hC : TablesCanon T) (hC3 : TablesCanon3 T)
    (opt : Opt) (hdtd : opt.allowDtd = true)
    (n : Bytes) (as : List (Bytes × Bytes)) (pre : List XNode) (t1 v t2 : Bytes) (post : List XNode)
    (hx : hoistTOk n as pre t1 v t2 post = true)
    (hlim : count (inlineT n as pre t1 v t2 post) + 1 ≤ opt.nodesLimit)
    (hl32 : opt.nodesLimit ≤ 4294967295)
    (hattrs : attrCount (inlineT n as pre t1 v t2 post) < 4294967295) :
    ∃ d, parse T (hoistT n as pre t1 v t2 post) opt = .ok d ∧
      d.nodes.toList.map (view d) =
        some (none, XKind.root) :: (expect 0 1 (inlineT n as pre t1 v t2 post)).map some :=
  parse_of_hoistTToks T hC hC3 (hoistT n as pre t1 v t2 post) opt hdtd n as pre t1 v t2 post hx
    (tokenize_hoistT T hT hC hC3 n as pre t1 v t2 post hx)
    (tokenizeContent_hoistT T hT hC hC3 n as pre t1 v t2 post hx)
    (hoistT_run_slice n as pre t1 v t2 post) hlim hl32 hattrs

end Rox.Lemmas
