/-
  Rox.Lemmas.BInv — the tree invariant is preserved when a node is appended the way
  `append_node` does it.
-/
import Rox.Lemmas.Chain
import Rox.Lemmas.Find

namespace Rox.Lemmas
open Rox Rox.Spec

/-- `WF` without the clause about adjacent text nodes: the link structure. -/
structure LinkWF (a : Arena) : Prop where
  nonempty : 0 < a.size
  root : par a 0 = none ∧ kindIs a 0 Kind.isRoot = true
  parent_lt : ∀ i, 0 < i → i < a.size →
    ∃ p, par a i = some p ∧ p < i ∧ kindIs a p canHaveChildren = true
  not_root : ∀ i, 0 < i → i < a.size → kindIs a i Kind.isRoot = false
  preorder : ∀ i, i + 1 < a.size → ∃ p, par a (i + 1) = some p ∧ isAncOrSelf a p i = true
  prev : ∀ i, i < a.size → prevSib a i = if i = 0 then none else prevSibSpec a i
  last : ∀ p, p < a.size → lastCh a p = lastChildSpec a p
  next : ∀ i, i < a.size → nextSub a i = nextSubtreeSpec a i
  /-- nothing is stored beyond the arena -/
  beyond : ∀ i, a.size ≤ i → par a i = none

theorem LinkWF.parentLt {a : Arena} (h : LinkWF a) : ParentLt a := by
  intro i p hp
  by_cases hi : i < a.size
  · by_cases h0 : i = 0
    · subst h0; rw [h.root.1] at hp; simp at hp
    · obtain ⟨q, hq, hlt, _⟩ := h.parent_lt i (by omega) hi
      rw [hq] at hp; simp at hp; omega
  · rw [h.beyond i (by omega)] at hp; simp at hp

theorem LinkWF.preorder' {a : Arena} (h : LinkWF a) : Preorder a := by
  intro i p hp hlt
  obtain ⟨q, hq, hanc⟩ := h.preorder i hlt
  rw [hq] at hp; simp at hp; subst hp; exact hanc

theorem LinkWF.hasParent {a : Arena} (h : LinkWF a) : ∀ i, 0 < i → i < a.size → ∃ p, par a i = some p := by
  intro i h0 hi
  obtain ⟨p, hp, _⟩ := h.parent_lt i h0 hi
  exact ⟨p, hp⟩

/-- The arena `a'` is `a` with one node appended under `pid`, the way `append_node` does it. -/
structure Ext (a a' : Arena) (pid : Nat) (aw : List Nat) (k : Kind) : Prop where
  size : a'.size = a.size + 1
  old : ∀ i, i < a.size → a'[i]? = (a[i]?).map fun m =>
      { m with lastChild := (if i = pid then some a.size else m.lastChild),
               nextSubtree := (if i ∈ aw then some a.size else m.nextSubtree) }
  new : ∃ p r, a[pid]? = some p ∧ a'[a.size]? = some (NodeData.mk (some pid) p.lastChild none none k r)

section ext
variable {a a' : Arena} {pid : Nat} {aw : List Nat} {k : Kind} (e : Ext a a' pid aw k)
include e

theorem Ext.par_old (i : Nat) (hi : i < a.size) : par a' i = par a i := by
  unfold par; rw [e.old i hi]; cases a[i]? <;> simp

theorem Ext.par_new : par a' a.size = some pid := by
  obtain ⟨p, r, _, hn⟩ := e.new
  unfold par; rw [hn]; rfl

theorem Ext.par_beyond (i : Nat) (hi : a.size < i) : par a' i = none := by
  unfold par
  have : a'[i]? = none := by rw [Array.getElem?_eq_none]; rw [e.size]; omega
  rw [this]; rfl

theorem Ext.kind_old (i : Nat) (hi : i < a.size) (p : Kind → Bool) : kindIs a' i p = kindIs a i p := by
  unfold kindIs; rw [e.old i hi]; cases a[i]? <;> simp

theorem Ext.kind_new (p : Kind → Bool) : kindIs a' a.size p = p k := by
  obtain ⟨q, r, _, hn⟩ := e.new
  unfold kindIs; rw [hn]

theorem Ext.prev_old (i : Nat) (hi : i < a.size) : prevSib a' i = prevSib a i := by
  unfold prevSib; rw [e.old i hi]; cases a[i]? <;> simp

theorem Ext.prev_new : prevSib a' a.size = lastCh a pid := by
  obtain ⟨p, r, hp, hn⟩ := e.new
  unfold prevSib lastCh; rw [hn, hp]; rfl

theorem Ext.last_old (i : Nat) (hi : i < a.size) :
    lastCh a' i = if i = pid then some a.size else lastCh a i := by
  unfold lastCh; rw [e.old i hi]
  have : a[i]? = some a[i] := by simp [hi]
  rw [this]; simp

theorem Ext.last_new : lastCh a' a.size = none := by
  obtain ⟨p, r, _, hn⟩ := e.new
  unfold lastCh; rw [hn]; rfl

theorem Ext.next_old (i : Nat) (hi : i < a.size) :
    nextSub a' i = if i ∈ aw then some a.size else nextSub a i := by
  unfold nextSub; rw [e.old i hi]
  have : a[i]? = some a[i] := by simp [hi]
  rw [this]; simp

theorem Ext.next_new : nextSub a' a.size = none := by
  obtain ⟨p, r, _, hn⟩ := e.new
  unfold nextSub; rw [hn]; rfl

theorem Ext.anc_old (h : ParentLt a) (x i : Nat) (hi : i < a.size) : Anc a' x i ↔ Anc a x i :=
  anc_congr a a' a.size (fun j hj => e.par_old j hj) h x i hi

theorem Ext.parentLt (h : ParentLt a) (hpid : pid < a.size) : ParentLt a' := by
  intro i p hp
  rcases Nat.lt_trichotomy i a.size with hi | hi | hi
  · rw [e.par_old i hi] at hp; exact h i p hp
  · subst hi; rw [e.par_new] at hp; simp at hp; omega
  · rw [e.par_beyond i hi] at hp; simp at hp

theorem Ext.anc_new (h : ParentLt a) (hpid : pid < a.size) (x : Nat) :
    Anc a' x a.size ↔ x = a.size ∨ Anc a x pid := by
  rw [anc_step a' (e.parentLt h hpid) x a.size pid e.par_new, e.anc_old h x pid hpid]

end ext

/-- **Main preservation lemma**: appending a node under `pid` keeps the link structure, provided
`pid` is on the ancestor chain of the last node and `aw` is exactly the set of finished nodes on
the right spine (those that are not ancestors-or-self of `pid`). -/
theorem LinkWF.ext {a a' : Arena} {pid : Nat} {aw : List Nat} {k : Kind}
    (h : LinkWF a) (e : Ext a a' pid aw k)
    (hpid : pid < a.size) (hkind : kindIs a pid canHaveChildren = true)
    (hspine : Anc a pid (a.size - 1))
    (haw : ∀ x, x ∈ aw ↔ x < a.size ∧ nextSubtreeSpec a x = none ∧ ¬ Anc a x pid)
    (hk : k.isRoot = false) : LinkWF a' := by
  have hPL := h.parentLt
  have hPL' := e.parentLt hPL hpid
  have hn := h.nonempty
  refine ⟨by rw [e.size]; omega, ?_, ?_, ?_, ?_, ?_, ?_, ?_, ?_⟩
  · -- root
    rw [e.par_old 0 hn, e.kind_old 0 hn]; exact h.root
  · -- parent_lt
    intro i h0 hi
    rw [e.size] at hi
    by_cases hin : i < a.size
    · obtain ⟨p, hp, hlt, hk'⟩ := h.parent_lt i h0 hin
      exact ⟨p, by rw [e.par_old i hin]; exact hp, hlt, by rw [e.kind_old p (by omega)]; exact hk'⟩
    · have : i = a.size := by omega
      subst this
      exact ⟨pid, e.par_new, hpid, by rw [e.kind_old pid hpid]; exact hkind⟩
  · -- not_root
    intro i h0 hi
    rw [e.size] at hi
    by_cases hin : i < a.size
    · rw [e.kind_old i hin]; exact h.not_root i h0 hin
    · have : i = a.size := by omega
      subst this; rw [e.kind_new]; exact hk
  · -- preorder
    intro i hi
    rw [e.size] at hi
    by_cases hin : i + 1 < a.size
    · obtain ⟨p, hp, hanc⟩ := h.preorder i hin
      refine ⟨p, by rw [e.par_old _ hin]; exact hp, ?_⟩
      exact (e.anc_old hPL p i (by omega)).mpr hanc
    · have hi' : i + 1 = a.size := by omega
      refine ⟨pid, by rw [hi']; exact e.par_new, ?_⟩
      have : i = a.size - 1 := by omega
      rw [this]
      exact (e.anc_old hPL pid (a.size - 1) (by omega)).mpr hspine
  · -- prev
    intro i hi
    rw [e.size] at hi
    by_cases hin : i < a.size
    · rw [e.prev_old i hin, h.prev i hin]
      by_cases h0 : i = 0
      · simp [h0]
      · simp only [h0, if_false]
        unfold prevSibSpec
        apply find?_congr'
        intro j hj
        rw [List.mem_reverse, List.mem_range] at hj
        rw [e.par_old j (by omega), e.par_old i hin]
    · have hi' : i = a.size := by omega
      subst hi'
      have h0 : a.size ≠ 0 := by omega
      simp only [h0, if_false]
      rw [e.prev_new, h.last pid hpid]
      unfold lastChildSpec prevSibSpec
      rw [e.par_new]
      -- both are the greatest j < size with parent `pid`; parents of old nodes are unchanged
      apply find?_congr'
      intro j hj
      rw [List.mem_reverse, List.mem_range] at hj
      rw [e.par_old j hj]
  · -- last
    intro p hp
    rw [e.size] at hp
    by_cases hpn : p < a.size
    · rw [e.last_old p hpn]
      by_cases hpp : p = pid
      · subst hpp
        simp only [if_true]
        symm
        unfold lastChildSpec
        rw [e.size, find_rev_range_some]
        refine ⟨by omega, by rw [e.par_new]; simp, fun k h1 h2 => by omega⟩
      · simp only [hpp, if_false]
        rw [h.last p hpn]
        unfold lastChildSpec
        rw [e.size, List.range_succ, List.reverse_append, List.reverse_singleton, List.singleton_append,
          List.find?_cons]
        have : (par a' a.size == some p) = false := by
          rw [e.par_new]; simp; exact fun h => hpp h.symm
        simp only [this]
        apply find?_congr'
        intro j hj
        rw [List.mem_reverse, List.mem_range] at hj
        rw [e.par_old j hj]
    · have hpe : p = a.size := by omega
      subst hpe
      rw [e.last_new]
      symm
      unfold lastChildSpec
      rw [find_rev_range_none]
      intro k hk
      rw [e.size] at hk
      by_cases hkn : k < a.size
      · rw [e.par_old k hkn]
        cases hpk : par a k with
        | none => simp
        | some q => have := hPL k q hpk; simp; omega
      · have : k = a.size := by omega
        subst this; rw [e.par_new]; simp; omega
  · -- next
    intro i hi
    rw [e.size] at hi
    by_cases hin : i < a.size
    · rw [e.next_old i hin, h.next i hin]
      unfold nextSubtreeSpec
      rw [e.size]
      cases hs : (List.range' (i + 1) (a.size - (i + 1))).find? (fun j => !isAncOrSelf a i j) with
      | some j =>
        rw [find_range'_some] at hs
        obtain ⟨h1, h2, h3, h4⟩ := hs
        have hia : i ∉ aw := by
          intro hm
          have := ((haw i).mp hm).2.1
          unfold nextSubtreeSpec at this
          rw [find_range'_none] at this
          have := this j h1 h2
          rw [h3] at this; simp at this
        simp only [hia, if_false]
        symm
        rw [find_range'_some]
        have hjn : j < a.size := by omega
        refine ⟨h1, by omega, ?_, ?_⟩
        · have := e.anc_old hPL i j hjn
          unfold Anc at this
          simp only [Bool.not_eq_true', Bool.not_eq_eq_eq_not, Bool.not_true] at h3 ⊢
          cases hx : isAncOrSelf a' i j
          · rfl
          · rw [this.mp hx] at h3; simp at h3
        · intro k hk1 hk2
          have hkn : k < a.size := by omega
          have := h4 k hk1 hk2
          have hc := e.anc_old hPL i k hkn
          unfold Anc at hc
          simp only [Bool.not_eq_eq_eq_not, Bool.not_false] at this ⊢
          exact hc.mpr this
      | none =>
        rw [find_range'_none] at hs
        by_cases hia : i ∈ aw
        · simp only [hia, if_true]
          symm
          rw [find_range'_some]
          refine ⟨by omega, by omega, ?_, ?_⟩
          · have hn' := ((haw i).mp hia).2.2
            have := e.anc_new hPL hpid i
            simp only [Bool.not_eq_eq_eq_not, Bool.not_true]
            cases hx : isAncOrSelf a' i a.size
            · rfl
            · exfalso
              rcases this.mp hx with h | h
              · omega
              · exact hn' h
          · intro k hk1 hk2
            have := hs k hk1 (by omega)
            have hc := e.anc_old hPL i k hk2
            unfold Anc at hc
            simp only [Bool.not_eq_eq_eq_not, Bool.not_false] at this ⊢
            exact hc.mpr this
        · simp only [hia, if_false]
          symm
          rw [find_range'_none]
          intro k hk1 hk2
          have hanc : Anc a i pid := by
            by_cases hc : Anc a i pid
            · exact hc
            · exfalso
              apply hia
              rw [haw]
              refine ⟨hin, ?_, hc⟩
              unfold nextSubtreeSpec
              rw [find_range'_none]; exact hs
          simp only [Bool.not_eq_eq_eq_not, Bool.not_false]
          by_cases hkn : k < a.size
          · have := hs k hk1 (by omega)
            have hc := e.anc_old hPL i k hkn
            unfold Anc at hc
            simp only [Bool.not_eq_eq_eq_not, Bool.not_false] at this
            exact hc.mpr this
          · have hk : k = a.size := by omega
            subst hk
            exact (e.anc_new hPL hpid i).mpr (Or.inr hanc)
    · have hie : i = a.size := by omega
      subst hie
      rw [e.next_new]
      unfold nextSubtreeSpec
      rw [e.size]
      simp
  · -- beyond
    intro i hi
    rw [e.size] at hi
    exact e.par_beyond i (by omega)

end Rox.Lemmas
