/-
  Rox.Lemmas.CompleteBuild — Stage B⁻¹ of the completeness proof, part 3: the builder accepts the
  tokens of every item list that passes the item-level checks (`Item.Sem`, `runOk`: balanced tags
  with matching names, namespace constraints) and whose costs fit the limits; the final checks of
  `parse` pass.
-/
import Rox.Lemmas.CompleteBuildDefs
import Rox.Lemmas.CompleteRef
import Rox.Lemmas.CompleteStag
import Rox.Lemmas.RtBuild4
import Rox.Props.C08Reject
import Rox.Lemmas.SizeBound

namespace Rox.Lemmas.CB.Build
open Rox Rox.Spec Rox.Spec.Grammar Rox.Spec.Mirror Rox.Spec.MirrorNs Rox.Spec.Complete Rox.Props.C06
  Rox.Lemmas.GB

/-! ### Monotonicity of the node chain -/

theorem scopeRel_congr {d d' : Doc} (hns : d'.ns = d.ns) {r : Range} {sc : Scope}
    (h : ScopeRel d r sc) : ScopeRel d' r sc := by
  unfold ScopeRel scopeList at h ⊢
  have : nsPair d' = nsPair d := by
    funext i; unfold nsPair; rw [hns]
  rw [this, hns]
  exact h

theorem nchain_mono {d d' : Doc} (hk : SKeep d.nodes d'.nodes) (hns : d'.ns = d.ns) :
    ∀ (l : List Scope) (pid : Nat), NChain d l pid → NChain d' l pid := by
  intro l
  induction l with
  | nil =>
    intro pid h
    obtain ⟨nd, hn, hkd⟩ := h
    obtain ⟨nd', hn', _, hk'⟩ := hk pid nd hn
    refine ⟨nd', hn', ?_⟩
    rcases hk' with e | ⟨ht, _⟩
    · rw [e]; exact hkd
    · rw [hkd] at ht; simp [Kind.isText] at ht
  | cons sc rest ih =>
    intro pid h
    obtain ⟨nd, ns, tn, as, nss, q, hn, hkd, hsr, hp, hr⟩ := h
    obtain ⟨nd', hn', hp', hk'⟩ := hk pid nd hn
    refine ⟨nd', ns, tn, as, nss, q, hn', ?_, scopeRel_congr hns hsr, hp'.trans hp, ih q hr⟩
    rcases hk' with e | ⟨ht, _⟩
    · rw [e]; exact hkd
    · rw [hkd] at ht; simp [Kind.isText] at ht

theorem hasRootEl_mono {d d' : Doc} (hk : SKeep d.nodes d'.nodes) (h : HasRootEl d) :
    HasRootEl d' := by
  obtain ⟨j, nj, hj, hp, hke⟩ := h
  obtain ⟨nd', hn', hp', hk'⟩ := hk j nj hj
  refine ⟨j, nd', hn', hp'.trans hp, ?_⟩
  rcases hk' with e | ⟨ht, _⟩
  · rw [e]; exact hke
  · cases hkk : nj.kind <;> rw [hkk] at ht hke <;> simp [Kind.isText, Kind.isElement] at ht hke

/-! ### Frame steps -/

theorem ok_of_safe {α} {r : Res α} (hs : Res.Safe r) (he : ∀ e, r ≠ .err e) : ∃ a, r = .ok a := by
  cases r with
  | ok a => exact ⟨a, rfl⟩
  | err e => exact absurd rfl (he e)
  | panic s => exact hs.elim
  | fuel => exact hs.elim

/-- what `GSh` keeps -/
theorem gsh_facts {c c' : Ctx} (h : GSh c c') :
    c'.nodesLimit = c.nodesLimit ∧ c'.doc.attrs = c.doc.attrs ∧ c'.doc.ns = c.doc.ns ∧
      c'.tagName = c.tagName ∧ c'.ld = c.ld ∧ c'.parentId = c.parentId := by
  obtain ⟨n, a, f, t, rfl⟩ := h
  exact ⟨rfl, rfl, rfl, rfl, rfl, rfl⟩

theorem cinv_frame {txt : Bytes} {st : SStk} {c c' : Ctx} (h : CInv txt st c) (hs : GSh c c')
    (hk : SKeep c.doc.nodes c'.doc.nodes) (hb : BInv c') (ha : AInv txt c') : CInv txt st c' := by
  have hg : GInv (st.map (·.1)) c' := by
    refine h.ginv.frame hs ?_ hb
    obtain ⟨n, a, f, t, rfl⟩ := hs
    exact ⟨rfl, rfl, rfl, rfl, rfl, hk⟩
  obtain ⟨n, a, f, t, rfl⟩ := hs
  exact ⟨hb, ha, hg, h.ld0, nchain_mono hk rfl _ _ h.nchain, h.xml0, h.tag⟩

theorem ainv_log {txt : Bytes} {c : Ctx} (ha : AInv txt c) (e : Ev) : AInv txt (c.log e) :=
  ⟨ha.lim, ha.nsOk, ha.text, ha.ents, ha.depth⟩

theorem mergeText_ne_err (c : Ctx) (e : Err) : c.mergeText ≠ .err e := by
  intro her
  unfold Ctx.mergeText at her
  dsimp only at her
  split at her
  · simp at her
  · split at her
    · simp at her
    · split at her <;> simp at her

/-- `reset_after_text` (after logging the token) succeeds and is a frame step -/
theorem cb_reset {txt : Bytes} {st : SStk} {c : Ctx} (h : CInv txt st c) (e : Ev) :
    ∃ c1, (c.log e).resetAfterText = .ok c1 ∧ CInv txt st c1 ∧ c1.afterText = [] ∧
      c1.doc.nodes.size = c.doc.nodes.size ∧ GSh c c1 ∧ SKeep c.doc.nodes c1.doc.nodes := by
  have hb0 : BInv (c.log e) := h.binv.congr rfl rfl rfl
  have ha0 : AInv txt (c.log e) := ainv_log h.ainv e
  have hs := resetAfterText_safe (c.log e) ha0
  obtain ⟨c1, h1⟩ : ∃ c1, (c.log e).resetAfterText = .ok c1 := by
    apply ok_of_safe hs.safe
    intro er her
    unfold Ctx.resetAfterText at her
    split at her
    · simp at her
    · split at her
      · simp only [bind, Res.bind] at her
        split at her
        · simp [pure] at her
        · rename_i e1 he1; exact mergeText_ne_err _ _ he1
        · simp at her
        · simp at her
      · simp [bind, Res.bind, pure] at her
  obtain ⟨ha1, _, hat⟩ := hs.post c1 h1
  have hb1 := binv_resetAfterText hb0 h1
  have s0 := gb_log_sh c e
  have s1 := gb_resetAfterText_sh h1
  obtain ⟨f1, _⟩ := resetAfterText_sfr (txt := []) h1
  have hk : SKeep c.doc.nodes c1.doc.nodes := f1.keep
  exact ⟨c1, h1, cinv_frame h (s0.trans s1) hk hb1 ha1, hat, (resetAfterText_m _ _ h1).1,
    s0.trans s1, hk⟩

section
variable (T : Tables) (hT : TablesOK T) (hX : TablesComplete T) (txt : Bytes)

/-- the builder step of the top level -/
abbrev topStep : Token → Ctx → Res Ctx := tokenStep T txt (token T txt 11)

include hT in
theorem topStep_safe : TokSafe txt (topStep T txt) 0 := token_safe T hT txt 12

include hT in
theorem lower_safe : TokSafe txt (token T txt 11) 1 := (token_safe T hT txt 11).mono (by omega)

theorem topStep_binv (t : Token) (c c' : Ctx) (hb : BInv c) (h : topStep T txt t c = .ok c') :
    BInv c' := binv_tokenStep T txt _ (binv_token T txt 11) t c c' hb h

include hT in
/-- what safety gives for a token outside a start tag -/
theorem topStep_post {st : SStk} {c c' : Ctx} (hinv : CInv txt st c) (t : Token)
    (hp : protoStep false t = some false) (htok : TokOk txt t) (h : topStep T txt t c = .ok c') :
    BInv c' ∧ AInv txt c' := by
  obtain ⟨hb, ha, _, _⟩ := (topStep_safe T hT txt false false t c hp htok hinv.binv hinv.ainv
    (by intro h; simp at h) (Nat.zero_le _)).post c' h
  exact ⟨hb, ha⟩

/-- the facts about one item that the induction carries along -/
structure StepOut (c c' : Ctx) : Prop where
  lim : c'.nodesLimit = c.nodesLimit
  attrs : c'.doc.attrs = c.doc.attrs
  ns : c'.doc.ns = c.doc.ns
  keep : SKeep c.doc.nodes c'.doc.nodes

include hT in
/-- comments and PIs: `reset_after_text`, then one node -/
theorem cb_leaf {st : SStk} {c : Ctx} (hinv : CInv txt st c) (t : Token) (k : Kind) (r : Range)
    (hstep : topStep T txt t c = (do
      let c ← (c.log (.token t)).resetAfterText
      let (c, _) ← c.appendNode k r
      pure c))
    (hp : protoStep false t = some false) (htok : TokOk txt t)
    (hroom : c.doc.nodes.size < c.nodesLimit) :
    ∃ c', topStep T txt t c = .ok c' ∧ CInv txt st c' ∧ c'.afterText = [] ∧
      c'.doc.nodes.size = c.doc.nodes.size + 1 ∧ StepOut c c' := by
  obtain ⟨c1, h1, hinv1, hat1, hsz1, s1, k1⟩ := cb_reset hinv (.token t)
  have hl1 := (gsh_facts s1).1
  obtain ⟨c2, h2⟩ := Rox.Lemmas.RtB.appendNode_ok c1 k r hinv1.binv hinv1.ainv.lim (by omega)
  have hok : topStep T txt t c = .ok c2 := by
    rw [hstep, h1]
    simp only [Res.bind_ok, h2, Res.pure_eq]
  obtain ⟨hb2, ha2⟩ := topStep_post T hT txt hinv t hp htok hok
  have s2 := gb_appendNode_sh h2
  obtain ⟨f2, _, _⟩ := appendNode_sfr (txt := []) hinv1.binv h2
  obtain ⟨n2, a2⟩ := appendNode_na _ _ _ _ _ h2
  have s := s1.trans s2
  have hk := k1.trans f2.keep
  exact ⟨c2, hok, cinv_frame hinv s hk hb2 ha2, a2.trans hat1, by omega,
    ⟨(gsh_facts s).1, (gsh_facts s).2.1, (gsh_facts s).2.2.1, hk⟩⟩

theorem appendText_ok' (c : Ctx) (s : Str) (r : Range) (hb : BInv c) (hl : c.nodesLimit ≤ 4294967295)
    (hroom : c.afterText = [] → c.doc.nodes.size < c.nodesLimit) :
    ∃ c', c.appendText s r = .ok c' := by
  unfold Ctx.appendText
  by_cases he : c.afterText = []
  · have hb' : BInv (c.log (.textFragment s r)) := hb.congr rfl rfl rfl
    obtain ⟨c1, h1⟩ := Rox.Lemmas.RtB.appendNode_ok (c.log (.textFragment s r)) (.text s) r hb' hl
      (hroom he)
    have : (c.log (.textFragment s r)).afterText.isEmpty = true := by
      show c.afterText.isEmpty = true
      rw [he]; rfl
    simp only [this, if_true, h1, Res.bind_ok, Res.pure_eq]
    exact ⟨_, rfl⟩
  · have : (c.log (.textFragment s r)).afterText.isEmpty = false := by
      show c.afterText.isEmpty = false
      cases h : c.afterText with
      | nil => exact absurd h he
      | cons _ _ => rfl
    simp only [this, Bool.false_eq_true, if_false, Res.bind_ok, Res.pure_eq]
    exact ⟨_, rfl⟩

/-- `append_text`: what changes -/
theorem appendText_facts {c c' : Ctx} {s : Str} {r : Range} (h : c.appendText s r = .ok c') :
    c'.afterText ≠ [] ∧
      c'.doc.nodes.size = c.doc.nodes.size + (if c.afterText.isEmpty then 1 else 0) := by
  unfold Ctx.appendText at h
  dsimp only at h
  split at h
  · rename_i hemp
    rw [Res.bind_eq_ok] at h
    obtain ⟨⟨c2, id⟩, h2, h1⟩ := h
    res_norm at h1
    subst h1
    obtain ⟨a1, a2⟩ := appendNode_na _ _ _ _ _ h2
    simp only [Ctx.log] at a1 a2 hemp
    simp [a1, hemp]
  · rename_i hemp
    res_norm at h
    subst h
    simp only [Ctx.log] at hemp
    simp [Ctx.log, hemp]

/-- a step that is one `append_text` -/
theorem cb_appendText {st : SStk} {c c' : Ctx} (hinv : CInv txt st c) (e : Ev) (s : Str) (r : Range)
    (h : (c.log e).appendText s r = .ok c') (ha' : AInv txt c') :
    CInv txt st c' ∧ c'.afterText ≠ [] ∧
      c'.doc.nodes.size = c.doc.nodes.size + (if c.afterText.isEmpty then 1 else 0) ∧
      StepOut c c' := by
  have hb0 : BInv (c.log e) := hinv.binv.congr rfl rfl rfl
  have hb' := binv_appendText hb0 h
  have s0 := gb_log_sh c e
  have s1 := gb_appendText_sh h
  have f1 := (appendText_sfr (txt := []) hb0 h).1
  have hk : SKeep c.doc.nodes c'.doc.nodes := f1.keep
  have s := s0.trans s1
  obtain ⟨x1, x2⟩ := appendText_facts h
  exact ⟨cinv_frame hinv s hk hb' ha', x1, x2, ⟨(gsh_facts s).1, (gsh_facts s).2.1, (gsh_facts s).2.2.1, hk⟩⟩

include hT hX in
/-- character data -/
theorem cb_text {st : SStk} {c : Ctx} (hinv : CInv txt st c) (sp : Span) (r : Range)
    (htok : TokOk txt (.text sp r)) (hne : sp.bytes ≠ []) (hlt : bLt ∉ sp.bytes)
    (hrt : RefText T sp.bytes)
    (hroom : c.afterText = [] → c.doc.nodes.size < c.nodesLimit) :
    ∃ c', topStep T txt (.text sp r) c = .ok c' ∧ CInv txt st c' ∧ c'.afterText ≠ [] ∧
      c'.doc.nodes.size = c.doc.nodes.size + (if c.afterText.isEmpty then 1 else 0) ∧
      StepOut c c' := by
  obtain ⟨hu, _, hr, _⟩ := htok
  have hb0 : BInv (c.log (.token (.text sp r))) := hinv.binv.congr rfl rfl rfl
  have ha0 := ainv_log hinv.ainv (.token (.text sp r))
  obtain ⟨c', h⟩ := processText_ok T hT hX txt (token T txt 11) (lower_safe T hT txt)
    (c.log (.token (.text sp r))) sp r hu hr hb0 ha0 hinv.ginv.ents hinv.ld0 hrt hroom
  have hok : topStep T txt (.text sp r) c = .ok c' := h
  obtain ⟨_, ha'⟩ := topStep_post T hT txt hinv (.text sp r) rfl ⟨hu, ‹_›, hr, ‹_›⟩ hok
  obtain ⟨s, _, hs⟩ := processText_mirror T txt (token T txt 11) (c.log (.token (.text sp r))) c' sp r
    hinv.ginv.ents hinv.ld0 hr hu.1.1 hne hlt h
  obtain ⟨x1, x2, x3, x4⟩ := cb_appendText txt hinv _ s r hs ha'
  exact ⟨c', hok, x1, x2, x3, x4⟩

include hT in
/-- CDATA sections -/
theorem cb_cdata {st : SStk} {c : Ctx} (hinv : CInv txt st c) (sp : Span) (r : Range)
    (htok : TokOk txt (.cdata sp r))
    (hroom : c.afterText = [] → c.doc.nodes.size < c.nodesLimit) :
    ∃ c', topStep T txt (.cdata sp r) c = .ok c' ∧ CInv txt st c' ∧ c'.afterText ≠ [] ∧
      c'.doc.nodes.size = c.doc.nodes.size + (if c.afterText.isEmpty then 1 else 0) ∧
      StepOut c c' := by
  have hb0 : BInv (c.log (.token (.cdata sp r))) := hinv.binv.congr rfl rfl rfl
  have hst : topStep T txt (.cdata sp r) c = processCdata (c.log (.token (.cdata sp r))) sp r := rfl
  obtain ⟨s, hs⟩ : ∃ s, processCdata (c.log (.token (.cdata sp r))) sp r =
      (c.log (.token (.cdata sp r))).appendText s r := by
    unfold processCdata
    split
    · exact ⟨_, rfl⟩
    · exact ⟨_, rfl⟩
  obtain ⟨c', h⟩ := appendText_ok' (c.log (.token (.cdata sp r))) s r hb0 hinv.ainv.lim hroom
  have hok : topStep T txt (.cdata sp r) c = .ok c' := by rw [hst, hs, h]
  obtain ⟨_, ha'⟩ := topStep_post T hT txt hinv (.cdata sp r) rfl htok hok
  obtain ⟨x1, x2, x3, x4⟩ := cb_appendText txt hinv _ s r h ha'
  exact ⟨c', hok, x1, x2, x3, x4⟩

/-- `process_element` on the end tag that names the innermost open element -/
theorem cb_close {c1 : Ctx} (p l : Span) (r : Range) (sc : Scope) (rest : SStk)
    (hinv1 : CInv txt (((p.bytes, l.bytes), sc) :: rest) c1) :
    ∃ c' q, processElement txt c1 (.close p l) r = .ok c' ∧ c'.parentId = q ∧
      NChain c1.doc (rest.map (·.2)) q ∧
      SKeep c1.doc.nodes c'.doc.nodes ∧ c'.doc.ns = c1.doc.ns ∧ c'.doc.attrs = c1.doc.attrs ∧
      c'.tagName = c1.tagName ∧ c'.afterText = c1.afterText ∧ c'.nodesLimit = c1.nodesLimit ∧
      c'.doc.nodes.size = c1.doc.nodes.size ∧ c'.ld = c1.ld := by
  have hg1 := hinv1.ginv
  have htag : c1.tagName.name ≠ [] := hinv1.tag (by simp)
  have hch := hinv1.nchain
  simp only [List.map_cons] at hch
  obtain ⟨nd, ns, tn, as, nss, q, hn, hkd, hsr, hpar, hrest⟩ := hch
  have hgc := hg1.chain
  simp only [List.map_cons] at hgc
  obtain ⟨nd', ns', tn', as', nss', q', hn', hkd', htn, _, _⟩ := hgc
  rw [hn] at hn'
  simp only [Option.some.injEq] at hn'
  subst hn'
  rw [hkd] at hkd'
  simp only [Kind.element.injEq] at hkd'
  obtain ⟨_, e2, _, _⟩ := hkd'
  subst e2
  have hpre := Rox.Props.C08.Reject.closePrelude_clean txt c1 nd hn hg1.cur hg1.nsi hg1.xd
  have hunf := Rox.Props.C08.Reject.processElement_close_unfold txt c1 c1 p l r htag hpre
  have hpp : c1.parentPrefixes = p.bytes :: ((rest.map (·.1)).map Prod.fst ++ [[]]) := by
    have := hg1.pp
    simp only [List.map_cons, List.cons_append] at this
    exact this
  have hnf : ¬ (c1.parentPrefixes.length ≤ c1.entityFloor) := by
    rw [hpp, hg1.floor]; simp
  rw [hunf, if_neg hnf]
  simp only [Ctx.nodeAt, hn, Res.bind_ok]
  simp only [hpp]
  have hb1 : (p.bytes != p.bytes) = false := by simp
  have hb2 : (l.bytes != tn.bytes) = false := by rw [htn]; simp
  cases hpos : c1.positions
  · simp only [Bool.false_eq_true, if_false, hkd, hpar, hb1, hb2, Bool.or_self, Res.pure_eq]
    refine ⟨_, q, rfl, rfl, hrest, ?_, rfl, rfl, rfl, rfl, rfl, ?_, rfl⟩
    · exact skeep_set _ _ nd _ hn rfl (Or.inl rfl)
    · simp [Ctx.setNode]
  · simp only [if_true, hkd, hpar, hb1, hb2, Bool.or_self, Bool.false_eq_true, if_false, Res.pure_eq]
    refine ⟨_, q, rfl, rfl, hrest, ?_, rfl, rfl, rfl, rfl, rfl, ?_, rfl⟩
    · exact skeep_set _ _ nd _ hn hpar.symm (Or.inl hkd.symm)
    · simp [Ctx.setNode]

include hT in
/-- an end tag that names the innermost open element -/
theorem cb_etag {c : Ctx} (p l : Span) (r : Range) (sc : Scope) (rest : SStk)
    (hinv : CInv txt (((p.bytes, l.bytes), sc) :: rest) c)
    (htok : TokOk txt (.elementEnd (.close p l) r)) :
    ∃ c', topStep T txt (.elementEnd (.close p l) r) c = .ok c' ∧ CInv txt rest c' ∧
      c'.afterText = [] ∧ c'.doc.nodes.size = c.doc.nodes.size ∧ StepOut c c' := by
  obtain ⟨c1, h1, hinv1, hat1, hsz1, s1, k1⟩ := cb_reset hinv (.token (.elementEnd (.close p l) r))
  obtain ⟨c', q, h2, hq, hch, hk2, hns2, hat2, htg2, haf2, hl2, hsz2, hld2⟩ :=
    cb_close txt p l r sc rest hinv1
  have hok : topStep T txt (.elementEnd (.close p l) r) c = .ok c' := by
    show (do
      let c ← (c.log (.token (.elementEnd (.close p l) r))).resetAfterText
      processElement txt c (.close p l) r) = .ok c'
    rw [h1]
    exact h2
  obtain ⟨hb', ha'⟩ := topStep_post T hT txt hinv _ rfl htok hok
  obtain ⟨rest', he, hg', _⟩ := gb_tok_close T txt (token T txt 11) hinv.ginv hb' hok
  simp only [List.map_cons, List.cons.injEq] at he
  have hg'' : GInv (rest.map (·.1)) c' := by rw [← he.2] at hg'; exact hg'
  obtain ⟨f1, f2, f3, f4, f5, _⟩ := gsh_facts s1
  refine ⟨c', hok, ⟨hb', ha', hg'', ?_, ?_, ?_, ?_⟩, haf2.trans hat1, hsz2.trans hsz1,
    ⟨hl2.trans f1, hat2.trans f2, hns2.trans f3, k1.trans hk2⟩⟩
  · rw [hld2]; exact hinv1.ld0
  · rw [hq]; exact nchain_mono hk2 hns2 _ _ hch
  · rw [hns2]; exact hinv1.xml0
  · intro _
    rw [htg2]
    exact hinv1.tag (by simp)

theorem feed_single {step : Token → Ctx → Res Ctx} {t : Token} {c c' : Ctx}
    (h : step t c = .ok c') : feed step [t] c = .ok c' := by
  simp only [feed, h]

theorem isEmpty_false_of_ne {α} {l : List α} (h : l ≠ []) : l.isEmpty = false := by
  cases l with
  | nil => exact absurd rfl h
  | cons _ _ => rfl

include hT hX in
/-- one item -/
theorem cb_item (it : Item) (r : List Item) (ts : List Token) (hit : ItemToks it ts)
    (hlex : it.Lex T) (hsem : it.Sem T) (htok : ∀ t ∈ ts, TokOk txt t)
    (st : SStk) (c : Ctx) (hinv : CInv txt st c) (hok : itemOk st it = true)
    (hN : c.doc.nodes.size + nodeCost (!c.afterText.isEmpty) (it :: r) ≤ c.nodesLimit)
    (hA : c.doc.attrs.size + attrCost (it :: r) < 4294967295)
    (hV : c.doc.ns.values.size + declCost (it :: r) ≤ 65535) :
    ∃ c', feed (topStep T txt) ts c = .ok c' ∧ CInv txt (itemSt st it) c' ∧
      c'.doc.nodes.size + nodeCost (!c'.afterText.isEmpty) r ≤ c'.nodesLimit ∧
      c'.doc.attrs.size + attrCost r < 4294967295 ∧
      c'.doc.ns.values.size + declCost r ≤ 65535 ∧
      (HasRootEl c.doc → HasRootEl c'.doc) ∧ (st = [] → it.isStag = true → HasRootEl c'.doc) := by
  cases hit with
  | sp s =>
    simp only [nodeCost, attrCost, declCost] at hN hA hV
    exact ⟨c, rfl, hinv, hN, hA, hV, id, fun _ h => by simp [Item.isStag] at h⟩
  | comment b sp rg hb =>
    simp only [nodeCost, attrCost, declCost] at hN hA hV
    obtain ⟨c', h, hinv', hat, hsz, ho⟩ := cb_leaf T hT txt hinv (.comment sp rg)
      (.comment (.borrowed sp)) rg rfl rfl (htok _ (by simp)) (by omega)
    refine ⟨c', feed_single h, hinv', ?_, ?_, ?_, hasRootEl_mono ho.keep,
      fun _ h => by simp [Item.isStag] at h⟩
    · rw [hat, ho.lim]; simp only [List.isEmpty_nil, Bool.not_true]; omega
    · rw [ho.attrs]; exact hA
    · rw [ho.ns]; exact hV
  | pi t s v tsp vo rg ht =>
    simp only [nodeCost, attrCost, declCost] at hN hA hV
    obtain ⟨c', h, hinv', hat, hsz, ho⟩ := cb_leaf T hT txt hinv (.pi tsp vo rg)
      (.pi tsp vo) rg rfl rfl (htok _ (by simp)) (by omega)
    refine ⟨c', feed_single h, hinv', ?_, ?_, ?_, hasRootEl_mono ho.keep,
      fun _ h => by simp [Item.isStag] at h⟩
    · rw [hat, ho.lim]; simp only [List.isEmpty_nil, Bool.not_true]; omega
    · rw [ho.attrs]; exact hA
    · rw [ho.ns]; exact hV
  | cdata b sp rg hb =>
    simp only [nodeCost, attrCost, declCost] at hN hA hV
    obtain ⟨c', h, hinv', hat, hsz, ho⟩ := cb_cdata T hT txt hinv sp rg (htok _ (by simp))
      (by intro he; rw [he] at hN; simp at hN; omega)
    refine ⟨c', feed_single h, hinv', ?_, ?_, ?_, hasRootEl_mono ho.keep,
      fun _ h => by simp [Item.isStag] at h⟩
    · rw [isEmpty_false_of_ne hat, ho.lim, hsz]
      cases hc : c.afterText.isEmpty <;> rw [hc] at hN <;> simp at hN ⊢ <;> omega
    · rw [ho.attrs]; exact hA
    · rw [ho.ns]; exact hV
  | text t sp rg hb =>
    simp only [nodeCost, attrCost, declCost] at hN hA hV
    obtain ⟨hne, _, hlt, _⟩ := hlex
    subst hb
    obtain ⟨c', h, hinv', hat, hsz, ho⟩ := cb_text T hT hX txt hinv sp rg (htok _ (by simp)) hne hlt
      hsem (by intro he; rw [he] at hN; simp at hN; omega)
    refine ⟨c', feed_single h, hinv', ?_, ?_, ?_, hasRootEl_mono ho.keep,
      fun _ h => by simp [Item.isStag] at h⟩
    · rw [isEmpty_false_of_ne hat, ho.lim, hsz]
      cases hc : c.afterText.isEmpty <;> rw [hc] at hN <;> simp at hN ⊢ <;> omega
    · rw [ho.attrs]; exact hA
    · rw [ho.ns]; exact hV
  | stag q attrs s1 e p l so ats rg hq hats =>
    simp only [nodeCost, attrCost, declCost] at hN hA hV
    obtain ⟨c', h, hinv', hl, hsz, hasz, hvsz, hat, hr1, hr2⟩ := cb_stag T hT hX txt st c hinv q attrs s1 e _
      (ItemToks.stag q attrs s1 e p l so ats rg hq hats) hlex hsem htok hok (by omega) (by omega)
      (by omega)
    refine ⟨c', h, hinv', ?_, by omega, by omega, hr2, fun h _ => hr1 h⟩
    rw [hat, hl]; simp only [List.isEmpty_nil, Bool.not_true]; omega
  | etag q s2 p l rg hq =>
    simp only [nodeCost, attrCost, declCost] at hN hA hV
    cases st with
    | nil => simp [itemOk] at hok
    | cons hd rest =>
      obtain ⟨top, sc⟩ := hd
      simp only [itemOk, beq_iff_eq] at hok
      rw [hq] at hok
      subst hok
      obtain ⟨c', h, hinv', hat, hsz, ho⟩ := cb_etag T hT txt p l rg sc rest hinv (htok _ (by simp))
      refine ⟨c', feed_single h, hinv', ?_, ?_, ?_, hasRootEl_mono ho.keep,
        fun h _ => by simp at h⟩
      · rw [hat, ho.lim, hsz]; simp only [List.isEmpty_nil, Bool.not_true]; exact hN
      · rw [ho.attrs]; exact hA
      · rw [ho.ns]; exact hV

/-- the context `parse` starts with -/
theorem cinv_init (opt : Opt) (hL : opt.nodesLimit ≤ 4294967295) (c0 : Ctx)
    (h0 : initCtx txt opt = .ok c0) :
    CInv txt [] c0 ∧ c0.doc.ns.values.size = 1 ∧ c0.doc.attrs.size = 0 ∧ c0.doc.nodes.size = 1 ∧
      c0.afterText = [] ∧ c0.nodesLimit = opt.nodesLimit := by
  have hb0 := binv_init txt opt c0 h0
  have hg0 := (gb_init txt opt c0 h0).1
  obtain ⟨hnsinv, htree, hxml⟩ := init_ns txt opt c0 h0
  have hx : ∃ v, c0.doc.ns.values[0]? = some v ∧ v.uri.bytes = nsXmlUri := by
    cases hv : c0.doc.ns.values[0]? with
    | none => rw [hv] at hxml; simp at hxml
    | some v =>
      rw [hv] at hxml
      simp only [Option.map_some, Option.some.injEq, Prod.mk.injEq] at hxml
      exact ⟨v, rfl, hxml.2⟩
  unfold initCtx at h0
  rw [Res.bind_eq_ok] at h0
  obtain ⟨ns, hns, h0⟩ := h0
  res_norm at h0
  subst h0
  have : ns =
      { values := #[⟨some ⟨0, Lit.xml⟩, .borrowed ⟨0, nsXmlUri⟩⟩], treeOrder := #[0], sortedOrder := #[0] } := by
    simp [Namespaces.pushNs, Namespaces.search, Namespaces.searchGo, bind, Res.bind,
      Array.insertIdxIfInBounds] at hns
    exact hns.symm
  subst this
  refine ⟨⟨hb0, ⟨hL, ⟨hnsinv, by simp, by simp, ?_, ?_⟩, by intro h; simp at h,
    by intro e he; simp at he, by simp⟩, hg0, rfl, ⟨_, rfl, rfl⟩, hx, by intro h; simp at h⟩,
    rfl, rfl, rfl, rfl, rfl⟩
  · intro i n tn name attrs nss hi hk
    simp only at hi
    cases i with
    | zero =>
      simp only [List.getElem?_toArray, List.getElem?_cons_zero, Option.some.injEq] at hi
      subst hi
      simp [rootNode] at hk
    | succ i => simp at hi
  · intro k a hk
    simp at hk

end

end Rox.Lemmas.CB.Build

namespace Rox.Lemmas.CB
open Rox Rox.Spec Rox.Spec.Grammar Rox.Spec.Mirror Rox.Spec.MirrorNs Rox.Spec.Complete Rox.Props.C06
  Rox.Lemmas.GB Rox.Lemmas.CB.Build

section
variable (T : Tables) (hT : TablesOK T) (hX : TablesComplete T) (txt : Bytes)

include hT hX in
/-- all items -/
theorem cb_items : ∀ (its : List Item) (toks : List Token), ItemsToks its toks →
    (∀ it ∈ its, it.Lex T) → (∀ it ∈ its, it.Sem T) → (∀ t ∈ toks, TokOk txt t) →
    ∀ (st : SStk) (c : Ctx), CInv txt st c → runOk st its = true →
      c.doc.nodes.size + nodeCost (!c.afterText.isEmpty) its ≤ c.nodesLimit →
      c.doc.attrs.size + attrCost its < 4294967295 →
      c.doc.ns.values.size + declCost its ≤ 65535 →
      ∃ c', feed (tokenStep T txt (token T txt 11)) toks c = .ok c' ∧ CInv txt (runSt st its) c' ∧
        ((HasRootEl c.doc ∨ (st = [] ∧ ∃ it ∈ its, it.isStag = true)) → HasRootEl c'.doc) := by
  intro its toks hit
  induction hit with
  | nil =>
    intro _ _ _ st c hinv _ _ _ _
    refine ⟨c, rfl, hinv, ?_⟩
    rintro (h | ⟨_, it, hi, _⟩)
    · exact h
    · simp at hi
  | cons it r ts tss h1 _ ih =>
    intro hlex hsem htok st c hinv hok hN hA hV
    simp only [runOk, Bool.and_eq_true] at hok
    obtain ⟨c1, hf1, hinv1, hN1, hA1, hV1, hr1, hr2⟩ := Build.cb_item T hT hX txt it r ts h1
      (hlex it (by simp)) (hsem it (by simp)) (fun t ht => htok t (by simp [ht])) st c hinv hok.1
      hN hA hV
    obtain ⟨c', hf2, hinv', hr'⟩ := ih (fun x hx => hlex x (by simp [hx]))
      (fun x hx => hsem x (by simp [hx])) (fun t ht => htok t (by simp [ht])) (itemSt st it) c1
      hinv1 hok.2 hN1 hA1 hV1
    refine ⟨c', Rox.Lemmas.RtB.feed_append_ok _ _ _ _ _ hf1 hf2, hinv', ?_⟩
    rintro (h | ⟨hst, x, hx, hxs⟩)
    · exact hr' (Or.inl (hr1 h))
    · cases hs : it.isStag with
      | true => exact hr' (Or.inl (hr2 hst hs))
      | false =>
        have hxr : x ∈ r := by
          rcases List.mem_cons.mp hx with e | e
          · subst e; rw [hs] at hxs; simp at hxs
          · exact e
        have hst' : itemSt st it = [] := by
          subst hst
          cases it <;> simp [itemSt, Item.isStag] at hs ⊢
        exact hr' (Or.inr ⟨hst', x, hxr, hxs⟩)

include hT hX in
/-- **Stage B⁻¹**: if the tokenizer succeeded with the tokens of `its`, and `its` passes the
item-level checks within the limits, `parse` accepts. -/
theorem parseCtx_complete (hv : ValidUtf8 txt) (opt : Opt) (toks : List Token)
    (htok : tokenize T txt opt.allowDtd = (toks, .ok ())) (its : List Item)
    (hit : ItemsToks its toks) (hlex : ∀ it ∈ its, it.Lex T) (hsem : ∀ it ∈ its, it.Sem T)
    (hok : runOk [] its = true) (hend : runSt [] its = [])
    (hstag : ∃ it ∈ its, it.isStag = true)
    (hN : nodeCost false its + 1 ≤ opt.nodesLimit) (hL : opt.nodesLimit ≤ 4294967295)
    (hA : attrCost its < 4294967295) (hV : declCost its < 65535) :
    ∃ c, parseCtx T txt depthFuel opt = .ok c := by
  obtain ⟨c0, h0, _⟩ := Rox.Lemmas.RtB.initCtx_ok txt opt
  obtain ⟨hinv0, hv0, ha0, hn0, hat0, hl0⟩ := Build.cinv_init txt opt hL c0 h0
  have htoks : ∀ t ∈ toks, TokOk txt t := by
    have h := (parseDocument_spec T hT txt hv opt.allowDtd).toks
    change ∀ t ∈ (tokenize T txt opt.allowDtd).1, TokOk txt t at h
    rw [htok] at h
    exact h
  obtain ⟨c1, hf, hinv1, hroot⟩ := cb_items T hT hX txt its toks hit hlex hsem htoks [] c0 hinv0 hok
    (by rw [hat0, hn0, hl0]; simp only [List.isEmpty_nil, Bool.not_true]; omega)
    (by rw [ha0]; omega) (by rw [hv0]; omega)
  rw [hend] at hinv1
  obtain ⟨j, nj, hj, hp, hk⟩ := hroot (Or.inr ⟨rfl, hstag⟩)
  have hhas : rootHasElement c1.doc = .ok true :=
    Rox.Lemmas.RtB4.rootHasElement_any c1.doc hinv1.binv.wf j nj hj hp hk
  have hrun : runTokens (token T txt depthFuel) toks (.ok ()) c0 = .ok c1 := by
    unfold runTokens
    have : token T txt depthFuel = tokenStep T txt (token T txt 11) := rfl
    rw [this, hf]
  have hlen : c1.parentPrefixes.length = 1 := by
    rw [hinv1.ginv.pp]; rfl
  refine ⟨{ c1 with doc := { c1.doc with ns := { c1.doc.ns with sortedOrder := #[] } } }, ?_⟩
  unfold parseCtx
  rw [h0]
  simp only [Res.bind_ok]
  rw [htok]
  simp only
  rw [hrun]
  simp only [Res.bind_ok]
  unfold finish
  rw [hhas]
  simp [hlen]

end

end Rox.Lemmas.CB
