/-
  Rox.Lemmas.GrammarAsm — Stage C of the grammar-soundness proof: from the flat list of items
  (lexically checked, references and attribute uniqueness checked, tags balanced with matching
  names) to the abstract document, its derivation `RDoc` and its well-formedness `GDocWf`.
  Pure list combinatorics; no tokenizer, no builder.
-/
import Rox.Lemmas.GrammarDefs

namespace Rox.Lemmas
open Rox Rox.Spec.Grammar

/-! ### Unfolding the mutual definitions -/

theorem asm_gwfall_cons (T : Tables) (k : GNode) (ks : List GNode) :
    GWfAll T (k :: ks) ↔ GWf T k ∧ GWfAll T ks := by
  simp only [GWfAll]

theorem asm_gwfall_nil (T : Tables) : GWfAll T [] := by
  simp only [GWfAll]

theorem asm_gwf_elem (T : Tables) (q : Bytes) (attrs : List (Bytes × Bytes)) (kids : List GNode) :
    GWf T (.elem q attrs kids) ↔ (QName T q ∧ (∀ a ∈ attrs, QName T a.1 ∧ AttValueOk T a.2) ∧
      (attrs.map fun a => qparts a.1).Nodup ∧ noAdjText kids = true ∧ GWfAll T kids) := by
  simp only [GWf]

theorem asm_gwf_text (T : Tables) (t : Bytes) : GWf T (.text t) ↔ TextOk T t := by
  simp only [GWf]

theorem asm_gwf_cdata (T : Tables) (b : Bytes) :
    GWf T (.cdata b) ↔ (Chars T b ∧ containsSub b Lit.cdataEnd = false) := by
  simp only [GWf]

theorem asm_gwf_comment (T : Tables) (b : Bytes) :
    GWf T (.comment b) ↔
      (Chars T b ∧ containsSub b Lit.dashDash = false ∧ b.getLast? ≠ some bDash) := by
  simp only [GWf]

theorem asm_gwf_pi (T : Tables) (t v : Bytes) :
    GWf T (.pi t v) ↔ (Name T t ∧ Chars T v ∧ containsSub v Lit.piEnd = false) := by
  simp only [GWf]

/-! ### `flat` and `runStk` -/

theorem asm_flat_append (a b : List Item) : flat (a ++ b) = flat a ++ flat b := by
  induction a with
  | nil => rfl
  | cons x r ih =>
    show x.bytes ++ flat (r ++ b) = x.bytes ++ flat r ++ flat b
    rw [ih, List.append_assoc]

theorem asm_runStk_append (stk : List QP) (a b : List Item) :
    runStk stk (a ++ b) = (runStk stk a).bind (fun s => runStk s b) := by
  induction a generalizing stk with
  | nil => rfl
  | cons x r ih =>
    show (match stepStk stk x with
          | some stk' => runStk stk' (r ++ b)
          | none => none) =
         (match stepStk stk x with
          | some stk' => runStk stk' r
          | none => none).bind (fun s => runStk s b)
    cases stepStk stk x with
    | none => rfl
    | some s => exact ih s

theorem asm_runStk_cons_same (stk : List QP) (it : Item) (r : List Item)
    (h : stepStk stk it = some stk) : runStk stk (it :: r) = runStk stk r := by
  show (match stepStk stk it with
        | some stk' => runStk stk' r
        | none => none) = runStk stk r
  rw [h]

theorem asm_step_misc (stk : List QP) (it : Item) (h : it.isMiscI = true) :
    stepStk stk it = some stk := by
  cases it <;> first | rfl | (exact Bool.noConfusion h)

theorem asm_step_leaf (stk : List QP) (it : Item) (h : it.isLeafNT = true) :
    stepStk stk it = some stk := by
  cases it <;> first | rfl | (exact Bool.noConfusion h)

theorem asm_run_misc (stk : List QP) (l : List Item) (h : ∀ it ∈ l, it.isMiscI = true) :
    runStk stk l = some stk := by
  induction l with
  | nil => rfl
  | cons x r ih =>
    rw [asm_runStk_cons_same stk x r (asm_step_misc stk x (h x (List.mem_cons_self ..)))]
    exact ih (fun it hit => h it (List.mem_cons_of_mem _ hit))

/-! ### Attributes -/

theorem asm_rattrs (T : Tables) (attrs : List AttrC) (h : ∀ a ∈ attrs, a.Lex T) :
    RAttrs T (attrs.map fun a => (a.n, a.v)) (attrsBytes attrs) := by
  induction attrs with
  | nil => exact RAttrs.nil
  | cons a r ih =>
    have ha := h a (List.mem_cons_self ..)
    obtain ⟨h1, _, h2, h3, hq, hqv, _, _⟩ := ha
    exact RAttrs.cons a.n a.v _ _ a.s1 a.s2 a.s3 a.q h1 h2 h3 hq hqv
      (ih (fun b hb => h b (List.mem_cons_of_mem _ hb)))

theorem asm_gwf_stag (T : Tables) (q : Bytes) (attrs : List AttrC) (s1 : Bytes) (e : Bool)
    (kids : List GNode) (hlex : (Item.stag q attrs s1 e).Lex T)
    (hsem : (Item.stag q attrs s1 e).Sem T) (hn : noAdjText kids = true) (hk : GWfAll T kids) :
    GWf T (.elem q (attrs.map fun a => (a.n, a.v)) kids) := by
  obtain ⟨hq, _, hal⟩ := hlex
  obtain ⟨hr, hnd⟩ := hsem
  rw [asm_gwf_elem]
  refine ⟨hq, ?_, ?_, hn, hk⟩
  · intro a ha
    obtain ⟨c, hc, rfl⟩ := List.mem_map.1 ha
    have := hal c hc
    exact ⟨this.2.1, this.2.2.2.2.2.2.2, hr c hc⟩
  · rw [List.map_map]
    exact hnd

/-! ### Leaves -/

/-- the node of an item that is a node by itself -/
def asmNode : Item → GNode
  | .comment b => .comment b
  | .pi t _ v => .pi t v
  | .cdata b => .cdata b
  | .text t => .text t
  | .sp _ => .text []
  | .stag _ _ _ _ => .text []
  | .etag _ _ => .text []

theorem asm_rnode_pi (T : Tables) (t s v : Bytes) (hl : (Item.pi t s v).Lex T) :
    RNode T (.pi t v) (Item.pi t s v).bytes := by
  obtain ⟨_, hs, hvs, _, _⟩ := hl
  show RNode T (.pi t v) (Lit.piStart ++ t ++ s ++ v ++ Lit.piEnd)
  by_cases hv : v = []
  · subst hv
    rw [List.append_nil]
    exact RNode.piNone t s hs
  · exact RNode.piSome t s v ⟨hvs hv, hs⟩ hv

theorem asm_leaf (T : Tables) (it : Item) (h : it.isLeafNT = true) (hl : it.Lex T) :
    RNode T (asmNode it) it.bytes ∧ GWf T (asmNode it) ∧ isText (asmNode it) = false := by
  cases it with
  | comment b => exact ⟨RNode.comment b, (asm_gwf_comment T b).2 hl, rfl⟩
  | pi t s v =>
    exact ⟨asm_rnode_pi T t s v hl, (asm_gwf_pi T t v).2 ⟨hl.1, hl.2.2.2.1, hl.2.2.2.2⟩, rfl⟩
  | cdata b => exact ⟨RNode.cdata b, (asm_gwf_cdata T b).2 hl, rfl⟩
  | sp s => exact Bool.noConfusion h
  | text t => exact Bool.noConfusion h
  | stag q a s e => exact Bool.noConfusion h
  | etag q s => exact Bool.noConfusion h

theorem asm_misc_item (T : Tables) (it : Item) (h : it.isMiscI = true) (hl : it.Lex T) :
    (∃ s, it = .sp s ∧ Sp T s) ∨
      (RNode T (asmNode it) it.bytes ∧ GWf T (asmNode it) ∧ isMisc (asmNode it) = true) := by
  cases it with
  | sp s => exact Or.inl ⟨s, rfl, hl⟩
  | comment b => exact Or.inr ⟨RNode.comment b, (asm_gwf_comment T b).2 hl, rfl⟩
  | pi t s v =>
    exact Or.inr
      ⟨asm_rnode_pi T t s v hl, (asm_gwf_pi T t v).2 ⟨hl.1, hl.2.2.2.1, hl.2.2.2.2⟩, rfl⟩
  | cdata b => exact Bool.noConfusion h
  | text t => exact Bool.noConfusion h
  | stag q a s e => exact Bool.noConfusion h
  | etag q s => exact Bool.noConfusion h

theorem asm_rmisc (T : Tables) (l : List Item) (h : ∀ it ∈ l, it.isMiscI = true)
    (hl : ∀ it ∈ l, it.Lex T) :
    ∃ ms, RMisc T ms (flat l) ∧ ∀ k ∈ ms, isMisc k = true ∧ GWf T k := by
  induction l with
  | nil => exact ⟨[], RMisc.nil, fun k hk => absurd hk (List.not_mem_nil)⟩
  | cons x r ih =>
    obtain ⟨ms, hm, hw⟩ := ih (fun it hit => h it (List.mem_cons_of_mem _ hit))
      (fun it hit => hl it (List.mem_cons_of_mem _ hit))
    rcases asm_misc_item T x (h x (List.mem_cons_self ..)) (hl x (List.mem_cons_self ..)) with
      ⟨s, rfl, hs⟩ | ⟨hr, hg, hi⟩
    · exact ⟨ms, RMisc.sp s ms _ hs hm, hw⟩
    · refine ⟨asmNode x :: ms, RMisc.item _ _ ms _ hi hr hm, ?_⟩
      intro k hk
      rcases List.mem_cons.1 hk with rfl | hk
      · exact ⟨hi, hg⟩
      · exact hw k hk

/-! ### The children of an element -/

/-- `its` begins with the complete content of the innermost open element, followed by its end
tag -/
def AsmA (T : Tables) (d : Nat) (stk : List QP) (its : List Item) : Prop :=
  ∃ (kitems : List Item) (q' s2 : Bytes) (rest : List Item) (kids : List GNode),
    its = kitems ++ Item.etag q' s2 :: rest ∧ RKids T kids (flat kitems) ∧ GWfAll T kids ∧
    noAdjText kids = true ∧
    (∀ k ks, kids = k :: ks → isText k = true → ∃ t r, kitems = Item.text t :: r) ∧
    runStk stk kitems = some stk ∧ Sp0 T s2 ∧
    ((d = 0 ∧ rest = []) ∨ (∃ d', d = d' + 1 ∧ Content d' rest))

theorem asm_noAdj_cons (k : GNode) (kids : List GNode) (hn : noAdjText kids = true)
    (h : ∀ k' r, kids = k' :: r → isText k = true → isText k' = true → False) :
    noAdjText (k :: kids) = true := by
  cases kids with
  | nil => rfl
  | cons k' r =>
    show (!(isText k && isText k') && noAdjText (k' :: r)) = true
    rw [hn, Bool.and_true]
    cases h1 : isText k with
    | false => rfl
    | true =>
      cases h2 : isText k' with
      | false => rfl
      | true => exact (h k' r rfl h1 h2).elim

theorem asm_prepend (T : Tables) (d : Nat) (stk : List QP) (it : Item) (tail : List Item)
    (k : GNode) (hr : RNode T k it.bytes) (hg : GWf T k) (hstep : stepStk stk it = some stk)
    (htxt : isText k = true → (∃ t, it = .text t) ∧ ∀ t' r, tail ≠ Item.text t' :: r)
    (hA : AsmA T d stk tail) : AsmA T d stk (it :: tail) := by
  obtain ⟨kitems, q', s2, rest, kids, rfl, hk, hw, hn, hh, hrun, hs, hd⟩ := hA
  refine ⟨it :: kitems, q', s2, rest, k :: kids, rfl, RKids.cons k kids _ _ hr hk,
    (asm_gwfall_cons T k kids).2 ⟨hg, hw⟩, ?_, ?_, ?_, hs, hd⟩
  · apply asm_noAdj_cons k kids hn
    intro k' r hkr h1 h2
    obtain ⟨t', r', hkit⟩ := hh k' r hkr h2
    exact (htxt h1).2 t' (r' ++ Item.etag q' s2 :: rest) (by rw [hkit]; rfl)
  · intro k0 ks hk0 h1
    injection hk0 with hk0 _
    subst hk0
    obtain ⟨t, rfl⟩ := (htxt h1).1
    exact ⟨t, kitems, rfl⟩
  · rw [asm_runStk_cons_same stk it kitems hstep]
    exact hrun

theorem asm_elem_bytes (q ab s1 kb q' s2 : Bytes) :
    [bLt] ++ q ++ ab ++ s1 ++ [bGt] ++ kb ++ [bLt, bSlash] ++ q' ++ s2 ++ [bGt] =
      ([bLt] ++ q ++ ab ++ s1 ++ [bGt]) ++ (kb ++ ([bLt, bSlash] ++ q' ++ s2 ++ [bGt])) := by
  simp only [List.append_assoc]

theorem asm_main (T : Tables) : ∀ (n : Nat) (its : List Item) (d : Nat) (stk fin : List QP),
    its.length < n → Content d its → stk.length = d + 1 → runStk stk its = some fin →
    (∀ it ∈ its, it.Lex T) → (∀ it ∈ its, it.Sem T) →
    AsmA T d stk its ∨ stk.length ≤ fin.length := by
  intro n
  induction n with
  | zero => intro its d stk fin h; exact absurd h (Nat.not_lt_zero _)
  | succ n ih =>
    intro its d stk fin hlen hc hstk hrun hlex hsem
    cases hc with
    | eof =>
      right
      have : some stk = some fin := hrun
      injection this with this
      rw [this]; exact Nat.le_refl _
    | leaf _ it tail hleaf hc' =>
      have hstep := asm_step_leaf stk it hleaf
      rw [asm_runStk_cons_same stk it tail hstep] at hrun
      have hl : tail.length < n := Nat.lt_of_succ_lt_succ hlen
      rcases ih tail d stk fin hl hc' hstk hrun
        (fun x hx => hlex x (List.mem_cons_of_mem _ hx))
        (fun x hx => hsem x (List.mem_cons_of_mem _ hx)) with hA | hB
      · left
        obtain ⟨h1, h2, h3⟩ := asm_leaf T it hleaf (hlex it (List.mem_cons_self ..))
        exact asm_prepend T d stk it tail (asmNode it) h1 h2 hstep
          (fun h => by rw [h3] at h; exact absurd h (by decide)) hA
      · exact Or.inr hB
    | text _ t tail hnt hc' =>
      have hstep : stepStk stk (Item.text t) = some stk := rfl
      rw [asm_runStk_cons_same stk _ tail hstep] at hrun
      have hl : tail.length < n := Nat.lt_of_succ_lt_succ hlen
      rcases ih tail d stk fin hl hc' hstk hrun
        (fun x hx => hlex x (List.mem_cons_of_mem _ hx))
        (fun x hx => hsem x (List.mem_cons_of_mem _ hx)) with hA | hB
      · left
        have hL : (Item.text t).Lex T := hlex _ (List.mem_cons_self ..)
        have hS : RefText T t := hsem _ (List.mem_cons_self ..)
        have hg : GWf T (.text t) := (asm_gwf_text T t).2 ⟨hL.1, hL.2.1, hS, hL.2.2.2⟩
        exact asm_prepend T d stk (Item.text t) tail (.text t) (RNode.text t) hg hstep
          (fun _ => ⟨⟨t, rfl⟩, hnt⟩) hA
      · exact Or.inr hB
    | empty _ q attrs s1 tail hc' =>
      have hstep : stepStk stk (Item.stag q attrs s1 true) = some stk := rfl
      rw [asm_runStk_cons_same stk _ tail hstep] at hrun
      have hl : tail.length < n := Nat.lt_of_succ_lt_succ hlen
      rcases ih tail d stk fin hl hc' hstk hrun
        (fun x hx => hlex x (List.mem_cons_of_mem _ hx))
        (fun x hx => hsem x (List.mem_cons_of_mem _ hx)) with hA | hB
      · left
        have hL : (Item.stag q attrs s1 true).Lex T := hlex _ (List.mem_cons_self ..)
        have hS : (Item.stag q attrs s1 true).Sem T := hsem _ (List.mem_cons_self ..)
        have hg := asm_gwf_stag T q attrs s1 true [] hL hS rfl (asm_gwfall_nil T)
        have hr : RNode T (.elem q (attrs.map fun a => (a.n, a.v)) [])
            (Item.stag q attrs s1 true).bytes :=
          RNode.empty q _ (attrsBytes attrs) s1 (asm_rattrs T attrs hL.2.2) hL.2.1
        exact asm_prepend T d stk _ tail _ hr hg hstep
          (fun h => Bool.noConfusion h) hA
      · exact Or.inr hB
    | «open» _ q attrs s1 tail hc' =>
      have hrun1 : runStk (qparts q :: stk) tail = some fin := hrun
      have hl : tail.length < n := Nat.lt_of_succ_lt_succ hlen
      have hL : (Item.stag q attrs s1 false).Lex T := hlex _ (List.mem_cons_self ..)
      have hS : (Item.stag q attrs s1 false).Sem T := hsem _ (List.mem_cons_self ..)
      have hlexT : ∀ x ∈ tail, x.Lex T := fun x hx => hlex x (List.mem_cons_of_mem _ hx)
      have hsemT : ∀ x ∈ tail, x.Sem T := fun x hx => hsem x (List.mem_cons_of_mem _ hx)
      rcases ih tail (d + 1) (qparts q :: stk) fin hl hc' (by simp [hstk]) hrun1 hlexT hsemT
        with hA | hB
      · obtain ⟨kit1, q', s2, rest1, kids1, htail, hk1, hw1, hn1, _, hr1, hs2, hd1⟩ := hA
        have hc1 : Content d rest1 := by
          rcases hd1 with ⟨h0, _⟩ | ⟨d', hd', hc1⟩
          · exact absurd h0 (Nat.succ_ne_zero _)
          · have : d = d' := Nat.succ.inj hd'
            rw [this]; exact hc1
        subst htail
        rw [asm_runStk_append, hr1] at hrun1
        have hrun2 : (match stepStk (qparts q :: stk) (Item.etag q' s2) with
              | some stk' => runStk stk' rest1
              | none => none) = some fin := hrun1
        have hstepE : stepStk (qparts q :: stk) (Item.etag q' s2) =
            if qparts q = qparts q' then some stk else none := rfl
        by_cases hqq : qparts q = qparts q'
        · rw [hstepE, if_pos hqq] at hrun2
          have hrun3 : runStk stk rest1 = some fin := hrun2
          have hl1 : rest1.length < n := by
            have : rest1.length < (kit1 ++ Item.etag q' s2 :: rest1).length := by
              simp only [List.length_append, List.length_cons]; omega
            omega
          have hlexR : ∀ x ∈ rest1, x.Lex T := fun x hx =>
            hlexT x (List.mem_append_right _ (List.mem_cons_of_mem _ hx))
          have hsemR : ∀ x ∈ rest1, x.Sem T := fun x hx =>
            hsemT x (List.mem_append_right _ (List.mem_cons_of_mem _ hx))
          rcases ih rest1 d stk fin hl1 hc1 hstk hrun3 hlexR hsemR with hA2 | hB2
          · left
            obtain ⟨kit2, q2, s22, rest2, kids2, rfl, hk2, hw2, hn2, hh2, hr2, hs22, hd2⟩ := hA2
            have hg : GWf T (.elem q (attrs.map fun a => (a.n, a.v)) kids1) :=
              asm_gwf_stag T q attrs s1 false kids1 hL hS hn1 hw1
            have hrn : RNode T (.elem q (attrs.map fun a => (a.n, a.v)) kids1)
                ((Item.stag q attrs s1 false).bytes ++
                  (flat kit1 ++ (Item.etag q' s2).bytes)) := by
              have := RNode.elem q q' _ kids1 (attrsBytes attrs) s1 (flat kit1) s2
                (asm_rattrs T attrs hL.2.2) hL.2.1 hk1 hs2 hqq.symm
              rw [asm_elem_bytes] at this
              exact this
            refine ⟨Item.stag q attrs s1 false :: (kit1 ++ Item.etag q' s2 :: kit2), q2, s22,
              rest2, .elem q (attrs.map fun a => (a.n, a.v)) kids1 :: kids2, ?_, ?_,
              (asm_gwfall_cons T _ _).2 ⟨hg, hw2⟩, ?_, ?_, ?_, hs22, hd2⟩
            · simp only [List.cons_append, List.append_assoc]
            · have hfl : flat (Item.stag q attrs s1 false :: (kit1 ++ Item.etag q' s2 :: kit2)) =
                  ((Item.stag q attrs s1 false).bytes ++
                    (flat kit1 ++ (Item.etag q' s2).bytes)) ++ flat kit2 := by
                show (Item.stag q attrs s1 false).bytes ++ flat (kit1 ++ Item.etag q' s2 :: kit2) = _
                rw [asm_flat_append]
                show _ ++ (flat kit1 ++ ((Item.etag q' s2).bytes ++ flat kit2)) = _
                simp only [List.append_assoc]
              rw [hfl]
              exact RKids.cons _ _ _ _ hrn hk2
            · apply asm_noAdj_cons _ kids2 hn2
              intro k' r _ h1 _
              exact Bool.noConfusion h1
            · intro k0 ks hk0 h1
              injection hk0 with hk0 _
              subst hk0
              exact Bool.noConfusion h1
            · show runStk (qparts q :: stk) (kit1 ++ Item.etag q' s2 :: kit2) = some stk
              rw [asm_runStk_append, hr1]
              show (match stepStk (qparts q :: stk) (Item.etag q' s2) with
                    | some stk' => runStk stk' kit2
                    | none => none) = some stk
              rw [hstepE, if_pos hqq]
              exact hr2
          · exact Or.inr hB2
        · rw [hstepE, if_neg hqq] at hrun2
          exact absurd hrun2 (by simp)
      · right
        have : (qparts q :: stk).length = stk.length + 1 := rfl
        omega
    | close d' q s2 tail hc' =>
      left
      have hL : (Item.etag q s2).Lex T := hlex _ (List.mem_cons_self ..)
      exact ⟨[], q, s2, tail, [], rfl, RKids.nil, asm_gwfall_nil T, rfl,
        (fun k ks h => by cases h), rfl, hL.2, Or.inr ⟨d', rfl, hc'⟩⟩
    | last q s2 =>
      left
      have hL : (Item.etag q s2).Lex T := hlex _ (List.mem_cons_self ..)
      exact ⟨[], q, s2, [], [], rfl, RKids.nil, asm_gwfall_nil T, rfl,
        (fun k ks h => by cases h), rfl, hL.2, Or.inl ⟨rfl, rfl⟩⟩

/-! ### The document -/

theorem asm_misc_not_stag (it : Item) (h : it.isMiscI = true) : it.isStag = false := by
  cases it <;> first | rfl | (exact Bool.noConfusion h)

theorem asm_root (T : Tables) (pre root post : List Item)
    (hpre : ∀ it ∈ pre, it.isMiscI = true) (hpost : ∀ it ∈ post, it.isMiscI = true)
    (hroot : RootShape root)
    (hlex : ∀ it ∈ root, it.Lex T) (hsem : ∀ it ∈ root, it.Sem T)
    (hrun : runStk [] (pre ++ root ++ post) = some [])
    (hstag : ∃ it ∈ pre ++ root ++ post, it.isStag = true) :
    ∃ r, isElem r = true ∧ GWf T r ∧ RNode T r (flat root) := by
  rcases hroot with rfl | ⟨q, attrs, s1, rfl⟩ | ⟨q, attrs, s1, content, rfl, hcont⟩
  · obtain ⟨it, hit, hs⟩ := hstag
    rw [List.append_nil] at hit
    have hm : it.isMiscI = true := by
      rcases List.mem_append.1 hit with h | h
      · exact hpre it h
      · exact hpost it h
    rw [asm_misc_not_stag it hm] at hs
    exact Bool.noConfusion hs
  · have hL : (Item.stag q attrs s1 true).Lex T := hlex _ (List.mem_cons_self ..)
    have hS : (Item.stag q attrs s1 true).Sem T := hsem _ (List.mem_cons_self ..)
    refine ⟨.elem q (attrs.map fun a => (a.n, a.v)) [], rfl,
      asm_gwf_stag T q attrs s1 true [] hL hS rfl (asm_gwfall_nil T), ?_⟩
    show RNode T _ ((Item.stag q attrs s1 true).bytes ++ [])
    rw [List.append_nil]
    exact RNode.empty q _ (attrsBytes attrs) s1 (asm_rattrs T attrs hL.2.2) hL.2.1
  · have hL : (Item.stag q attrs s1 false).Lex T := hlex _ (List.mem_cons_self ..)
    have hS : (Item.stag q attrs s1 false).Sem T := hsem _ (List.mem_cons_self ..)
    have hlexC : ∀ x ∈ content, x.Lex T := fun x hx => hlex x (List.mem_cons_of_mem _ hx)
    have hsemC : ∀ x ∈ content, x.Sem T := fun x hx => hsem x (List.mem_cons_of_mem _ hx)
    rw [List.append_assoc, asm_runStk_append, asm_run_misc [] pre hpre] at hrun
    have hrun1 : runStk [qparts q] (content ++ post) = some [] := hrun
    rw [asm_runStk_append] at hrun1
    cases hfin : runStk [qparts q] content with
    | none => rw [hfin] at hrun1; exact absurd hrun1 (by simp)
    | some fin =>
      rw [hfin] at hrun1
      have hrun2 : runStk fin post = some [] := hrun1
      rw [asm_run_misc fin post hpost] at hrun2
      injection hrun2 with hrun2
      subst hrun2
      rcases asm_main T (content.length + 1) content 0 [qparts q] [] (Nat.lt_succ_self _) hcont rfl
        hfin hlexC hsemC with hA | hB
      · obtain ⟨kitems, q', s2, rest, kids, rfl, hk, hw, hn, _, hr, hs2, hd⟩ := hA
        have hrest : rest = [] := by
          rcases hd with ⟨_, h⟩ | ⟨d', hd', _⟩
          · exact h
          · exact absurd hd' (Nat.succ_ne_zero _).symm
        subst hrest
        rw [asm_runStk_append, hr] at hfin
        have hfin2 : (match stepStk [qparts q] (Item.etag q' s2) with
              | some stk' => runStk stk' []
              | none => none) = some [] := hfin
        have hstepE : stepStk [qparts q] (Item.etag q' s2) =
            if qparts q = qparts q' then some [] else none := rfl
        by_cases hqq : qparts q = qparts q'
        · refine ⟨.elem q (attrs.map fun a => (a.n, a.v)) kids, rfl,
            asm_gwf_stag T q attrs s1 false kids hL hS hn hw, ?_⟩
          have := RNode.elem q q' _ kids (attrsBytes attrs) s1 (flat kitems) s2
            (asm_rattrs T attrs hL.2.2) hL.2.1 hk hs2 hqq.symm
          rw [asm_elem_bytes] at this
          have hfl : flat (Item.stag q attrs s1 false :: (kitems ++ [Item.etag q' s2])) =
              (Item.stag q attrs s1 false).bytes ++
                (flat kitems ++ (Item.etag q' s2).bytes) := by
            show (Item.stag q attrs s1 false).bytes ++ flat (kitems ++ [Item.etag q' s2]) = _
            rw [asm_flat_append]
            show _ ++ (flat kitems ++ ((Item.etag q' s2).bytes ++ [])) = _
            rw [List.append_nil]
          rw [hfl]
          exact this
        · rw [hstepE, if_neg hqq] at hfin2
          exact absurd hfin2 (by simp)
      · exact absurd hB (Nat.not_succ_le_zero _)

theorem assemble (T : Tables) (bom decl : Bytes) (pre root post : List Item)
    (hbom : bom = [] ∨ bom = Lit.bom) (hdecl : decl = [] ∨ XmlDecl T decl)
    (hpre : ∀ it ∈ pre, it.isMiscI = true) (hpost : ∀ it ∈ post, it.isMiscI = true)
    (hroot : RootShape root)
    (hlex : ∀ it ∈ pre ++ root ++ post, it.Lex T) (hsem : ∀ it ∈ pre ++ root ++ post, it.Sem T)
    (hrun : runStk [] (pre ++ root ++ post) = some [])
    (hstag : ∃ it ∈ pre ++ root ++ post, it.isStag = true) :
    WellFormed T (bom ++ decl ++ flat pre ++ flat root ++ flat post) := by
  obtain ⟨mpre, hmpre, hwpre⟩ := asm_rmisc T pre hpre
    (fun it h => hlex it (List.mem_append_left _ (List.mem_append_left _ h)))
  obtain ⟨mpost, hmpost, hwpost⟩ := asm_rmisc T post hpost
    (fun it h => hlex it (List.mem_append_right _ h))
  obtain ⟨r, he, hg, hr⟩ := asm_root T pre root post hpre hpost hroot
    (fun it h => hlex it (List.mem_append_left _ (List.mem_append_right _ h)))
    (fun it h => hsem it (List.mem_append_left _ (List.mem_append_right _ h))) hrun hstag
  exact ⟨⟨mpre, r, mpost⟩, ⟨he, hg, hwpre, hwpost⟩,
    RDoc.mk mpre r mpost bom decl _ _ _ hbom hdecl hmpre hr hmpost⟩

end Rox.Lemmas
