/-
  Rox.Lemmas.ElemNs — C06: the namespace of an element name. When a start tag is completed
  (`process_element` for `ElementEnd(Open|Empty)`), the new element's namespace is the one its own
  start tag declares for its prefix (for no prefix: its own default-namespace declaration), and
  otherwise whatever its parent's in-scope list resolves that prefix to.
-/
import Rox.Lemmas.NsScope
import Rox.Lemmas.SafeElem
import Rox.Lemmas.Arena

namespace Rox.Lemmas
open Rox Rox.Props.C06

/-- the lookup key of a tag's prefix: `none` is the default namespace -/
def prefixKey (pfx : Bytes) : Option Bytes := if pfx.isEmpty then none else some pfx

/-- The node `process_element` appends for `ElementEnd(Open|Empty)`, with the intermediate results
of the three resolution steps. -/
theorem processElement_append_tail (txt : Bytes) (c2 c' : Ctx) (nss attrs : Range) (r : Range)
    (hb2 : BInv c2) (k : Ctx → Nat → Ctx) (hk : ∀ c3 id, (k c3 id).doc = c3.doc)
    (h : (do
        let tagNs ← getNsIdxByPrefix txt c2.doc nss c2.tagName.prefixPos c2.tagName.pfx
        let (c, newId) ← c2.appendNode (.element tagNs c2.tagName.nameSpan attrs nss)
                            (c2.tagName.pos, r.2)
        (pure (k c newId) : Res Ctx)) = .ok c') :
    ∃ (tagNs : Option Nat) (n : NodeData),
      getNsIdxByPrefix txt c2.doc nss c2.tagName.prefixPos c2.tagName.pfx = .ok tagNs ∧
      c'.doc.nodes[c2.doc.nodes.size]? = some n ∧
      n.kind = .element tagNs c2.tagName.nameSpan attrs nss ∧ n.parent = some c2.parentId := by
  obtain ⟨tagNs, hg, h⟩ := Res.bind_eq_ok.mp h
  obtain ⟨⟨c3, newId⟩, happ, h⟩ := Res.bind_eq_ok.mp h
  simp only [Res.pure_eq, Res.ok.injEq] at h
  subst h
  have haw : ∀ x ∈ c2.awaiting, x < c2.doc.nodes.size := fun x hx => ((hb2.awaiting x).mp hx).1
  obtain ⟨_, _, _, ⟨p, _, hnew⟩, _⟩ := appendNode_spec c2 c3 _ _ newId hb2.pid_lt haw happ
  rw [← hk c3 newId] at hnew
  exact ⟨tagNs, _, hg, hnew, rfl, rfl⟩

/-- Decomposition of a successful `process_element` for `ElementEnd(Open|Empty)`. -/
theorem processElement_decomp (txt : Bytes) (c c' : Ctx) (e : EndKind) (r : Range)
    (he : e = .open ∨ e = .empty) (hb : BInv c) (hn : NsOk c.doc c.nsStartIdx)
    (h : processElement txt c e r = .ok c') :
    ∃ (c1 : Ctx) (nss attrs : Range) (ns2 : Doc) (tagNs : Option Nat) (n : NodeData),
      resolveNamespaces c = .ok (c1, nss) ∧ ns2.ns = c1.doc.ns ∧
      getNsIdxByPrefix txt ns2 nss c.tagName.prefixPos c.tagName.pfx = .ok tagNs ∧
      c'.doc.nodes[c.doc.nodes.size]? = some n ∧
      n.kind = .element tagNs c.tagName.nameSpan attrs nss ∧ n.parent = some c.parentId := by
  unfold processElement at h
  split at h
  · rcases he with rfl | rfl <;> cases h
  · obtain ⟨⟨c1, nss⟩, h1, h⟩ := Res.bind_eq_ok.mp h
    dsimp only at h
    obtain ⟨⟨c2, attrs⟩, h2, h⟩ := Res.bind_eq_ok.mp h
    dsimp only at h
    obtain ⟨hns1, hn1, hn2, hfr1⟩ := (resolveNamespaces_safe c hb.pid_lt hn).post _ h1
    dsimp only at hns1 hn1 hn2 hfr1
    have hns1' : NsOk ({ c1 with nsStartIdx := c1.doc.ns.treeOrder.size, xmlDeclared := false } : Ctx).doc
        c1.doc.ns.treeOrder.size :=
      ⟨hns1.ns, hns1.xml0, Nat.le_refl _, hns1.elem, hns1.attrNs⟩
    obtain ⟨_, _, _, hnodes2, hnsEq2, hfr2⟩ := (resolveAttributes_safe txt
      { c1 with nsStartIdx := c1.doc.ns.treeOrder.size, xmlDeclared := false }
      nss c1.doc.ns.treeOrder.size hns1' ⟨hn1, hn2⟩).post _ h2
    dsimp only at hnodes2 hnsEq2 hfr2
    have hc2 : c2 = { c with doc := c2.doc, curAttrs := c2.curAttrs,
                               nsStartIdx := c2.doc.ns.treeOrder.size, xmlDeclared := false } := by
      rw [hfr2, hfr1]
      simp only [hnsEq2]
    have hnodes : c2.doc.nodes = c.doc.nodes := by
      rw [hnodes2]; show c1.doc.nodes = _; rw [hfr1]
    have hb2 : BInv c2 := hb.congr hnodes (by rw [hc2]) (by rw [hc2])
    have htag : c2.tagName = c.tagName := by rw [hc2]
    have hpid : c2.parentId = c.parentId := by rw [hc2]
    have key : ∀ (k : Ctx → Nat → Ctx), (∀ c3 id, (k c3 id).doc = c3.doc) →
        (do
          let tagNs ← getNsIdxByPrefix txt c2.doc nss c2.tagName.prefixPos c2.tagName.pfx
          let (c, newId) ← c2.appendNode (.element tagNs c2.tagName.nameSpan attrs nss)
                              (c2.tagName.pos, r.2)
          (pure (k c newId) : Res Ctx)) = .ok c' →
        ∃ (c1 : Ctx) (nss attrs : Range) (ns2 : Doc) (tagNs : Option Nat) (n : NodeData),
          resolveNamespaces c = .ok (c1, nss) ∧ ns2.ns = c1.doc.ns ∧
          getNsIdxByPrefix txt ns2 nss c.tagName.prefixPos c.tagName.pfx = .ok tagNs ∧
          c'.doc.nodes[c.doc.nodes.size]? = some n ∧
          n.kind = .element tagNs c.tagName.nameSpan attrs nss ∧ n.parent = some c.parentId := by
      intro k hk h
      obtain ⟨tagNs, n, g1, g2, g3, g4⟩ := processElement_append_tail txt c2 c' nss attrs r hb2 k hk h
      rw [htag] at g1 g3
      rw [hnodes] at g2
      rw [hpid] at g4
      exact ⟨c1, nss, attrs, c2.doc, tagNs, n, h1, hnsEq2, g1, g2, g3, g4⟩
    rcases he with rfl | rfl
    · exact key (fun c newId => { c with parentId := newId, parentPrefixes := c.tagName.pfx :: c.parentPrefixes })
        (fun _ _ => rfl) h
    · exact key (fun c newId => { c with awaiting := c.awaiting ++ [newId] }) (fun _ _ => rfl) h

/-- **Element name resolution** (every context the parser can be in: `BInv`, `NsOk`): -/
theorem processElement_tag_namespace (txt : Bytes) (c c' : Ctx) (e : EndKind) (r : Range)
    (he : e = .open ∨ e = .empty) (hb : BInv c) (hn : NsOk c.doc c.nsStartIdx)
    (hx : c.tagName.pfx ≠ Lit.xml) (h : processElement txt c e r = .ok c') :
    ∃ (n : NodeData) (tn : Option Nat) (name : Span) (attrs nss : Range),
      c'.doc.nodes[c.doc.nodes.size]? = some n ∧ n.kind = .element tn name attrs nss ∧
      n.parent = some c.parentId ∧ name = c.tagName.nameSpan ∧
      tn = (scopeFind c.doc.ns (rangeList c.doc.ns (c.nsStartIdx, c.doc.ns.treeOrder.size))
              (prefixKey c.tagName.pfx)).orElse
            (fun _ => scopeFind c.doc.ns (rangeList c.doc.ns (parentRange c)) (prefixKey c.tagName.pfx)) := by
  obtain ⟨c1, nss, attrs, d2, tagNs, n, h1, hns, hg, g2, g3, g4⟩ :=
    processElement_decomp txt c c' e r he hb hn h
  refine ⟨n, tagNs, _, attrs, nss, g2, g3, g4, rfl, ?_⟩
  have := getNsIdxByPrefix_scope txt d2 nss _ _ hx tagNs hg
  rw [this, hns]
  exact resolveNamespaces_scope c c1 nss hb.pid_lt hn h1 (prefixKey c.tagName.pfx)

/-- An element whose prefix is `xml` is in the XML namespace (table entry 0), whatever is declared. -/
theorem processElement_xml_prefix (txt : Bytes) (c c' : Ctx) (e : EndKind) (r : Range)
    (he : e = .open ∨ e = .empty) (hb : BInv c) (hn : NsOk c.doc c.nsStartIdx)
    (hx : c.tagName.pfx = Lit.xml) (h : processElement txt c e r = .ok c') :
    ∃ (n : NodeData) (name : Span) (attrs nss : Range),
      c'.doc.nodes[c.doc.nodes.size]? = some n ∧ n.kind = .element (some 0) name attrs nss := by
  obtain ⟨c1, nss, attrs, d2, tagNs, n, h1, hns, hg, g2, g3, g4⟩ :=
    processElement_decomp txt c c' e r he hb hn h
  refine ⟨n, c.tagName.nameSpan, attrs, nss, g2, ?_⟩
  unfold getNsIdxByPrefix at hg
  dsimp only at hg
  rw [hx] at hg
  simp only [beq_self_eq_true, if_true, Res.ok.injEq] at hg
  rw [hg]
  exact g3

end Rox.Lemmas
