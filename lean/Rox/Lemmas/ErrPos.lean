/-
  Rox.Lemmas.ErrPos — C14: every error `parse` returns carries a position computed from the input:
  either the error kind has no position (`Error::pos` answers 1:1) or its position is the
  (row, column) of some byte offset of the input — hence inside the input.
-/
import Rox.Parse
import Rox.Props.C14Base

namespace Rox.Lemmas
open Rox

/-- The position of the error is the (row, column) of some offset of the text, or the error kind
carries none. -/
def ErrPosOk (txt : Bytes) (e : Err) : Prop :=
  e.pos = ⟨1, 1⟩ ∨ ∃ q, q ≤ txt.length ∧ e.pos = ⟨calcRow txt q, calcCol txt q⟩

namespace ErrPos

/-! ### The error logic -/

/-- every error the computation can return has a position computed from `txt` -/
structure EOk (txt : Bytes) {α : Type} (r : Res α) : Prop where
  out : ∀ e, r = .err e → ErrPosOk txt e

theorem eok_ok (txt : Bytes) {α} (a : α) : EOk txt (Res.ok a) := ⟨by intro e h; cases h⟩
theorem eok_pure (txt : Bytes) {α} (a : α) : EOk txt (pure a : Res α) := ⟨by intro e h; cases h⟩
theorem eok_panic (txt : Bytes) {α} (s : String) : EOk txt (Res.panic s : Res α) :=
  ⟨by intro e h; cases h⟩
theorem eok_fuel (txt : Bytes) {α} : EOk txt (Res.fuel : Res α) := ⟨by intro e h; cases h⟩
theorem eok_err (txt : Bytes) {α} (e : Err) (h : e.pos = ⟨1, 1⟩) : EOk txt (Res.err e : Res α) :=
  ⟨by intro e' h'; cases h'; exact Or.inl h⟩

theorem eok_bind (txt : Bytes) {α β} (m : Res α) (k : α → Res β)
    (hm : EOk txt m) (hk : ∀ a, EOk txt (k a)) : EOk txt (m >>= k) := by
  cases m with
  | ok a => exact hk a
  | err e => exact ⟨fun e' h => by rw [Res.bind_err] at h; cases h; exact hm.out e rfl⟩
  | panic s => exact ⟨by intro e h; cases h⟩
  | fuel => exact ⟨by intro e h; cases h⟩

theorem genTextPos_ok (txt : Bytes) (p : Nat) (tp : TextPos) (h : genTextPos txt p = .ok tp) :
    p ≤ txt.length ∧ tp = ⟨calcRow txt p, calcCol txt p⟩ := by
  unfold genTextPos at h
  split at h
  · rename_i hc
    simp only [Bool.and_eq_true, decide_eq_true_eq] at hc
    cases h; exact ⟨hc.1, rfl⟩
  · cases h

theorem genTextPos_noerr (txt : Bytes) (p : Nat) (e : Err) : genTextPos txt p ≠ .err e := by
  unfold genTextPos; split <;> intro h <;> cases h

theorem eok_errAt (txt : Bytes) {α} (mk : TextPos → Err) (p : Nat) (hmk : ∀ tp, (mk tp).pos = tp) :
    EOk txt (errAt txt mk p : Res α) := by
  constructor
  intro e h
  unfold errAt at h
  split at h
  · rename_i tp htp
    cases h
    obtain ⟨h1, h2⟩ := genTextPos_ok txt p tp htp
    exact Or.inr ⟨p, h1, by rw [hmk, h2]⟩
  · rename_i e' he; exact absurd he (genTextPos_noerr _ _ _)
  · cases h
  · cases h

theorem eok_errFrom (txt : Bytes) {α} (mk : TextPos → Err) (p : Nat) (hmk : ∀ tp, (mk tp).pos = tp) :
    EOk txt (errFrom txt mk p : Res α) := by
  constructor
  intro e h
  unfold errFrom genTextPosFrom at h
  split at h
  · rename_i tp htp
    cases h
    obtain ⟨h1, h2⟩ := genTextPos_ok txt _ tp htp
    exact Or.inr ⟨_, h1, by rw [hmk, h2]⟩
  · rename_i e' he; exact absurd he (genTextPos_noerr _ _ _)
  · cases h
  · cases h

theorem eok_errPos (txt : Bytes) {α} (mk : TextPos → Err) (p : Nat) (hmk : ∀ tp, (mk tp).pos = tp) :
    EOk txt (errPos txt mk p : Res α) := eok_errFrom txt mk p hmk

/-- the same for token-emitting computations -/
structure EOkT (txt : Bytes) {α : Type} (m : TM α) : Prop where
  out : EOk txt m.2

theorem eokT_pure (txt : Bytes) {α} (a : α) : EOkT txt (pure a : TM α) := ⟨eok_ok txt a⟩
theorem eokT_emit (txt : Bytes) (t : Token) : EOkT txt (TM.emit t) := ⟨eok_ok txt ()⟩
theorem eokT_lift (txt : Bytes) {α} (r : Res α) (h : EOk txt r) : EOkT txt (TM.lift r) := ⟨h⟩

theorem eokT_bind (txt : Bytes) {α β} (m : TM α) (k : α → TM β)
    (hm : EOkT txt m) (hk : ∀ a, EOkT txt (k a)) : EOkT txt (m >>= k) := by
  obtain ⟨t1, r⟩ := m
  cases r with
  | ok a => exact ⟨(hk a).out⟩
  | err e => exact ⟨⟨fun e' h => by
      have h' : (Res.err e : Res β) = .err e' := h
      cases h'; exact hm.out.out e rfl⟩⟩
  | panic s => exact ⟨⟨by intro e h; cases h⟩⟩
  | fuel => exact ⟨⟨by intro e h; cases h⟩⟩

/-- try the given lemmas / induction hypotheses -/
syntax "eok_try" term,* : tactic
macro_rules
  | `(tactic| eok_try) => `(tactic| fail "no lemma")
  | `(tactic| eok_try $t:term) => `(tactic| apply $t)
  | `(tactic| eok_try $t:term, $ts:term,*) => `(tactic| first | apply $t | eok_try $ts,*)

/-- one step of the error logic -/
syntax "eok_step" term,* : tactic
macro_rules
  | `(tactic| eok_step $ts:term,*) => `(tactic| first
    | exact eok_ok _ _
    | exact eok_pure _ _
    | exact eok_panic _ _
    | exact eok_fuel _
    | exact eok_err _ _ rfl
    | exact eok_errAt _ _ _ (fun _ => rfl)
    | exact eok_errFrom _ _ _ (fun _ => rfl)
    | exact eok_errPos _ _ _ (fun _ => rfl)
    | exact eokT_pure _ _
    | exact eokT_emit _ _
    | assumption
    | eok_try $ts,*
    | apply eok_bind
    | apply eokT_bind
    | apply eokT_lift
    | intro _
    | split
    | dsimp only)

syntax "eok" ("using" term,*)? : tactic
macro_rules
  | `(tactic| eok) => `(tactic| repeat' eok_step)
  | `(tactic| eok using $ts:term,*) => `(tactic| repeat' eok_step $ts,*)

/-! ### `Rox.Stream` -/

section
variable (T : Tables) (txt : Bytes)

theorem advance_eok (s : Stream) (n : Nat) : EOk txt (s.advance n) := by
  unfold Stream.advance; eok

theorem currByte_eok (s : Stream) : EOk txt s.currByte := by
  unfold Stream.currByte; eok

theorem consumeByte_eok (s : Stream) (c : UInt8) : EOk txt (s.consumeByte txt c) := by
  unfold Stream.consumeByte; eok

theorem skipString_eok (s : Stream) (lit : Bytes) : EOk txt (s.skipString txt lit) := by
  unfold Stream.skipString; eok using advance_eok

theorem consumeSpaces_eok (s : Stream) : EOk txt (s.consumeSpaces T txt) := by
  unfold Stream.consumeSpaces; eok

theorem consumeEq_eok (s : Stream) : EOk txt (s.consumeEq T txt) := by
  unfold Stream.consumeEq; eok using consumeByte_eok

theorem consumeQuote_eok (s : Stream) : EOk txt (s.consumeQuote txt) := by
  unfold Stream.consumeQuote; eok

theorem skipCharsAux_eok (f : Stream → Nat → Bool) :
    ∀ fuel s acc, EOk txt (Stream.skipCharsAux T txt f fuel s acc) := by
  intro fuel
  induction fuel with
  | zero => intro s acc; unfold Stream.skipCharsAux; eok
  | succ n ih => intro s acc; unfold Stream.skipCharsAux; eok using ih

theorem consumeChars_eok (s : Stream) (f : Stream → Nat → Bool) :
    EOk txt (s.consumeChars T txt f) := by
  unfold Stream.consumeChars; eok using skipCharsAux_eok

theorem skipXmlChars_eok (s : Stream) : EOk txt (s.skipXmlChars T txt) := by
  unfold Stream.skipXmlChars; eok using skipCharsAux_eok

theorem advanceUntil2_eok (s : Stream) (a b : UInt8) : EOk txt (s.advanceUntil2 a b) := by
  unfold Stream.advanceUntil2; eok

theorem skipNameTail_eok : ∀ fuel s acc, EOk txt (Stream.skipNameTail T fuel s acc) := by
  intro fuel
  induction fuel with
  | zero => intro s acc; unfold Stream.skipNameTail; eok
  | succ n ih => intro s acc; unfold Stream.skipNameTail; eok using ih

theorem skipName_eok (s : Stream) : EOk txt (s.skipName T txt) := by
  unfold Stream.skipName; eok using skipNameTail_eok

theorem consumeName_eok (s : Stream) : EOk txt (s.consumeName T txt) := by
  unfold Stream.consumeName; eok using skipName_eok

theorem qnameLoop_eok (start : Nat) :
    ∀ fuel s acc split, EOk txt (Stream.qnameLoop T txt start fuel s acc split) := by
  intro fuel
  induction fuel with
  | zero => intro s acc split; unfold Stream.qnameLoop; eok
  | succ n ih => intro s acc split; unfold Stream.qnameLoop; eok using ih

theorem consumeQName_eok (s : Stream) : EOk txt (s.consumeQName T txt) := by
  unfold Stream.consumeQName; eok using qnameLoop_eok

theorem namedRef_eok (s : Stream) : EOk txt (s.namedRef T txt) := by
  unfold Stream.namedRef; eok

theorem consumeReference_eok (s : Stream) : EOk txt (s.consumeReference T txt) := by
  unfold Stream.consumeReference; eok using namedRef_eok

end
/-! ### `Rox.Tok` -/

section
variable (T : Tables) (txt : Bytes)

theorem isXmlStrAscii_eok : ∀ l pos, EOk txt (isXmlStrAscii T txt pos l) := by
  intro l
  induction l with
  | nil => intro pos; unfold isXmlStrAscii; eok
  | cons b r ih => intro pos; unfold isXmlStrAscii; eok using ih

theorem isXmlStrUnicode_eok : ∀ fuel pos l, EOk txt (isXmlStrUnicode T txt fuel pos l) := by
  intro fuel
  induction fuel with
  | zero => intro pos l; unfold isXmlStrUnicode; eok
  | succ n ih =>
    intro pos l
    cases l with
    | nil => unfold isXmlStrUnicode; eok
    | cons b r => unfold isXmlStrUnicode; eok using ih

theorem isXmlStr_eok (v : Span) : EOk txt (isXmlStr T txt v) := by
  unfold isXmlStr; eok using isXmlStrAscii_eok, isXmlStrUnicode_eok

theorem parseAttribute_eok (s : Stream) : EOk txt (parseAttribute T txt s) := by
  unfold parseAttribute
  eok using consumeQName_eok, consumeEq_eok, consumeQuote_eok, consumeChars_eok, consumeByte_eok

theorem parsePseudoAttribute_eok (s : Stream) (name : Bytes) :
    EOk txt (parsePseudoAttribute T txt s name) := by
  unfold parsePseudoAttribute
  eok using parseAttribute_eok

theorem declConsumeSpaces_eok (s : Stream) : EOk txt (declConsumeSpaces T txt s) := by
  unfold declConsumeSpaces; eok

theorem declEnd_eok (s : Stream) : EOk txt (declEnd T txt s) := by
  unfold declEnd; eok using skipString_eok

theorem declStandalone_eok (s : Stream) : EOk txt (declStandalone T txt s) := by
  unfold declStandalone; eok using parsePseudoAttribute_eok, declEnd_eok

theorem declEncoding_eok (s : Stream) : EOk txt (declEncoding T txt s) := by
  unfold declEncoding; eok using parsePseudoAttribute_eok, declConsumeSpaces_eok, declStandalone_eok

theorem parseDeclaration_eok (s : Stream) : EOk txt (parseDeclaration T txt s) := by
  unfold parseDeclaration
  eok using advance_eok, declConsumeSpaces_eok, skipString_eok, parsePseudoAttribute_eok, declEncoding_eok

theorem parseComment_eok (s : Stream) : EOkT txt (parseComment T txt s) := by
  unfold parseComment
  eok using advance_eok, consumeChars_eok, skipString_eok

theorem parsePi_eok (s : Stream) : EOkT txt (parsePi T txt s) := by
  unfold parsePi
  eok using advance_eok, consumeName_eok, declConsumeSpaces_eok, consumeChars_eok, skipString_eok

theorem parseMisc_eok : ∀ fuel s, EOkT txt (parseMisc T txt fuel s) := by
  intro fuel
  induction fuel with
  | zero => intro s; unfold parseMisc; eok
  | succ n ih => intro s; unfold parseMisc; eok using ih, parseComment_eok, parsePi_eok

theorem parseExternalId_eok (s : Stream) : EOk txt (parseExternalId T txt s) := by
  unfold parseExternalId
  eok using advance_eok, consumeSpaces_eok, consumeQuote_eok, consumeByte_eok

theorem parseEntityDef_eok (s : Stream) (g : Bool) : EOk txt (parseEntityDef T txt s g) := by
  unfold parseEntityDef
  eok using currByte_eok, advance_eok, consumeSpaces_eok, consumeQuote_eok, consumeByte_eok,
    parseExternalId_eok, skipName_eok

theorem parseEntityDeclBody_eok (s : Stream) (g : Bool) :
    EOkT txt (parseEntityDeclBody T txt s g) := by
  unfold parseEntityDeclBody
  eok using consumeName_eok, consumeSpaces_eok, parseEntityDef_eok, consumeByte_eok

theorem parseEntityDecl_eok (s : Stream) : EOkT txt (parseEntityDecl T txt s) := by
  unfold parseEntityDecl
  eok using advance_eok, consumeSpaces_eok, parseEntityDeclBody_eok

theorem parseDoctypeStart_eok (s : Stream) : EOk txt (parseDoctypeStart T txt s) := by
  unfold parseDoctypeStart
  eok using advance_eok, consumeSpaces_eok, skipName_eok, parseExternalId_eok, currByte_eok

theorem doctypeLoop_eok (start : Nat) : ∀ fuel s, EOkT txt (doctypeLoop T txt start fuel s) := by
  intro fuel
  induction fuel with
  | zero => intro s; unfold doctypeLoop; eok
  | succ n ih =>
    intro s; unfold doctypeLoop
    eok using ih, parseEntityDecl_eok, parseComment_eok, parsePi_eok, advance_eok

theorem parseDoctype_eok (s : Stream) : EOkT txt (parseDoctype T txt s) := by
  unfold parseDoctype
  eok using parseDoctypeStart_eok, advance_eok, doctypeLoop_eok

theorem startTagLoop_eok : ∀ fuel s, EOkT txt (startTagLoop T txt fuel s) := by
  intro fuel
  induction fuel with
  | zero => intro s; unfold startTagLoop; eok
  | succ n ih =>
    intro s; unfold startTagLoop
    eok using ih, currByte_eok, advance_eok, consumeByte_eok, consumeSpaces_eok, consumeQName_eok,
      consumeEq_eok, consumeQuote_eok, advanceUntil2_eok, isXmlStr_eok

theorem parseStartTag_eok (s : Stream) : EOkT txt (parseStartTag T txt s) := by
  unfold parseStartTag
  eok using advance_eok, consumeQName_eok, startTagLoop_eok

theorem parseCdata_eok (s : Stream) : EOkT txt (parseCdata T txt s) := by
  unfold parseCdata
  eok using advance_eok, consumeChars_eok, skipString_eok

theorem parseCloseElement_eok (s : Stream) : EOkT txt (parseCloseElement T txt s) := by
  unfold parseCloseElement
  eok using advance_eok, consumeQName_eok, consumeByte_eok

theorem parseText_eok (s : Stream) : EOkT txt (parseText T txt s) := by
  unfold parseText
  eok using consumeChars_eok

theorem parseContent_eok : ∀ fuel depth s, EOkT txt (parseContent T txt fuel depth s) := by
  intro fuel
  induction fuel with
  | zero => intro depth s; unfold parseContent; eok
  | succ n ih =>
    intro depth s; unfold parseContent
    eok using ih, parseComment_eok, parseCdata_eok, parsePi_eok, parseCloseElement_eok,
      parseStartTag_eok, parseText_eok

theorem parseElement_eok (s : Stream) : EOkT txt (parseElement T txt s) := by
  unfold parseElement
  eok using parseStartTag_eok, parseContent_eok

theorem parseProlog_eok : EOkT txt (parseProlog T txt) := by
  unfold parseProlog
  eok using advance_eok, parseDeclaration_eok, parseMisc_eok

theorem parseRootElement_eok (s : Stream) : EOkT txt (parseRootElement T txt s) := by
  unfold parseRootElement
  eok using parseElement_eok

theorem parseBody_eok (s : Stream) : EOkT txt (parseBody T txt s) := by
  unfold parseBody
  eok using parseRootElement_eok, parseMisc_eok

theorem parseDocument_eok (allowDtd : Bool) : EOkT txt (parseDocument T txt allowDtd) := by
  unfold parseDocument
  eok using parseProlog_eok, parseDoctype_eok, parseMisc_eok, parseBody_eok

theorem tokenize_eok (allowDtd : Bool) : EOk txt (tokenize T txt allowDtd).2 :=
  (parseDocument_eok T txt allowDtd).out

theorem tokenizeContent_eok (a b : Nat) : EOk txt (tokenizeContent T txt a b).2 :=
  (parseContent_eok T txt _ _ _).out

theorem stop_eok {T : Tables} {txt : Bytes} {a b : Nat} {toks : List Token} {stop : Res Stream}
    (h : tokenizeContent T txt a b = (toks, stop)) : EOk txt stop := by
  have := tokenizeContent_eok T txt a b
  rw [h] at this; exact this

end
/-! ### `Rox.Doc` and the part of `Rox.Api` the builder uses -/

section
variable (txt : Bytes)

theorem searchGo_eok (ns : Namespaces) (name : Option Bytes) (uri : Bytes) :
    ∀ fuel i, EOk txt (ns.searchGo name uri fuel i) := by
  intro fuel
  induction fuel with
  | zero => intro i; unfold Namespaces.searchGo; eok
  | succ n ih => intro i; unfold Namespaces.searchGo; eok using ih

theorem search_eok (ns : Namespaces) (name : Option Bytes) (uri : Bytes) :
    EOk txt (ns.search name uri) := by
  unfold Namespaces.search; eok using searchGo_eok

theorem pushNs_eok (ns : Namespaces) (name : Option Span) (uri : Str) :
    EOk txt (ns.pushNs name uri) := by
  unfold Namespaces.pushNs; eok using search_eok

theorem pushRef_eok (ns : Namespaces) (i : Nat) : EOk txt (ns.pushRef i) := by
  unfold Namespaces.pushRef; eok

theorem existsAux_eok (values : Array Namespace) (pfx : Option Bytes) :
    ∀ l, EOk txt (Namespaces.existsAux values pfx l) := by
  intro l
  induction l with
  | nil => unfold Namespaces.existsAux; eok
  | cons a r ih => unfold Namespaces.existsAux; eok using ih

theorem exists_eok (ns : Namespaces) (start : Nat) (pfx : Option Bytes) :
    EOk txt (ns.exists start pfx) := by
  unfold Namespaces.exists; eok using existsAux_eok

theorem nodeIdNew_eok (k : Nat) : EOk txt (Api.nodeIdNew k) := by
  unfold Api.nodeIdNew; eok

theorem nsByIdx_eok (d : Doc) (k : Nat) : EOk txt (Api.nsByIdx d k) := by
  unfold Api.nsByIdx; eok

theorem expandedName_eok (d : Doc) (i : Option Nat) (loc : Span) :
    EOk txt (Api.expandedName d i loc) := by
  unfold Api.expandedName; eok using nsByIdx_eok

theorem attrAt_eok (d : Doc) (k : Nat) : EOk txt (Api.attrAt d k) := by
  unfold Api.attrAt; eok

theorem attrExpanded_eok (d : Doc) (k : Nat) : EOk txt (Api.attrExpanded d k) := by
  unfold Api.attrExpanded; eok using attrAt_eok, expandedName_eok

theorem getNodeUnwrap_eok (d : Doc) (k : Nat) : EOk txt (Api.getNodeUnwrap d k) := by
  unfold Api.getNodeUnwrap; eok

theorem follow_eok (d : Doc) (l : Option Nat) : EOk txt (Api.follow d l) := by
  unfold Api.follow; eok

theorem firstChild_eok (d : Doc) (k : Nat) : EOk txt (Api.firstChild d k) := by
  unfold Api.firstChild; eok using getNodeUnwrap_eok, nodeIdNew_eok

theorem lastChild_eok (d : Doc) (k : Nat) : EOk txt (Api.lastChild d k) := by
  unfold Api.lastChild; eok using getNodeUnwrap_eok, follow_eok

theorem nextSibling_eok (d : Doc) (k : Nat) : EOk txt (Api.nextSibling d k) := by
  unfold Api.nextSibling; eok using getNodeUnwrap_eok

theorem children_eok (d : Doc) (k : Nat) : EOk txt (Api.children d k) := by
  unfold Api.children; eok using firstChild_eok, lastChild_eok

theorem childrenNext_eok (d : Doc) (it : Api.ChildrenIt) : EOk txt (it.next d) := by
  unfold Api.ChildrenIt.next; eok using nextSibling_eok

theorem childrenList_eok (d : Doc) : ∀ fuel it, EOk txt (Api.childrenList d fuel it) := by
  intro fuel
  induction fuel with
  | zero => intro it; unfold Api.childrenList; eok
  | succ n ih => intro it; unfold Api.childrenList; eok using ih, childrenNext_eok

theorem kindOf_eok (d : Doc) (k : Nat) : EOk txt (Api.kindOf d k) := by
  unfold Api.kindOf; eok using getNodeUnwrap_eok

theorem isElement_eok (d : Doc) (k : Nat) : EOk txt (Api.isElement d k) := by
  unfold Api.isElement; eok using kindOf_eok

theorem findElement_eok (d : Doc) : ∀ l, EOk txt (Api.findElement d l) := by
  intro l
  induction l with
  | nil => unfold Api.findElement; eok
  | cons a r ih => unfold Api.findElement; eok using ih, isElement_eok

theorem anyM_eok {α : Type} (f : α → Res Bool) (hf : ∀ a, EOk txt (f a)) :
    ∀ l : List α, EOk txt (l.anyM f) := by
  intro l
  induction l with
  | nil => unfold List.anyM; eok
  | cons a r ih => unfold List.anyM; eok using ih, hf

end

/-! ### `Rox.Build` -/

section
variable (T : Tables) (txt : Bytes)

theorem nodeAt_eok (c : Ctx) (i : Nat) : EOk txt (c.nodeAt i) := by
  unfold Ctx.nodeAt; eok

theorem setNextSubtree_eok (new : Nat) :
    ∀ l nodes, EOk txt (Ctx.setNextSubtree nodes new l) := by
  intro l
  induction l with
  | nil => intro nodes; unfold Ctx.setNextSubtree; eok
  | cons a r ih => intro nodes; unfold Ctx.setNextSubtree; eok using ih

theorem appendNode_eok (c : Ctx) (kind : Kind) (range : Range) :
    EOk txt (c.appendNode kind range) := by
  unfold Ctx.appendNode; eok using nodeIdNew_eok, setNextSubtree_eok

theorem appendText_eok (c : Ctx) (text : Str) (range : Range) :
    EOk txt (c.appendText text range) := by
  unfold Ctx.appendText; eok using appendNode_eok

theorem mergeText_eok (c : Ctx) : EOk txt c.mergeText := by
  unfold Ctx.mergeText; eok

theorem resetAfterText_eok (c : Ctx) : EOk txt c.resetAfterText := by
  unfold Ctx.resetAfterText; eok using mergeText_eok

theorem getNsFind_eok (doc : Doc) (pfxOpt : Option Bytes) :
    ∀ l, EOk txt (getNsIdxByPrefix.find doc pfxOpt l) := by
  intro l
  induction l with
  | nil => unfold getNsIdxByPrefix.find; eok
  | cons a r ih => unfold getNsIdxByPrefix.find; eok using ih

theorem getNsIdxByPrefix_eok (doc : Doc) (nss : Range) (pp : Nat) (pfx : Bytes) :
    EOk txt (getNsIdxByPrefix txt doc nss pp pfx) := by
  unfold getNsIdxByPrefix; eok using getNsFind_eok

theorem inheritLoop_eok (startIdx : Nat) : ∀ l ns, EOk txt (inheritLoop startIdx l ns) := by
  intro l
  induction l with
  | nil => intro ns; unfold inheritLoop; eok
  | cons a r ih => intro ns; unfold inheritLoop; eok using ih, exists_eok, pushRef_eok

theorem resolveNamespaces_eok (c : Ctx) : EOk txt (resolveNamespaces c) := by
  unfold resolveNamespaces; eok using nodeAt_eok, inheritLoop_eok

theorem attrNsIdx_eok (doc : Doc) (nss : Range) (a : TempAttr) :
    EOk txt (attrNsIdx txt doc nss a) := by
  unfold attrNsIdx; eok using getNsIdxByPrefix_eok

theorem resolveAttrsLoop_eok (positions : Bool) (nss : Range) (startIdx : Nat) :
    ∀ l doc, EOk txt (resolveAttrsLoop txt positions nss startIdx l doc) := by
  intro l
  induction l with
  | nil => intro doc; unfold resolveAttrsLoop; eok
  | cons a r ih =>
    intro doc; unfold resolveAttrsLoop
    eok using ih, attrNsIdx_eok, expandedName_eok, anyM_eok, attrExpanded_eok

theorem resolveAttributes_eok (c : Ctx) (nss : Range) : EOk txt (resolveAttributes txt c nss) := by
  unfold resolveAttributes; eok using resolveAttrsLoop_eok

theorem processElement_eok (c : Ctx) (e : EndKind) (r : Range) :
    EOk txt (processElement txt c e r) := by
  unfold processElement
  eok using resolveNamespaces_eok, resolveAttributes_eok, getNsIdxByPrefix_eok, appendNode_eok,
    nodeAt_eok

theorem normAttrLoop_eok (ents : List Entity)
    (rec : Span → TextBuffer → LD → List Ev → Res (TextBuffer × LD × List Ev))
    (hrec : ∀ a b c d, EOk txt (rec a b c d)) :
    ∀ fuel s buf ld tr, EOk txt (normAttrLoop T txt ents rec fuel s buf ld tr) := by
  intro fuel
  induction fuel with
  | zero => intro s buf ld tr; unfold normAttrLoop; eok
  | succ n ih =>
    intro s buf ld tr; unfold normAttrLoop
    eok using ih, hrec, consumeReference_eok, skipXmlChars_eok

theorem normAttrRec_eok (ents : List Entity) :
    ∀ d text buf ld tr, EOk txt (normAttrRec T txt ents d text buf ld tr) := by
  intro d
  induction d with
  | zero => intro text buf ld tr; unfold normAttrRec; eok
  | succ n ih =>
    intro text buf ld tr; unfold normAttrRec
    exact normAttrLoop_eok T txt ents _ ih _ _ _ _ _

theorem bufFinish_eok (b : TextBuffer) : EOk txt b.finish := by
  unfold TextBuffer.finish; eok

theorem normalizeAttribute_eok (c : Ctx) (v : Span) : EOk txt (normalizeAttribute T txt c v) := by
  unfold normalizeAttribute; eok using normAttrRec_eok, bufFinish_eok

theorem processAttribute_eok (c : Ctx) (range : Range) (q e : Nat) (pfx loc value : Span) :
    EOk txt (processAttribute T txt c range q e pfx loc value) := by
  unfold processAttribute
  eok using normalizeAttribute_eok, exists_eok, pushNs_eok

theorem processCdata_eok (c : Ctx) (t : Span) (r : Range) : EOk txt (processCdata c t r) := by
  unfold processCdata; eok using appendText_eok

theorem parseNextChunk_eok (ents : List Entity) (s : Stream) :
    EOk txt (parseNextChunk T txt ents s) := by
  unfold parseNextChunk; eok using consumeReference_eok

theorem feed_eok (step : Token → Ctx → Res Ctx) (hstep : ∀ t c, EOk txt (step t c)) :
    ∀ l c, EOk txt (feed step l c) := by
  intro l
  induction l with
  | nil => intro c; unfold feed; eok
  | cons a r ih =>
    intro c; unfold feed
    have h := hstep a c
    split
    · exact ih _
    · rename_i e he; rw [he] at h; exact ⟨fun e' h' => by cases h'; exact h.out e rfl⟩
    · eok
    · eok

theorem runTokens_eok {α} (step : Token → Ctx → Res Ctx) (hstep : ∀ t c, EOk txt (step t c))
    (toks : List Token) (stop : Res α) (hstop : EOk txt stop) (c : Ctx) :
    EOk txt (runTokens step toks stop c) := by
  unfold runTokens
  have h := feed_eok txt step hstep toks c
  split
  · split
    · eok
    · exact ⟨fun e' h' => by cases h'; exact hstop.out _ rfl⟩
    · eok
    · eok
  · exact h

theorem flushBuffer_eok (c : Ctx) (buf : TextBuffer) (r : Range) :
    EOk txt (flushBuffer c buf r) := by
  unfold flushBuffer; eok using bufFinish_eok, appendText_eok

theorem processTextLoop_eok (lower : Token → Ctx → Res Ctx) (hl : ∀ t c, EOk txt (lower t c))
    (range : Range) :
    ∀ fuel s buf c, EOk txt (processTextLoop T txt lower range fuel s buf c) := by
  intro fuel
  induction fuel with
  | zero => intro s buf c; unfold processTextLoop; eok
  | succ n ih =>
    intro s buf c; unfold processTextLoop
    eok using ih, parseNextChunk_eok, flushBuffer_eok, (runTokens_eok txt lower hl)
    all_goals exact stop_eok (by assumption)

theorem processText_eok (lower : Token → Ctx → Res Ctx) (hl : ∀ t c, EOk txt (lower t c))
    (c : Ctx) (t : Span) (r : Range) : EOk txt (processText T txt lower c t r) := by
  unfold processText
  eok using appendText_eok, (processTextLoop_eok T txt lower hl), flushBuffer_eok

theorem tokenStep_eok (lower : Token → Ctx → Res Ctx) (hl : ∀ t c, EOk txt (lower t c))
    (t : Token) (c : Ctx) : EOk txt (tokenStep T txt lower t c) := by
  unfold tokenStep
  eok using resetAfterText_eok, appendNode_eok, processAttribute_eok, processElement_eok,
    (processText_eok T txt lower hl), processCdata_eok

theorem token_eok : ∀ d t c, EOk txt (token T txt d t c) := by
  intro d
  induction d with
  | zero => intro t c; unfold token; eok
  | succ n ih => intro t c; unfold token; exact tokenStep_eok T txt _ ih t c

/-! ### `Rox.Parse` -/

theorem initCtx_eok (opt : Opt) : EOk txt (initCtx txt opt) := by
  unfold initCtx; eok using pushNs_eok

theorem rootHasElement_eok (d : Doc) : EOk txt (rootHasElement d) := by
  unfold rootHasElement; eok using children_eok, childrenList_eok, findElement_eok

theorem finish_eok (c : Ctx) : EOk txt (finish c) := by
  unfold finish; eok using rootHasElement_eok

theorem parseCtx_eok (d : Nat) (opt : Opt) : EOk txt (parseCtx T txt d opt) := by
  unfold parseCtx
  eok using initCtx_eok, finish_eok,
    (runTokens_eok txt _ (token_eok T txt d) _ _ (tokenize_eok T txt _))

theorem parse_eok (opt : Opt) : EOk txt (parse T txt opt) := by
  unfold parse; eok using parseCtx_eok

end

end ErrPos

/-- **Every error position comes from the input** (all inputs, all options). -/
theorem parse_error_position (T : Tables) (txt : Bytes) (opt : Opt) (e : Err)
    (h : parse T txt opt = .err e) : ErrPosOk txt e :=
  (ErrPos.parse_eok T txt opt).out e h

/-- … and is therefore in bounds: `1 ≤ row ≤ number of lines` and `1 ≤ col`. -/
theorem parse_error_position_in_bounds (T : Tables) (txt : Bytes) (opt : Opt) (e : Err)
    (h : parse T txt opt = .err e) :
    1 ≤ e.pos.row ∧ e.pos.row ≤ Rox.Props.C14.lineCount txt ∧ 1 ≤ e.pos.col := by
  rcases parse_error_position T txt opt e h with h1 | ⟨q, _, h1⟩
  · rw [h1]
    refine ⟨Nat.le_refl _, ?_, Nat.le_refl _⟩
    show 1 ≤ Rox.Props.C14.lineCount txt
    unfold Rox.Props.C14.lineCount; omega
  · rw [h1]
    exact ⟨(Rox.Props.C14.row_in_bounds txt q).1, (Rox.Props.C14.row_in_bounds txt q).2,
      Rox.Props.C14.col_ge_one txt q⟩

end Rox.Lemmas
