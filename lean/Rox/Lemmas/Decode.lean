/-
  Rox.Lemmas.Decode — C04 / C05 end to end for runs without general-entity references: what
  `process_text` appends and what `normalize_attribute` returns is exactly the XML 1.0 decoding of
  the source run (`Rox.Spec.Text`: literal runs §2.11-normalised resp. §3.3.3-normalised,
  referenced characters kept as they are).
-/
import Rox.Props.C04
import Rox.Props.C05
import Rox.Lemmas.RefSpec

namespace Rox.Lemmas
open Rox Rox.Spec Rox.Props.C04

section
variable (T : Tables) (txt : Bytes)

/-- The pieces of a run as written in the source, starting at cursor `s`: maximal literal runs
(up to the next `&`) and the characters denoted by character references / predefined entity
references. `none` when the run contains a general entity reference or a malformed reference. -/
def runPieces : Nat → Stream → Option (List Piece)
  | 0, _ => none
  | fuel+1, s =>
    match s.rest with
    | [] => some []
    | c :: _ =>
      if c == bAmp then
        match s.consumeReference T txt with
        | .ok (s', some (.char ch)) => (runPieces fuel s').map (Piece.raw (encodeChar ch) :: ·)
        | _ => none
      else
        let lit := s.rest.takeWhile (· != bAmp)
        (runPieces fuel ⟨s.pos + lit.length, s.rest.drop lit.length⟩).map (Piece.lit lit :: ·)

/-- **C04, end to end at entity depth 0**: if `process_text` succeeds on a text token whose run
consists of literal characters, character references and predefined entity references, then what
it did is `append_text` of exactly the XML-defined decoding of the run (or nothing, when the
decoding is empty) — for every adjacency of CR, LF and references. -/
theorem processText_decodes (lower : Token → Ctx → Res Ctx) (c c' : Ctx) (text : Span) (range : Range)
    (hr : range = (text.off, text.off + text.bytes.length))
    (hs : text.bytes = sliceBytes txt text.off (text.off + text.bytes.length))
    (hd : c.ld.depth = 0) (ps : List Piece)
    (hp : runPieces T txt (text.bytes.length + 1) ⟨text.off, text.bytes⟩ = some ps)
    (hamp : text.bytes.any (fun b => b == bAmp || b == bCR) = true)
    (h : processText T txt lower c text range = .ok c') :
    Alternating ps ∧
    (if decodePieces ps = [] then c' = c
     else c.appendText (.owned (decodePieces ps)) range = .ok c') := by
  sorry

/-- The §3.3.3 normalisation of a run of pieces: literal white space becomes a space (CR LF one
space), referenced characters are kept. -/
def attrDecode : List Piece → Bytes
  | [] => []
  | .lit b :: r => attrLit b ++ attrDecode r
  | .raw b :: r => b ++ attrDecode r

/-- **C05, end to end at entity depth 0**: if `normalize_attribute` succeeds on a value that needs
normalisation and whose run consists of literal characters, character references and predefined
entity references, the value it returns is owned and is exactly the §3.3.3 normalisation; the loop
detector is untouched. -/
theorem normalizeAttribute_decodes (c c' : Ctx) (value : Span) (out : Str)
    (hd : c.ld.depth = 0) (ps : List Piece)
    (hp : runPieces T txt (value.bytes.length + 1) ⟨value.off, value.bytes⟩ = some ps)
    (hneed : value.bytes.any (fun b => b == bAmp || b == bTab || b == bLF || b == bCR) = true)
    (h : normalizeAttribute T txt c value = .ok (c', out)) :
    out = .owned (attrDecode ps) ∧ c'.ld = c.ld := by
  sorry

end
end Rox.Lemmas
