/-
  Rox.Lemmas.Decode — C04 / C05 end to end for runs without general-entity references: what
  `process_text` appends and what `normalize_attribute` returns is exactly the XML 1.0 decoding of
  the source run (`Rox.Spec.Text`: literal runs §2.11-normalised resp. §3.3.3-normalised,
  referenced characters kept as they are).
-/
import Rox.Props.C04Base
import Rox.Props.C05Base
import Rox.Lemmas.RefSpec

namespace Rox.Lemmas
open Rox Rox.Spec Rox.Props.C04

section
variable (T : Tables) (txt : Bytes)

/-- The pieces of a run as written in the source, starting at cursor `s`: maximal literal runs
(up to the next `&`) and the characters denoted by character references / predefined entity
references. `none` when the run contains a general entity reference or a malformed reference. -/
def runPieces : Nat → Stream → Option (List Piece)
  | 0, _ => none
  | fuel+1, s =>
    match s.rest with
    | [] => some []
    | c :: _ =>
      if c == bAmp then
        match s.consumeReference T txt with
        | .ok (s', some (.char ch)) => (runPieces fuel s').map (Piece.raw (encodeChar ch) :: ·)
        | _ => none
      else
        let lit := s.rest.takeWhile (· != bAmp)
        (runPieces fuel ⟨s.pos + lit.length, s.rest.drop lit.length⟩).map (Piece.lit lit :: ·)

/-! ### Splitting a stream at the next `&` -/

theorem tw_split (l : Bytes) :
    ∃ rest', l = l.takeWhile (· != bAmp) ++ rest' ∧
      l.drop (l.takeWhile (· != bAmp)).length = rest' ∧
      (rest' = [] ∨ ∃ r, rest' = bAmp :: r) ∧
      ∀ x ∈ l.takeWhile (· != bAmp), x ≠ bAmp := by
  induction l with
  | nil => exact ⟨[], by simp⟩
  | cons a l ih =>
    obtain ⟨rest', h1, h2, h3, h4⟩ := ih
    by_cases ha : a = bAmp
    · subst ha
      exact ⟨bAmp :: l, by simp⟩
    · have htw : (a :: l).takeWhile (· != bAmp) = a :: l.takeWhile (· != bAmp) := by
        simp [ha]
      refine ⟨rest', ?_, ?_, h3, ?_⟩
      · rw [htw]; simp [← h1]
      · rw [htw]; simpa using h2
      · rw [htw]
        intro x hx
        rcases List.mem_cons.1 hx with rfl | hx
        · exact ha
        · exact h4 x hx

theorem encodeChar_ne_nil (ch : Nat) : encodeChar ch ≠ [] := by
  unfold encodeChar
  repeat' split
  all_goals simp

/-- The pieces of a run are maximal literal runs separated by non-empty referenced pieces. -/
theorem runPieces_alternating : ∀ (fuel : Nat) (s : Stream) (ps : List Piece),
    runPieces T txt fuel s = some ps →
    Alternating ps ∧ ((s.rest = [] ∨ ∃ r, s.rest = bAmp :: r) → startsWithLit ps = false) := by
  intro fuel
  induction fuel with
  | zero => intro s ps h; simp [runPieces] at h
  | succ fuel ih =>
    intro s ps h
    obtain ⟨pos, rest⟩ := s
    rw [runPieces] at h
    split at h
    · simp at h; subst h; simp [Alternating, startsWithLit]
    · rename_i c0 r hrest
      simp only at hrest
      split at h
      · rename_i hc
        split at h
        · rename_i s' ch hcr
          simp only [Option.map_eq_some_iff] at h
          obtain ⟨ps', hps', rfl⟩ := h
          have := ih s' ps' hps'
          exact ⟨⟨encodeChar_ne_nil ch, this.1⟩, fun _ => rfl⟩
        · simp at h
      · rename_i hc
        simp only [Option.map_eq_some_iff] at h
        obtain ⟨ps', hps', rfl⟩ := h
        obtain ⟨rest', h1, h2, h3, h4⟩ := tw_split rest
        rw [h2] at hps'
        have := ih _ ps' hps'
        have hs := this.2 h3
        refine ⟨?_, ?_⟩
        · cases ps' with
          | nil => simp [Alternating]
          | cons q r' =>
            cases q with
            | lit _ => simp [startsWithLit] at hs
            | raw l' => simpa [Alternating] using this.1
        · intro hh
          rcases hh with hh | ⟨r', hh⟩
          · rw [hrest] at hh; simp at hh
          · rw [hrest] at hh; simp at hh; exact absurd hh.1 (by simpa using hc)

/-! ### The chunk loop of `process_text` -/

/-- A literal run goes through `push_from_text` byte by byte. -/
theorem processTextLoop_lit (lower : Token → Ctx → Res Ctx) (range : Range) (c : Ctx)
    (rest' : Bytes) (res : TextBuffer × Ctx) (lit : Bytes) :
    ∀ (fuel' pos : Nat) (buf : TextBuffer), (∀ x ∈ lit, x ≠ bAmp) →
      processTextLoop T txt lower range fuel' ⟨pos, lit ++ rest'⟩ buf c = .ok res →
      ∃ fuel'', processTextLoop T txt lower range fuel'' ⟨pos + lit.length, rest'⟩
        (buf.pushBytesText lit) c = .ok res := by
  induction lit with
  | nil => intro fuel' pos buf _ h; exact ⟨fuel', by simpa [TextBuffer.pushBytesText] using h⟩
  | cons x lit ih =>
    intro fuel' pos buf hall h
    cases fuel' with
    | zero => simp [processTextLoop] at h
    | succ f =>
      have hx : (x == bAmp) = false := by simpa using hall x (by simp)
      rw [processTextLoop] at h
      simp only [Stream.atEnd, List.cons_append, List.isEmpty_cons, Bool.false_eq_true, if_false,
        parseNextChunk, hx, Res.bind_ok] at h
      obtain ⟨fuel'', h'⟩ := ih f (pos + 1) (buf.pushFromText x) (fun y hy => hall y (by simp [hy])) h
      refine ⟨fuel'', ?_⟩
      have : pos + (x :: lit).length = pos + 1 + lit.length := by simp; omega
      rw [this]
      simpa [TextBuffer.pushBytesText] using h'

/-- The chunk loop on a run of literals, character references and predefined entity references at
depth 0: if it succeeds, it has pushed exactly the pieces and left the context alone. -/
theorem processTextLoop_pieces (lower : Token → Ctx → Res Ctx) (range : Range) (c : Ctx)
    (hd : c.ld.depth = 0) (res : TextBuffer × Ctx) :
    ∀ (fuel : Nat) (s : Stream) (ps : List Piece), runPieces T txt fuel s = some ps →
      ∀ (fuel' : Nat) (buf : TextBuffer),
        processTextLoop T txt lower range fuel' s buf c = .ok res → res = (pushPieces buf ps, c) := by
  intro fuel
  induction fuel with
  | zero => intro s ps h; simp [runPieces] at h
  | succ fuel ih =>
    intro s ps h fuel' buf hl
    obtain ⟨pos, rest⟩ := s
    rw [runPieces] at h
    split at h
    · rename_i hrest
      simp only at hrest
      subst hrest
      simp at h; subst h
      cases fuel' with
      | zero => simp [processTextLoop] at hl
      | succ f =>
        rw [processTextLoop] at hl
        simp [Stream.atEnd] at hl
        simp [pushPieces, ← hl]
    · rename_i c0 r hrest
      simp only at hrest
      subst hrest
      split at h
      · rename_i hc
        split at h
        · rename_i s' ch hcr
          simp only [Option.map_eq_some_iff] at h
          obtain ⟨ps', hps', rfl⟩ := h
          cases fuel' with
          | zero => simp [processTextLoop] at hl
          | succ f =>
            rw [processTextLoop] at hl
            simp only [Stream.atEnd, List.isEmpty_cons, Bool.false_eq_true, if_false,
              parseNextChunk, hc, if_true, hcr, Res.bind_ok, Res.pure_eq, hd,
              Nat.lt_irrefl, gt_iff_lt] at hl
            have := ih s' ps' hps' f _ hl
            simpa [pushPieces] using this
        · simp at h
      · rename_i hc
        simp only [Option.map_eq_some_iff] at h
        obtain ⟨ps', hps', rfl⟩ := h
        obtain ⟨rest', h1, h2, h3, h4⟩ := tw_split (c0 :: r)
        rw [h2] at hps'
        rw [h1] at hl
        obtain ⟨fuel'', hl'⟩ := processTextLoop_lit T txt lower range c rest' res _ fuel' pos buf h4 hl
        have := ih _ ps' hps' fuel'' _ hl'
        simpa [pushPieces] using this

/-- **C04, end to end at entity depth 0**: if `process_text` succeeds on a text token whose run
consists of literal characters, character references and predefined entity references, then what
it did is `append_text` of exactly the XML-defined decoding of the run (or nothing, when the
decoding is empty) — for every adjacency of CR, LF and references. -/
theorem processText_decodes (lower : Token → Ctx → Res Ctx) (c c' : Ctx) (text : Span) (range : Range)
    (hr : range = (text.off, text.off + text.bytes.length))
    (hs : text.bytes = sliceBytes txt text.off (text.off + text.bytes.length))
    (hd : c.ld.depth = 0) (ps : List Piece)
    (hp : runPieces T txt (text.bytes.length + 1) ⟨text.off, text.bytes⟩ = some ps)
    (hamp : text.bytes.any (fun b => b == bAmp || b == bCR) = true)
    (h : processText T txt lower c text range = .ok c') :
    Alternating ps ∧
    (if decodePieces ps = [] then c' = c
     else c.appendText (.owned (decodePieces ps)) range = .ok c') := by
  have halt := (runPieces_alternating T txt _ _ _ hp).1
  refine ⟨halt, ?_⟩
  have hdec := decode_pieces ps halt
  unfold processText at h
  simp only [hamp, Bool.not_true, Bool.false_eq_true, if_false] at h
  have hstream : Stream.ofRange txt range.1 range.2 = ⟨text.off, text.bytes⟩ := by
    rw [hr]; simp only [Stream.ofRange]; rw [← hs]
  rw [hstream] at h
  rw [Res.bind_eq_ok] at h
  obtain ⟨⟨buf, c1⟩, hloop, hflush⟩ := h
  have hres := processTextLoop_pieces T txt lower range c hd _ _ _ _ hp _ _ hloop
  simp only [Prod.mk.injEq] at hres
  obtain ⟨rfl, rfl⟩ := hres
  simp only at hflush
  unfold flushBuffer at hflush
  split at hflush
  · rename_i hne
    rw [Res.bind_eq_ok] at hflush
    obtain ⟨o, hfin, happ⟩ := hflush
    have ho := finish_content _ _ hfin
    rw [hdec] at ho
    subst ho
    have hnil : decodePieces ps ≠ [] := by
      rw [← hdec]
      simp only [TextBuffer.isEmpty, Bool.not_eq_true', List.isEmpty_eq_false_iff] at hne
      unfold content TextBuffer.resolvePendingCr
      split
      · split
        · simp
        · rename_i h0; exact absurd h0 hne
      · simpa using hne
    simp only [hnil, if_false]
    exact happ
  · rename_i he
    simp only [TextBuffer.isEmpty, Bool.not_eq_true', Bool.not_eq_false, List.isEmpty_iff] at he
    have hnil : decodePieces ps = [] := by
      rw [← hdec]
      unfold content TextBuffer.resolvePendingCr
      rw [he]
      split <;> simp [he]
    simp only [hnil, if_true]
    simpa using hflush.symm

/-- The §3.3.3 normalisation of a run of pieces: literal white space becomes a space (CR LF one
space), referenced characters are kept. -/
def attrDecode : List Piece → Bytes
  | [] => []
  | .lit b :: r => attrLit b ++ attrDecode r
  | .raw b :: r => b ++ attrDecode r

/-! ### The byte loop of `_normalize_attribute` -/

theorem pushFromAttr_amp (b : TextBuffer) (x : UInt8) :
    b.pushFromAttr x (some bAmp) = b.pushFromAttr x none := by
  have : (some bAmp == some bLF) = false := by decide
  simp [TextBuffer.pushFromAttr, this]

theorem pushFromAttr_pending (b : TextBuffer) (x : UInt8) (n : Option UInt8) :
    (b.pushFromAttr x n).pendingCr = b.pendingCr := by
  unfold TextBuffer.pushFromAttr; split <;> rfl

theorem pushLit_pending (l : Bytes) : ∀ b : TextBuffer,
    (Props.C05.pushLit b l).pendingCr = b.pendingCr := by
  induction l with
  | nil => intro b; rfl
  | cons x l ih => intro b; simp only [Props.C05.pushLit]; rw [ih, pushFromAttr_pending]

theorem pushBytesRaw_pending (l : Bytes) : ∀ b : TextBuffer, b.pendingCr = false →
    (b.pushBytesRaw l).pendingCr = false := by
  induction l with
  | nil => intro b hb; simpa [TextBuffer.pushBytesRaw] using hb
  | cons x l ih =>
    intro b hb
    have h1 : (b.pushRaw x).pendingCr = false := by
      simp [TextBuffer.pushRaw, TextBuffer.resolvePendingCr, hb]
    have := ih _ h1
    simpa [TextBuffer.pushBytesRaw] using this

/-- A literal run goes through `push_from_attr` with one byte of look-ahead. -/
theorem normAttrLoop_lit (ents : List Entity)
    (rec : Span → TextBuffer → LD → List Ev → Res (TextBuffer × LD × List Ev)) (ld : LD)
    (tr : List Ev) (rest' : Bytes) (hrest : rest' = [] ∨ ∃ r, rest' = bAmp :: r)
    (res : TextBuffer × LD × List Ev) (lit : Bytes) :
    ∀ (fuel' pos : Nat) (buf : TextBuffer), (∀ x ∈ lit, x ≠ bAmp) →
      normAttrLoop T txt ents rec fuel' ⟨pos, lit ++ rest'⟩ buf ld tr = .ok res →
      ∃ fuel'', normAttrLoop T txt ents rec fuel'' ⟨pos + lit.length, rest'⟩
        (Props.C05.pushLit buf lit) ld tr = .ok res := by
  induction lit with
  | nil => intro fuel' pos buf _ h; exact ⟨fuel', by simpa [Props.C05.pushLit] using h⟩
  | cons x lit ih =>
    intro fuel' pos buf hall h
    cases fuel' with
    | zero => simp [normAttrLoop] at h
    | succ f =>
      have hx : (x != bAmp) = true := by simpa using hall x (by simp)
      rw [normAttrLoop] at h
      simp only [List.cons_append, hx, if_true] at h
      split at h
      · exact absurd h (errAt_ne_ok _ _ _ _)
      · have hhead : buf.pushFromAttr x (Stream.mk (pos + 1) (lit ++ rest')).currByte? =
            buf.pushFromAttr x lit.head? := by
          cases lit with
          | cons y l' => simp [Stream.currByte?]
          | nil =>
            rcases hrest with rfl | ⟨r, rfl⟩
            · simp [Stream.currByte?]
            · simp [Stream.currByte?, pushFromAttr_amp]
        rw [hhead] at h
        obtain ⟨fuel'', h'⟩ := ih f (pos + 1) _ (fun y hy => hall y (by simp [hy])) h
        refine ⟨fuel'', ?_⟩
        have : pos + (x :: lit).length = pos + 1 + lit.length := by simp; omega
        rw [this]
        simpa [Props.C05.pushLit] using h'

/-- The byte loop on a run of literals, character references and predefined entity references at
depth 0: if it succeeds, the buffer holds the §3.3.3 normalisation of the pieces; the loop
detector and the trace are returned as they were. -/
theorem normAttrLoop_pieces (ents : List Entity)
    (rec : Span → TextBuffer → LD → List Ev → Res (TextBuffer × LD × List Ev)) (ld : LD)
    (hd : ld.depth = 0) (tr : List Ev) (res : TextBuffer × LD × List Ev) :
    ∀ (fuel : Nat) (s : Stream) (ps : List Piece), runPieces T txt fuel s = some ps →
      ∀ (fuel' : Nat) (buf : TextBuffer), buf.pendingCr = false →
        normAttrLoop T txt ents rec fuel' s buf ld tr = .ok res →
        ∃ b', res = (b', ld, tr) ∧ b'.pendingCr = false ∧
          Props.C05.out b' = Props.C05.out buf ++ attrDecode ps := by
  intro fuel
  induction fuel with
  | zero => intro s ps h; simp [runPieces] at h
  | succ fuel ih =>
    intro s ps h fuel' buf hb hl
    obtain ⟨pos, rest⟩ := s
    rw [runPieces] at h
    split at h
    · rename_i hrest
      simp only at hrest
      subst hrest
      simp at h; subst h
      cases fuel' with
      | zero => simp [normAttrLoop] at hl
      | succ f =>
        rw [normAttrLoop] at hl
        simp only [Res.ok.injEq] at hl
        exact ⟨buf, hl.symm, hb, by simp [attrDecode]⟩
    · rename_i c0 r hrest
      simp only at hrest
      subst hrest
      split at h
      · rename_i hc
        split at h
        · rename_i s' ch hcr
          simp only [Option.map_eq_some_iff] at h
          obtain ⟨ps', hps', rfl⟩ := h
          cases fuel' with
          | zero => simp [normAttrLoop] at hl
          | succ f =>
            rw [normAttrLoop] at hl
            have hc' : (c0 != bAmp) = false := by simp [bne, hc]
            simp only [hc', Bool.false_eq_true, if_false, hcr, Res.bind_ok, hd,
              Nat.lt_irrefl, gt_iff_lt] at hl
            obtain ⟨b', h1, h2, h3⟩ := ih s' ps' hps' f _ (pushBytesRaw_pending _ _ hb) hl
            refine ⟨b', h1, h2, ?_⟩
            rw [h3, Props.C05.charref_kept _ _ hb]
            simp [attrDecode]
        · simp at h
      · rename_i hc
        simp only [Option.map_eq_some_iff] at h
        obtain ⟨ps', hps', rfl⟩ := h
        obtain ⟨rest', h1, h2, h3, h4⟩ := tw_split (c0 :: r)
        rw [h2] at hps'
        rw [h1] at hl
        obtain ⟨fuel'', hl'⟩ :=
          normAttrLoop_lit T txt ents rec ld tr rest' h3 res _ fuel' pos buf h4 hl
        obtain ⟨b', e1, e2, e3⟩ := ih _ ps' hps' fuel'' _ (by rw [pushLit_pending]; exact hb) hl'
        refine ⟨b', e1, e2, ?_⟩
        rw [e3, Props.C05.pushLit_spec]
        simp [attrDecode]

/-- **C05, end to end at entity depth 0**: if `normalize_attribute` succeeds on a value that needs
normalisation and whose run consists of literal characters, character references and predefined
entity references, the value it returns is owned and is exactly the §3.3.3 normalisation; the loop
detector is untouched. -/
theorem normalizeAttribute_decodes (c c' : Ctx) (value : Span) (out : Str)
    (hd : c.ld.depth = 0) (ps : List Piece)
    (hp : runPieces T txt (value.bytes.length + 1) ⟨value.off, value.bytes⟩ = some ps)
    (hneed : value.bytes.any (fun b => b == bAmp || b == bTab || b == bLF || b == bCR) = true)
    (h : normalizeAttribute T txt c value = .ok (c', out)) :
    out = .owned (attrDecode ps) ∧ c'.ld = c.ld := by
  unfold normalizeAttribute at h
  simp only [hneed, if_true] at h
  rw [Res.bind_eq_ok] at h
  obtain ⟨⟨buf, ld, tr⟩, hrec, h⟩ := h
  rw [Res.bind_eq_ok] at h
  obtain ⟨o, hfin, h⟩ := h
  res_norm at h
  obtain ⟨rfl, rfl⟩ := h
  have hdf : depthFuel = 11 + 1 := rfl
  rw [hdf, normAttrRec] at hrec
  obtain ⟨b', e1, e2, e3⟩ :=
    normAttrLoop_pieces T txt c.entities _ c.ld hd c.trace _ _ _ _ hp _ {} rfl hrec
  simp only [Prod.mk.injEq] at e1
  obtain ⟨rfl, rfl, rfl⟩ := e1
  have ho := finish_content _ _ hfin
  have hc : content buf = Props.C05.out buf := by
    simp [content, TextBuffer.resolvePendingCr, e2, Props.C05.out]
  rw [hc, e3] at ho
  subst ho
  simp [Props.C05.out]

end
end Rox.Lemmas
