/-
  Rox.Lemmas.RoundTrip3 — C07: content routed through an entity parses to the tree of the inline
  document.
-/
import Rox.Lemmas.RtTok3
import Rox.Lemmas.RtBuild3
import Rox.Lemmas.RoundTrip

namespace Rox.Lemmas
open Rox Rox.Spec.Canon

/-- the reference `&e;` stands in the hoisted text at its computed offset -/
theorem hoist_ref_slice (n : Bytes) (as : List (Bytes × Bytes)) (pre mid post : List XNode) :
    sliceBytes (hoist n as pre mid post) (refOff n as pre mid) (refOff n as pre mid + 3) = litRef := by
  unfold sliceBytes hoist refOff rootOff
  have e : (hoistProlog n mid ++ ([60] ++ n ++ renderAttrs as ++ [62] ++ renderAll pre ++ litRef ++
      renderAll post ++ [60, 47] ++ n ++ [62])) =
      (hoistProlog n mid ++ [60] ++ n ++ renderAttrs as ++ [62] ++ renderAll pre) ++
        (litRef ++ (renderAll post ++ [60, 47] ++ n ++ [62])) := by
    simp only [List.append_assoc]
  rw [e]
  have hl : (hoistProlog n mid ++ [60] ++ n ++ renderAttrs as ++ [62] ++ renderAll pre).length =
      (hoistProlog n mid).length + 1 + n.length + attrsLen as + 1 + (renderAll pre).length := by
    have ha : ∀ l : List (Bytes × Bytes), (renderAttrs l).length = attrsLen l := by
      intro l
      induction l with
      | nil => rfl
      | cons a r ih =>
        obtain ⟨x, y⟩ := a
        simp only [renderAttrs, attrsLen, List.length_append, List.length_cons, List.length_nil, ih]
        try omega
    simp only [List.length_append, List.length_cons, List.length_nil, ha]
  rw [← hl, List.drop_left]
  have h3 : ∀ L : Nat, L + 3 - L = 3 := by intro L; omega
  rw [h3]
  rfl

/-- **An entity reference is equivalent to its replacement text written in place** (every abstract
document `<n as>pre mid post</n>` of the class `ok`, any shape; `mid` any run of children without an
apostrophe, the reference standing between markup): the document with `mid` moved into the
replacement text of an entity declared in the internal subset and referenced in place of `mid`
parses (with `allow_dtd = true`) to exactly the tree of the inline document. -/
theorem parse_hoist (T : Tables) (hT : TablesOK T) (hC : TablesCanon T) (hC3 : TablesCanon3 T)
    (opt : Opt) (hdtd : opt.allowDtd = true)
    (n : Bytes) (as : List (Bytes × Bytes)) (pre mid post : List XNode)
    (hx : hoistOk n as pre mid post = true)
    (hlim : count (.elem n as (pre ++ mid ++ post)) + 1 ≤ opt.nodesLimit)
    (hl32 : opt.nodesLimit ≤ 4294967295)
    (hattrs : attrCount (.elem n as (pre ++ mid ++ post)) < 4294967295) :
    ∃ d, parse T (hoist n as pre mid post) opt = .ok d ∧
      d.nodes.toList.map (view d) =
        some (none, XKind.root) :: (expect 0 1 (.elem n as (pre ++ mid ++ post))).map some :=
  parse_of_hoistToks T hC hC3 (hoist n as pre mid post) opt hdtd n as pre mid post hx
    (tokenize_hoist T hT hC hC3 n as pre mid post hx)
    (tokenizeContent_hoist T hT hC hC3 n as pre mid post hx)
    (hoist_ref_slice n as pre mid post) hlim hl32 hattrs

end Rox.Lemmas
