/-
  Rox.Lemmas.Arena — what `append_node` does to the arena, field by field.
-/
import Rox.Lemmas.Size

namespace Rox.Lemmas
open Rox

/-- `setNextSubtree` rewrites exactly the `next_subtree` of the listed nodes. -/
theorem setNextSubtree_spec (new : Nat) : ∀ (l : List Nat) (b b' : Array NodeData),
    Ctx.setNextSubtree b new l = .ok b' →
    b'.size = b.size ∧ (∀ x ∈ l, x < b.size) ∧
    ∀ i, b'[i]? = (b[i]?).map fun m => if i ∈ l then { m with nextSubtree := some new } else m := by
  intro l
  induction l with
  | nil =>
    intro b b' h
    simp only [Ctx.setNextSubtree, Res.ok.injEq] at h
    subst h
    refine ⟨rfl, by simp, fun i => ?_⟩
    cases b[i]? <;> simp
  | cons x xs ih =>
    intro b b' h
    simp only [Ctx.setNextSubtree] at h
    split at h
    · simp at h
    · rename_i n hn
      obtain ⟨hs, hlt, hget⟩ := ih _ _ h
      have hx : x < b.size := by
        have := Array.getElem?_eq_some_iff.mp hn; exact this.1
      refine ⟨by simpa using hs, ?_, ?_⟩
      · intro y hy
        rcases List.mem_cons.mp hy with rfl | hy
        · exact hx
        · have := hlt y hy; simpa using this
      · intro i
        rw [hget i]
        by_cases hix : i = x
        · subst hix
          simp only [Array.getElem?_setIfInBounds, hx, if_true, List.mem_cons, true_or]
          rw [hn]
          simp only [Option.map_some]
          split <;> rfl
        · have : ¬ x = i := fun h => hix h.symm
          simp only [Array.getElem?_setIfInBounds, this, if_false, List.mem_cons, hix, false_or]

/-- The arena after `append_node`, node by node (the current parent and the awaiting nodes must
be nodes of the arena, which the builder invariant guarantees). -/
theorem appendNode_spec (c c' : Ctx) (k : Kind) (r : Range) (id : Nat)
    (hpid : c.parentId < c.doc.nodes.size) (haw : ∀ x ∈ c.awaiting, x < c.doc.nodes.size)
    (h : c.appendNode k r = .ok (c', id)) :
    id = c.doc.nodes.size ∧ c'.doc.nodes.size = c.doc.nodes.size + 1 ∧
    (∀ i, i < c.doc.nodes.size → c'.doc.nodes[i]? = (c.doc.nodes[i]?).map fun m =>
        { m with lastChild := (if i = c.parentId then some c.doc.nodes.size else m.lastChild),
                 nextSubtree := (if i ∈ c.awaiting then some c.doc.nodes.size else m.nextSubtree) }) ∧
    (∃ p, c.doc.nodes[c.parentId]? = some p ∧
      c'.doc.nodes[c.doc.nodes.size]? = some (NodeData.mk (some c.parentId) p.lastChild none none k
                                (if c.positions then r else (0, 0)))) ∧
    c'.awaiting = (if k.isElement then [] else [c.doc.nodes.size]) ∧
    c'.parentId = c.parentId ∧ c'.afterText = c.afterText ∧ c'.parentPrefixes = c.parentPrefixes ∧
    c'.doc.attrs = c.doc.attrs ∧ c'.doc.ns = c.doc.ns ∧ c'.entityFloor = c.entityFloor ∧
    c'.positions = c.positions ∧ c'.nodesLimit = c.nodesLimit := by
  unfold Ctx.appendNode at h
  split at h
  · simp at h
  · rw [Res.bind_eq_ok] at h
    obtain ⟨nid, hid, h⟩ := h
    unfold Api.nodeIdNew at hid
    split at hid <;> simp at hid
    subst hid
    try dsimp only at h
    have hne : c.parentId ≠ c.doc.nodes.size := by omega
    have hp : c.doc.nodes[c.parentId]? = some c.doc.nodes[c.parentId] := by simp [hpid]
    split at h
    · simp at h
    · rename_i p0 hp0
      have hp0' : p0 = c.doc.nodes[c.parentId] := by
        rw [Array.getElem?_push] at hp0
        simp only [hne, if_false, hp, Option.some.injEq] at hp0
        exact hp0.symm
      subst hp0'
      split at h
      · simp at h
      · rename_i n0 hn0
        have hn0' : n0 = NodeData.mk (some c.parentId) none none none k (if c.positions then r else (0, 0)) := by
          rw [Array.getElem?_push] at hn0
          simp at hn0
          exact hn0.symm
        subst hn0'
        split at h
        · simp at h
        · rename_i p1 hp1
          have hp1' : p1 = c.doc.nodes[c.parentId] := by
            rw [Array.getElem?_setIfInBounds] at hp1
            simp only [hne.symm, if_false] at hp1
            rw [Array.getElem?_push] at hp1
            simp only [hne, if_false, hp, Option.some.injEq] at hp1
            exact hp1.symm
          subst hp1'
          rw [Res.bind_eq_ok] at h
          obtain ⟨nodes', hs, h⟩ := h
          res_norm at h
          obtain ⟨hc, hi⟩ := h
          subst hc
          obtain ⟨hsz, hlt, hget⟩ := setNextSubtree_spec _ _ _ _ hs
          simp only [Array.size_setIfInBounds, Array.size_push] at hsz hlt
          refine ⟨hi.symm, by simpa using hsz, ?_, ?_, rfl, rfl, rfl, rfl, rfl, rfl, rfl, rfl, rfl⟩
          · intro i hi'
            simp only
            rw [hget i]
            have hin : i ≠ c.doc.nodes.size := by omega
            by_cases hip : i = c.parentId
            · subst hip
              simp only [Array.getElem?_setIfInBounds, Array.size_setIfInBounds, Array.size_push, if_true,
                show c.parentId < c.doc.nodes.size + 1 by omega, Option.map_some, hp]
              split <;> simp
            · have h1 : ¬ c.parentId = i := fun h => hip h.symm
              have h2 : ¬ c.doc.nodes.size = i := fun h => hin h.symm
              simp only [Array.getElem?_setIfInBounds, h1, h2, if_false, Array.getElem?_push, hin, hip]
              cases c.doc.nodes[i]? with
              | none => rfl
              | some m => simp only [Option.map_some]; split <;> rfl
          · refine ⟨_, hp, ?_⟩
            simp only
            rw [hget]
            have hnot : c.doc.nodes.size ∉ c.awaiting := fun hm => by have := haw _ hm; omega
            simp [Array.getElem?_setIfInBounds, hne, hnot]

end Rox.Lemmas
