/-
  Rox.Lemmas.MirrorDecode — the decoders of `Rox.Spec.Mirror` (`decodeText`, `decodeAttr`: plain
  functions on the bytes as written) against the builder: without declared entities, at entity
  depth 0, `process_text` appends exactly `decodeText` of the raw character data and
  `normalize_attribute` returns exactly `decodeAttr` of the raw value.
-/
import Rox.Spec.Mirror
import Rox.Lemmas.Decode
import Rox.Lemmas.GrammarRef

namespace Rox.Lemmas
open Rox Rox.Spec Rox.Spec.Grammar Rox.Spec.Mirror Rox.Props.C04

/-! ### The body of a reference: up to the `;` -/

theorem mir_tw_semi (body r : Bytes) (h : ∀ b ∈ body, b ≠ bSemi) :
    (body ++ bSemi :: r).takeWhile (· != bSemi) = body ∧
    (body ++ bSemi :: r).drop (body.length + 1) = r := by
  induction body with
  | nil => simp
  | cons a body ih =>
    have ha : a ≠ bSemi := h a (by simp)
    obtain ⟨i1, i2⟩ := ih (fun b hb => h b (by simp [hb]))
    refine ⟨?_, ?_⟩
    · simp only [List.cons_append]
      rw [List.takeWhile_cons_of_pos (by simp [ha]), i1]
    · simp

theorem mir_dec_ne_semi (ds : Bytes) (h : ∀ d ∈ ds, isDecDigit d = true) : ∀ b ∈ ds, b ≠ bSemi := by
  intro b hb e
  have := h b hb
  rw [e] at this
  revert this; decide

theorem mir_hex_ne_semi (ds : Bytes) (h : ∀ d ∈ ds, isHexDigit d = true) : ∀ b ∈ ds, b ≠ bSemi := by
  intro b hb e
  have := h b hb
  rw [e] at this
  revert this; decide

theorem mir_parseU32_ne_nil (ds : Bytes) (radix n : Nat) (h : parseU32 ds radix = some n) :
    ds ≠ [] := by
  rintro rfl
  simp [parseU32] at h

theorem mir_refBytes_hex (hs : Bytes) : refBytes (35 :: 120 :: hs) = numRef (parseU32 hs 16) := by
  simp [refBytes, Lit.lt, Lit.gt, Lit.amp, Lit.apos, Lit.quot]

theorem mir_refBytes_dec (ds : Bytes) (hne : ds ≠ []) (h : ∀ d ∈ ds, isDecDigit d = true) :
    refBytes (35 :: ds) = numRef (parseU32 ds 10) := by
  cases ds with
  | nil => exact absurd rfl hne
  | cons d ds' =>
    have hd : d ≠ 120 := by
      intro e
      have := h d (by simp)
      rw [e] at this
      revert this; decide
    unfold refBytes
    have e1 : (35 :: d :: ds' : Bytes) ≠ Lit.lt := by simp [Lit.lt]
    have e2 : (35 :: d :: ds' : Bytes) ≠ Lit.gt := by simp [Lit.gt]
    have e3 : (35 :: d :: ds' : Bytes) ≠ Lit.amp := by simp [Lit.amp]
    have e4 : (35 :: d :: ds' : Bytes) ≠ Lit.apos := by simp [Lit.apos]
    have e5 : (35 :: d :: ds' : Bytes) ≠ Lit.quot := by simp [Lit.quot]
    rw [if_neg e1, if_neg e2, if_neg e3, if_neg e4, if_neg e5]
    split
    · rename_i hs e
      simp only [List.cons.injEq, true_and] at e
      exact absurd e.1 hd
    · rename_i ds0 _ e
      simp only [List.cons.injEq, true_and] at e
      rw [← e]
    · rename_i h1 h2
      exact absurd rfl (h2 (d :: ds'))

/-! ### Which character a recognised reference denotes -/

theorem mir_numericRef_dec (T : Tables) (s s' : Stream) (r : Reference)
    (h : s.numericRef T false = (s', some r)) :
    ∃ ds n, (∀ d ∈ ds, isDecDigit d = true) ∧ parseU32 ds 10 = some n ∧
      r = .char (if isScalar n then n else 0xFFFD) ∧
      s.rest = ds ++ bSemi :: s'.rest ∧ s'.pos = s.pos + ds.length + 1 := by
  unfold Stream.numericRef at h
  simp only [Bool.false_eq_true, if_false] at h
  obtain ⟨h1, h2, h3⟩ := gref_consumeBytes s isDecDigit
  revert h1 h2 h3 h
  generalize s.consumeBytes isDecDigit = sv
  intro h h1 h2 h3
  split at h
  · simp at h
  · rename_i n hn
    try dsimp only at h
    by_cases hx : charIsXmlChar T (if isScalar n then n else 0xFFFD) = true
    · rw [hx] at h
      simp only [Bool.not_true, Bool.false_eq_true, if_false] at h
      obtain ⟨e1, e2, e3⟩ := gref_finishRef _ _ _ _ h
      refine ⟨sv.2.bytes, n, h2, hn, e1, ?_, ?_⟩
      · rw [h1, e2]
      · rw [e3, h3]
    · have hx' : charIsXmlChar T (if isScalar n then n else 0xFFFD) = false := by
        simpa using hx
      rw [hx'] at h
      simp at h

theorem mir_numericRef_hex (T : Tables) (s s' : Stream) (r : Reference)
    (h : s.numericRef T true = (s', some r)) :
    ∃ hs n, (∀ d ∈ hs, isHexDigit d = true) ∧ parseU32 hs 16 = some n ∧
      r = .char (if isScalar n then n else 0xFFFD) ∧
      s.rest = hs ++ bSemi :: s'.rest ∧ s'.pos = s.pos + hs.length + 1 := by
  unfold Stream.numericRef at h
  simp only [if_true] at h
  obtain ⟨h1, h2, h3⟩ := gref_consumeBytes s isHexDigit
  revert h1 h2 h3 h
  generalize s.consumeBytes isHexDigit = sv
  intro h h1 h2 h3
  split at h
  · simp at h
  · rename_i n hn
    try dsimp only at h
    by_cases hx : charIsXmlChar T (if isScalar n then n else 0xFFFD) = true
    · rw [hx] at h
      simp only [Bool.not_true, Bool.false_eq_true, if_false] at h
      obtain ⟨e1, e2, e3⟩ := gref_finishRef _ _ _ _ h
      refine ⟨sv.2.bytes, n, h2, hn, e1, ?_, ?_⟩
      · rw [h1, e2]
      · rw [e3, h3]
    · have hx' : charIsXmlChar T (if isScalar n then n else 0xFFFD) = false := by
        simpa using hx
      rw [hx'] at h
      simp at h

theorem mir_namedRef (T : Tables) (txt : Bytes) (s s' : Stream) (ch : Nat)
    (h : s.namedRef T txt = .ok (s', some (.char ch))) :
    ∃ n, (∀ b ∈ n, b ≠ bSemi) ∧ encodeChar ch = refBytes n ∧
      s.rest = n ++ bSemi :: s'.rest ∧ s'.pos = s.pos + n.length + 1 := by
  unfold Stream.namedRef at h
  split at h
  · simp at h
  · simp at h
  · simp at h
  · rename_i s2 name hn
    obtain ⟨hn1, hn2⟩ := gref_consumeName T txt _ _ _ hn
    simp only [Res.ok.injEq] at h
    have hall : ∀ r0 : Reference,
        ((∃ k, r0 = .char k ∧ (∀ b ∈ name.bytes, b ≠ bSemi) ∧
            encodeChar k = refBytes name.bytes) ∨ r0 = .entity name) →
        s2.finishRef r0 = (s', some (.char ch)) →
        ∃ n, (∀ b ∈ n, b ≠ bSemi) ∧ encodeChar ch = refBytes n ∧
          s.rest = n ++ bSemi :: s'.rest ∧ s'.pos = s.pos + n.length + 1 := by
      intro r0 hr0 hf
      obtain ⟨e1, e2, e3⟩ := gref_finishRef _ _ _ _ hf
      rcases hr0 with ⟨k, hk, hp1, hp2⟩ | he
      · rw [hk] at e1
        cases e1
        refine ⟨name.bytes, hp1, hp2, ?_, ?_⟩
        · rw [hn1, e2]
        · rw [e3, hn2]
      · rw [he] at e1; cases e1
    refine hall _ ?_ h
    split
    · rename_i hb; left; rw [eq_of_beq hb]; exact ⟨34, rfl, by decide, by decide⟩
    · split
      · rename_i hb; left; rw [eq_of_beq hb]; exact ⟨38, rfl, by decide, by decide⟩
      · split
        · rename_i hb; left; rw [eq_of_beq hb]; exact ⟨39, rfl, by decide, by decide⟩
        · split
          · rename_i hb; left; rw [eq_of_beq hb]; exact ⟨60, rfl, by decide, by decide⟩
          · split
            · rename_i hb; left; rw [eq_of_beq hb]; exact ⟨62, rfl, by decide, by decide⟩
            · right; rfl

/-- A recognised character reference `&body;`: the character is the one `refBytes body` names, and
exactly `&body;` has been consumed. -/
theorem consumeReference_char (T : Tables) (txt : Bytes) (s s' : Stream) (ch : Nat)
    (h : s.consumeReference T txt = .ok (s', some (.char ch))) :
    ∃ body, (∀ b ∈ body, b ≠ bSemi) ∧ encodeChar ch = refBytes body ∧
      s.rest = bAmp :: (body ++ bSemi :: s'.rest) ∧ s'.pos = s.pos + body.length + 2 := by
  unfold Stream.consumeReference at h
  simp only at h
  split at h
  · simp at h
  · rename_i hp1
    have hp1' : (s.tryConsumeByte bAmp).2 = true := by simpa using hp1
    obtain ⟨a1, a2⟩ := gref_try s bAmp hp1'
    revert a1 a2 h
    generalize (s.tryConsumeByte bAmp).1 = s1
    intro h a1 a2
    split at h
    · rename_i hp2
      obtain ⟨b1, b2⟩ := gref_try s1 bHash hp2
      revert b1 b2 h
      generalize (s1.tryConsumeByte bHash).1 = s2
      intro h b1 b2
      simp only [Res.ok.injEq] at h
      cases hx : (s2.tryConsumeByte bX).2 with
      | true =>
        obtain ⟨c1, c2⟩ := gref_try s2 bX hx
        rw [hx] at h
        obtain ⟨hs, n, d1, d2, d3, d4, d5⟩ := mir_numericRef_hex T _ _ _ h
        cases d3
        refine ⟨bHash :: bX :: hs, ?_, ?_, ?_, ?_⟩
        · intro b hb
          rcases List.mem_cons.1 hb with rfl | hb
          · decide
          · rcases List.mem_cons.1 hb with rfl | hb
            · decide
            · exact mir_hex_ne_semi hs d1 b hb
        · show _ = refBytes (35 :: 120 :: hs)
          rw [mir_refBytes_hex, d2]; rfl
        · rw [a1, b1, c1, d4]; simp
        · rw [d5, c2, b2, a2]; simp only [List.length_cons]; omega
      | false =>
        have c1 := gref_try_false s2 bX hx
        rw [hx, c1] at h
        obtain ⟨ds, n, d1, d2, d3, d4, d5⟩ := mir_numericRef_dec T _ _ _ h
        cases d3
        refine ⟨bHash :: ds, ?_, ?_, ?_, ?_⟩
        · intro b hb
          rcases List.mem_cons.1 hb with rfl | hb
          · decide
          · exact mir_dec_ne_semi ds d1 b hb
        · show _ = refBytes (35 :: ds)
          rw [mir_refBytes_dec ds (mir_parseU32_ne_nil _ _ _ d2) d1, d2]; rfl
        · rw [a1, b1, d4]; simp
        · rw [d5, b2, a2]; simp only [List.length_cons]; omega
    · rename_i hp2
      have hp2' : (s1.tryConsumeByte bHash).2 = false := by simpa using hp2
      rw [gref_try_false s1 bHash hp2'] at h
      obtain ⟨n, d0, d1, d2, d3⟩ := mir_namedRef T txt _ _ _ h
      refine ⟨n, d0, d1, ?_, ?_⟩
      · rw [a1, d2]
      · rw [d3, a2]; omega

/-! ### The pieces of a run against `decodeWith` -/

theorem mir_decodeWith_nil (lit : Bytes → Bytes) (n : Nat) : decodeWith lit n [] = [] := by
  cases n <;> rfl

theorem mir_lineEnds_ne_nil (l : Bytes) (h : l ≠ []) : lineEnds l ≠ [] := by
  cases l with
  | nil => exact absurd rfl h
  | cons a l =>
    unfold lineEnds
    split <;> simp_all

theorem mir_tw_all (l : Bytes) (h : bAmp ∉ l) : l.takeWhile (· != bAmp) = l := by
  induction l with
  | nil => rfl
  | cons a l ih =>
    have ha : a ≠ bAmp := fun e => h (by rw [e]; exact List.mem_cons_self ..)
    rw [List.takeWhile_cons_of_pos (by simp [ha]), ih (fun hm => h (List.mem_cons_of_mem _ hm))]

/-- a run without `&` is one literal part -/
theorem mir_decodeWith_lit (lit : Bytes → Bytes) (hl : lit [] = []) (n : Nat) (l : Bytes)
    (h : bAmp ∉ l) : decodeWith lit (n + 1) l = lit l := by
  cases l with
  | nil => simp [decodeWith, hl]
  | cons b r =>
    have hb : b ≠ bAmp := fun e => h (by rw [e]; exact List.mem_cons_self ..)
    have htw : (b :: r).takeWhile (· != bAmp) = b :: r := mir_tw_all _ h
    rw [decodeWith, if_neg hb]
    simp only [htw, List.drop_length, mir_decodeWith_nil, List.append_nil]

theorem runPieces_decodeWith (T : Tables) (txt : Bytes) : ∀ (fuel : Nat) (s : Stream)
    (ps : List Piece), runPieces T txt fuel s = some ps → ∀ n, s.rest.length < n →
      decodePieces ps = decodeWith lineEnds n s.rest ∧
      attrDecode ps = decodeWith attrLit n s.rest := by
  intro fuel
  induction fuel with
  | zero => intro s ps h; simp [runPieces] at h
  | succ fuel ih =>
    intro s ps h n hn
    obtain ⟨pos, rest⟩ := s
    rw [runPieces] at h
    split at h
    · rename_i hrest
      simp only at hrest
      subst hrest
      simp at h; subst h
      simp [decodePieces, attrDecode, mir_decodeWith_nil]
    · rename_i c0 r hrest
      simp only at hrest
      subst hrest
      cases n with
      | zero => omega
      | succ n =>
        split at h
        · rename_i hc
          have hc' : c0 = bAmp := eq_of_beq hc
          split at h
          · rename_i s' ch hcr
            simp only [Option.map_eq_some_iff] at h
            obtain ⟨ps', hps', rfl⟩ := h
            obtain ⟨body, b1, b2, b3, _⟩ := consumeReference_char T txt _ _ _ hcr
            simp only [List.cons.injEq] at b3
            obtain ⟨_, b3⟩ := b3
            obtain ⟨t1, t2⟩ := mir_tw_semi body s'.rest b1
            have hlen : s'.rest.length < n := by
              have := congrArg List.length b3
              simp only [List.length_append, List.length_cons] at this hn
              omega
            obtain ⟨i1, i2⟩ := ih s' ps' hps' n hlen
            simp only [decodePieces, attrDecode, i1, i2]
            rw [decodeWith, if_pos hc', decodeWith, if_pos hc']
            simp only [b3, t1, t2, b2]
            exact ⟨trivial, trivial⟩
          · simp at h
        · rename_i hc
          have hc' : c0 ≠ bAmp := fun e => hc (by rw [e]; rfl)
          simp only [Option.map_eq_some_iff] at h
          obtain ⟨ps', hps', rfl⟩ := h
          have hlit : (c0 :: r).takeWhile (· != bAmp) = c0 :: r.takeWhile (· != bAmp) := by
            simp [hc']
          have hlen : ((c0 :: r).drop ((c0 :: r).takeWhile (· != bAmp)).length).length < n := by
            rw [hlit]
            simp only [List.length_cons, List.drop_succ_cons, List.length_drop] at hn ⊢
            omega
          obtain ⟨i1, i2⟩ := ih _ ps' hps' n hlen
          simp only [decodePieces, attrDecode, i1, i2]
          rw [decodeWith, if_neg hc', decodeWith, if_neg hc']
          exact ⟨rfl, rfl⟩

theorem runPieces_decode_ne_nil (T : Tables) (txt : Bytes) (fuel : Nat) (s : Stream)
    (ps : List Piece) (h : runPieces T txt fuel s = some ps) (hne : s.rest ≠ []) :
    decodePieces ps ≠ [] := by
  cases fuel with
  | zero => simp [runPieces] at h
  | succ fuel =>
    obtain ⟨pos, rest⟩ := s
    rw [runPieces] at h
    split at h
    · rename_i hrest
      exact absurd hrest hne
    · rename_i c0 r hrest
      simp only at hrest
      subst hrest
      split at h
      · split at h
        · rename_i s' ch hcr
          simp only [Option.map_eq_some_iff] at h
          obtain ⟨ps', hps', rfl⟩ := h
          simp [decodePieces, encodeChar_ne_nil]
        · simp at h
      · rename_i hc
        have hc' : c0 ≠ bAmp := fun e => hc (by rw [e]; rfl)
        simp only [Option.map_eq_some_iff] at h
        obtain ⟨ps', hps', rfl⟩ := h
        have hlit : (c0 :: r).takeWhile (· != bAmp) = c0 :: r.takeWhile (· != bAmp) := by
          simp [hc']
        simp only [decodePieces, hlit]
        intro e
        have := (List.append_eq_nil_iff.1 e).1
        exact mir_lineEnds_ne_nil _ (by simp) this

/-! ### Success of the loops without declared entities: the run has pieces -/

theorem processTextLoop_hasPieces (T : Tables) (txt : Bytes) (lower : Token → Ctx → Res Ctx)
    (range : Range) (c : Ctx) (he : c.entities = []) :
    ∀ (n : Nat) (s : Stream), s.rest.length < n → ∀ (fuel : Nat) (buf : TextBuffer)
      (res : TextBuffer × Ctx), processTextLoop T txt lower range fuel s buf c = .ok res →
      ∃ ps, runPieces T txt n s = some ps := by
  intro n
  induction n with
  | zero => intro s h; omega
  | succ n ih =>
    intro s hlen fuel buf res h
    obtain ⟨pos, rest⟩ := s
    cases rest with
    | nil => exact ⟨[], by simp [runPieces]⟩
    | cons b r =>
      cases fuel with
      | zero => simp [processTextLoop] at h
      | succ f =>
        by_cases hb : (b == bAmp) = true
        · rw [processTextLoop] at h
          simp only [Stream.atEnd, List.isEmpty_cons, Bool.false_eq_true, if_false] at h
          rw [Res.bind_eq_ok] at h
          obtain ⟨⟨s1, chunk⟩, hchunk, h⟩ := h
          try dsimp only at h
          unfold parseNextChunk at hchunk
          simp only [hb, if_true] at hchunk
          rw [Res.bind_eq_ok] at hchunk
          obtain ⟨⟨s2, ref⟩, href, hchunk⟩ := hchunk
          try dsimp only at hchunk
          split at hchunk
          · rename_i ch
            res_norm at hchunk
            obtain ⟨e1, e2⟩ := hchunk
            subst e1; subst e2
            obtain ⟨body, _, _, b3, _⟩ := consumeReference_char T txt _ _ _ href
            have hlen' : s2.rest.length < n := by
              have := congrArg List.length b3
              simp only [List.length_append, List.length_cons] at this hlen
              omega
            try dsimp only at h
            have hex : ∃ buf', processTextLoop T txt lower range f s2 buf' c = .ok res := by
              split at h
              · exact ⟨_, h⟩
              · exact ⟨_, h⟩
            obtain ⟨buf', h'⟩ := hex
            obtain ⟨ps', hps'⟩ := ih s2 hlen' f buf' res h'
            exact ⟨Piece.raw (encodeChar ch) :: ps', by simp [runPieces, hb, href, hps']⟩
          · rw [he] at hchunk
            simp only [findEntity, List.find?_nil] at hchunk
            exact absurd hchunk (errFrom_ne_ok _ _ _ _)
          · exact absurd hchunk (errFrom_ne_ok _ _ _ _)
        · have hb' : b ≠ bAmp := fun e => hb (by rw [e]; rfl)
          obtain ⟨rest', h1, h2, h3, h4⟩ := tw_split (b :: r)
          have hlit : (b :: r).takeWhile (· != bAmp) = b :: r.takeWhile (· != bAmp) := by
            simp [hb']
          have hlen' : rest'.length < n := by
            have := congrArg List.length h1
            rw [hlit] at this
            simp only [List.length_append, List.length_cons] at this hlen
            omega
          rw [h1] at h
          obtain ⟨fuel'', hl'⟩ :=
            processTextLoop_lit T txt lower range c rest' res _ (f + 1) pos buf h4 h
          obtain ⟨ps', hps'⟩ := ih _ hlen' fuel'' _ res hl'
          refine ⟨Piece.lit ((b :: r).takeWhile (· != bAmp)) :: ps', ?_⟩
          rw [runPieces]
          simp only [hb, Bool.false_eq_true, if_false, h2, hps', Option.map_some]

theorem normAttrLoop_hasPieces (T : Tables) (txt : Bytes)
    (rec : Span → TextBuffer → LD → List Ev → Res (TextBuffer × LD × List Ev)) (ld : LD)
    (tr : List Ev) :
    ∀ (n : Nat) (s : Stream), s.rest.length < n → ∀ (fuel : Nat) (buf : TextBuffer)
      (res : TextBuffer × LD × List Ev),
      normAttrLoop T txt [] rec fuel s buf ld tr = .ok res →
      ∃ ps, runPieces T txt n s = some ps := by
  intro n
  induction n with
  | zero => intro s h; omega
  | succ n ih =>
    intro s hlen fuel buf res h
    obtain ⟨pos, rest⟩ := s
    cases rest with
    | nil => exact ⟨[], by simp [runPieces]⟩
    | cons b r =>
      cases fuel with
      | zero => simp [normAttrLoop] at h
      | succ f =>
        by_cases hb : (b == bAmp) = true
        · rw [normAttrLoop] at h
          have hb2 : (b != bAmp) = false := by simp [bne, hb]
          simp only [hb2, Bool.false_eq_true, if_false] at h
          rw [Res.bind_eq_ok] at h
          obtain ⟨⟨s2, ref⟩, href, h⟩ := h
          try dsimp only at h
          split at h
          · rename_i ch
            obtain ⟨body, _, _, b3, _⟩ := consumeReference_char T txt _ _ _ href
            have hlen' : s2.rest.length < n := by
              have := congrArg List.length b3
              simp only [List.length_append, List.length_cons] at this hlen
              omega
            have hex : ∃ buf', normAttrLoop T txt [] rec f s2 buf' ld tr = .ok res := by
              split at h
              · split at h
                · exact absurd h (errFrom_ne_ok _ _ _ _)
                · exact ⟨_, h⟩
              · exact ⟨_, h⟩
            obtain ⟨buf', h'⟩ := hex
            obtain ⟨ps', hps'⟩ := ih s2 hlen' f buf' res h'
            exact ⟨Piece.raw (encodeChar ch) :: ps', by simp [runPieces, hb, href, hps']⟩
          · simp only [findEntity, List.find?_nil] at h
            exact absurd h (errFrom_ne_ok _ _ _ _)
          · exact absurd h (errFrom_ne_ok _ _ _ _)
        · have hb' : b ≠ bAmp := fun e => hb (by rw [e]; rfl)
          obtain ⟨rest', h1, h2, h3, h4⟩ := tw_split (b :: r)
          have hlit : (b :: r).takeWhile (· != bAmp) = b :: r.takeWhile (· != bAmp) := by
            simp [hb']
          have hlen' : rest'.length < n := by
            have := congrArg List.length h1
            rw [hlit] at this
            simp only [List.length_append, List.length_cons] at this hlen
            omega
          rw [h1] at h
          obtain ⟨fuel'', hl'⟩ :=
            normAttrLoop_lit T txt [] rec ld tr rest' h3 res _ (f + 1) pos buf h4 h
          obtain ⟨ps', hps'⟩ := ih _ hlen' fuel'' _ res hl'
          refine ⟨Piece.lit ((b :: r).takeWhile (· != bAmp)) :: ps', ?_⟩
          rw [runPieces]
          simp only [hb, Bool.false_eq_true, if_false, h2, hps', Option.map_some]

/-! ### The two theorems -/

theorem mir_attrLit_id (l : Bytes) (h : ∀ b ∈ l, b ≠ bTab ∧ b ≠ bLF ∧ b ≠ bCR) : attrLit l = l := by
  induction l with
  | nil => rfl
  | cons a l ih =>
    obtain ⟨h1, h2, h3⟩ := h a (by simp)
    have ih' := ih (fun b hb => h b (by simp [hb]))
    have e1 : (a == 13) = false := by simpa [bCR] using h3
    have e2 : (a == 10) = false := by simpa [bLF] using h2
    have e3 : (a == 9) = false := by simpa [bTab] using h1
    unfold attrLit
    split
    · rename_i e; simp at e
    · rename_i e
      simp only [List.cons.injEq] at e
      rw [e.1] at e1
      simp at e1
    · rename_i b r _ e
      simp only [List.cons.injEq] at e
      obtain ⟨rfl, rfl⟩ := e
      simp [e1, e2, e3, ih']

/-- `process_text` on a text token (non-empty, no `<`), no entities declared, depth 0: one
`append_text` of the decoded run. -/
theorem processText_mirror (T : Tables) (txt : Bytes) (lower : Token → Ctx → Res Ctx) (c c' : Ctx)
    (t : Span) (r : Range) (hent : c.entities = []) (hd : c.ld.depth = 0)
    (hr : r = (t.off, t.off + t.bytes.length))
    (hs : t.bytes = sliceBytes txt t.off (t.off + t.bytes.length))
    (hne : t.bytes ≠ []) (hlt : bLt ∉ t.bytes)
    (h : processText T txt lower c t r = .ok c') :
    ∃ s : Str, s.bytes = decodeText t.bytes ∧ c.appendText s r = .ok c' := by
  have _ := hlt
  by_cases hany : (t.bytes.any fun b => b == bAmp || b == bCR) = true
  · have h0 := h
    unfold processText at h0
    simp only [hany, Bool.not_true, Bool.false_eq_true, if_false] at h0
    have hstream : Stream.ofRange txt r.1 r.2 = ⟨t.off, t.bytes⟩ := by
      rw [hr]; simp only [Stream.ofRange]; rw [← hs]
    rw [hstream] at h0
    rw [Res.bind_eq_ok] at h0
    obtain ⟨⟨buf, c1⟩, hloop, _⟩ := h0
    obtain ⟨ps, hp⟩ := processTextLoop_hasPieces T txt lower r c hent (t.bytes.length + 1)
      ⟨t.off, t.bytes⟩ (Nat.lt_succ_self _) _ _ _ hloop
    obtain ⟨_, hdec⟩ := processText_decodes T txt lower c c' t r hr hs hd ps hp hany h
    have hnn := runPieces_decode_ne_nil T txt _ _ _ hp hne
    rw [if_neg hnn] at hdec
    refine ⟨.owned (decodePieces ps), ?_, hdec⟩
    exact (runPieces_decodeWith T txt _ _ _ hp _ (Nat.lt_succ_self _)).1
  · have hany' : (t.bytes.any fun b => b == bAmp || b == bCR) = false := by simpa using hany
    unfold processText at h
    simp only [hany', Bool.not_false, if_true] at h
    refine ⟨.borrowed t, ?_, h⟩
    show t.bytes = decodeText t.bytes
    have hamp : bAmp ∉ t.bytes := by
      intro hm
      have : (t.bytes.any fun b => b == bAmp || b == bCR) = true :=
        List.any_eq_true.mpr ⟨bAmp, hm, by simp⟩
      rw [this] at hany'; cases hany'
    have hcr : ¬ (13 : UInt8) ∈ t.bytes := by
      intro hm
      have : (t.bytes.any fun b => b == bAmp || b == bCR) = true :=
        List.any_eq_true.mpr ⟨13, hm, by simp [bCR]⟩
      rw [this] at hany'; cases hany'
    unfold decodeText
    rw [mir_decodeWith_lit lineEnds rfl _ _ hamp, lineEnds_no_cr _ hcr]

/-- `normalize_attribute`, no entities declared, depth 0: the value is the decoded raw value, and
only the ghost trace of the context changes. -/
theorem normalizeAttribute_mirror (T : Tables) (txt : Bytes) (c c' : Ctx) (v : Span) (s : Str)
    (hent : c.entities = []) (hd : c.ld.depth = 0) (hlt : bLt ∉ v.bytes)
    (h : normalizeAttribute T txt c v = .ok (c', s)) :
    s.bytes = decodeAttr v.bytes ∧ ∃ tr, c' = { c with trace := tr } := by
  by_cases hany : (v.bytes.any fun b => b == bAmp || b == bTab || b == bLF || b == bCR) = true
  · obtain ⟨_, ld, tr, hc'⟩ := normalizeAttribute_noent T txt c c' v s hent hlt h
    have h0 := h
    unfold normalizeAttribute at h0
    simp only [hany, if_true] at h0
    rw [Res.bind_eq_ok] at h0
    obtain ⟨⟨buf, ld', tr'⟩, hrec, _⟩ := h0
    have hdf : depthFuel = 11 + 1 := rfl
    rw [hdf, normAttrRec, hent] at hrec
    obtain ⟨ps, hp⟩ := normAttrLoop_hasPieces T txt _ c.ld c.trace (v.bytes.length + 1)
      ⟨v.off, v.bytes⟩ (Nat.lt_succ_self _) _ _ _ hrec
    obtain ⟨e1, e2⟩ := normalizeAttribute_decodes T txt c c' v s hd ps hp hany h
    refine ⟨?_, tr, ?_⟩
    · rw [e1]
      exact (runPieces_decodeWith T txt _ _ _ hp _ (Nat.lt_succ_self _)).2
    · rw [hc'] at e2 ⊢
      simp only at e2
      rw [e2]
  · have hany' : (v.bytes.any fun b => b == bAmp || b == bTab || b == bLF || b == bCR) = false := by
      simpa using hany
    unfold normalizeAttribute at h
    simp only [hany', Bool.false_eq_true, if_false, Res.ok.injEq, Prod.mk.injEq] at h
    obtain ⟨rfl, rfl⟩ := h
    refine ⟨?_, c.trace, rfl⟩
    show v.bytes = decodeAttr v.bytes
    have hall : ∀ b ∈ v.bytes, (b == bAmp || b == bTab || b == bLF || b == bCR) = false := by
      intro b hb
      cases hx : (b == bAmp || b == bTab || b == bLF || b == bCR) with
      | false => rfl
      | true =>
        have : (v.bytes.any fun b => b == bAmp || b == bTab || b == bLF || b == bCR) = true :=
          List.any_eq_true.mpr ⟨b, hb, hx⟩
        rw [this] at hany'; cases hany'
    have hamp : bAmp ∉ v.bytes := by
      intro hm
      have := hall _ hm
      simp at this
    have hws : ∀ b ∈ v.bytes, b ≠ bTab ∧ b ≠ bLF ∧ b ≠ bCR := by
      intro b hb
      have := hall b hb
      simp only [Bool.or_eq_false_iff, beq_eq_false_iff_ne] at this
      exact ⟨this.1.1.2, this.1.2, this.2⟩
    unfold decodeAttr
    rw [mir_decodeWith_lit attrLit rfl _ _ hamp, mir_attrLit_id _ hws]

end Rox.Lemmas
