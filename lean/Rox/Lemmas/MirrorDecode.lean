/-
  Rox.Lemmas.MirrorDecode — the decoders of `Rox.Spec.Mirror` (`decodeText`, `decodeAttr`: plain
  functions on the bytes as written) against the builder: without declared entities, at entity
  depth 0, `process_text` appends exactly `decodeText` of the raw character data and
  `normalize_attribute` returns exactly `decodeAttr` of the raw value.
-/
import Rox.Spec.Mirror
import Rox.Lemmas.Decode
import Rox.Lemmas.GrammarRef

namespace Rox.Lemmas
open Rox Rox.Spec Rox.Spec.Grammar Rox.Spec.Mirror Rox.Props.C04

/-- `process_text` on a text token (non-empty, no `<`), no entities declared, depth 0: one
`append_text` of the decoded run. -/
theorem processText_mirror (T : Tables) (txt : Bytes) (lower : Token → Ctx → Res Ctx) (c c' : Ctx)
    (t : Span) (r : Range) (hent : c.entities = []) (hd : c.ld.depth = 0)
    (hr : r = (t.off, t.off + t.bytes.length))
    (hs : t.bytes = sliceBytes txt t.off (t.off + t.bytes.length))
    (hne : t.bytes ≠ []) (hlt : bLt ∉ t.bytes)
    (h : processText T txt lower c t r = .ok c') :
    ∃ s : Str, s.bytes = decodeText t.bytes ∧ c.appendText s r = .ok c' := by
  sorry

/-- `normalize_attribute`, no entities declared, depth 0: the value is the decoded raw value, and
only the ghost trace of the context changes. -/
theorem normalizeAttribute_mirror (T : Tables) (txt : Bytes) (c c' : Ctx) (v : Span) (s : Str)
    (hent : c.entities = []) (hd : c.ld.depth = 0) (hlt : bLt ∉ v.bytes)
    (h : normalizeAttribute T txt c v = .ok (c', s)) :
    s.bytes = decodeAttr v.bytes ∧ ∃ tr, c' = { c with trace := tr } := by
  sorry

end Rox.Lemmas
