/-
  Rox.Lemmas.TMLogic — a small program logic for the token-emitting computations of `Rox.Tok`:
  `Spec m P Q` — every token `m` emits satisfies `P`, if `m` returns `a` then `Q a`, and `m`
  neither panics nor runs out of fuel.
-/
import Rox.Tok

namespace Rox.Lemmas
open Rox Rox.TM

/-- the outcome is `ok` or `err`: no panic site was reached and the fuel sufficed -/
def Res.Safe {α} (r : Res α) : Prop :=
  match r with
  | .ok _ => True
  | .err _ => True
  | .panic _ => False
  | .fuel => False

structure Spec {α} (m : TM α) (P : Token → Prop) (Q : α → Prop) : Prop where
  toks : ∀ t ∈ m.1, P t
  post : ∀ a, m.2 = .ok a → Q a
  safe : Res.Safe m.2

theorem spec_pure {α} (a : α) (P : Token → Prop) (Q : α → Prop) (h : Q a) : Spec (pure a : TM α) P Q :=
  ⟨by intro t ht; simp [pure, pure'] at ht, by intro b hb; simp [pure, pure'] at hb; subst hb; exact h, trivial⟩

theorem spec_emit (t : Token) (P : Token → Prop) (h : P t) : Spec (emit t) P (fun _ => True) :=
  ⟨by intro t' ht; simp [emit] at ht; subst ht; exact h, fun _ _ => trivial, trivial⟩

theorem spec_lift {α} (r : Res α) (P : Token → Prop) (Q : α → Prop)
    (hq : ∀ a, r = .ok a → Q a) (hs : Res.Safe r) : Spec (lift r) P Q :=
  ⟨by intro t ht; simp [lift] at ht, fun a ha => hq a ha, hs⟩

theorem spec_bind {α β} (m : TM α) (k : α → TM β) (P : Token → Prop) (Q : α → Prop) (R : β → Prop)
    (hm : Spec m P Q) (hk : ∀ a, Q a → Spec (k a) P R) : Spec (m >>= k) P R := by
  obtain ⟨t1, r⟩ := m
  cases r with
  | ok a =>
    have hq := hm.post a rfl
    have := hk a hq
    simp only [bind, bind']
    refine ⟨?_, ?_, ?_⟩
    · intro t ht
      rcases List.mem_append.mp ht with h | h
      · exact hm.toks t h
      · exact this.toks t h
    · intro b hb; exact this.post b hb
    · exact this.safe
  | err e =>
    simp only [bind, bind']
    exact ⟨hm.toks, by intro b hb; simp at hb, trivial⟩
  | panic s => exact absurd hm.safe (by simp [Res.Safe])
  | fuel => exact absurd hm.safe (by simp [Res.Safe])

theorem spec_weaken {α} {m : TM α} {P : Token → Prop} {Q Q' : α → Prop} (h : Spec m P Q)
    (hq : ∀ a, Q a → Q' a) : Spec m P Q' :=
  ⟨h.toks, fun a ha => hq a (h.post a ha), h.safe⟩

theorem spec_ite {α} (c : Prop) [Decidable c] (m1 m2 : TM α) (P : Token → Prop) (Q : α → Prop)
    (h1 : c → Spec m1 P Q) (h2 : ¬ c → Spec m2 P Q) : Spec (if c then m1 else m2) P Q := by
  split
  · exact h1 ‹_›
  · exact h2 ‹_›

/-- Same notion for token-free computations. -/
structure RSpec {α} (r : Res α) (Q : α → Prop) : Prop where
  post : ∀ a, r = .ok a → Q a
  safe : Res.Safe r

theorem rspec_ok {α} (a : α) (Q : α → Prop) (h : Q a) : RSpec (.ok a) Q :=
  ⟨by intro b hb; simp at hb; subst hb; exact h, trivial⟩

theorem rspec_err {α} (e : Err) (Q : α → Prop) : RSpec (.err e : Res α) Q :=
  ⟨by intro b hb; simp at hb, trivial⟩

theorem rspec_bind {α β} (m : Res α) (k : α → Res β) (Q : α → Prop) (R : β → Prop)
    (hm : RSpec m Q) (hk : ∀ a, Q a → RSpec (k a) R) : RSpec (m >>= k) R := by
  cases m with
  | ok a => exact hk a (hm.post a rfl)
  | err e => exact ⟨by intro b hb; simp at hb, trivial⟩
  | panic s => exact absurd hm.safe (by simp [Res.Safe])
  | fuel => exact absurd hm.safe (by simp [Res.Safe])

theorem rspec_weaken {α} {r : Res α} {Q Q' : α → Prop} (h : RSpec r Q) (hq : ∀ a, Q a → Q' a) :
    RSpec r Q' := ⟨fun a ha => hq a (h.post a ha), h.safe⟩

theorem spec_of_rspec {α} (r : Res α) (P : Token → Prop) (Q : α → Prop) (h : RSpec r Q) :
    Spec (lift r) P Q := spec_lift r P Q h.post h.safe

end Rox.Lemmas
