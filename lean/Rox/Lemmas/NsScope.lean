/-
  Rox.Lemmas.NsScope — C06: namespace scoping. The in-scope bindings of an element are its own
  declarations followed by the inherited bindings of its parent that it does not shadow; a prefix
  resolves to the element's own declaration if there is one, otherwise to what the parent
  resolves it to.
-/
import Rox.Lemmas.SafeNs

namespace Rox.Lemmas
open Rox Rox.Props.C06

/-- The table indices of the slice `tree_order[r.1 .. r.2]`. -/
def rangeList (ns : Namespaces) (r : Range) : List Nat :=
  (ns.treeOrder.toList.drop r.1).take (r.2 - r.1)

/-- First binding of prefix `pfx` (`none` = default namespace) in a list of table indices. -/
def scopeFind (ns : Namespaces) (l : List Nat) (pfx : Option Bytes) : Option Nat :=
  l.find? fun idx =>
    match ns.values[idx]? with
    | some v => v.nameBytes == pfx
    | none => false

/-- The namespace range of the parent node (empty when the parent is the root). -/
def parentRange (c : Ctx) : Range :=
  match c.doc.nodes[c.parentId]? with
  | some ⟨_, _, _, _, .element _ _ _ p, _⟩ => p
  | _ => (0, 0)

/-! ### Basic facts about `scopeFind` and `rangeList` -/

theorem scopeFind_nil (ns : Namespaces) (pfx : Option Bytes) : scopeFind ns [] pfx = none := rfl

theorem scopeFind_values {ns ns' : Namespaces} (h : ns'.values = ns.values) (l : List Nat)
    (pfx : Option Bytes) : scopeFind ns' l pfx = scopeFind ns l pfx := by
  unfold scopeFind; rw [h]

theorem scopeFind_append (ns : Namespaces) (l1 l2 : List Nat) (pfx : Option Bytes) :
    scopeFind ns (l1 ++ l2) pfx = (scopeFind ns l1 pfx).orElse (fun _ => scopeFind ns l2 pfx) := by
  unfold scopeFind
  rw [List.find?_append]
  cases List.find? _ l1 <;> rfl

theorem rangeList_empty (ns : Namespaces) (a : Nat) : rangeList ns (a, a) = [] := by
  simp [rangeList]

theorem rangeList_to_end (ns : Namespaces) (a : Nat) :
    rangeList ns (a, ns.treeOrder.size) = ns.treeOrder.toList.drop a := by
  unfold rangeList
  apply List.take_of_length_le
  simp

/-- The local `find` of `get_ns_idx_by_prefix`, when it does not panic, is `scopeFind`. -/
theorem find_scope (doc : Doc) (po : Option Bytes) :
    ∀ (l : List Nat) (r : Option Nat), getNsIdxByPrefix.find doc po l = .ok r →
      r = scopeFind doc.ns l po
  | [], r, h => by
    simp only [getNsIdxByPrefix.find, Res.ok.injEq] at h
    subst h; rfl
  | idx :: t, r, h => by
    simp only [getNsIdxByPrefix.find] at h
    unfold scopeFind
    rw [List.find?_cons]
    split at h
    · cases h
    · rename_i v hv
      rw [hv]
      dsimp only
      split at h
      · rename_i hb
        rw [hb]
        simp only [Res.ok.injEq] at h
        exact h.symm
      · rename_i hb
        simp only [Bool.not_eq_true] at hb
        rw [hb]
        exact find_scope doc po t r h

/-- `Namespaces::exists`' scan, when it does not panic, says whether `scopeFind` finds something. -/
theorem existsAux_scope (ns : Namespaces) (pfx : Option Bytes) :
    ∀ (l : List Nat) (b : Bool), Namespaces.existsAux ns.values pfx l = .ok b →
      b = (scopeFind ns l pfx).isSome
  | [], b, h => by
    simp only [Namespaces.existsAux, Res.ok.injEq] at h
    subst h; rfl
  | idx :: t, b, h => by
    simp only [Namespaces.existsAux] at h
    unfold scopeFind
    rw [List.find?_cons]
    split at h
    · cases h
    · rename_i v hv
      rw [hv]
      dsimp only
      split at h
      · rename_i hb
        rw [hb]
        simp only [Res.ok.injEq] at h
        subst h; rfl
      · rename_i hb
        simp only [Bool.not_eq_true] at hb
        rw [hb]
        exact existsAux_scope ns pfx t b h

/-- `get_ns_idx_by_prefix` is the first-binding lookup in the element's range (for a prefix other
than `xml`, which is bound implicitly). -/
theorem getNsIdxByPrefix_scope (txt : Bytes) (doc : Doc) (nss : Range) (pp : Nat) (pfx : Bytes)
    (hx : pfx ≠ Lit.xml) (r : Option Nat) (h : getNsIdxByPrefix txt doc nss pp pfx = .ok r) :
    r = scopeFind doc.ns (rangeList doc.ns nss) (if pfx.isEmpty then none else some pfx) := by
  unfold getNsIdxByPrefix at h
  dsimp only at h
  split at h
  · rename_i hc
    exact absurd (by simpa using hc) hx
  · split at h
    · cases h
    · obtain ⟨r0, hf, hr⟩ := Res.bind_eq_ok.mp h
      have := find_scope doc _ _ _ hf
      unfold rangeList
      rw [← this]
      split at hr
      · simp only [Res.pure_eq, Res.ok.injEq] at hr
        exact hr.symm
      · split at hr
        · exact absurd hr (errPos_ne_ok _ _ _ _)
        · simp only [Res.pure_eq, Res.ok.injEq] at hr
          exact hr.symm

theorem filterMap_congr' {α β} {f g : α → Option β} : ∀ (l : List α), (∀ x ∈ l, f x = g x) →
    l.filterMap f = l.filterMap g
  | [], _ => rfl
  | a :: t, h => by
    rw [List.filterMap_cons, List.filterMap_cons, h a (by simp),
      filterMap_congr' t (fun x hx => h x (by simp [hx]))]

theorem exists_scope (ns : Namespaces) (start : Nat) (pfx : Option Bytes) (b : Bool)
    (h : ns.exists start pfx = .ok b) :
    b = (scopeFind ns (ns.treeOrder.toList.drop start) pfx).isSome := by
  unfold Namespaces.exists at h
  split at h
  · cases h
  · exact existsAux_scope ns pfx _ b h

/-- An entry whose prefix is already bound in `l1` does not change what `l1 ++ _` resolves. -/
theorem scopeFind_skip (ns : Namespaces) (l1 l2 : List Nat) (t : Nat) (v : Namespace)
    (hv : ns.values[t]? = some v) (pfx : Option Bytes)
    (hex : (scopeFind ns l1 v.nameBytes).isSome = true) :
    (scopeFind ns l1 pfx).orElse (fun _ => scopeFind ns (t :: l2) pfx) =
      (scopeFind ns l1 pfx).orElse (fun _ => scopeFind ns l2 pfx) := by
  cases h1 : scopeFind ns l1 pfx with
  | some x => rfl
  | none =>
    simp only [Option.orElse_none]
    have hne : (v.nameBytes == pfx) = false := by
      cases hb : (v.nameBytes == pfx) with
      | false => rfl
      | true =>
        have : v.nameBytes = pfx := by simpa using hb
        rw [this, h1] at hex
        cases hex
    unfold scopeFind
    rw [List.find?_cons, hv]
    dsimp only
    rw [hne]

/-- Loop invariant of `inheritLoop`: the element's list resolves a prefix to what the list built so
far resolves it to, else to what the remaining part of the parent's list resolves it to. -/
theorem inheritLoop_scope (start : Nat) (pfx : Option Bytes) : ∀ (l : List Nat) (ns ns' : Namespaces),
    (∀ i ∈ l, i < ns.treeOrder.size) → inheritLoop start l ns = .ok ns' →
    ns'.values = ns.values ∧
    scopeFind ns (ns'.treeOrder.toList.drop start) pfx =
      (scopeFind ns (ns.treeOrder.toList.drop start) pfx).orElse
        (fun _ => scopeFind ns (l.filterMap (fun i => ns.treeOrder[i]?)) pfx) := by
  intro l
  induction l with
  | nil =>
    intro ns ns' _ h
    simp only [inheritLoop, Res.ok.injEq] at h
    subst h
    refine ⟨rfl, ?_⟩
    simp only [List.filterMap_nil, scopeFind_nil]
    cases scopeFind ns (ns.treeOrder.toList.drop start) pfx <;> rfl
  | cons i r ih =>
    intro ns ns' hl h
    simp only [inheritLoop] at h
    have hi : i < ns.treeOrder.size := hl i (by simp)
    have hr : ∀ j ∈ r, j < ns.treeOrder.size := fun j hj => hl j (by simp [hj])
    rw [Array.getElem?_eq_getElem hi] at h
    dsimp only at h
    split at h
    · cases h
    · rename_i v hv
      obtain ⟨ex, hex, h⟩ := Res.bind_eq_ok.mp h
      have hex' := exists_scope ns start _ ex hex
      have hstart : start ≤ ns.treeOrder.size := by
        unfold Namespaces.exists at hex
        split at hex
        · cases hex
        · omega
      rw [List.filterMap_cons, Array.getElem?_eq_getElem hi]
      dsimp only
      cases ex with
      | true =>
        simp only [Bool.not_true, Bool.false_eq_true, if_false, Res.pure_eq, Res.bind_ok] at h
        obtain ⟨g1, g2⟩ := ih ns ns' hr h
        refine ⟨g1, ?_⟩
        rw [g2]
        exact (scopeFind_skip ns _ _ _ v hv pfx hex'.symm).symm
      | false =>
        simp only [Bool.not_false, if_true] at h
        obtain ⟨ns1, hpr, h⟩ := Res.bind_eq_ok.mp h
        unfold Namespaces.pushRef at hpr
        rw [Array.getElem?_eq_getElem hi] at hpr
        simp only [Res.ok.injEq] at hpr
        subst hpr
        obtain ⟨g1, g2⟩ := ih _ ns' (by
          intro j hj
          simp only [Array.size_push]
          have := hr j hj; omega) h
        refine ⟨g1, ?_⟩
        have hv' : ∀ l, scopeFind { ns with treeOrder := ns.treeOrder.push ns.treeOrder[i] } l pfx =
            scopeFind ns l pfx := fun l => scopeFind_values rfl l pfx
        rw [hv', hv', hv'] at g2
        rw [g2]
        have hfm : List.filterMap (fun j => (ns.treeOrder.push ns.treeOrder[i])[j]?) r =
            List.filterMap (fun j => ns.treeOrder[j]?) r := by
          apply filterMap_congr'
          intro j hj
          have := hr j hj
          rw [Array.getElem?_push]
          have : j ≠ ns.treeOrder.size := by omega
          simp [this]
        simp only [hfm, Array.toList_push]
        rw [List.drop_append_of_le_length (by simpa using hstart), scopeFind_append]
        cases scopeFind ns (ns.treeOrder.toList.drop start) pfx with
        | some x => rfl
        | none =>
          simp only [Option.orElse_none]
          rw [← scopeFind_append]
          rfl

theorem filterMap_range_eq (l : List Nat) (a : Nat) : ∀ (n : Nat),
    ((List.range n).map (· + a)).filterMap (fun i => l[i]?) = (l.drop a).take n := by
  intro n
  induction n with
  | zero => simp
  | succ n ih =>
    rw [List.range_succ, List.map_append, List.filterMap_append, ih, List.take_add_one,
      List.getElem?_drop]
    congr 1
    simp only [List.map_cons, List.map_nil, List.filterMap_cons, List.filterMap_nil]
    rw [Nat.add_comm n a]
    cases l[a + n]? <;> rfl

/-- **Scoping**: after `resolve_namespaces`, looking a prefix up in the element's range gives its
own declaration (the entries pushed since `nsStartIdx`) if it has one, and otherwise what the
lookup in the parent's range gives. -/
theorem resolveNamespaces_scope (c c' : Ctx) (nss : Range) (hp : c.parentId < c.doc.nodes.size)
    (hn : NsOk c.doc c.nsStartIdx) (h : resolveNamespaces c = .ok (c', nss)) (pfx : Option Bytes) :
    scopeFind c'.doc.ns (rangeList c'.doc.ns nss) pfx =
      (scopeFind c.doc.ns (rangeList c.doc.ns (c.nsStartIdx, c.doc.ns.treeOrder.size)) pfx).orElse
        (fun _ => scopeFind c.doc.ns (rangeList c.doc.ns (parentRange c)) pfx) := by
  unfold resolveNamespaces at h
  have hp' : c.nodeAt c.parentId = .ok c.doc.nodes[c.parentId] := by
    unfold Ctx.nodeAt; rw [Array.getElem?_eq_getElem hp]
  rw [hp'] at h
  simp only [Res.bind_ok] at h
  have hpr : parentRange c = match c.doc.nodes[c.parentId].kind with
      | .element _ _ _ p => p
      | _ => (0, 0) := by
    unfold parentRange
    rw [Array.getElem?_eq_getElem hp]
    cases c.doc.nodes[c.parentId] with
    | mk p1 p2 p3 p4 kind rg => cases kind <;> rfl
  rw [hpr]
  split at h
  · rename_i tn name attrs parentNs hk
    rw [hk]
    dsimp only
    split at h
    · rename_i heq
      have heq' : c.nsStartIdx = c.doc.ns.treeOrder.size := by simpa using heq
      simp only [Res.pure_eq, Res.ok.injEq, Prod.mk.injEq] at h
      obtain ⟨rfl, rfl⟩ := h
      rw [← heq', rangeList_empty, scopeFind_nil]
      rfl
    · obtain ⟨ns', hl, h⟩ := Res.bind_eq_ok.mp h
      simp only [Res.pure_eq, Res.ok.injEq, Prod.mk.injEq] at h
      obtain ⟨rfl, rfl⟩ := h
      obtain ⟨_, e2, _, _, _⟩ :=
        hn.elem c.parentId _ tn name attrs parentNs (Array.getElem?_eq_getElem hp) hk
      obtain ⟨g1, g2⟩ := inheritLoop_scope c.nsStartIdx pfx _ c.doc.ns ns' (by
        intro i hi
        simp only [List.mem_map, List.mem_range] at hi
        obtain ⟨a, ha, rfl⟩ := hi
        omega) hl
      show scopeFind ns' (rangeList ns' (c.nsStartIdx, ns'.treeOrder.size)) pfx = _
      rw [rangeList_to_end, rangeList_to_end, scopeFind_values g1, g2]
      have := filterMap_range_eq c.doc.ns.treeOrder.toList parentNs.1 (parentNs.2 - parentNs.1)
      simp only [Array.getElem?_toList] at this
      rw [this]
      rfl
  · rename_i hk
    simp only [Res.pure_eq, Res.ok.injEq, Prod.mk.injEq] at h
    obtain ⟨rfl, rfl⟩ := h
    have : (match c.doc.nodes[c.parentId].kind with
      | .element _ _ _ p => p
      | _ => ((0, 0) : Range)) = (0, 0) := by
      split
      · rename_i hk'
        exact absurd hk' (hk _ _ _ _)
      · rfl
    rw [this, rangeList_empty, scopeFind_nil]
    cases scopeFind c.doc.ns (rangeList c.doc.ns (c.nsStartIdx, c.doc.ns.treeOrder.size)) pfx <;> rfl

end Rox.Lemmas
