/-
  Rox.Lemmas.AxisSpec — C11: every traversal facility is the function of the tree (of the parent
  links alone) that its documentation says.
-/
import Rox.Lemmas.ApiSafe2

namespace Rox.Lemmas
open Rox Rox.Api Rox.Spec

/-- One step along an axis, as a function of the parent links only. -/
def stepSpec (a : Arena) : Axis → Nat → Option Nat
  | .ancestors, i => par a i
  | .prevSiblings, i => if i = 0 then none else prevSibSpec a i
  | .nextSiblings, i => nextSibSpec a i
  | .firstChildren, i => if (lastChildSpec a i).isSome then some (i + 1) else none
  | .lastChildren, i => lastChildSpec a i

/-- `i, f i, f (f i), …` until `f` answers `none` (at most `n` items). -/
def iterate (f : Nat → Option Nat) : Nat → Nat → List Nat
  | 0, _ => []
  | n + 1, i => i :: (match f i with | some j => iterate f n j | none => [])

/-! ### Helpers -/

theorem stored_parent (d : Doc) (i : Nat) (hi : i < d.nodes.size) :
    d.nodes[i].parent = par d.nodes i := by
  simp [Spec.par, hi]

theorem stored_prev (d : Doc) (hw : LinkWF d.nodes) (i : Nat) (hi : i < d.nodes.size) :
    d.nodes[i].prevSibling = if i = 0 then none else prevSibSpec d.nodes i := by
  rw [← hw.prev i hi]
  simp [Spec.prevSib, hi]

theorem stored_last (d : Doc) (hw : LinkWF d.nodes) (i : Nat) (hi : i < d.nodes.size) :
    d.nodes[i].lastChild = lastChildSpec d.nodes i := by
  rw [← hw.last i hi]
  simp [Spec.lastCh, hi]

theorem stored_next (d : Doc) (hw : LinkWF d.nodes) (i : Nat) (hi : i < d.nodes.size) :
    d.nodes[i].nextSubtree = nextSubtreeSpec d.nodes i := by
  rw [← hw.next i hi]
  simp [Spec.nextSub, hi]

theorem firstChild_is_spec (d : Doc) (hw : LinkWF d.nodes) (hs : d.nodes.size ≤ 4294967295) (i : Nat)
    (hi : i < d.nodes.size) :
    firstChild d i = .ok (if (lastChildSpec d.nodes i).isSome then some (i + 1) else none) := by
  unfold firstChild
  rw [getNodeUnwrap_ok d i hi]
  simp only [Res.bind_ok]
  rw [stored_last d hw i hi]
  cases hl : lastChildSpec d.nodes i with
  | none => rfl
  | some l =>
    have hl' : d.nodes[i].lastChild = some l := by rw [stored_last d hw i hi, hl]
    have h1 := ((links_in_range hw i _ (Array.getElem?_eq_getElem hi)).2.2.1 l hl').2
    have h2 : i + 1 < 4294967295 := by omega
    simp [nodeIdNew, h2, h1]

/-- One step of an axis iterator is the spec step. -/
theorem axisStep_is_spec (d : Doc) (hw : LinkWF d.nodes) (hs : d.nodes.size ≤ 4294967295) (a : Axis)
    (i : Nat) (hi : i < d.nodes.size) :
    a.step d i = .ok (stepSpec d.nodes a i) := by
  cases a with
  | ancestors =>
    show parent d i = _
    rw [parent_eq d hw i hi, stored_parent d i hi]; rfl
  | prevSiblings =>
    show prevSibling d i = _
    rw [prevSibling_eq d hw i hi, stored_prev d hw i hi]; rfl
  | nextSiblings => exact nextSibling_spec d hw i hi
  | firstChildren => exact firstChild_is_spec d hw hs i hi
  | lastChildren =>
    show lastChild d i = _
    rw [lastChild_eq d hw i hi, stored_last d hw i hi]; rfl

theorem axisList_iterate (d : Doc) (hw : LinkWF d.nodes) (hs : d.nodes.size ≤ 4294967295) (a : Axis) :
    ∀ (n fuel i : Nat), i < d.nodes.size → axisMeasure d a i < n → axisMeasure d a i + 1 < fuel →
      axisList d a fuel (some i) = .ok (iterate (stepSpec d.nodes a) n i) := by
  intro n
  induction n with
  | zero => intro fuel i _ h; omega
  | succ n ih =>
    intro fuel i hi hn hf
    obtain ⟨fuel, rfl⟩ : ∃ m, fuel = m + 1 := ⟨fuel - 1, by omega⟩
    obtain ⟨r, hr, hr'⟩ := axisStep_spec d hw hs a i hi
    have hst := axisStep_is_spec d hw hs a i hi
    rw [hst] at hr
    cases hr
    simp only [axisList, hst, Res.bind_ok, iterate]
    cases hx : stepSpec d.nodes a i with
    | none =>
      obtain ⟨m, rfl⟩ : ∃ m, fuel = m + 1 := ⟨fuel - 1, by omega⟩
      simp [axisList]
    | some j =>
      obtain ⟨hj, hlt⟩ := hr' j hx
      rw [ih fuel j hj (by omega) (by omega)]
      rfl

theorem findElement_is_find (d : Doc) : ∀ (l : List Nat), (∀ j ∈ l, j < d.nodes.size) →
    findElement d l = .ok (l.find? fun j => kindIs d.nodes j Kind.isElement) := by
  intro l
  induction l with
  | nil => intro _; rfl
  | cons j r ih =>
    intro h
    have hj : j < d.nodes.size := h j (by simp)
    have hn : d.nodes[j]? = some d.nodes[j] := by simp [hj]
    simp only [findElement, isElement, kindOf, getNodeUnwrap, hn, Res.bind_ok, Res.pure_eq,
      List.find?_cons, Spec.kindIs]
    cases hk : d.nodes[j].kind.isElement with
    | true => simp
    | false =>
      simp only [Bool.false_eq_true, if_false]
      exact ih (fun k hk => h k (by simp [hk]))

/-- **The axis iterators** (`ancestors`, `prev_siblings`, `next_siblings`, `first_children`,
`last_children`; each starts at the node itself): the sequence is the iteration of the spec step. -/
theorem axisList_is_spec (d : Doc) (hw : LinkWF d.nodes) (hs : d.nodes.size ≤ 4294967295) (a : Axis)
    (i : Nat) (hi : i < d.nodes.size) :
    axisList d a (fuelN d) (some i) = .ok (iterate (stepSpec d.nodes a) d.nodes.size i) := by
  have := axisMeasure_lt_size d a i hi
  exact axisList_iterate d hw hs a d.nodes.size (fuelN d) i hi this (by unfold fuelN; omega)

/-- `*_element` variants: the axis, without the starting node, filtered to the first element. -/
theorem axisElement_is_spec (d : Doc) (hw : LinkWF d.nodes) (hs : d.nodes.size ≤ 4294967295) (a : Axis)
    (i : Nat) (hi : i < d.nodes.size) :
    axisElement d a i =
      .ok (((iterate (stepSpec d.nodes a) d.nodes.size i).drop 1).find?
        fun j => kindIs d.nodes j Kind.isElement) := by
  obtain ⟨l, hl, hl'⟩ := axisList_fuelN_ok d hw hs a i hi
  have hspec := axisList_is_spec d hw hs a i hi
  rw [hl] at hspec
  cases hspec
  unfold axisElement
  simp only [hl, Res.bind_ok]
  exact findElement_is_find d _ (fun j hj => hl' j (List.mem_of_mem_drop hj))

/-- `children()` is the list of nodes whose parent is `i`, in id order; reversed iteration is the
reversed list; `first_element_child` / `last_element_child` are its first / last element. -/
theorem children_is_spec (d : Doc) (hw : LinkWF d.nodes) (hs : d.nodes.size ≤ 4294967295)
    (i : Nat) (hi : i < d.nodes.size) :
    ∃ it, children d i = .ok it ∧
      childrenList d (fuelN d) it = .ok (kidsIn d.nodes i 0 (d.nodes.size - 1)) ∧
      childrenRevList d (fuelN d) it = .ok (kidsIn d.nodes i 0 (d.nodes.size - 1)).reverse ∧
      firstElementChild d i =
        .ok ((kidsIn d.nodes i 0 (d.nodes.size - 1)).find? fun j => kindIs d.nodes j Kind.isElement) ∧
      lastElementChild d i =
        .ok ((kidsIn d.nodes i 0 (d.nodes.size - 1)).reverse.find? fun j => kindIs d.nodes j Kind.isElement) := by
  obtain ⟨it, hc, hr, habs⟩ := children_init d hw hs i hi
  have hlen : (absIt d.nodes i it).length < fuelN d := by
    rw [habs]
    have := kidsIn_length d.nodes i 0 (d.nodes.size - 1)
    unfold fuelN; omega
  have h1 := childrenList_safe d hw i _ it hr hlen
  have h2 := childrenRevList_safe d hw i _ it hr hlen
  rw [habs] at h1 h2
  have hlt : ∀ j ∈ kidsIn d.nodes i 0 (d.nodes.size - 1), j < d.nodes.size := by
    intro j hj
    have := kidsIn_lt _ _ _ _ j hj
    omega
  refine ⟨it, hc, h1, h2, ?_, ?_⟩
  · unfold firstElementChild
    simp only [hc, h1, Res.bind_ok]
    exact findElement_is_find d _ hlt
  · unfold lastElementChild
    simp only [hc, h2, Res.bind_ok]
    exact findElement_is_find d _ (fun j hj => hlt j (by simpa using hj))

/-- `has_children`, `has_siblings`: determined by the adjacent nodes. -/
theorem has_is_spec (d : Doc) (hw : LinkWF d.nodes) (i : Nat) (hi : i < d.nodes.size) :
    hasChildren d i = .ok (lastChildSpec d.nodes i).isSome ∧
    hasSiblings d i = .ok ((stepSpec d.nodes .prevSiblings i).isSome || (nextSibSpec d.nodes i).isSome) := by
  constructor
  · unfold hasChildren
    rw [getNodeUnwrap_ok d i hi]
    simp only [Res.bind_ok, Res.pure_eq]
    rw [stored_last d hw i hi]
  · unfold hasSiblings
    rw [getNodeUnwrap_ok d i hi]
    simp only [Res.bind_ok]
    rw [stored_prev d hw i hi, nextSibling_spec d hw i hi]
    simp only [Res.bind_ok, Res.pure_eq, stepSpec]
    cases (if i = 0 then none else prevSibSpec d.nodes i : Option Nat) <;> simp

/-- `descendants()` is the id interval from the node up to (excluding) its next subtree — the
node's subtree in pre-order. -/
theorem descendants_is_spec (d : Doc) (hw : LinkWF d.nodes) (i : Nat) (hi : i < d.nodes.size) :
    descendants d i = .ok ⟨i, (nextSubtreeSpec d.nodes i).getD d.nodes.size⟩ := by
  obtain ⟨it, h, h1, h2, h3⟩ := descendants_ok d hw i hi
  rw [h]
  unfold descendants at h
  rw [getNodeUnwrap_ok d i hi] at h
  simp only [Res.bind_ok, stored_next d hw i hi] at h
  split at h
  · simp only [Res.pure_eq] at h
    exact h.symm
  · cases h

end Rox.Lemmas
