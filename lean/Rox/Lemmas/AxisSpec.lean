/-
  Rox.Lemmas.AxisSpec — C11: every traversal facility is the function of the tree (of the parent
  links alone) that its documentation says.
-/
import Rox.Lemmas.ApiSafe2

namespace Rox.Lemmas
open Rox Rox.Api Rox.Spec

/-- One step along an axis, as a function of the parent links only. -/
def stepSpec (a : Arena) : Axis → Nat → Option Nat
  | .ancestors, i => par a i
  | .prevSiblings, i => if i = 0 then none else prevSibSpec a i
  | .nextSiblings, i => nextSibSpec a i
  | .firstChildren, i => if (lastChildSpec a i).isSome then some (i + 1) else none
  | .lastChildren, i => lastChildSpec a i

/-- `i, f i, f (f i), …` until `f` answers `none` (at most `n` items). -/
def iterate (f : Nat → Option Nat) : Nat → Nat → List Nat
  | 0, _ => []
  | n + 1, i => i :: (match f i with | some j => iterate f n j | none => [])

/-- **The axis iterators** (`ancestors`, `prev_siblings`, `next_siblings`, `first_children`,
`last_children`; each starts at the node itself): the sequence is the iteration of the spec step. -/
theorem axisList_is_spec (d : Doc) (hw : LinkWF d.nodes) (hs : d.nodes.size ≤ 4294967295) (a : Axis)
    (i : Nat) (hi : i < d.nodes.size) :
    axisList d a (fuelN d) (some i) = .ok (iterate (stepSpec d.nodes a) d.nodes.size i) := by
  sorry

/-- `*_element` variants: the axis, without the starting node, filtered to the first element. -/
theorem axisElement_is_spec (d : Doc) (hw : LinkWF d.nodes) (hs : d.nodes.size ≤ 4294967295) (a : Axis)
    (i : Nat) (hi : i < d.nodes.size) :
    axisElement d a i =
      .ok (((iterate (stepSpec d.nodes a) d.nodes.size i).drop 1).find?
        fun j => kindIs d.nodes j Kind.isElement) := by
  sorry

/-- `children()` is the list of nodes whose parent is `i`, in id order; reversed iteration is the
reversed list; `first_element_child` / `last_element_child` are its first / last element. -/
theorem children_is_spec (d : Doc) (hw : LinkWF d.nodes) (hs : d.nodes.size ≤ 4294967295)
    (i : Nat) (hi : i < d.nodes.size) :
    ∃ it, children d i = .ok it ∧
      childrenList d (fuelN d) it = .ok (kidsIn d.nodes i 0 (d.nodes.size - 1)) ∧
      childrenRevList d (fuelN d) it = .ok (kidsIn d.nodes i 0 (d.nodes.size - 1)).reverse ∧
      firstElementChild d i =
        .ok ((kidsIn d.nodes i 0 (d.nodes.size - 1)).find? fun j => kindIs d.nodes j Kind.isElement) ∧
      lastElementChild d i =
        .ok ((kidsIn d.nodes i 0 (d.nodes.size - 1)).reverse.find? fun j => kindIs d.nodes j Kind.isElement) := by
  sorry

/-- `has_children`, `has_siblings`: determined by the adjacent nodes. -/
theorem has_is_spec (d : Doc) (hw : LinkWF d.nodes) (i : Nat) (hi : i < d.nodes.size) :
    hasChildren d i = .ok (lastChildSpec d.nodes i).isSome ∧
    hasSiblings d i = .ok ((stepSpec d.nodes .prevSiblings i).isSome || (nextSibSpec d.nodes i).isSome) := by
  sorry

/-- `descendants()` is the id interval from the node up to (excluding) its next subtree — the
node's subtree in pre-order. -/
theorem descendants_is_spec (d : Doc) (hw : LinkWF d.nodes) (i : Nat) (hi : i < d.nodes.size) :
    descendants d i = .ok ⟨i, (nextSubtreeSpec d.nodes i).getD d.nodes.size⟩ := by
  sorry

end Rox.Lemmas
