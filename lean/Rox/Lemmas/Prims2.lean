/-
  Rox.Lemmas.Prims2 — the character-scanning primitives: `skip_chars`, names, qualified names,
  references; and that the strings they return are the slices of the input they consumed.
-/
import Rox.Lemmas.Prims

namespace Rox.Lemmas
open Rox

/-- `sp` is a slice of the input: its bytes are the input's bytes at its offset. -/
def SpanOk (txt : Bytes) (sp : Span) : Prop :=
  sp.bytes = sliceBytes txt sp.off (sp.off + sp.bytes.length) ∧ sp.off + sp.bytes.length ≤ txt.length

/-- the bytes between two positions of a well-formed cursor are a slice of the input -/
theorem spanOk_take {txt : Bytes} {s : Stream} (hs : SOk txt s) (k : Nat) (hk : k ≤ s.rest.length) :
    SpanOk txt ⟨s.pos, s.rest.take k⟩ := by
  unfold SpanOk
  simp only [List.length_take, Nat.min_eq_left hk]
  refine ⟨?_, by have := hs.bound; omega⟩
  conv => lhs; rw [hs.slice]
  unfold sliceBytes
  rw [List.take_take]
  congr 1
  omega

/-- `s'` is `s` after consuming exactly the bytes `run`. -/
def Took (s s' : Stream) (run : Bytes) : Prop :=
  run.length ≤ s.rest.length ∧ s'.pos = s.pos + run.length ∧ s'.rest = s.rest.drop run.length ∧
  run = s.rest.take run.length

theorem Took.adv {s s' : Stream} {run : Bytes} (h : Took s s' run) : Adv s s' :=
  ⟨run.length, h.1, h.2.1, h.2.2.1⟩

theorem Took.nil (s : Stream) : Took s s [] := ⟨by simp, rfl, rfl, rfl⟩

theorem Took.spanOk {txt : Bytes} {s s' : Stream} {run : Bytes} (hs : SOk txt s) (h : Took s s' run) :
    SpanOk txt ⟨s.pos, run⟩ := by
  have := spanOk_take hs run.length h.1
  rw [← h.2.2.2] at this; exact this

/-- a slice that is a string of its own: valid UTF-8 between two character boundaries (what a
`&str` cut from the input is) -/
def SpanU (txt : Bytes) (sp : Span) : Prop :=
  SpanOk txt sp ∧ ValidUtf8 sp.bytes ∧ isCharBoundary txt sp.off = true ∧
  isCharBoundary txt (sp.off + sp.bytes.length) = true

theorem Took.spanU {txt : Bytes} {s s' : Stream} {run : Bytes} (hs : SOk txt s) (hs' : SOk txt s')
    (h : Took s s' run) : SpanU txt ⟨s.pos, run⟩ := by
  refine ⟨h.spanOk hs, ?_, hs.pos_boundary.2, ?_⟩
  · have hv := valid_prefix s.rest run.length hs.utf8 (by rw [← h.2.2.1]; exact hs'.utf8)
    rw [← h.2.2.2] at hv; exact hv
  · show isCharBoundary txt (s.pos + run.length) = true
    rw [← h.2.1]; exact hs'.pos_boundary.2

/-- A cursor placed on such a slice is well-formed. -/
theorem SpanU.sOk {txt : Bytes} {sp : Span} (h : SpanU txt sp) : SOk txt ⟨sp.off, sp.bytes⟩ :=
  ⟨h.1.1, h.1.2, h.2.1, h.2.2.2⟩

theorem Took.trans {a b c : Stream} {r1 r2 : Bytes} (h1 : Took a b r1) (h2 : Took b c r2) :
    Took a c (r1 ++ r2) := by
  obtain ⟨l1, p1, d1, t1⟩ := h1
  obtain ⟨l2, p2, d2, t2⟩ := h2
  rw [d1, List.length_drop] at l2
  refine ⟨by simp; omega, by rw [p2, p1]; simp; omega, by rw [d2, d1, List.drop_drop]; simp, ?_⟩
  rw [List.length_append, List.take_add]
  rw [d1] at t2
  rw [← t1, ← t2]

theorem took_char {s : Stream} (w : Nat) (hw : w ≤ s.rest.length) :
    Took s ⟨s.pos + w, s.rest.drop w⟩ (s.rest.take w) := by
  have : (s.rest.take w).length = w := by simp [Nat.min_eq_left hw]
  exact ⟨by rw [this]; exact hw, by rw [this], by rw [this], by rw [this]⟩

section
variable (T : Tables) (txt : Bytes)

/-- `skip_chars` / `consume_chars`: terminates, never panics, advances by whole characters, and
returns exactly the consumed bytes. -/
theorem skipCharsAux_spec (f : Stream → Nat → Bool) :
    ∀ (fuel : Nat) (s : Stream) (acc : Bytes), s.rest.length < fuel → SOk txt s →
      RSpec (Stream.skipCharsAux T txt f fuel s acc)
        (fun p => ∃ run, Took s p.1 run ∧ SOk txt p.1 ∧ p.2 = acc.reverse ++ run) := by
  intro fuel
  induction fuel with
  | zero => intro s acc h; omega
  | succ n ih =>
    intro s acc hf hs
    unfold Stream.skipCharsAux
    split
    · exact rspec_ok _ _ ⟨[], Took.nil s, hs, by simp⟩
    · rename_i hne
      cases hr : s.rest with
      | nil => exact absurd hr (by simpa using hne)
      | cons b r =>
        obtain ⟨c, w, hd⟩ := decode_some hs b r hr
        rw [← hr]
        simp only [hd]
        split
        · exact errAt_safe hs _ _
        · split
          · obtain ⟨hw, hstep⟩ := step_char hs c w hd
            have hw1 := (decodeChar_width _ _ _ hd).1
            simp only [hw, if_true]
            have := ih ⟨s.pos + w, s.rest.drop w⟩ ((s.rest.take w).reverse ++ acc)
              (by simp only [List.length_drop]; omega) hstep.2
            refine rspec_weaken this ?_
            rintro ⟨s', out⟩ ⟨run, ht, hso, he⟩
            refine ⟨s.rest.take w ++ run, Took.trans (took_char w hw) ht, hso, ?_⟩
            simp only at he ⊢
            rw [he]; simp
          · exact rspec_ok _ _ ⟨[], Took.nil s, hs, by simp⟩

theorem consumeChars_spec (f : Stream → Nat → Bool) {s : Stream} (hs : SOk txt s) :
    RSpec (s.consumeChars T txt f)
      (fun p => Step txt s p.1 ∧ SpanOk txt p.2 ∧ p.2.off = s.pos ∧ Took s p.1 p.2.bytes) := by
  unfold Stream.consumeChars
  apply rspec_bind _ _ _ _ (skipCharsAux_spec T txt f _ s [] (by omega) hs)
  rintro ⟨s', run⟩ ⟨run', ht, hso, he⟩
  simp only [List.reverse_nil, List.nil_append] at he
  subst he
  exact rspec_ok _ _ ⟨⟨ht.adv, hso⟩, ht.spanOk hs, rfl, ht⟩

theorem skipXmlChars_spec {s : Stream} (hs : SOk txt s) :
    RSpec (s.skipXmlChars T txt) (Step txt s) := by
  unfold Stream.skipXmlChars
  apply rspec_bind _ _ _ _ (skipCharsAux_spec T txt _ _ s [] (by omega) hs)
  rintro ⟨s', run⟩ ⟨run', ht, hso, _⟩
  exact rspec_ok _ _ ⟨ht.adv, hso⟩

/-- scan up to one of two ASCII needles -/
theorem advanceUntil2_spec {s : Stream} (hs : SOk txt s) (n1 n2 : UInt8) (h1 : n1 < 128) (h2 : n2 < 128) :
    RSpec (s.advanceUntil2 n1 n2) (fun p => Step txt s p.1 ∧ SpanOk txt p.2 ∧ p.2.off = s.pos ∧
      Took s p.1 p.2.bytes ∧ ∀ b ∈ p.2.bytes, b ≠ n1 ∧ b ≠ n2) := by
  unfold Stream.advanceUntil2
  -- the scan consumes a prefix of the rest
  have key : ∀ (l : Bytes) (pos : Nat) (acc : Bytes) (f : UInt8 → Bool),
      ∃ run, (Stream.spanBytesAux f pos acc l).2 = acc.reverse ++ run ∧
        Took ⟨pos, l⟩ (Stream.spanBytesAux f pos acc l).1 run ∧ ∀ b ∈ run, f b = true := by
    intro l
    induction l with
    | nil => intro pos acc f; exact ⟨[], by simp [Stream.spanBytesAux], Took.nil _, by simp⟩
    | cons b r ih =>
      intro pos acc f
      simp only [Stream.spanBytesAux]
      split
      · rename_i hfb
        obtain ⟨run, he, ht, hall⟩ := ih (pos + 1) (b :: acc) f
        refine ⟨b :: run, by rw [he]; simp, ?_, ?_⟩
        · have h1 : Took ⟨pos, b :: r⟩ ⟨pos + 1, r⟩ [b] := ⟨by simp, rfl, rfl, rfl⟩
          exact Took.trans h1 ht
        · intro x hx
          rcases List.mem_cons.mp hx with rfl | hx
          · exact hfb
          · exact hall x hx
      · exact ⟨[], by simp, Took.nil _, by simp⟩
  obtain ⟨run, he, ht, hall⟩ := key s.rest s.pos [] (fun b => b != n1 && b != n2)
  have hstep := spanBytes_stop_step (txt := txt) (fun b => b != n1 && b != n2)
    (by intro b hb
        simp only [Bool.and_eq_false_iff, bne_eq_false_iff_eq] at hb
        rcases hb with rfl | rfl <;> assumption) s.rest s.pos [] hs
  revert he ht hstep
  generalize Stream.spanBytesAux (fun b => b != n1 && b != n2) s.pos [] s.rest = res
  obtain ⟨s', run'⟩ := res
  intro he ht hstep
  simp only [List.reverse_nil, List.nil_append] at he
  subst he
  simp only
  split
  · exact rspec_err _ _
  · refine rspec_ok _ _ ⟨hstep, ht.spanOk hs, rfl, ht, ?_⟩
    intro b hb
    have := hall b hb
    simpa using this

theorem skipNameTail_spec :
    ∀ (fuel : Nat) (s : Stream) (acc : Bytes), s.rest.length < fuel → SOk txt s →
      RSpec (Stream.skipNameTail T fuel s acc)
        (fun p => ∃ run, Took s p.1 run ∧ SOk txt p.1 ∧ p.2 = acc.reverse ++ run) := by
  intro fuel
  induction fuel with
  | zero => intro s acc h; omega
  | succ n ih =>
    intro s acc hf hs
    unfold Stream.skipNameTail
    split
    · exact rspec_ok _ _ ⟨[], Took.nil s, hs, by simp⟩
    · rename_i hne
      cases hr : s.rest with
      | nil => exact absurd hr (by simpa using hne)
      | cons b r =>
        obtain ⟨c, w, hd⟩ := decode_some hs b r hr
        rw [← hr]
        simp only [hd]
        split
        · obtain ⟨hw, hstep⟩ := step_char hs c w hd
          have hw1 := (decodeChar_width _ _ _ hd).1
          simp only [hw, if_true]
          have := ih ⟨s.pos + w, s.rest.drop w⟩ ((s.rest.take w).reverse ++ acc)
            (by simp only [List.length_drop]; omega) hstep.2
          refine rspec_weaken this ?_
          rintro ⟨s', out⟩ ⟨run, ht, hso, he⟩
          refine ⟨s.rest.take w ++ run, Took.trans (took_char w hw) ht, hso, ?_⟩
          simp only at he ⊢
          rw [he]; simp
        · exact rspec_ok _ _ ⟨[], Took.nil s, hs, by simp⟩

theorem skipName_spec {s : Stream} (hs : SOk txt s) :
    RSpec (s.skipName T txt) (fun p => Step txt s p.1 ∧ SpanOk txt p.2 ∧ p.2.off = s.pos ∧
      Took s p.1 p.2.bytes) := by
  unfold Stream.skipName
  split
  · rename_i hr
    exact rspec_ok _ _ ⟨Step.refl hs, by simp [SpanOk, sliceBytes]; have := hs.bound; omega, rfl, Took.nil s⟩
  · rename_i hne
    cases hr : s.rest with
    | nil => exact absurd hr (by simpa using hne)
    | cons b r =>
      obtain ⟨c, w, hd⟩ := decode_some hs b r hr
      rw [← hr]
      simp only [hd]
      split
      · obtain ⟨hw, hstep⟩ := step_char hs c w hd
        have hw1 := (decodeChar_width _ _ _ hd).1
        simp only [hw, if_true]
        apply rspec_bind _ _ _ _ (skipNameTail_spec T txt s.rest.length ⟨s.pos + w, s.rest.drop w⟩ _
          (by simp only [List.length_drop]; omega) hstep.2)
        rintro ⟨s', out⟩ ⟨run, ht, hso, he⟩
        simp only [List.reverse_reverse] at he
        have htt := Took.trans (took_char (s := s) w hw) ht
        subst he
        exact rspec_ok _ _ ⟨⟨htt.adv, hso⟩, htt.spanOk hs, rfl, htt⟩
      · exact errFrom_safe _ _ _ _

theorem consumeName_spec {s : Stream} (hs : SOk txt s) :
    RSpec (s.consumeName T txt) (fun p => Step txt s p.1 ∧ SpanOk txt p.2 ∧ p.2.off = s.pos ∧
      Took s p.1 p.2.bytes ∧ p.2.bytes ≠ []) := by
  unfold Stream.consumeName
  apply rspec_bind _ _ _ _ (skipName_spec T txt hs)
  rintro ⟨s', name⟩ ⟨h1, h2, h3, h4⟩
  simp only
  split
  · exact errFrom_safe _ _ _ _
  · rename_i hne
    exact rspec_ok _ _ ⟨h1, h2, h3, h4, by simpa using hne⟩

end
end Rox.Lemmas
