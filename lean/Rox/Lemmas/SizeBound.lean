/-
  Rox.Lemmas.SizeBound — C09: entity expansion is bounded. A successful parse never produces a tree
  with more than `256 × (input length) × (number of '&' in the input + 1)` nodes: every node comes
  from a token; a tokenizer run over a stream delivers at most as many tokens as the stream has
  bytes; an entity value is a slice of the input; below one reference written in the document the
  loop detector allows at most 255 further references; and every reference written in the document
  consumes one `&` of the input.

  The accounting uses the potential `Pot c = nodes + [no text node is open]` of the builder state:
  * a token adds at most its weight `cw` to `Pot` (comment / PI / `ElementEnd`: 2, `ElementStart`: 1,
    text / CDATA / attribute / entity declaration: 0), plus what the references expanded inside a
    text token add;
  * a tokenizer run delivers tokens whose total weight is at most the number of bytes it consumed
    (`parseContent_wf`, `parseDocument_wf`, `content_tokens_le`, `tokens_le_bytes`);
  * inside an expansion (detector depth ≥ 1) every expanded reference increments `refs`, so a token
    list adds at most `weight + length × (refs after − refs before)` (`token_in`, `feed_in`);
  * a reference written in the document (detector `⟨0, 0⟩`) therefore adds at most
    `length + length × 255 = 256 × length` (`processTextLoop_top`), and it consumes one `&` of its
    text token (`parseNextChunk_count`);
  * the text tokens of the document are disjoint slices of the input, so their `&`s add up to at
    most those of the input (`phiTop`, `phiTop_text`, `parseDocument_wf`).
-/
import Rox.Parse
import Rox.Lemmas.TokSpec
import Rox.Lemmas.LdRefine
import Rox.Lemmas.RangeNest
import Rox.Lemmas.DocSpans

namespace Rox.Lemmas
open Rox Rox.Spec

/-! ### The loop detector along a walk -/

theorem incRefs_facts (ld ld1 : LD) (h : ld.incRefs = some ld1) :
    ld1.depth = ld.depth ∧ (ld.depth = 0 → ld1.refs = ld.refs) ∧
      (1 ≤ ld.depth → ld1.refs = ld.refs + 1 ∧ ld.refs ≠ 255) := by
  unfold LD.incRefs at h
  split at h
  · rename_i h0
    simp only [Option.some.injEq] at h; subst h
    have : ld.depth = 0 := by simpa using h0
    exact ⟨rfl, fun _ => rfl, fun h1 => by omega⟩
  · rename_i h0
    have h0' : ld.depth ≠ 0 := by simpa using h0
    split at h
    · simp at h
    · rename_i h255
      have : ld.refs ≠ 255 := by simpa using h255
      simp only [Option.some.injEq] at h; subst h
      exact ⟨rfl, fun h1 => absurd h1 h0', fun _ => ⟨rfl, this⟩⟩

theorem incDepth_facts (ld ld2 : LD) (h : ld.incDepth = some ld2) :
    ld2.depth = ld.depth + 1 ∧ ld2.refs = ld.refs := by
  unfold LD.incDepth at h
  split at h
  · simp only [Option.some.injEq] at h; subst h; exact ⟨rfl, rfl⟩
  · simp at h

theorem decDepth_facts (ld : LD) :
    (2 ≤ ld.depth → ld.decDepth.depth = ld.depth - 1 ∧ ld.decDepth.refs = ld.refs) ∧
    (ld.depth ≤ 1 → ld.decDepth.depth = 0 ∧ ld.decDepth.refs = 0) := by
  unfold LD.decDepth
  split
  · exact ⟨fun _ => ⟨rfl, rfl⟩, fun h => by omega⟩
  · exact ⟨fun h => by omega, fun _ => ⟨rfl, rfl⟩⟩

/-- Along a walk: inside an expansion the depth is restored and the reference count only grows (and
stays within 255); at depth 0 the detector is `⟨0, 0⟩` before and after. -/
theorem walk_facts (f : Forest) : ∀ (ld ld' : LD), walk ld f = some ld' →
    (1 ≤ ld.depth → ld'.depth = ld.depth ∧ ld.refs ≤ ld'.refs ∧ (ld.refs ≤ 255 → ld'.refs ≤ 255)) ∧
    (ld.depth = 0 → ld.refs = 0 → ld'.depth = 0 ∧ ld'.refs = 0) := by
  induction f with
  | nil =>
    intro ld ld' h
    simp only [walk, Option.some.injEq] at h; subst h
    exact ⟨fun _ => ⟨rfl, Nat.le_refl _, id⟩, fun a b => ⟨a, b⟩⟩
  | cons k r ihk ihr =>
    intro ld ld' h
    simp only [walk] at h
    cases h1 : ld.incRefs with
    | none => simp [h1] at h
    | some ld1 =>
      simp only [h1] at h
      cases h2 : ld1.incDepth with
      | none => simp [h2] at h
      | some ld2 =>
        simp only [h2] at h
        cases h3 : walk ld2 k with
        | none => simp [h3] at h
        | some ld3 =>
          simp only [h3] at h
          obtain ⟨a1, a2, a3⟩ := incRefs_facts _ _ h1
          obtain ⟨b1, b2⟩ := incDepth_facts _ _ h2
          obtain ⟨c1, c2, c3⟩ := (ihk _ _ h3).1 (by omega)
          obtain ⟨d1, d2⟩ := decDepth_facts ld3
          obtain ⟨e1, e2⟩ := ihr _ _ h
          constructor
          · intro hd
            obtain ⟨a3, a4⟩ := a3 hd
            obtain ⟨d1, d1'⟩ := d1 (by omega)
            obtain ⟨e1, e1', e1''⟩ := e1 (by omega)
            refine ⟨by omega, by omega, ?_⟩
            intro hr
            exact e1'' (by rw [d1']; exact c3 (by omega))
          · intro hd hr
            have := a2 hd
            obtain ⟨d2, d2'⟩ := d2 (by omega)
            exact e2 d2 d2'

theorem Walks.facts {ld ld' : LD} (h : Walks ld ld') :
    (1 ≤ ld.depth → ld'.depth = ld.depth ∧ ld.refs ≤ ld'.refs ∧ (ld.refs ≤ 255 → ld'.refs ≤ 255)) ∧
    (ld.depth = 0 → ld.refs = 0 → ld'.depth = 0 ∧ ld'.refs = 0) := by
  obtain ⟨f, hf⟩ := h
  exact walk_facts f _ _ hf

/-! ### Token weights -/

/-- What a token may add to the potential `nodes + [no text node is open]`: a comment or PI closes
the open text node and appends a node; an `ElementStart` closes the open text node; an `ElementEnd`
closes the open text node and may append a node; a text token has the weight `tw range`. -/
def cw (tw : Range → Nat) : Token → Nat
  | .pi _ _ _ => 2
  | .comment _ _ => 2
  | .elementStart _ _ _ => 1
  | .elementEnd _ _ => 2
  | .text _ r => tw r
  | _ => 0

def cws (tw : Range → Nat) : List Token → Nat
  | [] => 0
  | t :: ts => cw tw t + cws tw ts

theorem cws_append (tw : Range → Nat) : ∀ (l1 l2 : List Token),
    cws tw (l1 ++ l2) = cws tw l1 + cws tw l2 := by
  intro l1
  induction l1 with
  | nil => intro l2; simp [cws]
  | cons t ts ih => intro l2; simp only [List.cons_append, cws, ih]; omega

open Rox.TM in
/-- If `m` succeeds with `a`, then `Q a (n + weight of the tokens m delivered)`. -/
structure TokWF {α} (tw : Range → Nat) (m : TM α) (n : Nat) (Q : α → Nat → Prop) : Prop where
  post : ∀ a, m.2 = .ok a → Q a (n + cws tw m.1)

section wf
open Rox.TM
variable (tw : Range → Nat)

theorem wf_pure {α} (a : α) (n : Nat) (Q : α → Nat → Prop) (h : Q a n) :
    TokWF tw (pure a : TM α) n Q := by
  constructor
  intro b hb
  simp only [pure, pure', Res.ok.injEq] at hb
  subst hb
  simpa [pure, pure', cws] using h

theorem wf_lift {α} (r : Res α) (n : Nat) (Q : α → Nat → Prop) (h : ∀ a, r = .ok a → Q a n) :
    TokWF tw (lift r) n Q := by
  constructor
  intro a ha
  simpa [lift, cws] using h a (by simpa [lift] using ha)

theorem wf_fail {α} (r : Res α) (n : Nat) (Q : α → Nat → Prop) (h : ∀ a, r ≠ .ok a) :
    TokWF tw (lift r) n Q :=
  wf_lift tw r n Q (fun a ha => absurd ha (h a))

theorem wf_emit (t : Token) (n : Nat) (Q : Unit → Nat → Prop) (hQ : Q () (n + cw tw t)) :
    TokWF tw (emit t) n Q := by
  constructor
  intro _ _
  simpa [emit, cws] using hQ

theorem wf_bind {α β} (m : TM α) (k : α → TM β) (n : Nat) (P : α → Nat → Prop)
    (Q : β → Nat → Prop) (hm : TokWF tw m n P)
    (hk : ∀ a n1, m.2 = .ok a → P a n1 → TokWF tw (k a) n1 Q) : TokWF tw (m >>= k) n Q := by
  obtain ⟨t1, r⟩ := m
  constructor
  cases r with
  | ok a =>
    have h2 := hk a _ rfl (hm.post a rfl)
    intro b hb
    simp only [bind, bind'] at hb ⊢
    have := h2.post b hb
    rw [cws_append, ← Nat.add_assoc]
    exact this
  | err e => intro b hb; simp [bind, bind'] at hb
  | panic s => intro b hb; simp [bind, bind'] at hb
  | fuel => intro b hb; simp [bind, bind'] at hb

theorem wf_bind_lift {α β} (r : Res α) (k : α → TM β) (n : Nat) (Q : β → Nat → Prop)
    (P : α → Prop) (hr : ∀ a, r = .ok a → P a) (hk : ∀ a, P a → TokWF tw (k a) n Q) :
    TokWF tw (lift r >>= k) n Q :=
  wf_bind tw _ _ _ (fun a c => c = n ∧ P a) _ (wf_lift tw _ _ _ (fun a ha => ⟨rfl, hr a ha⟩))
    (fun a c1 _ h => by obtain ⟨h1, h2⟩ := h; subst h1; exact hk a h2)

theorem wf_emit_pure {α} (t : Token) (a : α) (n : Nat) (Q : α → Nat → Prop)
    (hQ : Q a (n + cw tw t)) : TokWF tw (emit t >>= fun _ => (pure a : TM α)) n Q :=
  wf_bind tw _ _ _ (fun _ c => c = n + cw tw t) _ (wf_emit tw _ _ _ rfl)
    (fun _ c1 _ h1 => by subst h1; exact wf_pure tw _ _ _ hQ)

theorem wf_weaken {α} {m : TM α} {n : Nat} {Q Q' : α → Nat → Prop} (h : TokWF tw m n Q)
    (hq : ∀ a k, Q a k → Q' a k) : TokWF tw m n Q' := ⟨fun a ha => hq _ _ (h.post a ha)⟩

end wf

section tokwf
open Rox.TM
variable (T : Tables) (hT : TablesOK T) (txt : Bytes)
variable (Φ : Nat → Nat) (tw : Range → Nat)
variable (hΦ : ∀ p q, p ≤ q → Φ p + (q - p) ≤ Φ q)
variable (htw : ∀ r : Range, r.1 ≤ r.2 → Φ r.1 + tw r ≤ Φ r.2)

include hΦ

theorem parseComment_wf {s : Stream} (hs : SOk txt s) (hp : s.startsWith Lit.commentStart = true)
    (n : Nat) (hc : n ≤ Φ s.pos) :
    TokWF tw (parseComment T txt s) n (fun s' n' => n' ≤ Φ s'.pos) := by
  unfold parseComment
  apply wf_bind_lift tw _ _ _ _ (fun s1 => Step txt s s1 ∧ s1.pos = s.pos + 4)
    (advance_lit hs Lit.commentStart hp (lit_valid _ (by decide))).post
  rintro s1 ⟨h1, hp1⟩
  apply wf_bind_lift tw _ _ _ _ _ (consumeChars_spec T txt _ h1.2).post
  rintro ⟨s2, text⟩ ⟨h2, _, _, _⟩
  simp only at h2 ⊢
  apply wf_bind_lift tw _ _ _ _ _ (skipString_spec h2.2 Lit.commentEnd (lit_valid _ (by decide))).post
  rintro s3 ⟨h3, _⟩
  split
  · exact wf_fail tw _ _ _ (errFrom_ne_ok _ _ _)
  · split
    · exact wf_fail tw _ _ _ (errFrom_ne_ok _ _ _)
    · apply wf_emit_pure
      show n + 2 ≤ Φ s3.pos
      have := h2.1.pos_le; have := h3.1.pos_le
      have := hΦ s.pos s3.pos (by omega)
      omega

theorem parseCdata_wf {s : Stream} (hs : SOk txt s) (hp : s.startsWith Lit.cdataStart = true)
    (n : Nat) (hc : n ≤ Φ s.pos) :
    TokWF tw (parseCdata T txt s) n (fun s' n' => n' ≤ Φ s'.pos) := by
  unfold parseCdata
  apply wf_bind_lift tw _ _ _ _ (fun s1 => Step txt s s1 ∧ s1.pos = s.pos + 9)
    (advance_lit hs Lit.cdataStart hp (lit_valid _ (by decide))).post
  rintro s1 ⟨h1, hp1⟩
  apply wf_bind_lift tw _ _ _ _ _ (consumeChars_spec T txt _ h1.2).post
  rintro ⟨s2, text⟩ ⟨h2, _, _, _⟩
  simp only at h2 ⊢
  apply wf_bind_lift tw _ _ _ _ _ (skipString_spec h2.2 Lit.cdataEnd (lit_valid _ (by decide))).post
  rintro s3 ⟨h3, _⟩
  apply wf_emit_pure
  show n + 0 ≤ Φ s3.pos
  have := h2.1.pos_le; have := h3.1.pos_le
  have := hΦ s.pos s3.pos (by omega)
  omega

theorem parsePi_wf (hT : TablesOK T) {s : Stream} (hs : SOk txt s) (hp : s.startsWith Lit.piStart = true)
    (n : Nat) (hc : n ≤ Φ s.pos) :
    TokWF tw (parsePi T txt s) n (fun s' n' => n' ≤ Φ s'.pos) := by
  unfold parsePi
  split
  · exact wf_fail tw _ _ _ (errAt_ne_ok _ _ _)
  · apply wf_bind_lift tw _ _ _ _ (fun s1 => Step txt s s1 ∧ s1.pos = s.pos + 2)
      (advance_lit hs Lit.piStart hp (lit_valid _ (by decide))).post
    rintro s1 ⟨h1, hp1⟩
    apply wf_bind_lift tw _ _ _ _ _ (consumeName_spec T txt h1.2).post
    rintro ⟨s2, target⟩ ⟨h2, _⟩
    simp only at h2 ⊢
    apply wf_bind_lift tw _ _ _ _ _ (declConsumeSpaces_spec T hT txt h2.2).post
    intro s3 h3
    apply wf_bind_lift tw _ _ _ _ _ (consumeChars_spec T txt _ h3.2).post
    rintro ⟨s4, content⟩ ⟨h4, _⟩
    simp only at h4 ⊢
    apply wf_bind_lift tw _ _ _ _ _ (skipString_spec h4.2 Lit.piEnd (lit_valid _ (by decide))).post
    rintro s5 ⟨h5, _⟩
    apply wf_emit_pure
    show n + 2 ≤ Φ s5.pos
    have := h2.1.pos_le; have := h3.1.pos_le; have := h4.1.pos_le; have := h5.1.pos_le
    have := hΦ s.pos s5.pos (by omega)
    omega

omit hΦ in
include htw in
theorem parseText_wf {s : Stream} (hs : SOk txt s) (n : Nat) (hc : n ≤ Φ s.pos) :
    TokWF tw (parseText T txt s) n (fun s' n' => n' ≤ Φ s'.pos) := by
  unfold parseText
  apply wf_bind_lift tw _ _ _ _ _ (consumeChars_spec T txt _ hs).post
  rintro ⟨s1, text⟩ ⟨h1, _⟩
  simp only at h1 ⊢
  split
  · exact wf_fail tw _ _ _ (errAt_ne_ok _ _ _)
  · apply wf_emit_pure
    show n + tw (s.pos, s1.pos) ≤ Φ s1.pos
    have := htw (s.pos, s1.pos) h1.1.pos_le
    simp only at this
    omega

theorem parseMisc_wf (hT : TablesOK T) : ∀ (fuel : Nat) (s : Stream) (n : Nat), SOk txt s → n ≤ Φ s.pos →
    TokWF tw (parseMisc T txt fuel s) n (fun s' n' => n' ≤ Φ s'.pos) := by
  intro fuel
  induction fuel with
  | zero => intro s n _ _; unfold parseMisc; exact wf_fail tw _ _ _ (by simp)
  | succ k ih =>
    intro s n hs hc
    unfold parseMisc
    split
    · exact wf_pure tw _ _ _ hc
    · have h1 := skipSpaces_step T hT hs
      have hp1 := h1.1.pos_le
      have hc1 : n ≤ Φ (s.skipSpaces T).pos := by
        have := hΦ s.pos (s.skipSpaces T).pos hp1; omega
      simp only
      split
      · rename_i hcs
        refine wf_bind tw _ _ _ _ _ (parseComment_wf T txt Φ tw hΦ h1.2 hcs n hc1) ?_
        intro s2 n1 hok hn1
        exact ih s2 n1 ((parseComment_spec T hT txt h1.2 hcs).post s2 hok).1.2 hn1
      · split
        · rename_i hcs
          refine wf_bind tw _ _ _ _ _ (parsePi_wf T txt Φ tw hΦ hT h1.2 hcs n hc1) ?_
          intro s2 n1 hok hn1
          exact ih s2 n1 ((parsePi_spec T hT txt h1.2 hcs).post s2 hok).1.2 hn1
        · exact wf_pure tw _ _ _ hc1

theorem parseProlog_wf (hT : TablesOK T) (hv : ValidUtf8 txt) :
    TokWF tw (parseProlog T txt) (Φ 0) (fun s' n' => n' ≤ Φ s'.pos) := by
  unfold parseProlog
  have hs0 := sok_new txt hv
  have hmono : ∀ p q, p ≤ q → Φ p ≤ Φ q := fun p q h => by have := hΦ p q h; omega
  apply wf_bind_lift tw _ _ _ _ (fun s1 => SOk txt s1)
  · intro s1 h1
    split at h1
    · rename_i hb
      have : ValidUtf8 Lit.bom := by unfold ValidUtf8; decide
      exact ((advance_lit hs0 Lit.bom hb this).post s1 h1).1.2
    · simp only [Res.ok.injEq] at h1; subst h1; exact hs0
  intro s1 h1
  apply wf_bind_lift tw _ _ _ _ (fun s2 => SOk txt s2)
  · intro s2 h2
    split at h2
    · rename_i hd
      exact ((parseDeclaration_spec T hT txt h1 hd).post s2 h2).2
    · simp only [Res.ok.injEq] at h2; subst h2; exact h1
  intro s2 h2
  refine wf_bind tw _ _ _ _ _ (parseMisc_wf T txt Φ tw hΦ hT _ s2 (Φ 0) h2 (hmono _ _ (Nat.zero_le _))) ?_
  intro s3 n1 hok h3
  have hs3 := (parseMisc_spec T hT txt _ s2 (by omega) h2).post s3 hok
  have := (skipSpaces_step T hT hs3.2).1.pos_le
  have := hmono _ _ this
  exact wf_pure tw _ _ _ (by omega)

omit hΦ in
/-- `consume_qname` consumes at least one byte. -/
theorem consumeQName_progress {s : Stream} (hs : SOk txt s) (p : Stream × Span × Span)
    (h : s.consumeQName T txt = .ok p) : s.pos < p.1.pos := by
  unfold Stream.consumeQName at h
  rw [Res.bind_eq_ok] at h
  obtain ⟨⟨s', all, split⟩, hq, h⟩ := h
  obtain ⟨run, ht, hso, he, hsp⟩ := (qnameLoop_spec T txt s.pos _ s [] none (by omega) hs).post _ hq
  simp only [List.reverse_nil, List.nil_append] at he
  subst he
  have hpos : s'.pos = s.pos + all.length := ht.2.1
  simp only at h
  split at h
  · rename_i sp
    have hb : s.pos ≤ sp ∧ sp < s'.pos := by
      rcases hsp sp rfl with h' | h'
      · simp at h'
      · exact h'
    split at h
    · exact absurd h (errFrom_ne_ok _ _ _ _)
    · split at h
      · exact absurd h (errFrom_ne_ok _ _ _ _)
      · simp only [pure, Res.ok.injEq] at h; subst h; simp only; omega
  · split at h
    · exact absurd h (errFrom_ne_ok _ _ _ _)
    · split at h
      · exact absurd h (errFrom_ne_ok _ _ _ _)
      · rename_i hns
        simp only [pure, Res.ok.injEq] at h; subst h
        simp only
        have : all ≠ [] := by
          intro h0
          rw [h0] at hns
          simp [Stream.strIsNameStart] at hns
        have : 0 < all.length := List.length_pos_iff.mpr this
        omega

theorem parseCloseElement_wf (hT : TablesOK T) {s : Stream} (hs : SOk txt s)
    (hp : s.startsWith [60, 47] = true) (n : Nat) (hc : n ≤ Φ s.pos) :
    TokWF tw (parseCloseElement T txt s) n (fun s' n' => n' ≤ Φ s'.pos) := by
  unfold parseCloseElement
  apply wf_bind_lift tw _ _ _ _ (fun s1 => Step txt s s1 ∧ s1.pos = s.pos + 2)
    (advance_lit hs [60, 47] hp (lit_valid _ (by decide))).post
  rintro s1 ⟨h1, hp1⟩
  apply wf_bind_lift tw _ _ _ _ _ (consumeQName_spec T txt h1.2).post
  rintro ⟨s2, pfx, loc⟩ ⟨h2, _⟩
  simp only at h2 ⊢
  have h3 := skipSpaces_step T hT h2.2
  apply wf_bind_lift tw _ _ _ _ _ (consumeByte_spec h3.2 bGt (by decide)).post
  rintro s4 ⟨h4, _⟩
  apply wf_emit_pure
  show n + 2 ≤ Φ s4.pos
  have := h2.1.pos_le; have := h3.1.pos_le; have := h4.1.pos_le
  have := hΦ s.pos s4.pos (by omega)
  omega

/-- The attribute loop: the `ElementEnd` of the start tag is paid by one byte of the tag name and
its own first byte. -/
theorem startTagLoop_wf (hT : TablesOK T) : ∀ (fuel : Nat) (s : Stream) (n : Nat), SOk txt s →
    n + 1 ≤ Φ s.pos →
    TokWF tw (startTagLoop T txt fuel s) n (fun p n' => n' ≤ Φ p.1.pos) := by
  intro fuel
  induction fuel with
  | zero => intro s n _ _; unfold startTagLoop; exact wf_fail tw _ _ _ (by simp)
  | succ k ih =>
    intro s n hs hc
    unfold startTagLoop
    split
    · exact wf_pure tw _ _ _ (by show n ≤ Φ s.pos; omega)
    · have h1 := skipSpaces_step T hT hs
      have hp1 := h1.1.pos_le
      simp only
      apply wf_bind_lift tw _ _ _ _ (fun c => ∃ r, (s.skipSpaces T).rest = c :: r)
      · intro c hcb
        unfold Stream.currByte at hcb
        split at hcb
        · simp at hcb
        · rename_i b r hr
          simp only [Res.ok.injEq] at hcb
          subst hcb
          exact ⟨r, hr⟩
      rintro c ⟨r, hr⟩
      have hadv : ∀ (b : UInt8), b < 128 → (s.skipSpaces T).rest = b :: r →
          ∀ s2, (s.skipSpaces T).advance 1 = .ok s2 →
            Step txt (s.skipSpaces T) s2 ∧ s2.pos = (s.skipSpaces T).pos + 1 := by
        intro b hb hr' s2 h2
        unfold Stream.advance at h2
        have : 1 ≤ (s.skipSpaces T).rest.length := by rw [hr']; simp
        simp only [this, if_true, Res.ok.injEq] at h2
        subst h2
        have hd : (s.skipSpaces T).rest.drop 1 = r := by rw [hr']; rfl
        rw [hd]; exact ⟨step_ascii h1.2 b r hr' hb, rfl⟩
      split
      · rename_i hc'
        have : c = bSlash := by simpa using hc'
        subst this
        apply wf_bind_lift tw _ _ _ _ _ (hadv bSlash (by decide) hr)
        rintro s2 ⟨h2, hp2⟩
        apply wf_bind_lift tw _ _ _ _ _ (consumeByte_spec h2.2 bGt (by decide)).post
        rintro s3 ⟨h3, hp3⟩
        apply wf_emit_pure
        show n + 2 ≤ Φ s3.pos
        have := hΦ s.pos s3.pos (by omega)
        omega
      · split
        · rename_i _ hc'
          have : c = bGt := by simpa using hc'
          subst this
          apply wf_bind_lift tw _ _ _ _ _ (hadv bGt (by decide) hr)
          rintro s2 ⟨h2, hp2⟩
          apply wf_emit_pure
          show n + 2 ≤ Φ s2.pos
          have := hΦ s.pos s2.pos (by omega)
          omega
        · -- an attribute
          apply wf_bind_lift tw _ _ _ _ (fun s2 => Step txt (s.skipSpaces T) s2)
          · intro s2 h2
            split at h2
            · exact (consumeSpaces_spec T hT h1.2).post s2 h2
            · simp only [Res.ok.injEq] at h2; subst h2; exact Step.refl h1.2
          intro s2 h2
          apply wf_bind_lift tw _ _ _ _ _ (consumeQName_spec T txt h2.2).post
          rintro ⟨s3, pfx, loc⟩ ⟨h3, _⟩
          simp only at h3 ⊢
          apply wf_bind_lift tw _ _ _ _ _ (consumeEq_spec T hT h3.2).post
          intro s4 h4
          apply wf_bind_lift tw _ _ _ _ _ (consumeQuote_spec h4.2).post
          rintro ⟨s5, q⟩ ⟨h5, hq, _⟩
          simp only at h5 ⊢
          apply wf_bind_lift tw _ _ _ _ _ (advanceUntil2_spec txt h5.2 q bLt hq (by decide)).post
          rintro ⟨s6, value⟩ ⟨h6, _⟩
          simp only at h6 ⊢
          apply wf_bind_lift tw _ _ _ _ (fun _ => True) (fun _ _ => trivial)
          intro _ _
          apply wf_bind_lift tw _ _ _ _ _ (consumeByte_spec h6.2 q hq).post
          rintro s7 ⟨h7, hp7⟩
          have hle : s.pos ≤ s7.pos := by
            have := h2.1.pos_le; have := h3.1.pos_le; have := h4.1.pos_le; have := h5.1.pos_le
            have := h6.1.pos_le; have := h7.1.pos_le; omega
          refine wf_bind tw _ _ _ (fun _ c => c = n + 0) _ (wf_emit tw _ _ _ rfl) ?_
          intro _ n1 _ h1'
          subst h1'
          refine ih s7 _ h7.2 ?_
          have := hΦ s.pos s7.pos hle
          omega

theorem parseStartTag_wf (hT : TablesOK T) {s : Stream} (hs : SOk txt s) (b : UInt8) (r : Bytes)
    (hr : s.rest = b :: r) (hb : b < 128) (n : Nat) (hc : n ≤ Φ s.pos) :
    TokWF tw (parseStartTag T txt s) n (fun p n' => n' ≤ Φ p.1.pos) := by
  unfold parseStartTag
  apply wf_bind_lift tw _ _ _ _ (fun s1 => Step txt s s1 ∧ s1.pos = s.pos + 1)
  · intro s1 h1
    unfold Stream.advance at h1
    have : 1 ≤ s.rest.length := by rw [hr]; simp
    simp only [this, if_true, Res.ok.injEq] at h1
    subst h1
    have hd : s.rest.drop 1 = r := by rw [hr]; rfl
    rw [hd]; exact ⟨step_ascii hs b r hr hb, rfl⟩
  rintro s1 ⟨h1, hp1⟩
  apply wf_bind_lift tw _ _ _ _ (fun p => Step txt s1 p.1 ∧ s1.pos < p.1.pos)
  · intro p hp
    exact ⟨((consumeQName_spec T txt h1.2).post p hp).1, consumeQName_progress T txt h1.2 p hp⟩
  rintro ⟨s2, pfx, loc⟩ ⟨h2, hlt⟩
  simp only at h2 hlt ⊢
  refine wf_bind tw _ _ _ (fun _ c => c = n + 1) _ (wf_emit tw _ _ _ rfl) ?_
  intro _ n1 _ h1'
  subst h1'
  refine wf_bind tw _ _ _ _ _ (startTagLoop_wf T txt Φ tw hΦ hT _ s2 (n + 1) h2.2 ?_) ?_
  · have := hΦ s.pos s2.pos (by omega)
    omega
  rintro ⟨s3, fin⟩ n1 _ h3
  simp only at h3 ⊢
  split
  · exact wf_fail tw _ _ _ (by simp)
  · exact wf_pure tw _ _ _ h3

end tokwf

section tokwf2
open Rox.TM
variable (T : Tables) (hT : TablesOK T) (txt : Bytes)
variable (Φ : Nat → Nat) (tw : Range → Nat)
variable (hΦ : ∀ p q, p ≤ q → Φ p + (q - p) ≤ Φ q)
variable (htw : ∀ r : Range, r.1 ≤ r.2 → Φ r.1 + tw r ≤ Φ r.2)

include hT hΦ htw

/-- Element content: the weight of the delivered tokens is paid by the bytes consumed. -/
theorem parseContent_wf : ∀ (fuel depth : Nat) (s : Stream) (n : Nat), SOk txt s → n ≤ Φ s.pos →
    TokWF tw (parseContent T txt fuel depth s) n (fun s' n' => n' ≤ Φ s'.pos) := by
  intro fuel
  induction fuel with
  | zero => intro d s n _ _; unfold parseContent; exact wf_fail tw _ _ _ (by simp)
  | succ k ih =>
    intro depth s n hs hc
    unfold parseContent
    split
    · exact wf_pure tw _ _ _ hc
    · rename_i c r hr
      have cont : ∀ (d' : Nat) (m : TM Stream), Spec m (TokOk txt) (Step1 txt s) →
          TokWF tw m n (fun s' n' => n' ≤ Φ s'.pos) →
          TokWF tw (m >>= fun s' => parseContent T txt k d' s') n (fun s' n' => n' ≤ Φ s'.pos) := by
        intro d' m hm hpf
        refine wf_bind tw _ _ _ _ _ hpf ?_
        intro s2 n1 hok h1
        have h2 := hm.post s2 hok
        exact ih d' s2 _ h2.1.2 h1
      split
      · rename_i hc'
        have hcl : c = bLt := by simpa using hc'
        subst hcl
        split
        · rename_i nb hnb
          split
          · split
            · rename_i hcs
              exact cont depth _ (parseComment_spec T hT txt hs hcs)
                (parseComment_wf T txt Φ tw hΦ hs hcs n hc)
            · split
              · rename_i hcs
                exact cont depth _ (parseCdata_spec T hT txt hs hcs)
                  (parseCdata_wf T txt Φ tw hΦ hs hcs n hc)
              · exact wf_fail tw _ _ _ (errAt_ne_ok _ _ _)
          · split
            · rename_i _ hq
              have : nb = bQuest := by simpa using hq
              subst this
              have hsw := startsWith_two bLt bQuest r hr hnb
              exact cont depth _ (parsePi_spec T hT txt hs hsw)
                (parsePi_wf T txt Φ tw hΦ hT hs hsw n hc)
            · split
              · rename_i _ _ hsl
                have : nb = bSlash := by simpa using hsl
                subst this
                have hsw := startsWith_two bLt bSlash r hr hnb
                refine wf_bind tw _ _ _ _ _ (parseCloseElement_wf T txt Φ tw hΦ hT hs hsw n hc) ?_
                intro s2 n1 hok h1
                have h2 := (parseCloseElement_spec T hT txt hs hsw).post s2 hok
                split
                · exact wf_pure tw _ _ _ h1
                · exact ih _ s2 _ h2.1.2 h1
              · refine wf_bind tw _ _ _ _ _
                  (parseStartTag_wf T txt Φ tw hΦ hT hs bLt r hr (by decide) n hc) ?_
                rintro ⟨s2, opened⟩ n1 hok h1
                have h2 := (parseStartTag_spec T hT txt hs bLt r hr (by decide)).post _ hok
                simp only at h1 h2 ⊢
                exact ih _ s2 _ h2.1.2 h1
        · exact wf_fail tw _ _ _ (errAt_ne_ok _ _ _)
      · rename_i hc'
        have hne : c ≠ bLt := by simpa using hc'
        exact cont depth _ (parseText_spec T hT txt hs c r hr hne)
          (parseText_wf T txt Φ tw htw hs n hc)

theorem parseElement_wf {s : Stream} (hs : SOk txt s) (r : Bytes) (hr : s.rest = bLt :: r)
    (n : Nat) (hc : n ≤ Φ s.pos) :
    TokWF tw (parseElement T txt s) n (fun s' n' => n' ≤ Φ s'.pos) := by
  unfold parseElement
  refine wf_bind tw _ _ _ _ _ (parseStartTag_wf T txt Φ tw hΦ hT hs bLt r hr (by decide) n hc) ?_
  rintro ⟨s2, opened⟩ n1 hok h1
  have h2 := (parseStartTag_spec T hT txt hs bLt r hr (by decide)).post _ hok
  simp only at h1 h2 ⊢
  split
  · exact parseContent_wf T hT txt Φ tw hΦ htw _ 0 s2 _ h2.1.2 h1
  · exact wf_pure tw _ _ _ h1

theorem parseBody_wf {s : Stream} (hs : SOk txt s) (n : Nat) (hc : n ≤ Φ s.pos) :
    TokWF tw (parseBody T txt s) n (fun _ n' => n' ≤ Φ txt.length) := by
  unfold parseBody
  have hmono : ∀ p q, p ≤ q → Φ p ≤ Φ q := fun p q h => by have := hΦ p q h; omega
  have h1 := skipSpaces_step T hT hs
  have hp1 := h1.1.pos_le
  refine wf_bind tw _ _ _ (fun s' n' => SOk txt s' ∧ n' ≤ Φ s'.pos) _ ?_ ?_
  · unfold parseRootElement
    split
    · rename_i hcb
      cases hr : (s.skipSpaces T).rest with
      | nil => simp [Stream.currByte?, hr] at hcb
      | cons b r =>
        have : b = bLt := by simpa [Stream.currByte?, hr] using hcb
        subst this
        have hw := parseElement_wf T hT txt Φ tw hΦ htw h1.2 r hr n
          (by have := hmono _ _ hp1; omega)
        exact ⟨fun a ha => ⟨((parseElement_spec T hT txt h1.2 r hr).post a ha).2, hw.post a ha⟩⟩
    · exact wf_pure tw _ _ _ ⟨h1.2, by have := hmono _ _ hp1; omega⟩
  intro s2 n1 _ h2
  refine wf_bind tw _ _ _ (fun s' n' => SOk txt s' ∧ n' ≤ Φ s'.pos) _ ?_ ?_
  · have hw := parseMisc_wf T txt Φ tw hΦ hT (s2.rest.length + 1) s2 n1 h2.1 h2.2
    exact ⟨fun a ha =>
      ⟨((parseMisc_spec T hT txt _ s2 (by omega) h2.1).post a ha).2, hw.post a ha⟩⟩
  intro s3 n2 _ h3
  split
  · exact wf_fail tw _ _ _ (errAt_ne_ok _ _ _)
  · refine wf_pure tw _ _ _ ?_
    have := h3.1.bound
    have := hmono s3.pos txt.length (by omega)
    omega

end tokwf2

section tokwf3
open Rox.TM
variable (T : Tables) (hT : TablesOK T) (txt : Bytes)
variable (Φ : Nat → Nat) (tw : Range → Nat)
variable (hΦ : ∀ p q, p ≤ q → Φ p + (q - p) ≤ Φ q)
variable (htw : ∀ r : Range, r.1 ≤ r.2 → Φ r.1 + tw r ≤ Φ r.2)

include hT hΦ

theorem parseEntityDeclBody_wf {s : Stream} (hs : SOk txt s) (isGe : Bool) (n : Nat)
    (hc : n ≤ Φ s.pos) :
    TokWF tw (parseEntityDeclBody T txt s isGe) n (fun s' n' => n' ≤ Φ s'.pos) := by
  unfold parseEntityDeclBody
  have hmono : ∀ p q, p ≤ q → Φ p ≤ Φ q := fun p q h => by have := hΦ p q h; omega
  apply wf_bind_lift tw _ _ _ _ _ (consumeName_spec T txt hs).post
  rintro ⟨s1, name⟩ ⟨h1, _⟩
  simp only at h1 ⊢
  apply wf_bind_lift tw _ _ _ _ _ (consumeSpaces_spec T hT h1.2).post
  intro s2 h2
  apply wf_bind_lift tw _ _ _ _ _ (parseEntityDef_spec T hT txt h2.2 isGe).post
  rintro ⟨s3, defn⟩ ⟨h3, _⟩
  simp only at h3 ⊢
  have h4 := skipSpaces_step T hT h3.2
  have hfin : ∀ n1, n1 = n → TokWF tw (lift ((s3.skipSpaces T).consumeByte txt bGt)) n1
      (fun s' n' => n' ≤ Φ s'.pos) := by
    intro n1 hn1
    subst hn1
    apply wf_lift
    intro s5 h5
    have h5' := ((consumeByte_spec h4.2 bGt (by decide)).post s5 h5).1
    have := h1.1.pos_le; have := h2.1.pos_le; have := h3.1.pos_le; have := h4.1.pos_le
    have := h5'.1.pos_le
    have := hmono s.pos s5.pos (by omega)
    omega
  split
  · split
    · exact wf_bind tw _ _ _ (fun _ c => c = n) _ (wf_emit tw _ _ _ rfl) (fun _ n1 _ h => hfin n1 h)
    · exact hfin n rfl
  · exact hfin n rfl

theorem parseEntityDecl_wf {s : Stream} (hs : SOk txt s) (hp : s.startsWith Lit.entity_ = true)
    (n : Nat) (hc : n ≤ Φ s.pos) :
    TokWF tw (parseEntityDecl T txt s) n (fun s' n' => n' ≤ Φ s'.pos) := by
  unfold parseEntityDecl
  have hmono : ∀ p q, p ≤ q → Φ p ≤ Φ q := fun p q h => by have := hΦ p q h; omega
  apply wf_bind_lift tw _ _ _ _ (fun s1 => Step txt s s1 ∧ s1.pos = s.pos + 8)
    (advance_lit hs Lit.entity_ hp (lit_valid _ (by decide))).post
  rintro s1 ⟨h1, hp1⟩
  apply wf_bind_lift tw _ _ _ _ _ (consumeSpaces_spec T hT h1.2).post
  intro s2 h2
  have h3 := tryConsumeByte_step h2.2 bPct (by decide)
  simp only
  split
  · apply wf_bind_lift tw _ _ _ _ _ (consumeSpaces_spec T hT h3.2).post
    intro s4 h4
    refine parseEntityDeclBody_wf T hT txt Φ tw hΦ h4.2 false n ?_
    have := h2.1.pos_le; have := h3.1.pos_le; have := h4.1.pos_le
    have := hmono s.pos s4.pos (by omega)
    omega
  · refine parseEntityDeclBody_wf T hT txt Φ tw hΦ h3.2 true n ?_
    have := h2.1.pos_le; have := h3.1.pos_le
    have := hmono s.pos (s2.tryConsumeByte bPct).1.pos (by omega)
    omega

theorem doctypeLoop_wf (start : Nat) : ∀ (fuel : Nat) (s : Stream) (n : Nat), SOk txt s →
    n ≤ Φ s.pos →
    TokWF tw (doctypeLoop T txt start fuel s) n (fun s' n' => SOk txt s' ∧ n' ≤ Φ s'.pos) := by
  intro fuel
  have hmono : ∀ p q, p ≤ q → Φ p ≤ Φ q := fun p q h => by have := hΦ p q h; omega
  induction fuel with
  | zero => intro s n _ _; unfold doctypeLoop; exact wf_fail tw _ _ _ (by simp)
  | succ k ih =>
    intro s n hs hc
    unfold doctypeLoop
    split
    · exact wf_pure tw _ _ _ ⟨hs, hc⟩
    · have h1 := skipSpaces_step T hT hs
      have hp1 := h1.1.pos_le
      have hc1 : n ≤ Φ (s.skipSpaces T).pos := by have := hmono _ _ hp1; omega
      simp only
      split
      · rename_i hcs
        refine wf_bind tw _ _ _ _ _ (parseEntityDecl_wf T hT txt Φ tw hΦ h1.2 hcs n hc1) ?_
        intro s2 n1 hok hn1
        exact ih s2 n1 ((parseEntityDecl_spec T hT txt h1.2 hcs).post s2 hok).1.2 hn1
      · split
        · rename_i hcs
          refine wf_bind tw _ _ _ _ _ (parseComment_wf T txt Φ tw hΦ h1.2 hcs n hc1) ?_
          intro s2 n1 hok hn1
          exact ih s2 n1 ((parseComment_spec T hT txt h1.2 hcs).post s2 hok).1.2 hn1
        · split
          · rename_i hcs
            refine wf_bind tw _ _ _ _ _ (parsePi_wf T txt Φ tw hΦ hT h1.2 hcs n hc1) ?_
            intro s2 n1 hok hn1
            exact ih s2 n1 ((parsePi_spec T hT txt h1.2 hcs).post s2 hok).1.2 hn1
          · split
            · rename_i hcs
              apply wf_bind_lift tw _ _ _ _ (fun s2 => Step txt (s.skipSpaces T) s2)
              · intro s2 h2
                exact ((advance_lit h1.2 Lit.rbr hcs (lit_valid _ (by decide))).post s2 h2).1
              intro s2 h2
              have h3 := skipSpaces_step T hT h2.2
              try simp only
              split
              · exact wf_fail tw _ _ _ (by simp)
              · rename_i c r hr
                split
                · rename_i hcg
                  have : c = bGt := by simpa using hcg
                  subst this
                  have h4 := step_ascii h3.2 bGt r hr (by decide)
                  refine wf_pure tw _ _ _ ⟨h4.2, ?_⟩
                  have := h2.1.pos_le; have := h3.1.pos_le
                  have := hmono s.pos ((s2.skipSpaces T).pos + 1) (by omega)
                  show n ≤ Φ ((s2.skipSpaces T).pos + 1)
                  omega
                · exact wf_fail tw _ _ _ (errAt_ne_ok _ _ _)
            · split
              · cases hcd : consumeDecl txt (s.skipSpaces T) with
                | mk s2 failed =>
                  simp only
                  split
                  · exact wf_fail tw _ _ _ (errFrom_ne_ok _ _ _)
                  · rename_i hf'
                    have hnf : (consumeDecl txt (s.skipSpaces T)).2 = false := by
                      rw [hcd]; simpa using hf'
                    have h2 := consumeDecl_step txt h1.2 hnf
                    rw [hcd] at h2
                    simp only at h2
                    refine ih s2 n h2.1.2 ?_
                    have := h2.1.1.pos_le
                    have := hmono s.pos s2.pos (by omega)
                    omega
              · exact wf_fail tw _ _ _ (errAt_ne_ok _ _ _)

theorem parseDoctype_wf {s : Stream} (hs : SOk txt s) (hp : s.startsWith Lit.doctype = true)
    (n : Nat) (hc : n ≤ Φ s.pos) :
    TokWF tw (parseDoctype T txt s) n (fun s' n' => SOk txt s' ∧ n' ≤ Φ s'.pos) := by
  unfold parseDoctype
  have hmono : ∀ p q, p ≤ q → Φ p ≤ Φ q := fun p q h => by have := hΦ p q h; omega
  apply wf_bind_lift tw _ _ _ _ _ (parseDoctypeStart_spec T hT txt hs hp).post
  rintro s1 ⟨h1, c, r, hr, hcc⟩
  have hnoop : s1.skipSpaces T = s1 := by
    apply skipSpaces_noop T s1 c r hr
    rcases hcc with rfl | rfl
    · exact hT.lbr_not_space
    · exact hT.gt_not_space
  simp only [hnoop, hr]
  have hlt : c < 128 := by rcases hcc with rfl | rfl <;> decide
  have hstep := step_ascii h1.1.2 c r hr hlt
  have hle := h1.1.1.pos_le
  split
  · refine wf_pure tw _ _ _ ⟨hstep.2, ?_⟩
    show n ≤ Φ (s1.pos + 1)
    have := hmono s.pos (s1.pos + 1) (by omega)
    omega
  · apply wf_bind_lift tw _ _ _ _ (fun s3 => Step txt s1 s3)
    · intro s3 h3
      unfold Stream.advance at h3
      have : 1 ≤ s1.rest.length := by rw [hr]; simp
      simp only [this, if_true, Res.ok.injEq] at h3
      subst h3
      have : s1.rest.drop 1 = r := by rw [hr]; rfl
      rw [this]; exact hstep
    intro s3 h3
    refine doctypeLoop_wf T hT txt Φ tw hΦ s.pos _ s3 n h3.2 ?_
    have := h3.1.pos_le
    have := hmono s.pos s3.pos (by omega)
    omega

include htw in
/-- **Tokens are paid by bytes** (the whole document): the weight of the delivered tokens, counted
from `Φ 0`, stays within `Φ (length of the input)`. -/
theorem parseDocument_wf (hv : ValidUtf8 txt) (allowDtd : Bool) :
    TokWF tw (parseDocument T txt allowDtd) (Φ 0) (fun _ n' => n' ≤ Φ txt.length) := by
  unfold parseDocument
  refine wf_bind tw _ _ _ _ _ (parseProlog_wf T txt Φ tw hΦ hT hv) ?_
  intro s1 n1 hok1 h1
  have hs1 := (parseProlog_spec T hT txt hv).post s1 hok1
  split
  · rename_i hd
    split
    · exact wf_fail tw _ _ _ (by simp)
    · refine wf_bind tw _ _ _ _ _ (parseDoctype_wf T hT txt Φ tw hΦ hs1 hd n1 h1) ?_
      intro s2 n2 _ h2
      refine wf_bind tw _ _ _ (fun s' n' => SOk txt s' ∧ n' ≤ Φ s'.pos) _ ?_ ?_
      · have hw := parseMisc_wf T txt Φ tw hΦ hT (s2.rest.length + 1) s2 n2 h2.1 h2.2
        exact ⟨fun a ha =>
          ⟨((parseMisc_spec T hT txt _ s2 (by omega) h2.1).post a ha).2, hw.post a ha⟩⟩
      intro s3 n3 _ h3
      exact parseBody_wf T hT txt Φ tw hΦ htw h3.1 n3 h3.2
  · exact parseBody_wf T hT txt Φ tw hΦ htw hs1 n1 h1

end tokwf3

/-! ### The potential of the builder: nodes, plus one while no text node is open -/

/-- `nodes.size`, plus one when `after_text` is empty (the next text fragment opens a node). -/
def Pot (c : Ctx) : Nat := c.doc.nodes.size + (if c.afterText.isEmpty then 1 else 0)

/-- the function neither appends a node nor touches `after_text` -/
def NA (c c' : Ctx) : Prop :=
  c'.doc.nodes.size = c.doc.nodes.size ∧ c'.afterText = c.afterText

theorem NA.refl (c : Ctx) : NA c c := ⟨rfl, rfl⟩
theorem NA.trans {a b c : Ctx} (h1 : NA a b) (h2 : NA b c) : NA a c :=
  ⟨h2.1.trans h1.1, h2.2.trans h1.2⟩
theorem NA.m {c c' : Ctx} (h : NA c c') : Pot c' = Pot c := by unfold Pot; rw [h.1, h.2]

theorem appendNode_na (c c' : Ctx) (k : Kind) (r : Range) (id : Nat)
    (h : c.appendNode k r = .ok (c', id)) :
    c'.doc.nodes.size = c.doc.nodes.size + 1 ∧ c'.afterText = c.afterText := by
  refine ⟨(appendNode_size c c' k r id h).2.1, ?_⟩
  unfold Ctx.appendNode at h
  split at h
  · simp at h
  · rw [Res.bind_eq_ok] at h
    obtain ⟨newId, hid, h⟩ := h
    simp only at h
    split at h
    · simp at h
    · split at h
      · simp at h
      · split at h
        · simp at h
        · rw [Res.bind_eq_ok] at h
          obtain ⟨nodes', hs, h⟩ := h
          simp only [pure, Res.ok.injEq, Prod.mk.injEq] at h
          obtain ⟨hc, hi⟩ := h
          subst hc
          rfl

theorem appendText_m (c c' : Ctx) (t : Str) (r : Range) (h : c.appendText t r = .ok c') :
    Pot c' ≤ Pot c := by
  unfold Ctx.appendText at h
  try dsimp only at h
  split at h
  · rename_i hemp
    rw [Res.bind_eq_ok] at h
    obtain ⟨⟨c2, id⟩, h2, h1⟩ := h
    res_norm at h1
    subst h1
    obtain ⟨a1, a2⟩ := appendNode_na _ _ _ _ _ h2
    simp only [Ctx.log] at a1 a2 hemp
    unfold Pot
    simp only [a1, a2, hemp]
    simp
  · rename_i hemp
    res_norm at h
    subst h
    simp only [Ctx.log] at hemp
    unfold Pot
    simp only [Ctx.log]
    have : c.afterText ≠ [] := by simpa using hemp
    simp [this]

theorem mergeText_na (c c' : Ctx) (h : c.mergeText = .ok c') : NA c c' := by
  unfold Ctx.mergeText at h
  try dsimp only at h
  split at h
  · simp at h
  · split at h
    · simp at h
    · split at h
      · simp only [Res.ok.injEq] at h; subst h; exact ⟨by simp [Ctx.setNode], rfl⟩
      · simp at h

theorem resetAfterText_m (c c' : Ctx) (h : c.resetAfterText = .ok c') :
    c'.doc.nodes.size = c.doc.nodes.size ∧ Pot c' ≤ Pot c + 1 := by
  unfold Ctx.resetAfterText at h
  try dsimp only at h
  split at h
  · simp only [Res.ok.injEq] at h; subst h; exact ⟨rfl, by omega⟩
  · split at h
    · rw [Res.bind_eq_ok] at h
      obtain ⟨c1, h1, h⟩ := h
      res_norm at h
      subst h
      have := mergeText_na _ _ h1
      refine ⟨this.1, ?_⟩
      unfold Pot
      simp only [this.1]
      split <;> omega
    · res_norm at h; subst h
      refine ⟨rfl, ?_⟩
      unfold Pot
      simp only
      split <;> omega

theorem resolveNamespaces_na (c c' : Ctx) (r : Range) (h : resolveNamespaces c = .ok (c', r)) :
    NA c c' := by
  unfold resolveNamespaces at h
  rw [Res.bind_eq_ok] at h
  obtain ⟨p, _, h⟩ := h
  split at h
  · split at h
    · res_norm at h; rw [← h.1]; exact NA.refl _
    · rw [Res.bind_eq_ok] at h
      obtain ⟨ns, _, h⟩ := h
      res_norm at h
      rw [← h.1]; exact ⟨rfl, rfl⟩
  · res_norm at h; rw [← h.1]; exact NA.refl _

theorem resolveAttributes_na (txt : Bytes) (c c' : Ctx) (nss r : Range)
    (h : resolveAttributes txt c nss = .ok (c', r)) : NA c c' := by
  unfold resolveAttributes at h
  split at h
  · res_norm at h; rw [← h.1]; exact NA.refl _
  · split at h
    · simp at h
    · rw [Res.bind_eq_ok] at h
      obtain ⟨doc, hd, h⟩ := h
      res_norm at h
      have := resolveAttrsLoop_nodes _ _ _ _ _ _ _ hd
      rw [← h.1]
      exact ⟨by simp [this], rfl⟩

theorem processElement_m (txt : Bytes) (c c' : Ctx) (e : EndKind) (r : Range)
    (h : processElement txt c e r = .ok c') :
    c'.doc.nodes.size ≤ c.doc.nodes.size + 1 ∧ c'.afterText = c.afterText := by
  unfold processElement at h
  split at h
  · split at h
    · exact absurd h (errPos_ne_ok _ _ _ _)
    · simp at h
  · rw [Res.bind_eq_ok] at h
    obtain ⟨⟨c1, nss⟩, h1, h⟩ := h
    try dsimp only at h
    rw [Res.bind_eq_ok] at h
    obtain ⟨⟨c2, attrs⟩, h2, h⟩ := h
    have s1 := resolveNamespaces_na _ _ _ h1
    have s2 := resolveAttributes_na _ _ _ _ _ h2
    have s12 : NA c c2 := NA.trans s1 (NA.trans ⟨rfl, rfl⟩ s2)
    try dsimp only at h
    split at h
    · -- empty
      rw [Res.bind_eq_ok] at h
      obtain ⟨tagNs, _, h⟩ := h
      rw [Res.bind_eq_ok] at h
      obtain ⟨⟨c3, newId⟩, h3, h⟩ := h
      res_norm at h
      subst h
      obtain ⟨a1, a2⟩ := appendNode_na _ _ _ _ _ h3
      exact ⟨by simp only [a1, s12.1]; omega, by simp only [a2, s12.2]⟩
    · -- close
      split at h
      · exact absurd h (errPos_ne_ok _ _ _ _)
      · rw [Res.bind_eq_ok] at h
        obtain ⟨p, _, h⟩ := h
        split at h
        · simp at h
        · split at h
          · exact absurd h (errPos_ne_ok _ _ _ _)
          · split at h
            · res_norm at h
              subst h
              exact ⟨by simp [Ctx.setNode, s12.1], by simp [Ctx.setNode, s12.2]⟩
            · exact absurd h (errPos_ne_ok _ _ _ _)
    · -- open
      rw [Res.bind_eq_ok] at h
      obtain ⟨tagNs, _, h⟩ := h
      rw [Res.bind_eq_ok] at h
      obtain ⟨⟨c3, newId⟩, h3, h⟩ := h
      res_norm at h
      subst h
      obtain ⟨a1, a2⟩ := appendNode_na _ _ _ _ _ h3
      exact ⟨by simp only [a1, s12.1]; omega, by simp only [a2, s12.2]⟩

theorem normalizeAttribute_na (T : Tables) (txt : Bytes) (c c' : Ctx) (v : Span) (s : Str)
    (h : normalizeAttribute T txt c v = .ok (c', s)) : NA c c' := by
  unfold normalizeAttribute at h
  split at h
  · rw [Res.bind_eq_ok] at h
    obtain ⟨⟨buf, ld, tr⟩, _, h⟩ := h
    rw [Res.bind_eq_ok] at h
    obtain ⟨out, _, h⟩ := h
    res_norm at h
    rw [← h.1]; exact ⟨rfl, rfl⟩
  · res_norm at h; rw [← h.1]; exact NA.refl _

theorem processAttribute_na (T : Tables) (txt : Bytes) (c c' : Ctx) (r : Range) (q e : Nat)
    (pfx loc v : Span) (h : processAttribute T txt c r q e pfx loc v = .ok c') : NA c c' := by
  unfold processAttribute at h
  rw [Res.bind_eq_ok] at h
  obtain ⟨⟨c1, value⟩, h1, h⟩ := h
  have s1 := normalizeAttribute_na _ _ _ _ _ _ h1
  try dsimp only at h
  split at h
  · split at h
    · exact absurd h (errPos_ne_ok _ _ _ _)
    · split at h
      · exact absurd h (errPos_ne_ok _ _ _ _)
      · try dsimp only at h
        split at h
        · exact absurd h (errPos_ne_ok _ _ _ _)
        · split at h
          · exact absurd h (errPos_ne_ok _ _ _ _)
          · rw [Res.bind_eq_ok] at h
            obtain ⟨ex, _, h⟩ := h
            split at h
            · exact absurd h (errPos_ne_ok _ _ _ _)
            · split at h
              · rw [Res.bind_eq_ok] at h
                obtain ⟨ns, _, h⟩ := h
                res_norm at h; subst h
                exact NA.trans s1 ⟨rfl, rfl⟩
              · res_norm at h; subst h
                exact NA.trans s1 ⟨rfl, rfl⟩
  · split at h
    · split at h
      · exact absurd h (errPos_ne_ok _ _ _ _)
      · split at h
        · exact absurd h (errPos_ne_ok _ _ _ _)
        · rw [Res.bind_eq_ok] at h
          obtain ⟨ex, _, h⟩ := h
          split at h
          · exact absurd h (errPos_ne_ok _ _ _ _)
          · rw [Res.bind_eq_ok] at h
            obtain ⟨ns, _, h⟩ := h
            res_norm at h; subst h
            exact NA.trans s1 ⟨rfl, rfl⟩
    · res_norm at h; subst h
      exact NA.trans s1 ⟨rfl, rfl⟩

theorem processCdata_m (c c' : Ctx) (t : Span) (r : Range) (h : processCdata c t r = .ok c') :
    Pot c' ≤ Pot c := by
  unfold processCdata at h
  split at h <;> exact appendText_m _ _ _ _ h

theorem flushBuffer_m (c c' : Ctx) (b : TextBuffer) (r : Range) (h : flushBuffer c b r = .ok c') :
    Pot c' ≤ Pot c := by
  unfold flushBuffer at h
  split at h
  · rw [Res.bind_eq_ok] at h
    obtain ⟨out, _, h⟩ := h
    exact appendText_m _ _ _ _ h
  · res_norm at h; subst h; exact Nat.le_refl _

/-! ### `parse_next_chunk` only moves forward, and a reference consumes its `&` -/

section adv
variable (T : Tables) (txt : Bytes)

theorem tryConsumeByte_adv (s : Stream) (c : UInt8) : Adv s (s.tryConsumeByte c).1 := by
  unfold Stream.tryConsumeByte
  split
  · rename_i b r hr
    split
    · exact ⟨1, by rw [hr]; simp, rfl, by rw [hr]; rfl⟩
    · exact Adv.refl s
  · exact Adv.refl s

theorem spanBytesAux_adv (f : UInt8 → Bool) : ∀ (l : Bytes) (pos : Nat) (acc : Bytes),
    Adv ⟨pos, l⟩ (Stream.spanBytesAux f pos acc l).1 := by
  intro l
  induction l with
  | nil => intro pos acc; simp only [Stream.spanBytesAux]; exact Adv.refl _
  | cons b r ih =>
    intro pos acc
    simp only [Stream.spanBytesAux]
    split
    · have h1 : Adv ⟨pos, b :: r⟩ ⟨pos + 1, r⟩ := ⟨1, by simp, rfl, rfl⟩
      exact Adv.trans h1 (ih (pos + 1) _)
    · exact Adv.refl _

theorem consumeBytes_adv (s : Stream) (f : UInt8 → Bool) : Adv s (s.consumeBytes f).1 := by
  unfold Stream.consumeBytes
  have := spanBytesAux_adv f s.rest s.pos []
  exact this

theorem finishRef_adv (s : Stream) (r : Reference) : Adv s (s.finishRef r).1 := by
  unfold Stream.finishRef
  split
  · rename_i b r' hr
    split
    · exact ⟨1, by rw [hr]; simp, rfl, by rw [hr]; rfl⟩
    · exact Adv.refl s
  · exact Adv.refl s

theorem numericRef_adv (s : Stream) (isHex : Bool) : Adv s (s.numericRef T isHex).1 := by
  unfold Stream.numericRef
  have h1 : Adv s (if isHex then s.consumeBytes isHexDigit else s.consumeBytes isDecDigit).1 := by
    split
    · exact consumeBytes_adv s _
    · exact consumeBytes_adv s _
  simp only
  split
  · exact h1
  · split <;> split <;> first | exact h1 | exact Adv.trans h1 (finishRef_adv _ _)

theorem skipNameTail_adv : ∀ (fuel : Nat) (s : Stream) (acc : Bytes) (p : Stream × Bytes),
    Stream.skipNameTail T fuel s acc = .ok p → Adv s p.1 := by
  intro fuel
  induction fuel with
  | zero => intro s acc p h; simp [Stream.skipNameTail] at h
  | succ k ih =>
    intro s acc p h
    unfold Stream.skipNameTail at h
    split at h
    · simp only [Res.ok.injEq] at h; subst h; exact Adv.refl s
    · split at h
      · simp at h
      · rename_i c w hd
        split at h
        · split at h
          · rename_i hw
            have h1 : Adv s ⟨s.pos + w, s.rest.drop w⟩ := ⟨w, hw, rfl, rfl⟩
            exact Adv.trans h1 (ih _ _ _ h)
          · simp at h
        · simp only [Res.ok.injEq] at h; subst h; exact Adv.refl s

theorem skipName_adv (s : Stream) (p : Stream × Span) (h : s.skipName T txt = .ok p) :
    Adv s p.1 := by
  unfold Stream.skipName at h
  split at h
  · simp only [Res.ok.injEq] at h; subst h; exact Adv.refl s
  · split at h
    · simp at h
    · split at h
      · split at h
        · rename_i hw
          rw [Res.bind_eq_ok] at h
          obtain ⟨⟨s', run⟩, h1, h⟩ := h
          simp only [pure, Res.ok.injEq] at h
          subst h
          have h0 : Adv s ⟨s.pos + _, s.rest.drop _⟩ := ⟨_, hw, rfl, rfl⟩
          exact Adv.trans h0 (skipNameTail_adv T _ _ _ _ h1)
        · simp at h
      · exact absurd h (errFrom_ne_ok _ _ _ _)

theorem consumeName_adv (s : Stream) (p : Stream × Span) (h : s.consumeName T txt = .ok p) :
    Adv s p.1 := by
  unfold Stream.consumeName at h
  rw [Res.bind_eq_ok] at h
  obtain ⟨⟨s', name⟩, h1, h⟩ := h
  simp only at h
  split at h
  · exact absurd h (errFrom_ne_ok _ _ _ _)
  · simp only [pure, Res.ok.injEq] at h; subst h
    exact skipName_adv T txt _ _ h1

theorem namedRef_adv (s : Stream) (p : Stream × Option Reference)
    (h : s.namedRef T txt = .ok p) : Adv s p.1 := by
  unfold Stream.namedRef at h
  split at h
  · simp only [Res.ok.injEq] at h; subst h; exact Adv.refl s
  · simp at h
  · simp at h
  · rename_i s2 name hn
    simp only [Res.ok.injEq] at h; subst h
    exact Adv.trans (consumeName_adv T txt _ _ hn) (finishRef_adv _ _)

/-- A recognised reference starts with `&`, and the cursor afterwards is behind that `&`. -/
theorem consumeReference_adv (s : Stream) (p : Stream × Option Reference)
    (h : s.consumeReference T txt = .ok p) (hsome : p.2.isSome) :
    ∃ r, s.rest = bAmp :: r ∧ Adv ⟨s.pos + 1, r⟩ p.1 := by
  unfold Stream.consumeReference at h
  simp only at h
  split at h
  · simp only [Res.ok.injEq] at h; subst h; simp at hsome
  · rename_i h1
    -- the `&` was consumed
    have hamp : ∃ r, s.rest = bAmp :: r ∧ (s.tryConsumeByte bAmp).1 = ⟨s.pos + 1, r⟩ := by
      unfold Stream.tryConsumeByte at h1 ⊢
      split at h1
      · rename_i b r hr
        split at h1
        · rename_i hb
          have : b = bAmp := by simpa using hb
          subst this
          exact ⟨r, hr, by simp⟩
        · simp at h1
      · simp at h1
    obtain ⟨r, hr, he⟩ := hamp
    refine ⟨r, hr, ?_⟩
    rw [← he]
    have h2 := tryConsumeByte_adv (s.tryConsumeByte bAmp).1 bHash
    split at h
    · simp only [Res.ok.injEq] at h; subst h
      exact Adv.trans h2 (Adv.trans (tryConsumeByte_adv _ bX) (numericRef_adv T _ _))
    · exact Adv.trans h2 (namedRef_adv T txt _ _ h)

theorem adv_count {s s' : Stream} (h : Adv s s') (b : UInt8) :
    s'.rest.count b ≤ s.rest.count b := by
  obtain ⟨k, _, _, hr⟩ := h
  rw [hr]
  exact List.Sublist.count_le b (List.drop_sublist k s.rest)

/-- what the next chunk costs in `&`s: an entity reference consumes one -/
def chunkAmp : NextChunk → Nat
  | .text _ => 1
  | _ => 0

theorem parseNextChunk_count (ents : List Entity) (s s' : Stream) (ch : NextChunk)
    (h : parseNextChunk T txt ents s = .ok (s', ch)) :
    s'.rest.count 38 + chunkAmp ch ≤ s.rest.count 38 := by
  unfold parseNextChunk at h
  split at h
  · simp at h
  · rename_i c r hr
    split at h
    · rw [Res.bind_eq_ok] at h
      obtain ⟨⟨s1, ref⟩, hcr, h⟩ := h
      have key : ∀ (hs : ref.isSome), s1.rest.count 38 + 1 ≤ s.rest.count 38 := by
        intro hs
        obtain ⟨r', hr', ha⟩ := consumeReference_adv T txt s _ hcr hs
        have := adv_count ha 38
        rw [hr']
        simp only [List.count_cons, bAmp] at this ⊢
        simpa using this
      try dsimp only at h
      split at h
      · simp only [pure, Res.ok.injEq, Prod.mk.injEq] at h
        obtain ⟨h1, h2⟩ := h
        subst h1 h2
        have := key (by simp)
        simp only [chunkAmp]; omega
      · split at h
        · simp only [pure, Res.ok.injEq, Prod.mk.injEq] at h
          obtain ⟨h1, h2⟩ := h
          subst h1 h2
          have := key (by simp)
          simp only [chunkAmp]; omega
        · exact absurd h (errFrom_ne_ok _ _ _ _)
      · exact absurd h (errFrom_ne_ok _ _ _ _)
    · simp only [Res.ok.injEq, Prod.mk.injEq] at h
      obtain ⟨h1, h2⟩ := h
      subst h1 h2
      rw [hr]
      simp only [chunkAmp, List.count_cons]
      omega

end adv

section inner
variable (T : Tables) (hT : TablesOK T) (txt : Bytes)

/-- the weight of a token inside an entity value: text is free -/
abbrev cw0 : Token → Nat := cw (fun _ => 0)
abbrev cws0 : List Token → Nat := cws (fun _ => 0)

include hT in
/-- **Tokens of an entity value are paid by bytes of the input**: a successful tokenizer run over an
entity value delivers tokens of total weight at most the length of the input. -/
theorem content_tokens_le (v : Span) (hv : SpanU txt v) (s' : Stream)
    (h : (tokenizeContent T txt v.off v.stop).2 = .ok s') :
    cws0 (tokenizeContent T txt v.off v.stop).1 ≤ txt.length := by
  have hs0 : SOk txt (Stream.ofRange txt v.off v.stop) := by
    have := hv.sOk
    have e : Stream.ofRange txt v.off v.stop = ⟨v.off, v.bytes⟩ := by
      unfold Stream.ofRange Span.stop
      rw [← hv.1.1]
    rw [e]; exact this
  have h' : (parseContent T txt ((Stream.ofRange txt v.off v.stop).rest.length + 1) 0
      (Stream.ofRange txt v.off v.stop)).2 = .ok s' := h
  have hw := parseContent_wf T hT txt (fun p => p) (fun _ => 0) (fun p q h => by omega)
    (fun r h => by omega) ((Stream.ofRange txt v.off v.stop).rest.length + 1) 0 _
    (Stream.ofRange txt v.off v.stop).pos hs0 (Nat.le_refl _)
  have h1 : (Stream.ofRange txt v.off v.stop).pos + cws (fun _ => 0) (parseContent T txt
      ((Stream.ofRange txt v.off v.stop).rest.length + 1) 0 (Stream.ofRange txt v.off v.stop)).1
      ≤ s'.pos := hw.post s' h'
  have h2 := (parseContent_spec T hT txt ((Stream.ofRange txt v.off v.stop).rest.length + 1) 0 _
    (by omega) hs0).post s' h'
  have := h2.1.len
  have := hs0.bound
  show cws (fun _ => 0) (parseContent T txt ((Stream.ofRange txt v.off v.stop).rest.length + 1) 0
      (Stream.ofRange txt v.off v.stop)).1 ≤ _
  omega

theorem runTokens_feed_ok {α} (step : Token → Ctx → Res Ctx) (toks : List Token) (stop : Res α)
    (c c' : Ctx) (h : runTokens step toks stop c = .ok c') :
    feed step toks c = .ok c' ∧ ∃ a, stop = .ok a := by
  unfold runTokens at h
  split at h
  · rename_i c1 h1
    split at h <;> simp at h
    subst h
    exact ⟨h1, _, rfl⟩
  · rename_i hne
    cases hf : feed step toks c <;> simp_all

/-- Inside an expansion (`depth ≥ 1`): what a step adds to the potential is paid by the token's
weight plus `length of the input` per reference counted by the detector. -/
def StepIn (txt : Bytes) (step : Token → Ctx → Res Ctx) : Prop :=
  ∀ (t : Token) (c c' : Ctx), TokOk txt t → DS txt c → 1 ≤ c.ld.depth → step t c = .ok c' →
    Pot c' + txt.length * c.ld.refs ≤ Pot c + cw0 t + txt.length * c'.ld.refs

theorem feed_in (step : Token → Ctx → Res Ctx)
    (hw : ∀ t c c', step t c = .ok c' → Walks c.ld c'.ld) (hds : StepDS txt step)
    (hin : StepIn txt step) :
    ∀ (toks : List Token), (∀ t ∈ toks, TokOk txt t) → ∀ (c c' : Ctx), DS txt c → 1 ≤ c.ld.depth →
      feed step toks c = .ok c' →
      Pot c' + txt.length * c.ld.refs ≤ Pot c + cws0 toks + txt.length * c'.ld.refs := by
  intro toks
  induction toks with
  | nil =>
    intro _ c c' _ _ h
    simp only [feed, Res.ok.injEq] at h; subst h
    simp [cws0, cws]
  | cons t ts ih =>
    intro hall c c' hd hdep h
    simp only [feed] at h
    split at h
    · rename_i c1 h1
      have ht := hall t (by simp)
      have a := hin t c c1 ht hd hdep h1
      have d1 := hds t c c1 ht h1 hd
      have w1 := ((hw t c c1 h1).facts.1 hdep).1
      have b := ih (fun t ht => hall t (by simp [ht])) c1 c' d1 (by omega) h
      show _ ≤ Pot c + (cw0 t + cws0 ts) + _
      omega
    · simp at h
    · simp at h
    · simp at h

include hT in
theorem processTextLoop_in (lower : Token → Ctx → Res Ctx)
    (hlw : ∀ t c c', lower t c = .ok c' → Walks c.ld c'.ld) (hlds : StepDS txt lower)
    (hlin : StepIn txt lower) (range : Range) (hr : EndsOk txt range) :
    ∀ (fuel : Nat) (s : Stream) (buf buf' : TextBuffer) (c c' : Ctx),
      processTextLoop T txt lower range fuel s buf c = .ok (buf', c') → DS txt c →
      1 ≤ c.ld.depth →
      Pot c' + txt.length * c.ld.refs ≤ Pot c + txt.length * c'.ld.refs := by
  intro fuel
  induction fuel with
  | zero => intro s buf buf' c c' h; simp [processTextLoop] at h
  | succ fuel ih =>
    intro s buf buf' c c' h hd hdep
    simp only [processTextLoop] at h
    split at h
    · res_norm at h; rw [← h.2]; exact Nat.le_refl _
    · rw [Res.bind_eq_ok] at h
      obtain ⟨⟨s1, chunk⟩, hchunk, h⟩ := h
      try dsimp only at h
      split at h
      · exact ih _ _ _ _ _ h hd hdep
      · try dsimp only at h
        split at h <;> exact ih _ _ _ _ _ h hd hdep
      · obtain ⟨e, hmem, hfe⟩ := parseNextChunk_text_mem _ _ _ _ _ _ hchunk
        have hfu : SpanU txt _ := hfe ▸ hd.ents e hmem
        rw [Res.bind_eq_ok] at h
        obtain ⟨c1, hfl, h⟩ := h
        have sfl := flushBuffer_ds txt _ _ _ _ hfl hd hr
        have lfl := flushBuffer_ld _ _ _ _ hfl
        have mfl := flushBuffer_m _ _ _ _ hfl
        split at h
        · exact absurd h (errAt_ne_ok _ _ _ _)
        · rename_i ld1 h1
          try dsimp only [Ctx.log] at h
          split at h
          · exact absurd h (errAt_ne_ok _ _ _ _)
          · rename_i ld2 h2
            try dsimp only [Ctx.log] at h
            rw [Res.bind_eq_ok] at h
            obtain ⟨c2, hrun, h⟩ := h
            obtain ⟨f1, f2, f3⟩ := incRefs_facts _ _ h1
            obtain ⟨g1, g2⟩ := incDepth_facts _ _ h2
            rw [lfl] at f1 f2 f3
            obtain ⟨f3, _⟩ := f3 hdep
            obtain ⟨hfeed, sa, hstop⟩ := runTokens_feed_ok _ _ _ _ _ hrun
            have hW := content_tokens_le T hT txt _ hfu sa hstop
            have htok := tokenizeContent_tokOk T hT txt _ hfu
            have srun := feed_ds txt lower hlds _ htok _ _ hfeed
              ⟨sfl.nodes, sfl.attrs, sfl.ns, spanOk_empty txt,
                ⟨Nat.zero_le _, by simp [isCharBoundary]⟩, sfl.cur, sfl.ents⟩
            have wrun := (feed_walks lower hlw _ _ _ hfeed).facts.1
              (by show 1 ≤ ld2.depth; omega)
            have irun := fun hd' hdp' => feed_in txt lower hlw hlds hlin _ htok _ _ hd' hdp' hfeed
            have irun := irun
              ⟨sfl.nodes, sfl.attrs, sfl.ns, spanOk_empty txt,
                ⟨Nat.zero_le _, by simp [isCharBoundary]⟩, sfl.cur, sfl.ents⟩
              (by show 1 ≤ ld2.depth; omega)
            change Pot c2 + txt.length * ld2.refs ≤ Pot c1 + _ + txt.length * c2.ld.refs at irun
            change c2.ld.depth = ld2.depth ∧ ld2.refs ≤ c2.ld.refs ∧ _ at wrun
            split at h
            · simp at h
            · obtain ⟨dd, _⟩ := decDepth_facts c2.ld
              obtain ⟨dd1, dd2⟩ := dd (by omega)
              have key := ih _ _ _ _ _ h
                ⟨srun.nodes, srun.attrs, srun.ns, sfl.tag, sfl.tagPos, srun.cur, srun.ents⟩
                (by show 1 ≤ c2.ld.decDepth.depth; omega)
              change Pot c' + txt.length * c2.ld.decDepth.refs ≤ Pot c2 + txt.length * c'.ld.refs at key
              rw [dd2] at key
              have e1 : txt.length * ld2.refs = txt.length * c.ld.refs + txt.length := by
                rw [g2, f3, Nat.mul_succ]
              rw [e1] at irun
              omega

end inner

section inner2
variable (T : Tables) (hT : TablesOK T) (txt : Bytes)

theorem appendNode_m (c c' : Ctx) (k : Kind) (r : Range) (id : Nat)
    (h : c.appendNode k r = .ok (c', id)) : Pot c' = Pot c + 1 := by
  obtain ⟨a1, a2⟩ := appendNode_na _ _ _ _ _ h
  unfold Pot
  rw [a1, a2]; omega

theorem processElement_m' (c c' : Ctx) (e : EndKind) (r : Range)
    (h : processElement txt c e r = .ok c') : Pot c' ≤ Pot c + 1 := by
  obtain ⟨a1, a2⟩ := processElement_m _ _ _ _ _ h
  unfold Pot
  rw [a2]; omega

include hT in
theorem processText_in (lower : Token → Ctx → Res Ctx)
    (hlw : ∀ t c c', lower t c = .ok c' → Walks c.ld c'.ld) (hlds : StepDS txt lower)
    (hlin : StepIn txt lower) (c c' : Ctx) (t : Span) (r : Range) (hr : EndsOk txt r)
    (h : processText T txt lower c t r = .ok c') (hd : DS txt c) (hdep : 1 ≤ c.ld.depth) :
    Pot c' + txt.length * c.ld.refs ≤ Pot c + txt.length * c'.ld.refs := by
  unfold processText at h
  split at h
  · have := appendText_m _ _ _ _ h
    rw [appendText_ld _ _ _ _ h]
    omega
  · dsimp only at h
    rw [Res.bind_eq_ok] at h
    obtain ⟨⟨buf, c1⟩, h1, h⟩ := h
    dsimp only at h
    have a := processTextLoop_in T hT txt lower hlw hlds hlin r hr _ _ _ _ _ _ h1 hd hdep
    have b := flushBuffer_m _ _ _ _ h
    rw [flushBuffer_ld _ _ _ _ h]
    omega

include hT in
theorem tokenStep_in (lower : Token → Ctx → Res Ctx)
    (hlw : ∀ t c c', lower t c = .ok c' → Walks c.ld c'.ld) (hlds : StepDS txt lower)
    (hlin : StepIn txt lower) : StepIn txt (tokenStep T txt lower) := by
  intro t c c' hk hd hdep h
  unfold tokenStep at h
  try dsimp only at h
  have slog : DS txt (c.log (.token t)) := log_ds _ hd
  have mlog : Pot (c.log (.token t)) = Pot c := rfl
  have llog : (c.log (.token t)).ld = c.ld := rfl
  split at h
  · -- pi
    rw [Res.bind_eq_ok] at h
    obtain ⟨c1, h1, h⟩ := h
    rw [Res.bind_eq_ok] at h
    obtain ⟨⟨c2, id⟩, h2, h⟩ := h
    res_norm at h; subst h
    have a := (resetAfterText_m _ _ h1).2
    have b := appendNode_m _ _ _ _ _ h2
    rw [(appendNode_ld _ _ _ _ _ h2).trans (resetAfterText_ld _ _ h1), llog]
    show _ ≤ Pot c + 2 + _
    omega
  · -- comment
    rw [Res.bind_eq_ok] at h
    obtain ⟨c1, h1, h⟩ := h
    rw [Res.bind_eq_ok] at h
    obtain ⟨⟨c2, id⟩, h2, h⟩ := h
    res_norm at h; subst h
    have a := (resetAfterText_m _ _ h1).2
    have b := appendNode_m _ _ _ _ _ h2
    rw [(appendNode_ld _ _ _ _ _ h2).trans (resetAfterText_ld _ _ h1), llog]
    show _ ≤ Pot c + 2 + _
    omega
  · -- entityDecl
    res_norm at h; subst h
    show Pot c + _ ≤ Pot c + 0 + _
    exact Nat.le_refl _
  · -- elementStart
    rw [Res.bind_eq_ok] at h
    obtain ⟨c1, h1, h⟩ := h
    split at h
    · exact absurd h (errPos_ne_ok _ _ _ _)
    · res_norm at h; subst h
      have a := (resetAfterText_m _ _ h1).2
      have l1 := resetAfterText_ld _ _ h1
      show Pot c1 + _ ≤ Pot c + 1 + txt.length * c1.ld.refs
      rw [l1, llog]
      omega
  · -- attribute
    have a := (processAttribute_na _ _ _ _ _ _ _ _ _ _ h).m
    have w := ((processAttribute_walks _ _ _ _ _ _ _ _ _ _ h).facts.1 (by rw [llog]; exact hdep)).2.1
    rw [llog] at w
    have := Nat.mul_le_mul_left txt.length w
    show _ ≤ Pot c + 0 + _
    omega
  · -- elementEnd
    rw [Res.bind_eq_ok] at h
    obtain ⟨c1, h1, h⟩ := h
    have a := (resetAfterText_m _ _ h1).2
    have b := processElement_m' txt _ _ _ _ h
    rw [(processElement_ld _ _ _ _ _ h).trans (resetAfterText_ld _ _ h1), llog]
    show _ ≤ Pot c + 2 + _
    omega
  · -- text
    obtain ⟨k1, k2, _⟩ := hk
    have := processText_in T hT txt lower hlw hlds hlin _ _ _ _ k2.ends h slog
      (by rw [llog]; exact hdep)
    rw [llog, mlog] at this
    show _ ≤ Pot c + 0 + _
    omega
  · -- cdata
    have a := processCdata_m _ _ _ _ h
    rw [processCdata_ld _ _ _ _ h, llog]
    show _ ≤ Pot c + 0 + _
    omega

include hT in
/-- The builder at every re-entry depth: inside an expansion, what it adds to the potential is paid
by token weights and by `length of the input` per counted reference. -/
theorem token_in : ∀ (d : Nat), StepIn txt (token T txt d) := by
  intro d
  induction d with
  | zero => intro t c c' _ _ _ h; simp [token] at h
  | succ d ih =>
    exact tokenStep_in T hT txt (token T txt d) (token_walk T txt d) (token_ds T hT txt d) ih

end inner2

section top
variable (T : Tables) (hT : TablesOK T) (txt : Bytes)

/-- the weight of a text token written in the document: `256 × length of the input` per `&` in it -/
def twTop (txt : Bytes) (r : Range) : Nat := 256 * txt.length * (sliceBytes txt r.1 r.2).count 38

include hT in
/-- **One reference written in the document costs at most `256 × length of the input` nodes**
(`expansion_nodes_bound`, inside the chunk loop): at detector state `⟨0, 0⟩` the loop adds at most
that much to the potential per `&` left in its stream. -/
theorem processTextLoop_top (lower : Token → Ctx → Res Ctx)
    (hlw : ∀ t c c', lower t c = .ok c' → Walks c.ld c'.ld) (hlds : StepDS txt lower)
    (hlin : StepIn txt lower) (range : Range) (hr : EndsOk txt range) :
    ∀ (fuel : Nat) (s : Stream) (buf buf' : TextBuffer) (c c' : Ctx),
      processTextLoop T txt lower range fuel s buf c = .ok (buf', c') → DS txt c →
      c.ld.depth = 0 → c.ld.refs = 0 →
      Pot c' ≤ Pot c + 256 * txt.length * s.rest.count 38 := by
  intro fuel
  induction fuel with
  | zero => intro s buf buf' c c' h; simp [processTextLoop] at h
  | succ fuel ih =>
    intro s buf buf' c c' h hd h0 hr0
    simp only [processTextLoop] at h
    split at h
    · res_norm at h; rw [← h.2]; omega
    · rw [Res.bind_eq_ok] at h
      obtain ⟨⟨s1, chunk⟩, hchunk, h⟩ := h
      have cnt := parseNextChunk_count T txt _ _ _ _ hchunk
      try dsimp only at h
      split at h
      · have := ih _ _ _ _ _ h hd h0 hr0
        have := Nat.mul_le_mul_left (256 * txt.length) (show s1.rest.count 38 ≤ s.rest.count 38 by omega)
        omega
      · have hm := Nat.mul_le_mul_left (256 * txt.length)
          (show s1.rest.count 38 ≤ s.rest.count 38 by omega)
        try dsimp only at h
        split at h
        · have := ih _ _ _ _ _ h hd h0 hr0; omega
        · have := ih _ _ _ _ _ h hd h0 hr0; omega
      · obtain ⟨e, hmem, hfe⟩ := parseNextChunk_text_mem _ _ _ _ _ _ hchunk
        have hfu : SpanU txt _ := hfe ▸ hd.ents e hmem
        rw [Res.bind_eq_ok] at h
        obtain ⟨c1, hfl, h⟩ := h
        have sfl := flushBuffer_ds txt _ _ _ _ hfl hd hr
        have lfl := flushBuffer_ld _ _ _ _ hfl
        have mfl := flushBuffer_m _ _ _ _ hfl
        split at h
        · exact absurd h (errAt_ne_ok _ _ _ _)
        · rename_i ld1 h1
          try dsimp only [Ctx.log] at h
          split at h
          · exact absurd h (errAt_ne_ok _ _ _ _)
          · rename_i ld2 h2
            try dsimp only [Ctx.log] at h
            rw [Res.bind_eq_ok] at h
            obtain ⟨c2, hrun, h⟩ := h
            obtain ⟨f1, f2, _⟩ := incRefs_facts _ _ h1
            obtain ⟨g1, g2⟩ := incDepth_facts _ _ h2
            rw [lfl] at f1 f2
            have f2 := f2 h0
            obtain ⟨hfeed, sa, hstop⟩ := runTokens_feed_ok _ _ _ _ _ hrun
            have hW := content_tokens_le T hT txt _ hfu sa hstop
            have htok := tokenizeContent_tokOk T hT txt _ hfu
            have srun := feed_ds txt lower hlds _ htok _ _ hfeed
              ⟨sfl.nodes, sfl.attrs, sfl.ns, spanOk_empty txt,
                ⟨Nat.zero_le _, by simp [isCharBoundary]⟩, sfl.cur, sfl.ents⟩
            have wrun := (feed_walks lower hlw _ _ _ hfeed).facts.1
              (by show 1 ≤ ld2.depth; omega)
            have irun := fun hd' hdp' => feed_in txt lower hlw hlds hlin _ htok _ _ hd' hdp' hfeed
            have irun := irun
              ⟨sfl.nodes, sfl.attrs, sfl.ns, spanOk_empty txt,
                ⟨Nat.zero_le _, by simp [isCharBoundary]⟩, sfl.cur, sfl.ents⟩
              (by show 1 ≤ ld2.depth; omega)
            change Pot c2 + txt.length * ld2.refs ≤ Pot c1 + _ + txt.length * c2.ld.refs at irun
            change c2.ld.depth = ld2.depth ∧ ld2.refs ≤ c2.ld.refs ∧
              (ld2.refs ≤ 255 → c2.ld.refs ≤ 255) at wrun
            obtain ⟨w1, _, w3⟩ := wrun
            have w3 := w3 (by omega)
            have e0 : ld2.refs = 0 := by omega
            rw [e0, Nat.mul_zero] at irun
            have hle := Nat.mul_le_mul_left txt.length w3
            split at h
            · simp at h
            · obtain ⟨_, dd⟩ := decDepth_facts c2.ld
              obtain ⟨dd1, dd2⟩ := dd (by omega)
              have key := ih _ _ _ _ _ h
                ⟨srun.nodes, srun.attrs, srun.ns, sfl.tag, sfl.tagPos, srun.cur, srun.ents⟩
                (by show c2.ld.decDepth.depth = 0; exact dd1)
                (by show c2.ld.decDepth.refs = 0; exact dd2)
              change Pot c' ≤ Pot c2 + 256 * txt.length * s1.rest.count 38 at key
              change s1.rest.count 38 + 1 ≤ s.rest.count 38 at cnt
              have hmul := Nat.mul_le_mul_left (256 * txt.length) cnt
              rw [Nat.mul_succ] at hmul
              omega

include hT in
theorem processText_top (lower : Token → Ctx → Res Ctx)
    (hlw : ∀ t c c', lower t c = .ok c' → Walks c.ld c'.ld) (hlds : StepDS txt lower)
    (hlin : StepIn txt lower) (c c' : Ctx) (t : Span) (r : Range) (hr : EndsOk txt r)
    (h : processText T txt lower c t r = .ok c') (hd : DS txt c) (h0 : c.ld.depth = 0)
    (hr0 : c.ld.refs = 0) : Pot c' ≤ Pot c + twTop txt r := by
  unfold processText at h
  split at h
  · have := appendText_m _ _ _ _ h
    omega
  · dsimp only at h
    rw [Res.bind_eq_ok] at h
    obtain ⟨⟨buf, c1⟩, h1, h⟩ := h
    dsimp only at h
    have a := processTextLoop_top T hT txt lower hlw hlds hlin r hr _ _ _ _ _ _ h1 hd h0 hr0
    have b := flushBuffer_m _ _ _ _ h
    change Pot c1 ≤ Pot c + twTop txt r at a
    omega

/-- At depth 0 (detector `⟨0, 0⟩`): what a step adds to the potential is paid by the token's weight,
a text token weighing `256 × length of the input` per `&` in it. -/
def StepTop (txt : Bytes) (step : Token → Ctx → Res Ctx) : Prop :=
  ∀ (t : Token) (c c' : Ctx), TokOk txt t → DS txt c → c.ld.depth = 0 → c.ld.refs = 0 →
    step t c = .ok c' → Pot c' ≤ Pot c + cw (twTop txt) t

include hT in
theorem tokenStep_top (lower : Token → Ctx → Res Ctx)
    (hlw : ∀ t c c', lower t c = .ok c' → Walks c.ld c'.ld) (hlds : StepDS txt lower)
    (hlin : StepIn txt lower) : StepTop txt (tokenStep T txt lower) := by
  intro t c c' hk hd h0 hr0 h
  unfold tokenStep at h
  try dsimp only at h
  have slog : DS txt (c.log (.token t)) := log_ds _ hd
  have mlog : Pot (c.log (.token t)) = Pot c := rfl
  split at h
  · -- pi
    rw [Res.bind_eq_ok] at h
    obtain ⟨c1, h1, h⟩ := h
    rw [Res.bind_eq_ok] at h
    obtain ⟨⟨c2, id⟩, h2, h⟩ := h
    res_norm at h; subst h
    have a := (resetAfterText_m _ _ h1).2
    have b := appendNode_m _ _ _ _ _ h2
    show _ ≤ Pot c + 2
    omega
  · -- comment
    rw [Res.bind_eq_ok] at h
    obtain ⟨c1, h1, h⟩ := h
    rw [Res.bind_eq_ok] at h
    obtain ⟨⟨c2, id⟩, h2, h⟩ := h
    res_norm at h; subst h
    have a := (resetAfterText_m _ _ h1).2
    have b := appendNode_m _ _ _ _ _ h2
    show _ ≤ Pot c + 2
    omega
  · -- entityDecl
    res_norm at h; subst h
    show Pot c ≤ Pot c + 0
    omega
  · -- elementStart
    rw [Res.bind_eq_ok] at h
    obtain ⟨c1, h1, h⟩ := h
    split at h
    · exact absurd h (errPos_ne_ok _ _ _ _)
    · res_norm at h; subst h
      have a := (resetAfterText_m _ _ h1).2
      show Pot c1 ≤ Pot c + 1
      omega
  · -- attribute
    have a := (processAttribute_na _ _ _ _ _ _ _ _ _ _ h).m
    show _ ≤ Pot c + 0
    omega
  · -- elementEnd
    rw [Res.bind_eq_ok] at h
    obtain ⟨c1, h1, h⟩ := h
    have a := (resetAfterText_m _ _ h1).2
    have b := processElement_m' txt _ _ _ _ h
    show _ ≤ Pot c + 2
    omega
  · -- text
    obtain ⟨k1, k2, _⟩ := hk
    have := processText_top T hT txt lower hlw hlds hlin _ _ _ _ k2.ends h slog h0 hr0
    rw [mlog] at this
    exact this
  · -- cdata
    have a := processCdata_m _ _ _ _ h
    show _ ≤ Pot c + 0
    omega

theorem feed_top (step : Token → Ctx → Res Ctx)
    (hw : ∀ t c c', step t c = .ok c' → Walks c.ld c'.ld) (hds : StepDS txt step)
    (htop : StepTop txt step) :
    ∀ (toks : List Token), (∀ t ∈ toks, TokOk txt t) → ∀ (c c' : Ctx), DS txt c → c.ld.depth = 0 →
      c.ld.refs = 0 → feed step toks c = .ok c' → Pot c' ≤ Pot c + cws (twTop txt) toks := by
  intro toks
  induction toks with
  | nil =>
    intro _ c c' _ _ _ h
    simp only [feed, Res.ok.injEq] at h; subst h
    simp [cws]
  | cons t ts ih =>
    intro hall c c' hd h0 hr0 h
    simp only [feed] at h
    split at h
    · rename_i c1 h1
      have ht := hall t (by simp)
      have a := htop t c c1 ht hd h0 hr0 h1
      have d1 := hds t c c1 ht h1 hd
      obtain ⟨w1, w2⟩ := (hw t c c1 h1).facts.2 h0 hr0
      have b := ih (fun t ht => hall t (by simp [ht])) c1 c' d1 w1 w2 h
      show _ ≤ Pot c + (cw (twTop txt) t + cws (twTop txt) ts)
      omega
    · simp at h
    · simp at h
    · simp at h

end top

/-! ### Every `&` of the input pays for at most one reference written in the document -/

/-- the potential of a position: the bytes before it, plus `256 × length` per `&` before it -/
def phiTop (txt : Bytes) (p : Nat) : Nat := p + 256 * txt.length * (txt.take p).count 38

theorem count_take_mono (txt : Bytes) (b : UInt8) (p q : Nat) (h : p ≤ q) :
    (txt.take p).count b ≤ (txt.take q).count b := by
  have e : txt.take p = (txt.take q).take p := by
    rw [List.take_take, Nat.min_eq_left h]
  rw [e]
  exact List.Sublist.count_le b (List.take_sublist p _)

theorem phiTop_step (txt : Bytes) : ∀ p q, p ≤ q → phiTop txt p + (q - p) ≤ phiTop txt q := by
  intro p q h
  unfold phiTop
  have := Nat.mul_le_mul_left (256 * txt.length) (count_take_mono txt 38 p q h)
  omega

/-- the `&`s of a text token lie between the `&`s before its start and those before its end -/
theorem phiTop_text (txt : Bytes) : ∀ r : Range, r.1 ≤ r.2 →
    phiTop txt r.1 + twTop txt r ≤ phiTop txt r.2 := by
  intro r h
  unfold phiTop twTop sliceBytes
  have e : txt.take r.2 = txt.take r.1 ++ (txt.drop r.1).take (r.2 - r.1) := by
    rw [← List.take_add]
    congr 1
    omega
  rw [e, List.count_append, Nat.mul_add]
  omega

theorem tokenize_nil (T : Tables) (a : Bool) : tokenize T [] a = ([], .ok ()) := by
  cases a <;> rfl

theorem rootHasElement_root (ns : Namespaces) (r : Range) :
    rootHasElement { nodes := #[rootNode r], ns := ns } = .ok false := by
  rfl

/-- The empty input has no root element. -/
theorem parse_nil_ne_ok (T : Tables) (opt : Opt) (d : Doc) : parse T [] opt ≠ .ok d := by
  intro h
  unfold parse at h
  rw [Res.bind_eq_ok] at h
  obtain ⟨c, hc, h⟩ := h
  unfold parseCtx at hc
  rw [Res.bind_eq_ok] at hc
  obtain ⟨c0, h0, hc⟩ := hc
  rw [tokenize_nil] at hc
  simp only [runTokens, feed] at hc
  rw [Res.bind_eq_ok] at hc
  obtain ⟨c1, h1, hc⟩ := hc
  simp only [Res.ok.injEq] at h1
  subst h1
  unfold initCtx at h0
  rw [Res.bind_eq_ok] at h0
  obtain ⟨ns, hns, h0⟩ := h0
  simp only [pure, Res.ok.injEq] at h0
  subst h0
  unfold finish at hc
  simp only [rootHasElement_root] at hc
  simp at hc

/-- **Tokens are paid by bytes** (the whole document, both option values): the total weight of the
tokens of a successful tokenizer run — 2 per comment / PI / `ElementEnd`, 1 per `ElementStart` — is
at most the length of the input. -/
theorem tokens_le_bytes (T : Tables) (hT : TablesOK T) (txt : Bytes) (hv : ValidUtf8 txt)
    (allowDtd : Bool) (a : Unit) (h : (parseDocument T txt allowDtd).2 = .ok a) :
    cws0 (parseDocument T txt allowDtd).1 ≤ txt.length := by
  have hw := (parseDocument_wf T hT txt (fun p => p) (fun _ => 0) (fun p q h => by omega)
    (fun r h => by omega) hv allowDtd).post a h
  have hw' : 0 + cws (fun _ => 0) (parseDocument T txt allowDtd).1 ≤ txt.length := hw
  show cws (fun _ => 0) _ ≤ _
  omega

/-- **Node count bound** (all valid UTF-8 inputs, all options). -/
theorem parse_node_bound (T : Tables) (hT : TablesOK T) (txt : Bytes) (hv : ValidUtf8 txt)
    (opt : Opt) (d : Doc) (h : parse T txt opt = .ok d) :
    d.nodes.size ≤ 256 * txt.length * (txt.count 38 + 1) := by
  by_cases hnil : txt = []
  · subst hnil; exact absurd h (parse_nil_ne_ok T opt d)
  have hL : 1 ≤ txt.length := List.length_pos_iff.mpr hnil
  unfold parse at h
  rw [Res.bind_eq_ok] at h
  obtain ⟨c, hc, h⟩ := h
  res_norm at h
  subst h
  unfold parseCtx at hc
  rw [Res.bind_eq_ok] at hc
  obtain ⟨c0, h0, hc⟩ := hc
  try dsimp only at hc
  rw [Res.bind_eq_ok] at hc
  obtain ⟨c1, h1, hc⟩ := hc
  -- the initial context
  have d0 : DS txt c0 ∧ c0.ld.depth = 0 ∧ c0.ld.refs = 0 ∧ Pot c0 = 2 := by
    unfold initCtx at h0
    rw [Res.bind_eq_ok] at h0
    obtain ⟨ns, hns, h0⟩ := h0
    res_norm at h0
    subst h0
    refine ⟨⟨?_, ?_, ?_, spanOk_empty txt, ⟨Nat.zero_le _, by simp [isCharBoundary]⟩, ?_, ?_⟩,
      rfl, rfl, rfl⟩
    · intro i n hn
      have : n = rootNode (if opt.positions then (0, txt.length) else (0, 0)) := by
        cases i with
        | zero => simpa using hn.symm
        | succ i => simp at hn
      subst this
      refine ⟨trivial, endsOk_pos txt _ _ ⟨Nat.zero_le _, Nat.le_refl _, by simp [isCharBoundary], ?_⟩⟩
      simp [isCharBoundary]
    · intro k a hk; simp at hk
    · intro k v hk hpos
      rcases pushNs_values _ _ _ _ hns with e | e
      · rw [e] at hk; simp at hk
      · rw [e] at hk
        exfalso
        have : k = 0 := by
          cases k with
          | zero => rfl
          | succ k => simp at hk
        omega
    · intro a ha; simp at ha
    · intro e he; simp at he
  obtain ⟨d0, l0, r0, m0⟩ := d0
  obtain ⟨hfeed, sa, hstop⟩ := runTokens_feed_ok _ _ _ _ _ h1
  have htopStep : StepTop txt (token T txt depthFuel) :=
    tokenStep_top T hT txt (token T txt 11) (token_walk T txt 11) (token_ds T hT txt 11)
      (token_in T hT txt 11)
  have hspec := parseDocument_spec T hT txt hv opt.allowDtd
  have ftop := feed_top txt _ (token_walk T txt depthFuel) (token_ds T hT txt depthFuel) htopStep
    _ hspec.toks _ _ d0 l0 r0 hfeed
  have wdoc := (parseDocument_wf T hT txt (phiTop txt) (twTop txt) (phiTop_step txt)
    (phiTop_text txt) hv opt.allowDtd).post sa hstop
  have e0 : phiTop txt 0 = 0 := by simp [phiTop]
  have eL : phiTop txt txt.length = txt.length + 256 * txt.length * txt.count 38 := by
    simp [phiTop]
  change phiTop txt 0 + cws (twTop txt) (parseDocument T txt opt.allowDtd).1 ≤ phiTop txt txt.length
    at wdoc
  change Pot c1 ≤ Pot c0 + cws (twTop txt) (parseDocument T txt opt.allowDtd).1 at ftop
  rw [e0, eL] at wdoc
  have hsize : c.doc.nodes.size = c1.doc.nodes.size := by
    unfold finish at hc
    rw [Res.bind_eq_ok] at hc
    obtain ⟨has, _, hc⟩ := hc
    split at hc
    · simp at hc
    · split at hc
      · simp at hc
      · res_norm at hc
        subst hc
        rfl
  have hM : c1.doc.nodes.size ≤ Pot c1 := by unfold Pot; omega
  rw [hsize, Nat.mul_succ]
  omega

end Rox.Lemmas
