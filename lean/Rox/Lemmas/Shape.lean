/-
  Rox.Lemmas.Shape — C13: a range designates the construct it belongs to. For every node of every
  parsed document (with the `positions` feature): the slice of an element begins with `<` and ends
  with the `>` of its end (or empty-element) tag, its local name stands inside it right after the
  `<` or after `prefix:`; a comment's slice is exactly `<!--` text `-->`; a PI's slice is `<?` target
  … `?>`; a borrowed text value is its slice, or the CDATA section around it is.
-/
import Rox.Parse
import Rox.Lemmas.TokSpec
import Rox.Lemmas.DocSpans
import Rox.Lemmas.RangeOrd

namespace Rox.Lemmas
open Rox

/-- what the source text looks like at the range of a node -/
def NodeShape (txt : Bytes) (n : NodeData) : Prop :=
  match n.kind with
  | .root => True
  | .element _ name _ _ =>
    n.range.1 < n.range.2 ∧ txt[n.range.1]? = some 60 ∧ txt[n.range.2 - 1]? = some 62 ∧
    n.range.1 < name.off ∧ name.off + name.bytes.length < n.range.2 ∧
    (name.off = n.range.1 + 1 ∨ txt[name.off - 1]? = some 58)
  | .comment (.borrowed t) =>
    sliceBytes txt n.range.1 n.range.2 = Lit.commentStart ++ t.bytes ++ Lit.commentEnd
  | .comment (.owned _) => True
  | .pi target _ =>
    ∃ mid, sliceBytes txt n.range.1 n.range.2 = Lit.piStart ++ target.bytes ++ mid ++ Lit.piEnd
  | .text (.borrowed t) =>
    n.range = (t.off, t.off + t.bytes.length) ∨
    sliceBytes txt n.range.1 n.range.2 = Lit.cdataStart ++ t.bytes ++ Lit.cdataEnd
  | .text (.owned _) => True

/-! ### Cursor facts: what the consumed bytes are -/

theorem sok_get {txt : Bytes} {s : Stream} (hs : SOk txt s) (b : UInt8) (r : Bytes)
    (hr : s.rest = b :: r) : txt[s.pos]? = some b := by
  have h := congrArg (fun l => l[0]?) hs.slice
  simp only [hr, sliceBytes, List.getElem?_take, List.getElem?_drop, List.length_cons] at h
  simp at h
  exact h.symm

theorem took_slice {txt : Bytes} {s s' : Stream} {run : Bytes} (hs : SOk txt s) (h : Took s s' run) :
    sliceBytes txt s.pos s'.pos = run := by
  have := (h.spanOk hs).1
  simp only at this
  rw [h.2.1]; exact this.symm

theorem adv_took {s s' : Stream} (h : Adv s s') : ∃ run, Took s s' run := by
  obtain ⟨k, hk, hp, hr⟩ := h
  have hl : (s.rest.take k).length = k := by simp [Nat.min_eq_left hk]
  exact ⟨s.rest.take k, by rw [hl]; exact hk, by rw [hl]; exact hp, by rw [hl]; exact hr, by rw [hl]⟩

theorem advance_took {s s1 : Stream} (lit : Bytes) (hp : s.startsWith lit = true)
    (h : s.advance lit.length = .ok s1) : Took s s1 lit := by
  obtain ⟨r, hr⟩ := List.isPrefixOf_iff_prefix.mp hp
  have hlen : lit.length ≤ s.rest.length := by rw [← hr]; simp
  unfold Stream.advance at h
  simp only [hlen, if_true, Res.ok.injEq] at h
  subst h
  exact ⟨hlen, rfl, rfl, by rw [← hr]; simp⟩

theorem skipString_took {txt : Bytes} {s s1 : Stream} (lit : Bytes)
    (h : s.skipString txt lit = .ok s1) : Took s s1 lit := by
  unfold Stream.skipString at h
  split at h
  · exact absurd h (errAt_ne_ok _ _ _ _)
  · rename_i hp
    exact advance_took lit (by simpa using hp) h

theorem consumeByte_took {txt : Bytes} {s s1 : Stream} (c : UInt8)
    (h : s.consumeByte txt c = .ok s1) : Took s s1 [c] := by
  unfold Stream.consumeByte at h
  split at h
  · simp at h
  · rename_i b r hr
    split at h
    · exact absurd h (errAt_ne_ok _ _ _ _)
    · rename_i hbc
      have : b = c := by simpa using hbc
      subst this
      simp only [Res.ok.injEq] at h
      subst h
      exact ⟨by rw [hr]; simp, rfl, by rw [hr]; rfl, by rw [hr]; rfl⟩

theorem advance1_took {s s1 : Stream} (b : UInt8) (r : Bytes) (hr : s.rest = b :: r)
    (h : s.advance 1 = .ok s1) : Took s s1 [b] := by
  unfold Stream.advance at h
  have : 1 ≤ s.rest.length := by rw [hr]; simp
  simp only [this, if_true, Res.ok.injEq] at h
  subst h
  exact ⟨by rw [hr]; simp, rfl, by rw [hr]; rfl, by rw [hr]; rfl⟩

/-- after consuming the single byte `b`, `b` is the byte in front of the cursor -/
theorem took_last {txt : Bytes} {s s' : Stream} {b : UInt8} (hs : SOk txt s) (h : Took s s' [b]) :
    s'.pos = s.pos + 1 ∧ txt[s'.pos - 1]? = some b := by
  obtain ⟨hl, hp, _, ht⟩ := h
  simp only [List.length_cons, List.length_nil, Nat.zero_add] at hl hp ht
  refine ⟨hp, ?_⟩
  cases hr : s.rest with
  | nil => rw [hr] at hl; simp at hl
  | cons x r =>
    rw [hr] at ht
    simp at ht
    subst ht
    rw [hp, Nat.add_sub_cancel]
    exact sok_get hs b r hr

section qname
variable (T : Tables) (txt : Bytes)

/-- the split position recorded by the scanning loop of `consume_qname` is the position of a `:` -/
theorem qnameLoop_colon (start : Nat) :
    ∀ (fuel : Nat) (s : Stream) (acc : Bytes) (split : Option Nat) (s' : Stream) (out : Bytes)
      (sp' : Option Nat), SOk txt s →
      Stream.qnameLoop T txt start fuel s acc split = .ok (s', out, sp') →
      ∀ sp, sp' = some sp → split = some sp ∨ txt[sp]? = some 58 := by
  intro fuel
  induction fuel with
  | zero => intro s acc split s' out sp' _ h; simp [Stream.qnameLoop] at h
  | succ n ih =>
    intro s acc split s' out sp' hs h sp hsp
    unfold Stream.qnameLoop at h
    split at h
    · simp only [Res.ok.injEq, Prod.mk.injEq] at h
      left; rw [h.2.2]; exact hsp
    · rename_i b r hr
      split at h
      · rename_i hb
        have hstep := step_ascii hs b r hr hb
        split at h
        · rename_i hcol
          have hbc : b = bColon := by simpa using hcol
          split at h
          · rcases ih _ _ _ _ _ _ hstep.2 h sp hsp with h1 | h1
            · simp only [Option.some.injEq] at h1
              subst h1
              right
              rw [sok_get hs b r hr, hbc]; rfl
            · exact Or.inr h1
          · exact absurd h (errFrom_ne_ok _ _ _ _)
        · split at h
          · exact ih _ _ _ _ _ _ hstep.2 h sp hsp
          · simp only [Res.ok.injEq, Prod.mk.injEq] at h
            left; rw [h.2.2]; exact hsp
      · split at h
        · simp at h
        · rename_i c w hd
          split at h
          · split at h
            · exact ih _ _ _ _ _ _ (step_char hs c w hd).2.2 h sp hsp
            · simp at h
          · simp only [Res.ok.injEq, Prod.mk.injEq] at h
            left; rw [h.2.2]; exact hsp

/-- where `consume_qname` finds the local name: at the start, or right after a `:`; the cursor
ends at or after its end -/
theorem consumeQName_loc {s s' : Stream} {pfx loc : Span} (hs : SOk txt s)
    (h : s.consumeQName T txt = .ok (s', pfx, loc)) :
    (loc.off = s.pos ∨ (s.pos < loc.off ∧ txt[loc.off - 1]? = some 58)) ∧
      loc.off + loc.bytes.length ≤ s'.pos := by
  unfold Stream.consumeQName at h
  rw [Res.bind_eq_ok] at h
  obtain ⟨⟨s1, all, split⟩, hq, h⟩ := h
  obtain ⟨run, ht, hso, he, hsp⟩ := (qnameLoop_spec T txt s.pos _ s [] none (by omega) hs).post _ hq
  simp only [List.reverse_nil, List.nil_append] at he
  subst he
  have hpos : s1.pos = s.pos + all.length := ht.2.1
  have hcol := qnameLoop_colon T txt s.pos _ s [] none s1 all split hs hq
  cases split with
  | none =>
    simp only at h
    split at h
    · exact absurd h (errFrom_ne_ok _ _ _ _)
    · split at h
      · exact absurd h (errFrom_ne_ok _ _ _ _)
      · res_norm at h
        obtain ⟨h1, _, h3⟩ := h
        subst h1; subst h3
        exact ⟨Or.inl rfl, by simp only; omega⟩
  | some sp =>
    have hb : s.pos ≤ sp ∧ sp < s1.pos := by
      rcases hsp sp rfl with h' | h'
      · simp at h'
      · exact h'
    have hc : txt[sp]? = some 58 := by
      rcases hcol sp rfl with h' | h'
      · simp at h'
      · exact h'
    simp only at h
    split at h
    · exact absurd h (errFrom_ne_ok _ _ _ _)
    · split at h
      · exact absurd h (errFrom_ne_ok _ _ _ _)
      · res_norm at h
        obtain ⟨h1, _, h3⟩ := h
        subst h1; subst h3
        refine ⟨Or.inr ⟨by simp only; omega, by simp only [Nat.add_sub_cancel]; exact hc⟩, ?_⟩
        simp only [List.length_drop]
        omega

end qname

/-! ### The shape automaton: what the token stream of one activation looks like -/

/-- One token seen from position `cur`: comments, CDATA sections and PIs lie on their literal
delimiters; an `ElementStart` lies at or after `cur` on a `<` followed (directly or after `prefix:`)
by its local name, and moves the state to the end of the name; an `ElementEnd` ends strictly after
`cur`, right behind a `>`. -/
def SStep (txt : Bytes) (cur : Nat) (t : Token) (cur' : Nat) : Prop :=
  match t with
  | .comment tx r =>
    sliceBytes txt r.1 r.2 = Lit.commentStart ++ tx.bytes ++ Lit.commentEnd ∧ cur' = cur
  | .cdata tx r =>
    sliceBytes txt r.1 r.2 = Lit.cdataStart ++ tx.bytes ++ Lit.cdataEnd ∧ cur' = cur
  | .pi tg _ r =>
    (∃ mid, sliceBytes txt r.1 r.2 = Lit.piStart ++ tg.bytes ++ mid ++ Lit.piEnd) ∧ cur' = cur
  | .elementStart _ l s =>
    cur ≤ s ∧ txt[s]? = some 60 ∧ s < l.off ∧ (l.off = s + 1 ∨ txt[l.off - 1]? = some 58) ∧
      cur' = l.off + l.bytes.length
  | .elementEnd _ r => cur < r.2 ∧ txt[r.2 - 1]? = some 62 ∧ cur' = r.2
  | .entityDecl _ _ => cur' = cur
  | .attribute _ _ _ _ _ _ => cur' = cur
  | .text _ _ => cur' = cur

def SRun (txt : Bytes) : Nat → List Token → Nat → Prop
  | cur, [], cur' => cur' = cur
  | cur, t :: ts, cur' => ∃ c1, SStep txt cur t c1 ∧ SRun txt c1 ts cur'

theorem sRun_append (txt : Bytes) : ∀ (l1 l2 : List Token) (cur c1 c2 : Nat),
    SRun txt cur l1 c1 → SRun txt c1 l2 c2 → SRun txt cur (l1 ++ l2) c2 := by
  intro l1
  induction l1 with
  | nil => intro l2 cur c1 c2 h1 h2; simp only [SRun] at h1; subst h1; simpa using h2
  | cons t ts ih =>
    intro l2 cur c1 c2 h1 h2
    obtain ⟨c0, hs, hr⟩ := h1
    exact ⟨c0, hs, ih l2 c0 c1 c2 hr h2⟩

/-- tokens the automaton does not look at -/
def _root_.Rox.Token.isPlain : Token → Bool
  | .entityDecl .. => true
  | .attribute .. => true
  | .text .. => true
  | _ => false

theorem sRun_plain (txt : Bytes) (cur : Nat) : ∀ (l : List Token), (∀ t ∈ l, t.isPlain = true) →
    SRun txt cur l cur := by
  intro l
  induction l with
  | nil => intro _; rfl
  | cons t ts ih =>
    intro h
    refine ⟨cur, ?_, ih (fun t' ht' => h t' (by simp [ht']))⟩
    have := h t (by simp)
    cases t <;> simp [Token.isPlain] at this <;> simp [SStep]

open Rox.TM in
/-- From `cur` the shape automaton accepts every token `m` delivers; if `m` succeeds with `a` the
final state satisfies `Q a`. -/
def SF {α} (txt : Bytes) (m : TM α) (cur : Nat) (Q : α → Nat → Prop) : Prop :=
  ∃ cur', SRun txt cur m.1 cur' ∧ (∀ a, m.2 = .ok a → Q a cur')

section sf
open Rox.TM
variable {txt : Bytes}

theorem sf_pure {α} (a : α) (cur : Nat) (Q : α → Nat → Prop) (h : Q a cur) :
    SF txt (pure a : TM α) cur Q :=
  ⟨cur, by simp [pure, pure', SRun], fun b hb => by
    simp [pure, pure'] at hb; subst hb; exact h⟩

theorem sf_lift {α} (r : Res α) (cur : Nat) (Q : α → Nat → Prop) (h : ∀ a, r = .ok a → Q a cur) :
    SF txt (lift r) cur Q :=
  ⟨cur, by simp [lift, SRun], fun a ha => h a (by simpa [lift] using ha)⟩

theorem sf_fail {α} (r : Res α) (cur : Nat) (Q : α → Nat → Prop) (h : ∀ a, r ≠ .ok a) :
    SF txt (lift r) cur Q :=
  sf_lift r cur Q (fun a ha => absurd ha (h a))

theorem sf_emit (t : Token) (cur cur' : Nat) (Q : Unit → Nat → Prop) (h : SStep txt cur t cur')
    (hQ : Q () cur') : SF txt (emit t) cur Q :=
  ⟨cur', ⟨cur', h, rfl⟩, fun _ _ => hQ⟩

theorem sf_bind {α β} (m : TM α) (k : α → TM β) (cur : Nat) (P : α → Nat → Prop)
    (Q : β → Nat → Prop) (hm : SF txt m cur P)
    (hk : ∀ a c1, m.2 = .ok a → P a c1 → SF txt (k a) c1 Q) : SF txt (m >>= k) cur Q := by
  obtain ⟨t1, r⟩ := m
  obtain ⟨c1, hrun, hq⟩ := hm
  cases r with
  | ok a =>
    obtain ⟨c2, hrun2, hq2⟩ := hk a c1 rfl (hq a rfl)
    simp only [bind, bind']
    exact ⟨c2, sRun_append txt _ _ _ _ _ hrun hrun2, hq2⟩
  | err e => simp only [bind, bind']; exact ⟨c1, hrun, fun a ha => by simp at ha⟩
  | panic s => simp only [bind, bind']; exact ⟨c1, hrun, fun a ha => by simp at ha⟩
  | fuel => simp only [bind, bind']; exact ⟨c1, hrun, fun a ha => by simp at ha⟩

/-- a token-free step whose result is described by `P` -/
theorem sf_bind_lift {α β} (r : Res α) (k : α → TM β) (cur : Nat) (Q : β → Nat → Prop)
    (P : α → Prop) (hr : ∀ a, r = .ok a → P a) (hk : ∀ a, P a → SF txt (k a) cur Q) :
    SF txt (lift r >>= k) cur Q :=
  sf_bind _ _ _ (fun a c => c = cur ∧ P a) _ (sf_lift _ _ _ (fun a ha => ⟨rfl, hr a ha⟩))
    (fun a c1 _ h => by obtain ⟨h1, h2⟩ := h; subst h1; exact hk a h2)

theorem sf_mono {α} {m : TM α} {cur : Nat} {P Q : α → Nat → Prop} (h : SF txt m cur P)
    (hPQ : ∀ a c, m.2 = .ok a → P a c → Q a c) : SF txt m cur Q := by
  obtain ⟨c1, h1, h2⟩ := h
  exact ⟨c1, h1, fun a ha => hPQ a c1 ha (h2 a ha)⟩

/-- A computation all of whose tokens are plain. -/
theorem sf_plain {α} (m : TM α) (cur : Nat) (hm : Emits m (fun t => t.isPlain = true)) :
    SF txt m cur (fun _ c => c = cur) :=
  ⟨cur, sRun_plain txt cur m.1 hm, fun _ _ => rfl⟩

end sf

/-! ### The tokenizer's token stream is accepted by the shape automaton -/

section tok
open Rox.TM
variable (T : Tables) (hT : TablesOK T) (txt : Bytes)
include hT

omit hT in
theorem parseComment_sf {s : Stream} (hs : SOk txt s) (hp : s.startsWith Lit.commentStart = true)
    (cur : Nat) : SF txt (parseComment T txt s) cur (fun _ c => c = cur) := by
  unfold parseComment
  apply sf_bind_lift _ _ _ _ (fun s1 => SOk txt s1 ∧ Took s s1 Lit.commentStart)
  · intro s1 h1
    exact ⟨((advance_lit hs Lit.commentStart hp (lit_valid _ (by decide))).post s1 h1).1.2,
      advance_took Lit.commentStart hp h1⟩
  rintro s1 ⟨hs1, t1⟩
  apply sf_bind_lift _ _ _ _ _ (consumeChars_spec T txt _ hs1).post
  rintro ⟨s2, text⟩ ⟨h2, _, _, t2⟩
  simp only at h2 t2 ⊢
  apply sf_bind_lift _ _ _ _ (fun s3 => Took s2 s3 Lit.commentEnd)
    (fun s3 h3 => skipString_took Lit.commentEnd h3)
  intro s3 t3
  split
  · exact sf_fail _ _ _ (errFrom_ne_ok _ _ _)
  · split
    · exact sf_fail _ _ _ (errFrom_ne_ok _ _ _)
    · refine sf_bind _ _ _ (fun _ c => c = cur) _ (sf_emit _ _ cur _ ?_ rfl) ?_
      · have := took_slice hs (Took.trans t1 (Took.trans t2 t3))
        simp only [SStep]
        refine ⟨?_, trivial⟩
        rw [this]; simp
      · intro _ c1 _ h1'
        subst h1'
        exact sf_pure _ _ _ rfl

omit hT in
theorem parseCdata_sf {s : Stream} (hs : SOk txt s) (hp : s.startsWith Lit.cdataStart = true)
    (cur : Nat) : SF txt (parseCdata T txt s) cur (fun _ c => c = cur) := by
  unfold parseCdata
  apply sf_bind_lift _ _ _ _ (fun s1 => SOk txt s1 ∧ Took s s1 Lit.cdataStart)
  · intro s1 h1
    exact ⟨((advance_lit hs Lit.cdataStart hp (lit_valid _ (by decide))).post s1 h1).1.2,
      advance_took Lit.cdataStart hp h1⟩
  rintro s1 ⟨hs1, t1⟩
  apply sf_bind_lift _ _ _ _ _ (consumeChars_spec T txt _ hs1).post
  rintro ⟨s2, text⟩ ⟨h2, _, _, t2⟩
  simp only at h2 t2 ⊢
  apply sf_bind_lift _ _ _ _ (fun s3 => Took s2 s3 Lit.cdataEnd)
    (fun s3 h3 => skipString_took Lit.cdataEnd h3)
  intro s3 t3
  refine sf_bind _ _ _ (fun _ c => c = cur) _ (sf_emit _ _ cur _ ?_ rfl) ?_
  · have := took_slice hs (Took.trans t1 (Took.trans t2 t3))
    simp only [SStep]
    refine ⟨?_, trivial⟩
    rw [this]; simp
  · intro _ c1 _ h1'
    subst h1'
    exact sf_pure _ _ _ rfl

theorem parsePi_sf {s : Stream} (hs : SOk txt s) (hp : s.startsWith Lit.piStart = true)
    (cur : Nat) : SF txt (parsePi T txt s) cur (fun _ c => c = cur) := by
  unfold parsePi
  split
  · exact sf_fail _ _ _ (errAt_ne_ok _ _ _)
  · apply sf_bind_lift _ _ _ _ (fun s1 => SOk txt s1 ∧ Took s s1 Lit.piStart)
    · intro s1 h1
      exact ⟨((advance_lit hs Lit.piStart hp (lit_valid _ (by decide))).post s1 h1).1.2,
        advance_took Lit.piStart hp h1⟩
    rintro s1 ⟨hs1, t1⟩
    apply sf_bind_lift _ _ _ _ _ (consumeName_spec T txt hs1).post
    rintro ⟨s2, target⟩ ⟨h2, _, _, t2, _⟩
    simp only at h2 t2 ⊢
    apply sf_bind_lift _ _ _ _ _ (declConsumeSpaces_spec T hT txt h2.2).post
    intro s3 h3
    obtain ⟨sp, t3⟩ := adv_took h3.1
    apply sf_bind_lift _ _ _ _ _ (consumeChars_spec T txt _ h3.2).post
    rintro ⟨s4, content⟩ ⟨h4, _, _, t4⟩
    simp only at h4 t4 ⊢
    apply sf_bind_lift _ _ _ _ (fun s5 => Took s4 s5 Lit.piEnd)
      (fun s5 h5 => skipString_took Lit.piEnd h5)
    intro s5 t5
    refine sf_bind _ _ _ (fun _ c => c = cur) _ (sf_emit _ _ cur _ ?_ rfl) ?_
    · have := took_slice hs (Took.trans t1 (Took.trans t2 (Took.trans t3 (Took.trans t4 t5))))
      simp only [SStep]
      refine ⟨⟨sp ++ content.bytes, ?_⟩, trivial⟩
      rw [this]; simp
    · intro _ c1 _ h1'
      subst h1'
      exact sf_pure _ _ _ rfl

theorem parseMisc_sf : ∀ (fuel : Nat) (s : Stream) (cur : Nat), SOk txt s →
    SF txt (parseMisc T txt fuel s) cur (fun _ c => c = cur) := by
  intro fuel
  induction fuel with
  | zero => intro s cur _; unfold parseMisc; exact sf_fail _ _ _ (by simp)
  | succ n ih =>
    intro s cur hs
    unfold parseMisc
    split
    · exact sf_pure _ _ _ rfl
    · have h1 := skipSpaces_step T hT hs
      simp only
      split
      · rename_i hc
        refine sf_bind _ _ _ _ _ (parseComment_sf T txt h1.2 hc cur) ?_
        intro s2 c1 hok hc1
        subst hc1
        exact ih s2 _ ((parseComment_spec T hT txt h1.2 hc).post s2 hok).1.2
      · split
        · rename_i hc
          refine sf_bind _ _ _ _ _ (parsePi_sf T hT txt h1.2 hc cur) ?_
          intro s2 c1 hok hc1
          subst hc1
          exact ih s2 _ ((parsePi_spec T hT txt h1.2 hc).post s2 hok).1.2
        · exact sf_pure _ _ _ rfl

theorem doctypeLoop_sf (start : Nat) : ∀ (fuel : Nat) (s : Stream) (cur : Nat), SOk txt s →
    SF txt (doctypeLoop T txt start fuel s) cur (fun _ c => c = cur) := by
  intro fuel
  induction fuel with
  | zero => intro s cur _; unfold doctypeLoop; exact sf_fail _ _ _ (by simp)
  | succ n ih =>
    intro s cur hs
    unfold doctypeLoop
    split
    · exact sf_pure _ _ _ rfl
    · have h1 := skipSpaces_step T hT hs
      simp only
      split
      · rename_i hc
        refine sf_bind _ _ _ _ _
          (sf_plain _ cur (parseEntityDecl_emits T txt _ (fun _ _ => rfl) _)) ?_
        intro s2 c1 hok hc1
        subst hc1
        exact ih s2 _ ((parseEntityDecl_spec T hT txt h1.2 hc).post s2 hok).1.2
      · split
        · rename_i hc
          refine sf_bind _ _ _ _ _ (parseComment_sf T txt h1.2 hc cur) ?_
          intro s2 c1 hok hc1
          subst hc1
          exact ih s2 _ ((parseComment_spec T hT txt h1.2 hc).post s2 hok).1.2
        · split
          · rename_i hc
            refine sf_bind _ _ _ _ _ (parsePi_sf T hT txt h1.2 hc cur) ?_
            intro s2 c1 hok hc1
            subst hc1
            exact ih s2 _ ((parsePi_spec T hT txt h1.2 hc).post s2 hok).1.2
          · split
            · apply sf_plain
              apply emits_bind_lift; intro s1
              split
              · exact emits_lift _ _
              · split
                · exact emits_pure _ _
                · exact emits_lift _ _
            · split
              · cases hcd : consumeDecl txt (s.skipSpaces T) with
                | mk s2 failed =>
                  simp only
                  split
                  · exact sf_fail _ _ _ (errFrom_ne_ok _ _ _)
                  · rename_i hf'
                    have hnf : (consumeDecl txt (s.skipSpaces T)).2 = false := by
                      rw [hcd]; simpa using hf'
                    have h2 := consumeDecl_step txt h1.2 hnf
                    rw [hcd] at h2
                    exact ih s2 _ h2.1.2
              · exact sf_fail _ _ _ (errAt_ne_ok _ _ _)

theorem parseDoctype_sf {s : Stream} (hs : SOk txt s) (hp : s.startsWith Lit.doctype = true)
    (cur : Nat) : SF txt (parseDoctype T txt s) cur (fun _ c => c = cur) := by
  unfold parseDoctype
  apply sf_bind_lift _ _ _ _ _ (parseDoctypeStart_spec T hT txt hs hp).post
  rintro s1 ⟨h1, c, r, hr, hc⟩
  have hnoop : s1.skipSpaces T = s1 := by
    apply skipSpaces_noop T s1 c r hr
    rcases hc with rfl | rfl
    · exact hT.lbr_not_space
    · exact hT.gt_not_space
  simp only [hnoop, hr]
  have hlt : c < 128 := by rcases hc with rfl | rfl <;> decide
  have hstep := step_ascii h1.1.2 c r hr hlt
  split
  · exact sf_pure _ _ _ rfl
  · apply sf_bind_lift _ _ _ _ (fun s3 => SOk txt s3)
    · intro s3 h3
      unfold Stream.advance at h3
      have : 1 ≤ s1.rest.length := by rw [hr]; simp
      simp only [this, if_true, Res.ok.injEq] at h3
      subst h3
      have : s1.rest.drop 1 = r := by rw [hr]; rfl
      rw [this]; exact hstep.2
    intro s3 h3
    exact doctypeLoop_sf T hT txt _ _ s3 cur h3

theorem parseProlog_sf (hv : ValidUtf8 txt) (cur : Nat) :
    SF txt (parseProlog T txt) cur (fun _ c => c = cur) := by
  unfold parseProlog
  have hs0 := sok_new txt hv
  apply sf_bind_lift _ _ _ _ (fun s1 => SOk txt s1)
  · intro s1 h1
    split at h1
    · rename_i hb
      have : ValidUtf8 Lit.bom := by unfold ValidUtf8; decide
      exact ((advance_lit hs0 Lit.bom hb this).post s1 h1).1.2
    · simp only [Res.ok.injEq] at h1; subst h1; exact hs0
  intro s1 h1
  apply sf_bind_lift _ _ _ _ (fun s2 => SOk txt s2)
  · intro s2 h2
    split at h2
    · rename_i hd
      exact ((parseDeclaration_spec T hT txt h1 hd).post s2 h2).2
    · simp only [Res.ok.injEq] at h2; subst h2; exact h1
  intro s2 h2
  refine sf_bind _ _ _ _ _ (parseMisc_sf T hT txt _ s2 cur h2) ?_
  intro s3 c1 _ hc1
  subst hc1
  exact sf_pure _ _ _ rfl

/-- The close tag ends behind a `>`, strictly after every earlier tag position. -/
theorem parseCloseElement_sf {s : Stream} (hs : SOk txt s) (hp : s.startsWith [60, 47] = true)
    (cur : Nat) (hc : cur ≤ s.pos) :
    SF txt (parseCloseElement T txt s) cur (fun s' c => c ≤ s'.pos) := by
  unfold parseCloseElement
  apply sf_bind_lift _ _ _ _ (fun s1 => Step txt s s1 ∧ s1.pos = s.pos + 2)
    (advance_lit hs [60, 47] hp (lit_valid _ (by decide))).post
  rintro s1 ⟨h1, hp1⟩
  apply sf_bind_lift _ _ _ _ _ (consumeQName_spec T txt h1.2).post
  rintro ⟨s2, pfx, loc⟩ ⟨h2, _, _, _⟩
  simp only at h2 ⊢
  have h3 := skipSpaces_step T hT h2.2
  apply sf_bind_lift _ _ _ _ (fun s4 => Took (s2.skipSpaces T) s4 [bGt])
    (fun s4 h4 => consumeByte_took bGt h4)
  intro s4 t4
  obtain ⟨hp4, hg4⟩ := took_last h3.2 t4
  have hle : cur < s4.pos := by
    have := h1.1.pos_le; have := h2.1.pos_le; have := h3.1.pos_le; omega
  refine sf_bind _ _ _ (fun _ c => c = s4.pos) _ (sf_emit _ _ s4.pos _ ?_ rfl) ?_
  · simp only [SStep]
    exact ⟨hle, hg4, trivial⟩
  · intro _ c1 _ h1'
    subst h1'
    exact sf_pure _ _ _ (Nat.le_refl _)

/-- The attribute loop: the closing `ElementEnd` ends behind a `>`, strictly after `cur`. -/
theorem startTagLoop_sf : ∀ (fuel : Nat) (s : Stream) (cur : Nat), SOk txt s → cur ≤ s.pos →
    SF txt (startTagLoop T txt fuel s) cur (fun p c => c ≤ p.1.pos) := by
  intro fuel
  induction fuel with
  | zero => intro s cur _ _; unfold startTagLoop; exact sf_fail _ _ _ (by simp)
  | succ n ih =>
    intro s cur hs hc
    unfold startTagLoop
    split
    · exact sf_pure _ _ _ hc
    · have h1 := skipSpaces_step T hT hs
      have hp1 := h1.1.pos_le
      simp only
      apply sf_bind_lift _ _ _ _ (fun c => ∃ r, (s.skipSpaces T).rest = c :: r)
      · intro c hcb
        unfold Stream.currByte at hcb
        split at hcb
        · simp at hcb
        · rename_i b r hr
          simp only [Res.ok.injEq] at hcb
          subst hcb
          exact ⟨r, hr⟩
      rintro c ⟨r, hr⟩
      have hadv : ∀ (b : UInt8), b < 128 → (s.skipSpaces T).rest = b :: r →
          ∀ s2, (s.skipSpaces T).advance 1 = .ok s2 →
            Step txt (s.skipSpaces T) s2 ∧ Took (s.skipSpaces T) s2 [b] := by
        intro b hb hr' s2 h2
        refine ⟨?_, advance1_took b r hr' h2⟩
        unfold Stream.advance at h2
        have : 1 ≤ (s.skipSpaces T).rest.length := by rw [hr']; simp
        simp only [this, if_true, Res.ok.injEq] at h2
        subst h2
        have hd : (s.skipSpaces T).rest.drop 1 = r := by rw [hr']; rfl
        rw [hd]; exact step_ascii h1.2 b r hr' hb
      split
      · rename_i hc'
        have : c = bSlash := by simpa using hc'
        subst this
        apply sf_bind_lift _ _ _ _ _ (hadv bSlash (by decide) hr)
        rintro s2 ⟨h2, _⟩
        apply sf_bind_lift _ _ _ _ (fun s3 => Took s2 s3 [bGt])
          (fun s3 h3 => consumeByte_took bGt h3)
        intro s3 t3
        obtain ⟨hp3, hg3⟩ := took_last h2.2 t3
        have hle : cur < s3.pos := by
          have := h2.1.pos_le; omega
        refine sf_bind _ _ _ (fun _ c => c = s3.pos) _ (sf_emit _ _ s3.pos _ ?_ rfl) ?_
        · simp only [SStep]
          exact ⟨hle, hg3, trivial⟩
        · intro _ c1 _ h1'
          subst h1'
          exact sf_pure _ _ _ (Nat.le_refl _)
      · split
        · rename_i _ hc'
          have : c = bGt := by simpa using hc'
          subst this
          apply sf_bind_lift _ _ _ _ _ (hadv bGt (by decide) hr)
          rintro s2 ⟨h2, t2⟩
          obtain ⟨hp2, hg2⟩ := took_last h1.2 t2
          have hle : cur < s2.pos := by omega
          refine sf_bind _ _ _ (fun _ c => c = s2.pos) _ (sf_emit _ _ s2.pos _ ?_ rfl) ?_
          · simp only [SStep]
            exact ⟨hle, hg2, trivial⟩
          · intro _ c1 _ h1'
            subst h1'
            exact sf_pure _ _ _ (Nat.le_refl _)
        · -- an attribute
          apply sf_bind_lift _ _ _ _ (fun s2 => Step txt (s.skipSpaces T) s2)
          · intro s2 h2
            split at h2
            · exact (consumeSpaces_spec T hT h1.2).post s2 h2
            · simp only [Res.ok.injEq] at h2; subst h2; exact Step.refl h1.2
          intro s2 h2
          apply sf_bind_lift _ _ _ _ _ (consumeQName_spec T txt h2.2).post
          rintro ⟨s3, pfx, loc⟩ ⟨h3, _, _, _⟩
          simp only at h3 ⊢
          apply sf_bind_lift _ _ _ _ _ (consumeEq_spec T hT h3.2).post
          intro s4 h4
          apply sf_bind_lift _ _ _ _ _ (consumeQuote_spec h4.2).post
          rintro ⟨s5, q⟩ ⟨h5, hq, _⟩
          simp only at h5 ⊢
          apply sf_bind_lift _ _ _ _ _ (advanceUntil2_spec txt h5.2 q bLt hq (by decide)).post
          rintro ⟨s6, value⟩ ⟨h6, _, _, _, _⟩
          simp only at h6 ⊢
          apply sf_bind_lift _ _ _ _ (fun _ => True) (fun _ _ => trivial)
          intro _ _
          apply sf_bind_lift _ _ _ _ _ (consumeByte_spec h6.2 q hq).post
          rintro s7 ⟨h7, hp7⟩
          have hle : cur ≤ s7.pos := by
            have := h2.1.pos_le; have := h3.1.pos_le; have := h4.1.pos_le; have := h5.1.pos_le
            have := h6.1.pos_le; have := h7.1.pos_le; omega
          refine sf_bind _ _ _ (fun _ c => c = cur) _
            (sf_emit _ _ cur _ (by simp only [SStep]) rfl) ?_
          intro _ c1 _ h1'
          subst h1'
          exact ih s7 _ h7.2 hle

/-- A start tag: `<`, the (qualified) name, then — strictly behind the name — the `>`. -/
theorem parseStartTag_sf {s : Stream} (hs : SOk txt s) (r : Bytes) (hr : s.rest = bLt :: r)
    (cur : Nat) (hc : cur ≤ s.pos) :
    SF txt (parseStartTag T txt s) cur (fun p c => c ≤ p.1.pos) := by
  unfold parseStartTag
  apply sf_bind_lift _ _ _ _ (fun s1 => Step txt s s1 ∧ s1.pos = s.pos + 1)
  · intro s1 h1
    unfold Stream.advance at h1
    have : 1 ≤ s.rest.length := by rw [hr]; simp
    simp only [this, if_true, Res.ok.injEq] at h1
    subst h1
    have hd : s.rest.drop 1 = r := by rw [hr]; rfl
    rw [hd]; exact ⟨step_ascii hs bLt r hr (by decide), rfl⟩
  rintro s1 ⟨h1, hp1⟩
  apply sf_bind_lift _ _ _ _
    (fun (p : Stream × Span × Span) => Step txt s1 p.1 ∧
      (p.2.2.off = s1.pos ∨ (s1.pos < p.2.2.off ∧ txt[p.2.2.off - 1]? = some 58)) ∧
      p.2.2.off + p.2.2.bytes.length ≤ p.1.pos)
  · rintro ⟨s2, pfx, loc⟩ h2
    obtain ⟨a, b⟩ := consumeQName_loc T txt h1.2 h2
    exact ⟨((consumeQName_spec T txt h1.2).post _ h2).1, a, b⟩
  rintro ⟨s2, pfx, loc⟩ ⟨h2, hloc, hend⟩
  simp only at h2 hloc hend ⊢
  have h60 : txt[s.pos]? = some 60 := sok_get hs bLt r hr
  refine sf_bind _ _ _ (fun _ c => c = loc.off + loc.bytes.length) _
    (sf_emit _ _ (loc.off + loc.bytes.length) _ ?_ rfl) ?_
  · simp only [SStep]
    refine ⟨hc, h60, ?_, ?_, trivial⟩
    · rcases hloc with h | h <;> omega
    · rcases hloc with h | h
      · left; omega
      · right; exact h.2
  intro _ c1 _ h1'
  subst h1'
  refine sf_bind _ _ _ _ _ (startTagLoop_sf T hT txt _ s2 _ h2.2 hend) ?_
  rintro ⟨s3, fin⟩ c1 _ h3
  simp only at h3 ⊢
  split
  · exact sf_fail _ _ _ (by simp)
  · exact sf_pure _ _ _ h3

/-- Element content. -/
theorem parseContent_sf : ∀ (fuel depth : Nat) (s : Stream) (cur : Nat), SOk txt s → cur ≤ s.pos →
    SF txt (parseContent T txt fuel depth s) cur (fun _ _ => True) := by
  intro fuel
  induction fuel with
  | zero => intro d s cur _ _; unfold parseContent; exact sf_fail _ _ _ (by simp)
  | succ n ih =>
    intro depth s cur hs hc
    unfold parseContent
    split
    · exact sf_pure _ _ _ trivial
    · rename_i c r hr
      have cont : ∀ (d' : Nat) (m : TM Stream), Spec m (TokOk txt) (Step1 txt s) →
          SF txt m cur (fun _ c => c = cur) →
          SF txt (m >>= fun s' => parseContent T txt n d' s') cur (fun _ _ => True) := by
        intro d' m hm hpf
        refine sf_bind _ _ _ _ _ hpf ?_
        intro s2 c1 hok h1
        subst h1
        have h2 := hm.post s2 hok
        exact ih d' s2 _ h2.1.2 (Nat.le_trans hc h2.1.1.pos_le)
      split
      · rename_i hc'
        have hcl : c = bLt := by simpa using hc'
        subst hcl
        split
        · rename_i nb hnb
          split
          · split
            · rename_i hcs
              exact cont depth _ (parseComment_spec T hT txt hs hcs) (parseComment_sf T txt hs hcs _)
            · split
              · rename_i hcs
                exact cont depth _ (parseCdata_spec T hT txt hs hcs) (parseCdata_sf T txt hs hcs _)
              · exact sf_fail _ _ _ (errAt_ne_ok _ _ _)
          · split
            · rename_i _ hq
              have : nb = bQuest := by simpa using hq
              subst this
              have hsw := startsWith_two bLt bQuest r hr hnb
              exact cont depth _ (parsePi_spec T hT txt hs hsw) (parsePi_sf T hT txt hs hsw _)
            · split
              · rename_i _ _ hsl
                have : nb = bSlash := by simpa using hsl
                subst this
                have hsw := startsWith_two bLt bSlash r hr hnb
                refine sf_bind _ _ _ _ _ (parseCloseElement_sf T hT txt hs hsw cur hc) ?_
                intro s2 c1 hok h1
                have h2 := (parseCloseElement_spec T hT txt hs hsw).post s2 hok
                split
                · exact sf_pure _ _ _ trivial
                · exact ih _ s2 _ h2.1.2 h1
              · refine sf_bind _ _ _ _ _ (parseStartTag_sf T hT txt hs r hr cur hc) ?_
                rintro ⟨s2, opened⟩ c1 hok h1
                have h2 := (parseStartTag_spec T hT txt hs bLt r hr (by decide)).post _ hok
                simp only at h1 h2 ⊢
                exact ih _ s2 _ h2.1.2 h1
        · exact sf_fail _ _ _ (errAt_ne_ok _ _ _)
      · rename_i hc'
        have hne : c ≠ bLt := by simpa using hc'
        exact cont depth _ (parseText_spec T hT txt hs c r hr hne)
          (sf_plain _ cur (parseText_emits T txt _ (fun _ _ => rfl) _))

theorem parseElement_sf {s : Stream} (hs : SOk txt s) (r : Bytes) (hr : s.rest = bLt :: r)
    (cur : Nat) (hc : cur ≤ s.pos) : SF txt (parseElement T txt s) cur (fun _ _ => True) := by
  unfold parseElement
  refine sf_bind _ _ _ _ _ (parseStartTag_sf T hT txt hs r hr cur hc) ?_
  rintro ⟨s2, opened⟩ c1 hok h1
  have h2 := (parseStartTag_spec T hT txt hs bLt r hr (by decide)).post _ hok
  simp only at h1 h2 ⊢
  split
  · exact parseContent_sf T hT txt _ 0 s2 _ h2.1.2 h1
  · exact sf_pure _ _ _ trivial

theorem parseBody_sf {s : Stream} (hs : SOk txt s) : SF txt (parseBody T txt s) 0 (fun _ _ => True) := by
  unfold parseBody
  have h1 := skipSpaces_step T hT hs
  refine sf_bind _ _ _ (fun s2 _ => SOk txt s2) _ ?_ ?_
  · unfold parseRootElement
    split
    · rename_i hc
      cases hr : (s.skipSpaces T).rest with
      | nil => simp [Stream.currByte?, hr] at hc
      | cons b r =>
        have : b = bLt := by simpa [Stream.currByte?, hr] using hc
        subst this
        refine sf_mono (parseElement_sf T hT txt h1.2 r hr 0 (Nat.zero_le _)) ?_
        intro s2 _ hok _
        exact ((parseElement_spec T hT txt h1.2 r hr).post s2 hok).2
    · exact sf_pure _ _ _ h1.2
  intro s2 c1 _ hs2
  refine sf_bind _ _ _ _ _ (parseMisc_sf T hT txt _ s2 c1 hs2) ?_
  intro s3 c2 _ _
  split
  · exact sf_fail _ _ _ (errAt_ne_ok _ _ _)
  · exact sf_pure _ _ _ trivial

/-- The token stream of a document is accepted by the shape automaton. -/
theorem parseDocument_sf (hv : ValidUtf8 txt) (allowDtd : Bool) :
    SF txt (parseDocument T txt allowDtd) 0 (fun _ _ => True) := by
  unfold parseDocument
  refine sf_bind _ _ _ _ _ (parseProlog_sf T hT txt hv 0) ?_
  intro s1 c1 hok1 h1
  subst h1
  have hs1 := (parseProlog_spec T hT txt hv).post s1 hok1
  split
  · rename_i hd
    split
    · exact sf_fail _ _ _ (by simp)
    · refine sf_bind _ _ _ _ _ (parseDoctype_sf T hT txt hs1 hd 0) ?_
      intro s2 c2 hok2 h2
      subst h2
      have hs2 := (parseDoctype_spec T hT txt hs1 hd).post s2 hok2
      refine sf_bind _ _ _ _ _ (parseMisc_sf T hT txt _ s2 0 hs2.2) ?_
      intro s3 c3 hok3 h3
      subst h3
      have hs3 := (parseMisc_spec T hT txt _ s2 (by omega) hs2.2).post s3 hok3
      exact parseBody_sf T hT txt hs3.2
  · exact parseBody_sf T hT txt hs1

/-- The tokens of an entity value are accepted by the shape automaton (started at 0). -/
theorem tokenizeContent_sf (v : Span) (hv : SpanU txt v) :
    ∃ cur', SRun txt 0 (tokenizeContent T txt v.off v.stop).1 cur' := by
  have hs0 : SOk txt (Stream.ofRange txt v.off v.stop) := by
    have := hv.sOk
    have e : Stream.ofRange txt v.off v.stop = ⟨v.off, v.bytes⟩ := by
      unfold Stream.ofRange Span.stop
      rw [← hv.1.1]
    rw [e]; exact this
  obtain ⟨c, hc, _⟩ := parseContent_sf T hT txt
    ((Stream.ofRange txt v.off v.stop).rest.length + 1) 0 _ 0 hs0 (Nat.zero_le _)
  exact ⟨c, hc⟩

end tok

/-! ### Builder level: the invariant -/

/-- the kind of an old node is kept, except that a text node may get another string -/
def KindKeep (k k' : Kind) : Prop := k' = k ∨ (k.isText = true ∧ k'.isText = true)

theorem KindKeep.trans {a b c : Kind} (h1 : KindKeep a b) (h2 : KindKeep b c) : KindKeep a c := by
  rcases h1 with rfl | ⟨x, y⟩
  · exact h2
  · rcases h2 with rfl | ⟨_, w⟩
    · exact Or.inr ⟨x, y⟩
    · exact Or.inr ⟨x, w⟩

/-- old nodes keep their parent link and (up to text rewriting) their kind -/
@[reducible] def SKeep (a a' : Array NodeData) : Prop :=
  ∀ (i : Nat) (nd : NodeData), a[i]? = some nd →
    ∃ nd', a'[i]? = some nd' ∧ nd'.parent = nd.parent ∧ KindKeep nd.kind nd'.kind

theorem SKeep.refl (a : Array NodeData) : SKeep a a := fun _ nd h => ⟨nd, h, rfl, Or.inl rfl⟩

theorem SKeep.trans {a b c : Array NodeData} (h1 : SKeep a b) (h2 : SKeep b c) : SKeep a c := by
  intro i nd h
  obtain ⟨nd1, g1, p1, k1⟩ := h1 i nd h
  obtain ⟨nd2, g2, p2, k2⟩ := h2 i nd1 g1
  exact ⟨nd2, g2, p2.trans p1, k1.trans k2⟩

/-- an open element (or the root): its name ends at or before `cur` -/
def NameBelow (cur : Nat) : Kind → Prop
  | .root => True
  | .element _ name _ _ => name.off + name.bytes.length ≤ cur
  | _ => False

theorem NameBelow.keep {cur cur' : Nat} {k k' : Kind} (hk : KindKeep k k') (hc : cur ≤ cur')
    (h : NameBelow cur k) : NameBelow cur' k' := by
  rcases hk with rfl | ⟨ht, _⟩
  · cases k' with
    | root => trivial
    | element a name b c => simp only [NameBelow] at h ⊢; omega
    | pi a b => exact h
    | comment a => exact h
    | text a => exact h
  · cases k <;> simp [Kind.isText, NameBelow] at ht h

@[reducible] def NodesShape (txt : Bytes) (a : Array NodeData) : Prop :=
  ∀ (i : Nat) (n : NodeData), a[i]? = some n → NodeShape txt n

theorem nodeShape_congr {txt : Bytes} {n m : NodeData} (hk : m.kind = n.kind)
    (hr : m.range = n.range) (h : NodeShape txt n) : NodeShape txt m := by
  unfold NodeShape at h ⊢
  rw [hk, hr]; exact h

/-- the close-tag rewrite of an open element's range keeps its shape -/
theorem nodeShape_close {txt : Bytes} {p q : NodeData} {cur r2 : Nat} (hk : q.kind = p.kind)
    (hr : q.range = (p.range.1, r2)) (hs : NodeShape txt p) (hn : NameBelow cur p.kind)
    (hc : cur < r2) (hgt : txt[r2 - 1]? = some 62) : NodeShape txt q := by
  unfold NodeShape at hs ⊢
  rw [hk, hr]
  cases hpk : p.kind with
  | root => trivial
  | element a name b c =>
    rw [hpk] at hs hn
    simp only [NameBelow] at hn
    simp only at hs ⊢
    obtain ⟨h1, h2, _, h4, _, h6⟩ := hs
    exact ⟨by omega, h2, hgt, h4, by omega, h6⟩
  | pi a b => rw [hpk] at hn; exact absurd hn (by simp [NameBelow])
  | comment a => rw [hpk] at hn; exact absurd hn (by simp [NameBelow])
  | text a => rw [hpk] at hn; exact absurd hn (by simp [NameBelow])

theorem nodesShape_set {txt : Bytes} (a : Array NodeData) (i : Nat) (m m' : NodeData)
    (hm : a[i]? = some m) (ha : NodesShape txt a) (h1 : NodeShape txt m') :
    NodesShape txt (a.setIfInBounds i m') := by
  intro j nd hj
  rw [set_get a i m m' hm j] at hj
  by_cases hij : i = j
  · simp only [hij, if_true, Option.some.injEq] at hj
    subst hj; exact h1
  · simp only [hij, if_false] at hj
    exact ha j nd hj

theorem skeep_set (a : Array NodeData) (i : Nat) (m m' : NodeData) (hm : a[i]? = some m)
    (h1 : m'.parent = m.parent) (h2 : KindKeep m.kind m'.kind) : SKeep a (a.setIfInBounds i m') := by
  intro j nd hj
  rw [set_get a i m m' hm j]
  by_cases hij : i = j
  · subst hij
    rw [hm] at hj
    simp only [Option.some.injEq] at hj
    subst hj
    exact ⟨m', by simp, h1, h2⟩
  · exact ⟨nd, by simp [hij, hj], rfl, Or.inl rfl⟩

/-- a predicate on (arena, node) that survives every change the builder makes to old nodes -/
def SMono (R : Array NodeData → Nat → Prop) : Prop :=
  ∀ a a' pid, SKeep a a' → R a pid → R a' pid

/-- The names of the `n` innermost open elements (walking up from `pid`) end at or before `cur`;
what lies below them satisfies `R`. -/
def SChain (R : Array NodeData → Nat → Prop) (a : Array NodeData) (cur : Nat) : Nat → Nat → Prop
  | 0, pid => R a pid
  | n+1, pid => ∃ nd, a[pid]? = some nd ∧ NameBelow cur nd.kind ∧
      ∀ p, nd.parent = some p → SChain R a cur n p

theorem SChain.mono {R : Array NodeData → Nat → Prop} (hR : SMono R) {a a' : Array NodeData}
    {cur cur' : Nat} (hk : SKeep a a') (hc : cur ≤ cur') :
    ∀ (n pid : Nat), SChain R a cur n pid → SChain R a' cur' n pid := by
  intro n
  induction n with
  | zero => intro pid h; exact hR a a' pid hk h
  | succ n ih =>
    intro pid h
    obtain ⟨nd, hg, hr, hp⟩ := h
    obtain ⟨nd', hg', hp', hk'⟩ := hk pid nd hg
    refine ⟨nd', hg', hr.keep hk' hc, ?_⟩
    intro p hpp
    rw [hp'] at hpp
    exact ih p (hp p hpp)

theorem SChain.rmono {R : Array NodeData → Nat → Prop} (hR : SMono R) (cur n : Nat) :
    SMono (fun a pid => SChain R a cur n pid) :=
  fun _ _ pid hk h => SChain.mono hR hk (Nat.le_refl _) n pid h

/-- what the pending start tag looks like in the source -/
def TagShape (txt : Bytes) (tg : TagName) : Prop :=
  tg.name.isEmpty = false →
    txt[tg.pos]? = some 60 ∧ tg.pos < tg.nameSpan.off ∧
      (tg.nameSpan.off = tg.pos + 1 ∨ txt[tg.nameSpan.off - 1]? = some 58)

/-- The builder relative to the state `cur` of the shape automaton of this activation and the
entity floor `fl` of this activation. -/
structure SPos (txt : Bytes) (R : Array NodeData → Nat → Prop) (cur fl : Nat) (c : Ctx) : Prop where
  positions : c.positions = true
  floor : c.entityFloor = fl
  tagEnd : c.tagName.nameSpan.off + c.tagName.nameSpan.bytes.length ≤ cur
  tagShape : TagShape txt c.tagName
  chain : ∃ n, c.parentPrefixes.length = fl + n ∧ SChain R c.doc.nodes cur n c.parentId

/-- frame -/
structure SFr (c c' : Ctx) : Prop where
  pp : c'.parentPrefixes = c.parentPrefixes
  floor : c'.entityFloor = c.entityFloor
  pid : c'.parentId = c.parentId
  tag : c'.tagName = c.tagName
  positions : c'.positions = c.positions
  keep : SKeep c.doc.nodes c'.doc.nodes

theorem SFr.refl (c : Ctx) : SFr c c := ⟨rfl, rfl, rfl, rfl, rfl, SKeep.refl _⟩

theorem SFr.trans {a b c : Ctx} (h1 : SFr a b) (h2 : SFr b c) : SFr a c :=
  ⟨h2.pp.trans h1.pp, h2.floor.trans h1.floor, h2.pid.trans h1.pid, h2.tag.trans h1.tag,
    h2.positions.trans h1.positions, h1.keep.trans h2.keep⟩

theorem SFr.of_eq {c c' : Ctx} (hpp : c'.parentPrefixes = c.parentPrefixes)
    (hf : c'.entityFloor = c.entityFloor) (hp : c'.parentId = c.parentId)
    (ht : c'.tagName = c.tagName) (hps : c'.positions = c.positions)
    (hn : c'.doc.nodes = c.doc.nodes) : SFr c c' :=
  ⟨hpp, hf, hp, ht, hps, by rw [hn]; exact SKeep.refl _⟩

theorem SFr.pos {txt : Bytes} {R : Array NodeData → Nat → Prop} (hR : SMono R) {c c' : Ctx}
    {cur cur' fl : Nat} (f : SFr c c') (hc : cur ≤ cur') (h : SPos txt R cur fl c) :
    SPos txt R cur' fl c' := by
  obtain ⟨h0, h1, h2, h3, n, hn, hch⟩ := h
  refine ⟨by rw [f.positions]; exact h0, by rw [f.floor]; exact h1, by rw [f.tag]; omega,
    by rw [f.tag]; exact h3, n, by rw [f.pp]; exact hn, ?_⟩
  rw [f.pid]
  exact SChain.mono hR f.keep hc n _ hch

/-- `append_node`: a frame step; the new node is a child of the current parent and has the given
kind and (with positions) range. -/
theorem appendNode_sfr {txt : Bytes} {c c' : Ctx} {k : Kind} {r : Range} {id : Nat} (hb : BInv c)
    (h : c.appendNode k r = .ok (c', id)) :
    SFr c c' ∧
      (c.positions = true → (∀ n : NodeData, n.kind = k → n.range = r → NodeShape txt n) →
        NodesShape txt c.doc.nodes → NodesShape txt c'.doc.nodes) ∧
      ∃ nd, c'.doc.nodes[id]? = some nd ∧ nd.parent = some c.parentId ∧ nd.kind = k := by
  obtain ⟨hid, hsz, hold, ⟨p, hp, hnew⟩, _, hpid, _, hpp, hattrs, _, hfl, hpos, _⟩ :=
    appendNode_spec c c' k r id hb.pid_lt hb.awaiting_lt h
  obtain ⟨htag, hcur⟩ := appendNode_misc h
  have hkeep : SKeep c.doc.nodes c'.doc.nodes := by
    intro i nd hi
    have hlt : i < c.doc.nodes.size := (Array.getElem?_eq_some_iff.mp hi).1
    have := hold i hlt
    rw [hi] at this
    exact ⟨_, this, rfl, Or.inl rfl⟩
  refine ⟨⟨hpp, hfl, hpid, htag, hpos, hkeep⟩, ?_, ?_⟩
  · intro hpt hk ns i n hi
    have hlt : i < c'.doc.nodes.size := (Array.getElem?_eq_some_iff.mp hi).1
    by_cases hi' : i < c.doc.nodes.size
    · have := hold i hi'
      rw [hi] at this
      cases hci : c.doc.nodes[i]? with
      | none => rw [hci] at this; simp at this
      | some m =>
        rw [hci] at this
        simp only [Option.map_some, Option.some.injEq] at this
        subst this
        exact nodeShape_congr rfl rfl (ns i m hci)
    · have : i = c.doc.nodes.size := by omega
      subst this
      rw [hnew] at hi
      simp only [Option.some.injEq] at hi
      subst hi
      exact hk _ rfl (by simp [hpt])
  · rw [hid]
    exact ⟨_, hnew, rfl, rfl⟩

theorem appendText_sfr {txt : Bytes} {c c' : Ctx} {t : Str} {r : Range} (hb : BInv c)
    (h : c.appendText t r = .ok c') :
    SFr c c' ∧ (c.positions = true →
      (∀ n : NodeData, n.kind = .text t → n.range = r → NodeShape txt n) →
      NodesShape txt c.doc.nodes → NodesShape txt c'.doc.nodes) := by
  unfold Ctx.appendText at h
  dsimp only at h
  split at h
  · rw [Res.bind_eq_ok] at h
    obtain ⟨⟨c2, id⟩, h2, h1⟩ := h
    res_norm at h1
    subst h1
    have hb1 : BInv (c.log (Ev.textFragment t r)) := hb.congr rfl rfl rfl
    obtain ⟨f2, ns2, _⟩ := appendNode_sfr (txt := txt) hb1 h2
    exact ⟨⟨f2.pp, f2.floor, f2.pid, f2.tag, f2.positions, f2.keep⟩, fun hp hk ns => ns2 hp hk ns⟩
  · res_norm at h
    subst h
    exact ⟨SFr.of_eq rfl rfl rfl rfl rfl rfl, fun _ _ ns => ns⟩

theorem mergeText_sfr {txt : Bytes} {c c' : Ctx} (h : c.mergeText = .ok c') :
    SFr c c' ∧ (NodesShape txt c.doc.nodes → NodesShape txt c'.doc.nodes) := by
  unfold Ctx.mergeText at h
  dsimp only at h
  split at h
  · simp at h
  · split at h
    · simp at h
    · rename_i n hn
      split at h
      · rename_i s0 hk0
        simp only [Res.ok.injEq] at h
        subst h
        refine ⟨⟨rfl, rfl, rfl, rfl, rfl, skeep_set _ _ n _ hn rfl ?_⟩, fun ns => ?_⟩
        · right; rw [hk0]; exact ⟨rfl, rfl⟩
        · refine nodesShape_set _ _ n _ hn ns ?_
          unfold NodeShape
          trivial
      · simp at h

theorem resetAfterText_sfr {txt : Bytes} {c c' : Ctx} (h : c.resetAfterText = .ok c') :
    SFr c c' ∧ (NodesShape txt c.doc.nodes → NodesShape txt c'.doc.nodes) := by
  unfold Ctx.resetAfterText at h
  dsimp only at h
  split at h
  · simp only [Res.ok.injEq] at h; subst h; exact ⟨SFr.refl _, id⟩
  · split at h
    · rw [Res.bind_eq_ok] at h
      obtain ⟨c1, h1, h⟩ := h
      res_norm at h
      subst h
      obtain ⟨f1, r1⟩ := mergeText_sfr (txt := txt) h1
      exact ⟨⟨f1.pp, f1.floor, f1.pid, f1.tag, f1.positions, f1.keep⟩, r1⟩
    · res_norm at h; subst h
      exact ⟨SFr.of_eq rfl rfl rfl rfl rfl rfl, id⟩

theorem flushBuffer_sfr {txt : Bytes} {c c' : Ctx} {b : TextBuffer} {r : Range} (hb : BInv c)
    (h : flushBuffer c b r = .ok c') :
    SFr c c' ∧ (c.positions = true → NodesShape txt c.doc.nodes → NodesShape txt c'.doc.nodes) := by
  unfold flushBuffer at h
  split at h
  · rw [Res.bind_eq_ok] at h
    obtain ⟨out, _, h⟩ := h
    obtain ⟨f, ns⟩ := appendText_sfr (txt := txt) hb h
    refine ⟨f, fun hp hn => ns hp ?_ hn⟩
    intro n hk _
    unfold NodeShape
    rw [hk]
    trivial
  · res_norm at h; subst h; exact ⟨SFr.refl _, fun _ => id⟩

theorem processCdata_sfr {txt : Bytes} {c c' : Ctx} {t : Span} {r : Range} (hb : BInv c)
    (h : processCdata c t r = .ok c')
    (hs : sliceBytes txt r.1 r.2 = Lit.cdataStart ++ t.bytes ++ Lit.cdataEnd) :
    SFr c c' ∧ (c.positions = true → NodesShape txt c.doc.nodes → NodesShape txt c'.doc.nodes) := by
  unfold processCdata at h
  split at h
  · obtain ⟨f, ns⟩ := appendText_sfr (txt := txt) hb h
    refine ⟨f, fun hp hn => ns hp ?_ hn⟩
    intro n hk hr
    unfold NodeShape
    rw [hk, hr]
    exact Or.inr hs
  · obtain ⟨f, ns⟩ := appendText_sfr (txt := txt) hb h
    refine ⟨f, fun hp hn => ns hp ?_ hn⟩
    intro n hk _
    unfold NodeShape
    rw [hk]
    trivial

theorem resolveNamespaces_positions (c c' : Ctx) (r : Range) (h : resolveNamespaces c = .ok (c', r)) :
    c'.positions = c.positions := by
  unfold resolveNamespaces at h
  rw [Res.bind_eq_ok] at h
  obtain ⟨p, _, h⟩ := h
  split at h
  · split at h
    · res_norm at h; rw [← h.1]
    · rw [Res.bind_eq_ok] at h
      obtain ⟨ns, _, h⟩ := h
      res_norm at h
      rw [← h.1]
  · res_norm at h; rw [← h.1]

theorem resolveAttributes_positions (txt : Bytes) (c c' : Ctx) (nss r : Range)
    (h : resolveAttributes txt c nss = .ok (c', r)) : c'.positions = c.positions := by
  unfold resolveAttributes at h
  split at h
  · res_norm at h; rw [← h.1]
  · split at h
    · simp at h
    · rw [Res.bind_eq_ok] at h
      obtain ⟨doc, hd, h⟩ := h
      res_norm at h
      rw [← h.1]

theorem normalizeAttribute_positions (T : Tables) (txt : Bytes) (c c' : Ctx) (v : Span) (s : Str)
    (h : normalizeAttribute T txt c v = .ok (c', s)) : c'.positions = c.positions := by
  unfold normalizeAttribute at h
  split at h
  · rw [Res.bind_eq_ok] at h
    obtain ⟨⟨buf, ld, tr⟩, _, h⟩ := h
    rw [Res.bind_eq_ok] at h
    obtain ⟨out, _, h⟩ := h
    res_norm at h
    rw [← h.1]
  · res_norm at h; rw [← h.1]

theorem processAttribute_sfr (T : Tables) (txt : Bytes) (c c' : Ctx) (r : Range) (q e : Nat)
    (pfx loc v : Span) (h : processAttribute T txt c r q e pfx loc v = .ok c') :
    SFr c c' ∧ c'.doc.nodes = c.doc.nodes := by
  unfold processAttribute at h
  rw [Res.bind_eq_ok] at h
  obtain ⟨⟨c1, value⟩, h1, h⟩ := h
  have s1 := normalizeAttribute_same _ _ _ _ _ _ h1
  have p1 := normalizeAttribute_positions _ _ _ _ _ _ h1
  have fin : ∀ c2 : Ctx, Same c1 c2 → c2.positions = c1.positions →
      SFr c c2 ∧ c2.doc.nodes = c.doc.nodes := by
    intro c2 s2 p2
    have s := s1.trans s2
    exact ⟨SFr.of_eq s.pp s.floor s.pid s.tag (p2.trans p1) s.nodes, s.nodes⟩
  try dsimp only at h
  split at h
  · split at h
    · exact absurd h (errPos_ne_ok _ _ _ _)
    · split at h
      · exact absurd h (errPos_ne_ok _ _ _ _)
      · try dsimp only at h
        split at h
        · exact absurd h (errPos_ne_ok _ _ _ _)
        · split at h
          · exact absurd h (errPos_ne_ok _ _ _ _)
          · rw [Res.bind_eq_ok] at h
            obtain ⟨ex, _, h⟩ := h
            split at h
            · exact absurd h (errPos_ne_ok _ _ _ _)
            · split at h
              · rw [Res.bind_eq_ok] at h
                obtain ⟨ns, _, h⟩ := h
                res_norm at h; subst h
                exact fin _ ⟨rfl, rfl, rfl, rfl, rfl, rfl, rfl⟩ rfl
              · res_norm at h; subst h
                exact fin _ ⟨rfl, rfl, rfl, rfl, rfl, rfl, rfl⟩ rfl
  · split at h
    · split at h
      · exact absurd h (errPos_ne_ok _ _ _ _)
      · split at h
        · exact absurd h (errPos_ne_ok _ _ _ _)
        · rw [Res.bind_eq_ok] at h
          obtain ⟨ex, _, h⟩ := h
          split at h
          · exact absurd h (errPos_ne_ok _ _ _ _)
          · rw [Res.bind_eq_ok] at h
            obtain ⟨ns, _, h⟩ := h
            res_norm at h; subst h
            exact fin _ ⟨rfl, rfl, rfl, rfl, rfl, rfl, rfl⟩ rfl
    · res_norm at h; subst h
      exact ⟨SFr.of_eq s1.pp s1.floor s1.pid s1.tag p1 s1.nodes, s1.nodes⟩

/-- `process_element` at an `ElementEnd` that ends behind a `>` strictly after `cur`: the new /
rewritten element keeps the shape, and the invariant moves on to the end of the token. -/
theorem processElement_spos {R : Array NodeData → Nat → Prop} (hR : SMono R) {txt : Bytes}
    {c c' : Ctx} {e : EndKind} {r : Range} {cur fl : Nat} (hb : BInv c)
    (ns : NodesShape txt c.doc.nodes) (hp : SPos txt R cur fl c) (hc : cur < r.2)
    (hgt : txt[r.2 - 1]? = some 62) (h : processElement txt c e r = .ok c') :
    NodesShape txt c'.doc.nodes ∧ SPos txt R r.2 fl c' := by
  unfold processElement at h
  split at h
  · split at h
    · exact absurd h (errPos_ne_ok _ _ _ _)
    · simp at h
  · rename_i hname
    rw [Res.bind_eq_ok] at h
    obtain ⟨⟨c1, nss⟩, h1, h⟩ := h
    try dsimp only at h
    rw [Res.bind_eq_ok] at h
    obtain ⟨⟨c2, attrs⟩, h2, h⟩ := h
    have t1 := resolveNamespaces_triEq _ _ _ h1
    have t2 := resolveAttributes_triEq _ _ _ _ _ h2
    have hb2 : BInv c2 := t2.binv ((t1.binv hb).congr rfl rfl rfl)
    have s1 := resolveNamespaces_same _ _ _ h1
    have p1 := resolveNamespaces_positions _ _ _ h1
    obtain ⟨f2, _⟩ := resolveAttributes_fr _ _ _ _ _ h2
    have p2 := resolveAttributes_positions _ _ _ _ _ h2
    have hn2 : c2.doc.nodes = c.doc.nodes := t2.1.trans t1.1
    have f12 : SFr c c2 :=
      SFr.of_eq (f2.pp.trans s1.pp) (f2.floor.trans s1.floor) (f2.pid.trans s1.pid)
        (f2.tag.trans s1.tag) (p2.trans p1) hn2
    have ns2 : NodesShape txt c2.doc.nodes := by rw [hn2]; exact ns
    have hp2 : SPos txt R cur fl c2 := f12.pos hR (Nat.le_refl _) hp
    have hpos2 : c2.positions = true := hp2.positions
    have hne2 : c2.tagName.name.isEmpty = false := by
      rw [f12.tag]; simpa using hname
    obtain ⟨t60, tlt, talt⟩ := hp2.tagShape hne2
    have tend := hp2.tagEnd
    -- the shape of the element node made from the pending start tag
    have hnew : ∀ (tagNs : Option Nat) (n : NodeData),
        n.kind = .element tagNs c2.tagName.nameSpan attrs nss → n.range = (c2.tagName.pos, r.2) →
        NodeShape txt n := by
      intro tagNs n hk hr
      unfold NodeShape
      rw [hk, hr]
      exact ⟨by simp only; omega, t60, hgt, tlt, by simp only; omega, talt⟩
    try dsimp only at h
    split at h
    · -- empty element
      rw [Res.bind_eq_ok] at h
      obtain ⟨tagNs, _, h⟩ := h
      rw [Res.bind_eq_ok] at h
      obtain ⟨⟨c3, newId⟩, h3, h⟩ := h
      res_norm at h
      subst h
      obtain ⟨f3, n3, _⟩ := appendNode_sfr (txt := txt) hb2 h3
      have f3' : SFr c2 { c3 with awaiting := c3.awaiting ++ [newId] } :=
        ⟨f3.pp, f3.floor, f3.pid, f3.tag, f3.positions, f3.keep⟩
      exact ⟨n3 hpos2 (hnew tagNs) ns2, f3'.pos hR (Nat.le_of_lt hc) hp2⟩
    · -- close tag
      split at h
      · exact absurd h (errPos_ne_ok _ _ _ _)
      · rename_i hfloor
        rw [Res.bind_eq_ok] at h
        obtain ⟨p, hpn', h⟩ := h
        split at h
        · simp at h
        · rename_i parentPrefix restPrefixes hpp
          split at h
          · exact absurd h (errPos_ne_ok _ _ _ _)
          · split at h
            · rename_i id hid
              res_norm at h
              subst h
              have hpn : c2.doc.nodes[c2.parentId]? = some p := by
                unfold Ctx.nodeAt at hpn'
                split at hpn' <;> simp at hpn'
                subst hpn'; assumption
              let pnew : NodeData := { p with range := (p.range.1, r.2) }
              have hpar : pnew.parent = p.parent := rfl
              have hkind : pnew.kind = p.kind := rfl
              have hrange : pnew.range = (p.range.1, r.2) := rfl
              obtain ⟨_, hfl2, _, htsh, n, hn, hch⟩ := hp2
              have hlen2 : c2.parentPrefixes.length = restPrefixes.length + 1 := by
                rw [hpp]; rfl
              cases n with
              | zero => omega
              | succ m =>
                obtain ⟨nd, hnd, hnb, hup⟩ := hch
                rw [hpn] at hnd
                simp only [Option.some.injEq] at hnd
                subst hnd
                have hk : SKeep c2.doc.nodes (c2.doc.nodes.setIfInBounds c2.parentId pnew) :=
                  skeep_set _ _ p _ hpn hpar (Or.inl hkind)
                have hsh : NodeShape txt pnew :=
                  nodeShape_close hkind hrange (ns2 _ _ hpn) hnb hc hgt
                refine ⟨nodesShape_set _ _ p _ hpn ns2 hsh, ⟨hpos2, hfl2, ?_, htsh, m, ?_, ?_⟩⟩
                · show c2.tagName.nameSpan.off + c2.tagName.nameSpan.bytes.length ≤ r.2
                  omega
                · show restPrefixes.length = fl + m
                  omega
                · show SChain R (c2.doc.nodes.setIfInBounds c2.parentId pnew) r.2 m id
                  exact SChain.mono hR hk (Nat.le_of_lt hc) m id (hup id (by rw [← hpar]; exact hid))
            · exact absurd h (errPos_ne_ok _ _ _ _)
    · -- open element
      rw [Res.bind_eq_ok] at h
      obtain ⟨tagNs, _, h⟩ := h
      rw [Res.bind_eq_ok] at h
      obtain ⟨⟨c3, newId⟩, h3, h⟩ := h
      res_norm at h
      subst h
      obtain ⟨f3, n3, nd, hnd, hndp, hndk⟩ := appendNode_sfr (txt := txt) hb2 h3
      obtain ⟨_, hfl2, _, htsh, n, hn, hch⟩ := hp2
      refine ⟨n3 hpos2 (hnew tagNs) ns2, ⟨?_, ?_, ?_, ?_, n + 1, ?_, ?_⟩⟩
      · show c3.positions = true
        rw [f3.positions]; exact hpos2
      · show c3.entityFloor = fl
        rw [f3.floor]; exact hfl2
      · show c3.tagName.nameSpan.off + c3.tagName.nameSpan.bytes.length ≤ r.2
        rw [f3.tag]; omega
      · show TagShape txt c3.tagName
        rw [f3.tag]; exact htsh
      · show c3.parentPrefixes.length + 1 = fl + (n + 1)
        rw [f3.pp]; omega
      · show SChain R c3.doc.nodes r.2 (n + 1) newId
        refine ⟨nd, hnd, ?_, ?_⟩
        · rw [hndk]
          show c2.tagName.nameSpan.off + c2.tagName.nameSpan.bytes.length ≤ r.2
          omega
        · intro q hq
          rw [hndp] at hq
          simp only [Option.some.injEq] at hq
          subst hq
          exact SChain.mono hR f3.keep (Nat.le_of_lt hc) n _ hch

/-! ### Builder level: steps, token lists, nested activations -/

/-- what is proved of a builder `step` -/
def StepS (txt : Bytes) (step : Token → Ctx → Res Ctx) : Prop :=
  ∀ (R : Array NodeData → Nat → Prop), SMono R → ∀ (cur cur' fl : Nat) (t : Token) (c c' : Ctx),
    TokOk txt t → SStep txt cur t cur' → BInv c → DS txt c → NodesShape txt c.doc.nodes →
    SPos txt R cur fl c → step t c = .ok c' → NodesShape txt c'.doc.nodes ∧ SPos txt R cur' fl c'

theorem feed_s (txt : Bytes) (step : Token → Ctx → Res Ctx)
    (hB : ∀ t c c', BInv c → step t c = .ok c' → BInv c') (hD : StepDS txt step)
    (hS : StepS txt step) (R : Array NodeData → Nat → Prop) (hR : SMono R) (fl : Nat) :
    ∀ (toks : List Token), (∀ t ∈ toks, TokOk txt t) → ∀ (cur cur' : Nat) (c c' : Ctx),
      SRun txt cur toks cur' → BInv c → DS txt c → NodesShape txt c.doc.nodes → SPos txt R cur fl c →
      feed step toks c = .ok c' → NodesShape txt c'.doc.nodes ∧ SPos txt R cur' fl c' := by
  intro toks
  induction toks with
  | nil =>
    intro _ cur cur' c c' hrun _ _ ns hp h
    simp only [SRun] at hrun
    simp [feed] at h
    subst h; subst hrun; exact ⟨ns, hp⟩
  | cons t ts ih =>
    intro hall cur cur' c c' hrun hb hd ns hp h
    obtain ⟨cur1, hps, hrun⟩ := hrun
    simp only [feed] at h
    split at h
    · rename_i c1 h1
      have htk := hall t (by simp)
      obtain ⟨ns1, hp1⟩ := hS R hR cur cur1 fl t c c1 htk hps hb hd ns hp h1
      exact ih (fun t' ht' => hall t' (by simp [ht'])) cur1 cur' c1 c' hrun (hB _ _ _ hb h1)
        (hD _ _ _ htk h1 hd) ns1 hp1 h
    · simp at h
    · simp at h
    · simp at h

section
variable (T : Tables) (hT : TablesOK T) (txt : Bytes)
include hT

theorem processTextLoop_s (lower : Token → Ctx → Res Ctx)
    (hlowerB : ∀ t c c', BInv c → lower t c = .ok c' → BInv c') (hlowerD : StepDS txt lower)
    (hlower : StepS txt lower) (range : Range) (hr : RangeOk txt range)
    (R : Array NodeData → Nat → Prop) (hR : SMono R) (cur fl : Nat) :
    ∀ (fuel : Nat) (s : Stream) (buf buf' : TextBuffer) (c c' : Ctx), BInv c → DS txt c →
      NodesShape txt c.doc.nodes → SPos txt R cur fl c →
      processTextLoop T txt lower range fuel s buf c = .ok (buf', c') →
      BInv c' ∧ DS txt c' ∧ NodesShape txt c'.doc.nodes ∧ SPos txt R cur fl c' := by
  intro fuel
  induction fuel with
  | zero => intro s buf buf' c c' _ _ _ _ h; simp [processTextLoop] at h
  | succ fuel ih =>
    intro s buf buf' c c' hb hd ns hp h
    simp only [processTextLoop] at h
    split at h
    · res_norm at h; rw [← h.2]; exact ⟨hb, hd, ns, hp⟩
    · rw [Res.bind_eq_ok] at h
      obtain ⟨⟨s1, chunk⟩, hchunk, h⟩ := h
      try dsimp only at h
      split at h
      · exact ih _ _ _ _ _ hb hd ns hp h
      · try dsimp only at h
        split at h <;> exact ih _ _ _ _ _ hb hd ns hp h
      · rename_i frag
        obtain ⟨e, hmem, hfe⟩ := parseNextChunk_text_mem _ _ _ _ _ _ hchunk
        have hfu : SpanU txt frag := hfe ▸ hd.ents e hmem
        rw [Res.bind_eq_ok] at h
        obtain ⟨c1, hfl, h⟩ := h
        have hb1 := binv_flushBuffer hb hfl
        have sfl := flushBuffer_ds txt _ _ _ _ hfl hd hr.ends
        obtain ⟨f1, n1⟩ := flushBuffer_sfr (txt := txt) hb hfl
        have ns1 := n1 hp.positions ns
        have hp1 : SPos txt R cur fl c1 := f1.pos hR (Nat.le_refl _) hp
        split at h
        · exact absurd h (errAt_ne_ok _ _ _ _)
        · try dsimp only at h
          split at h
          · exact absurd h (errAt_ne_ok _ _ _ _)
          · try dsimp only at h
            rw [Res.bind_eq_ok] at h
            obtain ⟨c2, hrun, h⟩ := h
            have hb2 : BInv c2 := by
              refine binv_runTokens lower hlowerB _ _ _ _ ?_ hrun
              exact hb1.congr rfl rfl rfl
            have srun := runTokens_ds txt lower hlowerD _ (tokenizeContent_tokOk T hT txt _ hfu)
              _ _ _ hrun
              ⟨sfl.nodes, sfl.attrs, sfl.ns, spanOk_empty txt,
                ⟨Nat.zero_le _, by simp [isCharBoundary]⟩, sfl.cur, sfl.ents⟩
            obtain ⟨_, hfeed⟩ := runTokens_feed _ _ _ _ _ hrun
            obtain ⟨cur2, hrun2⟩ := tokenizeContent_sf T hT txt frag hfu
            obtain ⟨hpos1, hfl1, htag1, htsh1, n, hn, hch⟩ := hp1
            have hnf := fun hB hD hNs hP =>
              feed_s txt lower hlowerB hlowerD hlower
                (fun a pid => SChain R a cur n pid) (SChain.rmono hR cur n)
                c1.parentPrefixes.length _ (tokenizeContent_tokOk T hT txt _ hfu) 0 cur2 _ c2 hrun2
                hB hD hNs hP hfeed
            obtain ⟨ns2, hp2⟩ := hnf (hb1.congr rfl rfl rfl)
              ⟨sfl.nodes, sfl.attrs, sfl.ns, spanOk_empty txt,
                ⟨Nat.zero_le _, by simp [isCharBoundary]⟩, sfl.cur, sfl.ents⟩
              ns1 ⟨hpos1, rfl, Nat.le_refl _, fun hne => by simp at hne, 0, rfl, hch⟩
            split at h
            · simp at h
            · rename_i hne
              have hlen2 : c2.parentPrefixes.length = c2.entityFloor := by simpa using hne
              obtain ⟨hpos2, hfl2, _, _, n2, hn2, hch2⟩ := hp2
              have hn0 : n2 = 0 := by omega
              subst hn0
              have hch2' : SChain R c2.doc.nodes cur n c2.parentId := hch2
              have hih := fun hB hD hNs hP => ih _ _ _ _ _ hB hD hNs hP h
              refine hih (hb2.congr rfl rfl rfl) ?_ ns2 ?_
              · exact ⟨srun.nodes, srun.attrs, srun.ns, sfl.tag, sfl.tagPos, srun.cur, srun.ents⟩
              · exact ⟨hpos2, hfl1, htag1, htsh1, n,
                  by show c2.parentPrefixes.length = fl + n; omega, hch2'⟩

theorem processText_s (lower : Token → Ctx → Res Ctx)
    (hlowerB : ∀ t c c', BInv c → lower t c = .ok c' → BInv c') (hlowerD : StepDS txt lower)
    (hlower : StepS txt lower) (R : Array NodeData → Nat → Prop) (hR : SMono R) (cur fl : Nat)
    (c c' : Ctx) (t : Span) (r : Range) (hr : RangeOk txt r)
    (hrt : r = (t.off, t.off + t.bytes.length)) (hb : BInv c) (hd : DS txt c)
    (ns : NodesShape txt c.doc.nodes) (hp : SPos txt R cur fl c)
    (h : processText T txt lower c t r = .ok c') :
    NodesShape txt c'.doc.nodes ∧ SPos txt R cur fl c' := by
  unfold processText at h
  split at h
  · obtain ⟨f1, n1⟩ := appendText_sfr (txt := txt) hb h
    refine ⟨n1 hp.positions ?_ ns, f1.pos hR (Nat.le_refl _) hp⟩
    intro n hk hrn
    unfold NodeShape
    rw [hk, hrn]
    exact Or.inl hrt
  · try dsimp only at h
    rw [Res.bind_eq_ok] at h
    obtain ⟨⟨buf, c1⟩, h1, h⟩ := h
    obtain ⟨hb1, _, ns1, hp1⟩ :=
      processTextLoop_s T hT txt lower hlowerB hlowerD hlower _ hr R hR cur fl _ _ _ _ _ _
        hb hd ns hp h1
    obtain ⟨f2, n2⟩ := flushBuffer_sfr (txt := txt) hb1 h
    exact ⟨n2 hp1.positions ns1, f2.pos hR (Nat.le_refl _) hp1⟩

omit hT in
theorem leaf_s {R : Array NodeData → Nat → Prop} (hR : SMono R) {cur fl : Nat} {c c1 c2 : Ctx}
    {k : Kind} {r : Range} {id : Nat} (hb : BInv c) (ns : NodesShape txt c.doc.nodes)
    (hp : SPos txt R cur fl c)
    (hk : ∀ n : NodeData, n.kind = k → n.range = r → NodeShape txt n)
    (h1 : c.resetAfterText = .ok c1) (h2 : c1.appendNode k r = .ok (c2, id)) :
    NodesShape txt c2.doc.nodes ∧ SPos txt R cur fl c2 := by
  obtain ⟨f1, r1⟩ := resetAfterText_sfr (txt := txt) h1
  obtain ⟨f2, r2, _⟩ := appendNode_sfr (txt := txt) (binv_resetAfterText hb h1) h2
  have hp1 := f1.pos hR (Nat.le_refl _) hp
  exact ⟨r2 hp1.positions hk (r1 ns), f2.pos hR (Nat.le_refl _) hp1⟩

theorem tokenStep_s (lower : Token → Ctx → Res Ctx)
    (hlowerB : ∀ t c c', BInv c → lower t c = .ok c' → BInv c') (hlowerD : StepDS txt lower)
    (hlower : StepS txt lower) : StepS txt (tokenStep T txt lower) := by
  intro R hR cur cur' fl t c c' hk hps hb hd ns hp h
  unfold tokenStep at h
  dsimp only at h
  have hb0 : BInv (c.log (.token t)) := hb.congr rfl rfl rfl
  have hd0 : DS txt (c.log (.token t)) := log_ds _ hd
  have ns0 : NodesShape txt (c.log (.token t)).doc.nodes := ns
  have hp0 : SPos txt R cur fl (c.log (.token t)) :=
    (SFr.of_eq (c := c) (c' := c.log (.token t)) rfl rfl rfl rfl rfl rfl).pos hR (Nat.le_refl _) hp
  split at h
  · -- pi
    obtain ⟨hsl, rfl⟩ := hps
    rw [Res.bind_eq_ok] at h
    obtain ⟨c1, h1, h⟩ := h
    rw [Res.bind_eq_ok] at h
    obtain ⟨⟨c2, id⟩, h2, h⟩ := h
    res_norm at h; subst h
    refine leaf_s txt hR hb0 ns0 hp0 ?_ h1 h2
    intro n hkn hrn
    unfold NodeShape
    rw [hkn, hrn]
    exact hsl
  · -- comment
    obtain ⟨hsl, rfl⟩ := hps
    rw [Res.bind_eq_ok] at h
    obtain ⟨c1, h1, h⟩ := h
    rw [Res.bind_eq_ok] at h
    obtain ⟨⟨c2, id⟩, h2, h⟩ := h
    res_norm at h; subst h
    refine leaf_s txt hR hb0 ns0 hp0 ?_ h1 h2
    intro n hkn hrn
    unfold NodeShape
    rw [hkn, hrn]
    exact hsl
  · -- entityDecl
    have : cur' = cur := hps
    subst this
    res_norm at h; subst h
    refine ⟨ns, ?_⟩
    obtain ⟨a0, a1, a2, a3, n, a4, a5⟩ := hp
    exact ⟨a0, a1, a2, a3, n, a4, a5⟩
  · -- elementStart
    rename_i pfx loc start
    obtain ⟨hle, h60, hlt, halt, rfl⟩ := hps
    rw [Res.bind_eq_ok] at h
    obtain ⟨c1, h1, h⟩ := h
    obtain ⟨f1, r1⟩ := resetAfterText_sfr (txt := txt) h1
    split at h
    · exact absurd h (errPos_ne_ok _ _ _ _)
    · res_norm at h; subst h
      obtain ⟨hpos1, hfl1, _, _, n, hn, hch⟩ :=
        f1.pos hR (show cur ≤ loc.off + loc.bytes.length by omega) hp0
      exact ⟨r1 ns0, ⟨hpos1, hfl1, Nat.le_refl _, fun _ => ⟨h60, hlt, halt⟩, n, hn, hch⟩⟩
  · -- attribute
    have : cur' = cur := hps
    subst this
    obtain ⟨f1, hn1⟩ := processAttribute_sfr _ _ _ _ _ _ _ _ _ _ h
    refine ⟨?_, f1.pos hR (Nat.le_refl _) hp0⟩
    rw [hn1]; exact ns0
  · -- elementEnd
    rename_i e range
    obtain ⟨hlt, hgt, rfl⟩ := hps
    rw [Res.bind_eq_ok] at h
    obtain ⟨c1, h1, h⟩ := h
    obtain ⟨f1, r1⟩ := resetAfterText_sfr (txt := txt) h1
    exact processElement_spos hR (binv_resetAfterText hb0 h1) (r1 ns0)
      (f1.pos hR (Nat.le_refl _) hp0) hlt hgt h
  · -- text
    obtain ⟨_, k2, k3, _⟩ := hk
    have : cur' = cur := hps
    subst this
    exact processText_s T hT txt lower hlowerB hlowerD hlower R hR _ fl _ _ _ _ k2 k3 hb0 hd0 ns0 hp0 h
  · -- cdata
    obtain ⟨hsl, rfl⟩ := hps
    obtain ⟨f1, r1⟩ := processCdata_sfr (txt := txt) hb0 h hsl
    exact ⟨r1 hp0.positions ns0, f1.pos hR (Nat.le_refl _) hp0⟩

theorem token_s : ∀ (d : Nat), StepS txt (token T txt d) := by
  intro d
  induction d with
  | zero => intro R _ cur cur' fl t c c' _ _ _ _ _ _ h; simp [token] at h
  | succ d ih =>
    exact tokenStep_s T hT txt (token T txt d) (binv_token T txt d) (token_ds T hT txt d) ih

end

/-- **Ranges designate their constructs** (all valid UTF-8 inputs, all options with
`positions = true`; nodes created inside an entity expansion included). -/
theorem parse_nodeShape (T : Tables) (hT : TablesOK T) (txt : Bytes) (hv : ValidUtf8 txt) (opt : Opt)
    (hp : opt.positions = true) (d : Doc) (h : parse T txt opt = .ok d) :
    ∀ (i : Nat) (n : NodeData), d.nodes[i]? = some n → NodeShape txt n := by
  unfold parse at h
  rw [Res.bind_eq_ok] at h
  obtain ⟨c, hc, h⟩ := h
  res_norm at h
  subst h
  unfold parseCtx at hc
  rw [Res.bind_eq_ok] at hc
  obtain ⟨c0, h0, hc⟩ := hc
  try dsimp only at hc
  rw [Res.bind_eq_ok] at hc
  obtain ⟨c1, h1, hc⟩ := hc
  have hb0 := binv_init txt opt c0 h0
  -- the initial context
  have d0 : DS txt c0 := by
    unfold initCtx at h0
    rw [Res.bind_eq_ok] at h0
    obtain ⟨ns, hns, h0⟩ := h0
    res_norm at h0
    subst h0
    refine ⟨?_, ?_, ?_, spanOk_empty txt, ⟨Nat.zero_le _, by simp [isCharBoundary]⟩, ?_, ?_⟩
    · intro i n hn
      have : n = rootNode (if opt.positions then (0, txt.length) else (0, 0)) := by
        cases i with
        | zero => simpa using hn.symm
        | succ i => simp at hn
      subst this
      refine ⟨trivial, endsOk_pos txt _ _ ⟨Nat.zero_le _, Nat.le_refl _, by simp [isCharBoundary], ?_⟩⟩
      simp [isCharBoundary]
    · intro k a hk; simp at hk
    · intro k v hk hpos
      rcases pushNs_values _ _ _ _ hns with e | e
      · rw [e] at hk; simp at hk
      · rw [e] at hk
        exfalso
        have : k = 0 := by
          cases k with
          | zero => rfl
          | succ k => simp at hk
        omega
    · intro a ha; simp at ha
    · intro e he; simp at he
  have i0 : NodesShape txt c0.doc.nodes ∧ SPos txt (fun _ _ => True) 0 0 c0 := by
    unfold initCtx at h0
    rw [Res.bind_eq_ok] at h0
    obtain ⟨ns, _, h0⟩ := h0
    res_norm at h0
    subst h0
    refine ⟨?_, ⟨hp, rfl, Nat.le_refl _, fun hne => by simp at hne, 1, rfl, ?_⟩⟩
    · intro i n hn
      have : n = rootNode (if opt.positions then (0, txt.length) else (0, 0)) := by
        cases i with
        | zero => simpa using hn.symm
        | succ i => simp at hn
      subst this
      unfold NodeShape
      trivial
    · refine ⟨rootNode (if opt.positions then (0, txt.length) else (0, 0)), by simp, trivial, ?_⟩
      intro p hp'
      simp [rootNode] at hp'
  obtain ⟨_, hfeed⟩ := runTokens_feed _ _ _ _ _ h1
  obtain ⟨cur', hrun, _⟩ := parseDocument_sf T hT txt hv opt.allowDtd
  obtain ⟨ns1, _⟩ := feed_s txt _ (binv_token T txt depthFuel) (token_ds T hT txt depthFuel)
    (token_s T hT txt depthFuel) (fun _ _ => True) (fun _ _ _ _ _ => trivial) 0 _
    (parseDocument_spec T hT txt hv opt.allowDtd).toks 0 cur' c0 c1 hrun hb0 d0 i0.1 i0.2 hfeed
  unfold finish at hc
  rw [Res.bind_eq_ok] at hc
  obtain ⟨has, _, hc⟩ := hc
  split at hc
  · simp at hc
  · split at hc
    · simp at hc
    · res_norm at hc
      subst hc
      exact ns1

end Rox.Lemmas
