/-
  Rox.Lemmas.MirrorNsBuild4 — Stage B'' of the proof of `accepted_namespaces_resolve`, part 4: item
  by item, the builder follows the namespace machine (`Rox.Lemmas.MirrorNsDefs`) alongside the
  arena machine; hence the element nodes of the arena `parse` returns, read back with `viewNs`, are
  the namespace machine's output for the items of the input.
-/
import Rox.Lemmas.MirrorNsBuild3

namespace Rox.Lemmas.MN
open Rox Rox.Spec Rox.Spec.Grammar Rox.Spec.Canon4 Rox.Spec.Mirror Rox.Spec.MirrorNs
open Rox.Props.C06 Rox.Lemmas.RtB Rox.Lemmas.GB Rox.Lemmas.MB

section
variable (T : Tables) (txt : Bytes) (lower : Token → Ctx → Res Ctx)
  (hB : ∀ t c c', BInv c → tokenStep T txt lower t c = .ok c' → BInv c')
  (hP : TextDec T txt lower) (hN : NormOk T txt)
include hB hP hN

/-- one item -/
theorem mn_item (it : Item) (ts : List Token) (hit : ItemToks it ts)
    (hlex : it.Lex T) (htok : ∀ t ∈ ts, TokOk txt t) (stk : List QP) (a : AS) (n : NStk) (c c' : Ctx)
    (hi : MInv stk a c) (hn : NCore a.stk n c) (h : feed (tokenStep T txt lower) ts c = .ok c') :
    NCore (stepA a it).stk (stepN n it) c' := by
  obtain ⟨stk', hs, hg', hsem, _⟩ := gb_item T txt lower hB it ts hit hlex htok stk c c' hi.g h
  have hnd' := stepN_nd T n it hn.nd hsem
  cases hit with
  | sp s =>
    simp only [feed, Res.ok.injEq] at h
    subst h
    exact hn
  | comment b sp r hb =>
    have h1 := gb_feed_one _ _ _ h
    exact mn_tok_comment T txt lower hi.g hn h1
  | pi t s v tsp vo r hb =>
    have h1 := gb_feed_one _ _ _ h
    exact mn_tok_pi T txt lower hi.g hn h1
  | cdata b sp r hb =>
    have h1 := gb_feed_one _ _ _ h
    exact mn_tok_cdata T txt lower hi.g hn h1
  | text t sp r hb =>
    have h1 := gb_feed_one _ _ _ h
    obtain ⟨hne, _, hlt, _⟩ := hlex
    exact mn_tok_text T txt lower hP hi.g hi.m hn (htok _ (List.mem_singleton.mpr rfl))
      (by rw [hb]; exact hne) (by rw [hb]; exact hlt) h1
  | etag q s2 p l r hq =>
    have h1 := gb_feed_one _ _ _ h
    exact mn_tok_close T txt lower hi.g hn h1
  | stag q attrs s1 e p l st ats r hq hat =>
    obtain ⟨c1, h1, h⟩ := gb_feed_cons_ok _ _ _ _ h
    obtain ⟨c2, h2, h⟩ := gb_feed_append_ok _ _ _ _ h
    have h3 := gb_feed_one _ _ _ h
    have hb1 := hB _ _ _ hi.g.binv h1
    have hi1 := gb_tok_start T txt lower hi.g hb1 h1
    have hm1 := mb_tok_start T txt lower hi.g hi.m h1
    have hn1 := mn_tok_start T txt lower hi.g hn h1
    obtain ⟨_, _, hla⟩ := hlex
    have hlt : ∀ x ∈ attrs, bLt ∉ x.v := fun x hx => (hla x hx).2.2.2.2.2.2.1
    obtain ⟨hi2, _⟩ := gb_attrs T txt lower hB attrs ats hat hlt [] c1 c2 hi1 h2
    have hm2 := mb_attrs T txt lower hN hB attrs ats hat hlt [] [] c1 c2 hi1 hm1 h2
    have hn2 := mn_attrs T txt lower hN hB attrs ats hat hlt [] [] c1 c2 hi1 hm1 hn1 h2
    rw [List.nil_append] at hi2 hm2 hn2
    have hpq : (⟨p.bytes, l.bytes, l, st, st + 1⟩ : TagName).pfx = (qparts q).1 := by rw [hq]
    have hne : a.stk ≠ [] := by
      intro e0
      have := hi.len
      rw [e0] at this
      simp at this
    have hp2 : c2.parentId = a.stk.headD 0 := hm2.core.pid
    cases e with
    | false =>
      have hm3 := mb_tok_open T txt lower hi2 hm2 h3
      have hpid : c'.parentId = a.flushed.length := hm3.pid
      have := mn_tok_open T txt lower q hi2 hpq hn2 hne hp2
        (hnd' _ (List.mem_cons_self ..)) h3
      rw [hpid] at this
      exact this
    | true =>
      exact mn_tok_empty T txt lower q hi2 hpq hn2 hne hp2 h3

/-- all items -/
theorem mn_items : ∀ (its : List Item) (toks : List Token), ItemsToksM its toks →
    (∀ it ∈ its, it.Lex T) → (∀ t ∈ toks, TokOk txt t) →
    ∀ (stk : List QP) (a : AS) (n : NStk) (c c' : Ctx),
      MInv stk a c → NCore a.stk n c → feed (tokenStep T txt lower) toks c = .ok c' →
      NCore (runA a its).stk (runN n its) c' := by
  intro its toks hit
  induction hit with
  | nil =>
    intro _ _ stk a n c c' _ hn h
    simp only [feed, Res.ok.injEq] at h
    subst h
    exact hn
  | cons it its ts tss h1 hp _ ih =>
    intro hlex htok stk a n c c' hi hn h
    obtain ⟨c1, hf1, hf2⟩ := gb_feed_append_ok _ _ _ _ h
    obtain ⟨stk1, _, hi1⟩ := mb_item T txt lower hB hP hN it ts h1 hp (hlex it (by simp))
      (fun t ht => htok t (by simp [ht])) stk a c c1 hi hf1
    have hn1 := mn_item T txt lower hB hP hN it ts h1 (hlex it (by simp))
      (fun t ht => htok t (by simp [ht])) stk a n c c1 hi hn hf1
    exact ih (fun x hx => hlex x (by simp [hx])) (fun t ht => htok t (by simp [ht])) stk1
      (stepA a it) (stepN n it) c1 c' hi1 hn1 hf2

end

theorem mn_init (txt : Bytes) (opt : Opt) (c0 : Ctx) (h0 : initCtx txt opt = .ok c0) :
    NCore initA.stk initN c0 := by
  obtain ⟨hinv, htree, hv0⟩ := init_ns txt opt c0 h0
  obtain ⟨hg0, _⟩ := gb_init txt opt c0 h0
  unfold initCtx at h0
  rw [Res.bind_eq_ok] at h0
  obtain ⟨ns, hns, h0⟩ := h0
  res_norm at h0
  subst h0
  refine ⟨hinv, ?_, Nat.le_of_eq hg0.nsi, ?_, ?_, rfl, ?_, initN_nd⟩
  · cases hv : ns.values[0]? with
    | none =>
      have hv0' : (ns.values[0]?).map (fun v => (v.nameBytes, v.uri.bytes)) =
          some (some Lit.xml, nsXmlUri) := hv0
      rw [hv] at hv0'; cases hv0'
    | some v =>
      have hv0' : (ns.values[0]?).map (fun v => (v.nameBytes, v.uri.bytes)) =
          some (some Lit.xml, nsXmlUri) := hv0
      rw [hv] at hv0'
      simp only [Option.map_some, Option.some.injEq, Prod.mk.injEq] at hv0'
      exact ⟨v, rfl, hv0'.2⟩
  · intro k hk
    simp [ekinds, kps, kp, ek, rootNode, Kind.isElement] at hk
  · intro a ha
    simp at ha
  · refine ⟨⟨_, rfl, rfl⟩, trivial⟩

theorem viewE_map (d : Doc) : ∀ l : List NodeData,
    ((l.map kp).filterMap ek).filterMap (viewE d) = l.filterMap (viewNs d)
  | [] => rfl
  | nd :: t => by
    rw [List.map_cons, List.filterMap_cons, List.filterMap_cons, viewNs_eq, ← viewE_map d t]
    cases hk : nd.kind <;> simp [ek, kp, hk, Kind.isElement, viewE]

end Rox.Lemmas.MN

namespace Rox.Lemmas
open Rox Rox.Spec Rox.Spec.Grammar Rox.Spec.Canon4 Rox.Spec.Mirror Rox.Spec.MirrorNs
open Rox.Lemmas.RtB Rox.Lemmas.GB

/-- **Stage B''**: the element nodes of the arena `parse` returns, read back node by node with
`viewNs`, are the output of the namespace machine run over the items of the input. -/
theorem parseCtx_itemsN (T : Tables) (hT : TablesOK T) (txt : Bytes) (hv : ValidUtf8 txt) (opt : Opt)
    (hdtd : opt.allowDtd = false) (c : Ctx) (h : parseCtx T txt depthFuel opt = .ok c)
    (its : List Item) (hit : ItemsToksM its (tokenize T txt false).1) (hlex : ∀ it ∈ its, it.Lex T) :
    c.doc.nodes.toList.filterMap (viewNs c.doc) = (runN initN its).out := by
  unfold parseCtx at h
  rw [Res.bind_eq_ok] at h
  obtain ⟨c0, h0, h⟩ := h
  try dsimp only at h
  rw [Res.bind_eq_ok] at h
  obtain ⟨c1, h1, h⟩ := h
  rw [hdtd] at h1
  have hi0 := MB.mb_init txt opt c0 h0
  have hn0 := MN.mn_init txt opt c0 h0
  obtain ⟨_, hfeed⟩ := runTokens_feed _ _ _ _ _ h1
  have htoks := (parseDocument_spec T hT txt hv false).toks
  have hstep : token T txt depthFuel = tokenStep T txt (token T txt 11) := rfl
  rw [hstep] at hfeed
  have hP : MB.TextDec T txt (token T txt 11) := fun c c' t r a1 a2 a3 a4 a5 a6 a7 =>
    processText_mirror T txt _ c c' t r a1 a2 a3 a4 a5 a6 a7
  have hN : MB.NormOk T txt := fun c c' v s a1 a2 a3 a4 =>
    normalizeAttribute_mirror T txt c c' v s a1 a2 a3 a4
  have hn1 := MN.mn_items T txt (token T txt 11)
    (binv_tokenStep T txt _ (binv_token T txt 11)) hP hN its _ hit hlex htoks [] initA initN c0 c1
    hi0 hn0 hfeed
  unfold finish at h
  rw [Res.bind_eq_ok] at h
  obtain ⟨has, _, h⟩ := h
  split at h
  · simp at h
  · split at h
    · simp at h
    · res_norm at h
      subst h
      rw [← hn1.out]
      show c1.doc.nodes.toList.filterMap
        (viewNs { c1.doc with ns := { c1.doc.ns with sortedOrder := #[] } }) = _
      have hview : ∀ nd : NodeData,
          viewNs { c1.doc with ns := { c1.doc.ns with sortedOrder := #[] } } nd = viewNs c1.doc nd := by
        intro nd
        obtain ⟨p, a, b, c, k, r⟩ := nd
        cases k <;> rfl
      rw [filterMap_congr' _ (fun nd _ => hview nd)]
      exact (MN.viewE_map c1.doc _).symm

end Rox.Lemmas
