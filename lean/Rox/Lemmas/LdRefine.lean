/-
  Rox.Lemmas.LdRefine — C09: the parser follows the loop detector's protocol. Whatever the builder
  does to the detector during a successful run is a `walk` (Rox.Spec.Refs) over the forest of the
  entity references it actually expanded: `inc_references; inc_depth; <expansion>; dec_depth` per
  reference, in text and in attribute values alike.
-/
import Rox.Parse
import Rox.Spec.Refs
import Rox.Lemmas.Size

namespace Rox.Lemmas
open Rox Rox.Spec

/-- concatenation of two forests (the second follows the first at the same level) -/
def Forest.append : Forest → Forest → Forest
  | .nil, g => g
  | .cons k r, g => .cons k (Forest.append r g)

/-- `ld'` is reachable from `ld` by walking some forest of references. -/
def Walks (ld ld' : LD) : Prop := ∃ f : Forest, walk ld f = some ld'

theorem walk_append : ∀ (f g : Forest) (ld ld1 ld2 : LD), walk ld f = some ld1 → walk ld1 g = some ld2 →
    walk ld (Forest.append f g) = some ld2 := by
  intro f
  induction f with
  | nil =>
    intro g ld ld1 ld2 h1 h2
    simp only [walk, Option.some.injEq] at h1
    subst h1
    simpa [Forest.append] using h2
  | cons k r _ ihr =>
    intro g ld ld1 ld2 h1 h2
    simp only [walk] at h1
    simp only [Forest.append, walk]
    cases ha : ld.incRefs with
    | none => simp [ha] at h1
    | some lda =>
      simp only [ha] at h1 ⊢
      cases hb : lda.incDepth with
      | none => simp [hb] at h1
      | some ldb =>
        simp only [hb] at h1 ⊢
        cases hc : walk ldb k with
        | none => simp [hc] at h1
        | some ldc =>
          simp only [hc] at h1 ⊢
          exact ihr g _ _ _ h1 h2

theorem Walks.refl (ld : LD) : Walks ld ld := ⟨.nil, rfl⟩

theorem Walks.of_eq {ld ld' : LD} (h : ld' = ld) : Walks ld ld' := by subst h; exact Walks.refl _

theorem Walks.trans {a b c : LD} (h1 : Walks a b) (h2 : Walks b c) : Walks a c := by
  obtain ⟨f, hf⟩ := h1
  obtain ⟨g, hg⟩ := h2
  exact ⟨Forest.append f g, walk_append f g _ _ _ hf hg⟩

/-- one expanded reference -/
theorem Walks.step {ld ld1 ld2 ld3 : LD} (h1 : ld.incRefs = some ld1) (h2 : ld1.incDepth = some ld2)
    (h3 : Walks ld2 ld3) : Walks ld ld3.decDepth := by
  obtain ⟨k, hk⟩ := h3
  refine ⟨.cons k .nil, ?_⟩
  simp only [walk, h1, h2, hk]

/-! ### functions that leave the detector alone -/

theorem appendNode_ld (c c' : Ctx) (k : Kind) (r : Range) (id : Nat)
    (h : c.appendNode k r = .ok (c', id)) : c'.ld = c.ld := by
  unfold Ctx.appendNode at h
  split at h
  · simp at h
  · rw [Res.bind_eq_ok] at h
    obtain ⟨newId, hid, h⟩ := h
    simp only at h
    split at h
    · simp at h
    · split at h
      · simp at h
      · split at h
        · simp at h
        · rw [Res.bind_eq_ok] at h
          obtain ⟨nodes', hs, h⟩ := h
          simp only [pure, Res.ok.injEq, Prod.mk.injEq] at h
          obtain ⟨hc, hi⟩ := h
          subst hc
          rfl

theorem appendText_ld (c c' : Ctx) (t : Str) (r : Range) (h : c.appendText t r = .ok c') :
    c'.ld = c.ld := by
  unfold Ctx.appendText at h
  try dsimp only at h
  split at h
  · rw [Res.bind_eq_ok] at h
    obtain ⟨⟨c2, id⟩, h2, h1⟩ := h
    res_norm at h1
    subst h1
    have := appendNode_ld _ _ _ _ _ h2
    exact this
  · res_norm at h
    subst h
    rfl

theorem mergeText_ld (c c' : Ctx) (h : c.mergeText = .ok c') : c'.ld = c.ld := by
  unfold Ctx.mergeText at h
  try dsimp only at h
  split at h
  · simp at h
  · split at h
    · simp at h
    · split at h
      · simp only [Res.ok.injEq] at h; subst h; rfl
      · simp at h

theorem resetAfterText_ld (c c' : Ctx) (h : c.resetAfterText = .ok c') : c'.ld = c.ld := by
  unfold Ctx.resetAfterText at h
  try dsimp only at h
  split at h
  · simp only [Res.ok.injEq] at h; subst h; rfl
  · split at h
    · rw [Res.bind_eq_ok] at h
      obtain ⟨c1, h1, h⟩ := h
      res_norm at h
      subst h
      have := mergeText_ld _ _ h1
      exact this
    · res_norm at h; subst h; rfl

theorem resolveNamespaces_ld (c c' : Ctx) (r : Range) (h : resolveNamespaces c = .ok (c', r)) :
    c'.ld = c.ld := by
  unfold resolveNamespaces at h
  rw [Res.bind_eq_ok] at h
  obtain ⟨p, _, h⟩ := h
  split at h
  · split at h
    · res_norm at h; rw [← h.1]
    · rw [Res.bind_eq_ok] at h
      obtain ⟨ns, _, h⟩ := h
      res_norm at h
      rw [← h.1]
  · res_norm at h; rw [← h.1]

theorem resolveAttributes_ld (txt : Bytes) (c c' : Ctx) (nss r : Range)
    (h : resolveAttributes txt c nss = .ok (c', r)) : c'.ld = c.ld := by
  unfold resolveAttributes at h
  split at h
  · res_norm at h; rw [← h.1]
  · split at h
    · simp at h
    · rw [Res.bind_eq_ok] at h
      obtain ⟨doc, hd, h⟩ := h
      res_norm at h
      rw [← h.1]

theorem processElement_ld (txt : Bytes) (c c' : Ctx) (e : EndKind) (r : Range)
    (h : processElement txt c e r = .ok c') : c'.ld = c.ld := by
  unfold processElement at h
  split at h
  · split at h
    · exact absurd h (errPos_ne_ok _ _ _ _)
    · simp at h
  · rw [Res.bind_eq_ok] at h
    obtain ⟨⟨c1, nss⟩, h1, h⟩ := h
    try dsimp only at h
    rw [Res.bind_eq_ok] at h
    obtain ⟨⟨c2, attrs⟩, h2, h⟩ := h
    have s1 := resolveNamespaces_ld _ _ _ h1
    have s2 := resolveAttributes_ld _ _ _ _ _ h2
    have s12 : c2.ld = c.ld := by rw [s2]; exact s1
    try dsimp only at h
    split at h
    · -- empty
      rw [Res.bind_eq_ok] at h
      obtain ⟨tagNs, _, h⟩ := h
      rw [Res.bind_eq_ok] at h
      obtain ⟨⟨c3, newId⟩, h3, h⟩ := h
      res_norm at h
      subst h
      exact (appendNode_ld _ _ _ _ _ h3).trans s12
    · -- close
      split at h
      · exact absurd h (errPos_ne_ok _ _ _ _)
      · rw [Res.bind_eq_ok] at h
        obtain ⟨p, _, h⟩ := h
        split at h
        · simp at h
        · split at h
          · exact absurd h (errPos_ne_ok _ _ _ _)
          · split at h
            · res_norm at h
              subst h
              exact s12
            · exact absurd h (errPos_ne_ok _ _ _ _)
    · -- open
      rw [Res.bind_eq_ok] at h
      obtain ⟨tagNs, _, h⟩ := h
      rw [Res.bind_eq_ok] at h
      obtain ⟨⟨c3, newId⟩, h3, h⟩ := h
      res_norm at h
      subst h
      exact (appendNode_ld _ _ _ _ _ h3).trans s12

theorem processCdata_ld (c c' : Ctx) (t : Span) (r : Range) (h : processCdata c t r = .ok c') :
    c'.ld = c.ld := by
  unfold processCdata at h
  split at h <;> exact appendText_ld _ _ _ _ h

theorem flushBuffer_ld (c c' : Ctx) (b : TextBuffer) (r : Range) (h : flushBuffer c b r = .ok c') :
    c'.ld = c.ld := by
  unfold flushBuffer at h
  split at h
  · rw [Res.bind_eq_ok] at h
    obtain ⟨out, _, h⟩ := h
    exact appendText_ld _ _ _ _ h
  · res_norm at h; subst h; rfl

/-! ### attribute values -/

theorem normAttrLoop_walks (T : Tables) (txt : Bytes) (ents : List Entity)
    (rec : Span → TextBuffer → LD → List Ev → Res (TextBuffer × LD × List Ev))
    (hrec : ∀ v buf ld tr buf' ld' tr', rec v buf ld tr = .ok (buf', ld', tr') → Walks ld ld') :
    ∀ (fuel : Nat) (s : Stream) (buf : TextBuffer) (ld : LD) (tr : List Ev) (buf' : TextBuffer) (ld' : LD)
      (tr' : List Ev), normAttrLoop T txt ents rec fuel s buf ld tr = .ok (buf', ld', tr') →
        Walks ld ld' := by
  intro fuel
  induction fuel with
  | zero => intro s buf ld tr buf' ld' tr' h; simp [normAttrLoop] at h
  | succ f ih =>
    intro s buf ld tr buf' ld' tr' h
    simp only [normAttrLoop] at h
    split at h
    · simp only [Res.ok.injEq, Prod.mk.injEq] at h; exact Walks.of_eq h.2.1.symm
    · split at h
      · split at h
        · exact absurd h (errAt_ne_ok _ _ _ _)
        · exact ih _ _ _ _ _ _ _ h
      · rw [Res.bind_eq_ok] at h
        obtain ⟨⟨s', ref⟩, _, h⟩ := h
        try dsimp only at h
        split at h
        · try dsimp only at h
          split at h
          · split at h
            · exact absurd h (errFrom_ne_ok _ _ _ _)
            · exact ih _ _ _ _ _ _ _ h
          · exact ih _ _ _ _ _ _ _ h
        · split at h
          · split at h
            · exact absurd h (errAt_ne_ok _ _ _ _)
            · rename_i ld1 h1
              try dsimp only at h
              split at h
              · exact absurd h (errAt_ne_ok _ _ _ _)
              · rename_i ld2 h2
                rw [Res.bind_eq_ok] at h
                obtain ⟨_, _, h⟩ := h
                rw [Res.bind_eq_ok] at h
                obtain ⟨⟨buf3, ld3, tr3⟩, h3, h⟩ := h
                try dsimp only at h
                exact Walks.trans (Walks.step h1 h2 (hrec _ _ _ _ _ _ _ h3)) (ih _ _ _ _ _ _ _ h)
          · exact absurd h (errFrom_ne_ok _ _ _ _)
        · exact absurd h (errFrom_ne_ok _ _ _ _)

theorem normAttrRec_walks (T : Tables) (txt : Bytes) (ents : List Entity) :
    ∀ (d : Nat) (v : Span) (buf : TextBuffer) (ld : LD) (tr : List Ev) (buf' : TextBuffer) (ld' : LD)
      (tr' : List Ev), normAttrRec T txt ents d v buf ld tr = .ok (buf', ld', tr') → Walks ld ld' := by
  intro d
  induction d with
  | zero => intro v buf ld tr buf' ld' tr' h; simp [normAttrRec] at h
  | succ d ih =>
    intro v buf ld tr buf' ld' tr' h
    simp only [normAttrRec] at h
    exact normAttrLoop_walks T txt ents _ ih _ _ _ _ _ _ _ _ h

theorem normalizeAttribute_walks (T : Tables) (txt : Bytes) (c c' : Ctx) (v : Span) (s : Str)
    (h : normalizeAttribute T txt c v = .ok (c', s)) : Walks c.ld c'.ld := by
  unfold normalizeAttribute at h
  split at h
  · rw [Res.bind_eq_ok] at h
    obtain ⟨⟨buf, ld, tr⟩, hn, h⟩ := h
    rw [Res.bind_eq_ok] at h
    obtain ⟨out, _, h⟩ := h
    res_norm at h
    rw [← h.1]
    exact normAttrRec_walks T txt _ _ _ _ _ _ _ _ _ hn
  · res_norm at h; rw [← h.1]; exact Walks.refl _

theorem processAttribute_walks (T : Tables) (txt : Bytes) (c c' : Ctx) (r : Range) (q e : Nat)
    (pfx loc v : Span) (h : processAttribute T txt c r q e pfx loc v = .ok c') : Walks c.ld c'.ld := by
  unfold processAttribute at h
  rw [Res.bind_eq_ok] at h
  obtain ⟨⟨c1, value⟩, h1, h⟩ := h
  have s1 := normalizeAttribute_walks _ _ _ _ _ _ h1
  try dsimp only at h
  split at h
  · split at h
    · exact absurd h (errPos_ne_ok _ _ _ _)
    · split at h
      · exact absurd h (errPos_ne_ok _ _ _ _)
      · try dsimp only at h
        split at h
        · exact absurd h (errPos_ne_ok _ _ _ _)
        · split at h
          · exact absurd h (errPos_ne_ok _ _ _ _)
          · rw [Res.bind_eq_ok] at h
            obtain ⟨ex, _, h⟩ := h
            split at h
            · exact absurd h (errPos_ne_ok _ _ _ _)
            · split at h
              · rw [Res.bind_eq_ok] at h
                obtain ⟨ns, _, h⟩ := h
                res_norm at h; subst h
                exact s1
              · res_norm at h; subst h
                exact s1
  · split at h
    · split at h
      · exact absurd h (errPos_ne_ok _ _ _ _)
      · split at h
        · exact absurd h (errPos_ne_ok _ _ _ _)
        · rw [Res.bind_eq_ok] at h
          obtain ⟨ex, _, h⟩ := h
          split at h
          · exact absurd h (errPos_ne_ok _ _ _ _)
          · rw [Res.bind_eq_ok] at h
            obtain ⟨ns, _, h⟩ := h
            res_norm at h; subst h
            exact s1
    · res_norm at h; subst h
      exact s1

/-! ### text -/

theorem feed_walks (step : Token → Ctx → Res Ctx)
    (hstep : ∀ t c c', step t c = .ok c' → Walks c.ld c'.ld) :
    ∀ (toks : List Token) (c c' : Ctx), feed step toks c = .ok c' → Walks c.ld c'.ld := by
  intro toks
  induction toks with
  | nil => intro c c' h; simp [feed] at h; subst h; exact Walks.refl _
  | cons t ts ih =>
    intro c c' h
    simp only [feed] at h
    split at h
    · rename_i c1 h1
      exact Walks.trans (hstep _ _ _ h1) (ih _ _ h)
    · simp at h
    · simp at h
    · simp at h

theorem runTokens_walks {α} (step : Token → Ctx → Res Ctx)
    (hstep : ∀ t c c', step t c = .ok c' → Walks c.ld c'.ld)
    (toks : List Token) (stop : Res α) (c c' : Ctx) (h : runTokens step toks stop c = .ok c') :
    Walks c.ld c'.ld := by
  unfold runTokens at h
  split at h
  · rename_i c1 h1
    split at h <;> simp at h
    subst h
    exact feed_walks step hstep _ _ _ h1
  · rename_i hne
    cases hf : feed step toks c <;> simp_all

theorem processTextLoop_walks (T : Tables) (txt : Bytes) (lower : Token → Ctx → Res Ctx)
    (hlower : ∀ t c c', lower t c = .ok c' → Walks c.ld c'.ld) (range : Range) :
    ∀ (fuel : Nat) (s : Stream) (buf buf' : TextBuffer) (c c' : Ctx),
      processTextLoop T txt lower range fuel s buf c = .ok (buf', c') → Walks c.ld c'.ld := by
  intro fuel
  induction fuel with
  | zero => intro s buf buf' c c' h; simp [processTextLoop] at h
  | succ fuel ih =>
    intro s buf buf' c c' h
    simp only [processTextLoop] at h
    split at h
    · res_norm at h; rw [← h.2]; exact Walks.refl _
    · rw [Res.bind_eq_ok] at h
      obtain ⟨⟨s1, chunk⟩, hchunk, h⟩ := h
      try dsimp only at h
      split at h
      · exact ih _ _ _ _ _ h
      · try dsimp only at h
        split at h <;> exact ih _ _ _ _ _ h
      · rw [Res.bind_eq_ok] at h
        obtain ⟨c1, hfl, h⟩ := h
        have sfl := flushBuffer_ld _ _ _ _ hfl
        split at h
        · exact absurd h (errAt_ne_ok _ _ _ _)
        · rename_i ld1 h1
          try dsimp only [Ctx.log] at h
          split at h
          · exact absurd h (errAt_ne_ok _ _ _ _)
          · rename_i ld2 h2
            try dsimp only [Ctx.log] at h
            rw [Res.bind_eq_ok] at h
            obtain ⟨c2, hrun, h⟩ := h
            have srun := runTokens_walks lower hlower _ _ _ _ hrun
            split at h
            · simp at h
            · have := ih _ _ _ _ _ h
              rw [← sfl]
              exact Walks.trans (Walks.step h1 h2 srun) this

theorem processText_walks (T : Tables) (txt : Bytes) (lower : Token → Ctx → Res Ctx)
    (hlower : ∀ t c c', lower t c = .ok c' → Walks c.ld c'.ld) (c c' : Ctx) (t : Span) (r : Range)
    (h : processText T txt lower c t r = .ok c') : Walks c.ld c'.ld := by
  unfold processText at h
  split at h
  · exact Walks.of_eq (appendText_ld _ _ _ _ h)
  · dsimp only at h
    rw [Res.bind_eq_ok] at h
    obtain ⟨⟨buf, c1⟩, h1, h⟩ := h
    exact Walks.trans (processTextLoop_walks T txt lower hlower _ _ _ _ _ _ _ h1)
      (Walks.of_eq (flushBuffer_ld _ _ _ _ h))

theorem tokenStep_walks (T : Tables) (txt : Bytes) (lower : Token → Ctx → Res Ctx)
    (hlower : ∀ t c c', lower t c = .ok c' → Walks c.ld c'.ld) (t : Token) (c c' : Ctx)
    (h : tokenStep T txt lower t c = .ok c') : Walks c.ld c'.ld := by
  unfold tokenStep at h
  try dsimp only at h
  have slog : (c.log (.token t)).ld = c.ld := rfl
  rw [← slog]
  split at h
  · rw [Res.bind_eq_ok] at h
    obtain ⟨c1, h1, h⟩ := h
    rw [Res.bind_eq_ok] at h
    obtain ⟨⟨c2, id⟩, h2, h⟩ := h
    res_norm at h; subst h
    exact Walks.of_eq ((appendNode_ld _ _ _ _ _ h2).trans (resetAfterText_ld _ _ h1))
  · rw [Res.bind_eq_ok] at h
    obtain ⟨c1, h1, h⟩ := h
    rw [Res.bind_eq_ok] at h
    obtain ⟨⟨c2, id⟩, h2, h⟩ := h
    res_norm at h; subst h
    exact Walks.of_eq ((appendNode_ld _ _ _ _ _ h2).trans (resetAfterText_ld _ _ h1))
  · res_norm at h; subst h; exact Walks.refl _
  · rw [Res.bind_eq_ok] at h
    obtain ⟨c1, h1, h⟩ := h
    split at h
    · exact absurd h (errPos_ne_ok _ _ _ _)
    · res_norm at h; subst h
      have := resetAfterText_ld _ _ h1
      exact Walks.of_eq this
  · exact processAttribute_walks _ _ _ _ _ _ _ _ _ _ h
  · rw [Res.bind_eq_ok] at h
    obtain ⟨c1, h1, h⟩ := h
    exact Walks.of_eq ((processElement_ld _ _ _ _ _ h).trans (resetAfterText_ld _ _ h1))
  · exact processText_walks T txt lower hlower _ _ _ _ h
  · exact Walks.of_eq (processCdata_ld _ _ _ _ h)

/-- **Refinement to the protocol**: for every token and every context, if the builder (with `d`
levels of entity re-entry available) succeeds, then there is a forest of references — the ones it
expanded while handling the token — that the detector walked from its state before to its state
after. -/
theorem token_walk (T : Tables) (txt : Bytes) :
    ∀ (d : Nat) (t : Token) (c c' : Ctx), token T txt d t c = .ok c' →
      ∃ f : Forest, walk c.ld f = some c'.ld := by
  intro d
  induction d with
  | zero => intro t c c' h; simp [token] at h
  | succ d ih => intro t c c' h; exact tokenStep_walks T txt (token T txt d) ih t c c' h

/-- The whole parse: the detector starts and ends at `⟨0, 0⟩` … -/
theorem parseCtx_walk (T : Tables) (txt : Bytes) (opt : Opt) (c : Ctx)
    (h : parseCtx T txt depthFuel opt = .ok c) :
    ∃ f : Forest, walk ⟨0, 0⟩ f = some c.ld := by
  unfold parseCtx at h
  rw [Res.bind_eq_ok] at h
  obtain ⟨c0, h0, h⟩ := h
  try dsimp only at h
  rw [Res.bind_eq_ok] at h
  obtain ⟨c1, h1, h⟩ := h
  have s01 : Walks c0.ld c1.ld := runTokens_walks _ (token_walk T txt depthFuel) _ _ _ _ h1
  have e0 : c0.ld = ⟨0, 0⟩ := by
    unfold initCtx at h0
    rw [Res.bind_eq_ok] at h0
    obtain ⟨ns, _, h0⟩ := h0
    res_norm at h0
    subst h0
    rfl
  have e1 : c.ld = c1.ld := by
    unfold finish at h
    rw [Res.bind_eq_ok] at h
    obtain ⟨has, _, h⟩ := h
    split at h
    · simp at h
    · split at h
      · simp at h
      · res_norm at h
        subst h
        rfl
  rw [e1, ← e0]
  exact s01

end Rox.Lemmas
