/-
  Rox.Lemmas.Utf8 — facts about `decodeChar` / `validUtf8` (the `&str` invariant).
-/
import Rox.Base

namespace Rox.Lemmas
open Rox

theorem decodeChar_width (l : Bytes) (c w : Nat) (h : decodeChar l = some (c, w)) :
    1 ≤ w ∧ w ≤ 4 ∧ w ≤ l.length := by
  unfold decodeChar at h
  split at h
  · simp at h
  · split at h
    · simp at h; simp; omega
    · split at h
      · simp at h
      · split at h
        · split at h
          · split at h <;> simp only [Option.some.injEq, Prod.mk.injEq, reduceCtorEq] at h; simp; omega
          · simp at h
        · split at h
          · split at h
            · split at h <;> simp only [Option.some.injEq, Prod.mk.injEq, reduceCtorEq] at h; simp; omega
            · simp at h
          · split at h
            · split at h
              · split at h <;> simp only [Option.some.injEq, Prod.mk.injEq, reduceCtorEq] at h; simp; omega
              · simp at h
            · simp at h

/-- The first byte of a decodable sequence is not a continuation byte. -/
theorem decodeChar_head (b : UInt8) (r : Bytes) (c w : Nat) (h : decodeChar (b :: r) = some (c, w)) :
    isCont b = false := by
  unfold decodeChar at h
  unfold isCont
  by_cases h1 : b < 0x80
  · have : ¬ (0x80 ≤ b) := by
      intro h2; exact absurd (UInt8.lt_of_lt_of_le h1 h2) (UInt8.lt_irrefl _)
    simp [this]
  · simp only [h1, if_false] at h
    by_cases h2 : b < 0xC0
    · simp [h2] at h
    · simp [h2]

/-- `decodeChar` only looks at the bytes of the character it decodes. -/
theorem decodeChar_take (l x : Bytes) (c w : Nat) (h : decodeChar l = some (c, w)) :
    decodeChar (l.take w ++ x) = some (c, w) := by
  have hw := decodeChar_width l c w h
  unfold decodeChar at h ⊢
  split at h
  · simp at h
  · rename_i b0 r
    split at h
    · simp at h; obtain ⟨rfl, rfl⟩ := h
      simp [*]
    · split at h
      · simp at h
      · split at h
        · split at h
          · rename_i b1 r1
            split at h <;> simp only [Option.some.injEq, Prod.mk.injEq, reduceCtorEq] at h
            obtain ⟨rfl, rfl⟩ := h
            simp [*]
          · simp at h
        · split at h
          · split at h
            · rename_i b1 b2 r2
              split at h <;> simp only [Option.some.injEq, Prod.mk.injEq, reduceCtorEq] at h
              obtain ⟨rfl, rfl⟩ := h
              simp [*]
            · simp at h
          · split at h
            · split at h
              · rename_i b1 b2 b3 r3
                split at h <;> simp only [Option.some.injEq, Prod.mk.injEq, reduceCtorEq] at h
                obtain ⟨rfl, rfl⟩ := h
                simp [*]
              · simp at h
            · simp at h

/-- Bytes 1 .. w-1 of a decoded character are continuation bytes. -/
theorem decodeChar_cont (l : Bytes) (c w k : Nat) (h : decodeChar l = some (c, w)) (hk1 : 0 < k)
    (hk2 : k < w) : ∃ b r, l.drop k = b :: r ∧ isCont b = true := by
  unfold decodeChar at h
  split at h
  · simp at h
  · rename_i b0 r
    split at h
    · simp at h; omega
    · split at h
      · simp at h
      · split at h
        · split at h
          · rename_i b1 r1
            split at h
            · rename_i hc
              simp only [Option.some.injEq, Prod.mk.injEq] at h
              obtain ⟨_, rfl⟩ := h
              have : k = 1 := by omega
              subst this
              exact ⟨b1, r1, rfl, hc⟩
            · simp at h
          · simp at h
        · split at h
          · split at h
            · rename_i b1 b2 r2
              split at h <;> simp only [Option.some.injEq, Prod.mk.injEq, reduceCtorEq] at h
              rename_i hc
              simp only [Bool.and_eq_true] at hc
              obtain ⟨_, rfl⟩ := h
              have : k = 1 ∨ k = 2 := by omega
              rcases this with rfl | rfl
              · exact ⟨b1, b2 :: r2, rfl, hc.1⟩
              · exact ⟨b2, r2, rfl, hc.2⟩
            · simp at h
          · split at h
            · split at h
              · rename_i b1 b2 b3 r3
                split at h <;> simp only [Option.some.injEq, Prod.mk.injEq, reduceCtorEq] at h
                rename_i hc
                simp only [Bool.and_eq_true] at hc
                obtain ⟨_, rfl⟩ := h
                have : k = 1 ∨ k = 2 ∨ k = 3 := by omega
                rcases this with rfl | rfl | rfl
                · exact ⟨b1, b2 :: b3 :: r3, rfl, hc.1.1⟩
                · exact ⟨b2, b3 :: r3, rfl, hc.1.2⟩
                · exact ⟨b3, r3, rfl, hc.2⟩
              · simp at h
            · simp at h

/-- One character of a valid string: what `validUtf8` checks at each step. -/
def charOk (c w : Nat) : Bool :=
  ((w == 1) || (w == 2 && 0x80 ≤ c) || (w == 3 && 0x800 ≤ c) || (w == 4 && 0x10000 ≤ c)) && isScalar c

theorem validUtf8_fuel : ∀ (f : Nat) (l : Bytes), l.length < f →
    validUtf8 f l = validUtf8 (l.length + 1) l := by
  intro f
  induction f using Nat.strongRecOn with
  | _ f ih =>
    intro l hl
    cases f with
    | zero => omega
    | succ f =>
      cases l with
      | nil => simp [validUtf8]
      | cons b r =>
        simp only [validUtf8, List.length_cons]
        cases hd : decodeChar (b :: r) with
        | none => rfl
        | some cw =>
          obtain ⟨c, w⟩ := cw
          have hw := decodeChar_width _ _ _ hd
          simp only [List.length_cons] at hl hw
          simp only
          have hlen : ((b :: r).drop w).length < r.length + 1 := by
            simp only [List.length_drop, List.length_cons]; omega
          rw [ih f (by omega) _ (by omega), ih (r.length + 1) (by omega) _ hlen]

/-- Unfolding validity by one character. -/
theorem valid_cons (b : UInt8) (r : Bytes) :
    ValidUtf8 (b :: r) ↔ ∃ c w, decodeChar (b :: r) = some (c, w) ∧ charOk c w = true ∧
      ValidUtf8 ((b :: r).drop w) := by
  unfold ValidUtf8
  simp only [List.length_cons, validUtf8]
  cases hd : decodeChar (b :: r) with
  | none => simp
  | some cw =>
    obtain ⟨c, w⟩ := cw
    have hw := decodeChar_width _ _ _ hd
    simp only [List.length_cons] at hw
    simp only [Option.some.injEq, Prod.mk.injEq]
    have hlen : ((b :: r).drop w).length ≤ r.length := by simp only [List.length_drop, List.length_cons]; omega
    rw [validUtf8_fuel (r.length + 1) _ (by omega)]
    simp [charOk, Bool.and_assoc]
    constructor
    · rintro ⟨h1, h2, h3⟩; exact ⟨c, w, ⟨rfl, rfl⟩, ⟨h1, h2⟩, h3⟩
    · rintro ⟨c', w', ⟨rfl, rfl⟩, ⟨h1, h2⟩, h3⟩; exact ⟨h1, h2, h3⟩

theorem valid_nil : ValidUtf8 [] := by simp [ValidUtf8, validUtf8]

/-- A valid string does not start with a continuation byte. -/
theorem valid_head (b : UInt8) (r : Bytes) (h : ValidUtf8 (b :: r)) : isCont b = false := by
  obtain ⟨c, w, hd, _, _⟩ := (valid_cons b r).mp h
  exact decodeChar_head b r c w hd

/-- An ASCII byte is one character. -/
theorem decodeChar_ascii (b : UInt8) (r : Bytes) (hb : b < 128) : decodeChar (b :: r) = some (b.toNat, 1) := by
  unfold decodeChar
  have : b < 0x80 := hb
  simp [this]

theorem valid_ascii_tail (b : UInt8) (r : Bytes) (hb : b < 128) (h : ValidUtf8 (b :: r)) : ValidUtf8 r := by
  obtain ⟨c, w, hd, _, hv⟩ := (valid_cons b r).mp h
  rw [decodeChar_ascii b r hb] at hd
  simp at hd
  obtain ⟨_, rfl⟩ := hd
  simpa using hv

/-- Dropping a whole number of characters from a valid string leaves a valid string whose
removed prefix is valid too. -/
theorem valid_take_of_drop : ∀ (n : Nat) (l : Bytes) (k : Nat), l.length ≤ n → ValidUtf8 l →
    ValidUtf8 (l.drop k) → k ≤ l.length → ValidUtf8 (l.take k) := by
  intro n
  induction n with
  | zero =>
    intro l k hl _ _ _
    have : l = [] := List.eq_nil_of_length_eq_zero (by omega)
    subst this; simp [valid_nil]
  | succ n ih =>
    intro l k hl hv hd hk
    cases k with
    | zero => simp [valid_nil]
    | succ k =>
      cases l with
      | nil => simp at hk
      | cons b r =>
        obtain ⟨c, w, hdec, hok, hrest⟩ := (valid_cons b r).mp hv
        have hw := decodeChar_width _ _ _ hdec
        simp only [List.length_cons] at hw hl hk
        by_cases hkw : k + 1 < w
        · exfalso
          obtain ⟨b', r', hdr, hc⟩ := decodeChar_cont _ c w (k + 1) hdec (by omega) hkw
          rw [hdr] at hd
          have := valid_head b' r' hd
          rw [hc] at this; simp at this
        · -- k + 1 ≥ w: the prefix is the first character followed by a prefix of the rest
          have hsplit : (b :: r).take (k + 1) = (b :: r).take w ++ ((b :: r).drop w).take (k + 1 - w) := by
            rw [← List.take_append_drop w ((b :: r).take (k + 1))]
            congr 1
            · rw [List.take_take]; congr 1; omega
            · rw [List.drop_take]
          have hlen : ((b :: r).drop w).length ≤ n := by simp only [List.length_drop, List.length_cons]; omega
          have hd' : ValidUtf8 (((b :: r).drop w).drop (k + 1 - w)) := by
            rw [List.drop_drop]
            have : w + (k + 1 - w) = k + 1 := by omega
            rw [this]; exact hd
          have ihv := ih _ (k + 1 - w) hlen hrest hd' (by simp only [List.length_drop, List.length_cons]; omega)
          rw [hsplit]
          -- one character followed by a valid string is valid
          have hne : (b :: r).take w ≠ [] := by
            intro h0
            have : ((b :: r).take w).length = 0 := by rw [h0]; rfl
            simp at this; omega
          cases htk : (b :: r).take w with
          | nil => exact absurd htk hne
          | cons b0 r0 =>
            rw [List.cons_append, valid_cons]
            have hdec' := decodeChar_take (b :: r) (((b :: r).drop w).take (k + 1 - w)) c w hdec
            rw [htk, List.cons_append] at hdec'
            refine ⟨c, w, hdec', hok, ?_⟩
            have hl0 : (b0 :: r0).length = w := by rw [← htk]; simp; omega
            rw [← List.cons_append, List.drop_append_of_le_length (by omega)]
            have : (b0 :: r0).drop w = [] := by
              apply List.drop_of_length_le; omega
            rw [this]; simpa using ihv

theorem valid_prefix (l : Bytes) (k : Nat) (hv : ValidUtf8 l) (hd : ValidUtf8 (l.drop k)) :
    ValidUtf8 (l.take k) := by
  by_cases hk : k ≤ l.length
  · exact valid_take_of_drop l.length l k (Nat.le_refl _) hv hd hk
  · rw [List.take_of_length_le (by omega)]; exact hv

end Rox.Lemmas
