/-
  Rox.Lemmas.SafeText — `process_text` (with entity expansion), `process_cdata` never panic and
  terminate under the builder invariants, given that the builder one entity level deeper does.
-/
import Rox.Lemmas.SafeTree
import Rox.Lemmas.Proto
import Rox.Lemmas.SafeAttr

namespace Rox.Lemmas
open Rox Rox.Props.C06

/-- What is proved of the builder `step` for contexts whose loop-detector depth is at least `lo`:
under the invariants and the tag protocol it cannot panic or run out of fuel, and it keeps the
invariants and the depth. -/
def TokSafe (txt : Bytes) (step : Token → Ctx → Res Ctx) (lo : Nat) : Prop :=
  ∀ (q q' : Bool) (t : Token) (c : Ctx), protoStep q t = some q' → TokOk txt t → BInv c →
    AInv txt c → TagInv q c → lo ≤ c.ld.depth →
    RSpec (step t c) (fun c' => BInv c' ∧ AInv txt c' ∧ TagInv q' c' ∧ c'.ld.depth = c.ld.depth)

theorem feed_safe (txt : Bytes) (step : Token → Ctx → Res Ctx) (lo : Nat) (hstep : TokSafe txt step lo) :
    ∀ (toks : List Token) (q qe : Bool) (c : Ctx), protoRun q toks = some qe →
      (∀ t ∈ toks, TokOk txt t) → BInv c → AInv txt c → TagInv q c → lo ≤ c.ld.depth →
      RSpec (feed step toks c)
        (fun c' => BInv c' ∧ AInv txt c' ∧ TagInv qe c' ∧ c'.ld.depth = c.ld.depth) := by
  intro toks
  induction toks with
  | nil =>
    intro q qe c hrun _ hb ha ht _
    simp only [protoRun, Option.some.injEq] at hrun
    subst hrun
    exact rspec_ok _ _ ⟨hb, ha, ht, rfl⟩
  | cons t ts ih =>
    intro q qe c hrun hall hb ha ht hlo
    simp only [protoRun] at hrun
    cases hps : protoStep q t with
    | none => rw [hps] at hrun; simp at hrun
    | some q1 =>
      rw [hps] at hrun
      simp only at hrun
      have h1 := hstep q q1 t c hps (hall t (by simp)) hb ha ht hlo
      simp only [feed]
      cases hs : step t c with
      | ok c1 =>
        obtain ⟨hb1, ha1, ht1, hd1⟩ := h1.post c1 hs
        simp only
        have := ih q1 qe c1 hrun (fun t' ht' => hall t' (by simp [ht'])) hb1 ha1 ht1 (by omega)
        exact rspec_weaken this (fun c' ⟨a, b, c2, d⟩ => ⟨a, b, c2, by omega⟩)
      | err e => exact rspec_err _ _
      | panic p => rw [hs] at h1; exact absurd h1.safe (by simp [Res.Safe])
      | fuel => rw [hs] at h1; exact absurd h1.safe (by simp [Res.Safe])

theorem runTokens_safe {α} (txt : Bytes) (step : Token → Ctx → Res Ctx) (lo : Nat)
    (hstep : TokSafe txt step lo) (toks : List Token) (stop : Res α) (hstop : Res.Safe stop)
    (q qe : Bool) (c : Ctx) (hrun : protoRun q toks = some qe)
    (hall : ∀ t ∈ toks, TokOk txt t) (hb : BInv c) (ha : AInv txt c) (ht : TagInv q c)
    (hlo : lo ≤ c.ld.depth) :
    RSpec (runTokens step toks stop c)
      (fun c' => BInv c' ∧ AInv txt c' ∧ TagInv qe c' ∧ c'.ld.depth = c.ld.depth) := by
  have h := feed_safe txt step lo hstep toks q qe c hrun hall hb ha ht hlo
  unfold runTokens
  cases hf : feed step toks c with
  | ok c1 =>
    simp only
    cases stop with
    | ok u => exact rspec_ok _ _ (h.post c1 hf)
    | err e => exact rspec_err _ _
    | panic p => exact absurd hstop (by simp [Res.Safe])
    | fuel => exact absurd hstop (by simp [Res.Safe])
  | err e => exact rspec_err _ _
  | panic p => rw [hf] at h; exact absurd h.safe (by simp [Res.Safe])
  | fuel => rw [hf] at h; exact absurd h.safe (by simp [Res.Safe])

/-- `flush`: `finish` cannot fail on a complete buffer. -/
theorem flushBuffer_safe {txt : Bytes} (c : Ctx) (buf : TextBuffer) (range : Range) (hj : TJ buf [])
    (hb : BInv c) (ha : AInv txt c) :
    RSpec (flushBuffer c buf range) (fun c' => BInv c' ∧ AInv txt c' ∧ Keep c c') := by
  unfold flushBuffer
  split
  · obtain ⟨out, ho, _⟩ := finish_ok buf hj
    rw [ho]
    simp only [Res.bind_ok]
    have h := appendText_safe (txt := txt) c (.owned out) range hb ha
    have h2 := rspec_and h (fun c' hc => binv_appendText hb hc)
    exact rspec_weaken h2 (fun c' ⟨⟨a, k⟩, b⟩ => ⟨b, a, k⟩)
  · exact rspec_ok _ _ ⟨hb, ha, Keep.refl _⟩

theorem processCdata_safe {txt : Bytes} (c : Ctx) (t : Span) (r : Range) (hb : BInv c) (ha : AInv txt c) :
    RSpec (processCdata c t r) (fun c' => BInv c' ∧ AInv txt c' ∧ Keep c c') := by
  unfold processCdata
  split
  · have h := appendText_safe (txt := txt) c (.borrowed t) r hb ha
    have h2 := rspec_and h (fun c' hc => binv_appendText hb hc)
    exact rspec_weaken h2 (fun c' ⟨⟨a, k⟩, b⟩ => ⟨b, a, k⟩)
  · have h := appendText_safe (txt := txt) c (.owned (cdataNormalize t.bytes)) r hb ha
    have h2 := rspec_and h (fun c' hc => binv_appendText hb hc)
    exact rspec_weaken h2 (fun c' ⟨⟨a, k⟩, b⟩ => ⟨b, a, k⟩)

section
variable (T : Tables) (hT : TablesOK T) (txt : Bytes)

/-- what `parse_next_chunk` returns, relative to the cursor `s = c0 :: r` and the buffer -/
def ChunkPost (s : Stream) (c0 : UInt8) (r : Bytes) (buf : TextBuffer) (p : Stream × NextChunk) : Prop :=
  match p.2 with
  | .byte b => b = c0 ∧ p.1 = ⟨s.pos + 1, r⟩
  | .char ch => isScalar ch = true ∧ SOk txt p.1 ∧ p.1.rest.length < s.rest.length ∧ TJ buf []
  | .text f => SpanU txt f ∧ SOk txt p.1 ∧ p.1.rest.length < s.rest.length ∧ TJ buf []

include hT in
theorem parseNextChunk_safe (ents : List Entity) (hents : ∀ e ∈ ents, SpanU txt e.value) {s : Stream}
    (hw : WOk txt s) (buf : TextBuffer) (c0 : UInt8) (r : Bytes) (hr : s.rest = c0 :: r)
    (hj : TJ buf s.rest) :
    RSpec (parseNextChunk T txt ents s) (ChunkPost txt s c0 r buf) := by
  unfold parseNextChunk
  rw [hr]
  simp only
  split
  · rename_i hc
    have : c0 = bAmp := by simpa using hc
    subst this
    rw [hr] at hj
    have hvr : ValidUtf8 (bAmp :: r) := by
      have := (valid_split_ascii _ bAmp r (by decide)).mp hj.2
      exact valid_ascii_cons bAmp r (by decide) this.2
    have hs : SOk txt s := hw.sOk (by rw [hr]; exact hvr)
    have hcut : TJ buf [] := tj_cut buf bAmp r (by decide) hj
    apply rspec_bind _ _ _ _ (consumeReference_amp T txt hs r hr)
    rintro ⟨s', ref⟩ hp
    simp only at hp ⊢
    have hlen : ∀ s2 : Stream, Step txt ⟨s.pos + 1, r⟩ s2 → s2.rest.length < s.rest.length := by
      intro s2 h2
      have := h2.len_le
      simp only at this
      rw [hr]; simp only [List.length_cons]; omega
    split
    · rename_i ch
      obtain ⟨hst, hsc⟩ := hp (by simp)
      exact rspec_ok _ _ ⟨hsc ch rfl, hst.2, hlen _ hst, hcut⟩
    · rename_i name
      obtain ⟨hst, _⟩ := hp (by simp)
      split
      · rename_i e he
        have hmem : e ∈ ents := List.mem_of_find?_eq_some he
        exact rspec_ok _ _ ⟨hents e hmem, hst.2, hlen _ hst, hcut⟩
      · exact errFrom_safe _ _ _ _
    · exact errFrom_safe _ _ _ _
  · exact rspec_ok _ _ ⟨rfl, rfl⟩

include hT in
theorem processTextLoop_safe (lower : Token → Ctx → Res Ctx) (lo : Nat)
    (hlower : TokSafe txt lower (lo + 1)) (range : Range) :
    ∀ (fuel : Nat) (s : Stream) (buf : TextBuffer) (c : Ctx), s.rest.length < fuel → WOk txt s →
      TJ buf s.rest → BInv c → AInv txt c → lo ≤ c.ld.depth →
      RSpec (processTextLoop T txt lower range fuel s buf c)
        (fun p => TJ p.1 [] ∧ BInv p.2 ∧ AInv txt p.2 ∧ Keep c p.2) := by
  intro fuel
  induction fuel with
  | zero => intro s buf c h; omega
  | succ n ih =>
    intro s buf c hf hw hj hb ha hlo
    simp only [processTextLoop]
    split
    · rename_i hend
      have : s.rest = [] := by simpa [Stream.atEnd] using hend
      rw [this] at hj
      exact rspec_ok _ _ ⟨hj, hb, ha, Keep.refl _⟩
    · rename_i hne
      cases hr : s.rest with
      | nil => simp [Stream.atEnd, hr] at hne
      | cons c0 r =>
        apply rspec_bind _ _ _ _ (parseNextChunk_safe T hT txt c.entities ha.ents hw buf c0 r hr hj)
        rintro ⟨s1, chunk⟩ hp
        cases chunk with
        | byte b =>
          obtain ⟨hb0, hs1⟩ := hp
          simp only at hb0 hs1 ⊢
          subst hb0 hs1
          rw [hr] at hj hf
          simp only [List.length_cons] at hf
          have hw' : WOk txt ⟨s.pos, b :: r⟩ := by
            have : s = ⟨s.pos, b :: r⟩ := by cases s; simp only at hr; rw [hr]
            rw [← this]; exact hw
          exact ih _ _ c (by simp only; omega) hw'.next (tj_pushFromText buf b r hj) hb ha hlo
        | char ch =>
          obtain ⟨hsc, hs1, hlen, hcut⟩ := hp
          simp only at hsc hs1 hlen hcut ⊢
          have hext : TJ buf (encodeChar ch ++ s1.rest) :=
            tj_extend buf _ hcut (valid_app (encodeChar_valid ch hsc) hs1.utf8)
          split
          · exact ih _ _ c (by omega) hs1.wOk (tj_pushBytesText _ buf _ hext) hb ha hlo
          · exact ih _ _ c (by omega) hs1.wOk (tj_pushBytesRaw _ buf _ hext) hb ha hlo
        | text frag =>
          obtain ⟨hfu, hs1, hlen, hcut⟩ := hp
          simp only at hfu hs1 hlen hcut ⊢
          apply rspec_bind _ _ _ _ (flushBuffer_safe (txt := txt) c buf range hcut hb ha)
          rintro c1 ⟨hb1, ha1, hk1⟩
          split
          · exact errAt_safe hs1 _ _
          · rename_i ld1 hld1
            have hd1 := incRefs_depth _ _ hld1
            split
            · exact errAt_safe hs1 _ _
            · rename_i ld2 hld2
              obtain ⟨hd2, hlt2⟩ := incDepth_depth _ _ hld2
              simp only [Ctx.log] at hd2 hlt2
              try dsimp only
              -- the tokens of the entity value
              have hs0 : SOk txt (Stream.ofRange txt frag.off frag.stop) := by
                have := hfu.sOk
                have e : Stream.ofRange txt frag.off frag.stop = ⟨frag.off, frag.bytes⟩ := by
                  unfold Stream.ofRange Span.stop
                  rw [← hfu.1.1]
                rw [e]; exact this
              have hspec := parseContent_spec T hT txt
                ((Stream.ofRange txt frag.off frag.stop).rest.length + 1) 0 _ (by omega) hs0
              have hproto := tokenizeContent_proto T txt frag.off frag.stop
              obtain ⟨qe, hrun, _⟩ := hproto
              apply rspec_bind _ _
                (fun c' => BInv c' ∧ AInv txt c' ∧ c'.ld.depth = c.ld.depth + 1)
              · refine rspec_weaken (runTokens_safe txt lower (lo + 1) hlower
                  (tokenizeContent T txt frag.off frag.stop).1
                  (tokenizeContent T txt frag.off frag.stop).2 hspec.safe false qe _ hrun hspec.toks
                  (hb1.congr rfl rfl rfl)
                  ⟨ha1.lim, ha1.nsOk, ha1.text, ha1.ents, ?_⟩
                  (by intro h; simp at h) ?_) ?_
                · show ld2.depth ≤ 10
                  omega
                · show lo + 1 ≤ ld2.depth
                  have := hk1.1; omega
                · rintro c' ⟨b, a, _, d⟩
                  refine ⟨b, a, ?_⟩
                  rw [d]
                  show ld2.depth = c.ld.depth + 1
                  have := hk1.1; omega
              rintro c3 ⟨hb3, ha3, hd3⟩
              split
              · exact rspec_err _ _
              · have hdec : (c3.ld.decDepth).depth = c.ld.depth := by
                  apply decDepth_depth
                  exact hd3
                refine rspec_weaken (ih s1 {} _ (by omega) hs1.wOk (tj_empty _ hs1.utf8) ?_ ?_ ?_) ?_
                · exact hb3.congr rfl rfl rfl
                · exact ⟨ha3.lim, ha3.nsOk, ha3.text, ha3.ents, by
                    show c3.ld.decDepth.depth ≤ 10
                    have := ha.depth; omega⟩
                · show lo ≤ c3.ld.decDepth.depth
                  omega
                · rintro ⟨bf, cf⟩ ⟨j, b, a, k⟩
                  refine ⟨j, b, a, ?_⟩
                  exact ⟨by rw [k.1]; exact hdec, by rw [k.2]; exact hk1.2⟩

include hT in
/-- `process_text` -/
theorem processText_safe (lower : Token → Ctx → Res Ctx) (lo : Nat) (hlower : TokSafe txt lower (lo + 1))
    (c : Ctx) (text : Span) (range : Range) (htu : SpanU txt text)
    (hrg : range = (text.off, text.off + text.bytes.length)) (hb : BInv c) (ha : AInv txt c)
    (hlo : lo ≤ c.ld.depth) :
    RSpec (processText T txt lower c text range) (fun c' => BInv c' ∧ AInv txt c' ∧ Keep c c') := by
  unfold processText
  split
  · have h := appendText_safe (txt := txt) c (.borrowed text) range hb ha
    have h2 := rspec_and h (fun c' hc => binv_appendText hb hc)
    exact rspec_weaken h2 (fun c' ⟨⟨a, k⟩, b⟩ => ⟨b, a, k⟩)
  · dsimp only
    have e : Stream.ofRange txt range.1 range.2 = ⟨text.off, text.bytes⟩ := by
      subst hrg
      unfold Stream.ofRange
      simp only
      rw [← htu.1.1]
    rw [e]
    have hs := htu.sOk
    apply rspec_bind _ _ _ _ (processTextLoop_safe T hT txt lower lo hlower range _ _ {} c
      (by simp) hs.wOk (tj_empty _ hs.utf8) hb ha hlo)
    rintro ⟨buf, c1⟩ ⟨hj, hb1, ha1, hk1⟩
    simp only
    exact rspec_weaken (flushBuffer_safe (txt := txt) c1 buf range hj hb1 ha1)
      (fun c' ⟨b, a, k⟩ => ⟨b, a, Keep.trans hk1 k⟩)

end
end Rox.Lemmas
