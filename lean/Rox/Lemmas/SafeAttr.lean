/-
  Rox.Lemmas.SafeAttr — attribute-value normalisation (`normalize_attribute`) never panics and
  terminates: the buffer it fills is valid UTF-8 when `finish` is called, the entity recursion is
  bounded by the loop detector, and the loop detector's depth is restored.
-/
import Rox.Lemmas.SafeDefs

namespace Rox.Lemmas
open Rox

section
variable (T : Tables) (hT : TablesOK T) (txt : Bytes)

/-- post-condition of the attribute normaliser running at loop-detector depth `D` -/
def NormPost (D : Nat) (p : TextBuffer × LD × List Ev) : Prop := TA p.1 [] ∧ p.2.1.depth = D

theorem ta_cut (b : TextBuffer) (a : UInt8) (rest : Bytes) (ha : a < 128) (h : TA b (a :: rest)) :
    TA b [] :=
  ⟨h.1, by simpa using valid_before_ascii _ a rest ha h.2⟩

theorem ta_extend (b : TextBuffer) (rest : Bytes) (h : TA b []) (hr : ValidUtf8 rest) : TA b rest :=
  ⟨h.1, valid_app (by simpa using h.2) hr⟩

theorem incRefs_depth (ld ld1 : LD) (h : ld.incRefs = some ld1) : ld1.depth = ld.depth := by
  unfold LD.incRefs at h
  split at h
  · simp only [Option.some.injEq] at h; subst h; rfl
  · split at h
    · simp at h
    · simp only [Option.some.injEq] at h; subst h; rfl

theorem incDepth_depth (ld ld2 : LD) (h : ld.incDepth = some ld2) :
    ld2.depth = ld.depth + 1 ∧ ld.depth < 10 := by
  unfold LD.incDepth at h
  split at h
  · simp only [Option.some.injEq] at h; subst h; exact ⟨rfl, ‹_›⟩
  · simp at h

theorem decDepth_depth (ld : LD) (D : Nat) (h : ld.depth = D + 1) : ld.decDepth.depth = D := by
  unfold LD.decDepth
  split <;> simp only <;> omega

include hT in
theorem normAttrLoop_safe (ents : List Entity) (hents : ∀ e ∈ ents, SpanU txt e.value)
    (rec : Span → TextBuffer → LD → List Ev → Res (TextBuffer × LD × List Ev)) (D : Nat)
    (hrec : ∀ v buf ld tr, SpanU txt v → TA buf [] → ld.depth = D + 1 → D + 1 ≤ 10 →
      RSpec (rec v buf ld tr) (NormPost (D + 1))) :
    ∀ (fuel : Nat) (s : Stream) (buf : TextBuffer) (ld : LD) (tr : List Ev),
      s.rest.length < fuel → WOk txt s → TA buf s.rest → ld.depth = D →
      RSpec (normAttrLoop T txt ents rec fuel s buf ld tr) (NormPost D) := by
  intro fuel
  induction fuel with
  | zero => intro s buf ld tr hf; omega
  | succ f ih =>
    intro s buf ld tr hf hw hta hd
    obtain ⟨pos, rest⟩ := s
    simp only at hf hta
    simp only [normAttrLoop]
    split
    · exact rspec_ok _ _ ⟨hta, hd⟩
    · rename_i _ c r
      simp only [List.length_cons] at hf
      split
      · split
        · rename_i hlt
          have hc : c = bLt := by simpa using hlt
          subst hc
          have hv : ValidUtf8 (bLt :: r) := by
            obtain ⟨_, hy⟩ := (valid_split_ascii _ bLt r (by decide)).mp hta.2
            exact valid_ascii_cons _ _ (by decide) hy
          exact errAt_safe (s := ⟨pos, bLt :: r⟩) (hw.sOk hv) _ _
        · exact ih _ _ _ _ (by simp only; omega) hw.next (ta_pushFromAttr _ _ _ _ hta) hd
      · rename_i hne
        have hc : c = bAmp := by simpa using hne
        subst hc
        have hsplit := (valid_split_ascii _ bAmp r (by decide)).mp hta.2
        have hv : ValidUtf8 (bAmp :: r) := valid_ascii_cons _ _ (by decide) hsplit.2
        have hs : SOk txt ⟨pos, bAmp :: r⟩ := hw.sOk hv
        have hb0 : TA buf [] := ta_cut _ _ _ (by decide) hta
        apply rspec_bind _ _ _ _ (consumeReference_amp T txt hs r rfl)
        rintro ⟨s', ref⟩ hp
        dsimp only at hp ⊢
        split
        · rename_i ch
          obtain ⟨hst, hch⟩ := hp rfl
          have hsc := hch ch rfl
          have hlen := hst.len_le
          simp only at hlen
          have hv' : ValidUtf8 (encodeChar ch ++ s'.rest) := valid_app (encodeChar_valid ch hsc) hst.2.utf8
          have hta' := ta_extend _ _ hb0 hv'
          split
          · split
            · exact errFrom_safe _ _ _ _
            · exact ih _ _ _ _ (by omega) hst.2.wOk (ta_foldAttr _ _ _ hta') hd
          · exact ih _ _ _ _ (by omega) hst.2.wOk (ta_pushBytesRaw _ _ _ hta') hd
        · rename_i name
          obtain ⟨hst, _⟩ := hp rfl
          have hlen := hst.len_le
          simp only at hlen
          split
          · rename_i ent hfe
            have hmem : ent ∈ ents := List.mem_of_find?_eq_some hfe
            split
            · exact errAt_safe hst.2 _ _
            · rename_i ld1 h1
              split
              · exact errAt_safe hst.2 _ _
              · rename_i ld2 h2
                have e1 := incRefs_depth _ _ h1
                have e2 := incDepth_depth _ _ h2
                apply rspec_bind _ _ _ _ (skipXmlChars_spec T txt (hents ent hmem).sOk)
                intro _ _
                apply rspec_bind _ _ _ _ (hrec _ _ _ _ (hents ent hmem) hb0 (by omega) (by omega))
                rintro ⟨buf3, ld3, tr3⟩ ⟨hb3, hd3⟩
                dsimp only at hb3 hd3 ⊢
                exact ih _ _ _ _ (by omega) hst.2.wOk (ta_extend _ _ hb3 hst.2.utf8)
                  (decDepth_depth _ _ hd3)
          · exact errFrom_safe _ _ _ _
        · exact errFrom_safe _ _ _ _

include hT in
theorem normAttrRec_safe (ents : List Entity) (hents : ∀ e ∈ ents, SpanU txt e.value) :
    ∀ (d : Nat) (v : Span) (buf : TextBuffer) (ld : LD) (tr : List Ev),
      SpanU txt v → TA buf [] → ld.depth ≤ 10 → 11 ≤ d + ld.depth →
      RSpec (normAttrRec T txt ents d v buf ld tr) (NormPost ld.depth) := by
  intro d
  induction d with
  | zero => intro v buf ld tr _ _ h1 h2; omega
  | succ d ih =>
    intro v buf ld tr hv hb h1 h2
    simp only [normAttrRec]
    refine normAttrLoop_safe T hT txt ents hents _ ld.depth ?_ _ _ _ _ _ (by simp only; omega)
      hv.sOk.wOk (ta_extend _ _ hb hv.2.1) rfl
    intro v' buf' ld' tr' hv' hb' hd' hle
    have := ih v' buf' ld' tr' hv' hb' (by omega) (by omega)
    rw [hd'] at this
    exact this

include hT in
/-- `normalize_attribute`: no panic, terminates; only the loop detector's reference counter (and
the ghost trace) of the context can have changed. -/
theorem normalizeAttribute_safe (c : Ctx) (v : Span) (hv : SpanU txt v)
    (hents : ∀ e ∈ c.entities, SpanU txt e.value) (hd : c.ld.depth ≤ 10) :
    RSpec (normalizeAttribute T txt c v)
      (fun p => p.1.ld.depth = c.ld.depth ∧ p.1 = { c with ld := p.1.ld, trace := p.1.trace }) := by
  unfold normalizeAttribute
  split
  · have h0 : TA {} [] := ⟨rfl, by simpa [content] using valid_nil⟩
    apply rspec_bind _ _ _ _ (normAttrRec_safe T hT txt c.entities hents depthFuel v {} c.ld c.trace hv h0 hd
      (by simp only [depthFuel]; omega))
    rintro ⟨buf, ld, tr⟩ ⟨hb, hdd⟩
    dsimp only at hb hdd ⊢
    obtain ⟨out, ho, _⟩ := finish_ok buf hb.tj
    rw [ho]
    exact rspec_ok _ _ ⟨hdd, rfl⟩
  · exact rspec_ok _ _ ⟨rfl, rfl⟩

end
end Rox.Lemmas
