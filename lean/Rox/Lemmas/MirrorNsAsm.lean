/-
  Rox.Lemmas.MirrorNsAsm — Stage C'' of the proof of `accepted_namespaces_resolve`: Stage C' of
  `accepted_tree_mirrors` (`Rox.Lemmas.MirrorAsm`) once more, carrying the namespace machine `runN`
  (`Rox.Lemmas.MirrorNsDefs`) as well: for the SAME abstract document `x` assembled from the flat
  list of items, the namespace machine run over the items yields exactly `nsDoc x`.
  Pure list combinatorics.
-/
import Rox.Lemmas.MirrorNsDefs
import Rox.Lemmas.MirrorAsm

namespace Rox.Lemmas
open Rox Rox.Spec Rox.Spec.Grammar Rox.Spec.Canon4 Rox.Spec.Mirror Rox.Spec.MirrorNs

/-- the namespace machine reads the items `kitems` of the children `kids` of the innermost open
element, whose scope is `sc`: the stack is left as it was, the views of the elements among `kids`
(and below) are appended -/
def MachN (kitems : List Item) (kids : List GNode) : Prop :=
  ∀ (n : NStk) (sc : Scope) (rest : List Scope), n.stk = sc :: rest →
    (runN n kitems).stk = n.stk ∧ (runN n kitems).out = n.out ++ nsKids sc kids

/-- the namespace machine reads the items `grp` of one node `k` -/
def NodeRunN (grp : List Item) (k : GNode) : Prop :=
  ∀ (n : NStk) (sc : Scope) (rest : List Scope), n.stk = sc :: rest →
    runN n grp = ⟨n.out ++ nsOf sc k, n.stk⟩


/-! ### The namespace machine -/

theorem masn_top (n : NStk) (sc : Scope) (rest : List Scope) (h : n.stk = sc :: rest) : n.top = sc := by
  unfold NStk.top
  rw [h]
  rfl

theorem masn_mach_nil : MachN [] [] := by
  intro n sc rest h
  refine ⟨rfl, ?_⟩
  rw [nsKids_nil, List.append_nil]
  rfl

theorem masn_mach_sp (s : Bytes) (kitems : List Item) (kids : List GNode) (hM : MachN kitems kids) :
    MachN (Item.sp s :: kitems) kids := by
  intro n sc rest h
  exact hM n sc rest h

/-- an item the machine ignores, for a node that holds no element -/
theorem masn_mach_skip (it : Item) (k : GNode) (kitems : List Item) (kids : List GNode)
    (hs : ∀ n : NStk, stepN n it = n) (hk : ∀ sc, nsOf sc k = [])
    (hM : MachN kitems kids) : MachN (it :: kitems) (k :: kids) := by
  intro n sc rest h
  show (runN (stepN n it) kitems).stk = _ ∧ (runN (stepN n it) kitems).out = _
  rw [hs, nsKids_cons, hk, List.nil_append]
  exact hM n sc rest h

theorem masn_mach_node (grp : List Item) (k : GNode) (kitems : List Item) (kids : List GNode)
    (hg : NodeRunN grp k) (hM : MachN kitems kids) : MachN (grp ++ kitems) (k :: kids) := by
  intro n sc rest h
  rw [runN_append, hg n sc rest h, nsKids_cons]
  obtain ⟨h1, h2⟩ := hM ⟨n.out ++ nsOf sc k, n.stk⟩ sc rest h
  refine ⟨h1, ?_⟩
  rw [h2]
  show (n.out ++ nsOf sc k) ++ nsKids sc kids = _
  rw [List.append_assoc]

theorem masn_noderun_empty (q : Bytes) (attrs : List AttrC) (s1 : Bytes) :
    NodeRunN [Item.stag q attrs s1 true] (.elem q (attrs.map fun a => (a.n, a.v)) []) := by
  intro n sc rest h
  show (⟨n.out ++ [nsViewOf n.top q (attrs.map fun a => (a.n, a.v))], n.stk⟩ : NStk) = _
  rw [masn_top n sc rest h, nsOf_elem, nsKids_nil]

theorem masn_noderun_open (q : Bytes) (attrs : List AttrC) (s1 q' s2 : Bytes) (kit1 : List Item)
    (kids1 : List GNode) (hM : MachN kit1 kids1) :
    NodeRunN (Item.stag q attrs s1 false :: (kit1 ++ [Item.etag q' s2]))
      (.elem q (attrs.map fun a => (a.n, a.v)) kids1) := by
  intro n sc rest h
  show runN (stepN n (Item.stag q attrs s1 false)) (kit1 ++ [Item.etag q' s2]) = _
  rw [runN_append]
  have hs : stepN n (Item.stag q attrs s1 false) =
      ⟨n.out ++ [nsViewOf sc q (attrs.map fun a => (a.n, a.v))],
        scopeOf sc (attrs.map fun a => (a.n, a.v)) :: n.stk⟩ := by
    show (⟨n.out ++ [nsViewOf n.top q (attrs.map fun a => (a.n, a.v))],
      scopeOf n.top (attrs.map fun a => (a.n, a.v)) :: n.stk⟩ : NStk) = _
    rw [masn_top n sc rest h]
  rw [hs]
  obtain ⟨h1, h2⟩ := hM ⟨n.out ++ [nsViewOf sc q (attrs.map fun a => (a.n, a.v))],
    scopeOf sc (attrs.map fun a => (a.n, a.v)) :: n.stk⟩
    (scopeOf sc (attrs.map fun a => (a.n, a.v))) n.stk rfl
  show (⟨(runN _ kit1).out, (runN _ kit1).stk.tail⟩ : NStk) = _
  rw [h1, h2, nsOf_elem]
  simp only [List.tail_cons, List.append_assoc, List.cons_append, List.nil_append]

theorem masn_leaf_mach (it : Item) (h : it.isLeafNT = true) (kitems : List Item)
    (kids : List GNode) (hM : MachN kitems kids) : MachN (it :: kitems) (asmNode it :: kids) := by
  cases it with
  | comment b =>
    exact masn_mach_skip (Item.comment b) (.comment b) kitems kids (fun _ => rfl)
      (fun sc => nsOf_comment sc b) hM
  | pi t s v =>
    exact masn_mach_skip (Item.pi t s v) (.pi t v) kitems kids (fun _ => rfl)
      (fun sc => nsOf_pi sc t v) hM
  | cdata b =>
    exact masn_mach_skip (Item.cdata b) (.cdata b) kitems kids (fun _ => rfl)
      (fun sc => nsOf_cdata sc b) hM
  | sp s => exact Bool.noConfusion h
  | text t => exact Bool.noConfusion h
  | stag q a s e => exact Bool.noConfusion h
  | etag q s => exact Bool.noConfusion h

/-- the namespace machine ignores the prolog and the epilog -/
theorem masn_run_misc (l : List Item) (h : ∀ it ∈ l, it.isMiscI = true) :
    ∀ n : NStk, runN n l = n := by
  induction l with
  | nil => intro n; rfl
  | cons x r ih =>
    intro n
    have hx := h x (List.mem_cons_self ..)
    have hr : ∀ it ∈ r, it.isMiscI = true := fun it hit => h it (List.mem_cons_of_mem _ hit)
    show runN (stepN n x) r = n
    cases x with
    | sp s => exact ih hr n
    | comment b => exact ih hr n
    | pi t s v => exact ih hr n
    | cdata b => exact Bool.noConfusion hx
    | text t => exact Bool.noConfusion hx
    | stag q a s e => exact Bool.noConfusion hx
    | etag q s => exact Bool.noConfusion hx

/-! ### The children of an element -/

/-- `AsmM` of `Rox.Lemmas.MirrorAsm` with the namespace machine -/
def AsmMN (T : Tables) (d : Nat) (stk : List QP) (its : List Item) : Prop :=
  ∃ (kitems : List Item) (q' s2 : Bytes) (rest : List Item) (kids : List GNode),
    its = kitems ++ Item.etag q' s2 :: rest ∧ RKids T kids (flat kitems) ∧ GWfAll T kids ∧
    noAdjText kids = true ∧
    (∀ k ks, kids = k :: ks → isText k = true → ∃ t r, kitems = Item.text t :: r) ∧
    runStk stk kitems = some stk ∧ Sp0 T s2 ∧
    ((d = 0 ∧ rest = []) ∨ (∃ d', d = d' + 1 ∧ Content d' rest)) ∧
    NormalAll T kids ∧ MachK kitems kids ∧ MachN kitems kids

theorem masn_prepend (T : Tables) (d : Nat) (stk : List QP) (it : Item) (tail : List Item)
    (k : GNode) (hr : RNode T k it.bytes) (hg : GWf T k) (hstep : stepStk stk it = some stk)
    (htxt : isText k = true → (∃ t, it = .text t) ∧ ∀ t' r, tail ≠ Item.text t' :: r)
    (hN : Normal T k)
    (hmach : ∀ kitems kids, MachK kitems kids → MachK (it :: kitems) (k :: kids))
    (hmachN : ∀ kitems kids, MachN kitems kids → MachN (it :: kitems) (k :: kids))
    (hA : AsmMN T d stk tail) : AsmMN T d stk (it :: tail) := by
  obtain ⟨kitems, q', s2, rest, kids, rfl, hk, hw, hn, hh, hrun, hs, hd, hNk, hM, hMN⟩ := hA
  refine ⟨it :: kitems, q', s2, rest, k :: kids, rfl, RKids.cons k kids _ _ hr hk,
    (asm_gwfall_cons T k kids).2 ⟨hg, hw⟩, ?_, ?_, ?_, hs, hd,
    (masm_normalAll_cons T k kids).2 ⟨hN, hNk⟩, hmach kitems kids hM, hmachN kitems kids hMN⟩
  · apply asm_noAdj_cons k kids hn
    intro k' r hkr h1 h2
    obtain ⟨t', r', hkit⟩ := hh k' r hkr h2
    exact (htxt h1).2 t' (r' ++ Item.etag q' s2 :: rest) (by rw [hkit]; rfl)
  · intro k0 ks hk0 h1
    injection hk0 with hk0 _
    subst hk0
    obtain ⟨t, rfl⟩ := (htxt h1).1
    exact ⟨t, kitems, rfl⟩
  · rw [asm_runStk_cons_same stk it kitems hstep]
    exact hrun

theorem masn_main (T : Tables) : ∀ (n : Nat) (its : List Item) (d : Nat) (stk fin : List QP),
    its.length < n → Content d its → stk.length = d + 1 → runStk stk its = some fin →
    (∀ it ∈ its, it.Lex T) → (∀ it ∈ its, it.Sem T) → (∀ it ∈ its, it.PiN T) →
    AsmMN T d stk its ∨ stk.length ≤ fin.length := by
  intro n
  induction n with
  | zero => intro its d stk fin h; exact absurd h (Nat.not_lt_zero _)
  | succ n ih =>
    intro its d stk fin hlen hc hstk hrun hlex hsem hpin
    cases hc with
    | eof =>
      right
      have : some stk = some fin := hrun
      injection this with this
      rw [this]; exact Nat.le_refl _
    | leaf _ it tail hleaf hc' =>
      have hstep := asm_step_leaf stk it hleaf
      rw [asm_runStk_cons_same stk it tail hstep] at hrun
      have hl : tail.length < n := Nat.lt_of_succ_lt_succ hlen
      rcases ih tail d stk fin hl hc' hstk hrun
        (fun x hx => hlex x (List.mem_cons_of_mem _ hx))
        (fun x hx => hsem x (List.mem_cons_of_mem _ hx))
        (fun x hx => hpin x (List.mem_cons_of_mem _ hx)) with hA | hB
      · left
        obtain ⟨h1, h2, h3⟩ := asm_leaf T it hleaf (hlex it (List.mem_cons_self ..))
        exact masn_prepend T d stk it tail (asmNode it) h1 h2 hstep
          (fun h => by rw [h3] at h; exact absurd h (by decide))
          (masm_leaf_normal T it (hpin it (List.mem_cons_self ..)))
          (masm_leaf_mach it hleaf) (masn_leaf_mach it hleaf) hA
      · exact Or.inr hB
    | text _ t tail hnt hc' =>
      have hstep : stepStk stk (Item.text t) = some stk := rfl
      rw [asm_runStk_cons_same stk _ tail hstep] at hrun
      have hl : tail.length < n := Nat.lt_of_succ_lt_succ hlen
      rcases ih tail d stk fin hl hc' hstk hrun
        (fun x hx => hlex x (List.mem_cons_of_mem _ hx))
        (fun x hx => hsem x (List.mem_cons_of_mem _ hx))
        (fun x hx => hpin x (List.mem_cons_of_mem _ hx)) with hA | hB
      · left
        have hL : (Item.text t).Lex T := hlex _ (List.mem_cons_self ..)
        have hS : RefText T t := hsem _ (List.mem_cons_self ..)
        have hg : GWf T (.text t) := (asm_gwf_text T t).2 ⟨hL.1, hL.2.1, hS, hL.2.2.2⟩
        exact masn_prepend T d stk (Item.text t) tail (.text t) (RNode.text t) hg hstep
          (fun _ => ⟨⟨t, rfl⟩, hnt⟩) (masm_normal_text T t)
          (fun kitems kids hM => masm_mach_char (Item.text t) (.text t) (decodeText t) kitems kids
            (fun _ => rfl) (fun pend => masm_treeKids_text pend t kids) hM)
          (fun kitems kids hM => masn_mach_skip (Item.text t) (.text t) kitems kids (fun _ => rfl)
            (fun sc => nsOf_text sc t) hM) hA
      · exact Or.inr hB
    | empty _ q attrs s1 tail hc' =>
      have hstep : stepStk stk (Item.stag q attrs s1 true) = some stk := rfl
      rw [asm_runStk_cons_same stk _ tail hstep] at hrun
      have hl : tail.length < n := Nat.lt_of_succ_lt_succ hlen
      rcases ih tail d stk fin hl hc' hstk hrun
        (fun x hx => hlex x (List.mem_cons_of_mem _ hx))
        (fun x hx => hsem x (List.mem_cons_of_mem _ hx))
        (fun x hx => hpin x (List.mem_cons_of_mem _ hx)) with hA | hB
      · left
        have hL : (Item.stag q attrs s1 true).Lex T := hlex _ (List.mem_cons_self ..)
        have hS : (Item.stag q attrs s1 true).Sem T := hsem _ (List.mem_cons_self ..)
        have hg := asm_gwf_stag T q attrs s1 true [] hL hS rfl (asm_gwfall_nil T)
        have hr : RNode T (.elem q (attrs.map fun a => (a.n, a.v)) [])
            (Item.stag q attrs s1 true).bytes :=
          RNode.empty q _ (attrsBytes attrs) s1 (asm_rattrs T attrs hL.2.2) hL.2.1
        exact masn_prepend T d stk _ tail _ hr hg hstep
          (fun h => Bool.noConfusion h)
          ((masm_normal_elem T _ _ _).2 (masm_normalAll_nil T))
          (fun kitems kids hM => masm_mach_node [Item.stag q attrs s1 true]
            (.elem (qparts q).2 (attrsOfC attrs) []) _ kitems kids (masm_noderun_empty q attrs s1)
            (fun pend => by rw [masm_treeKids_elem, masm_treeKids_nil]; rfl) hM)
          (fun kitems kids hM => masn_mach_node [Item.stag q attrs s1 true] _ kitems kids
            (masn_noderun_empty q attrs s1) hM) hA
      · exact Or.inr hB
    | «open» _ q attrs s1 tail hc' =>
      have hrun1 : runStk (qparts q :: stk) tail = some fin := hrun
      have hl : tail.length < n := Nat.lt_of_succ_lt_succ hlen
      have hL : (Item.stag q attrs s1 false).Lex T := hlex _ (List.mem_cons_self ..)
      have hS : (Item.stag q attrs s1 false).Sem T := hsem _ (List.mem_cons_self ..)
      have hlexT : ∀ x ∈ tail, x.Lex T := fun x hx => hlex x (List.mem_cons_of_mem _ hx)
      have hsemT : ∀ x ∈ tail, x.Sem T := fun x hx => hsem x (List.mem_cons_of_mem _ hx)
      have hpinT : ∀ x ∈ tail, x.PiN T := fun x hx => hpin x (List.mem_cons_of_mem _ hx)
      rcases ih tail (d + 1) (qparts q :: stk) fin hl hc' (by simp [hstk]) hrun1 hlexT hsemT hpinT
        with hA | hB
      · obtain ⟨kit1, q', s2, rest1, kids1, htail, hk1, hw1, hn1, _, hr1, hs2, hd1, hN1, hM1, hMN1⟩ := hA
        have hc1 : Content d rest1 := by
          rcases hd1 with ⟨h0, _⟩ | ⟨d', hd', hc1⟩
          · exact absurd h0 (Nat.succ_ne_zero _)
          · have : d = d' := Nat.succ.inj hd'
            rw [this]; exact hc1
        subst htail
        rw [asm_runStk_append, hr1] at hrun1
        have hrun2 : (match stepStk (qparts q :: stk) (Item.etag q' s2) with
              | some stk' => runStk stk' rest1
              | none => none) = some fin := hrun1
        have hstepE : stepStk (qparts q :: stk) (Item.etag q' s2) =
            if qparts q = qparts q' then some stk else none := rfl
        by_cases hqq : qparts q = qparts q'
        · rw [hstepE, if_pos hqq] at hrun2
          have hrun3 : runStk stk rest1 = some fin := hrun2
          have hl1 : rest1.length < n := by
            have : rest1.length < (kit1 ++ Item.etag q' s2 :: rest1).length := by
              simp only [List.length_append, List.length_cons]; omega
            omega
          have hlexR : ∀ x ∈ rest1, x.Lex T := fun x hx =>
            hlexT x (List.mem_append_right _ (List.mem_cons_of_mem _ hx))
          have hsemR : ∀ x ∈ rest1, x.Sem T := fun x hx =>
            hsemT x (List.mem_append_right _ (List.mem_cons_of_mem _ hx))
          have hpinR : ∀ x ∈ rest1, x.PiN T := fun x hx =>
            hpinT x (List.mem_append_right _ (List.mem_cons_of_mem _ hx))
          rcases ih rest1 d stk fin hl1 hc1 hstk hrun3 hlexR hsemR hpinR with hA2 | hB2
          · left
            obtain ⟨kit2, q2, s22, rest2, kids2, rfl, hk2, hw2, hn2, hh2, hr2, hs22, hd2, hN2, hM2,
              hMN2⟩ :=
              hA2
            have hg : GWf T (.elem q (attrs.map fun a => (a.n, a.v)) kids1) :=
              asm_gwf_stag T q attrs s1 false kids1 hL hS hn1 hw1
            have hrn : RNode T (.elem q (attrs.map fun a => (a.n, a.v)) kids1)
                ((Item.stag q attrs s1 false).bytes ++
                  (flat kit1 ++ (Item.etag q' s2).bytes)) := by
              have := RNode.elem q q' _ kids1 (attrsBytes attrs) s1 (flat kit1) s2
                (asm_rattrs T attrs hL.2.2) hL.2.1 hk1 hs2 hqq.symm
              rw [asm_elem_bytes] at this
              exact this
            have hMach : MachK (Item.stag q attrs s1 false :: (kit1 ++ Item.etag q' s2 :: kit2))
                (.elem q (attrs.map fun a => (a.n, a.v)) kids1 :: kids2) := by
              have := masm_mach_node (Item.stag q attrs s1 false :: (kit1 ++ [Item.etag q' s2]))
                (.elem (qparts q).2 (attrsOfC attrs) (treeKids none kids1))
                (.elem q (attrs.map fun a => (a.n, a.v)) kids1) kit2 kids2
                (masm_noderun_open q attrs s1 q' s2 kit1 kids1 hM1)
                (fun pend => masm_treeKids_elem pend q _ kids1 kids2) hM2
              have e : (Item.stag q attrs s1 false :: (kit1 ++ [Item.etag q' s2])) ++ kit2 =
                  Item.stag q attrs s1 false :: (kit1 ++ Item.etag q' s2 :: kit2) := by
                simp only [List.cons_append, List.append_assoc, List.nil_append]
              rw [e] at this
              exact this
            have hMachN : MachN (Item.stag q attrs s1 false :: (kit1 ++ Item.etag q' s2 :: kit2))
                (.elem q (attrs.map fun a => (a.n, a.v)) kids1 :: kids2) := by
              have := masn_mach_node (Item.stag q attrs s1 false :: (kit1 ++ [Item.etag q' s2]))
                (.elem q (attrs.map fun a => (a.n, a.v)) kids1) kit2 kids2
                (masn_noderun_open q attrs s1 q' s2 kit1 kids1 hMN1) hMN2
              have e : (Item.stag q attrs s1 false :: (kit1 ++ [Item.etag q' s2])) ++ kit2 =
                  Item.stag q attrs s1 false :: (kit1 ++ Item.etag q' s2 :: kit2) := by
                simp only [List.cons_append, List.append_assoc, List.nil_append]
              rw [e] at this
              exact this
            refine ⟨Item.stag q attrs s1 false :: (kit1 ++ Item.etag q' s2 :: kit2), q2, s22,
              rest2, .elem q (attrs.map fun a => (a.n, a.v)) kids1 :: kids2, ?_, ?_,
              (asm_gwfall_cons T _ _).2 ⟨hg, hw2⟩, ?_, ?_, ?_, hs22, hd2,
              (masm_normalAll_cons T _ _).2 ⟨(masm_normal_elem T _ _ _).2 hN1, hN2⟩, hMach,
              hMachN⟩
            · simp only [List.cons_append, List.append_assoc]
            · have hfl : flat (Item.stag q attrs s1 false :: (kit1 ++ Item.etag q' s2 :: kit2)) =
                  ((Item.stag q attrs s1 false).bytes ++
                    (flat kit1 ++ (Item.etag q' s2).bytes)) ++ flat kit2 := by
                show (Item.stag q attrs s1 false).bytes ++ flat (kit1 ++ Item.etag q' s2 :: kit2) = _
                rw [asm_flat_append]
                show _ ++ (flat kit1 ++ ((Item.etag q' s2).bytes ++ flat kit2)) = _
                simp only [List.append_assoc]
              rw [hfl]
              exact RKids.cons _ _ _ _ hrn hk2
            · apply asm_noAdj_cons _ kids2 hn2
              intro k' r _ h1 _
              exact Bool.noConfusion h1
            · intro k0 ks hk0 h1
              injection hk0 with hk0 _
              subst hk0
              exact Bool.noConfusion h1
            · show runStk (qparts q :: stk) (kit1 ++ Item.etag q' s2 :: kit2) = some stk
              rw [asm_runStk_append, hr1]
              show (match stepStk (qparts q :: stk) (Item.etag q' s2) with
                    | some stk' => runStk stk' kit2
                    | none => none) = some stk
              rw [hstepE, if_pos hqq]
              exact hr2
          · exact Or.inr hB2
        · rw [hstepE, if_neg hqq] at hrun2
          exact absurd hrun2 (by simp)
      · right
        have : (qparts q :: stk).length = stk.length + 1 := rfl
        omega
    | close d' q s2 tail hc' =>
      left
      have hL : (Item.etag q s2).Lex T := hlex _ (List.mem_cons_self ..)
      exact ⟨[], q, s2, tail, [], rfl, RKids.nil, asm_gwfall_nil T, rfl,
        (fun k ks h => by cases h), rfl, hL.2, Or.inr ⟨d', rfl, hc'⟩, masm_normalAll_nil T,
        masm_mach_nil, masn_mach_nil⟩
    | last q s2 =>
      left
      have hL : (Item.etag q s2).Lex T := hlex _ (List.mem_cons_self ..)
      exact ⟨[], q, s2, [], [], rfl, RKids.nil, asm_gwfall_nil T, rfl,
        (fun k ks h => by cases h), rfl, hL.2, Or.inl ⟨rfl, rfl⟩, masm_normalAll_nil T,
        masm_mach_nil, masn_mach_nil⟩

/-! ### The document -/

theorem masn_root (T : Tables) (pre root post : List Item)
    (hpre : ∀ it ∈ pre, it.isMiscI = true) (hpost : ∀ it ∈ post, it.isMiscI = true)
    (hroot : RootShape root)
    (hlex : ∀ it ∈ root, it.Lex T) (hsem : ∀ it ∈ root, it.Sem T) (hpin : ∀ it ∈ root, it.PiN T)
    (hrun : runStk [] (pre ++ root ++ post) = some [])
    (hstag : ∃ it ∈ pre ++ root ++ post, it.isStag = true) :
    ∃ r y, isElem r = true ∧ GWf T r ∧ RNode T r (flat root) ∧ Normal T r ∧ treeOf r = [y] ∧
      NodeRun root y ∧ NodeRunN root r := by
  rcases hroot with rfl | ⟨q, attrs, s1, rfl⟩ | ⟨q, attrs, s1, content, rfl, hcont⟩
  · obtain ⟨it, hit, hs⟩ := hstag
    rw [List.append_nil] at hit
    have hm : it.isMiscI = true := by
      rcases List.mem_append.1 hit with h | h
      · exact hpre it h
      · exact hpost it h
    rw [asm_misc_not_stag it hm] at hs
    exact Bool.noConfusion hs
  · have hL : (Item.stag q attrs s1 true).Lex T := hlex _ (List.mem_cons_self ..)
    have hS : (Item.stag q attrs s1 true).Sem T := hsem _ (List.mem_cons_self ..)
    refine ⟨.elem q (attrs.map fun a => (a.n, a.v)) [],
      .elem (qparts q).2 (attrsOfC attrs) [], rfl,
      asm_gwf_stag T q attrs s1 true [] hL hS rfl (asm_gwfall_nil T), ?_,
      (masm_normal_elem T _ _ _).2 (masm_normalAll_nil T), ?_, masm_noderun_empty q attrs s1,
      masn_noderun_empty q attrs s1⟩
    · show RNode T _ ((Item.stag q attrs s1 true).bytes ++ [])
      rw [List.append_nil]
      exact RNode.empty q _ (attrsBytes attrs) s1 (asm_rattrs T attrs hL.2.2) hL.2.1
    · rw [masm_treeOf_elem, masm_treeKids_nil]; rfl
  · have hL : (Item.stag q attrs s1 false).Lex T := hlex _ (List.mem_cons_self ..)
    have hS : (Item.stag q attrs s1 false).Sem T := hsem _ (List.mem_cons_self ..)
    have hlexC : ∀ x ∈ content, x.Lex T := fun x hx => hlex x (List.mem_cons_of_mem _ hx)
    have hsemC : ∀ x ∈ content, x.Sem T := fun x hx => hsem x (List.mem_cons_of_mem _ hx)
    have hpinC : ∀ x ∈ content, x.PiN T := fun x hx => hpin x (List.mem_cons_of_mem _ hx)
    rw [List.append_assoc, asm_runStk_append, asm_run_misc [] pre hpre] at hrun
    have hrun1 : runStk [qparts q] (content ++ post) = some [] := hrun
    rw [asm_runStk_append] at hrun1
    cases hfin : runStk [qparts q] content with
    | none => rw [hfin] at hrun1; exact absurd hrun1 (by simp)
    | some fin =>
      rw [hfin] at hrun1
      have hrun2 : runStk fin post = some [] := hrun1
      rw [asm_run_misc fin post hpost] at hrun2
      injection hrun2 with hrun2
      subst hrun2
      rcases masn_main T (content.length + 1) content 0 [qparts q] [] (Nat.lt_succ_self _) hcont rfl
        hfin hlexC hsemC hpinC with hA | hB
      · obtain ⟨kitems, q', s2, rest, kids, rfl, hk, hw, hn, _, hr, hs2, hd, hN, hM, hMN⟩ := hA
        have hrest : rest = [] := by
          rcases hd with ⟨_, h⟩ | ⟨d', hd', _⟩
          · exact h
          · exact absurd hd' (Nat.succ_ne_zero _).symm
        subst hrest
        rw [asm_runStk_append, hr] at hfin
        have hfin2 : (match stepStk [qparts q] (Item.etag q' s2) with
              | some stk' => runStk stk' []
              | none => none) = some [] := hfin
        have hstepE : stepStk [qparts q] (Item.etag q' s2) =
            if qparts q = qparts q' then some [] else none := rfl
        by_cases hqq : qparts q = qparts q'
        · refine ⟨.elem q (attrs.map fun a => (a.n, a.v)) kids,
            .elem (qparts q).2 (attrsOfC attrs) (treeKids none kids), rfl,
            asm_gwf_stag T q attrs s1 false kids hL hS hn hw, ?_,
            (masm_normal_elem T _ _ _).2 hN, ?_,
            masm_noderun_open q attrs s1 q' s2 kitems kids hM,
            masn_noderun_open q attrs s1 q' s2 kitems kids hMN⟩
          · have := RNode.elem q q' _ kids (attrsBytes attrs) s1 (flat kitems) s2
              (asm_rattrs T attrs hL.2.2) hL.2.1 hk hs2 hqq.symm
            rw [asm_elem_bytes] at this
            have hfl : flat (Item.stag q attrs s1 false :: (kitems ++ [Item.etag q' s2])) =
                (Item.stag q attrs s1 false).bytes ++
                  (flat kitems ++ (Item.etag q' s2).bytes) := by
              show (Item.stag q attrs s1 false).bytes ++ flat (kitems ++ [Item.etag q' s2]) = _
              rw [asm_flat_append]
              show _ ++ (flat kitems ++ ((Item.etag q' s2).bytes ++ [])) = _
              rw [List.append_nil]
            rw [hfl]
            exact this
          · rw [masm_treeOf_elem]; rfl
        · rw [hstepE, if_neg hqq] at hfin2
          exact absurd hfin2 (by simp)
      · exact absurd hB (Nat.not_succ_le_zero _)

/-- **Stage C''** -/
theorem assembleMN (T : Tables) (bom decl : Bytes) (pre root post : List Item)
    (hbom : bom = [] ∨ bom = Lit.bom) (hdecl : decl = [] ∨ XmlDecl T decl)
    (hpre : ∀ it ∈ pre, it.isMiscI = true) (hpost : ∀ it ∈ post, it.isMiscI = true)
    (hroot : RootShape root)
    (hlex : ∀ it ∈ pre ++ root ++ post, it.Lex T) (hsem : ∀ it ∈ pre ++ root ++ post, it.Sem T)
    (hpin : ∀ it ∈ pre ++ root ++ post, it.PiN T)
    (hrun : runStk [] (pre ++ root ++ post) = some [])
    (hstag : ∃ it ∈ pre ++ root ++ post, it.isStag = true) :
    ∃ x : GDoc, GDocWf T x ∧ DocNormal T x ∧
      RDoc T x (bom ++ decl ++ flat pre ++ flat root ++ flat post) ∧
      (runA initA (pre ++ root ++ post)).pend = none ∧
      (runA initA (pre ++ root ++ post)).out = (none, YKind.root) :: expectAllY 0 1 (docTree x) ∧
      (runN initN (pre ++ root ++ post)).out = nsDoc x := by
  obtain ⟨mpre, hmpre, hwpre, hNpre, hMpre⟩ := masm_rmisc T pre hpre
    (fun it h => hlex it (List.mem_append_left _ (List.mem_append_left _ h)))
    (fun it h => hpin it (List.mem_append_left _ (List.mem_append_left _ h)))
  obtain ⟨mpost, hmpost, hwpost, hNpost, hMpost⟩ := masm_rmisc T post hpost
    (fun it h => hlex it (List.mem_append_right _ h))
    (fun it h => hpin it (List.mem_append_right _ h))
  obtain ⟨r, y, he, hg, hr, hNr, hty, hRun, hRunN⟩ := masn_root T pre root post hpre hpost hroot
    (fun it h => hlex it (List.mem_append_left _ (List.mem_append_right _ h)))
    (fun it h => hsem it (List.mem_append_left _ (List.mem_append_right _ h)))
    (fun it h => hpin it (List.mem_append_left _ (List.mem_append_right _ h))) hrun hstag
  refine ⟨⟨mpre, r, mpost⟩, ⟨he, hg, hwpre, hwpost⟩, ⟨hNpre, hNr, hNpost⟩,
    RDoc.mk mpre r mpost bom decl _ _ _ hbom hdecl hmpre hr hmpost, ?_⟩
  have hNs : (runN initN (pre ++ root ++ post)).out = nsDoc ⟨mpre, r, mpost⟩ := by
    rw [runN_append, runN_append, masn_run_misc pre hpre, hRunN initN [] [] rfl,
      masn_run_misc post hpost]
    show [] ++ nsOf [] r = nsOf [] r
    rfl
  suffices hA : (runA initA (pre ++ root ++ post)).pend = none ∧
      (runA initA (pre ++ root ++ post)).out =
        (none, YKind.root) :: expectAllY 0 1 (docTree ⟨mpre, r, mpost⟩) from ⟨hA.1, hA.2, hNs⟩
  rw [runA_append, runA_append]
  obtain ⟨s1, f1⟩ := hMpre initA 0 [] rfl
  have s1' : (runA initA pre).stk = 0 :: [] := s1
  rw [hRun (runA initA pre) 0 [] s1']
  obtain ⟨s3, f3⟩ := hMpost ⟨(runA initA pre).flushed ++
    expectY 0 (runA initA pre).flushed.length y, none, (runA initA pre).stk⟩ 0 [] s1'
  have p3 := masm_misc_pend post hpost ⟨(runA initA pre).flushed ++
    expectY 0 (runA initA pre).flushed.length y, none, (runA initA pre).stk⟩ rfl
  refine ⟨p3, ?_⟩
  have ho : ∀ a : AS, a.pend = none → a.out = a.flushed := by
    intro a ha
    unfold AS.flushed
    rw [ha, List.append_nil]
  rw [ho _ p3, f3, f1]
  show ([(none, YKind.root)] ++ expectAllY 0 1 (treeKids none mpre) ++
      expectY 0 ([(none, YKind.root)] ++ expectAllY 0 1 (treeKids none mpre)).length y) ++
    expectAllY 0 (([(none, YKind.root)] ++ expectAllY 0 1 (treeKids none mpre) ++
      expectY 0 ([(none, YKind.root)] ++ expectAllY 0 1 (treeKids none mpre)).length y)).length
      (treeKids none mpost) =
    (none, YKind.root) :: expectAllY 0 1 (treeKids none mpre ++ treeOf r ++ treeKids none mpost)
  have hd : treeKids none mpre ++ treeOf r ++ treeKids none mpost =
      treeKids none mpre ++ (y :: treeKids none mpost) := by
    rw [hty, List.append_assoc]
    rfl
  rw [hd, masm_expectAllY_append, masm_expectAllY_cons]
  simp only [List.length_append, List.length_cons, masm_length_expectAllY,
    masm_length_expectY, List.append_assoc, List.cons_append, List.nil_append,
    Nat.add_comm, Nat.add_left_comm]

end Rox.Lemmas
