/-
  Rox.Lemmas.RoundTrip5 — parse ∘ renderDoc for whole documents over the full character repertoire
  (`Rox.Spec.Canon5`).
-/
import Rox.Lemmas.RtTok5
import Rox.Lemmas.RtBuild5

namespace Rox.Lemmas
open Rox Rox.Spec.Canon Rox.Spec.Canon4 Rox.Spec.Canon5

/-- **Round trip, whole documents, full repertoire** (every document of the class `docOk5 T`: names
arbitrary NCNames, text / attribute values / comments / PI values arbitrary XML characters minus
markup; every option value that admits it). -/
theorem parse_renderDoc5 (T : Tables) (hT : TablesOK T) (hC : TablesCanon T) (hC4 : TablesCanon4 T)
    (hC5 : TablesCanon5 T) (y : YDoc) (hy : docOk5 T y = true) (opt : Opt)
    (hdtd : y.doctype.isSome = true → opt.allowDtd = true)
    (hlim : countAllY y.items + 1 ≤ opt.nodesLimit) (hl32 : opt.nodesLimit ≤ 4294967295)
    (hattrs : attrCountAllY y.items < 4294967295) :
    ∃ d, parse T (renderDoc y) opt = .ok d ∧
      d.nodes.toList.map (viewY d) =
        some (none, YKind.root) :: (expectAllY 0 1 y.items).map some :=
  parse_of_docToks5 T (renderDoc y) opt y hy
    (tokenize_renderDoc5 T hT hC hC4 hC5 y hy opt.allowDtd hdtd) hlim hl32 hattrs

end Rox.Lemmas
