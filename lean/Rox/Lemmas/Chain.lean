/-
  Rox.Lemmas.Chain — ancestor chains in an arena whose parent links point backwards.
-/
import Rox.Spec.Tree

namespace Rox.Lemmas
open Rox Rox.Spec

/-- Parent links point to smaller ids. -/
def ParentLt (a : Arena) : Prop := ∀ i p, par a i = some p → p < i

/-- `x` is `i` or an ancestor of `i`. -/
def Anc (a : Arena) (x i : Nat) : Prop := isAncOrSelf a x i = true

theorem mem_chain_self (a : Arena) (f i : Nat) : i ∈ chain a f i := by
  cases f with
  | zero => simp [chain]
  | succ f => simp only [chain]; split <;> simp

/-- With backward parent links, `i` parent steps are enough: more fuel changes nothing. -/
theorem chain_fuel (a : Arena) (h : ParentLt a) : ∀ (i f : Nat), i ≤ f → chain a f i = chain a i i := by
  intro i
  induction i using Nat.strongRecOn with
  | _ i ih =>
    intro f hf
    cases hp : par a i with
    | none =>
      cases f with
      | zero =>
        have : i = 0 := by omega
        subst this; rfl
      | succ f =>
        cases i with
        | zero => simp [chain, hp]
        | succ i => simp [chain, hp]
    | some p =>
      have hlt := h i p hp
      cases i with
      | zero => omega
      | succ i =>
        cases f with
        | zero => omega
        | succ f =>
          simp only [chain, hp]
          rw [ih p hlt f (by omega), ih p hlt i (by omega)]

theorem anc_refl (a : Arena) (i : Nat) : Anc a i i := by
  unfold Anc isAncOrSelf
  simp [mem_chain_self]

theorem anc_step (a : Arena) (h : ParentLt a) (x i p : Nat) (hp : par a i = some p) :
    Anc a x i ↔ x = i ∨ Anc a x p := by
  have hlt := h i p hp
  unfold Anc isAncOrSelf
  cases i with
  | zero => omega
  | succ i =>
    simp only [chain, hp, List.contains_cons, Bool.or_eq_true, beq_iff_eq]
    rw [chain_fuel a h p i (by omega)]

theorem anc_root (a : Arena) (x i : Nat) (hp : par a i = none) : Anc a x i ↔ x = i := by
  unfold Anc isAncOrSelf
  cases i with
  | zero => simp [chain]
  | succ i => simp [chain, hp]

theorem anc_le (a : Arena) (h : ParentLt a) : ∀ (i x : Nat), Anc a x i → x ≤ i := by
  intro i
  induction i using Nat.strongRecOn with
  | _ i ih =>
    intro x hx
    cases hp : par a i with
    | none => rw [anc_root a x i hp] at hx; omega
    | some p =>
      rw [anc_step a h x i p hp] at hx
      rcases hx with rfl | hx
      · omega
      · have := ih p (h i p hp) x hx
        have := h i p hp
        omega

theorem anc_trans (a : Arena) (h : ParentLt a) : ∀ (z x y : Nat), Anc a x y → Anc a y z → Anc a x z := by
  intro z
  induction z using Nat.strongRecOn with
  | _ z ih =>
    intro x y hxy hyz
    cases hp : par a z with
    | none =>
      rw [anc_root a y z hp] at hyz
      subst hyz; exact hxy
    | some p =>
      rw [anc_step a h y z p hp] at hyz
      rcases hyz with rfl | hyz
      · exact hxy
      · rw [anc_step a h x z p hp]
        exact Or.inr (ih p (h z p hp) x y hxy hyz)

/-- Pre-order numbering: the parent of `i+1` is on the chain of `i`. -/
def Preorder (a : Arena) : Prop := ∀ i p, par a (i + 1) = some p → i + 1 < a.size → Anc a p i

/-- In a pre-order arena the descendants of a node are a contiguous id interval: every id between
an ancestor and its descendant is a descendant too. -/
theorem anc_between (a : Arena) (h : ParentLt a) (hpre : Preorder a)
    (hall : ∀ i, 0 < i → i < a.size → ∃ p, par a i = some p) :
    ∀ (m x : Nat), m < a.size → Anc a x m → ∀ j, x ≤ j → j ≤ m → Anc a x j := by
  intro m
  induction m with
  | zero =>
    intro x _ hx j hxj hjm
    have : j = 0 := by omega
    subst this; exact hx
  | succ m ih =>
    intro x hm hx j hxj hjm
    by_cases hj : j = m + 1
    · subst hj; exact hx
    · obtain ⟨p, hp⟩ := hall (m + 1) (by omega) hm
      have hxm : x ≠ m + 1 := by omega
      rw [anc_step a h x (m + 1) p hp] at hx
      rcases hx with hx | hx
      · exact absurd hx hxm
      · have hpm : Anc a p m := hpre m p hp hm
        have hxm' : Anc a x m := anc_trans a h m x p hx hpm
        exact ih x (by omega) hxm' j hxj (by omega)

/-- `par`, hence chains of old nodes, only depend on the old part of the arena. -/
theorem chain_congr (a b : Arena) (n : Nat) (hpar : ∀ i, i < n → par b i = par a i)
    (h : ParentLt a) : ∀ (i f : Nat), i < n → chain b f i = chain a f i := by
  intro i
  induction i using Nat.strongRecOn with
  | _ i ih =>
    intro f hi
    cases f with
    | zero => rfl
    | succ f =>
      simp only [chain, hpar i hi]
      cases hp : par a i with
      | none => rfl
      | some p =>
        have := h i p hp
        simp only
        rw [ih p this f (by omega)]

theorem anc_congr (a b : Arena) (n : Nat) (hpar : ∀ i, i < n → par b i = par a i)
    (h : ParentLt a) (x i : Nat) (hi : i < n) : Anc b x i ↔ Anc a x i := by
  unfold Anc isAncOrSelf
  rw [chain_congr a b n hpar h i i hi]

end Rox.Lemmas
