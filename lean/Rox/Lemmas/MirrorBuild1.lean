/-
  Rox.Lemmas.MirrorBuild1 — Stage B' of the proof of `accepted_tree_mirrors`, part 1: how the arena
  is read back (`viewK`), the correspondence `MCore` between a builder context and a state of the
  abstract arena machine (`Rox.Lemmas.MirrorDefs`), and the node-appending primitives:
  `append_node`, `append_text`, `reset_after_text` (which finalises a merged text run).
-/
import Rox.Lemmas.MirrorDefs
import Rox.Lemmas.GrammarBuild
import Rox.Lemmas.RtBuild

namespace Rox.Lemmas.MB
open Rox Rox.Spec Rox.Spec.Grammar Rox.Spec.Canon4 Rox.Spec.Mirror Rox.Lemmas.RtB Rox.Lemmas.GB

/-! ### Reading a node back -/

/-- what `viewM` reads of a node, from its kind and parent -/
def viewK (attrs : List AttrData) (x : Kind × Option Nat) : V :=
  match x.1 with
  | .root => (x.2, .root)
  | .comment s => (x.2, .comment s.bytes)
  | .text s => (x.2, .text s.bytes)
  | .pi t v => (x.2, .pi t.bytes (v.map (·.bytes)))
  | .element _ name at_ _ =>
    (x.2, .elem name.bytes
      (((attrs.drop at_.1).take (at_.2 - at_.1)).map fun a => (a.localName.bytes, a.value.bytes)))

theorem viewM_eq (d : Doc) (n : NodeData) : viewM d n = viewK d.attrs.toList (kp n) := by
  obtain ⟨p, a, b, c, k, r⟩ := n
  cases k <;> rfl

theorem viewK_fst (attrs : List AttrData) (x : Kind × Option Nat) : (viewK attrs x).1 = x.2 := by
  obtain ⟨k, p⟩ := x
  cases k <;> rfl

/-- an element's attribute range lies inside the first `na` attributes -/
def goodK (na : Nat) : Kind → Prop
  | .element _ _ at_ _ => at_.2 ≤ na
  | _ => True

theorem goodK_mono {na na' : Nat} {k : Kind} (h : goodK na k) (hle : na ≤ na') : goodK na' k := by
  cases k <;> simp_all [goodK]
  omega

theorem viewK_stable (l more : List AttrData) (x : Kind × Option Nat) (h : goodK l.length x.1) :
    viewK (l ++ more) x = viewK l x := by
  obtain ⟨k, p⟩ := x
  cases k with
  | element ns name at_ nss =>
    simp only [goodK] at h
    simp only [viewK, take_drop_append l more at_.1 at_.2 h]
  | _ => rfl

theorem viewK_map_stable (l more : List AttrData) (xs : List (Kind × Option Nat))
    (h : ∀ x ∈ xs, goodK l.length x.1) : xs.map (viewK (l ++ more)) = xs.map (viewK l) := by
  apply List.map_congr_left
  intro x hx
  exact viewK_stable l more x (h x hx)

/-- a node whose view is a text node is a text node -/
theorem viewK_text {attrs : List AttrData} {x : Kind × Option Nat} {p : Option Nat} {t : Bytes}
    (h : viewK attrs x = (p, YKind.text t)) : ∃ s, x.1 = .text s ∧ s.bytes = t ∧ x.2 = p := by
  obtain ⟨k, q⟩ := x
  cases k with
  | text s =>
    simp only [viewK, Prod.mk.injEq, YKind.text.injEq] at h
    exact ⟨s, rfl, h.2, h.1⟩
  | root => simp [viewK] at h
  | comment s => simp [viewK] at h
  | pi a b => simp [viewK] at h
  | element a b c d => simp [viewK] at h

/-! ### The stack of open elements, by ids -/

/-- every open element's parent is the next entry of the stack -/
def ChainO (out : List V) : List Nat → Prop
  | [] => True
  | [_] => True
  | i :: j :: rest => (∃ k, out[i]? = some (some j, k)) ∧ ChainO out (j :: rest)

theorem ChainO.mono {out : List V} (more : List V) : ∀ (stk : List Nat), ChainO out stk →
    ChainO (out ++ more) stk
  | [], _ => trivial
  | [_], _ => trivial
  | i :: j :: rest, h => by
    obtain ⟨⟨k, hk⟩, hr⟩ := h
    refine ⟨⟨k, ?_⟩, ChainO.mono more (j :: rest) hr⟩
    have hi : i < out.length := (List.getElem?_eq_some_iff.mp hk).1
    rw [List.getElem?_append_left hi]
    exact hk

theorem ChainO.tail {out : List V} : ∀ (stk : List Nat), ChainO out stk → ChainO out stk.tail
  | [], _ => trivial
  | [_], _ => trivial
  | _ :: _ :: _, h => h.2

/-! ### The correspondence -/

/-- the text run in progress: nothing pending, or one text node at the end of the arena holding
the first fragment, the fragments so far in `afterText` -/
def PendOk (a : AS) (c : Ctx) : Prop :=
  match a.pend with
  | none => c.afterText = [] ∧ (kps c).map (viewK c.doc.attrs.toList) = a.out
  | some t => ∃ s0 rest, c.afterText = s0 :: rest ∧
      (kps c).map (viewK c.doc.attrs.toList) = a.out ++ [(some a.top, YKind.text s0.bytes)] ∧
      ((s0 :: rest).map (·.bytes)).flatten = t

/-- the builder context `c` is in the abstract state `a` -/
structure MCore (a : AS) (c : Ctx) : Prop where
  ld : c.ld.depth = 0
  pid : c.parentId = a.top
  chain : ChainO a.out a.stk
  good : ∀ x ∈ kps c, goodK c.doc.attrs.size x.1
  pend : PendOk a c

theorem PendOk.none {out : List V} {stk : List Nat} {c : Ctx}
    (h : PendOk ⟨out, none, stk⟩ c) :
    c.afterText = [] ∧ (kps c).map (viewK c.doc.attrs.toList) = out := h

theorem MCore.size {out : List V} {stk : List Nat} {c : Ctx} (h : MCore ⟨out, none, stk⟩ c) :
    c.doc.nodes.size = out.length := by
  have := congrArg List.length h.pend.none.2
  simpa [kps_length] using this

/-- only ghost state and fields the correspondence does not read differ -/
theorem MCore.congr {a : AS} {c c' : Ctx} (h : MCore a c) (hd : c'.doc = c.doc)
    (hl : c'.ld = c.ld) (hp : c'.parentId = c.parentId) (ha : c'.afterText = c.afterText) :
    MCore a c' := by
  have hk : kps c' = kps c := by unfold kps; rw [hd]
  refine ⟨by rw [hl]; exact h.ld, by rw [hp]; exact h.pid, h.chain, ?_, ?_⟩
  · rw [hk, hd]; exact h.good
  · have hp := h.pend
    unfold PendOk at hp ⊢
    rw [hk, hd, ha]
    exact hp

/-! ### `append_node` -/

theorem kps_set_same (a : Array NodeData) (i : Nat) (m m' : NodeData) (hm : a[i]? = some m)
    (h : kp m' = kp m) : (a.setIfInBounds i m').toList.map kp = a.toList.map kp := by
  apply List.ext_getElem?
  intro j
  simp only [List.getElem?_map, Array.getElem?_toList, Array.getElem?_setIfInBounds]
  by_cases hij : i = j
  · subst hij
    obtain ⟨hi, hmi⟩ := Array.getElem?_eq_some_iff.mp hm
    simp [hi, h, hmi]
  · simp [hij]

/-- `append_node`, read backward: one more node; everything else the correspondence reads is
untouched -/
theorem appendNode_kps {c c' : Ctx} {k : Kind} {r : Range} {id : Nat} (hb : BInv c)
    (h : c.appendNode k r = .ok (c', id)) :
    kps c' = kps c ++ [(k, some c.parentId)] ∧ id = c.doc.nodes.size ∧
      c'.doc.attrs = c.doc.attrs ∧ c'.afterText = c.afterText ∧ c'.parentId = c.parentId ∧
      c'.ld = c.ld ∧ c'.curAttrs = c.curAttrs ∧ c'.tagName = c.tagName := by
  obtain ⟨hid, hsz, hold, ⟨p, hp, hnew⟩, _, hpid, haft, _, hattrs, _⟩ :=
    appendNode_spec c c' k r id hb.pid_lt hb.awaiting_lt h
  obtain ⟨nodes, aw, af, tr, e⟩ := gb_appendNode_sh h
  refine ⟨?_, hid, hattrs, haft, hpid, by rw [e], by rw [e], by rw [e]⟩
  apply List.ext_getElem?
  intro i
  unfold kps
  by_cases hi : i < c.doc.nodes.size
  · rw [List.getElem?_append_left (by simpa using hi)]
    simp only [List.getElem?_map, Array.getElem?_toList]
    rw [hold i hi]
    cases c.doc.nodes[i]? <;> simp [kp]
  · by_cases hi' : i = c.doc.nodes.size
    · subst hi'
      rw [List.getElem?_append_right (by simp)]
      simp only [List.getElem?_map, Array.getElem?_toList, hnew]
      simp [kp]
    · have h1 : c'.doc.nodes[i]? = none := by
        apply Array.getElem?_eq_none; omega
      rw [List.getElem?_append_right (by simp; omega)]
      simp only [List.getElem?_map, Array.getElem?_toList, h1]
      have : i - c.doc.nodes.size ≥ 1 := by omega
      simp
      omega

/-- a node that is not an element is appended below the current parent -/
theorem mcore_appendLeaf {out : List V} {stk : List Nat} {c c' : Ctx} {k : Kind} {r : Range}
    {id : Nat} (hm : MCore ⟨out, none, stk⟩ c) (hb : BInv c) (hk : k.isElement = false)
    (h : c.appendNode k r = .ok (c', id)) :
    MCore ⟨out ++ [(some (AS.top ⟨out, none, stk⟩), (viewK [] (k, none)).2)], none, stk⟩ c' := by
  obtain ⟨hkps, _, hattrs, haft, hpid, hld, _, _⟩ := appendNode_kps hb h
  obtain ⟨ha, hv⟩ := hm.pend.none
  have hgk : ∀ na, goodK na k := by
    intro na
    cases k <;> first | trivial | (simp [Kind.isElement] at hk)
  refine ⟨by rw [hld]; exact hm.ld, by rw [hpid]; exact hm.pid, ChainO.mono _ _ hm.chain, ?_, ?_⟩
  · intro x hx
    rw [hkps, List.mem_append, List.mem_singleton] at hx
    rw [hattrs]
    rcases hx with hx | rfl
    · exact hm.good x hx
    · exact hgk _
  · show c'.afterText = [] ∧ (kps c').map (viewK c'.doc.attrs.toList) = _
    refine ⟨by rw [haft]; exact ha, ?_⟩
    rw [hkps, hattrs, List.map_append, hv, hm.pid]
    congr 1
    cases k <;> first | rfl | (simp [Kind.isElement] at hk)

/-! ### `append_text` -/

theorem mcore_appendText {a : AS} {c c' : Ctx} {s : Str} {r : Range} (hm : MCore a c) (hb : BInv c)
    (h : c.appendText s r = .ok c') :
    MCore ⟨a.out, some (a.pend.getD [] ++ s.bytes), a.stk⟩ c' := by
  unfold Ctx.appendText at h
  dsimp only at h
  have hm0 : MCore a (c.log (.textFragment s r)) := hm.congr rfl rfl rfl rfl
  have hb0 : BInv (c.log (.textFragment s r)) := hb.congr rfl rfl rfl
  generalize c.log (.textFragment s r) = cL at h hm0 hb0
  split at h
  · rename_i hemp
    rw [Res.bind_eq_ok] at h
    obtain ⟨⟨c2, id⟩, h2, h1⟩ := h
    res_norm at h1
    subst h1
    have haft : cL.afterText = [] := by simpa using hemp
    obtain ⟨hkps, _, hattrs, haft2, hpid, hld, _, _⟩ := appendNode_kps hb0 h2
    have hpn : a.pend = none := by
      have hp := hm0.pend
      unfold PendOk at hp
      cases hq : a.pend with
      | none => rfl
      | some t =>
        rw [hq] at hp
        obtain ⟨s0, rest, e, _⟩ := hp
        rw [haft] at e
        cases e
    have hp := hm0.pend
    unfold PendOk at hp
    rw [hpn] at hp
    refine ⟨by show c2.ld.depth = 0; rw [hld]; exact hm0.ld,
      by show c2.parentId = _; rw [hpid]; exact hm0.pid, hm0.chain, ?_, ?_⟩
    · intro x hx
      have : kps ({ c2 with afterText := c2.afterText ++ [s] } : Ctx) = kps c2 := rfl
      rw [this, hkps, List.mem_append, List.mem_singleton] at hx
      show goodK c2.doc.attrs.size x.1
      rw [hattrs]
      rcases hx with hx | rfl
      · exact hm0.good x hx
      · trivial
    · show ∃ s0 rest, c2.afterText ++ [s] = s0 :: rest ∧
        (kps c2).map (viewK c2.doc.attrs.toList) = a.out ++ [(some a.top, YKind.text s0.bytes)] ∧
        ((s0 :: rest).map (·.bytes)).flatten = a.pend.getD [] ++ s.bytes
      refine ⟨s, [], by rw [haft2, haft]; rfl, ?_, by rw [hpn]; simp⟩
      rw [hkps, hattrs, List.map_append, hp.2, hm0.pid]
      rfl
  · rename_i hemp
    res_norm at h
    subst h
    have hp := hm0.pend
    unfold PendOk at hp
    cases hq : a.pend with
    | none =>
      rw [hq] at hp
      rw [hp.1] at hemp
      simp at hemp
    | some t =>
      rw [hq] at hp
      obtain ⟨s0, rest, e, hv, hf⟩ := hp
      refine ⟨hm0.ld, hm0.pid, hm0.chain, hm0.good, ?_⟩
      show ∃ s0' rest', cL.afterText ++ [s] = s0' :: rest' ∧
        (kps cL).map (viewK cL.doc.attrs.toList) = a.out ++ [(some a.top, YKind.text s0'.bytes)] ∧
        ((s0' :: rest').map (·.bytes)).flatten = (some t).getD [] ++ s.bytes
      refine ⟨s0, rest ++ [s], by rw [e]; rfl, hv, ?_⟩
      rw [← hf]
      simp

/-! ### `reset_after_text` -/

theorem mcore_mergeText {a : AS} {c c' : Ctx} (hm : MCore a c) (h : c.mergeText = .ok c')
    (hne : c.afterText ≠ []) : MCore ⟨a.flushed, none, a.stk⟩ { c' with afterText := [] } := by
  have hp := hm.pend
  unfold PendOk at hp
  cases hq : a.pend with
  | none => rw [hq] at hp; exact absurd hp.1 hne
  | some t =>
    rw [hq] at hp
    obtain ⟨s0, rest, e, hv, hf⟩ := hp
    unfold Ctx.mergeText at h
    dsimp only at h
    split at h
    · simp at h
    · split at h
      · simp at h
      · rename_i n hn
        split at h
        · rename_i sx hkx
          simp only [Res.ok.injEq] at h
          subst h
          have hlen : (kps c).length = a.out.length + 1 := by
            have := congrArg List.length hv
            simpa using this
          have hsz : c.doc.nodes.size = a.out.length + 1 := by rw [← kps_length]; exact hlen
          have hidx : c.doc.nodes.size - 1 = a.out.length := by omega
          -- the last node
          have hlast : (kps c)[a.out.length]? = some (kp n) := by
            rw [kps_getElem?, ← hidx, hn]; rfl
          have hvl : viewK c.doc.attrs.toList (kp n) = (some a.top, YKind.text s0.bytes) := by
            have := congrArg (fun l => l[a.out.length]?) hv
            simp only [List.getElem?_map, hlast, Option.map_some] at this
            rw [List.getElem?_append_right (Nat.le_refl _)] at this
            simpa using this
          have hpar : n.parent = some a.top := by
            have := viewK_fst c.doc.attrs.toList (kp n)
            rw [hvl] at this
            exact this.symm
          -- the arena after the merge
          have hkps' : kps (c.setNode (c.doc.nodes.size - 1)
              { n with kind := .text (.owned (c.afterText.map (·.bytes)).flatten) }) =
              (kps c).set a.out.length
                (Kind.text (.owned (c.afterText.map (·.bytes)).flatten), some a.top) := by
            unfold kps Ctx.setNode
            simp only [Array.toList_setIfInBounds, List.map_set, hidx]
            simp [kp, hpar]
          refine ⟨hm.ld, hm.pid, ?_, ?_, ?_⟩
          · show ChainO (AS.flushed a) a.stk
            unfold AS.flushed
            exact ChainO.mono _ _ hm.chain
          · intro x hx
            have hx' : x ∈ kps (c.setNode (c.doc.nodes.size - 1)
                { n with kind := .text (.owned (c.afterText.map (·.bytes)).flatten) }) := hx
            rw [hkps'] at hx'
            show goodK c.doc.attrs.size x.1
            rcases List.mem_or_eq_of_mem_set hx' with hx' | rfl
            · exact hm.good x hx'
            · trivial
          · show ([] : List Str) = [] ∧ (kps (c.setNode (c.doc.nodes.size - 1)
                { n with kind := .text (.owned (c.afterText.map (·.bytes)).flatten) })).map
                  (viewK c.doc.attrs.toList) = AS.flushed a
            refine ⟨rfl, ?_⟩
            rw [hkps', List.map_set, hv]
            unfold AS.flushed
            rw [hq]
            simp only
            rw [List.set_append_right _ _ (Nat.le_refl _)]
            simp only [Nat.sub_self, List.set_cons_zero]
            rw [e, hf]
            rfl
        · simp at h

/-- `reset_after_text`: the text run in progress, if any, becomes one finished text node -/
theorem mcore_reset {a : AS} {c c1 : Ctx} (hm : MCore a c) (h : c.resetAfterText = .ok c1) :
    MCore ⟨a.flushed, none, a.stk⟩ c1 ∧ c1.curAttrs = c.curAttrs ∧ c1.doc.attrs = c.doc.attrs := by
  unfold Ctx.resetAfterText at h
  dsimp only at h
  split at h
  · rename_i hemp
    simp only [Res.ok.injEq] at h
    subst h
    have haft : c.afterText = [] := by simpa using hemp
    have hp := hm.pend
    unfold PendOk at hp
    cases hq : a.pend with
    | some t =>
      rw [hq] at hp
      obtain ⟨s0, rest, e, _⟩ := hp
      rw [haft] at e
      cases e
    | none =>
      rw [hq] at hp
      refine ⟨⟨hm.ld, hm.pid, ?_, hm.good, ?_⟩, rfl, rfl⟩
      · show ChainO (AS.flushed a) a.stk
        unfold AS.flushed
        exact ChainO.mono _ _ hm.chain
      · show c.afterText = [] ∧ (kps c).map (viewK c.doc.attrs.toList) = AS.flushed a
        unfold AS.flushed
        rw [hq]
        simpa using hp
  · rename_i hemp
    have hne : c.afterText ≠ [] := by simpa using hemp
    split at h
    · rw [Res.bind_eq_ok] at h
      obtain ⟨c2, h2, h⟩ := h
      res_norm at h
      subst h
      have := mcore_mergeText hm h2 hne
      obtain ⟨nodes, aw, af, tr, e⟩ := gb_mergeText_sh h2
      exact ⟨this, by rw [e], by rw [e]⟩
    · rename_i hlen
      res_norm at h
      subst h
      have hp := hm.pend
      unfold PendOk at hp
      cases hq : a.pend with
      | none => rw [hq] at hp; exact absurd hp.1 hne
      | some t =>
        rw [hq] at hp
        obtain ⟨s0, rest, e, hv, hf⟩ := hp
        have hrest : rest = [] := by
          cases rest with
          | nil => rfl
          | cons x xs => rw [e] at hlen; simp at hlen
        subst hrest
        refine ⟨⟨hm.ld, hm.pid, ?_, hm.good, ?_⟩, rfl, rfl⟩
        · show ChainO (AS.flushed a) a.stk
          unfold AS.flushed
          exact ChainO.mono _ _ hm.chain
        · show ([] : List Str) = [] ∧ (kps c).map (viewK c.doc.attrs.toList) = AS.flushed a
          refine ⟨rfl, ?_⟩
          unfold AS.flushed
          rw [hq, hv]
          simp only
          rw [← hf]
          simp

/-- `reset_after_text` after logging the token -/
theorem mcore_logreset {a : AS} {c c1 : Ctx} {e : Ev} (hm : MCore a c)
    (h : (c.log e).resetAfterText = .ok c1) :
    MCore ⟨a.flushed, none, a.stk⟩ c1 ∧ c1.curAttrs = c.curAttrs ∧ c1.doc.attrs = c.doc.attrs :=
  mcore_reset (c := c.log e) (hm.congr rfl rfl rfl rfl) h

end Rox.Lemmas.MB
