/-
  Rox.Lemmas.MirrorBuild4 — Stage B' of the proof of `accepted_tree_mirrors`, part 4: item by item,
  the builder follows the abstract arena machine (`Rox.Lemmas.MirrorDefs`); hence the arena `parse`
  returns, read back with `viewM`, is the machine's output for the items of the input.
-/
import Rox.Lemmas.MirrorBuild2
import Rox.Lemmas.MirrorBuild3
import Rox.Lemmas.MirrorDecode

namespace Rox.Lemmas.MB
open Rox Rox.Spec Rox.Spec.Grammar Rox.Spec.Canon4 Rox.Spec.Mirror Rox.Lemmas.RtB Rox.Lemmas.GB

/-- the invariant between two items: the grammar-soundness invariant, the correspondence with the
abstract machine, and the two stacks have the same height -/
structure MInv (stk : List QP) (a : AS) (c : Ctx) : Prop where
  g : GInv stk c
  m : MCore a c
  len : a.stk.length = stk.length + 1

section
variable (T : Tables) (txt : Bytes) (lower : Token → Ctx → Res Ctx)
  (hB : ∀ t c c', BInv c → tokenStep T txt lower t c = .ok c' → BInv c')
  (hP : TextDec T txt lower) (hN : NormOk T txt)
include hB hP hN

/-- one item -/
theorem mb_item (it : Item) (ts : List Token) (hit : ItemToks it ts) (hpt : PiTok it ts)
    (hlex : it.Lex T) (htok : ∀ t ∈ ts, TokOk txt t) (stk : List QP) (a : AS) (c c' : Ctx)
    (hi : MInv stk a c) (h : feed (tokenStep T txt lower) ts c = .ok c') :
    ∃ stk', stepStk stk it = some stk' ∧ MInv stk' (stepA a it) c' := by
  obtain ⟨stk', hs, hg', _, _⟩ := gb_item T txt lower hB it ts hit hlex htok stk c c' hi.g h
  refine ⟨stk', hs, ?_⟩
  cases hit with
  | sp s =>
    simp only [feed, Res.ok.injEq] at h
    subst h
    simp only [stepStk, Option.some.injEq] at hs
    subst hs
    exact ⟨hg', hi.m, hi.len⟩
  | comment b sp r hb =>
    have h1 := gb_feed_one _ _ _ h
    simp only [stepStk, Option.some.injEq] at hs
    subst hs
    have := mb_tok_comment T txt lower hi.g hi.m h1
    rw [hb] at this
    exact ⟨hg', this, hi.len⟩
  | pi t s v tsp vo r hb =>
    have h1 := gb_feed_one _ _ _ h
    simp only [stepStk, Option.some.injEq] at hs
    subst hs
    obtain ⟨tsp', vo', r', e, hvo⟩ := hpt
    simp only [List.cons.injEq, Token.pi.injEq, and_true] at e
    obtain ⟨_, e2, _⟩ := e
    subst e2
    have := mb_tok_pi T txt lower hi.g hi.m h1
    rw [hb, hvo] at this
    exact ⟨hg', this, hi.len⟩
  | cdata b sp r hb =>
    have h1 := gb_feed_one _ _ _ h
    simp only [stepStk, Option.some.injEq] at hs
    subst hs
    have := mb_tok_cdata T txt lower hi.g hi.m h1
    rw [hb] at this
    exact ⟨hg', this, hi.len⟩
  | text t sp r hb =>
    have h1 := gb_feed_one _ _ _ h
    simp only [stepStk, Option.some.injEq] at hs
    subst hs
    obtain ⟨hne, _, hlt, _⟩ := hlex
    have := mb_tok_text T txt lower hP hi.g hi.m (htok _ (List.mem_singleton.mpr rfl))
      (by rw [hb]; exact hne) (by rw [hb]; exact hlt) h1
    rw [hb] at this
    exact ⟨hg', this, hi.len⟩
  | etag q s2 p l r hq =>
    have h1 := gb_feed_one _ _ _ h
    cases stk with
    | nil => simp [stepStk] at hs
    | cons top rest =>
      simp only [stepStk] at hs
      split at hs
      · simp only [Option.some.injEq] at hs
        subst hs
        have hlen := hi.len
        simp only [List.length_cons] at hlen
        have := mb_tok_close T txt lower hi.g hi.m (by omega) h1
        refine ⟨hg', this, ?_⟩
        show a.stk.tail.length = _
        rw [List.length_tail]
        omega
      · simp at hs
  | stag q attrs s1 e p l st ats r hq hat =>
    obtain ⟨c1, h1, h⟩ := gb_feed_cons_ok _ _ _ _ h
    obtain ⟨c2, h2, h⟩ := gb_feed_append_ok _ _ _ _ h
    have h3 := gb_feed_one _ _ _ h
    have hb1 := hB _ _ _ hi.g.binv h1
    have hi1 := gb_tok_start T txt lower hi.g hb1 h1
    have hm1 := mb_tok_start T txt lower hi.g hi.m h1
    obtain ⟨_, _, hla⟩ := hlex
    have hlt : ∀ x ∈ attrs, bLt ∉ x.v := fun x hx => (hla x hx).2.2.2.2.2.2.1
    obtain ⟨hi2, _⟩ := gb_attrs T txt lower hB attrs ats hat hlt [] c1 c2 hi1 h2
    have hm2 := mb_attrs T txt lower hN hB attrs ats hat hlt [] [] c1 c2 hi1 hm1 h2
    rw [List.nil_append] at hi2 hm2
    have hname : (qparts q).2 = l.bytes := by rw [hq]
    cases e with
    | false =>
      simp only [stepStk, Option.some.injEq] at hs
      subst hs
      have := mb_tok_open T txt lower hi2 hm2 h3
      refine ⟨hg', ?_, ?_⟩
      · show MCore ⟨a.flushed ++ [(some a.top, .elem (qparts q).2 (attrsOfC attrs))], none,
          a.flushed.length :: a.stk⟩ c'
        rw [hname]
        exact this
      · show (a.flushed.length :: a.stk).length = (qparts q :: stk).length + 1
        simp only [List.length_cons]
        have := hi.len
        omega
    | true =>
      simp only [stepStk, Option.some.injEq] at hs
      subst hs
      have := mb_tok_empty T txt lower hi2 hm2 h3
      refine ⟨hg', ?_, hi.len⟩
      show MCore ⟨a.flushed ++ [(some a.top, .elem (qparts q).2 (attrsOfC attrs))], none, a.stk⟩ c'
      rw [hname]
      exact this

/-- all items -/
theorem mb_items : ∀ (its : List Item) (toks : List Token), ItemsToksM its toks →
    (∀ it ∈ its, it.Lex T) → (∀ t ∈ toks, TokOk txt t) → ∀ (stk : List QP) (a : AS) (c c' : Ctx),
      MInv stk a c → feed (tokenStep T txt lower) toks c = .ok c' →
      ∃ stk', runStk stk its = some stk' ∧ MInv stk' (runA a its) c' := by
  intro its toks hit
  induction hit with
  | nil =>
    intro _ _ stk a c c' hi h
    simp only [feed, Res.ok.injEq] at h
    subst h
    exact ⟨stk, rfl, hi⟩
  | cons it its ts tss h1 hp _ ih =>
    intro hlex htok stk a c c' hi h
    obtain ⟨c1, hf1, hf2⟩ := gb_feed_append_ok _ _ _ _ h
    obtain ⟨stk1, hs1, hi1⟩ := mb_item T txt lower hB hP hN it ts h1 hp (hlex it (by simp))
      (fun t ht => htok t (by simp [ht])) stk a c c1 hi hf1
    obtain ⟨stk2, hs2, hi2⟩ := ih (fun x hx => hlex x (by simp [hx]))
      (fun t ht => htok t (by simp [ht])) stk1 (stepA a it) c1 c' hi1 hf2
    refine ⟨stk2, ?_, hi2⟩
    simp only [runStk, hs1]
    exact hs2

end

theorem mb_init (txt : Bytes) (opt : Opt) (c0 : Ctx) (h0 : initCtx txt opt = .ok c0) :
    MInv [] initA c0 := by
  obtain ⟨hg0, _⟩ := gb_init txt opt c0 h0
  refine ⟨hg0, ?_, rfl⟩
  unfold initCtx at h0
  rw [Res.bind_eq_ok] at h0
  obtain ⟨ns, hns, h0⟩ := h0
  res_norm at h0
  subst h0
  refine ⟨rfl, rfl, trivial, ?_, ?_⟩
  · intro x hx
    simp only [kps, List.map_cons, List.map_nil, List.mem_singleton] at hx
    subst hx
    trivial
  · show ([] : List Str) = [] ∧ _
    exact ⟨rfl, rfl⟩

end Rox.Lemmas.MB

namespace Rox.Lemmas
open Rox Rox.Spec Rox.Spec.Grammar Rox.Spec.Canon4 Rox.Spec.Mirror Rox.Lemmas.RtB Rox.Lemmas.GB

/-- **Stage B'**: the arena `parse` returns, read back node by node, is the output of the abstract
arena machine run over the items of the input (once no text run is pending, which Stage C' shows
for the item lists of accepted inputs). -/
theorem parseCtx_itemsM (T : Tables) (hT : TablesOK T) (txt : Bytes) (hv : ValidUtf8 txt) (opt : Opt)
    (hdtd : opt.allowDtd = false) (c : Ctx) (h : parseCtx T txt depthFuel opt = .ok c)
    (its : List Item) (hit : ItemsToksM its (tokenize T txt false).1) (hlex : ∀ it ∈ its, it.Lex T)
    (hpend : (runA initA its).pend = none) :
    c.doc.nodes.toList.map (viewM c.doc) = (runA initA its).out := by
  unfold parseCtx at h
  rw [Res.bind_eq_ok] at h
  obtain ⟨c0, h0, h⟩ := h
  try dsimp only at h
  rw [Res.bind_eq_ok] at h
  obtain ⟨c1, h1, h⟩ := h
  rw [hdtd] at h1
  have hi0 := MB.mb_init txt opt c0 h0
  obtain ⟨_, hfeed⟩ := runTokens_feed _ _ _ _ _ h1
  have htoks := (parseDocument_spec T hT txt hv false).toks
  have hstep : token T txt depthFuel = tokenStep T txt (token T txt 11) := rfl
  rw [hstep] at hfeed
  have hP : MB.TextDec T txt (token T txt 11) := fun c c' t r a1 a2 a3 a4 a5 a6 a7 =>
    processText_mirror T txt _ c c' t r a1 a2 a3 a4 a5 a6 a7
  have hN : MB.NormOk T txt := fun c c' v s a1 a2 a3 a4 =>
    normalizeAttribute_mirror T txt c c' v s a1 a2 a3 a4
  obtain ⟨stk', _, hi1⟩ := MB.mb_items T txt (token T txt 11)
    (binv_tokenStep T txt _ (binv_token T txt 11)) hP hN its _ hit hlex htoks [] initA c0 c1 hi0 hfeed
  unfold finish at h
  rw [Res.bind_eq_ok] at h
  obtain ⟨has, _, h⟩ := h
  split at h
  · simp at h
  · split at h
    · simp at h
    · res_norm at h
      subst h
      have hp := hi1.m.pend
      unfold MB.PendOk at hp
      rw [hpend] at hp
      show c1.doc.nodes.toList.map (viewM { c1.doc with ns := _ }) = _
      rw [← hp.2]
      unfold kps
      rw [List.map_map]
      apply List.map_congr_left
      intro n _
      exact MB.viewM_eq _ n

end Rox.Lemmas
