/-
  Rox.Lemmas.CompleteStag4 — `ElementStart`, the run of `Attribute` tokens of a start tag, and what
  the invariant `SInv` gives at the end of the tag.
-/
import Rox.Lemmas.CompleteStag3

set_option linter.unusedSimpArgs false

namespace Rox.Lemmas.CB
open Rox Rox.Spec Rox.Spec.Grammar Rox.Spec.Mirror Rox.Spec.MirrorNs Rox.Spec.Complete Rox.Props.C06
  Rox.Lemmas.GB

theorem TExt_trans {a b c : Doc} (h1 : MN.TExt a b) (h2 : MN.TExt b c) : MN.TExt a c := by
  obtain ⟨v1, ⟨m1, t1⟩, ⟨n1, a1⟩⟩ := h1
  obtain ⟨v2, ⟨m2, t2⟩, ⟨n2, a2⟩⟩ := h2
  refine ⟨?_, ⟨m1 ++ m2, by rw [t2, t1, List.append_assoc]⟩, ⟨n1 ++ n2, by rw [a2, a1, List.append_assoc]⟩⟩
  intro k hk
  have hb := v1 k hk
  have hkb : k < b.ns.values.size := by
    rw [Array.getElem?_eq_getElem hk] at hb
    exact (Array.getElem?_eq_some_iff.mp hb).1
  rw [v2 k hkb, hb]

/-- the entries pushed since `ElementStart` -/
theorem sinv_own {c0 c : Ctx} {seen : List (Bytes × Bytes)} (hs : SInv c0 seen c)
    (h0 : c0.nsStartIdx = c0.doc.ns.treeOrder.size) :
    scopeList c.doc (c.doc.ns.treeOrder.toList.drop c.nsStartIdx) = declsOf seen := by
  obtain ⟨own, ht, ho⟩ := hs.tree
  have hdrop : c.doc.ns.treeOrder.toList.drop c.nsStartIdx = own := by
    rw [ht, hs.nsi, h0]
    have : c0.doc.ns.treeOrder.size = c0.doc.ns.treeOrder.toList.length := by simp
    rw [this, List.drop_left]
  rw [hdrop, ho]

theorem sinv_text {c0 c : Ctx} {seen : List (Bytes × Bytes)} (hs : SInv c0 seen c) :
    MN.TExt c0.doc c.doc := by
  obtain ⟨own, ht, _⟩ := hs.tree
  exact ⟨hs.vals, ⟨own, ht⟩, ⟨[], by rw [hs.attrs]; simp⟩⟩

theorem sinv_curlen {c0 c : Ctx} {seen : List (Bytes × Bytes)} (hs : SInv c0 seen c) :
    c.curAttrs.length = (seen.filter fun a => !isNsDecl a.1).length := by
  have := congrArg List.length hs.cur
  simpa using this

section
variable (T : Tables) (hT : TablesOK T) (hX : TablesComplete T) (txt : Bytes)

/-- `ElementStart` -/
theorem cb_start_step (lower : Token → Ctx → Res Ctx) {stk : List QP} (c : Ctx) (hg : GInv stk c)
    (ha : AInv txt c) (hld : c.ld.depth = 0) (p l : Span) (stp : Nat)
    (hp : (p.bytes != Lit.xmlns) = true) :
    ∃ c0, tokenStep T txt lower (.elementStart p l stp) c = .ok c0 ∧ SInv c0 [] c0 ∧
      c0.nsStartIdx = c0.doc.ns.treeOrder.size ∧
      c0.tagName = ⟨p.bytes, l.bytes, l, stp, stp + 1⟩ ∧
      c0.doc.ns = c.doc.ns ∧ c0.doc.attrs = c.doc.attrs ∧ SKeep c.doc.nodes c0.doc.nodes ∧
      c0.doc.nodes.size = c.doc.nodes.size ∧ c0.nodesLimit = c.nodesLimit ∧
      c0.parentId = c.parentId := by
  unfold tokenStep
  dsimp only
  obtain ⟨c1, h1, hsh, haf, hkeep, hsz⟩ :=
    resetAfterText_fwd (c.log (.token (.elementStart p l stp))) (ha.log _)
  obtain ⟨nodes, aw, af, tr, rfl⟩ := hsh
  dsimp only at haf hkeep hsz
  have hp' : (p.bytes == Lit.xmlns) = false := by simpa using hp
  rw [h1]
  simp only [Res.bind_ok, hp', Bool.false_eq_true, if_false, Res.pure_eq]
  refine ⟨_, rfl, ?_, hg.nsi, rfl, rfl, rfl, hkeep, hsz, rfl, rfl⟩
  refine ⟨rfl, rfl, rfl, rfl, rfl, haf, rfl, hg.ents, hld, ⟨[], by simp, rfl⟩, fun _ _ => rfl,
    by simp [declsOf], ?_, ?_⟩
  · intro hx
    have : c.xmlDeclared = true := hx
    rw [hg.xd] at this
    cases this
  · show (c.curAttrs.map _) = _
    rw [hg.cur]
    rfl

include hT hX in
/-- the `Attribute` tokens of a start tag -/
theorem cb_attrs_feed {c0 : Ctx} (h0 : c0.nsStartIdx = c0.doc.ns.treeOrder.size) :
    ∀ (attrs : List AttrC) (ats : List Token), AttrToks attrs ats →
      ∀ (seen : List (Bytes × Bytes)) (c : Ctx), SInv c0 seen c → BInv c → AInv txt c →
        TagInv true c → (∀ t ∈ ats, TokOk txt t) → (∀ a ∈ attrs, RefText T a.v) →
        (attrsAbs attrs).all declOk = true →
        (declaredPrefixes (seen ++ attrsAbs attrs)).Nodup →
        c0.doc.ns.values.size + (declsOf (seen ++ attrsAbs attrs)).length ≤ 65535 →
        ∃ c', feed (tokenStep T txt (token T txt 11)) ats c = .ok c' ∧
          SInv c0 (seen ++ attrsAbs attrs) c' ∧ BInv c' ∧ AInv txt c' ∧ TagInv true c' := by
  intro attrs ats hat
  induction hat with
  | nil =>
    intro seen c hs hb ha ht _ _ _ _ _
    refine ⟨c, rfl, ?_, hb, ha, ht⟩
    simpa [attrsAbs] using hs
  | cons a t as ts hta _ ih =>
    intro seen c hs hb ha htg htok hrt hdecl hnd hV
    cases t with
    | «attribute» r q e pfx loc v =>
      obtain ⟨hq, hv⟩ := hta
      have htk : TokOk txt (.attribute r q e pfx loc v) := htok _ (by simp)
      obtain ⟨_, _, _, hvu, hnlt⟩ := htk
      have hsplit : seen ++ attrsAbs (a :: as) = (seen ++ [(a.n, a.v)]) ++ attrsAbs as := by
        simp [attrsAbs]
      rw [hsplit] at hnd hV ⊢
      have hdecl' : declOk (a.n, a.v) = true ∧ (attrsAbs as).all declOk = true := by
        simpa [attrsAbs] using hdecl
      obtain ⟨c1, hstep, hs1⟩ := cb_attr_step T hT hX txt (token T txt 11) hs ha.nsOk.ns h0
        (a.n, a.v) r q e pfx loc v hq hv hvu (fun h => hnlt _ h rfl) (hrt a (by simp)) hdecl'.1
        (by
          rw [declaredPrefixes_append] at hnd
          exact (List.nodup_append.mp hnd).1)
        (by
          rw [declsOf_append, List.length_append] at hV
          omega)
      have hsafe : TokSafe txt (tokenStep T txt (token T txt 11)) 0 := token_safe T hT txt 12
      obtain ⟨hb1, ha1, htg1, _⟩ := (hsafe true true _ c rfl (htok _ (by simp)) hb ha htg
        (Nat.zero_le _)).post c1 hstep
      obtain ⟨c', hfeed, hs', hb', ha', htg'⟩ := ih (seen ++ [(a.n, a.v)]) c1 hs1 hb1 ha1 htg1
        (fun t ht => htok t (by simp [ht])) (fun x hx => hrt x (by simp [hx])) hdecl'.2 hnd hV
      exact ⟨c', by rw [RtB.feed_cons_ok hstep]; exact hfeed, hs', hb', ha', htg'⟩
    | _ => exact absurd hta (by simp [AttrTok])

end

end Rox.Lemmas.CB
