/-
  Rox.Lemmas.GrammarDefs — the interface between the stages of the grammar-soundness proof
  (`Rox.Lemmas.GrammarSound`): the flat list of lexical items into which the tokenizer cuts an
  accepted input, what the tokenizer checked of each item (`Item.Lex`), what the builder checked
  (`Item.Sem`, the stack of open elements `runStk`), and how items and tokens correspond.

    Stage A (GrammarPrim, GrammarTok):  `tokenize` succeeds  →  items with `Lex`, `ItemsToks`
    Stage B (GrammarBuild):             the builder accepts the tokens  →  `Sem`, `runStk … = some []`
    Stage C (GrammarAsm):               items with `Lex`, `Sem`, balanced  →  `WellFormed`
-/
import Rox.Spec.Grammar
import Rox.Lemmas.TokSpec

namespace Rox.Lemmas
open Rox Rox.Spec.Grammar

/-- What the grammar-soundness proof needs from the tables beyond `TablesOK`: on ASCII the byte
classes used by the fast paths of the tokenizer are contained in the character classes (true of the
tables of the build: `Rox.Lemmas.GrammarTables`). -/
structure TablesGrammar (T : Tables) : Prop where
  name_ascii : ∀ b : UInt8, b < 128 → byteIsName T b = true → charIsName T b.toNat = true
  nameStart_ascii : ∀ b : UInt8, b < 128 → byteIsNameStart T b = true → charIsNameStart T b.toNat = true
  xmlChar_ascii : ∀ b : UInt8, b < 128 → byteIsXmlChar T b = true → charIsXmlChar T b.toNat = true

/-! ### Items -/

/-- one attribute of a start tag as written: `s1 n s2 = s3 q v q` -/
structure AttrC where
  s1 : Bytes
  n : Bytes
  s2 : Bytes
  s3 : Bytes
  q : UInt8
  v : Bytes

def AttrC.bytes (a : AttrC) : Bytes :=
  a.s1 ++ a.n ++ a.s2 ++ [bEq] ++ a.s3 ++ [a.q] ++ a.v ++ [a.q]

def attrsBytes : List AttrC → Bytes
  | [] => []
  | a :: r => a.bytes ++ attrsBytes r

/-- what the tokenizer checked of an attribute -/
def AttrC.Lex (T : Tables) (a : AttrC) : Prop :=
  Sp T a.s1 ∧ QName T a.n ∧ Sp0 T a.s2 ∧ Sp0 T a.s3 ∧ (a.q = bQuot ∨ a.q = bApos) ∧ a.q ∉ a.v ∧
    bLt ∉ a.v ∧ Chars T a.v

/-- one lexical construct of the input, with its concrete syntax -/
inductive Item where
  /-- a non-empty run of white space outside the root element -/
  | sp (s : Bytes)
  /-- `<!--` b `-->` -/
  | comment (b : Bytes)
  /-- `<?` t s v `?>` -/
  | pi (t s v : Bytes)
  /-- `<![CDATA[` b `]]>` -/
  | cdata (b : Bytes)
  /-- a run of character data (inside the root element) -/
  | text (t : Bytes)
  /-- `<` q attrs s1 `>` or `<` q attrs s1 `/>` -/
  | stag (q : Bytes) (attrs : List AttrC) (s1 : Bytes) (empty : Bool)
  /-- `</` q s2 `>` -/
  | etag (q s2 : Bytes)

def Item.bytes : Item → Bytes
  | .sp s => s
  | .comment b => Lit.commentStart ++ b ++ Lit.commentEnd
  | .pi t s v => Lit.piStart ++ t ++ s ++ v ++ Lit.piEnd
  | .cdata b => Lit.cdataStart ++ b ++ Lit.cdataEnd
  | .text t => t
  | .stag q attrs s1 e => [bLt] ++ q ++ attrsBytes attrs ++ s1 ++ (if e then [bSlash, bGt] else [bGt])
  | .etag q s2 => [bLt, bSlash] ++ q ++ s2 ++ [bGt]

/-- the concrete syntax of a list of items -/
def flat : List Item → Bytes
  | [] => []
  | it :: r => it.bytes ++ flat r

/-- what the tokenizer checked of an item -/
def Item.Lex (T : Tables) : Item → Prop
  | .sp s => Sp T s
  | .comment b => Chars T b ∧ containsSub b Lit.dashDash = false ∧ b.getLast? ≠ some bDash
  | .pi t s v => Name T t ∧ Sp0 T s ∧ (v ≠ [] → s ≠ []) ∧ Chars T v ∧ containsSub v Lit.piEnd = false
  | .cdata b => Chars T b ∧ containsSub b Lit.cdataEnd = false
  | .text t => t ≠ [] ∧ Chars T t ∧ bLt ∉ t ∧ containsSub t Lit.cdataEnd = false
  | .stag q attrs s1 _ => QName T q ∧ Sp0 T s1 ∧ ∀ a ∈ attrs, a.Lex T
  | .etag q s2 => QName T q ∧ Sp0 T s2

/-- what the builder checked of an item: references in character data and attribute values,
uniqueness of attribute names -/
def Item.Sem (T : Tables) : Item → Prop
  | .text t => RefText T t
  | .stag _ attrs _ _ => (∀ a ∈ attrs, RefText T a.v) ∧ (attrs.map fun a => qparts a.n).Nodup
  | _ => True

def Item.isMiscI : Item → Bool
  | .sp _ => true
  | .comment _ => true
  | .pi _ _ _ => true
  | _ => false

def Item.isStag : Item → Bool
  | .stag _ _ _ _ => true
  | _ => false

/-- comments, PIs and CDATA sections inside the root element -/
def Item.isLeafNT : Item → Bool
  | .comment _ => true
  | .pi _ _ _ => true
  | .cdata _ => true
  | _ => false

/-! ### Items and tokens -/

/-- the `Attribute` token of an attribute (offsets and ranges are not constrained) -/
def AttrTok (a : AttrC) : Token → Prop
  | .attribute _ _ _ p l v => qparts a.n = (p.bytes, l.bytes) ∧ v.bytes = a.v
  | _ => False

inductive AttrToks : List AttrC → List Token → Prop where
  | nil : AttrToks [] []
  | cons (a : AttrC) (t : Token) (as : List AttrC) (ts : List Token) :
      AttrTok a t → AttrToks as ts → AttrToks (a :: as) (t :: ts)

/-- the tokens the tokenizer delivers for an item (offsets and ranges are not constrained) -/
inductive ItemToks : Item → List Token → Prop where
  | sp (s : Bytes) : ItemToks (.sp s) []
  | comment (b : Bytes) (sp : Span) (r : Range) : sp.bytes = b → ItemToks (.comment b) [.comment sp r]
  | pi (t s v : Bytes) (tsp : Span) (vo : Option Span) (r : Range) : tsp.bytes = t →
      ItemToks (.pi t s v) [.pi tsp vo r]
  | cdata (b : Bytes) (sp : Span) (r : Range) : sp.bytes = b → ItemToks (.cdata b) [.cdata sp r]
  | text (t : Bytes) (sp : Span) (r : Range) : sp.bytes = t → ItemToks (.text t) [.text sp r]
  | stag (q : Bytes) (attrs : List AttrC) (s1 : Bytes) (e : Bool) (p l : Span) (st : Nat)
      (ats : List Token) (r : Range) :
      qparts q = (p.bytes, l.bytes) → AttrToks attrs ats →
      ItemToks (.stag q attrs s1 e)
        (.elementStart p l st :: (ats ++ [.elementEnd (if e then .empty else .open) r]))
  | etag (q s2 : Bytes) (p l : Span) (r : Range) : qparts q = (p.bytes, l.bytes) →
      ItemToks (.etag q s2) [.elementEnd (.close p l) r]

inductive ItemsToks : List Item → List Token → Prop where
  | nil : ItemsToks [] []
  | cons (it : Item) (its : List Item) (ts tss : List Token) :
      ItemToks it ts → ItemsToks its tss → ItemsToks (it :: its) (ts ++ tss)

/-! ### The stack of open elements -/

/-- (prefix, local name) -/
abbrev QP := Bytes × Bytes

/-- a start tag that is left open pushes its name, an end tag must name the innermost open element -/
def stepStk (stk : List QP) : Item → Option (List QP)
  | .stag q _ _ false => some (qparts q :: stk)
  | .etag q _ =>
    match stk with
    | top :: rest => if top = qparts q then some rest else none
    | [] => none
  | _ => some stk

def runStk : List QP → List Item → Option (List QP)
  | stk, [] => some stk
  | stk, it :: r =>
    match stepStk stk it with
    | some stk' => runStk stk' r
    | none => none

/-! ### How the tokenizer walks through the root element -/

/-- The items `parse_content` reads with `d` elements opened by it still open: up to the end of the
input, or up to and including the end tag met at depth 0. A run of character data is never
followed by another one. -/
inductive Content : Nat → List Item → Prop where
  | eof (d : Nat) : Content d []
  | leaf (d : Nat) (it : Item) (its : List Item) : it.isLeafNT = true → Content d its →
      Content d (it :: its)
  | text (d : Nat) (t : Bytes) (its : List Item) : (∀ t' r, its ≠ .text t' :: r) → Content d its →
      Content d (.text t :: its)
  | «open» (d : Nat) (q : Bytes) (attrs : List AttrC) (s1 : Bytes) (its : List Item) :
      Content (d + 1) its → Content d (.stag q attrs s1 false :: its)
  | empty (d : Nat) (q : Bytes) (attrs : List AttrC) (s1 : Bytes) (its : List Item) :
      Content d its → Content d (.stag q attrs s1 true :: its)
  | close (d : Nat) (q s2 : Bytes) (its : List Item) : Content d its →
      Content (d + 1) (.etag q s2 :: its)
  | last (q s2 : Bytes) : Content 0 [.etag q s2]

/-- what `parse_element` reads (nothing when the next byte is not `<`) -/
def RootShape (root : List Item) : Prop :=
  root = [] ∨ (∃ q attrs s1, root = [.stag q attrs s1 true]) ∨
    (∃ q attrs s1 content, root = .stag q attrs s1 false :: content ∧ Content 0 content)

end Rox.Lemmas
