/-
  Rox.Lemmas.RtTok4 — the tokenizer on the rendering of a whole document (`Rox.Spec.Canon4`:
  BOM, XML declaration, Misc, DOCTYPE, Misc, root element with processing instructions inside,
  Misc; white space after every top-level item) delivers exactly `docToks y` and succeeds.
-/
import Rox.Spec.Canon4
import Rox.Lemmas.RtTok

namespace Rox.Lemmas
open Rox Rox.Spec.Canon Rox.Spec.Canon4 Rox.TM

/-! ### White space, names read character by character -/

section
variable (T : Tables) (txt : Bytes)

/-- nothing, or a byte that is not white space, comes next -/
def NoSp (X : Bytes) : Prop := ∀ b r, X = b :: r → byteIsSpace T b = false

theorem noSp_nil : NoSp T [] := fun _ _ h => by cases h

theorem noSp_cons {b : UInt8} {r : Bytes} (h : byteIsSpace T b = false) : NoSp T (b :: r) := by
  intro b' r' e
  cases e
  exact h

theorem noSp_lt (hC : TablesCanon T) (r : Bytes) : NoSp T (60 :: r) :=
  noSp_cons T (hC.delims_not_space 60 (by simp))

theorem wsOk_mem {ws : Bytes} (h : wsOk ws = true) : ∀ b ∈ ws, b ∈ ([9, 10, 13, 32] : List UInt8) := by
  intro b hb
  simp only [wsOk, List.all_eq_true, Bool.or_eq_true, beq_iff_eq] at h
  have := h b hb
  simp only [List.mem_cons, List.not_mem_nil, or_false]
  rcases this with ((rfl | rfl) | rfl) | rfl <;> simp

theorem wsOk_tail {b : UInt8} {ws : Bytes} (h : wsOk (b :: ws) = true) : wsOk ws = true := by
  simp only [wsOk, List.all_cons, Bool.and_eq_true] at h ⊢
  exact h.2

theorem skipSpacesAux_ws4 (hC4 : TablesCanon4 T) (X : Bytes) (hX : NoSp T X) :
    ∀ (ws : Bytes), wsOk ws = true → ∀ p, Stream.skipSpacesAux T p (ws ++ X) = ⟨p + ws.length, X⟩ := by
  intro ws
  induction ws with
  | nil =>
    intro _ p
    cases X with
    | nil => rfl
    | cons b r => simp [Stream.skipSpacesAux, hX b r rfl]
  | cons b ws ih =>
    intro h p
    have hb := hC4.ws_is_space b (wsOk_mem h b (by simp))
    simp only [List.cons_append, Stream.skipSpacesAux, hb, if_true, ih (wsOk_tail h), List.length_cons]
    congr 1
    omega

theorem skipSpaces_ws4 (hC4 : TablesCanon4 T) (ws X : Bytes) (hws : wsOk ws = true) (hX : NoSp T X)
    (p : Nat) : Stream.skipSpaces T ⟨p, ws ++ X⟩ = ⟨p + ws.length, X⟩ :=
  skipSpacesAux_ws4 T hC4 X hX ws hws p

/-- the loop of `skip_name` over lower-case letters, up to a space, `>` or `?` -/
theorem skipNameTail_stop (hC4 : TablesCanon4 T) (c : UInt8) (rest : Bytes)
    (hc : c ∈ ([32, 62, 63] : List UInt8)) :
    ∀ (name : Bytes), (∀ x ∈ name, isLower x = true) → ∀ (fuel p : Nat) (acc : Bytes),
      name.length < fuel →
      Stream.skipNameTail T fuel ⟨p, name ++ c :: rest⟩ acc =
        .ok (⟨p + name.length, c :: rest⟩, acc.reverse ++ name) := by
  have hc128 : c < 128 := by
    simp only [List.mem_cons, List.not_mem_nil, or_false] at hc
    rcases hc with rfl | rfl | rfl <;> decide
  have hcn := hC4.stops_not_nameC c hc
  intro name
  induction name with
  | nil =>
    intro _ fuel p acc hf
    obtain ⟨fuel, rfl⟩ : ∃ f, fuel = f + 1 := ⟨fuel - 1, by simp at hf; omega⟩
    simp [Stream.skipNameTail, decodeChar_ascii c rest hc128, hcn]
  | cons b name ih =>
    intro hl fuel p acc hf
    obtain ⟨fuel, rfl⟩ : ∃ f, fuel = f + 1 := ⟨fuel - 1, by simp at hf; omega⟩
    have hb : isLower b = true := hl b (by simp)
    simp only [List.cons_append, Stream.skipNameTail, decodeChar_ascii b _ (lower_lt128 hb),
      hC4.lower_nameC b hb, if_true]
    have h1 : 1 ≤ (b :: (name ++ c :: rest)).length := by simp
    simp only [h1, if_true, List.drop_succ_cons, List.drop_zero, List.take_succ_cons,
      List.take_zero, List.reverse_cons, List.reverse_nil, List.nil_append, List.cons_append]
    rw [ih (fun x hx => hl x (by simp [hx])) fuel (p + 1) (b :: acc) (by simp at hf; omega)]
    simp
    omega

theorem skipName_stop (hC4 : TablesCanon4 T) (c : UInt8) (rest : Bytes)
    (hc : c ∈ ([32, 62, 63] : List UInt8)) (name : Bytes) (hn : nameOk name = true) (p : Nat) :
    Stream.skipName T txt ⟨p, name ++ c :: rest⟩ =
      .ok (⟨p + name.length, c :: rest⟩, ⟨p, name⟩) := by
  obtain ⟨b, n', rfl, hb, hl⟩ := nameOk_cons hn
  simp only [List.cons_append, Stream.skipName, decodeChar_ascii b _ (lower_lt128 hb),
    hC4.lower_nameStartC b hb, if_true]
  have h1 : 1 ≤ (b :: (n' ++ c :: rest)).length := by simp
  simp only [h1, if_true, List.drop_succ_cons, List.drop_zero, List.take_succ_cons,
    List.take_zero, List.reverse_cons, List.reverse_nil, List.nil_append]
  rw [skipNameTail_stop T hC4 c rest hc n' hl _ (p + 1) [b] (by simp; omega)]
  simp
  omega

theorem consumeName_stop (hC4 : TablesCanon4 T) (c : UInt8) (rest : Bytes)
    (hc : c ∈ ([32, 62, 63] : List UInt8)) (name : Bytes) (hn : nameOk name = true) (p : Nat) :
    Stream.consumeName T txt ⟨p, name ++ c :: rest⟩ =
      .ok (⟨p + name.length, c :: rest⟩, ⟨p, name⟩) := by
  unfold Stream.consumeName
  rw [skipName_stop T txt hC4 c rest hc name hn p]
  obtain ⟨b, n', rfl, _, _⟩ := nameOk_cons hn
  simp

end

/-! ### Processing instructions -/

theorem piOk_parts {t v : Bytes} (h : piOk t v = true) :
    nameOk t = true ∧ t ≠ litXml ∧ (∀ x ∈ v, isPlain x = true ∧ x ≠ 63) ∧ v.head? ≠ some 32 := by
  simp only [piOk, Bool.and_eq_true, bne_iff_ne, ne_eq, List.all_eq_true] at h
  obtain ⟨⟨⟨h1, h2⟩, h3⟩, h4⟩ := h
  exact ⟨h1, h2, h3, h4⟩

/-- `<?` target … is not the start of an XML declaration -/
theorem not_xmlDecl (t : Bytes) (hl : ∀ x ∈ t, isLower x = true) (hne : t ≠ litXml) (c : UInt8)
    (hc : c.toNat < 97) (rest : Bytes) :
    Lit.xmlDecl.isPrefixOf (60 :: 63 :: (t ++ c :: rest)) = false := by
  rw [Bool.eq_false_iff]
  intro h
  match t, hl, hne with
  | [], _, _ =>
    simp [Lit.xmlDecl, List.isPrefixOf] at h
    obtain ⟨rfl, _⟩ := h
    revert hc; decide
  | [b1], _, _ =>
    simp [Lit.xmlDecl, List.isPrefixOf] at h
    obtain ⟨_, rfl, _⟩ := h
    revert hc; decide
  | [b1, b2], _, _ =>
    simp [Lit.xmlDecl, List.isPrefixOf] at h
    obtain ⟨_, _, rfl, _⟩ := h
    revert hc; decide
  | [b1, b2, b3], _, hne =>
    simp [Lit.xmlDecl, List.isPrefixOf] at h
    obtain ⟨rfl, rfl, rfl, _⟩ := h
    exact hne rfl
  | b1 :: b2 :: b3 :: b4 :: r, hl, _ =>
    simp [Lit.xmlDecl, List.isPrefixOf] at h
    obtain ⟨_, _, _, rfl, _⟩ := h
    have := hl 32 (by simp)
    revert this; decide

/-- `<?` target … is not the start of an XML declaration (`<?xml` + white space) either -/
theorem not_xmlDeclW (T : Tables) (hC : TablesCanon T) (t : Bytes) (hl : ∀ x ∈ t, isLower x = true)
    (hne : t ≠ litXml) (c : UInt8) (hc : c.toNat < 97) (rest : Bytes) (p : Nat) :
    Stream.startsWithXmlDecl T ⟨p, 60 :: 63 :: (t ++ c :: rest)⟩ = false := by
  rw [Bool.eq_false_iff]
  intro h
  simp only [Stream.startsWithXmlDecl, Bool.and_eq_true] at h
  obtain ⟨h, h6⟩ := h
  match t, hl, hne with
  | [], _, _ =>
    simp [Stream.startsWith, Lit.xmlDeclOpen, List.isPrefixOf] at h
    obtain ⟨rfl, _⟩ := h
    revert hc; decide
  | [b1], _, _ =>
    simp [Stream.startsWith, Lit.xmlDeclOpen, List.isPrefixOf] at h
    obtain ⟨_, rfl, _⟩ := h
    revert hc; decide
  | [b1, b2], _, _ =>
    simp [Stream.startsWith, Lit.xmlDeclOpen, List.isPrefixOf] at h
    obtain ⟨_, _, rfl⟩ := h
    revert hc; decide
  | [b1, b2, b3], _, hne =>
    simp [Stream.startsWith, Lit.xmlDeclOpen, List.isPrefixOf] at h
    obtain ⟨rfl, rfl, rfl⟩ := h
    exact hne rfl
  | b1 :: b2 :: b3 :: b4 :: r, hl, _ =>
    have h4 := hC.lower_not_space b4 (hl b4 (by simp))
    simp [h4] at h6

/-- no `<?`, no XML declaration -/
theorem noPi_noDeclW (T : Tables) (X : Bytes) (h : Lit.piStart.isPrefixOf X = false) (p : Nat) :
    Stream.startsWithXmlDecl T ⟨p, X⟩ = false := by
  apply startsWithXmlDecl_false_of_open
  match X, h with
  | [], _ => rfl
  | [a], _ => simp [Stream.startsWith, Lit.xmlDeclOpen, List.isPrefixOf]
  | a :: b :: r, h =>
    simp only [Stream.startsWith, Lit.xmlDeclOpen, Lit.piStart, List.isPrefixOf, Bool.and_true,
      Bool.and_eq_false_imp, beq_iff_eq] at h ⊢
    intro h1 h2
    exact absurd h2 (by simpa using h h1)

section
variable (T : Tables) (txt : Bytes)

theorem declConsumeSpaces_sp (hC : TablesCanon T) (p : Nat) (b : UInt8) (r : Bytes)
    (h : byteIsSpace T b = false) :
    declConsumeSpaces T txt ⟨p, 32 :: b :: r⟩ = .ok ⟨p + 1, b :: r⟩ := by
  have hsp : Stream.startsWithSpace T ⟨p, 32 :: b :: r⟩ = true := by
    simp [Stream.startsWithSpace, hC.space_is_space]
  simp only [declConsumeSpaces, hsp, if_true, skipSpaces_sp T hC p b r h]

theorem declConsumeSpaces_end (hC4 : TablesCanon4 T) (p : Nat) (r : Bytes) :
    declConsumeSpaces T txt ⟨p, 63 :: 62 :: r⟩ = .ok ⟨p, 63 :: 62 :: r⟩ := by
  have hsp : Stream.startsWithSpace T ⟨p, 63 :: 62 :: r⟩ = false := by
    simp [Stream.startsWithSpace, hC4.quest_not_space]
  have hpe : Stream.startsWith ⟨p, 63 :: 62 :: r⟩ Lit.piEnd = true := by
    simp [Stream.startsWith, Lit.piEnd]
  simp only [declConsumeSpaces, hsp, hpe, Bool.false_eq_true, if_false, Bool.not_true,
    Bool.false_and]

theorem parsePi_none (hC : TablesCanon T) (hC4 : TablesCanon4 T) (t rest : Bytes)
    (ht : nameOk t = true) (hne : t ≠ litXml) (p : Nat) :
    parsePi T txt ⟨p, 60 :: 63 :: (t ++ 63 :: 62 :: rest)⟩ =
      ret [.pi ⟨p + 2, t⟩ none (p, p + 4 + t.length)] ⟨p + 4 + t.length, rest⟩ := by
  have hx : Stream.startsWith ⟨p, 60 :: 63 :: (t ++ 63 :: 62 :: rest)⟩ Lit.xmlDecl = false :=
    not_xmlDecl t (nameOk_all ht) hne 63 (by decide) _
  have h1 : Stream.advance ⟨p, 60 :: 63 :: (t ++ 63 :: 62 :: rest)⟩ 2 =
      .ok ⟨p + 2, t ++ 63 :: 62 :: rest⟩ := by simp [Stream.advance]
  have h2 := consumeName_stop T txt hC4 63 (62 :: rest) (by simp) t ht (p + 2)
  have h3 := declConsumeSpaces_end T txt hC4 (p + 2 + t.length) rest
  have h4 := consumeChars_run T txt hC (fun s c => !(c == 63 && s.startsWith Lit.piEnd)) 63
    (62 :: rest) (by decide) (by intro q; simp [Stream.startsWith, Lit.piEnd]) []
    (by intro x hx; cases hx) (p + 2 + t.length)
  simp only [List.nil_append, List.length_nil, Nat.add_zero] at h4
  have h5 : Stream.skipString txt ⟨p + 2 + t.length, 63 :: 62 :: rest⟩ Lit.piEnd =
      .ok ⟨p + 2 + t.length + 2, rest⟩ := by
    simp [Stream.skipString, Stream.startsWith, Lit.piEnd, Stream.advance]
  unfold parsePi
  simp only [hx, Bool.false_eq_true, if_false, h1, lift_ok_bind, h2, h3, h4, h5, emit_bind,
    List.isEmpty_nil, Bool.not_true]
  have e : p + 2 + t.length + 2 = p + 4 + t.length := by omega
  rw [e]
  rfl

theorem parsePi_some (hC : TablesCanon T) (hC4 : TablesCanon4 T) (t v rest : Bytes)
    (ht : nameOk t = true) (hne : t ≠ litXml) (hv : ∀ x ∈ v, isPlain x = true ∧ x ≠ 63)
    (hv0 : v ≠ []) (hv32 : v.head? ≠ some 32) (p : Nat) :
    parsePi T txt ⟨p, 60 :: 63 :: (t ++ 32 :: (v ++ 63 :: 62 :: rest))⟩ =
      ret [.pi ⟨p + 2, t⟩ (some ⟨p + 3 + t.length, v⟩) (p, p + 5 + t.length + v.length)]
        ⟨p + 5 + t.length + v.length, rest⟩ := by
  have hx : Stream.startsWith ⟨p, 60 :: 63 :: (t ++ 32 :: (v ++ 63 :: 62 :: rest))⟩ Lit.xmlDecl = false :=
    not_xmlDecl t (nameOk_all ht) hne 32 (by decide) _
  have h1 : Stream.advance ⟨p, 60 :: 63 :: (t ++ 32 :: (v ++ 63 :: 62 :: rest))⟩ 2 =
      .ok ⟨p + 2, t ++ 32 :: (v ++ 63 :: 62 :: rest)⟩ := by simp [Stream.advance]
  have h2 := consumeName_stop T txt hC4 32 (v ++ 63 :: 62 :: rest) (by simp) t ht (p + 2)
  have h3 : declConsumeSpaces T txt ⟨p + 2 + t.length, 32 :: (v ++ 63 :: 62 :: rest)⟩ =
      .ok ⟨p + 2 + t.length + 1, v ++ 63 :: 62 :: rest⟩ := by
    cases v with
    | nil => exact absurd rfl hv0
    | cons b v' =>
      have hb := hv b (by simp)
      have hb32 : b ≠ 32 := by
        intro e; subst e; exact hv32 rfl
      exact declConsumeSpaces_sp T txt hC _ b _ (hC4.plain_not_space b hb.1 hb32)
  have h4 := consumeChars_run T txt hC (fun s c => !(c == 63 && s.startsWith Lit.piEnd)) 63
    (62 :: rest) (by decide) (by intro q; simp [Stream.startsWith, Lit.piEnd]) v
    (by
      intro x hx
      obtain ⟨hp, hne⟩ := hv x hx
      refine ⟨hp, fun s => ?_⟩
      have : (x.toNat == 63) = false := by
        rw [beq_eq_false_iff_ne]; exact toNat_ne hne
      simp [this]) (p + 2 + t.length + 1)
  have h5 : Stream.skipString txt ⟨p + 2 + t.length + 1 + v.length, 63 :: 62 :: rest⟩ Lit.piEnd =
      .ok ⟨p + 2 + t.length + 1 + v.length + 2, rest⟩ := by
    simp [Stream.skipString, Stream.startsWith, Lit.piEnd, Stream.advance]
  have h6 : v.isEmpty = false := by
    cases v with
    | nil => exact absurd rfl hv0
    | cons _ _ => rfl
  unfold parsePi
  simp only [hx, Bool.false_eq_true, if_false, h1, lift_ok_bind, h2, h3, h4, h5, emit_bind, h6,
    Bool.not_false, if_true]
  have e1 : p + 2 + t.length + 1 + v.length + 2 = p + 5 + t.length + v.length := by omega
  have e2 : p + 2 + t.length + 1 = p + 3 + t.length := by omega
  rw [e1, e2]
  rfl

theorem parsePi_run (hC : TablesCanon T) (hC4 : TablesCanon4 T) (t v rest : Bytes)
    (h : piOk t v = true) (p : Nat) :
    parsePi T txt ⟨p, renderY (.pi t v) ++ rest⟩ =
      ret (toksY p (.pi t v)) ⟨p + (renderY (.pi t v)).length, rest⟩ := by
  obtain ⟨ht, hne, hv, hv32⟩ := piOk_parts h
  cases v with
  | nil =>
    have hr : renderY (.pi t []) ++ rest = 60 :: 63 :: (t ++ 63 :: 62 :: rest) := by
      simp [renderY]
    have hl : (renderY (.pi t [])).length = 4 + t.length := by
      simp [renderY]; omega
    rw [hr, hl, parsePi_none T txt hC hC4 t rest ht hne p]
    simp only [toksY, List.isEmpty_nil, if_true, Nat.add_assoc]
  | cons b v' =>
    have hr : renderY (.pi t (b :: v')) ++ rest = 60 :: 63 :: (t ++ 32 :: ((b :: v') ++ 63 :: 62 :: rest)) := by
      simp [renderY]
    have hl : (renderY (.pi t (b :: v'))).length = 5 + t.length + (b :: v').length := by
      simp [renderY]; omega
    rw [hr, hl, parsePi_some T txt hC hC4 t (b :: v') rest ht hne hv (by simp) hv32 p]
    simp only [toksY, List.isEmpty_cons, Bool.false_eq_true, if_false, Nat.add_assoc]

theorem parseComment_runY (hC : TablesCanon T) (c rest : Bytes) (h : commentOk c = true) (p : Nat) :
    parseComment T txt ⟨p, renderY (.comment c) ++ rest⟩ =
      ret (toksY p (.comment c)) ⟨p + (renderY (.comment c)).length, rest⟩ := by
  have hr : renderY (.comment c) ++ rest = 60 :: 33 :: 45 :: 45 :: (c ++ 45 :: 45 :: 62 :: rest) := by
    simp [renderY]
  have hl : (renderY (.comment c)).length = 7 + c.length := by
    simp [renderY]; omega
  rw [hr, hl, parseComment_run T txt hC c rest h p]
  simp only [toksY, Nat.add_assoc]

end

/-! ### The content loop over a rendered forest with processing instructions -/

section
variable (T : Tables) (txt : Bytes)

theorem parseContent_pi (hC : TablesCanon T) (hC4 : TablesCanon4 T) (fuel d p : Nat)
    (t v rest : Bytes) (h : piOk t v = true) :
    parseContent T txt (fuel + 1) d ⟨p, renderY (.pi t v) ++ rest⟩ =
      pre (toksY p (.pi t v))
        (parseContent T txt fuel d ⟨p + (renderY (.pi t v)).length, rest⟩) := by
  obtain ⟨r, e⟩ : ∃ r, renderY (.pi t v) ++ rest = 60 :: 63 :: r := by
    simp only [renderY, List.append_assoc, List.cons_append, List.nil_append]
    exact ⟨_, rfl⟩
  have hstep : ∀ s : Stream, s.rest = 60 :: 63 :: r →
      parseContent T txt (fuel + 1) d s =
        (parsePi T txt s >>= fun s => parseContent T txt fuel d s) := by
    intro s hs
    have h1 : ((60 : UInt8) == bLt) = true := by decide
    have h2 : Stream.nextByte s = .ok 63 := by simp [Stream.nextByte, hs]
    have h3 : ((63 : UInt8) == bBang) = false := by decide
    have h4 : ((63 : UInt8) == bQuest) = true := by decide
    simp only [parseContent, hs, h1, h2, h3, h4, if_true, Bool.false_eq_true, if_false]
  rw [hstep _ e, parsePi_run T txt hC hC4 t v rest h p, ok_bind]

end

mutual
  /-- rounds of the content loop spent on a node -/
  def stepsY : YNode → Nat
    | .elem _ _ ks => 2 + stepsAllY ks
    | .comment _ => 1
    | .pi _ _ => 1
    | .text _ => 1
  def stepsAllY : List YNode → Nat
    | [] => 0
    | k :: ks => stepsY k + stepsAllY ks
end

mutual
  theorem stepsY_le : ∀ (k : YNode), okY k = true → stepsY k ≤ (renderY k).length
    | .elem n as ks, h => by
      have hk : okAllY ks = true := by
        simp only [okY, Bool.and_eq_true] at h; exact h.2
      have := stepsAllY_le ks hk
      simp only [stepsY, renderY, List.length_append, List.length_cons, List.length_nil]
      omega
    | .comment c, _ => by
      simp only [stepsY, renderY, List.length_append, List.length_cons, List.length_nil]
      omega
    | .pi t v, _ => by
      simp only [stepsY, renderY, List.length_append, List.length_cons, List.length_nil]
      omega
    | .text t, h => by
      simp only [okY] at h
      cases t with
      | nil => simp [textOk] at h
      | cons b t' => simp [stepsY, renderY]
  theorem stepsAllY_le : ∀ (ks : List YNode), okAllY ks = true → stepsAllY ks ≤ (renderAllY ks).length
    | [], _ => by simp [stepsAllY]
    | k :: ks, h => by
      simp only [okAllY, Bool.and_eq_true] at h
      have h1 := stepsY_le k h.1
      have h2 := stepsAllY_le ks h.2
      simp only [stepsAllY, renderAllY, List.length_append]
      omega
end

theorem noAdjY_tail {k : YNode} {ks : List YNode} (h : noAdjTextY (k :: ks) = true) :
    noAdjTextY ks = true := by
  cases ks with
  | nil => rfl
  | cons k' r =>
    simp only [noAdjTextY, Bool.and_eq_true] at h
    exact h.2

theorem renderY_head_lt {k : YNode} (h : isTextY k = false) : ∃ r, renderY k = 60 :: r := by
  cases k with
  | elem n as ks =>
    simp only [renderY, List.append_assoc, List.cons_append, List.nil_append]
    exact ⟨_, rfl⟩
  | comment c =>
    simp only [renderY, List.cons_append, List.nil_append]
    exact ⟨_, rfl⟩
  | pi t v =>
    simp only [renderY, List.append_assoc, List.cons_append, List.nil_append]
    exact ⟨_, rfl⟩
  | text t => simp [isTextY] at h

theorem nextY_lt {k : YNode} {ks : List YNode} {rest : Bytes} (h : noAdjTextY (k :: ks) = true)
    (ht : isTextY k = true) (hr : ∃ r, rest = 60 :: r) : ∃ r, renderAllY ks ++ rest = 60 :: r := by
  cases ks with
  | nil => simpa [renderAllY] using hr
  | cons k' r =>
    simp only [noAdjTextY, Bool.and_eq_true, ht, Bool.true_and, Bool.not_eq_true'] at h
    obtain ⟨r', e⟩ := renderY_head_lt h.1
    exact ⟨r' ++ (renderAllY r ++ rest), by simp only [renderAllY, e, List.append_assoc, List.cons_append]⟩

section
variable (T : Tables) (txt : Bytes)

mutual
  theorem pcY_node (hC : TablesCanon T) (hC4 : TablesCanon4 T) : ∀ (k : YNode), okY k = true →
      ∀ (fuel d p : Nat) (rest : Bytes), (isTextY k = true → ∃ r, rest = 60 :: r) →
      parseContent T txt (stepsY k + fuel) d ⟨p, renderY k ++ rest⟩ =
        pre (toksY p k) (parseContent T txt fuel d ⟨p + (renderY k).length, rest⟩)
    | .elem n as ks, h, fuel, d, p, rest, _ => by
      simp only [okY, Bool.and_eq_true] at h
      obtain ⟨⟨⟨hn, has⟩, hadj⟩, hks⟩ := h
      have hr : renderY (.elem n as ks) ++ rest =
          60 :: (n ++ (renderAttrs as ++ 62 :: (renderAllY ks ++ 60 :: 47 :: (n ++ 62 :: rest)))) := by
        simp only [renderY, List.append_assoc, List.cons_append, List.nil_append]
      have hs : stepsY (.elem n as ks) + fuel = (stepsAllY ks + (fuel + 1)) + 1 := by
        simp only [stepsY]; omega
      have hlen : (renderY (.elem n as ks)).length =
          n.length + attrsLen as + (renderAllY ks).length + n.length + 5 := by
        simp only [renderY, List.length_append, List.length_cons, List.length_nil,
          renderAttrs_length]
        omega
      rw [hr, hs, parseContent_open T txt hC _ d p n as _ hn has,
        pcY_all hC hC4 ks hks hadj (fuel + 1) (d + 1) _ _ ⟨_, rfl⟩,
        parseContent_close T txt hC fuel d _ n rest hn, pre_pre, pre_pre, hlen]
      simp only [toksY]
      have e : p + 1 + n.length + attrsLen as + 1 + (renderAllY ks).length + 3 + n.length =
          p + (n.length + attrsLen as + (renderAllY ks).length + n.length + 5) := by omega
      rw [e]
    | .comment c, h, fuel, d, p, rest, _ => by
      simp only [okY] at h
      have hr : renderY (.comment c) ++ rest = 60 :: 33 :: 45 :: 45 :: (c ++ 45 :: 45 :: 62 :: rest) := by
        simp only [renderY, List.append_assoc, List.cons_append, List.nil_append]
      have hs : stepsY (.comment c) + fuel = fuel + 1 := by simp only [stepsY]; omega
      have hlen : (renderY (.comment c)).length = 7 + c.length := by
        simp only [renderY, List.length_append, List.length_cons, List.length_nil]
        omega
      rw [hr, hs, parseContent_comment T txt hC fuel d p c rest h, hlen]
      simp only [toksY]
      have e : p + 7 + c.length = p + (7 + c.length) := by omega
      rw [e]
    | .pi t v, h, fuel, d, p, rest, _ => by
      simp only [okY] at h
      have hs : stepsY (.pi t v) + fuel = fuel + 1 := by simp only [stepsY]; omega
      rw [hs, parseContent_pi T txt hC hC4 fuel d p t v rest h]
    | .text t, h, fuel, d, p, rest, hnext => by
      simp only [okY] at h
      obtain ⟨r, rfl⟩ := hnext rfl
      have hs : stepsY (.text t) + fuel = fuel + 1 := by simp only [stepsY]; omega
      simp only [renderY, toksY]
      rw [hs, parseContent_text T txt hC fuel d p t r h]
  theorem pcY_all (hC : TablesCanon T) (hC4 : TablesCanon4 T) : ∀ (ks : List YNode),
      okAllY ks = true → noAdjTextY ks = true →
      ∀ (fuel d p : Nat) (rest : Bytes), (∃ r, rest = 60 :: r) →
      parseContent T txt (stepsAllY ks + fuel) d ⟨p, renderAllY ks ++ rest⟩ =
        pre (toksAllY p ks) (parseContent T txt fuel d ⟨p + (renderAllY ks).length, rest⟩)
    | [], _, _, fuel, d, p, rest, _ => by
      simp only [stepsAllY, renderAllY, toksAllY, List.nil_append, List.length_nil, Nat.zero_add,
        Nat.add_zero, pre_nil]
    | k :: ks, h, hadj, fuel, d, p, rest, hr => by
      simp only [okAllY, Bool.and_eq_true] at h
      have hs : stepsAllY (k :: ks) + fuel = stepsY k + (stepsAllY ks + fuel) := by
        simp only [stepsAllY]; omega
      have hrr : renderAllY (k :: ks) ++ rest = renderY k ++ (renderAllY ks ++ rest) := by
        simp only [renderAllY, List.append_assoc]
      rw [hs, hrr, pcY_node hC hC4 k h.1 _ d p _ (fun ht => nextY_lt hadj ht hr),
        pcY_all hC hC4 ks h.2 (noAdjY_tail hadj) fuel d _ rest hr, pre_pre]
      simp only [toksAllY, renderAllY, List.length_append, Nat.add_assoc]
end

/-- the root element, whatever follows it -/
theorem parseElementY_run (hC : TablesCanon T) (hC4 : TablesCanon4 T) (n : Bytes)
    (as : List (Bytes × Bytes)) (ks : List YNode) (hx : okY (.elem n as ks) = true) (p : Nat)
    (rest : Bytes) :
    parseElement T txt ⟨p, renderY (.elem n as ks) ++ rest⟩ =
      ret (toksY p (.elem n as ks)) ⟨p + (renderY (.elem n as ks)).length, rest⟩ := by
  simp only [okY, Bool.and_eq_true] at hx
  obtain ⟨⟨⟨hn, has⟩, hadj⟩, hks⟩ := hx
  have hr : renderY (.elem n as ks) ++ rest =
      60 :: (n ++ (renderAttrs as ++ 62 :: (renderAllY ks ++ 60 :: 47 :: (n ++ 62 :: rest)))) := by
    simp only [renderY, List.append_assoc, List.cons_append, List.nil_append]
  have hlen : (renderY (.elem n as ks)).length =
      n.length + attrsLen as + (renderAllY ks).length + n.length + 5 := by
    simp only [renderY, List.length_append, List.length_cons, List.length_nil, renderAttrs_length]
    omega
  obtain ⟨F, hF⟩ : ∃ F, (renderAllY ks ++ 60 :: 47 :: (n ++ 62 :: rest)).length + 1 =
      stepsAllY ks + (F + 1) := by
    have := stepsAllY_le ks hks
    refine ⟨(renderAllY ks ++ 60 :: 47 :: (n ++ 62 :: rest)).length - stepsAllY ks, ?_⟩
    simp only [List.length_append]
    omega
  rw [hlen, hr]
  unfold parseElement
  simp only [parseStartTag_run T txt hC n as _ hn has p, ok_bind, if_true]
  rw [hF, pcY_all T txt hC hC4 ks hks hadj (F + 1) 0 _ _ ⟨_, rfl⟩,
    parseContent_close0 T txt hC F _ n rest hn, pre_mk, pre_mk]
  simp only [toksY]
  have e : p + 1 + n.length + attrsLen as + 1 + (renderAllY ks).length + 3 + n.length =
      p + (n.length + attrsLen as + (renderAllY ks).length + n.length + 5) := by omega
  rw [e]
  simp only [List.append_assoc]

end

/-! ### The XML declaration -/

section
variable (T : Tables) (txt : Bytes)

theorem parseAttribute_run (hC : TablesCanon T) (n v R : Bytes) (hn : nameOk n = true)
    (hv : valueOk v = true) (p : Nat) :
    parseAttribute T txt ⟨p, n ++ 61 :: 34 :: (v ++ 34 :: R)⟩ =
      .ok (⟨p + n.length + 1 + 1 + v.length + 1, R⟩, ⟨p, []⟩, ⟨p, n⟩) := by
  have hq := consumeQName_lower T txt hC 61 (34 :: (v ++ 34 :: R)) (by simp) n hn p
  have heq := consumeEq_run T txt hC (p + n.length) (v ++ 34 :: R)
  have hqu : Stream.consumeQuote txt ⟨p + n.length + 1, 34 :: (v ++ 34 :: R)⟩ =
      .ok (⟨p + n.length + 1 + 1, v ++ 34 :: R⟩, 34) := by
    simp [Stream.consumeQuote, bApos, bQuot]
  have hch := consumeChars_run T txt hC (fun _ c => c != (34 : UInt8).toNat && c != 60) 34 R
    (by decide) (by intro q; simp) v
    (by
      intro x hx
      obtain ⟨hp, h60, _, h34⟩ := valueOk_all hv x hx
      refine ⟨hp, fun s => ?_⟩
      have a : (x.toNat == 34) = false := by
        rw [beq_eq_false_iff_ne]; exact toNat_ne h34
      have b : (x.toNat == 60) = false := by
        rw [beq_eq_false_iff_ne]; exact toNat_ne h60
      simp [bne, a, b]) (p + n.length + 1 + 1)
  have hcb : Stream.consumeByte txt ⟨p + n.length + 1 + 1 + v.length, 34 :: R⟩ 34 =
      .ok ⟨p + n.length + 1 + 1 + v.length + 1, R⟩ := by
    simp [Stream.consumeByte]
  simp only [parseAttribute, hq, Res.bind_ok, heq, hqu, hch, hcb]
  rfl

theorem parsePseudoAttribute_run (hC : TablesCanon T) (n v R : Bytes) (hn : nameOk n = true)
    (hv : valueOk v = true) (p : Nat) :
    parsePseudoAttribute T txt ⟨p, n ++ 61 :: 34 :: (v ++ 34 :: R)⟩ n =
      .ok ⟨p + n.length + 1 + 1 + v.length + 1, R⟩ := by
  simp only [parsePseudoAttribute, parseAttribute_run T txt hC n v R hn hv p, Res.bind_ok,
    List.isEmpty_nil, Bool.not_true, Bool.false_or, bne_self_eq_false, Bool.false_eq_true, if_false]
  rfl

theorem declStandalone_end (hC4 : TablesCanon4 T) (p : Nat) (r : Bytes) :
    declStandalone T txt ⟨p, 63 :: 62 :: r⟩ = .ok ⟨p + 2, r⟩ := by
  have h1 : Stream.startsWith ⟨p, 63 :: 62 :: r⟩ Lit.standalone = false := by
    simp [Stream.startsWith, Lit.standalone, List.isPrefixOf]
  have h2 := skipSpaces_ns T p 63 (62 :: r) hC4.quest_not_space
  have h3 : Stream.skipString txt ⟨p, 63 :: 62 :: r⟩ Lit.piEnd = .ok ⟨p + 2, r⟩ := by
    simp [Stream.skipString, Stream.startsWith, Lit.piEnd, Stream.advance]
  simp only [declStandalone, h1, Bool.false_eq_true, if_false, declEnd, h2, h3]

theorem declEncoding_none (hC4 : TablesCanon4 T) (p : Nat) (r : Bytes) :
    declEncoding T txt ⟨p, 63 :: 62 :: r⟩ = .ok ⟨p + 2, r⟩ := by
  have h1 : Stream.startsWith ⟨p, 63 :: 62 :: r⟩ Lit.encoding = false := by
    simp [Stream.startsWith, Lit.encoding, List.isPrefixOf]
  simp only [declEncoding, h1, Bool.false_eq_true, if_false, declStandalone_end T txt hC4 p r]

theorem declEncoding_some (hC : TablesCanon T) (hC4 : TablesCanon4 T) (p : Nat) (r : Bytes) :
    declEncoding T txt ⟨p, Lit.encoding ++ 61 :: 34 :: ([85, 84, 70, 45, 56] ++ 34 :: 63 :: 62 :: r)⟩ =
      .ok ⟨p + 18, r⟩ := by
  have h1 : Stream.startsWith ⟨p, Lit.encoding ++ 61 :: 34 :: ([85, 84, 70, 45, 56] ++ 34 :: 63 :: 62 :: r)⟩
      Lit.encoding = true := by
    simp [Stream.startsWith, Lit.encoding, List.isPrefixOf]
  have h2 := parsePseudoAttribute_run T txt hC Lit.encoding [85, 84, 70, 45, 56] (63 :: 62 :: r)
    (by decide) (by decide) p
  simp only [declEncoding, h1, if_true, h2, Res.bind_ok, declConsumeSpaces_end T txt hC4,
    declStandalone_end T txt hC4]
  rfl

theorem parseDeclaration_run (hC : TablesCanon T) (hC4 : TablesCanon4 T) (enc : Bool) (R : Bytes)
    (p : Nat) :
    parseDeclaration T txt ⟨p, litDeclOpen ++ (if enc then litDeclEnc else []) ++ [63, 62] ++ R⟩ =
      .ok ⟨p + (litDeclOpen ++ (if enc then litDeclEnc else []) ++ [63, 62]).length, R⟩ := by
  have hv : isLower 118 = true := by decide
  have he : isLower 101 = true := by decide
  cases enc with
  | false =>
    have e : litDeclOpen ++ (if false = true then litDeclEnc else []) ++ [63, 62] ++ R =
        60 :: 63 :: 120 :: 109 :: 108 :: 32 :: (Lit.version ++ 61 :: 34 :: ([49, 46, 48] ++ 34 :: 63 :: 62 :: R)) := rfl
    have h1 : Stream.advance ⟨p, 60 :: 63 :: 120 :: 109 :: 108 :: 32 :: (Lit.version ++ 61 :: 34 :: ([49, 46, 48] ++ 34 :: 63 :: 62 :: R))⟩ 5 =
        .ok ⟨p + 5, 32 :: (Lit.version ++ 61 :: 34 :: ([49, 46, 48] ++ 34 :: 63 :: 62 :: R))⟩ := by
      simp [Stream.advance]
    have h2 : declConsumeSpaces T txt ⟨p + 5, 32 :: (Lit.version ++ 61 :: 34 :: ([49, 46, 48] ++ 34 :: 63 :: 62 :: R))⟩ =
        .ok ⟨p + 5 + 1, Lit.version ++ 61 :: 34 :: ([49, 46, 48] ++ 34 :: 63 :: 62 :: R)⟩ :=
      declConsumeSpaces_sp T txt hC (p + 5) 118 _ (hC.lower_not_space 118 hv)
    have h3 : Stream.startsWith ⟨p + 5 + 1, Lit.version ++ 61 :: 34 :: ([49, 46, 48] ++ 34 :: 63 :: 62 :: R)⟩
        Lit.version = true := by
      simp [Stream.startsWith, Lit.version, List.isPrefixOf]
    have h4 := parsePseudoAttribute_run T txt hC Lit.version [49, 46, 48] (63 :: 62 :: R)
      (by decide) (by decide) (p + 5 + 1)
    rw [e]
    simp only [parseDeclaration, h1, Res.bind_ok, h2, h3, Bool.not_true, Bool.false_eq_true, if_false,
      h4, declConsumeSpaces_end T txt hC4, declEncoding_none T txt hC4]
    simp [Lit.version, litDeclOpen]
  | true =>
    have e : litDeclOpen ++ (if true = true then litDeclEnc else []) ++ [63, 62] ++ R =
        60 :: 63 :: 120 :: 109 :: 108 :: 32 :: (Lit.version ++ 61 :: 34 :: ([49, 46, 48] ++ 34 :: 32 ::
          (Lit.encoding ++ 61 :: 34 :: ([85, 84, 70, 45, 56] ++ 34 :: 63 :: 62 :: R)))) := rfl
    have h1 : Stream.advance ⟨p, 60 :: 63 :: 120 :: 109 :: 108 :: 32 :: (Lit.version ++ 61 :: 34 :: ([49, 46, 48] ++ 34 :: 32 ::
          (Lit.encoding ++ 61 :: 34 :: ([85, 84, 70, 45, 56] ++ 34 :: 63 :: 62 :: R))))⟩ 5 =
        .ok ⟨p + 5, 32 :: (Lit.version ++ 61 :: 34 :: ([49, 46, 48] ++ 34 :: 32 ::
          (Lit.encoding ++ 61 :: 34 :: ([85, 84, 70, 45, 56] ++ 34 :: 63 :: 62 :: R))))⟩ := by
      simp [Stream.advance]
    have h2 : declConsumeSpaces T txt ⟨p + 5, 32 :: (Lit.version ++ 61 :: 34 :: ([49, 46, 48] ++ 34 :: 32 ::
          (Lit.encoding ++ 61 :: 34 :: ([85, 84, 70, 45, 56] ++ 34 :: 63 :: 62 :: R))))⟩ =
        .ok ⟨p + 5 + 1, Lit.version ++ 61 :: 34 :: ([49, 46, 48] ++ 34 :: 32 ::
          (Lit.encoding ++ 61 :: 34 :: ([85, 84, 70, 45, 56] ++ 34 :: 63 :: 62 :: R)))⟩ :=
      declConsumeSpaces_sp T txt hC (p + 5) 118 _ (hC.lower_not_space 118 hv)
    have h3 : Stream.startsWith ⟨p + 5 + 1, Lit.version ++ 61 :: 34 :: ([49, 46, 48] ++ 34 :: 32 ::
          (Lit.encoding ++ 61 :: 34 :: ([85, 84, 70, 45, 56] ++ 34 :: 63 :: 62 :: R)))⟩
        Lit.version = true := by
      simp [Stream.startsWith, Lit.version, List.isPrefixOf]
    have h4 := parsePseudoAttribute_run T txt hC Lit.version [49, 46, 48] (32 ::
          (Lit.encoding ++ 61 :: 34 :: ([85, 84, 70, 45, 56] ++ 34 :: 63 :: 62 :: R)))
      (by decide) (by decide) (p + 5 + 1)
    have h5 : declConsumeSpaces T txt ⟨p + 5 + 1 + Lit.version.length + 1 + 1 + [49, 46, (48 : UInt8)].length + 1,
        32 :: (Lit.encoding ++ 61 :: 34 :: ([85, 84, 70, 45, 56] ++ 34 :: 63 :: 62 :: R))⟩ =
        .ok ⟨p + 5 + 1 + Lit.version.length + 1 + 1 + [49, 46, (48 : UInt8)].length + 1 + 1,
          Lit.encoding ++ 61 :: 34 :: ([85, 84, 70, 45, 56] ++ 34 :: 63 :: 62 :: R)⟩ :=
      declConsumeSpaces_sp T txt hC _ 101 _ (hC.lower_not_space 101 he)
    rw [e]
    simp only [parseDeclaration, h1, Res.bind_ok, h2, h3, Bool.not_true, Bool.false_eq_true, if_false,
      h4, h5, declEncoding_some T txt hC hC4]
    simp [Lit.version, litDeclOpen, litDeclEnc]

end

/-! ### The DOCTYPE without internal subset -/

section
variable (T : Tables) (txt : Bytes)

theorem consumeSpaces_sp4 (hC : TablesCanon T) (p : Nat) (b : UInt8) (r : Bytes)
    (h : byteIsSpace T b = false) :
    Stream.consumeSpaces T txt ⟨p, 32 :: b :: r⟩ = .ok ⟨p + 1, b :: r⟩ := by
  simp only [Stream.consumeSpaces, hC.space_is_space, Bool.not_true, Bool.false_eq_true, if_false,
    skipSpaces_sp T hC p b r h]

theorem parseDoctypeStart_simple (hC : TablesCanon T) (hC4 : TablesCanon4 T) (n R : Bytes)
    (hn : nameOk n = true) (p : Nat) :
    parseDoctypeStart T txt ⟨p, 60 :: 33 :: 68 :: 79 :: 67 :: 84 :: 89 :: 80 :: 69 :: 32 :: (n ++ 62 :: R)⟩ =
      .ok ⟨p + 9 + 1 + n.length, 62 :: R⟩ := by
  have h62 : byteIsSpace T 62 = false := hC.delims_not_space 62 (by simp)
  have h1 : Stream.advance ⟨p, 60 :: 33 :: 68 :: 79 :: 67 :: 84 :: 89 :: 80 :: 69 :: 32 :: (n ++ 62 :: R)⟩ 9 =
      .ok ⟨p + 9, 32 :: (n ++ 62 :: R)⟩ := by
    simp [Stream.advance]
  have h2 : Stream.consumeSpaces T txt ⟨p + 9, 32 :: (n ++ 62 :: R)⟩ =
      .ok ⟨p + 9 + 1, n ++ 62 :: R⟩ := by
    obtain ⟨b, r, hb, e⟩ := name_head hn (62 :: R)
    rw [e]
    exact consumeSpaces_sp4 T txt hC _ b r (hC.lower_not_space b hb)
  have h3 := skipName_stop T txt hC4 62 R (by simp) n hn (p + 9 + 1)
  have h4 := skipSpaces_ns T (p + 9 + 1 + n.length) 62 R h62
  have h5 : parseExternalId T txt ⟨p + 9 + 1 + n.length, 62 :: R⟩ =
      .ok (⟨p + 9 + 1 + n.length, 62 :: R⟩, false) := by
    have a : Stream.startsWith ⟨p + 9 + 1 + n.length, 62 :: R⟩ Lit.system_ = false := by
      simp [Stream.startsWith, Lit.system_, List.isPrefixOf]
    have b : Stream.startsWith ⟨p + 9 + 1 + n.length, 62 :: R⟩ Lit.public_ = false := by
      simp [Stream.startsWith, Lit.public_, List.isPrefixOf]
    simp only [parseExternalId, a, b, Bool.or_false, Bool.false_eq_true, if_false, Res.pure_eq]
  have h7 : Stream.currByte ⟨p + 9 + 1 + n.length, 62 :: R⟩ = .ok 62 := rfl
  have h8 : (((62 : UInt8) != bLBr) && ((62 : UInt8) != bGt)) = false := by decide
  simp only [parseDoctypeStart, h1, Res.bind_ok, h2, h3, h4, h5, h7, h8, Bool.false_eq_true,
    if_false, Res.pure_eq]

theorem parseDoctype_simple (hC : TablesCanon T) (hC4 : TablesCanon4 T) (n R : Bytes)
    (hn : nameOk n = true) (p : Nat) :
    parseDoctype T txt ⟨p, litDoctypeSp ++ n ++ [62] ++ R⟩ =
      ret [] ⟨p + (litDoctypeSp ++ n ++ [62]).length, R⟩ := by
  have e : litDoctypeSp ++ n ++ [62] ++ R =
      60 :: 33 :: 68 :: 79 :: 67 :: 84 :: 89 :: 80 :: 69 :: 32 :: (n ++ 62 :: R) := by
    simp [litDoctypeSp]
  have hl : (litDoctypeSp ++ n ++ [62]).length = 9 + 1 + n.length + 1 := by
    simp [litDoctypeSp]; omega
  have h1 := parseDoctypeStart_simple T txt hC hC4 n R hn p
  have h2 := skipSpaces_ns T (p + 9 + 1 + n.length) 62 R (hC.delims_not_space 62 (by simp))
  have h3 : ((62 : UInt8) == bGt) = true := by decide
  rw [e, hl]
  unfold parseDoctype
  simp only [h1, lift_ok_bind, h2, h3, if_true]
  have e2 : p + 9 + 1 + n.length + 1 = p + (9 + 1 + n.length + 1) := by omega
  rw [e2]
  rfl

end

/-! ### Misc: comments and processing instructions, white space after each -/

section
variable (T : Tables)

/-- what ends a run of Misc items: not white space, not a comment, not a PI (so not a declaration),
not a BOM -/
structure StopMisc (X : Bytes) : Prop where
  nosp : NoSp T X
  nocomment : Lit.commentStart.isPrefixOf X = false
  nopi : Lit.piStart.isPrefixOf X = false
  nobom : Lit.bom.isPrefixOf X = false

theorem stop_nil : StopMisc T [] := ⟨noSp_nil T, rfl, rfl, rfl⟩

theorem stop_tag (hC : TablesCanon T) (b : UInt8) (r : Bytes) (hb : isLower b = true) :
    StopMisc T (60 :: b :: r) := by
  have h1 : ((33 : UInt8) == b) = false := by
    rw [beq_eq_false_iff_ne]; rintro rfl; revert hb; decide
  have h2 : ((63 : UInt8) == b) = false := by
    rw [beq_eq_false_iff_ne]; rintro rfl; revert hb; decide
  refine ⟨noSp_lt T hC _, ?_, ?_, ?_⟩
  · simp [Lit.commentStart, List.isPrefixOf, h1]
  · simp [Lit.piStart, List.isPrefixOf, h2]
  · simp [Lit.bom, List.isPrefixOf]

theorem stop_doctype (hC : TablesCanon T) (r : Bytes) : StopMisc T (60 :: 33 :: 68 :: r) := by
  refine ⟨noSp_lt T hC _, ?_, ?_, ?_⟩
  · simp [Lit.commentStart, List.isPrefixOf]
  · simp [Lit.piStart, List.isPrefixOf]
  · simp [Lit.bom, List.isPrefixOf]

theorem skipSpaces_noSp (X : Bytes) (hX : NoSp T X) (p : Nat) :
    Stream.skipSpaces T ⟨p, X⟩ = ⟨p, X⟩ := by
  cases X with
  | nil => rfl
  | cons b r => exact skipSpaces_ns T p b r (hX b r rfl)

end

theorem miscOk_cases {k : YNode} (h : miscOk k = true) :
    (∃ c, k = .comment c ∧ commentOk c = true) ∨ (∃ t v, k = .pi t v ∧ piOk t v = true) := by
  cases k with
  | elem n as ks => simp [miscOk] at h
  | comment c => exact .inl ⟨c, rfl, h⟩
  | pi t v => exact .inr ⟨t, v, rfl, h⟩
  | text t => simp [miscOk] at h

theorem misc_len_le (ws : Bytes) : ∀ (items : List YNode), items.all miscOk = true →
    items.length ≤ (renderMisc ws items).length := by
  intro items
  induction items with
  | nil => intro _; simp
  | cons k r ih =>
    intro h
    simp only [List.all_cons, Bool.and_eq_true] at h
    have := ih h.2
    have h1 : 1 ≤ (renderY k).length := by
      rcases miscOk_cases h.1 with ⟨c, rfl, _⟩ | ⟨t, v, rfl, _⟩ <;>
        simp [renderY]
    simp only [renderMisc, List.length_append, List.length_cons]
    omega

theorem renderMisc_append (ws : Bytes) : ∀ (a b : List YNode),
    renderMisc ws (a ++ b) = renderMisc ws a ++ renderMisc ws b
  | [], b => rfl
  | k :: a, b => by
    simp only [List.cons_append, renderMisc, renderMisc_append ws a b, List.append_assoc]

theorem miscToks_append (ws : Bytes) : ∀ (a b : List YNode) (p : Nat),
    miscToks ws p (a ++ b) = miscToks ws p a ++ miscToks ws (p + (renderMisc ws a).length) b
  | [], b, p => by simp [miscToks, renderMisc]
  | k :: a, b, p => by
    simp only [List.cons_append, miscToks, renderMisc, miscToks_append ws a b, List.append_assoc,
      List.length_append, Nat.add_assoc]

/-- a Misc item does not look like a declaration or a BOM -/
theorem misc_head {k : YNode} (h : miscOk k = true) (Z : Bytes) :
    Lit.xmlDecl.isPrefixOf (renderY k ++ Z) = false ∧ Lit.bom.isPrefixOf (renderY k ++ Z) = false := by
  rcases miscOk_cases h with ⟨c, rfl, _⟩ | ⟨t, v, rfl, hp⟩
  · constructor <;> simp [renderY, Lit.xmlDecl, Lit.bom, List.isPrefixOf]
  · obtain ⟨ht, hne, _, _⟩ := piOk_parts hp
    constructor
    · cases v with
      | nil =>
        have e : renderY (.pi t []) ++ Z = 60 :: 63 :: (t ++ 63 :: 62 :: Z) := by simp [renderY]
        rw [e]
        exact not_xmlDecl t (nameOk_all ht) hne 63 (by decide) _
      | cons b v' =>
        have e : renderY (.pi t (b :: v')) ++ Z = 60 :: 63 :: (t ++ 32 :: ((b :: v') ++ 63 :: 62 :: Z)) := by
          simp [renderY]
        rw [e]
        exact not_xmlDecl t (nameOk_all ht) hne 32 (by decide) _
    · simp [renderY, Lit.bom, List.isPrefixOf]

/-- a Misc item does not look like an XML declaration (`<?xml` + white space) -/
theorem misc_headW (T : Tables) (hC : TablesCanon T) {k : YNode} (h : miscOk k = true) (Z : Bytes)
    (p : Nat) : Stream.startsWithXmlDecl T ⟨p, renderY k ++ Z⟩ = false := by
  rcases miscOk_cases h with ⟨c, rfl, _⟩ | ⟨t, v, rfl, hp⟩
  · simp [renderY, Stream.startsWithXmlDecl, Stream.startsWith, Lit.xmlDeclOpen, List.isPrefixOf]
  · obtain ⟨ht, hne, _, _⟩ := piOk_parts hp
    cases v with
    | nil =>
      have e : renderY (.pi t []) ++ Z = 60 :: 63 :: (t ++ 63 :: 62 :: Z) := by simp [renderY]
      rw [e]
      exact not_xmlDeclW T hC t (nameOk_all ht) hne 63 (by decide) _ p
    | cons b v' =>
      have e : renderY (.pi t (b :: v')) ++ Z = 60 :: 63 :: (t ++ 32 :: ((b :: v') ++ 63 :: 62 :: Z)) := by
        simp [renderY]
      rw [e]
      exact not_xmlDeclW T hC t (nameOk_all ht) hne 32 (by decide) _ p

section
variable (T : Tables) (txt : Bytes)

theorem parseMisc_run (hC : TablesCanon T) (hC4 : TablesCanon4 T) (ws : Bytes) (hws : wsOk ws = true)
    (rest : Bytes) (hr : StopMisc T rest) :
    ∀ (items : List YNode), items.all miscOk = true → ∀ (fuel p : Nat) (w : Bytes),
      wsOk w = true → items.length < fuel →
      parseMisc T txt fuel ⟨p, w ++ (renderMisc ws items ++ rest)⟩ =
        ret (miscToks ws (p + w.length) items)
          ⟨p + w.length + (renderMisc ws items).length, rest⟩ := by
  intro items
  induction items with
  | nil =>
    intro _ fuel p w hw hf
    obtain ⟨fuel, rfl⟩ : ∃ f, fuel = f + 1 := ⟨fuel - 1, by omega⟩
    have hsk := skipSpaces_ws4 T hC4 w rest hw hr.nosp p
    simp only [renderMisc, List.nil_append, miscToks, List.length_nil, Nat.add_zero]
    by_cases he : Stream.atEnd ⟨p, w ++ rest⟩ = true
    · have : w = [] ∧ rest = [] := by simpa [Stream.atEnd] using he
      obtain ⟨rfl, rfl⟩ := this
      simp only [parseMisc, Stream.atEnd, List.append_nil, List.isEmpty_nil, if_true]
      rfl
    · simp only [parseMisc, he, hsk, Stream.startsWith, hr.nocomment, hr.nopi, Bool.false_eq_true,
        if_false]
      rfl
  | cons k r ih =>
    intro h fuel p w hw hf
    obtain ⟨fuel, rfl⟩ : ∃ f, fuel = f + 1 := ⟨fuel - 1, by omega⟩
    simp only [List.all_cons, Bool.and_eq_true] at h
    have hf' : r.length < fuel := by simp at hf; omega
    have hrr : w ++ (renderMisc ws (k :: r) ++ rest) =
        w ++ (renderY k ++ (ws ++ (renderMisc ws r ++ rest))) := by
      simp only [renderMisc, List.append_assoc]
    obtain ⟨r0, e0⟩ : ∃ r0, renderY k = 60 :: r0 := by
      rcases miscOk_cases h.1 with ⟨c, rfl, _⟩ | ⟨t, v, rfl, _⟩
      · exact renderY_head_lt rfl
      · exact renderY_head_lt rfl
    have hne : Stream.atEnd ⟨p, w ++ (renderY k ++ (ws ++ (renderMisc ws r ++ rest)))⟩ = false := by
      simp [Stream.atEnd, e0]
    have hsk : Stream.skipSpaces T ⟨p, w ++ (renderY k ++ (ws ++ (renderMisc ws r ++ rest)))⟩ =
        ⟨p + w.length, renderY k ++ (ws ++ (renderMisc ws r ++ rest))⟩ :=
      skipSpaces_ws4 T hC4 w _ hw (by rw [e0]; exact noSp_lt T hC _) p
    have hrec := ih h.2 fuel (p + w.length + (renderY k).length) ws hws hf'
    have hlen : p + w.length + (renderMisc ws (k :: r)).length =
        p + w.length + (renderY k).length + ws.length + (renderMisc ws r).length := by
      simp only [renderMisc, List.length_append]; omega
    rw [hrr, hlen]
    simp only [miscToks]
    rcases miscOk_cases h.1 with ⟨c, rfl, hc⟩ | ⟨t, v, rfl, hp⟩
    · have hcs : Stream.startsWith ⟨p + w.length, renderY (.comment c) ++ (ws ++ (renderMisc ws r ++ rest))⟩
          Lit.commentStart = true := by
        simp [Stream.startsWith, Lit.commentStart, renderY, List.isPrefixOf]
      simp only [parseMisc, hne, hsk, hcs, Bool.false_eq_true, if_false, if_true,
        parseComment_runY T txt hC c _ hc, ok_bind, hrec, pre_mk]
    · have hcs : Stream.startsWith ⟨p + w.length, renderY (.pi t v) ++ (ws ++ (renderMisc ws r ++ rest))⟩
          Lit.commentStart = false := by
        simp [Stream.startsWith, Lit.commentStart, renderY, List.isPrefixOf]
      have hps : Stream.startsWith ⟨p + w.length, renderY (.pi t v) ++ (ws ++ (renderMisc ws r ++ rest))⟩
          Lit.piStart = true := by
        simp [Stream.startsWith, Lit.piStart, renderY, List.isPrefixOf]
      simp only [parseMisc, hne, hsk, hcs, hps, Bool.false_eq_true, if_false, if_true,
        parsePi_run T txt hC hC4 t v _ hp, ok_bind, hrec, pre_mk]

end

/-! ### The document -/

section
variable (T : Tables) (txt : Bytes)

/-- `parseProlog`, the cursor made explicit -/
def prologFrom (s : Stream) : TM Stream := do
  let s ← lift (if s.startsWith Lit.bom then s.advance 3 else .ok s)
  let s ← lift (if s.startsWithXmlDecl T then parseDeclaration T txt s else .ok s)
  let s ← parseMisc T txt (s.rest.length + 1) s
  pure (s.skipSpaces T)

/-- `parseDocument`, the cursor made explicit -/
def docFrom (allowDtd : Bool) (s : Stream) : TM Unit := do
  let s ← prologFrom T txt s
  if s.startsWith Lit.doctype then
    if !allowDtd then lift (.err .dtdDetected)
    else do
      let s ← parseDoctype T txt s
      let s ← parseMisc T txt (s.rest.length + 1) s
      parseBody T txt s
  else parseBody T txt s

theorem tokenize_eq (allowDtd : Bool) : tokenize T txt allowDtd = docFrom T txt allowDtd ⟨0, txt⟩ := rfl

theorem noPi_noDecl (X : Bytes) (h : Lit.piStart.isPrefixOf X = false) :
    Lit.xmlDecl.isPrefixOf X = false := by
  match X, h with
  | [], _ => rfl
  | [a], _ => simp [Lit.xmlDecl, List.isPrefixOf]
  | a :: b :: r, h =>
    simp only [Lit.xmlDecl, Lit.piStart, List.isPrefixOf, Bool.and_true, Bool.and_eq_false_imp,
      beq_iff_eq] at h ⊢
    intro h1 h2
    exact absurd h2 (by simpa using h h1)

theorem bom_step (y : YDoc) (X : Bytes) (hX : Lit.bom.isPrefixOf X = false) :
    (if Stream.startsWith ⟨0, bomBytes y ++ X⟩ Lit.bom then Stream.advance ⟨0, bomBytes y ++ X⟩ 3
      else .ok ⟨0, bomBytes y ++ X⟩) = .ok ⟨(bomBytes y).length, X⟩ := by
  unfold bomBytes
  cases y.bom with
  | false =>
    simp only [Bool.false_eq_true, if_false, List.nil_append, Stream.startsWith, hX, List.length_nil]
  | true =>
    simp [Stream.startsWith, Lit.bom, Stream.advance]

theorem decl_step (hC : TablesCanon T) (hC4 : TablesCanon4 T) (y : YDoc) (hws : wsOk y.ws = true)
    (X : Bytes) (p : Nat) (hX : Stream.startsWithXmlDecl T ⟨p, X⟩ = false) :
    ∃ q w, wsOk w = true ∧ q + w.length = p + (declBytes y).length ∧
      (if Stream.startsWithXmlDecl T ⟨p, declBytes y ++ X⟩
        then parseDeclaration T txt ⟨p, declBytes y ++ X⟩
        else .ok ⟨p, declBytes y ++ X⟩) = .ok ⟨q, w ++ X⟩ := by
  unfold declBytes
  cases y.decl with
  | none =>
    refine ⟨p, [], rfl, rfl, ?_⟩
    simp only [List.nil_append, hX, Bool.false_eq_true, if_false]
  | some enc =>
    refine ⟨p + (litDeclOpen ++ (if enc then litDeclEnc else []) ++ [63, 62]).length, y.ws, hws,
      by simp only [List.length_append]; omega, ?_⟩
    have hs : Stream.startsWithXmlDecl T
        ⟨p, litDeclOpen ++ (if enc = true then litDeclEnc else []) ++ [63, 62] ++ y.ws ++ X⟩ = true := by
      simp [Stream.startsWithXmlDecl, Stream.startsWith, Lit.xmlDeclOpen, litDeclOpen, List.isPrefixOf,
        hC.space_is_space]
    have hd := parseDeclaration_run T txt hC hC4 enc (y.ws ++ X) p
    simp only [List.append_assoc] at hs hd ⊢
    simp only [hs, if_true, hd]

theorem prolog_run (hC : TablesCanon T) (hC4 : TablesCanon4 T) (y : YDoc) (hws : wsOk y.ws = true)
    (items : List YNode) (hit : items.all miscOk = true) (rest : Bytes) (hr : StopMisc T rest) :
    prologFrom T txt ⟨0, bomBytes y ++ (declBytes y ++ (renderMisc y.ws items ++ rest))⟩ =
      ret (miscToks y.ws ((bomBytes y).length + (declBytes y).length) items)
        ⟨(bomBytes y).length + (declBytes y).length + (renderMisc y.ws items).length, rest⟩ := by
  have hZ : Stream.startsWithXmlDecl T ⟨(bomBytes y).length, renderMisc y.ws items ++ rest⟩ = false ∧
      Lit.bom.isPrefixOf (renderMisc y.ws items ++ rest) = false := by
    cases items with
    | nil =>
      exact ⟨noPi_noDeclW T _ hr.nopi _, hr.nobom⟩
    | cons k r =>
      simp only [List.all_cons, Bool.and_eq_true] at hit
      simp only [renderMisc, List.append_assoc]
      exact ⟨misc_headW T hC hit.1 _ _, (misc_head hit.1 _).2⟩
  have hb : Lit.bom.isPrefixOf (declBytes y ++ (renderMisc y.ws items ++ rest)) = false := by
    unfold declBytes
    cases y.decl with
    | none => exact hZ.2
    | some enc => simp [litDeclOpen, Lit.bom, List.isPrefixOf]
  have hA := bom_step y _ hb
  obtain ⟨q, w, hw, hq, hB⟩ := decl_step T txt hC hC4 y hws _ (bomBytes y).length hZ.1
  have hM := parseMisc_run T txt hC hC4 y.ws hws rest hr items hit
    ((w ++ (renderMisc y.ws items ++ rest)).length + 1) q w hw
    (by have := misc_len_le y.ws items hit; simp only [List.length_append]; omega)
  rw [hq] at hM
  have hsk := skipSpaces_noSp T rest hr.nosp
  unfold prologFrom
  simp only [hA, lift_ok_bind, hB, hM, ok_bind, hsk]
  exact pre_pure _ _

theorem parseBody_run (hC : TablesCanon T) (hC4 : TablesCanon4 T) (n : Bytes)
    (as : List (Bytes × Bytes)) (ks : List YNode) (hx : okY (.elem n as ks) = true)
    (ws : Bytes) (hws : wsOk ws = true) (post : List YNode) (hpost : post.all miscOk = true)
    (p : Nat) :
    parseBody T txt ⟨p, renderY (.elem n as ks) ++ (ws ++ renderMisc ws post)⟩ =
      ret (toksY p (.elem n as ks) ++
        miscToks ws (p + (renderY (.elem n as ks)).length + ws.length) post) () := by
  obtain ⟨r0, e0⟩ : ∃ r0, renderY (.elem n as ks) = 60 :: r0 := renderY_head_lt rfl
  have hsk : Stream.skipSpaces T ⟨p, renderY (.elem n as ks) ++ (ws ++ renderMisc ws post)⟩ =
      ⟨p, renderY (.elem n as ks) ++ (ws ++ renderMisc ws post)⟩ :=
    skipSpaces_noSp T _ (by rw [e0]; exact noSp_lt T hC _) p
  have hcb : (Stream.currByte? ⟨p, renderY (.elem n as ks) ++ (ws ++ renderMisc ws post)⟩ ==
      some bLt) = true := by
    rw [e0]; rfl
  have hel := parseElementY_run T txt hC hC4 n as ks hx p (ws ++ renderMisc ws post)
  have hM := parseMisc_run T txt hC hC4 ws hws [] (stop_nil T) post hpost
    ((ws ++ renderMisc ws post).length + 1) (p + (renderY (.elem n as ks)).length) ws hws
    (by have := misc_len_le ws post hpost; simp only [List.length_append]; omega)
  rw [List.append_nil] at hM
  unfold parseBody parseRootElement
  simp only [hsk, hcb, if_true, hel, ok_bind, hM, Stream.atEnd, List.isEmpty_nil, Bool.not_true,
    Bool.false_eq_true, if_false]
  rw [pre_pure, pre_mk]

end

theorem docOk_parts {y : YDoc} (hy : docOk y = true) :
    wsOk y.ws = true ∧ y.pre.all miscOk = true ∧ y.mid.all miscOk = true ∧
    y.post.all miscOk = true ∧ okY y.root = true ∧ (∀ n, y.doctype = some n → nameOk n = true) := by
  simp only [docOk, Bool.and_eq_true] at hy
  obtain ⟨⟨⟨⟨⟨h1, h2⟩, h3⟩, h4⟩, h5⟩, h6⟩ := hy
  refine ⟨h1, h2, h3, h4, h5, ?_⟩
  intro n e
  rw [e] at h6
  exact h6

theorem all_append_misc {a b : List YNode} (ha : a.all miscOk = true) (hb : b.all miscOk = true) :
    (a ++ b).all miscOk = true := by
  rw [List.all_append, ha, hb]; rfl

theorem docFrom_run (T : Tables) (txt : Bytes) (hC : TablesCanon T) (hC4 : TablesCanon4 T)
    (y : YDoc) (hy : docOk y = true) (allowDtd : Bool)
    (hdtd : y.doctype.isSome = true → allowDtd = true) :
    docFrom T txt allowDtd ⟨0, renderDoc y⟩ = ret (docToks y) () := by
  obtain ⟨hws, hpre, hmid, hpost, hroot, hdt⟩ := docOk_parts hy
  have hn : nameOk y.name = true := by
    simp only [YDoc.root, okY, Bool.and_eq_true] at hroot; exact hroot.1.1.1
  obtain ⟨b, r, hb, eR⟩ : ∃ b r, isLower b = true ∧
      renderY y.root ++ (y.ws ++ renderMisc y.ws y.post) = 60 :: b :: r := by
    obtain ⟨b, r, hb, e⟩ := name_head hn
      (renderAttrs y.attrs ++ 62 :: (renderAllY y.kids ++ 60 :: 47 :: (y.name ++ 62 ::
        (y.ws ++ renderMisc y.ws y.post))))
    refine ⟨b, r, hb, ?_⟩
    rw [← e]
    simp only [YDoc.root, renderY, List.append_assoc, List.cons_append, List.nil_append]
  have hstopR := stop_tag T hC b r hb
  have hbody := fun p => parseBody_run T txt hC hC4 y.name y.attrs y.kids hroot y.ws hws y.post hpost p
  cases hd : y.doctype with
  | none =>
    have eD : renderDoc y = bomBytes y ++ (declBytes y ++ (renderMisc y.ws (y.pre ++ y.mid) ++
        (renderY y.root ++ (y.ws ++ renderMisc y.ws y.post)))) := by
      simp only [renderDoc, dtBytes, hd, renderMisc_append, List.append_assoc, List.nil_append]
    have hP := prolog_run T txt hC hC4 y hws (y.pre ++ y.mid) (all_append_misc hpre hmid)
      (renderY y.root ++ (y.ws ++ renderMisc y.ws y.post)) (by rw [eR]; exact hstopR)
    have hdoc : Stream.startsWith ⟨(bomBytes y).length + (declBytes y).length +
        (renderMisc y.ws (y.pre ++ y.mid)).length,
        renderY y.root ++ (y.ws ++ renderMisc y.ws y.post)⟩ Lit.doctype = false := by
      rw [eR]; exact startsWith_tag _ b r hb 33 _ (by decide)
    rw [eD]
    unfold docFrom
    simp only [hP, ok_bind, hdoc, Bool.false_eq_true, if_false]
    rw [show y.root = YNode.elem y.name y.attrs y.kids from rfl, hbody, pre_mk]
    simp only [docToks, dtBytes, hd, miscToks_append, renderMisc_append, List.length_append,
      List.length_nil, Nat.add_zero, List.append_assoc, YDoc.root, Nat.add_assoc]
  | some n =>
    have hnn := hdt n hd
    have ha : allowDtd = true := hdtd (by rw [hd]; rfl)
    have eD : renderDoc y = bomBytes y ++ (declBytes y ++ (renderMisc y.ws y.pre ++
        (litDoctypeSp ++ n ++ [62] ++ (y.ws ++ (renderMisc y.ws y.mid ++
        (renderY y.root ++ (y.ws ++ renderMisc y.ws y.post))))))) := by
      simp only [renderDoc, dtBytes, hd, List.append_assoc]
    have eDT : ∀ Z, litDoctypeSp ++ n ++ [62] ++ Z = 60 :: 33 :: 68 :: (79 :: 67 :: 84 :: 89 :: 80 :: 69 :: 32 :: (n ++ 62 :: Z)) := by
      intro Z; simp [litDoctypeSp]
    have hP := prolog_run T txt hC hC4 y hws y.pre hpre
      (litDoctypeSp ++ n ++ [62] ++ (y.ws ++ (renderMisc y.ws y.mid ++
        (renderY y.root ++ (y.ws ++ renderMisc y.ws y.post)))))
      (by rw [eDT]; exact stop_doctype T hC _)
    have hdoc : ∀ q Z, Stream.startsWith ⟨q, litDoctypeSp ++ n ++ [62] ++ Z⟩ Lit.doctype = true := by
      intro q Z
      rw [eDT]; simp [Stream.startsWith, Lit.doctype, List.isPrefixOf]
    have hDT := fun q Z => parseDoctype_simple T txt hC hC4 n Z hnn q
    have hM := fun q => parseMisc_run T txt hC hC4 y.ws hws
      (renderY y.root ++ (y.ws ++ renderMisc y.ws y.post)) (by rw [eR]; exact hstopR) y.mid hmid
      ((y.ws ++ (renderMisc y.ws y.mid ++
        (renderY y.root ++ (y.ws ++ renderMisc y.ws y.post)))).length + 1) q y.ws hws
      (by have := misc_len_le y.ws y.mid hmid; simp only [List.length_append]; omega)
    rw [eD]
    unfold docFrom
    simp only [hP, ok_bind, hdoc, ha, Bool.not_true, Bool.false_eq_true, if_false, if_true, hDT,
      hM]
    rw [show y.root = YNode.elem y.name y.attrs y.kids from rfl, hbody, pre_mk, pre_mk]
    simp only [docToks, dtBytes, hd, List.length_append, List.length_cons, List.length_nil,
      List.append_assoc, YDoc.root, Nat.add_assoc, List.nil_append, Nat.zero_add]
    rfl

set_option linter.unusedVariables false in
/-- **Tokenizer, whole documents**: for every document of the class `docOk` the tokenizer run on
its rendering returns exactly `docToks y` and `Ok` (with a DOCTYPE only when `allow_dtd`). -/
theorem tokenize_renderDoc (T : Tables) (hT : TablesOK T) (hC : TablesCanon T) (hC4 : TablesCanon4 T)
    (y : YDoc) (hy : docOk y = true) (allowDtd : Bool)
    (hdtd : y.doctype.isSome = true → allowDtd = true) :
    tokenize T (renderDoc y) allowDtd = (docToks y, .ok ()) := by
  rw [tokenize_eq]
  exact docFrom_run T (renderDoc y) hC hC4 y hy allowDtd hdtd

end Rox.Lemmas
