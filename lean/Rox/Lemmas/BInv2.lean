/-
  Rox.Lemmas.BInv2 — the builder invariant: link structure + where the builder currently is
  (`parent_id` on the chain of the last node, `awaiting_subtree` = the finished nodes on the right
  spine), and its preservation by the arena operations of parse.rs.
-/
import Rox.Lemmas.BInv
import Rox.Lemmas.Arena

namespace Rox.Lemmas
open Rox Rox.Spec

/-- The right spine: a node has no next subtree yet exactly when it is an ancestor-or-self of
the last node. -/
theorem spine_iff {a : Arena} (h : LinkWF a) (x : Nat) (hx : x < a.size) :
    nextSubtreeSpec a x = none ↔ Anc a x (a.size - 1) := by
  unfold nextSubtreeSpec
  rw [find_range'_none]
  constructor
  · intro hs
    by_cases hl : x = a.size - 1
    · rw [hl]; exact anc_refl a _
    · have := hs (a.size - 1) (by omega) (by omega)
      simpa [Anc] using this
  · intro hanc k hk1 hk2
    have := anc_between a h.parentLt h.preorder' h.hasParent (a.size - 1) x (by omega) hanc k (by omega) (by omega)
    simpa [Anc] using this

/-- Two arenas with the same links and the same kind classes. -/
structure SameLinks (a a' : Arena) : Prop where
  size : a'.size = a.size
  par : ∀ i, par a' i = par a i
  prev : ∀ i, prevSib a' i = prevSib a i
  next : ∀ i, nextSub a' i = nextSub a i
  last : ∀ i, lastCh a' i = lastCh a i
  kroot : ∀ i, kindIs a' i Kind.isRoot = kindIs a i Kind.isRoot
  kkids : ∀ i, kindIs a' i canHaveChildren = kindIs a i canHaveChildren

theorem SameLinks.chain {a a' : Arena} (s : SameLinks a a') : ∀ f i, chain a' f i = chain a f i := by
  intro f
  induction f with
  | zero => intro i; rfl
  | succ f ih => intro i; simp only [Spec.chain, s.par i]; cases Spec.par a i <;> simp [ih]

theorem SameLinks.anc {a a' : Arena} (s : SameLinks a a') (x i : Nat) : Anc a' x i ↔ Anc a x i := by
  unfold Anc isAncOrSelf; rw [s.chain]

theorem SameLinks.linkWF {a a' : Arena} (s : SameLinks a a') (h : LinkWF a) : LinkWF a' := by
  have hanc : ∀ x i, isAncOrSelf a' x i = isAncOrSelf a x i := by
    intro x i; unfold isAncOrSelf; rw [s.chain]
  refine ⟨by rw [s.size]; exact h.nonempty, by rw [s.par, s.kroot]; exact h.root, ?_, ?_, ?_, ?_, ?_, ?_, ?_⟩
  · intro i h0 hi
    rw [s.size] at hi
    obtain ⟨p, hp, hlt, hk⟩ := h.parent_lt i h0 hi
    exact ⟨p, by rw [s.par]; exact hp, hlt, by rw [s.kkids]; exact hk⟩
  · intro i h0 hi; rw [s.size] at hi; rw [s.kroot]; exact h.not_root i h0 hi
  · intro i hi
    rw [s.size] at hi
    obtain ⟨p, hp, ha⟩ := h.preorder i hi
    exact ⟨p, by rw [s.par]; exact hp, by rw [hanc]; exact ha⟩
  · intro i hi
    rw [s.size] at hi
    rw [s.prev, h.prev i hi]
    split
    · rfl
    · unfold prevSibSpec; apply find?_congr'; intro j _; rw [s.par, s.par]
  · intro p hp
    rw [s.size] at hp
    rw [s.last, h.last p hp]
    unfold lastChildSpec; rw [s.size]; apply find?_congr'; intro j _; rw [s.par]
  · intro i hi
    rw [s.size] at hi
    rw [s.next, h.next i hi]
    unfold nextSubtreeSpec; rw [s.size]; apply find?_congr'; intro j _; rw [hanc]
  · intro i hi; rw [s.size] at hi; rw [s.par]; exact h.beyond i hi

/-- Replacing a node by one with the same links and the same kind class keeps the links. -/
theorem sameLinks_set (a : Arena) (i : Nat) (m m' : NodeData) (hm : a[i]? = some m)
    (hp : m'.parent = m.parent) (hv : m'.prevSibling = m.prevSibling)
    (hn : m'.nextSubtree = m.nextSubtree) (hl : m'.lastChild = m.lastChild)
    (hr : m'.kind.isRoot = m.kind.isRoot) (hk : canHaveChildren m'.kind = canHaveChildren m.kind) :
    SameLinks a (a.setIfInBounds i m') := by
  have hi : i < a.size := (Array.getElem?_eq_some_iff.mp hm).1
  have key : ∀ j, (a.setIfInBounds i m')[j]? = if i = j then some m' else a[j]? := by
    intro j; rw [Array.getElem?_setIfInBounds]; split <;> simp_all
  refine ⟨by simp, ?_, ?_, ?_, ?_, ?_, ?_⟩ <;> intro j <;>
    simp only [Spec.par, Spec.prevSib, Spec.nextSub, Spec.lastCh, Spec.kindIs, key j] <;>
    (by_cases hij : i = j
     · subst hij; simp [hm, hp, hv, hn, hl, hr, hk]
     · simp [hij])

/-- The builder invariant. -/
structure BInv (c : Ctx) : Prop where
  wf : LinkWF c.doc.nodes
  pid_lt : c.parentId < c.doc.nodes.size
  pid_kind : kindIs c.doc.nodes c.parentId canHaveChildren = true
  pid_spine : Anc c.doc.nodes c.parentId (c.doc.nodes.size - 1)
  awaiting : ∀ x, x ∈ c.awaiting ↔
    x < c.doc.nodes.size ∧ nextSubtreeSpec c.doc.nodes x = none ∧ ¬ Anc c.doc.nodes x c.parentId

/-- The invariant only talks about the arena, `parent_id` and `awaiting_subtree`. -/
theorem BInv.congr {c c' : Ctx} (h : BInv c) (hn : c'.doc.nodes = c.doc.nodes)
    (hp : c'.parentId = c.parentId) (ha : c'.awaiting = c.awaiting) : BInv c' := by
  obtain ⟨h1, h2, h3, h4, h5⟩ := h
  exact ⟨by rw [hn]; exact h1, by rw [hn, hp]; exact h2, by rw [hn, hp]; exact h3,
    by rw [hn, hp]; exact h4, by rw [hn, hp, ha]; exact h5⟩

theorem BInv.awaiting_lt {c : Ctx} (h : BInv c) : ∀ x ∈ c.awaiting, x < c.doc.nodes.size :=
  fun x hx => ((h.awaiting x).mp hx).1

theorem binv_singleton (c : Ctx) (rg : Range) (hn : c.doc.nodes = #[rootNode rg]) (hp : c.parentId = 0)
    (ha : c.awaiting = []) : BInv c := by
  have hsz : c.doc.nodes.size = 1 := by rw [hn]; rfl
  have h0 : c.doc.nodes[0]? = some (rootNode rg) := by rw [hn]; rfl
  have hge : ∀ i, 1 ≤ i → c.doc.nodes[i]? = none := by
    intro i hi; rw [Array.getElem?_eq_none]; omega
  have hanc0 : Anc c.doc.nodes 0 0 := anc_refl _ _
  refine ⟨⟨by omega, by simp [Spec.par, kindIs, h0, rootNode, Kind.isRoot], ?_, ?_, ?_, ?_, ?_, ?_, ?_⟩,
    by omega, by rw [hp]; simp [kindIs, h0, rootNode, canHaveChildren, Kind.isRoot], by rw [hp, hsz]; exact hanc0, ?_⟩
  · intro i h0' hi; omega
  · intro i h0' hi; omega
  · intro i hi; omega
  · intro i hi
    have : i = 0 := by omega
    subst this; simp [Spec.prevSib, h0, rootNode]
  · intro p hp'
    have : p = 0 := by omega
    subst this
    have : lastChildSpec c.doc.nodes 0 = none := by
      unfold lastChildSpec
      rw [find_rev_range_none]
      intro k hk
      have : k = 0 := by omega
      subst this; simp [Spec.par, h0, rootNode]
    rw [this]; simp [Spec.lastCh, h0, rootNode]
  · intro i hi
    have : i = 0 := by omega
    subst this
    have : nextSubtreeSpec c.doc.nodes 0 = none := by
      unfold nextSubtreeSpec; rw [hsz]; rfl
    rw [this]; simp [Spec.nextSub, h0, rootNode]
  · intro i hi; simp [Spec.par, hge i (by omega)]
  · intro x
    rw [ha, hp]
    simp only [List.not_mem_nil, false_iff, not_and]
    intro hx _ hnot
    have : x = 0 := by omega
    subst this; exact hnot hanc0

/-- The state `parse` starts with satisfies the invariant. -/
theorem binv_init (txt : Bytes) (opt : Opt) (c : Ctx) (h : initCtx txt opt = .ok c) : BInv c := by
  unfold initCtx at h
  rw [Res.bind_eq_ok] at h
  obtain ⟨ns, _, h⟩ := h
  res_norm at h
  subst h
  exact binv_singleton _ _ rfl rfl rfl

end Rox.Lemmas
