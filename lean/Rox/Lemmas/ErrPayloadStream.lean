/-
  Rox.Lemmas.ErrPayloadStream — the cursor primitives of `Rox.Stream` in the payload logic: they
  keep the cursor inside the input, the spans they return are pieces of the input, a qualified name
  is one piece, and the errors they raise carry bytes / characters of the input.
-/
import Rox.Lemmas.ErrPayloadBase

namespace Rox.Lemmas.EP
open Rox

/-- a reference names an entity by a piece of the input -/
def RefOk (txt : Bytes) : Reference → Prop
  | .entity n => n.bytes <:+: txt
  | .char _ => True

/-- the first colon of a scanned qualified name -/
def QInv (start : Nat) (all : Bytes) (split : Option Nat) : Prop :=
  ∀ sp, split = some sp → start ≤ sp ∧ all[sp - start]? = some bColon

theorem getElem?_append_some {α} {l m : List α} {i : Nat} {x : α} (h : l[i]? = some x) :
    (l ++ m)[i]? = some x := by
  have hi : i < l.length := by
    apply Classical.byContradiction
    intro hc
    rw [List.getElem?_eq_none (by omega)] at h; cases h
  rw [List.getElem?_append_left hi]; exact h

theorem split_at {α} : ∀ (l : List α) (k : Nat) (x : α), l[k]? = some x →
    l.take k ++ x :: l.drop (k + 1) = l
  | [], k, x, h => by simp at h
  | a :: l, 0, x, h => by simp at h; simp [h]
  | a :: l, k + 1, x, h => by
    simp only [List.getElem?_cons_succ] at h
    simp [split_at l k x h]

theorem QInv.append {start : Nat} {all : Bytes} {split : Option Nat} (h : QInv start all split)
    (m : Bytes) : QInv start (all ++ m) split :=
  fun sp hsp => ⟨(h sp hsp).1, getElem?_append_some (h sp hsp).2⟩

section
variable (T : Tables) (txt : Bytes)

theorem advance_ht {s : Stream} (hs : Sub txt s) (n : Nat) : HT txt (s.advance n) (Sub txt) := by
  unfold Stream.advance
  split
  · exact ht_ok _ _ (drop_infix n hs)
  · exact ht_panic _ _

theorem currByte_ht (s : Stream) : HT txt s.currByte (fun _ => True) := by
  unfold Stream.currByte; ht

theorem head_mem {s : Stream} (hs : Sub txt s) {b : UInt8} {r : Bytes} (hr : s.rest = b :: r) :
    b ∈ txt := mem_of_infix hs (by rw [hr]; simp)

theorem tail_sub {s : Stream} (hs : Sub txt s) {b : UInt8} {r : Bytes} (hr : s.rest = b :: r)
    (p : Nat) : Sub txt ⟨p, r⟩ := by
  unfold Sub at hs ⊢; rw [hr] at hs; exact tail_infix hs

theorem consumeByte_ht {s : Stream} (hs : Sub txt s) (c : UInt8) :
    HT txt (s.consumeByte txt c) (Sub txt) := by
  unfold Stream.consumeByte
  split
  · ht
  · rename_i b r hr
    split
    · exact ht_errAt _ _ _ (fun _ => head_mem txt hs hr)
    · exact ht_ok _ _ (tail_sub txt hs hr _)

theorem tryConsumeByte_sub {s : Stream} (hs : Sub txt s) (c : UInt8) :
    Sub txt (s.tryConsumeByte c).1 := by
  unfold Stream.tryConsumeByte
  split
  · rename_i b r hr
    split
    · exact tail_sub txt hs hr _
    · exact hs
  · exact hs

theorem skipString_ht {s : Stream} (hs : Sub txt s) (lit : Bytes) :
    HT txt (s.skipString txt lit) (Sub txt) := by
  unfold Stream.skipString
  split
  · ht
  · exact advance_ht txt hs _

theorem skipSpacesAux_suffix : ∀ (l : Bytes) (pos : Nat), (Stream.skipSpacesAux T pos l).rest <:+ l
  | [], pos => by simp [Stream.skipSpacesAux]
  | b :: r, pos => by
    simp only [Stream.skipSpacesAux]
    split
    · exact (skipSpacesAux_suffix r (pos + 1)).trans (List.suffix_cons b r)
    · exact List.suffix_refl _

theorem skipSpaces_sub {s : Stream} (hs : Sub txt s) : Sub txt (s.skipSpaces T) :=
  (skipSpacesAux_suffix T s.rest s.pos).isInfix.trans hs

theorem spanBytesAux_eq (f : UInt8 → Bool) : ∀ (l : Bytes) (pos : Nat) (acc : Bytes),
    (Stream.spanBytesAux f pos acc l).2 ++ (Stream.spanBytesAux f pos acc l).1.rest = acc.reverse ++ l
  | [], pos, acc => by simp [Stream.spanBytesAux]
  | b :: r, pos, acc => by
    simp only [Stream.spanBytesAux]
    split
    · rw [spanBytesAux_eq f r (pos + 1) (b :: acc)]; simp
    · simp

theorem consumeBytes_sub {s : Stream} (hs : Sub txt s) (f : UInt8 → Bool) :
    Sub txt (s.consumeBytes f).1 ∧ (s.consumeBytes f).2.bytes <:+: txt := by
  have h := spanBytesAux_eq f s.rest s.pos []
  simp only [List.reverse_nil, List.nil_append] at h
  unfold Stream.consumeBytes
  revert h
  generalize Stream.spanBytesAux f s.pos [] s.rest = res
  obtain ⟨s', run⟩ := res
  intro h
  simp only at h ⊢
  unfold Sub at hs ⊢
  rw [← h] at hs
  exact ⟨infix_of_append_right hs, infix_of_append_left hs⟩

theorem consumeSpaces_ht {s : Stream} (hs : Sub txt s) : HT txt (s.consumeSpaces T txt) (Sub txt) := by
  unfold Stream.consumeSpaces
  split
  · ht
  · rename_i b r hr
    split
    · exact ht_errAt _ _ _ (fun _ => head_mem txt hs hr)
    · exact ht_ok _ _ (skipSpaces_sub T txt hs)

theorem consumeEq_ht {s : Stream} (hs : Sub txt s) : HT txt (s.consumeEq T txt) (Sub txt) := by
  unfold Stream.consumeEq
  apply ht_bind _ _ _ (consumeByte_ht txt (skipSpaces_sub T txt hs) _)
  intro s1 h1
  exact ht_pure _ _ (skipSpaces_sub T txt h1)

theorem consumeQuote_ht {s : Stream} (hs : Sub txt s) :
    HT txt (s.consumeQuote txt) (fun p => Sub txt p.1) := by
  unfold Stream.consumeQuote
  split
  · ht
  · rename_i b r hr
    split
    · exact ht_ok _ _ (tail_sub txt hs hr _)
    · exact ht_errAt _ _ _ (fun _ => head_mem txt hs hr)

variable (hv : ValidUtf8 txt)
include hv

theorem skipCharsAux_ht (f : Stream → Nat → Bool) : ∀ (fuel : Nat) (s : Stream) (acc : Bytes),
    (acc.reverse ++ s.rest) <:+: txt →
    HT txt (Stream.skipCharsAux T txt f fuel s acc) (fun p => (p.2 ++ p.1.rest) <:+: txt) := by
  intro fuel
  induction fuel with
  | zero => intro s acc h; unfold Stream.skipCharsAux; exact ht_fuel _
  | succ n ih =>
    intro s acc h
    unfold Stream.skipCharsAux
    split
    · exact ht_ok _ _ h
    · split
      · exact ht_panic _ _
      · rename_i c w hd
        split
        · exact ht_errAt _ _ _ (fun _ => decode_infix txt hv s.rest (infix_of_append_right h) c w hd)
        · split
          · split
            · apply ih
              simpa using h
            · exact ht_panic _ _
          · exact ht_ok _ _ h

theorem consumeChars_ht {s : Stream} (hs : Sub txt s) (f : Stream → Nat → Bool) :
    HT txt (s.consumeChars T txt f) (fun p => Sub txt p.1 ∧ p.2.bytes <:+: txt) := by
  unfold Stream.consumeChars
  apply ht_bind _ _ _ (skipCharsAux_ht T txt hv f _ s [] (by simpa [Sub] using hs))
  rintro ⟨s', run⟩ h
  exact ht_pure _ _ ⟨infix_of_append_right h, infix_of_append_left h⟩

theorem skipXmlChars_ht {s : Stream} (hs : Sub txt s) : HT txt (s.skipXmlChars T txt) (Sub txt) := by
  unfold Stream.skipXmlChars
  apply ht_bind _ _ _ (skipCharsAux_ht T txt hv _ _ s [] (by simpa [Sub] using hs))
  rintro ⟨s', run⟩ h
  exact ht_pure _ _ (infix_of_append_right h)

omit hv

theorem advanceUntil2_ht {s : Stream} (hs : Sub txt s) (a b : UInt8) :
    HT txt (s.advanceUntil2 a b) (fun p => Sub txt p.1 ∧ p.2.bytes <:+: txt) := by
  have h := spanBytesAux_eq (fun x => x != a && x != b) s.rest s.pos []
  simp only [List.reverse_nil, List.nil_append] at h
  unfold Stream.advanceUntil2
  revert h
  generalize Stream.spanBytesAux (fun x => x != a && x != b) s.pos [] s.rest = res
  obtain ⟨s', run⟩ := res
  intro h
  simp only at h ⊢
  unfold Sub at hs
  rw [← h] at hs
  split
  · ht
  · exact ht_ok _ _ ⟨infix_of_append_right hs, infix_of_append_left hs⟩

theorem skipNameTail_ht : ∀ (fuel : Nat) (s : Stream) (acc : Bytes),
    (acc.reverse ++ s.rest) <:+: txt →
    HT txt (Stream.skipNameTail T fuel s acc) (fun p => (p.2 ++ p.1.rest) <:+: txt) := by
  intro fuel
  induction fuel with
  | zero => intro s acc h; unfold Stream.skipNameTail; exact ht_fuel _
  | succ n ih =>
    intro s acc h
    unfold Stream.skipNameTail
    split
    · exact ht_ok _ _ h
    · split
      · exact ht_panic _ _
      · split
        · split
          · apply ih
            simpa using h
          · exact ht_panic _ _
        · exact ht_ok _ _ h

theorem skipName_ht {s : Stream} (hs : Sub txt s) :
    HT txt (s.skipName T txt) (fun p => Sub txt p.1 ∧ p.2.bytes <:+: txt) := by
  unfold Stream.skipName
  split
  · exact ht_ok _ _ ⟨hs, List.nil_infix⟩
  · split
    · exact ht_panic _ _
    · split
      · split
        · apply ht_bind _ _ _ (skipNameTail_ht T txt _ _ _ (by simpa [Sub] using hs))
          rintro ⟨s', run⟩ h
          exact ht_pure _ _ ⟨infix_of_append_right h, infix_of_append_left h⟩
        · exact ht_panic _ _
      · ht

theorem consumeName_ht {s : Stream} (hs : Sub txt s) :
    HT txt (s.consumeName T txt) (fun p => Sub txt p.1 ∧ p.2.bytes <:+: txt) := by
  unfold Stream.consumeName
  apply ht_bind _ _ _ (skipName_ht T txt hs)
  rintro ⟨s', name⟩ h
  dsimp only
  split
  · ht
  · exact ht_pure _ _ h

theorem qnameLoop_ht (start : Nat) : ∀ (fuel : Nat) (s : Stream) (acc : Bytes) (split : Option Nat),
    (acc.reverse ++ s.rest) <:+: txt → s.pos = start + acc.length → QInv start acc.reverse split →
    HT txt (Stream.qnameLoop T txt start fuel s acc split)
      (fun p => (p.2.1 ++ p.1.rest) <:+: txt ∧ QInv start p.2.1 p.2.2) := by
  intro fuel
  induction fuel with
  | zero => intro s acc split h hp hq; unfold Stream.qnameLoop; exact ht_fuel _
  | succ n ih =>
    intro s acc split h hp hq
    unfold Stream.qnameLoop
    split
    · exact ht_ok _ _ ⟨h, hq⟩
    · rename_i b r hr
      rw [hr] at h
      split
      · split
        · rename_i hc
          have hbc : b = bColon := by simpa using hc
          split
          · apply ih
            · simpa using h
            · simp only [List.length_cons]; omega
            · intro sp hsp
              simp only [Option.some.injEq] at hsp
              subst hsp
              refine ⟨by omega, ?_⟩
              have : s.pos - start = acc.reverse.length := by simp; omega
              rw [this]
              simp [hbc]
          · ht
        · split
          · apply ih
            · simpa using h
            · simp only [List.length_cons]; omega
            · simp only [List.reverse_cons]; exact hq.append _
          · exact ht_ok _ _ ⟨by rw [hr]; exact h, hq⟩
      · split
        · exact ht_panic _ _
        · split
          · split
            · rename_i hw
              apply ih
              · rw [hr]; simpa using h
              · simp only [List.length_append, List.length_reverse, List.length_take]
                rw [Nat.min_eq_left hw]; omega
              · simp only [List.reverse_append, List.reverse_reverse]; exact hq.append _
            · exact ht_panic _ _
          · exact ht_ok _ _ ⟨by rw [hr]; exact h, hq⟩

theorem genQ_split (all : Bytes) (k : Nat) (h : all[k]? = some bColon) :
    genQNameString (all.take k) (all.drop (k + 1)) <:+: all := by
  unfold genQNameString
  split
  · exact (List.drop_suffix _ _).isInfix
  · rw [List.append_assoc, List.singleton_append, split_at all k bColon h]
    exact List.infix_refl _

theorem consumeQName_ht {s : Stream} (hs : Sub txt s) :
    HT txt (s.consumeQName T txt) (fun p => Sub txt p.1 ∧ p.2.1.bytes <:+: txt ∧
      p.2.2.bytes <:+: txt ∧ genQNameString p.2.1.bytes p.2.2.bytes <:+: txt) := by
  unfold Stream.consumeQName
  apply ht_bind _ _ _ (qnameLoop_ht T txt s.pos _ s [] none (by simpa [Sub] using hs) (by simp)
    (by intro sp hsp; cases hsp))
  rintro ⟨s', all, split⟩ ⟨h, hq⟩
  have hall : all <:+: txt := infix_of_append_left h
  have hs' : Sub txt s' := infix_of_append_right h
  cases split with
  | none =>
    dsimp only
    split
    · ht
    · split
      · ht
      · exact ht_pure _ _ ⟨hs', List.nil_infix, hall, by simpa [genQNameString] using hall⟩
  | some sp =>
    dsimp only
    obtain ⟨_, hk⟩ := hq sp rfl
    split
    · ht
    · split
      · ht
      · exact ht_pure _ _ ⟨hs', take_infix _ hall, drop_infix _ hall,
          (genQ_split all _ hk).trans hall⟩

theorem finishRef_sub {s : Stream} (hs : Sub txt s) (r : Reference) : Sub txt (s.finishRef r).1 := by
  unfold Stream.finishRef
  split
  · rename_i b r' hr
    split
    · exact tail_sub txt hs hr _
    · exact hs
  · exact hs

omit txt in
theorem finishRef_ref (s : Stream) (r r' : Reference) (h : (s.finishRef r).2 = some r') : r' = r := by
  unfold Stream.finishRef at h
  split at h
  · split at h
    · simp only [Option.some.injEq] at h; exact h.symm
    · cases h
  · cases h

theorem numericRef_sub {s : Stream} (hs : Sub txt s) (isHex : Bool) :
    Sub txt (s.numericRef T isHex).1 ∧ ∀ r, (s.numericRef T isHex).2 = some r → RefOk txt r := by
  unfold Stream.numericRef
  have hsv : Sub txt (if isHex then s.consumeBytes isHexDigit else s.consumeBytes isDecDigit).1 := by
    split
    · exact (consumeBytes_sub txt hs _).1
    · exact (consumeBytes_sub txt hs _).1
  dsimp only
  revert hsv
  generalize (if isHex = true then s.consumeBytes isHexDigit else s.consumeBytes isDecDigit) = sv
  intro hsv
  cases parseU32 sv.2.bytes (if isHex = true then 16 else 10) with
  | none => exact ⟨hsv, by intro r hr; cases hr⟩
  | some n =>
    dsimp only
    generalize (if isScalar n = true then n else 0xFFFD) = c
    split
    · exact ⟨hsv, by intro r hr; cases hr⟩
    · refine ⟨finishRef_sub txt hsv _, ?_⟩
      intro r hr
      rw [finishRef_ref _ _ _ hr]
      trivial

theorem namedRef_ht {s : Stream} (hs : Sub txt s) :
    HT txt (s.namedRef T txt) (fun p => Sub txt p.1 ∧ ∀ r, p.2 = some r → RefOk txt r) := by
  unfold Stream.namedRef
  have h := consumeName_ht T txt hs
  split
  · exact ht_ok _ _ ⟨hs, by intro r hr; cases hr⟩
  · exact ht_panic _ _
  · exact ht_fuel _
  · rename_i s1 name heq
    obtain ⟨h1, h2⟩ := h.ok _ heq
    refine ht_ok _ _ ⟨finishRef_sub txt h1 _, ?_⟩
    intro r hr
    rw [finishRef_ref _ _ _ hr]
    repeat' split
    all_goals first | trivial | exact h2

theorem consumeReference_ht {s : Stream} (hs : Sub txt s) :
    HT txt (s.consumeReference T txt) (fun p => Sub txt p.1 ∧ ∀ r, p.2 = some r → RefOk txt r) := by
  unfold Stream.consumeReference
  have h1 := tryConsumeByte_sub txt hs bAmp
  dsimp only
  split
  · exact ht_ok _ _ ⟨h1, by intro r hr; cases hr⟩
  · have h2 := tryConsumeByte_sub txt h1 bHash
    split
    · have h3 := tryConsumeByte_sub txt h2 bX
      exact ht_ok _ _ (numericRef_sub T txt h3 _)
    · exact namedRef_ht T txt h2

end

end Rox.Lemmas.EP
