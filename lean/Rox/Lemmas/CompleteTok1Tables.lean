/-
  Rox.Lemmas.CompleteTok1Tables — the table fact of `Rox.Lemmas.CT1.TablesTok` (U+0020 is not a
  name character) holds of the tables extracted from the current build (re-checked whenever
  `Generated.lean` changes).
-/
import Rox.Generated
import Rox.Lemmas.CompleteTok1

namespace Rox.Lemmas.CT1
open Rox

/-- The table fact of Stage A⁻¹ holds of the tables of the build. -/
theorem generated_tables_tok : TablesTok Rox.Generated.tables := by
  refine ⟨?_⟩
  decide

end Rox.Lemmas.CT1
