/-
  Rox.Lemmas.GrammarPrim — Stage A1 of the grammar-soundness proof: what the cursor primitives of
  the tokenizer have checked of the bytes they consumed (characters, names, qualified names, white
  space). Which bytes were consumed and that the cursor stays well-formed is already in the library
  (`Took`, `SOk`, `Step`: Rox/Lemmas/Prims*.lean, TokSpec.lean, Shape.lean); this file adds the
  *content* facts in the vocabulary of `Rox.Spec.Grammar`.
-/
import Rox.Lemmas.GrammarTM
import Rox.Lemmas.Shape
import Rox.Lemmas.GrammarUtf8

namespace Rox.Lemmas
open Rox Rox.Spec.Grammar

/-- the consumed bytes, as an equation -/
theorem Took.eq {s s' : Stream} {run : Bytes} (h : Took s s' run) : s.rest = run ++ s'.rest := by
  obtain ⟨_, _, h3, h4⟩ := h
  rw [h3]
  conv => lhs; rw [← List.take_append_drop run.length s.rest]
  rw [← h4]

/-- a run of characters read from the cursor, each accepted by `P` (which sees the cursor in front
of the character) -/
inductive gp_Run (P : Stream → Nat → Prop) : Stream → List Nat → Stream → Prop
  | nil (s : Stream) : gp_Run P s [] s
  | cons (s : Stream) (c w : Nat) (cs : List Nat) (s' : Stream) :
      decodeChar s.rest = some (c, w) → ValidUtf8 s.rest → P s c →
      gp_Run P ⟨s.pos + w, s.rest.drop w⟩ cs s' → gp_Run P s (c :: cs) s'

theorem gp_Run.took {P : Stream → Nat → Prop} {s s' : Stream} {cs : List Nat} (h : gp_Run P s cs s') :
    Took s s' (enc cs) := by
  induction h with
  | nil s => exact Took.nil s
  | cons s c w cs s' hd hv _ _ ih =>
    obtain ⟨_, _, htk, _, hw, _⟩ := gp_decode_facts _ hv c w hd
    have h1 := took_char (s := s) w hw
    rw [htk] at h1
    rw [gp_enc_cons]
    exact Took.trans h1 ih

theorem gp_Run.all {P : Stream → Nat → Prop} {Q : Nat → Prop} (hQ : ∀ s c, P s c → Q c)
    {s s' : Stream} {cs : List Nat} (h : gp_Run P s cs s') : ∀ c ∈ cs, Q c ∧ c < 0x110000 := by
  induction h with
  | nil s => intro c hc; cases hc
  | cons s c w cs s' hd hv hp _ ih =>
    intro d hd'
    rcases List.mem_cons.mp hd' with rfl | hm
    · exact ⟨hQ _ _ hp, (gp_decode_facts _ hv _ w hd).2.2.2.2.2⟩
    · exact ih d hm

/-- no occurrence of a needle beginning with the ASCII byte `k` starts inside the run, when `P`
refuses `k` in front of the needle -/
theorem gp_Run.free {P : Stream → Nat → Prop} (k : UInt8) (hk : k < 128) (lit' : Bytes)
    (hP : ∀ s c, P s c → ¬ (c = k.toNat ∧ s.startsWith (k :: lit') = true))
    {s s' : Stream} {cs : List Nat} (h : gp_Run P s cs s') : gp_Free (k :: lit') s'.rest (enc cs) := by
  induction h with
  | nil s => trivial
  | cons s c w cs s' hd hv hp hrun ih =>
    obtain ⟨_, _, htk, _, hw, hc⟩ := gp_decode_facts _ hv c w hd
    rw [gp_enc_cons]
    apply gp_free_append _ _ _ _ _ ih
    apply gp_free_encode k hk lit' _ c hc
    intro hh
    apply hP s c hp
    refine ⟨hh.1, ?_⟩
    have he := hrun.took.eq
    simp only at he
    unfold Stream.startsWith
    rw [← List.take_append_drop w s.rest, htk, he]
    exact hh.2

section
variable (T : Tables) (txt : Bytes)

theorem chars_nil : Chars T [] := ⟨[], rfl, by intro c hc; cases hc⟩

theorem chars_append {a b : Bytes} (ha : Chars T a) (hb : Chars T b) : Chars T (a ++ b) := by
  obtain ⟨ca, rfl, ha⟩ := ha
  obtain ⟨cb, rfl, hb⟩ := hb
  refine ⟨ca ++ cb, (gp_enc_append ca cb).symm, ?_⟩
  intro c hc
  rcases List.mem_append.mp hc with h | h
  · exact ha c h
  · exact hb c h

/-- the loop of `consume_chars(f)`: a run of XML characters accepted by `f`, up to the end or a
character `f` refuses -/
theorem gp_skipCharsAux_run (f : Stream → Nat → Bool) :
    ∀ (fuel : Nat) (s : Stream) (acc : Bytes) (s' : Stream) (out : Bytes), ValidUtf8 s.rest →
      Stream.skipCharsAux T txt f fuel s acc = .ok (s', out) →
      ∃ cs, gp_Run (fun s c => charIsXmlChar T c = true ∧ f s c = true) s cs s' ∧
        out = acc.reverse ++ enc cs ∧ ValidUtf8 s'.rest ∧
        (s'.rest = [] ∨ ∃ c w, decodeChar s'.rest = some (c, w) ∧ f s' c = false) := by
  intro fuel
  induction fuel with
  | zero => intro s acc s' out _ h; simp [Stream.skipCharsAux] at h
  | succ n ih =>
    intro s acc s' out hv h
    unfold Stream.skipCharsAux at h
    split at h
    · rename_i hr
      simp only [Res.ok.injEq, Prod.mk.injEq] at h
      obtain ⟨rfl, rfl⟩ := h
      exact ⟨[], gp_Run.nil s, by simp [gp_enc_nil], hv, Or.inl hr⟩
    · split at h
      · simp at h
      · rename_i c w hd
        split at h
        · exact absurd h (errAt_ne_ok _ _ _ _)
        · rename_i hx
          simp only [Bool.not_eq_true, Bool.not_eq_false'] at hx
          split at h
          · rename_i hf
            split at h
            · obtain ⟨_, hv', htk, _, _, _⟩ := gp_decode_facts _ hv c w hd
              obtain ⟨cs, hrun, hout, hv2, hstop⟩ := ih _ _ _ _ hv' h
              refine ⟨c :: cs, gp_Run.cons s c w cs s' hd hv ⟨hx, hf⟩ hrun, ?_, hv2, hstop⟩
              rw [hout, gp_enc_cons, htk]
              simp
            · simp at h
          · rename_i hf
            simp only [Res.ok.injEq, Prod.mk.injEq] at h
            obtain ⟨rfl, rfl⟩ := h
            exact ⟨[], gp_Run.nil s, by simp [gp_enc_nil], hv, Or.inr ⟨c, w, hd, by simpa using hf⟩⟩

theorem gp_consumeChars_run (f : Stream → Nat → Bool) {s s' : Stream} {sp : Span} (hs : SOk txt s)
    (h : s.consumeChars T txt f = .ok (s', sp)) :
    ∃ cs, gp_Run (fun s c => charIsXmlChar T c = true ∧ f s c = true) s cs s' ∧
      sp.bytes = enc cs ∧ ValidUtf8 s'.rest ∧
      (s'.rest = [] ∨ ∃ c w, decodeChar s'.rest = some (c, w) ∧ f s' c = false) := by
  unfold Stream.consumeChars at h
  rw [Res.bind_eq_ok] at h
  obtain ⟨⟨s1, run⟩, hq, h⟩ := h
  res_norm at h
  obtain ⟨rfl, rfl⟩ := h
  obtain ⟨cs, hrun, hout, hv, hstop⟩ := gp_skipCharsAux_run T txt f _ _ _ _ _ hs.utf8 hq
  exact ⟨cs, hrun, by simpa using hout, hv, hstop⟩

/-- `consume_chars(f)` only consumes XML characters -/
theorem consumeChars_chars (f : Stream → Nat → Bool) {s s' : Stream} {sp : Span} (hs : SOk txt s)
    (h : s.consumeChars T txt f = .ok (s', sp)) : Chars T sp.bytes := by
  obtain ⟨cs, hrun, he, _, _⟩ := gp_consumeChars_run T txt f hs h
  exact ⟨cs, he, fun c hc => (hrun.all (Q := fun c => charIsXmlChar T c = true) (fun _ _ h => h.1) c hc).1⟩

/-- if `f` refuses the ASCII character `k`, the byte `k` does not occur in what `consume_chars(f)`
consumed (bytes of multi-byte characters are not ASCII) -/
theorem consumeChars_avoid (f : Stream → Nat → Bool) (k : UInt8) (hk : k < 128)
    (hf : ∀ s c, f s c = true → c ≠ k.toNat) {s s' : Stream} {sp : Span} (hs : SOk txt s)
    (h : s.consumeChars T txt f = .ok (s', sp)) : k ∉ sp.bytes := by
  obtain ⟨cs, hrun, he, _, _⟩ := gp_consumeChars_run T txt f hs h
  rw [he]
  apply gp_enc_avoid k hk
  intro c hc
  have := hrun.all (Q := fun c => c ≠ k.toNat) (fun s c h => hf s c h.2) c hc
  exact ⟨this.2, this.1⟩

/-- `consume_chars(|s, c| !(c == k && s.starts_with(lit)))` with `lit` beginning with the ASCII
byte `k`: the literal does not occur in the consumed bytes -/
theorem consumeChars_noSub (kc : Nat) (k : UInt8) (lit' : Bytes) (hk : k.toNat = kc) (hk128 : k < 128)
    {s s' : Stream} {sp : Span} (hs : SOk txt s)
    (h : s.consumeChars T txt (fun s c => !(c == kc && s.startsWith (k :: lit'))) = .ok (s', sp)) :
    containsSub sp.bytes (k :: lit') = false := by
  obtain ⟨cs, hrun, he, _, _⟩ := gp_consumeChars_run T txt _ hs h
  rw [he]
  apply gp_free_containsSub k lit' s'.rest
  apply hrun.free k hk128 lit'
  rintro s0 c ⟨_, hf⟩ ⟨h1, h2⟩
  subst hk
  simp [h1, h2] at hf

/-- `consume_chars(f)` consumes nothing when it starts at the end or at a character `f` refuses -/
theorem consumeChars_nil_of_stop (f : Stream → Nat → Bool) {s s' : Stream} {sp : Span}
    (h : s.consumeChars T txt f = .ok (s', sp))
    (hstop : s.rest = [] ∨ ∃ c w, decodeChar s.rest = some (c, w) ∧ f s c = false) :
    sp.bytes = [] := by
  unfold Stream.consumeChars at h
  rw [Res.bind_eq_ok] at h
  obtain ⟨⟨s1, run⟩, hq, h⟩ := h
  res_norm at h
  obtain ⟨rfl, rfl⟩ := h
  simp only
  unfold Stream.skipCharsAux at hq
  split at hq
  · simp only [Res.ok.injEq, Prod.mk.injEq] at hq
    rw [← hq.2]; rfl
  · rename_i hne
    rcases hstop with h0 | ⟨c, w, hd, hf⟩
    · exact absurd h0 hne
    · simp only [hd, hf] at hq
      split at hq
      · exact absurd hq (errAt_ne_ok _ _ _ _)
      · simp only [Bool.false_eq_true, if_false, Res.ok.injEq, Prod.mk.injEq] at hq
        rw [← hq.2]; rfl

/-- `consume_chars(|_, c| c != '<')` (character data): stops at the end or in front of `<`, and
consumes something when it does not start there -/
theorem consumeChars_text {s s' : Stream} {sp : Span} (hs : SOk txt s)
    (h : s.consumeChars T txt (fun _ c => c != 60) = .ok (s', sp)) :
    (s'.rest = [] ∨ ∃ r, s'.rest = bLt :: r) ∧ (∀ b r, s.rest = b :: r → b ≠ bLt → sp.bytes ≠ []) := by
  obtain ⟨cs, hrun, he, hv, hstop⟩ := gp_consumeChars_run T txt _ hs h
  have key : ∀ (s0 : Stream), ValidUtf8 s0.rest →
      (s0.rest = [] ∨ ∃ c w, decodeChar s0.rest = some (c, w) ∧ (c != 60) = false) →
      (s0.rest = [] ∨ ∃ r, s0.rest = bLt :: r) := by
    intro s0 hv0 h0
    rcases h0 with h0 | ⟨c, w, hd, hc⟩
    · exact Or.inl h0
    · have : c = 60 := by simpa using hc
      subst this
      obtain ⟨r, hr, _⟩ := gp_decode_ascii_inv _ hv0 60 w hd (by omega)
      exact Or.inr ⟨r, hr⟩
  refine ⟨key s' hv hstop, ?_⟩
  intro b r hr hb hnil
  rw [he] at hnil
  have := gp_enc_eq_nil cs hnil
  subst this
  cases hrun
  rcases key s hs.utf8 hstop with h0 | ⟨r', h0⟩
  · rw [hr] at h0; cases h0
  · rw [hr] at h0
    simp only [List.cons.injEq] at h0
    exact hb h0.1


theorem gp_isXmlStrAscii_chars (hG : TablesGrammar T) : ∀ (l : Bytes) (pos : Nat), (∀ b ∈ l, b < 128) →
    isXmlStrAscii T txt pos l = .ok () → Chars T l := by
  intro l
  induction l with
  | nil => intro _ _ _; exact chars_nil T
  | cons b r ih =>
    intro pos hl h
    simp only [isXmlStrAscii] at h
    split at h
    · exact absurd h (errFrom_ne_ok _ _ _ _)
    · rename_i hx
      simp only [Bool.not_eq_true, Bool.not_eq_false'] at hx
      have hb : b < 128 := hl b (by simp)
      have h1 : Chars T [b] :=
        ⟨[b.toNat], by rw [gp_enc_cons, gp_enc_nil, gp_encode_byte b hb]; rfl, by
          intro c hc
          simp only [List.mem_cons, List.not_mem_nil, or_false] at hc
          subst hc
          exact hG.xmlChar_ascii b hb hx⟩
      exact chars_append T h1 (ih _ (fun x hx => hl x (by simp [hx])) h)

theorem gp_isXmlStrUnicode_chars : ∀ (fuel : Nat) (pos : Nat) (l : Bytes), ValidUtf8 l →
    isXmlStrUnicode T txt fuel pos l = .ok () → Chars T l := by
  intro fuel
  induction fuel with
  | zero => intro pos l _ h; simp [isXmlStrUnicode] at h
  | succ n ih =>
    intro pos l hv h
    cases l with
    | nil => exact chars_nil T
    | cons b r =>
      simp only [isXmlStrUnicode] at h
      split at h
      · simp at h
      · rename_i c w hd
        split at h
        · exact absurd h (errFrom_ne_ok _ _ _ _)
        · rename_i hx
          simp only [Bool.not_eq_true, Bool.not_eq_false'] at hx
          obtain ⟨_, hv', htk, _, _, _⟩ := gp_decode_facts _ hv c w hd
          have h1 : Chars T ((b :: r).take w) :=
            ⟨[c], by rw [gp_enc_cons, gp_enc_nil, htk]; simp, by
              intro d hd'
              simp only [List.mem_cons, List.not_mem_nil, or_false] at hd'
              subst hd'; exact hx⟩
          have := chars_append T h1 (ih _ _ hv' h)
          rw [List.take_append_drop] at this
          exact this

/-- `is_xml_str`: every character of the string is an XML character -/
theorem gram_isXmlStr_chars (hG : TablesGrammar T) (v : Span) (hv : ValidUtf8 v.bytes)
    (h : isXmlStr T txt v = .ok ()) : Chars T v.bytes := by
  unfold isXmlStr at h
  split at h
  · rename_i ha
    unfold isAscii at ha
    rw [List.all_eq_true] at ha
    exact gp_isXmlStrAscii_chars T txt hG _ _ (fun b hb => by simpa using ha b hb) h
  · exact gp_isXmlStrUnicode_chars T txt _ _ _ hv h

/-! ### Names -/

theorem gp_skipNameTail_run :
    ∀ (fuel : Nat) (s : Stream) (acc : Bytes) (s' : Stream) (out : Bytes), ValidUtf8 s.rest →
      Stream.skipNameTail T fuel s acc = .ok (s', out) →
      ∃ cs, gp_Run (fun _ c => charIsName T c = true) s cs s' ∧ out = acc.reverse ++ enc cs := by
  intro fuel
  induction fuel with
  | zero => intro s acc s' out _ h; simp [Stream.skipNameTail] at h
  | succ n ih =>
    intro s acc s' out hv h
    unfold Stream.skipNameTail at h
    split at h
    · simp only [Res.ok.injEq, Prod.mk.injEq] at h
      obtain ⟨rfl, rfl⟩ := h
      exact ⟨[], gp_Run.nil s, by simp [gp_enc_nil]⟩
    · split at h
      · simp at h
      · rename_i c w hd
        split at h
        · rename_i hx
          split at h
          · obtain ⟨_, hv', htk, _, _, _⟩ := gp_decode_facts _ hv c w hd
            obtain ⟨cs, hrun, hout⟩ := ih _ _ _ _ hv' h
            refine ⟨c :: cs, gp_Run.cons s c w cs s' hd hv hx hrun, ?_⟩
            rw [hout, gp_enc_cons, htk]
            simp
          · simp at h
        · simp only [Res.ok.injEq, Prod.mk.injEq] at h
          obtain ⟨rfl, rfl⟩ := h
          exact ⟨[], gp_Run.nil s, by simp [gp_enc_nil]⟩

theorem gp_skipName_name {s s' : Stream} {sp : Span} (hs : SOk txt s)
    (h : s.skipName T txt = .ok (s', sp)) : sp.bytes = [] ∨ Name T sp.bytes := by
  unfold Stream.skipName at h
  split at h
  · simp only [Res.ok.injEq, Prod.mk.injEq] at h
    left; rw [← h.2]
  · split at h
    · simp at h
    · rename_i c w hd
      split at h
      · rename_i hx
        split at h
        · rw [Res.bind_eq_ok] at h
          obtain ⟨⟨s1, run⟩, hq, h⟩ := h
          res_norm at h
          obtain ⟨rfl, rfl⟩ := h
          obtain ⟨_, hv', htk, _, _, _⟩ := gp_decode_facts _ hs.utf8 c w hd
          obtain ⟨cs, hrun, hout⟩ := gp_skipNameTail_run T _ _ _ _ _ hv' hq
          right
          refine ⟨c, cs, ?_, hx, fun d hd' => (hrun.all (Q := fun c => charIsName T c = true) (fun _ _ h => h) d hd').1⟩
          rw [hout, gp_enc_cons, htk]
          simp
        · simp at h
      · exact absurd h (errFrom_ne_ok _ _ _ _)

/-- `consume_name` consumes a `Name` -/
theorem consumeName_name {s s' : Stream} {sp : Span} (hs : SOk txt s)
    (h : s.consumeName T txt = .ok (s', sp)) : Name T sp.bytes := by
  unfold Stream.consumeName at h
  rw [Res.bind_eq_ok] at h
  obtain ⟨⟨s1, name⟩, hq, h⟩ := h
  simp only at h
  split at h
  · exact absurd h (errFrom_ne_ok _ _ _ _)
  · rename_i hne
    res_norm at h
    obtain ⟨rfl, rfl⟩ := h
    rcases gp_skipName_name T txt hs hq with h0 | h0
    · rw [h0] at hne; simp at hne
    · exact h0


/-- the colon bookkeeping of the scanning loop of `consume_qname`, started at `pos` with `split`,
over the characters `cs` -/
def gp_QSplit (pos : Nat) (cs : List Nat) (split split' : Option Nat) : Prop :=
  (split' = split ∧ 58 ∉ cs) ∨
  (split = none ∧ ∃ cs1 cs2, cs = cs1 ++ 58 :: cs2 ∧ 58 ∉ cs1 ∧ 58 ∉ cs2 ∧
    split' = some (pos + (enc cs1).length))

theorem gp_qsplit_cons (pos w c : Nat) (cs : List Nat) (split split' : Option Nat) (hc : c ≠ 58)
    (hw : (encodeChar c).length = w) (h : gp_QSplit (pos + w) cs split split') :
    gp_QSplit pos (c :: cs) split split' := by
  rcases h with ⟨h1, h2⟩ | ⟨h1, cs1, cs2, h2, h3, h4, h5⟩
  · left
    refine ⟨h1, ?_⟩
    intro hm
    rcases List.mem_cons.mp hm with e | e
    · exact hc e.symm
    · exact h2 e
  · right
    refine ⟨h1, c :: cs1, cs2, by rw [h2]; rfl, ?_, h4, ?_⟩
    · intro hm
      rcases List.mem_cons.mp hm with e | e
      · exact hc e.symm
      · exact h3 e
    · rw [h5, gp_enc_cons, List.length_append, hw]
      congr 1; omega

theorem gp_qnameLoop_run (hG : TablesGrammar T) (start : Nat) :
    ∀ (fuel : Nat) (s : Stream) (acc : Bytes) (split : Option Nat) (s' : Stream) (out : Bytes)
      (split' : Option Nat), ValidUtf8 s.rest →
      Stream.qnameLoop T txt start fuel s acc split = .ok (s', out, split') →
      ∃ cs, gp_Run (fun _ c => c = 58 ∨ charIsName T c = true) s cs s' ∧ out = acc.reverse ++ enc cs ∧
        gp_QSplit s.pos cs split split' := by
  intro fuel
  induction fuel with
  | zero => intro s acc split s' out split' _ h; simp [Stream.qnameLoop] at h
  | succ n ih =>
    intro s acc split s' out split' hv h
    unfold Stream.qnameLoop at h
    split at h
    · simp only [Res.ok.injEq, Prod.mk.injEq] at h
      obtain ⟨rfl, rfl, rfl⟩ := h
      exact ⟨[], gp_Run.nil s, by simp [gp_enc_nil], Or.inl ⟨rfl, by simp⟩⟩
    · rename_i b r hr
      split at h
      · rename_i hb
        have hd : decodeChar s.rest = some (b.toNat, 1) := by rw [hr]; exact decodeChar_ascii b r hb
        have hvr : ValidUtf8 r := valid_ascii_tail b r hb (by rw [← hr]; exact hv)
        have hdrop : s.rest.drop 1 = r := by rw [hr]; rfl
        have henc := gp_encode_byte b hb
        split at h
        · rename_i hcol
          have hbc : b = bColon := by simpa using hcol
          split at h
          · obtain ⟨cs, hrun, hout, hq⟩ := ih _ _ _ _ _ _ hvr h
            rw [← hdrop] at hrun
            refine ⟨b.toNat :: cs, gp_Run.cons s b.toNat 1 cs s' hd hv (Or.inl (by rw [hbc]; rfl)) hrun, ?_, ?_⟩
            · rw [hout, gp_enc_cons, henc]; simp
            · rcases hq with ⟨h1, h2⟩ | ⟨h1, _⟩
              · right
                refine ⟨rfl, [], cs, by rw [hbc]; rfl, by simp, h2, ?_⟩
                rw [h1]; rfl
              · cases h1
          · exact absurd h (errFrom_ne_ok _ _ _ _)
        · rename_i hcol
          have hne : b.toNat ≠ 58 := by
            intro e
            apply hcol
            have : b = bColon := UInt8.toNat_inj.mp (by rw [e]; rfl)
            rw [this]; rfl
          split at h
          · rename_i hnm
            obtain ⟨cs, hrun, hout, hq⟩ := ih _ _ _ _ _ _ hvr h
            rw [← hdrop] at hrun
            refine ⟨b.toNat :: cs,
              gp_Run.cons s b.toNat 1 cs s' hd hv (Or.inr (hG.name_ascii b hb hnm)) hrun, ?_, ?_⟩
            · rw [hout, gp_enc_cons, henc]; simp
            · exact gp_qsplit_cons _ 1 _ _ _ _ hne (by rw [henc]; rfl) hq
          · simp only [Res.ok.injEq, Prod.mk.injEq] at h
            obtain ⟨rfl, rfl, rfl⟩ := h
            exact ⟨[], gp_Run.nil s, by simp [gp_enc_nil], Or.inl ⟨rfl, by simp⟩⟩
      · rename_i hb
        split at h
        · simp at h
        · rename_i c w hd
          split at h
          · rename_i hx
            split at h
            · rename_i hw
              obtain ⟨_, hv', htk, _, _, _⟩ := gp_decode_facts _ hv c w hd
              obtain ⟨cs, hrun, hout, hq⟩ := ih _ _ _ _ _ _ hv' h
              have hc : 128 ≤ c := gp_decode_hi b r (by rw [← hr]; exact hv) c w (by rw [← hr]; exact hd) hb
              refine ⟨c :: cs, gp_Run.cons s c w cs s' hd hv (Or.inr hx) hrun, ?_, ?_⟩
              · rw [hout, gp_enc_cons, htk]; simp
              · refine gp_qsplit_cons _ w _ _ _ _ (by omega) ?_ hq
                rw [← htk, List.length_take]; omega
            · simp at h
          · simp only [Res.ok.injEq, Prod.mk.injEq] at h
            obtain ⟨rfl, rfl, rfl⟩ := h
            exact ⟨[], gp_Run.nil s, by simp [gp_enc_nil], Or.inl ⟨rfl, by simp⟩⟩

/-- the local `is_xml_name_start` of `consume_qname` looks at the first character -/
theorem gp_strIsNameStart_enc (hG : TablesGrammar T) (c : Nat) (hc : c < 0x110000) (x : Bytes)
    (h : Stream.strIsNameStart T (encodeChar c ++ x) = true) : charIsNameStart T c = true := by
  cases he : encodeChar c with
  | nil => exact absurd he (gp_encode_ne_nil c)
  | cons b r =>
    have hdec := decode_encode c hc x
    rw [he] at h hdec
    simp only [List.cons_append, Stream.strIsNameStart] at h
    split at h
    · rename_i hb
      obtain ⟨rfl, _⟩ := gp_encode_head_ascii c hc b r he hb
      exact hG.nameStart_ascii b hb h
    · rw [← List.cons_append, hdec] at h
      exact h

/-- a run of name characters without a colon whose first character is a name start character is an
`NCName` -/
theorem gp_ncname_of (hG : TablesGrammar T) (cs : List Nat)
    (hcs : ∀ c ∈ cs, (c = 58 ∨ charIsName T c = true) ∧ c < 0x110000) (h58 : 58 ∉ cs)
    (hst : Stream.strIsNameStart T (enc cs) = true) : NCName T (enc cs) := by
  cases cs with
  | nil => simp [gp_enc_nil, Stream.strIsNameStart] at hst
  | cons c cs' =>
    refine ⟨⟨c, cs', rfl, ?_, ?_⟩, ?_⟩
    · rw [gp_enc_cons] at hst
      exact gp_strIsNameStart_enc T hG c (hcs c (by simp)).2 _ hst
    · intro d hd
      rcases (hcs d (by simp [hd])).1 with e | e
      · subst e; exact absurd (List.mem_cons_of_mem _ hd) h58
      · exact e
    · apply gp_enc_avoid bColon (by decide)
      intro d hd
      refine ⟨(hcs d hd).2, ?_⟩
      intro e
      have : d = 58 := e
      subst this
      exact h58 hd

theorem gp_qparts_none (all : Bytes) (h : bColon ∉ all) : qparts all = ([], all) := by
  unfold qparts
  rw [gp_span_all _ all (by
    intro x hx
    simp only [bne_iff_ne, ne_eq]
    intro e; subst e; exact h hx)]

theorem gp_qparts_some (a l : Bytes) (h : bColon ∉ a) : qparts (a ++ bColon :: l) = (a, l) := by
  unfold qparts
  rw [gp_span_stop _ a bColon l (by
    intro x hx
    simp only [bne_iff_ne, ne_eq]
    intro e; subst e; exact h hx) (by simp)]

/-- `consume_qname` consumes a `QName` (with the leading-colon leniency) and splits it at the
first colon -/
theorem consumeQName_qname (hG : TablesGrammar T) {s s' : Stream} {pfx loc : Span} (hs : SOk txt s)
    (h : s.consumeQName T txt = .ok (s', pfx, loc)) :
    ∃ all, Took s s' all ∧ QName T all ∧ qparts all = (pfx.bytes, loc.bytes) := by
  unfold Stream.consumeQName at h
  rw [Res.bind_eq_ok] at h
  obtain ⟨⟨s1, all, split⟩, hq, h⟩ := h
  obtain ⟨cs, hrun, hout, hsplit⟩ := gp_qnameLoop_run T txt hG s.pos _ s [] none s1 all split hs.utf8 hq
  simp only [List.reverse_nil, List.nil_append] at hout
  subst hout
  have hall := hrun.all (Q := fun c => c = 58 ∨ charIsName T c = true) (fun _ _ h => h)
  rcases hsplit with ⟨rfl, h58⟩ | ⟨_, cs1, cs2, rfl, h1, h2, rfl⟩
  · simp only at h
    split at h
    · exact absurd h (errFrom_ne_ok _ _ _ _)
    · split at h
      · exact absurd h (errFrom_ne_ok _ _ _ _)
      · rename_i hst
        simp only [Bool.not_eq_true, Bool.not_eq_false'] at hst
        res_norm at h
        obtain ⟨rfl, rfl, rfl⟩ := h
        have hnc := gp_ncname_of T hG cs hall h58 hst
        exact ⟨enc cs, hrun.took, Or.inl hnc, gp_qparts_none _ hnc.2⟩
  · have hsub : s.pos + (enc cs1).length - s.pos = (enc cs1).length := by omega
    have hsplitE : enc (cs1 ++ 58 :: cs2) = enc cs1 ++ bColon :: enc cs2 := by
      rw [gp_enc_append, gp_enc_cons, gp_enc_colon]; rfl
    have htake : (enc (cs1 ++ 58 :: cs2)).take (enc cs1).length = enc cs1 := by
      rw [hsplitE, List.take_left]
    have hdrop : (enc (cs1 ++ 58 :: cs2)).drop ((enc cs1).length + 1) = enc cs2 := by
      rw [hsplitE, ← List.drop_drop, List.drop_left]; rfl
    have hall1 : ∀ c ∈ cs1, (c = 58 ∨ charIsName T c = true) ∧ c < 0x110000 :=
      fun c hc => hall c (by simp [hc])
    have hall2 : ∀ c ∈ cs2, (c = 58 ∨ charIsName T c = true) ∧ c < 0x110000 :=
      fun c hc => hall c (by simp [hc])
    simp only [hsub, htake, hdrop] at h
    split at h
    · exact absurd h (errFrom_ne_ok _ _ _ _)
    · rename_i hp
      split at h
      · exact absurd h (errFrom_ne_ok _ _ _ _)
      · rename_i hst
        simp only [Bool.not_eq_true, Bool.not_eq_false'] at hst
        res_norm at h
        obtain ⟨rfl, rfl, rfl⟩ := h
        have hnc2 := gp_ncname_of T hG cs2 hall2 h2 hst
        refine ⟨_, hrun.took, ?_, ?_⟩
        · by_cases he : enc cs1 = []
          · right; right
            exact ⟨enc cs2, hnc2, by rw [hsplitE, he]; rfl⟩
          · right; left
            have hst1 : Stream.strIsNameStart T (enc cs1) = true := by
              cases hh : Stream.strIsNameStart T (enc cs1) with
              | true => rfl
              | false =>
                exfalso; apply hp
                cases hem : (enc cs1) with
                | nil => exact absurd hem he
                | cons _ _ => rw [hem] at hh; simp [hh]
            exact ⟨enc cs1, enc cs2, gp_ncname_of T hG cs1 hall1 h1 hst1, hnc2, by rw [hsplitE]; simp⟩
        · rw [hsplitE]
          apply gp_qparts_some
          apply gp_enc_avoid bColon (by decide)
          intro d hd
          refine ⟨(hall1 d hd).2, ?_⟩
          intro e
          have : d = 58 := e
          subst this
          exact h1 hd

theorem qparts_nil_left {all l : Bytes} (h : qparts all = ([], l)) : all = l ∨ all = bColon :: l := by
  unfold qparts at h
  cases hsp : all.span (· != bColon) with
  | mk a y =>
    obtain ⟨h1, h2⟩ := gp_span_spec _ all a y hsp
    rw [hsp] at h
    cases y with
    | nil =>
      simp only [Prod.mk.injEq] at h
      left; rw [h1, h.2]; simp
    | cons z t =>
      simp only [Prod.mk.injEq] at h
      obtain ⟨rfl, rfl⟩ := h
      have := h2 z t rfl
      simp only [bne_eq_false_iff_eq] at this
      right; rw [h1, this]; rfl


/-! ### White space, `=`, quotes -/

theorem gp_skipSpacesAux_took : ∀ (l : Bytes) (pos : Nat),
    ∃ run, Took ⟨pos, l⟩ (Stream.skipSpacesAux T pos l) run ∧ Sp0 T run ∧
      (∀ b r, l = b :: r → byteIsSpace T b = true → run ≠ []) := by
  intro l
  induction l with
  | nil =>
    intro pos
    exact ⟨[], Took.nil _, (by intro b hb; cases hb), (by intro b r h; cases h)⟩
  | cons b r ih =>
    intro pos
    simp only [Stream.skipSpacesAux]
    split
    · rename_i hb
      obtain ⟨run, ht, hsp, _⟩ := ih (pos + 1)
      have h1 : Took ⟨pos, b :: r⟩ ⟨pos + 1, r⟩ [b] := ⟨by simp, rfl, rfl, rfl⟩
      refine ⟨[b] ++ run, Took.trans h1 ht, ?_, by intro _ _ _ _; simp⟩
      intro x hx
      rcases List.mem_append.mp hx with h | h
      · simp only [List.mem_cons, List.not_mem_nil, or_false] at h
        rw [h]; exact hb
      · exact hsp x h
    · rename_i hb
      refine ⟨[], Took.nil _, (by intro b hb; cases hb), ?_⟩
      intro b' r' h hs
      simp only [List.cons.injEq] at h
      rw [← h.1] at hs
      exact absurd hs hb

theorem skipSpaces_took (s : Stream) :
    ∃ run, Took s (s.skipSpaces T) run ∧ Sp0 T run ∧ (s.startsWithSpace T = true → run ≠ []) := by
  obtain ⟨run, ht, hsp, hne⟩ := gp_skipSpacesAux_took T s.rest s.pos
  refine ⟨run, ht, hsp, ?_⟩
  intro h
  unfold Stream.startsWithSpace at h
  split at h
  · cases h
  · rename_i b r hr
    exact hne b r hr h

theorem consumeSpaces_took {s s' : Stream} (h : s.consumeSpaces T txt = .ok s') :
    ∃ run, Took s s' run ∧ Sp T run := by
  unfold Stream.consumeSpaces at h
  split at h
  · simp at h
  · rename_i b r hr
    split at h
    · exact absurd h (errAt_ne_ok _ _ _ _)
    · rename_i hb
      simp only [Bool.not_eq_true, Bool.not_eq_false'] at hb
      simp only [Res.ok.injEq] at h
      subst h
      obtain ⟨run, ht, hsp, hne⟩ := skipSpaces_took T s
      refine ⟨run, ht, hne ?_, hsp⟩
      unfold Stream.startsWithSpace
      rw [hr]; exact hb

theorem consumeEq_took {s s' : Stream} (h : s.consumeEq T txt = .ok s') :
    ∃ s2 s3, Took s s' (s2 ++ [bEq] ++ s3) ∧ Sp0 T s2 ∧ Sp0 T s3 := by
  unfold Stream.consumeEq at h
  rw [Res.bind_eq_ok] at h
  obtain ⟨s1, hq, h⟩ := h
  res_norm at h
  subst h
  obtain ⟨r2, ht2, hsp2, _⟩ := skipSpaces_took T s
  obtain ⟨r3, ht3, hsp3, _⟩ := skipSpaces_took T s1
  exact ⟨r2, r3, Took.trans (Took.trans ht2 (consumeByte_took bEq hq)) ht3, hsp2, hsp3⟩

theorem consumeQuote_took {s s' : Stream} {q : UInt8} (h : s.consumeQuote txt = .ok (s', q)) :
    Took s s' [q] ∧ (q = bQuot ∨ q = bApos) := by
  unfold Stream.consumeQuote at h
  split at h
  · simp at h
  · rename_i c r hr
    split at h
    · rename_i hc
      simp only [Res.ok.injEq, Prod.mk.injEq] at h
      obtain ⟨rfl, rfl⟩ := h
      refine ⟨⟨by rw [hr]; simp, rfl, by rw [hr]; rfl, by rw [hr]; rfl⟩, ?_⟩
      simp only [Bool.or_eq_true, beq_iff_eq] at hc
      exact hc.symm
    · exact absurd h (errAt_ne_ok _ _ _ _)

/-- the local `consume_spaces` of `parse_declaration` / `parse_pi`: white space, or nothing when
the end of the input or `?>` follows -/
theorem declConsumeSpaces_took {s s' : Stream} (h : declConsumeSpaces T txt s = .ok s') :
    ∃ run, Took s s' run ∧ Sp0 T run ∧
      (run = [] → s'.rest = [] ∨ s'.startsWith Lit.piEnd = true) := by
  unfold declConsumeSpaces at h
  split at h
  · rename_i hsp
    simp only [Res.ok.injEq] at h
    subst h
    obtain ⟨run, ht, hs0, hne⟩ := skipSpaces_took T s
    exact ⟨run, ht, hs0, fun e => absurd e (hne hsp)⟩
  · split at h
    · split at h
      · exact absurd h (errAt_ne_ok _ _ _ _)
      · simp at h
    · rename_i hc
      simp only [Res.ok.injEq] at h
      subst h
      refine ⟨[], Took.nil s, (by intro b hb; cases hb), fun _ => ?_⟩
      simp only [Bool.and_eq_true, Bool.not_eq_true', not_and, Bool.not_eq_false] at hc
      cases hp : s.startsWith Lit.piEnd with
      | true => exact Or.inr rfl
      | false =>
        left
        have := hc hp
        unfold Stream.atEnd at this
        simpa using this

end

end Rox.Lemmas
