/-
  Rox.Lemmas.MirrorNsDefs — the interface between the stages of the proof of
  `Rox.Lemmas.accepted_namespaces_resolve` (`Rox.Lemmas.MirrorNsAll`): a second abstract machine
  `runN` that reads the same flat list of lexical items as `runA` (`Rox.Lemmas.MirrorDefs`) and
  produces, for every start tag, what is to be observed of the namespaces of its element
  (`Rox.Spec.MirrorNs.NsView`) from a stack of scopes.

    Stage B'' (MirrorNsBuild*): the builder's element nodes, read back with `viewNs`, are
                                `(runN initN items).out`
    Stage C'' (MirrorNsAsm):    `(runN initN items).out = nsDoc x` for the abstract document `x`
                                assembled from the items (the same `x` as in `assembleM`)
-/
import Rox.Spec.MirrorNs
import Rox.Lemmas.MirrorDefs

namespace Rox.Lemmas
open Rox Rox.Spec Rox.Spec.Grammar Rox.Spec.Mirror Rox.Spec.MirrorNs

/-! ### The abstract namespace machine -/

/-- what is observed of the element of a start tag `q attrs` below a parent with scope `parent` -/
def nsViewOf (parent : Scope) (q : Bytes) (attrs : List (Bytes × Bytes)) : NsView :=
  (elemNs (scopeOf parent attrs) q, scopeOf parent attrs,
    (attrs.filter fun a => !isNsDecl a.1).map fun a => attrNs (scopeOf parent attrs) a.1)

/-- state of the namespace machine: the views of the elements met so far in document order, the
scopes of the open elements (innermost first; the empty scope of the root node last) -/
structure NStk where
  out : List NsView
  stk : List Scope

/-- the scope of the current parent -/
def NStk.top (n : NStk) : Scope := n.stk.headD []

def stepN (n : NStk) : Item → NStk
  | .stag q attrs _ e =>
    ⟨n.out ++ [nsViewOf n.top q (attrs.map fun a => (a.n, a.v))],
      if e then n.stk else scopeOf n.top (attrs.map fun a => (a.n, a.v)) :: n.stk⟩
  | .etag _ _ => ⟨n.out, n.stk.tail⟩
  | _ => n

def runN : NStk → List Item → NStk
  | n, [] => n
  | n, it :: r => runN (stepN n it) r

/-- no element yet, the scope of the root node -/
def initN : NStk := ⟨[], [[]]⟩

theorem runN_append (n : NStk) (l1 l2 : List Item) : runN n (l1 ++ l2) = runN (runN n l1) l2 := by
  induction l1 generalizing n with
  | nil => rfl
  | cons x r ih => exact ih (stepN n x)

theorem nsOf_elem (parent : Scope) (q : Bytes) (attrs : List (Bytes × Bytes)) (kids : List GNode) :
    nsOf parent (.elem q attrs kids) =
      nsViewOf parent q attrs :: nsKids (scopeOf parent attrs) kids := by
  simp only [nsOf, nsViewOf]

theorem nsKids_nil (parent : Scope) : nsKids parent [] = [] := by
  simp only [nsKids]

theorem nsKids_cons (parent : Scope) (k : GNode) (ks : List GNode) :
    nsKids parent (k :: ks) = nsOf parent k ++ nsKids parent ks := by
  simp only [nsKids]

theorem nsOf_text (parent : Scope) (t : Bytes) : nsOf parent (.text t) = [] := by
  simp only [nsOf]
theorem nsOf_cdata (parent : Scope) (t : Bytes) : nsOf parent (.cdata t) = [] := by
  simp only [nsOf]
theorem nsOf_comment (parent : Scope) (t : Bytes) : nsOf parent (.comment t) = [] := by
  simp only [nsOf]
theorem nsOf_pi (parent : Scope) (t v : Bytes) : nsOf parent (.pi t v) = [] := by
  simp only [nsOf]

/-! ### At most one binding per prefix -/

/-- at most one entry per prefix -/
def NdScope (sc : Scope) : Prop := (sc.map (·.1)).Nodup

/-- what a (prefix, local name) pair declares: `some (some p)` for `xmlns:p` (`p ≠ xml`),
`some none` for `xmlns` -/
def declKey (k : Bytes × Bytes) : Option (Option Bytes) :=
  if k.1 == Lit.xmlns then (if k.2 == Lit.xml then none else some (some k.2))
  else if k.1.isEmpty && k.2 == Lit.xmlns then some none
  else none

theorem declsOf_eq (attrs : List (Bytes × Bytes)) :
    declsOf attrs = attrs.filterMap fun a => (declKey (qparts a.1)).map fun p => (p, decodeAttr a.2) := by
  unfold declsOf
  congr 1
  funext a
  unfold declKey
  split
  · split <;> rfl
  · split <;> rfl

theorem declsOf_nil : declsOf [] = [] := rfl

theorem declsOf_append (l1 l2 : List (Bytes × Bytes)) :
    declsOf (l1 ++ l2) = declsOf l1 ++ declsOf l2 := by
  unfold declsOf
  rw [List.filterMap_append]

theorem declKey_inj {k k' : Bytes × Bytes} {p : Option Bytes} (h : declKey k = some p)
    (h' : declKey k' = some p) : k = k' := by
  obtain ⟨a, b⟩ := k
  obtain ⟨a', b'⟩ := k'
  unfold declKey at h h'
  dsimp only at h h'
  split at h
  · rename_i h1
    split at h
    · cases h
    · split at h'
      · rename_i h1'
        split at h'
        · cases h'
        · simp only [Option.some.injEq] at h h'
          subst h
          simp only [Option.some.injEq] at h'
          subst h'
          have e1 : a = Lit.xmlns := by simpa using h1
          have e2 : a' = Lit.xmlns := by simpa using h1'
          rw [e1, e2]
      · split at h'
        · simp only [Option.some.injEq] at h h'
          subst h'
          cases h
        · cases h'
  · split at h
    · rename_i h1 h2
      simp only [Option.some.injEq] at h
      subst h
      split at h'
      · split at h'
        · cases h'
        · simp only [Option.some.injEq] at h'
          cases h'
      · split at h'
        · rename_i h2'
          simp only [Bool.and_eq_true, List.isEmpty_iff, beq_iff_eq] at h2 h2'
          rw [h2.1, h2.2, h2'.1, h2'.2]
        · cases h'
    · cases h

theorem declsOf_mem_key {attrs : List (Bytes × Bytes)} {p : Option Bytes}
    (h : p ∈ (declsOf attrs).map (·.1)) : ∃ a ∈ attrs, declKey (qparts a.1) = some p := by
  rw [declsOf_eq] at h
  simp only [List.mem_map, List.mem_filterMap, Option.map_eq_some_iff] at h
  obtain ⟨b, ⟨a, ha, p', hp', hb⟩, rfl⟩ := h
  subst hb
  exact ⟨a, ha, hp'⟩

theorem declsOf_nodup (attrs : List (Bytes × Bytes)) (h : (attrs.map fun a => qparts a.1).Nodup) :
    NdScope (declsOf attrs) := by
  unfold NdScope
  induction attrs with
  | nil => exact List.nodup_nil
  | cons a r ih =>
    rw [List.map_cons, List.nodup_cons] at h
    have ihr := ih h.2
    have hc : declsOf (a :: r) = declsOf [a] ++ declsOf r := declsOf_append [a] r
    rw [hc, declsOf_eq [a]]
    simp only [List.filterMap_cons, List.filterMap_nil]
    cases hk : declKey (qparts a.1) with
    | none => simpa using ihr
    | some p =>
      simp only [Option.map_some, List.cons_append, List.nil_append, List.map_cons, List.nodup_cons]
      refine ⟨?_, ihr⟩
      intro hm
      obtain ⟨a', ha', hk'⟩ := declsOf_mem_key hm
      have := declKey_inj hk hk'
      exact h.1 (List.mem_map.mpr ⟨a', ha', this.symm⟩)

theorem scopeOf_nodup (parent : Scope) (attrs : List (Bytes × Bytes)) (hp : NdScope parent)
    (hd : NdScope (declsOf attrs)) : NdScope (scopeOf parent attrs) := by
  unfold NdScope scopeOf at *
  rw [List.map_append, List.nodup_append]
  refine ⟨hd, ?_, ?_⟩
  · exact List.Nodup.sublist (List.Sublist.map _ List.filter_sublist) hp
  · intro x hx y hy hxy
    subst hxy
    simp only [List.mem_map, List.mem_filter] at hy
    obtain ⟨b, ⟨_, hb⟩, hbx⟩ := hy
    simp only [List.mem_map] at hx
    obtain ⟨o, ho, hox⟩ := hx
    have : ((declsOf attrs).any fun o => o.1 == b.1) = true := by
      rw [List.any_eq_true]
      exact ⟨o, ho, by rw [hox, hbx]; simp⟩
    rw [this] at hb
    cases hb

/-- every scope on the stack has at most one entry per prefix -/
def NdStk (stk : List Scope) : Prop := ∀ sc ∈ stk, NdScope sc

theorem ndstk_top {stk : List Scope} (h : NdStk stk) : NdScope (stk.headD []) := by
  cases stk with
  | nil => exact List.nodup_nil
  | cons s r => exact h s (List.mem_cons_self ..)

theorem stepN_nd (T : Tables) (n : NStk) (it : Item) (h : NdStk n.stk) (hs : it.Sem T) :
    NdStk (stepN n it).stk := by
  cases it with
  | stag q attrs s1 e =>
    cases e with
    | true => exact h
    | false =>
      intro sc hsc
      rcases List.mem_cons.mp hsc with rfl | hsc
      · refine scopeOf_nodup _ _ (ndstk_top h) (declsOf_nodup _ ?_)
        have := hs.2
        rw [List.map_map]
        exact this
      · exact h sc hsc
  | etag q s2 =>
    intro sc hsc
    exact h sc (List.mem_of_mem_tail hsc)
  | sp s => exact h
  | comment b => exact h
  | pi t s v => exact h
  | cdata b => exact h
  | text t => exact h

theorem initN_nd : NdStk initN.stk := by
  intro sc hsc
  simp only [initN, List.mem_singleton] at hsc
  subst hsc
  exact List.nodup_nil

end Rox.Lemmas
