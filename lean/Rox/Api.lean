/-
  Rox.Api — the read operations of lib.rs on a `Doc`. A `Node<'a,'input>` is modelled by its
  index; every `unwrap`/`expect`/slice of the real code is a `Res.panic` site.
  -- src: lib.rs:108-220 Document, 941-1464 Node, 1488-1747 iterators
-/
import Rox.Doc

namespace Rox
namespace Api

variable (d : Doc)

/-- `NodeId::new(k)`: `NonZeroU32::new(k + 1).unwrap()`; debug assertion `k < u32::MAX`. -/
def nodeIdNew (k : Nat) : Res Nat :=
  if k < 4294967295 then .ok k else .panic "NodeId::new"

/-- `doc.get_node(id).unwrap()` -/
def getNodeUnwrap (i : Nat) : Res NodeData :=
  match d.nodes[i]? with
  | some n => .ok n
  | none => .panic "get_node.unwrap"

/-- `Document::get_node` -/
def getNode (i : Nat) : Option Nat := if i < d.nodes.size then some i else none

/-- Follow a stored link: `link.map(|id| self.doc.get_node(id).unwrap())`. -/
def follow (link : Option Nat) : Res (Option Nat) :=
  match link with
  | none => .ok none
  | some j => if j < d.nodes.size then .ok (some j) else .panic "get_node.unwrap"

def parent (i : Nat) : Res (Option Nat) := do
  let n ← getNodeUnwrap d i
  follow d n.parent

def prevSibling (i : Nat) : Res (Option Nat) := do
  let n ← getNodeUnwrap d i
  follow d n.prevSibling

def lastChild (i : Nat) : Res (Option Nat) := do
  let n ← getNodeUnwrap d i
  follow d n.lastChild

/-- `Node::next_sibling` (lib.rs:1333-1349) -/
def nextSibling (i : Nat) : Res (Option Nat) := do
  let n ← getNodeUnwrap d i
  match n.nextSubtree with
  | none => pure none
  | some j =>
    let m ← getNodeUnwrap d j
    match m.prevSibling with
    | none => .panic "next_subtree will always have a previous sibling"
    | some p => pure (if p == i then some j else none)

/-- `Node::first_child` (lib.rs:1357-1362) -/
def firstChild (i : Nat) : Res (Option Nat) := do
  let n ← getNodeUnwrap d i
  match n.lastChild with
  | none => pure none
  | some _ =>
    let k ← nodeIdNew (i + 1)
    if k < d.nodes.size then pure (some k) else .panic "get_node.unwrap"

def hasChildren (i : Nat) : Res Bool := do
  let n ← getNodeUnwrap d i
  pure n.lastChild.isSome

def hasSiblings (i : Nat) : Res Bool := do
  let n ← getNodeUnwrap d i
  if n.prevSibling.isSome then pure true
  else
    let ns ← nextSibling d i
    pure ns.isSome

def kindOf (i : Nat) : Res Kind := do
  let n ← getNodeUnwrap d i
  pure n.kind

def isElement (i : Nat) : Res Bool := do
  let k ← kindOf d i
  pure k.isElement

/-! ### Iterators -/

inductive Axis where
  | ancestors | prevSiblings | nextSiblings | firstChildren | lastChildren
deriving Repr, BEq, DecidableEq

def Axis.step (a : Axis) (i : Nat) : Res (Option Nat) :=
  match a with
  | .ancestors => parent d i
  | .prevSiblings => prevSibling d i
  | .nextSiblings => nextSibling d i
  | .firstChildren => firstChild d i
  | .lastChildren => lastChild d i

/-- `AxisIter::next` -/
def axisNext (a : Axis) (node : Option Nat) : Res (Option Nat × Option Nat) :=
  match node with
  | none => .ok (none, none)
  | some i => do
    let nx ← a.step d i
    pure (some i, nx)

/-- Collect an axis iterator into a list (fuel = number of nodes + 1). -/
def axisList (a : Axis) : Nat → Option Nat → Res (List Nat)
  | 0, _ => .fuel
  | _, none => .ok []
  | fuel+1, some i => do
    let nx ← a.step d i
    let rest ← axisList a fuel nx
    pure (i :: rest)

/-- `Children { front, back }` -/
structure ChildrenIt where
  front : Option Nat
  back : Option Nat
deriving Repr, BEq, DecidableEq

/-- `Node::children` -/
def children (i : Nat) : Res ChildrenIt := do
  let f ← firstChild d i
  let b ← lastChild d i
  pure ⟨f, b⟩

/-- `Children::next` (lib.rs:1594-1604) -/
def ChildrenIt.next (it : ChildrenIt) : Res (Option Nat × ChildrenIt) :=
  if it.front == it.back then .ok (it.front, ⟨none, none⟩)
  else
    match it.front with
    | none => .ok (none, ⟨none, it.back⟩)
    | some f => do
      let nx ← nextSibling d f
      pure (some f, ⟨nx, it.back⟩)

/-- `Children::next_back` (lib.rs:1609-1619) -/
def ChildrenIt.nextBack (it : ChildrenIt) : Res (Option Nat × ChildrenIt) :=
  if it.back == it.front then .ok (it.back, ⟨none, none⟩)
  else
    match it.back with
    | none => .ok (none, ⟨it.front, none⟩)
    | some b => do
      let pv ← prevSibling d b
      pure (some b, ⟨it.front, pv⟩)

def childrenList : Nat → ChildrenIt → Res (List Nat)
  | 0, _ => .fuel
  | fuel+1, it => do
    let (x, it') ← it.next d
    match x with
    | none => pure []
    | some i => do
      let rest ← childrenList fuel it'
      pure (i :: rest)

def childrenRevList : Nat → ChildrenIt → Res (List Nat)
  | 0, _ => .fuel
  | fuel+1, it => do
    let (x, it') ← it.nextBack d
    match x with
    | none => pure []
    | some i => do
      let rest ← childrenRevList fuel it'
      pure (i :: rest)

/-- A `core::slice::Iter` (also under `Enumerate`): the index window `[lo, hi)`. -/
structure SliceIt where
  lo : Nat
  hi : Nat
deriving Repr, BEq, DecidableEq

def SliceIt.next (it : SliceIt) : Option Nat × SliceIt :=
  if it.lo < it.hi then (some it.lo, ⟨it.lo + 1, it.hi⟩) else (none, it)

def SliceIt.nextBack (it : SliceIt) : Option Nat × SliceIt :=
  if it.lo < it.hi then (some (it.hi - 1), ⟨it.lo, it.hi - 1⟩) else (none, it)

def SliceIt.nth (it : SliceIt) (n : Nat) : Option Nat × SliceIt :=
  if n < it.hi - it.lo then (some (it.lo + n), ⟨it.lo + n + 1, it.hi⟩) else (none, ⟨it.hi, it.hi⟩)

def SliceIt.len (it : SliceIt) : Nat := it.hi - it.lo

def SliceIt.toList (it : SliceIt) : List Nat := (List.range (it.hi - it.lo)).map (· + it.lo)

/-- `Descendants::new` (lib.rs:1630-1648): the slice `nodes[from..until]`. -/
def descendants (i : Nat) : Res SliceIt := do
  let n ← getNodeUnwrap d i
  let until_ := n.nextSubtree.getD d.nodes.size
  if i ≤ until_ && until_ ≤ d.nodes.size then pure ⟨i, until_⟩
  else .panic "Descendants::new: slice"

/-- `Attributes::new`: the slice `attributes[range]` (empty for non-elements). -/
def attributes (i : Nat) : Res SliceIt := do
  let n ← getNodeUnwrap d i
  match n.kind with
  | .element _ _ (a, b) _ =>
    if a ≤ b && b ≤ d.attrs.size then pure ⟨a, b⟩ else .panic "Attributes::new: slice"
  | _ => pure ⟨0, 0⟩

/-- `Node::namespaces`: the slice `tree_order[range]` (empty for non-elements). -/
def namespaces (i : Nat) : Res SliceIt := do
  let n ← getNodeUnwrap d i
  match n.kind with
  | .element _ _ _ (a, b) =>
    if a ≤ b && b ≤ d.ns.treeOrder.size then pure ⟨a, b⟩ else .panic "namespaces: slice"
  | _ => pure ⟨0, 0⟩

/-- `doc.namespaces.get(tree_order[k])` -/
def nsAt (k : Nat) : Res Namespace :=
  match d.ns.treeOrder[k]? with
  | none => .panic "tree_order index"
  | some vi =>
    match d.ns.values[vi]? with
    | some v => .ok v
    | none => .panic "Namespaces::get"

def nsByIdx (vi : Nat) : Res Namespace :=
  match d.ns.values[vi]? with
  | some v => .ok v
  | none => .panic "Namespaces::get"

/-- The in-scope namespace list of a node, as (prefix, uri) pairs. -/
def namespaceList (i : Nat) : Res (List Namespace) := do
  let it ← namespaces d i
  it.toList.mapM (nsAt d)

/-- `ExpandedNameIndexed::as_expanded_name`: (uri, local). -/
def expandedName (nsIdx : Option Nat) (loc : Span) : Res (Option Bytes × Bytes) :=
  match nsIdx with
  | none => .ok (none, loc.bytes)
  | some vi => do
    let v ← nsByIdx d vi
    pure (some v.uri.bytes, loc.bytes)

/-- `Node::tag_name` -/
def tagName (i : Nat) : Res (Option Bytes × Bytes) := do
  let k ← kindOf d i
  match k with
  | .element nsIdx loc _ _ => expandedName d nsIdx loc
  | _ => pure (none, [])

/-- `Node::has_tag_name` -/
def hasTagName (i : Nat) (ns : Option Bytes) (name : Bytes) : Res Bool := do
  let k ← kindOf d i
  match k with
  | .element nsIdx loc _ _ =>
    match ns with
    | some _ => do
      let en ← expandedName d nsIdx loc
      pure (en == (ns, name))
    | none => pure (loc.bytes == name)
  | _ => pure false

def attrAt (k : Nat) : Res AttrData :=
  match d.attrs[k]? with
  | some a => .ok a
  | none => .panic "attributes index"

def attrExpanded (k : Nat) : Res (Option Bytes × Bytes) := do
  let a ← attrAt d k
  expandedName d a.nsIdx a.localName

/-- `attributes().find(|a| expanded(a) == name)` -/
def findAttr (ns : Option Bytes) (name : Bytes) : List Nat → Res (Option Nat)
  | [] => .ok none
  | k :: r => do
    let en ← attrExpanded d k
    if en == (ns, name) then pure (some k) else findAttr ns name r

/-- `Node::attribute_node` (index of the attribute). -/
def attributeNode (i : Nat) (ns : Option Bytes) (name : Bytes) : Res (Option Nat) := do
  let it ← attributes d i
  findAttr d ns name it.toList

/-- `Node::attribute` -/
def attributeValue (i : Nat) (ns : Option Bytes) (name : Bytes) : Res (Option Bytes) := do
  let r ← attributeNode d i ns name
  match r with
  | none => pure none
  | some k => do
    let a ← attrAt d k
    pure (some a.value.bytes)

/-- `Node::has_attribute` -/
def hasAttribute (i : Nat) (ns : Option Bytes) (name : Bytes) : Res Bool := do
  let r ← attributeNode d i ns name
  pure r.isSome

/-- `Node::default_namespace` -/
def defaultNamespace (i : Nat) : Res (Option Bytes) := do
  let l ← namespaceList d i
  pure ((l.find? fun ns => ns.name.isNone).map (·.uri.bytes))

/-- `Node::lookup_prefix`: `Some("xml")` for the XML namespace URI, else the prefix of the first
binding with that URI (`None` also when that binding is the default namespace). -/
def lookupPrefix (i : Nat) (uri : Bytes) : Res (Option Bytes) := do
  if uri == nsXmlUri then pure (some Lit.xml)
  else
    let l ← namespaceList d i
    pure (((l.find? fun ns => ns.uri.bytes == uri).map (·.nameBytes)).getD none)

/-- `Node::lookup_namespace_uri` -/
def lookupNamespaceUri (i : Nat) (pfx : Option Bytes) : Res (Option Bytes) := do
  let l ← namespaceList d i
  pure ((l.find? fun ns => ns.nameBytes == pfx).map (·.uri.bytes))

/-- `Node::text_storage` -/
def textStorage (i : Nat) : Res (Option Str) := do
  let k ← kindOf d i
  match k with
  | .element .. => do
    let fc ← firstChild d i
    match fc with
    | some c => do
      let ck ← kindOf d c
      match ck with
      | .text s => pure (some s)
      | _ => pure none
    | none => pure none
  | .comment s => pure (some s)
  | .text s => pure (some s)
  | _ => pure none

/-- `Node::tail_storage` -/
def tailStorage (i : Nat) : Res (Option Str) := do
  let k ← kindOf d i
  if !k.isElement then pure none
  else
    let ns ← nextSibling d i
    match ns with
    | some j => do
      let jk ← kindOf d j
      match jk with
      | .text s => pure (some s)
      | _ => pure none
    | none => pure none

/-- `find(|n| n.is_element())` over a list of node ids. -/
def findElement : List Nat → Res (Option Nat)
  | [] => .ok none
  | j :: r => do
    let e ← isElement d j
    if e then pure (some j) else findElement r

def fuelN : Nat := d.nodes.size + 1

/-- `ancestors().skip(1).find(is_element)` etc. -/
def axisElement (a : Axis) (i : Nat) : Res (Option Nat) := do
  let l ← axisList d a (fuelN d) (some i)
  findElement d (l.drop 1)

def parentElement (i : Nat) := axisElement d .ancestors i
def prevSiblingElement (i : Nat) := axisElement d .prevSiblings i
def nextSiblingElement (i : Nat) := axisElement d .nextSiblings i

/-- `children().find(is_element)` -/
def firstElementChild (i : Nat) : Res (Option Nat) := do
  let it ← children d i
  let l ← childrenList d (fuelN d) it
  findElement d l

/-- `children().filter(is_element).next_back()` -/
def lastElementChild (i : Nat) : Res (Option Nat) := do
  let it ← children d i
  let l ← childrenRevList d (fuelN d) it
  findElement d l

/-- `Document::root_element`: `root().first_element_child().expect(..)` -/
def rootElement : Res Nat := do
  let r ← firstElementChild d 0
  match r with
  | some e => pure e
  | none => .panic "XML documents must contain a root element"

/-- `Attribute::range_qname` / `range_value` (lib.rs:606-630; `range.end - 1` can underflow). -/
def attrRangeQName (k : Nat) : Res Range := do
  let a ← attrAt d k
  pure (a.range.1, a.range.1 + a.qnameLen)

def attrRangeValue (k : Nat) : Res Range := do
  let a ← attrAt d k
  if a.range.2 == 0 then .panic "range_value: subtract with overflow"
  else pure (a.range.1 + a.qnameLen + a.eqLen + 1, a.range.2 - 1)

/-- `Attribute == Attribute` -/
def attrEq (k1 k2 : Nat) : Res Bool := do
  let a1 ← attrAt d k1
  let a2 ← attrAt d k2
  let e1 ← expandedName d a1.nsIdx a1.localName
  let e2 ← expandedName d a2.nsIdx a2.localName
  pure (e1 == e2 && a1.value.bytes == a2.value.bytes)

/-! ### Iterator programs (for the correspondence of next / next_back / nth / len) -/

inductive ItOp where
  | next | nextBack | nth (k : Nat) | len
deriving Repr, BEq, DecidableEq

inductive ItState where
  | axis (a : Axis) (node : Option Nat)
  | children (it : ChildrenIt)
  | slice (it : SliceIt)
deriving Repr, BEq, DecidableEq

inductive ItOut where
  | item (x : Option Nat)
  | len (n : Nat)
  | unsupported
deriving Repr, BEq, DecidableEq

/-- default `Iterator::nth`: `n` times `next()` (stopping at the first `None`), then `next()`. -/
def nthVia (nx : ItState → Res (Option Nat × ItState)) : Nat → ItState → Res (Option Nat × ItState)
  | 0, st => nx st
  | n+1, st => do
    let (x, st') ← nx st
    match x with
    | none => pure (none, st')
    | some _ => nthVia nx n st'

def ItState.next (st : ItState) : Res (Option Nat × ItState) :=
  match st with
  | .axis a node => do
    let (x, nx) ← axisNext d a node
    pure (x, .axis a nx)
  | .children it => do
    let (x, it') ← it.next d
    pure (x, .children it')
  | .slice it => let (x, it') := it.next; .ok (x, .slice it')

def ItState.step (st : ItState) (op : ItOp) : Res (ItOut × ItState) :=
  match op, st with
  | .next, st => do
    let (x, st') ← st.next d
    pure (.item x, st')
  | .nextBack, .children it => do
    let (x, it') ← it.nextBack d
    pure (.item x, .children it')
  | .nextBack, .slice it => let (x, it') := it.nextBack; .ok (.item x, .slice it')
  | .nextBack, st => .ok (.unsupported, st)
  | .nth k, .slice it => let (x, it') := it.nth k; .ok (.item x, .slice it')
  | .nth k, st => do
    let (x, st') ← nthVia (fun s => s.next d) k st
    pure (.item x, st')
  | .len, .slice it => .ok (.len it.len, st)
  | .len, st => .ok (.unsupported, st)

def runProgram : ItState → List ItOp → Res (List ItOut)
  | _, [] => .ok []
  | st, op :: ops => do
    let (o, st') ← st.step d op
    let rest ← runProgram st' ops
    pure (o :: rest)

end Api
end Rox

namespace Rox
namespace Api

/-! ### Node identity, ordering, hashing (lib.rs:912-939) -/

/-- A `Node` as a value: the address of the `Document` it borrows and its id. Addresses of
simultaneously live documents are distinct; that is all the model assumes about them. -/
structure NodeRef where
  addr : Nat
  id : Nat
deriving Repr, DecidableEq

/-- `PartialEq for Node`: `(self.id, self.doc as *const _) == (other.id, other.doc as *const _)` -/
def NodeRef.eqB (a b : NodeRef) : Bool := a.id == b.id && a.addr == b.addr

/-- `Ord for Node` (after the D2 repair): `(doc ptr, id.0)` lexicographically; `id.0` is the
`NonZeroU32` holding `id + 1`. -/
def NodeRef.cmp (a b : NodeRef) : Ordering :=
  (compare a.addr b.addr).then (compare (a.id + 1) (b.id + 1))

/-- What `Hash for Node` feeds to the hasher: `id.0`, the document pointer, the `NodeData`
pointer (`nodeAddr addr id` = address of `nodes[id]` of the document at `addr`). -/
def NodeRef.hashInput (nodeAddr : Nat → Nat → Nat) (a : NodeRef) : List Nat :=
  [a.id + 1, a.addr, nodeAddr a.addr a.id]

end Api
end Rox
