/-
  Rox.Doc — the document arena of lib.rs (NodeData, AttributeData, Namespaces, Document).
  -- src: lib.rs:98-106 Document, 403-425 NodeKind/NodeData, 487-497 AttributeData,
  --      655-767 Namespace/Namespaces
-/
import Rox.Tok

namespace Rox

/-- `NodeKind` -/
inductive Kind where
  | root
  | element (nsIdx : Option Nat) (localName : Span) (attrs : Range) (nss : Range)
  | pi (target : Span) (value : Option Span)
  | comment (s : Str)
  | text (s : Str)
deriving Repr, BEq, DecidableEq, Inhabited

def Kind.isElement : Kind → Bool
  | .element .. => true
  | _ => false

def Kind.isText : Kind → Bool
  | .text _ => true
  | _ => false

def Kind.isRoot : Kind → Bool
  | .root => true
  | _ => false

/-- `NodeData`: the only stored links are parent, prev_sibling, next_subtree, last_child. -/
structure NodeData where
  parent : Option Nat
  prevSibling : Option Nat
  nextSubtree : Option Nat
  lastChild : Option Nat
  kind : Kind
  range : Range
deriving Repr, BEq, DecidableEq, Inhabited

/-- `AttributeData` -/
structure AttrData where
  nsIdx : Option Nat
  localName : Span
  value : Str
  range : Range
  qnameLen : Nat
  eqLen : Nat
deriving Repr, BEq, DecidableEq, Inhabited

/-- `Namespace` -/
structure Namespace where
  name : Option Span
  uri : Str
deriving Repr, BEq, DecidableEq, Inhabited

/-- `Namespaces` -/
structure Namespaces where
  values : Array Namespace := #[]
  treeOrder : Array Nat := #[]
  sortedOrder : Array Nat := #[]
deriving Repr, BEq, DecidableEq, Inhabited

/-- `Document` (the input text is a parameter of the model functions, not a field). -/
structure Doc where
  nodes : Array NodeData
  attrs : Array AttrData := #[]
  ns : Namespaces := {}
deriving Repr, BEq, DecidableEq, Inhabited

/-- `NS_XML_URI` = "http://www.w3.org/XML/1998/namespace" -/
def nsXmlUri : Bytes :=
  [104, 116, 116, 112, 58, 47, 47, 119, 119, 119, 46, 119, 51, 46, 111, 114, 103, 47, 88, 77, 76,
   47, 49, 57, 57, 56, 47, 110, 97, 109, 101, 115, 112, 97, 99, 101]

/-- `NS_XMLNS_URI` = "http://www.w3.org/2000/xmlns/" -/
def nsXmlnsUri : Bytes :=
  [104, 116, 116, 112, 58, 47, 47, 119, 119, 119, 46, 119, 51, 46, 111, 114, 103, 47, 50, 48, 48,
   48, 47, 120, 109, 108, 110, 115, 47]

/-! ### Ordering used by `Namespaces::push_ns` -/

/-- Lexicographic comparison of byte strings (`str::cmp`). -/
def cmpBytes : Bytes → Bytes → Ordering
  | [], [] => .eq
  | [], _ :: _ => .lt
  | _ :: _, [] => .gt
  | a :: as, b :: bs => if a < b then .lt else if a > b then .gt else cmpBytes as bs

/-- `Option<&str>::cmp`: `None < Some`. -/
def cmpOptBytes : Option Bytes → Option Bytes → Ordering
  | none, none => .eq
  | none, some _ => .lt
  | some _, none => .gt
  | some a, some b => cmpBytes a b

/-- `(name, uri).cmp(&(name', uri'))` -/
def cmpNs (n1 : Option Bytes) (u1 : Bytes) (n2 : Option Bytes) (u2 : Bytes) : Ordering :=
  match cmpOptBytes n1 n2 with
  | .eq => cmpBytes u1 u2
  | o => o

def Namespace.nameBytes (n : Namespace) : Option Bytes := n.name.map (·.bytes)

namespace Namespaces

/-- `binary_search_by` on `sorted_order`, modelled as a lower-bound scan: position of the first
entry that is not less than the key, and whether it equals the key. (On a sorted duplicate-free
index this is what the binary search returns.) -/
def searchGo (ns : Namespaces) (name : Option Bytes) (uri : Bytes) : Nat → Nat → Res (Nat × Bool)
  | 0, i => .ok (i, false)
  | fuel+1, i =>
    match ns.sortedOrder[i]? with
    | none => .ok (i, false)
    | some vi =>
      match ns.values[vi]? with
      | none => .panic "push_ns: values index"
      | some v =>
        match cmpNs v.nameBytes v.uri.bytes name uri with
        | .lt => searchGo ns name uri fuel (i + 1)
        | .eq => .ok (i, true)
        | .gt => .ok (i, false)

def search (ns : Namespaces) (name : Option Bytes) (uri : Bytes) : Res (Nat × Bool) :=
  searchGo ns name uri (ns.sortedOrder.size + 1) 0

/-- `Namespaces::push_ns` -/
def pushNs (ns : Namespaces) (name : Option Span) (uri : Str) : Res Namespaces := do
  let (si, found) ← ns.search (name.map (·.bytes)) uri.bytes
  if found then
    match ns.sortedOrder[si]? with
    | some idx => pure { ns with treeOrder := ns.treeOrder.push idx }
    | none => .panic "push_ns: sorted index"
  else
    if ns.values.size > 65535 then .err .namespacesLimitReached
    else
      let idx := ns.values.size
      pure { values := ns.values.push ⟨name, uri⟩,
             sortedOrder := (ns.sortedOrder.insertIdxIfInBounds si idx),
             treeOrder := ns.treeOrder.push idx }

/-- `Namespaces::push_ref` -/
def pushRef (ns : Namespaces) (treeIdx : Nat) : Res Namespaces :=
  match ns.treeOrder[treeIdx]? with
  | some idx => .ok { ns with treeOrder := ns.treeOrder.push idx }
  | none => .panic "push_ref: index"

/-- `Namespaces::exists(start, prefix)`: a lazy `any` over `tree_order[start..]`. -/
def existsAux (values : Array Namespace) (pfx : Option Bytes) : List Nat → Res Bool
  | [] => .ok false
  | idx :: r =>
    match values[idx]? with
    | none => .panic "exists: values index"
    | some v => if v.nameBytes == pfx then .ok true else existsAux values pfx r

def «exists» (ns : Namespaces) (start : Nat) (pfx : Option Bytes) : Res Bool :=
  if start > ns.treeOrder.size then .panic "exists: slice"
  else existsAux ns.values pfx (ns.treeOrder.toList.drop start)

end Namespaces

end Rox
