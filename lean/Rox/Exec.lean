/-
  Rox.Exec — executable forms of the properties, evaluated by the driver on the
  *implementation's* data (the search for a failing input, DESIGN.md §2).
-/
import Rox.Spec.Tree
import Rox.Parse

namespace Rox.Exec
open Rox

def verdict (name : String) (ok : Bool) (detail : String := "") : String :=
  if ok then s!"OR {name} ok" else s!"OR {name} FAIL {detail}"

/-- Oracle lines for one accepted document of the implementation. -/
def oracleLines (txt : Bytes) (d : Doc) (opt : Opt) : List String :=
  let n := d.nodes.size
  if n > 700 then [] else
  [ verdict "C02.wf" (Spec.wfArenaB d.nodes) (Spec.wfArenaWhy d.nodes),
    verdict "C02.single_root" (Spec.singleRootB d.nodes),
    verdict "C15.cap" (decide (n ≤ opt.nodesLimit)) s!"{n} nodes, limit {opt.nodesLimit}",
    verdict "C13.ranges" (!opt.positions || Spec.rangesValidB txt d) ]

end Rox.Exec
