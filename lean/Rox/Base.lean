/-
  Rox.Base — bytes, outcomes, errors, UTF-8, character-class tables.

  Modelling conventions (DESIGN.md §3):
  * text is `Bytes := List UInt8`; a Rust `&'input str` is a `Span` (absolute byte offset into
    the input + the bytes themselves);
  * every place where the Rust code can panic is an explicit `Res.panic site`;
  * loops run on locally computed fuel; `Res.fuel` is a distinguished outcome that the
    termination theorems exclude.
-/

namespace Rox

abbrev Bytes := List UInt8

/-- A borrowed `&'input str`: where it starts in the input, and its bytes. -/
structure Span where
  off : Nat
  bytes : Bytes
deriving Repr, BEq, DecidableEq, Inhabited

def Span.len (s : Span) : Nat := s.bytes.length
def Span.stop (s : Span) : Nat := s.off + s.bytes.length
def Span.isEmpty (s : Span) : Bool := s.bytes.isEmpty

/-- `StringStorage` / `Cow<str>`: a borrowed slice of the input, or an owned copy. -/
inductive Str where
  | borrowed (s : Span)
  | owned (b : Bytes)
deriving Repr, BEq, DecidableEq, Inhabited

def Str.bytes : Str → Bytes
  | .borrowed s => s.bytes
  | .owned b => b

/-- A text position (row, col), 1-based. -/
structure TextPos where
  row : Nat
  col : Nat
deriving Repr, BEq, DecidableEq, Inhabited

/-- `roxmltree::Error` (parse.rs:19-148). Strings are bytes, chars are scalar values. -/
inductive Err where
  | invalidXmlPrefixUri (p : TextPos)
  | unexpectedXmlUri (p : TextPos)
  | unexpectedXmlnsUri (p : TextPos)
  | invalidElementNamePrefix (p : TextPos)
  | duplicatedNamespace (n : Bytes) (p : TextPos)
  | unknownNamespace (n : Bytes) (p : TextPos)
  | unexpectedCloseTag (expected actual : Bytes) (p : TextPos)
  | unexpectedEntityCloseTag (p : TextPos)
  | unknownEntityReference (n : Bytes) (p : TextPos)
  | malformedEntityReference (p : TextPos)
  | entityReferenceLoop (p : TextPos)
  | invalidAttributeValue (p : TextPos)
  | duplicatedAttribute (n : Bytes) (p : TextPos)
  | noRootNode
  | unclosedRootNode
  | unexpectedDeclaration (p : TextPos)
  | dtdDetected
  | nodesLimitReached
  | attributesLimitReached
  | namespacesLimitReached
  | invalidName (p : TextPos)
  | nonXmlChar (c : Nat) (p : TextPos)
  | invalidChar (expected actual : UInt8) (p : TextPos)
  | invalidChar2 (expected : Bytes) (actual : UInt8) (p : TextPos)
  | invalidString (expected : Bytes) (p : TextPos)
  | invalidExternalID (p : TextPos)
  | invalidComment (p : TextPos)
  | invalidCharacterData (p : TextPos)
  | unknownToken (p : TextPos)
  | unexpectedEndOfStream
deriving Repr, BEq, DecidableEq, Inhabited

/-- `Error::pos` (parse.rs:150-186). -/
def Err.pos : Err → TextPos
  | .invalidXmlPrefixUri p | .unexpectedXmlUri p | .unexpectedXmlnsUri p
  | .invalidElementNamePrefix p | .duplicatedNamespace _ p | .unknownNamespace _ p
  | .unexpectedCloseTag _ _ p | .unexpectedEntityCloseTag p | .unknownEntityReference _ p
  | .malformedEntityReference p | .entityReferenceLoop p | .invalidAttributeValue p
  | .duplicatedAttribute _ p | .unexpectedDeclaration p | .invalidName p | .nonXmlChar _ p
  | .invalidChar _ _ p | .invalidChar2 _ _ p | .invalidString _ p | .invalidExternalID p
  | .invalidComment p | .invalidCharacterData p | .unknownToken p => p
  | .noRootNode | .unclosedRootNode | .dtdDetected | .nodesLimitReached
  | .attributesLimitReached | .namespacesLimitReached | .unexpectedEndOfStream => ⟨1, 1⟩

/-- Outcome of a modelled Rust computation. -/
inductive Res (α : Type) where
  | ok (a : α)
  | err (e : Err)
  | panic (site : String)
  | fuel
deriving Repr, Inhabited, DecidableEq

namespace Res

@[inline] def bind {α β : Type} (m : Res α) (f : α → Res β) : Res β :=
  match m with
  | .ok a => f a
  | .err e => .err e
  | .panic s => .panic s
  | .fuel => .fuel

instance : Monad Res where
  pure := .ok
  bind := Res.bind

@[simp] theorem bind_ok {α β} (a : α) (f : α → Res β) : (Res.ok a >>= f) = f a := rfl
@[simp] theorem bind_err {α β} (e : Err) (f : α → Res β) : ((Res.err e : Res α) >>= f) = .err e := rfl
@[simp] theorem bind_panic {α β} (s : String) (f : α → Res β) :
    ((Res.panic s : Res α) >>= f) = .panic s := rfl
@[simp] theorem bind_fuel {α β} (f : α → Res β) : ((Res.fuel : Res α) >>= f) = .fuel := rfl
@[simp] theorem pure_eq {α} (a : α) : (pure a : Res α) = .ok a := rfl

theorem bind_eq_ok {α β} {m : Res α} {f : α → Res β} {b : β} :
    (m >>= f) = .ok b ↔ ∃ a, m = .ok a ∧ f a = .ok b := by
  cases m <;> simp [bind]

theorem bind_eq_ok' {α β} {m : Res α} {f : α → Res β} {b : β} :
    Res.bind m f = .ok b ↔ ∃ a, m = .ok a ∧ f a = .ok b := by
  cases m <;> simp [Res.bind]

/-- normalise a hypothesis about a `Res` computation: zeta/beta reduce the `do` join points,
resolve binds on constructors. -/
macro "res_norm" " at " h:ident : tactic =>
  `(tactic| (try dsimp only at $h:ident
             try simp only [Res.bind_ok, Res.bind_err, Res.bind_panic, Res.bind_fuel, Res.pure_eq, pure,
                            Res.ok.injEq, Prod.mk.injEq, reduceCtorEq] at $h:ident))

def isOk {α} : Res α → Bool
  | .ok _ => true
  | _ => false

def isPanic {α} : Res α → Bool
  | .panic _ => true
  | _ => false

/-- `Result::ok()` -/
def toOption {α} : Res α → Option α
  | .ok a => some a
  | _ => none

end Res

/-! ### UTF-8 -/

/-- Number of bytes of the UTF-8 encoding that starts with byte `b` (0 = not a start byte). -/
def utf8Width (b : UInt8) : Nat :=
  if b < 0x80 then 1
  else if b < 0xC0 then 0
  else if b < 0xE0 then 2
  else if b < 0xF0 then 3
  else if b < 0xF8 then 4
  else 0

def isCont (b : UInt8) : Bool := 0x80 ≤ b && b < 0xC0

/-- `str::is_char_boundary` for a position strictly inside the text: the byte there is not a
continuation byte. -/
def isBoundaryByte (b : UInt8) : Bool := !(isCont b)

/-- Decode one scalar value from the front of a byte list (as `str::chars().next()` does on
valid UTF-8). Returns the code point and its width. On malformed input returns `none`. -/
def decodeChar : Bytes → Option (Nat × Nat)
  | [] => none
  | b0 :: r =>
    if b0 < 0x80 then some (b0.toNat, 1)
    else if b0 < 0xC0 then none
    else if b0 < 0xE0 then
      match r with
      | b1 :: _ => if isCont b1 then some ((b0.toNat - 0xC0) * 64 + (b1.toNat - 0x80), 2) else none
      | _ => none
    else if b0 < 0xF0 then
      match r with
      | b1 :: b2 :: _ =>
        if isCont b1 && isCont b2 then
          some ((b0.toNat - 0xE0) * 4096 + (b1.toNat - 0x80) * 64 + (b2.toNat - 0x80), 3)
        else none
      | _ => none
    else if b0 < 0xF8 then
      match r with
      | b1 :: b2 :: b3 :: _ =>
        if isCont b1 && isCont b2 && isCont b3 then
          some ((b0.toNat - 0xF0) * 262144 + (b1.toNat - 0x80) * 4096 + (b2.toNat - 0x80) * 64
                + (b3.toNat - 0x80), 4)
        else none
      | _ => none
    else none

/-- Whether a code point is a Unicode scalar value (what a Rust `char` can hold). -/
def isScalar (c : Nat) : Bool := c < 0xD800 || (0xE000 ≤ c && c < 0x110000)

/-- Strict UTF-8 validity (shortest form, no surrogates, ≤ U+10FFFF): the `&str` invariant. -/
def validUtf8 : Nat → Bytes → Bool
  | 0, _ => false
  | _, [] => true
  | fuel+1, b :: r =>
    match decodeChar (b :: r) with
    | none => false
    | some (c, w) =>
      let minOk := (w == 1) || (w == 2 && 0x80 ≤ c) || (w == 3 && 0x800 ≤ c) || (w == 4 && 0x10000 ≤ c)
      minOk && isScalar c && validUtf8 fuel ((b :: r).drop w)

def ValidUtf8 (t : Bytes) : Prop := validUtf8 (t.length + 1) t = true

/-- `char::encode_utf8`. -/
def encodeChar (c : Nat) : Bytes :=
  if c < 0x80 then [UInt8.ofNat c]
  else if c < 0x800 then [UInt8.ofNat (0xC0 + c / 64), UInt8.ofNat (0x80 + c % 64)]
  else if c < 0x10000 then
    [UInt8.ofNat (0xE0 + c / 4096), UInt8.ofNat (0x80 + (c / 64) % 64), UInt8.ofNat (0x80 + c % 64)]
  else
    [UInt8.ofNat (0xF0 + c / 262144), UInt8.ofNat (0x80 + (c / 4096) % 64),
     UInt8.ofNat (0x80 + (c / 64) % 64), UInt8.ofNat (0x80 + c % 64)]

/-- `char::len_utf8`. -/
def charLen (c : Nat) : Nat :=
  if c < 0x80 then 1 else if c < 0x800 then 2 else if c < 0x10000 then 3 else 4

/-! ### Character-class tables -/

/-- Membership in a list of inclusive ranges. -/
def inRanges (rs : List (Nat × Nat)) (c : Nat) : Bool :=
  rs.any fun (lo, hi) => lo ≤ c && c ≤ hi

/-- The tables the model is parametric in. They are regenerated from the built crate on every
run (`Rox/Generated.lean`). -/
structure Tables where
  nameStart : List (Nat × Nat)      -- `char::is_xml_name_start`
  name : List (Nat × Nat)           -- `char::is_xml_name`
  xmlChar : List (Nat × Nat)        -- `char::is_xml_char`
  byteSpace : List (Nat × Nat)      -- `u8::is_xml_space`
  byteNameStart : List (Nat × Nat)  -- `u8::is_xml_name_start`
  byteName : List (Nat × Nat)       -- `u8::is_xml_name`
  byteXmlChar : List (Nat × Nat)    -- `u8::is_xml_char`
deriving Repr

/-! ### Small list helpers -/

/-- `text[a..b]` as a list (no boundary checks here; callers check). -/
def sliceBytes (t : Bytes) (a b : Nat) : Bytes := (t.drop a).take (b - a)

def startsWith (t pre : Bytes) : Bool := pre.isPrefixOf t

/-- `haystack.contains(needle)` for byte strings. -/
def containsSub : Bytes → Bytes → Bool
  | [], needle => needle.isEmpty
  | b :: r, needle => needle.isPrefixOf (b :: r) || containsSub r needle

def strLit (s : String) : Bytes := s.toUTF8.toList

end Rox
