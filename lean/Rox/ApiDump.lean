/-
  Rox.ApiDump — the model API evaluated on an arena, printed in the harness's `Q/AQ/NQ/DQ/LK/
  IT/TP/AE` line formats (the tie T-api).
-/
import Rox.Render

namespace Rox.ApiDump
open Rox.Render Rox.Api

def rs {α} (f : α → String) : Res α → String
  | .ok a => f a
  | .err _ => "err"
  | .panic _ => "panic"
  | .fuel => "fuel"

def b01 (b : Bool) : String := if b then "1" else "0"

def tyOf : Kind → String
  | .root => "R" | .element .. => "E" | .pi .. => "P" | .comment _ => "C" | .text _ => "T"

def descCompact (it : SliceIt) : String :=
  if it.hi ≤ it.lo then "-" else s!"c{it.lo}+{it.hi - it.lo}"

def qLine (d : Doc) (i : Nat) : String :=
  let fuel := fuelN d
  let k := kindOf d i
  let tn := rs (fun (p : Option Bytes × Bytes) => s!"{oh p.1},{h p.2}") (tagName d i)
  let pi := match k with
    | .ok (.pi t v) => s!"{h t.bytes},{oh (v.map Span.bytes)}"
    | _ => "-"
  let rg := match d.nodes[i]? with
    | some n => range n.range
    | none => "?"
  let ax (a : Axis) := rs natList (axisList d a fuel (some i))
  let ch := rs natList (do let it ← children d i; childrenList d fuel it)
  let chr := rs natList (do let it ← children d i; childrenRevList d fuel it)
  let de := descendants d i
  s!"Q {i} ty={rs tyOf k} pa={rs optNat (parent d i)} ps={rs optNat (prevSibling d i)} ns={rs optNat (nextSibling d i)} fc={rs optNat (firstChild d i)} lc={rs optNat (lastChild d i)} hc={rs b01 (hasChildren d i)} hs={rs b01 (hasSiblings d i)} pe={rs optNat (parentElement d i)} pse={rs optNat (prevSiblingElement d i)} nse={rs optNat (nextSiblingElement d i)} fec={rs optNat (firstElementChild d i)} lec={rs optNat (lastElementChild d i)} tx={rs (fun s => oh (s.map Str.bytes)) (textStorage d i)} tl={rs (fun s => oh (s.map Str.bytes)) (tailStorage d i)} tn={tn} pi={pi} rg={rg} an={ax .ancestors} pv={ax .prevSiblings} nx={ax .nextSiblings} fcs={ax .firstChildren} lcs={ax .lastChildren} ch={ch} chr={chr} de={rs descCompact de} der=1 dl={rs (fun it => toString it.len) de}"

def aqLines (d : Doc) (i : Nat) (positions : Bool) : List String :=
  match attributes d i with
  | .ok it =>
    it.toList.zipIdx.map fun (k, pos) =>
      let a := attrAt d k
      let ns := rs (fun (p : Option Bytes × Bytes) => oh p.1) (attrExpanded d k)
      let ranges := if positions then
          s!" r={rs (fun a => range a.range) a} rq={rs range (attrRangeQName d k)} rv={rs range (attrRangeValue d k)}"
        else ""
      s!"AQ {i} {pos} ns={ns} name={rs (fun a => h a.localName.bytes) a} val={rs (fun a => h a.value.bytes) a} same=1{ranges}"
  | _ => [s!"AQ {i} panic"]

def nqLine (d : Doc) (i : Nat) : Option String :=
  match kindOf d i with
  | .ok (.element ..) =>
    let l := namespaceList d i
    let body := rs (fun (l : List Namespace) =>
      if l.isEmpty then "-" else ";".intercalate (l.map fun ns => s!"{oh ns.nameBytes}={h ns.uri.bytes}")) l
    let len := rs (fun (l : List Namespace) => toString l.length) l
    some s!"NQ {i} len={len} rev=1 dn={rs oh (defaultNamespace d i)} {body}"
  | _ => none

def dqLine (d : Doc) : String :=
  let n := d.nodes.size
  let ids := (List.range (n + 3)) ++ [4294967294]
  let gn := ids.map fun k =>
    match nodeIdNew k with
    | .ok k => optNat (getNode d k)
    | _ => "panic"
  s!"DQ n={n} re={rs toString (rootElement d)} gn={",".intercalate gn} txt=1"

/-- Recompute the answer of one `LK` line: the query is everything before ` = `. -/
def lkLine (d : Doc) (f : List String) : String :=
  match f with
  | "LK" :: i :: "nm" :: ns :: name :: _ =>
    let i' := parseNat i
    let nsb : Option Bytes := if ns == "-" then none else some (unhex (ns.drop 1).toString)
    let nm := unhex (name.drop 1).toString
    let an := attributeNode d i' nsb nm
    let idx := match an, attributes d i' with
      | .ok (some k), .ok it => toString (k - it.lo)
      | .ok none, _ => "-"
      | _, _ => "panic"
    s!"LK {i} nm {ns} {name} = {rs b01 (hasTagName d i' nsb nm)} {rs oh (attributeValue d i' nsb nm)} {rs b01 (hasAttribute d i' nsb nm)} {idx}"
  | "LK" :: i :: "uri" :: p :: _ =>
    let pb : Option Bytes := if p == "-" then none else some (unhex (p.drop 1).toString)
    s!"LK {i} uri {p} = {rs oh (lookupNamespaceUri d (parseNat i) pb)}"
  | "LK" :: i :: "pfx" :: u :: _ =>
    s!"LK {i} pfx {u} = {rs oh (lookupPrefix d (parseNat i) (unhex (u.drop 1).toString))}"
  | _ => "LK ?"

def parseOps (s : String) : List ItOp :=
  (s.splitOn ",").filterMap fun o =>
    if o == "n" then some .next
    else if o == "b" then some .nextBack
    else if o == "l" then some .len
    else if o.startsWith "k" then some (.nth (parseNat (o.drop 1).toString))
    else none

def itLine (d : Doc) (f : List String) : String :=
  match f with
  | "IT" :: i :: kind :: prog :: _ =>
    let i' := parseNat i
    let ops := parseOps prog
    let st : Res ItState := match kind with
      | "ch" => do let it ← children d i'; pure (.children it)
      | "de" => do let it ← descendants d i'; pure (.slice it)
      | "at" => do let it ← attributes d i'; pure (.slice it)
      | "ns" => do let it ← namespaces d i'; pure (.slice it)
      | "an" => pure (.axis .ancestors (some i'))
      | "pv" => pure (.axis .prevSiblings (some i'))
      | "nx" => pure (.axis .nextSiblings (some i'))
      | "fcs" => pure (.axis .firstChildren (some i'))
      | _ => pure (.axis .lastChildren (some i'))
    let base := match kind, attributes d i' with
      | "at", .ok it => it.lo
      | _, _ => 0
    let showItem (x : Option Nat) : String :=
      match x with
      | none => "-"
      | some k =>
        if kind == "ns" then
          rs (fun (ns : Namespace) => s!"{oh ns.nameBytes}={h ns.uri.bytes}") (nsAt d k)
        else toString (k - base)
    let outs := do
      let st ← st
      runProgram d st ops
    let body := rs (fun (l : List ItOut) => ",".intercalate (l.map fun o =>
      match o with
      | .item x => showItem x
      | .len n => s!"L{n}"
      | .unsupported => "U")) outs
    s!"IT {i} {kind} {prog} = {body}"
  | _ => "IT ?"

def tpLine (txt : Bytes) (p : Nat) : String :=
  s!"TP {p} = {rs (fun (t : TextPos) => s!"{t.row}:{t.col}") (textPosAt txt p)}"

/-- `AE` matrix: attribute equality over all attributes of the document (≤ 12). -/
def aeLines (d : Doc) : List String :=
  let all : List (Nat × Nat × Nat) :=
    (List.range d.nodes.size).flatMap fun i =>
      match attributes d i with
      | .ok it => it.toList.zipIdx.map fun (k, pos) => (i, pos, k)
      | _ => []
  if all.length > 12 then []
  else all.map fun (i, pos, k) =>
    let row := String.join (all.map fun (_, _, k2) => rs b01 (attrEq d k k2))
    s!"AE {i} {pos} = {row}"

end Rox.ApiDump
