/-
  Rox.Build — the tree builder of parse.rs: `Context`, text decoding, attribute normalisation,
  entity expansion with the loop detector, namespace and attribute resolution, node appending.
  -- src: parse.rs (Context .. TextBuffer), after the repairs D4-D7, D9, D11, D12, D15.
-/
import Rox.Api

namespace Rox

/-- `ParsingOptions`, plus the `positions` cargo feature as a flag (C19). -/
structure Opt where
  allowDtd : Bool := false
  nodesLimit : Nat := 4294967295
  positions : Bool := true
deriving Repr, BEq, DecidableEq, Inhabited

structure TempAttr where
  pfx : Span
  loc : Span
  value : Str
  range : Range
  qnameLen : Nat
  eqLen : Nat
deriving Repr, BEq, DecidableEq

structure Entity where
  name : Span
  value : Span
deriving Repr, BEq, DecidableEq

/-- `TagNameSpan` (only the fields that are read). -/
structure TagName where
  pfx : Bytes := []
  name : Bytes := []
  nameSpan : Span := ⟨0, []⟩
  pos : Nat := 0
  prefixPos : Nat := 0
deriving Repr, BEq, DecidableEq, Inhabited

/-- `LoopDetector` -/
structure LD where
  depth : Nat := 0
  refs : Nat := 0
deriving Repr, BEq, DecidableEq, Inhabited

/-- Ghost trace of what the builder was given (compared with the `verif::trace` hook). -/
inductive Ev where
  | token (t : Token)
  | textFragment (s : Str) (range : Range)
  | attrValue (s : Str)
  | loop (op : Nat) (ok : Bool) (depth refs : Nat)
deriving Repr, BEq, DecidableEq

/-- `Context` -/
structure Ctx where
  nodesLimit : Nat                        -- the only field of `opt` the builder reads
  positions : Bool                        -- the `positions` cargo feature
  nsStartIdx : Nat := 1
  xmlDeclared : Bool := false             -- the current start tag has declared `xmlns:xml` (D16 repair)
  curAttrs : List TempAttr := []          -- in push order
  awaiting : List Nat := []               -- in push order
  parentPrefixes : List Bytes := [[]]     -- top of the stack first
  entityFloor : Nat := 0
  entities : List Entity := []            -- in declaration order
  afterText : List Str := []              -- in push order
  parentId : Nat := 0
  tagName : TagName := {}
  ld : LD := {}
  doc : Doc
  trace : List Ev := []                   -- ghost, newest first
  maxDepth : Nat := 0                     -- ghost: deepest parse_content re-entry seen
deriving Repr, BEq, DecidableEq

namespace LD

/-- `inc_depth` (the position of the error is the stream's). -/
def incDepth (ld : LD) : Option LD :=
  if ld.depth < 10 then some { ld with depth := ld.depth + 1 } else none

/-- `dec_depth`: `if depth > 0 { depth -= 1 }; if depth == 0 { references = 0 }` -/
def decDepth (ld : LD) : LD :=
  if ld.depth > 1 then ⟨ld.depth - 1, ld.refs⟩ else ⟨0, 0⟩

/-- `inc_references` -/
def incRefs (ld : LD) : Option LD :=
  if ld.depth == 0 then some ld
  else if ld.refs == 255 then none
  else some { ld with refs := ld.refs + 1 }

end LD

/-! ### TextBuffer (parse.rs, with the explicit pending-CR state of the D7 repair) -/

/-- The buffer is kept newest-byte-first. -/
structure TextBuffer where
  rev : Bytes := []
  pendingCr : Bool := false
deriving Repr, BEq, DecidableEq, Inhabited

namespace TextBuffer

def resolvePendingCr (b : TextBuffer) : TextBuffer × Bool :=
  if b.pendingCr then
    match b.rev with
    | _ :: r => (⟨bLF :: r, false⟩, true)
    | [] => (⟨[], false⟩, true)
  else (b, false)

def pushRaw (b : TextBuffer) (c : UInt8) : TextBuffer :=
  let (b, _) := b.resolvePendingCr
  { b with rev := c :: b.rev }

def pushFromAttr (b : TextBuffer) (cur : UInt8) (next : Option UInt8) : TextBuffer :=
  if cur == bCR && next == some bLF then b
  else
    let c := if cur == bLF || cur == bCR || cur == bTab then bSp else cur
    { b with rev := c :: b.rev }

def pushFromText (b : TextBuffer) (c : UInt8) : TextBuffer :=
  let (b, was) := b.resolvePendingCr
  if was && c == bLF then b
  else ⟨c :: b.rev, c == bCR⟩

def clear (_ : TextBuffer) : TextBuffer := {}

def isEmpty (b : TextBuffer) : Bool := b.rev.isEmpty

/-- `finish`: resolve a pending CR, then `String::from_utf8(..).unwrap()`. -/
def finish (b : TextBuffer) : Res Bytes :=
  let (b, _) := b.resolvePendingCr
  let out := b.rev.reverse
  if validUtf8 (out.length + 1) out then .ok out else .panic "TextBuffer::finish: from_utf8"

def pushBytesRaw (b : TextBuffer) (l : Bytes) : TextBuffer := l.foldl pushRaw b
def pushBytesText (b : TextBuffer) (l : Bytes) : TextBuffer := l.foldl pushFromText b

end TextBuffer

section
variable (T : Tables) (txt : Bytes)

def posAt (p : Nat) : Res TextPos := genTextPosFrom txt p

/-- `self.doc.text_pos_at(p)` used to build an error. -/
def errPos {α} (mk : TextPos → Err) (p : Nat) : Res α := errFrom txt mk p

namespace Ctx

def log (c : Ctx) (e : Ev) : Ctx := { c with trace := e :: c.trace }

def nodeAt (c : Ctx) (i : Nat) : Res NodeData :=
  match c.doc.nodes[i]? with
  | some n => .ok n
  | none => .panic "nodes index"

def setNode (c : Ctx) (i : Nat) (n : NodeData) : Ctx :=
  { c with doc := { c.doc with nodes := c.doc.nodes.setIfInBounds i n } }

/-- `for id in &awaiting_subtree { nodes[id].next_subtree = Some(new) }` -/
def setNextSubtree (nodes : Array NodeData) (new : Nat) : List Nat → Res (Array NodeData)
  | [] => .ok nodes
  | id :: r =>
    match nodes[id]? with
    | none => .panic "nodes index"
    | some n => setNextSubtree (nodes.setIfInBounds id { n with nextSubtree := some new }) new r

/-- `Context::append_node` (parse.rs:515-551) -/
def appendNode (c : Ctx) (kind : Kind) (range : Range) : Res (Ctx × Nat) :=
  if c.doc.nodes.size ≥ c.nodesLimit then .err .nodesLimitReached
  else do
    let newId ← Api.nodeIdNew c.doc.nodes.size
    let range := if c.positions then range else (0, 0)
    let nodes := c.doc.nodes.push
      { parent := some c.parentId, prevSibling := none, nextSubtree := none, lastChild := none,
        kind := kind, range := range }
    match nodes[c.parentId]? with
    | none => .panic "nodes index"
    | some p =>
      match nodes[newId]? with
      | none => .panic "nodes index"
      | some n =>
        let nodes := nodes.setIfInBounds newId { n with prevSibling := p.lastChild }
        -- the parent is re-read after the write, as `self.doc.nodes[parent]` is in the code
        match nodes[c.parentId]? with
        | none => .panic "nodes index"
        | some p =>
          let nodes := nodes.setIfInBounds c.parentId { p with lastChild := some newId }
          let nodes ← setNextSubtree nodes newId c.awaiting
          let awaiting := if kind.isElement then [] else [newId]
          pure ({ c with doc := { c.doc with nodes := nodes }, awaiting := awaiting }, newId)

/-- `Context::append_text` -/
def appendText (c : Ctx) (text : Str) (range : Range) : Res Ctx := do
  let c := c.log (.textFragment text range)
  let c ← if c.afterText.isEmpty then do
      let (c, _) ← c.appendNode (.text text) range
      pure c
    else pure c
  pure { c with afterText := c.afterText ++ [text] }

/-- `Context::merge_text` -/
def mergeText (c : Ctx) : Res Ctx :=
  if c.doc.nodes.size == 0 then .panic "merge_text: last_mut().unwrap()"
  else
    let i := c.doc.nodes.size - 1
    match c.doc.nodes[i]? with
    | none => .panic "merge_text: last_mut().unwrap()"
    | some n =>
      match n.kind with
      | .text _ =>
        let joined := (c.afterText.map (·.bytes)).flatten
        .ok (c.setNode i { n with kind := .text (.owned joined) })
      | _ => .panic "merge_text: unreachable"

/-- `Context::reset_after_text` -/
def resetAfterText (c : Ctx) : Res Ctx :=
  if c.afterText.isEmpty then .ok c
  else do
    let c ← if c.afterText.length > 1 then c.mergeText else pure c
    pure { c with afterText := [] }

end Ctx

/-! ### Namespace and attribute resolution -/

/-- `get_ns_idx_by_prefix` (with the D11 repair) -/
def getNsIdxByPrefix (doc : Doc) (nss : Range) (prefixPos : Nat) (pfx : Bytes) : Res (Option Nat) :=
  let pfxOpt : Option Bytes := if pfx.isEmpty then none else some pfx
  if pfx == Lit.xml then .ok (some 0)
  else if !(nss.1 ≤ nss.2 && nss.2 ≤ doc.ns.treeOrder.size) then .panic "tree_order slice"
  else
    let rec find : List Nat → Res (Option Nat)
      | [] => .ok none
      | idx :: r =>
        match doc.ns.values[idx]? with
        | none => .panic "Namespaces::get"
        | some v => if v.nameBytes == pfxOpt then .ok (some idx) else find r
    do
      let r ← find ((doc.ns.treeOrder.toList.drop nss.1).take (nss.2 - nss.1))
      match r with
      | some idx => pure (some idx)
      | none =>
        if !pfx.isEmpty then errPos txt (.unknownNamespace pfx) prefixPos
        else pure none

/-- The loop of `Context::resolve_namespaces` over the parent's range. -/
def inheritLoop (startIdx : Nat) : List Nat → Namespaces → Res Namespaces
  | [], ns => .ok ns
  | i :: r, ns =>
    match ns.treeOrder[i]? with
    | none => .panic "tree_order index"
    | some vi =>
      match ns.values[vi]? with
      | none => .panic "Namespaces::get"
      | some v => do
        let ex ← ns.exists startIdx v.nameBytes
        let ns ← if !ex then ns.pushRef i else pure ns
        inheritLoop startIdx r ns

/-- `Context::resolve_namespaces` -/
def resolveNamespaces (c : Ctx) : Res (Ctx × Range) := do
  let p ← c.nodeAt c.parentId
  match p.kind with
  | .element _ _ _ parentNs =>
    if c.nsStartIdx == c.doc.ns.treeOrder.size then pure (c, parentNs)
    else
      let ns ← inheritLoop c.nsStartIdx ((List.range (parentNs.2 - parentNs.1)).map (· + parentNs.1)) c.doc.ns
      let c := { c with doc := { c.doc with ns := ns } }
      pure (c, (c.nsStartIdx, c.doc.ns.treeOrder.size))
  | _ => pure (c, (c.nsStartIdx, c.doc.ns.treeOrder.size))

/-- The namespace of one attribute (the `if` chain at the head of the loop of
`resolve_attributes`). -/
def attrNsIdx (doc : Doc) (nss : Range) (a : TempAttr) : Res (Option Nat) :=
  if a.pfx.bytes == Lit.xml then .ok (some 0)
  else if a.pfx.bytes.isEmpty then .ok none
  else getNsIdxByPrefix txt doc nss a.range.1 a.pfx.bytes

/-- The loop of `resolve_attributes`. -/
def resolveAttrsLoop (positions : Bool) (nss : Range) (startIdx : Nat) : List TempAttr → Doc → Res Doc
  | [], doc => .ok doc
  | a :: r, doc => do
    let nsIdx ← attrNsIdx txt doc nss a
    let en ← Api.expandedName doc nsIdx a.loc
    let existing := (List.range (doc.attrs.size - startIdx)).map (· + startIdx)
    let dup ← existing.anyM fun k => do
      let e ← Api.attrExpanded doc k
      pure (e == en)
    if dup then errPos txt (.duplicatedAttribute a.loc.bytes) a.range.1
    else
      let ad : AttrData :=
        if positions then
          { nsIdx := nsIdx, localName := a.loc, value := a.value, range := a.range,
            qnameLen := a.qnameLen, eqLen := a.eqLen }
        else
          { nsIdx := nsIdx, localName := a.loc, value := a.value, range := (0, 0),
            qnameLen := 0, eqLen := 0 }
      resolveAttrsLoop positions nss startIdx r { doc with attrs := doc.attrs.push ad }

/-- `resolve_attributes` -/
def resolveAttributes (c : Ctx) (nss : Range) : Res (Ctx × Range) :=
  if c.curAttrs.isEmpty then .ok (c, (0, 0))
  else if c.doc.attrs.size + c.curAttrs.length ≥ 4294967295 then .err .attributesLimitReached
  else do
    let startIdx := c.doc.attrs.size
    let doc ← resolveAttrsLoop txt c.positions nss startIdx c.curAttrs c.doc
    pure ({ c with doc := doc, curAttrs := [] }, (startIdx, doc.attrs.size))

def genQNameString (pfx loc : Bytes) : Bytes :=
  if pfx.isEmpty then loc else pfx ++ [bColon] ++ loc

/-- `process_element` (parse.rs:794-898, with the D9 repair) -/
def processElement (c : Ctx) (e : EndKind) (tokRange : Range) : Res Ctx := do
  if c.tagName.name.isEmpty then
    match e with
    | .close .. => errPos txt .unexpectedEntityCloseTag tokRange.1
    | _ => .panic "should be already checked by the tokenizer"
  else
    let (c, nss) ← resolveNamespaces c
    let c := { c with nsStartIdx := c.doc.ns.treeOrder.size, xmlDeclared := false }
    -- a failure of resolve_attributes drains nothing that is observable afterwards
    let (c, attrs) ← resolveAttributes txt c nss
    match e with
    | .empty => do
      let tagNs ← getNsIdxByPrefix txt c.doc nss c.tagName.prefixPos c.tagName.pfx
      let (c, newId) ← c.appendNode (.element tagNs c.tagName.nameSpan attrs nss)
                          (c.tagName.pos, tokRange.2)
      pure { c with awaiting := c.awaiting ++ [newId] }
    | .close pfx loc => do
      if c.parentPrefixes.length ≤ c.entityFloor then
        errPos txt .unexpectedEntityCloseTag tokRange.1
      else
        let p ← c.nodeAt c.parentId
        match c.parentPrefixes with
        | [] => .panic "parent_prefixes.last().unwrap()"
        | parentPrefix :: restPrefixes =>
          let p := if c.positions then { p with range := (p.range.1, tokRange.2) } else p
          let c := c.setNode c.parentId p
          let mismatch : Option (Bytes × Bytes) :=
            match p.kind with
            | .element _ tn _ _ =>
              if pfx.bytes != parentPrefix || loc.bytes != tn.bytes then
                some (genQNameString parentPrefix tn.bytes, genQNameString pfx.bytes loc.bytes)
              else none
            | _ => none
          match mismatch with
          | some (exp, act) => errPos txt (.unexpectedCloseTag exp act) tokRange.1
          | none =>
            let c := { c with awaiting := c.awaiting ++ [c.parentId] }
            match p.parent with
            | some id => pure { c with parentId := id, parentPrefixes := restPrefixes }
            | none => errPos txt .unexpectedEntityCloseTag tokRange.1
    | .open => do
      let tagNs ← getNsIdxByPrefix txt c.doc nss c.tagName.prefixPos c.tagName.pfx
      let (c, newId) ← c.appendNode (.element tagNs c.tagName.nameSpan attrs nss)
                          (c.tagName.pos, tokRange.2)
      pure { c with parentId := newId, parentPrefixes := c.tagName.pfx :: c.parentPrefixes }

/-! ### Attribute normalisation -/

def findEntity (ents : List Entity) (name : Bytes) : Option Entity :=
  ents.find? fun e => e.name.bytes == name

/-- The byte loop of `_normalize_attribute` for one stream; `rec` expands an entity value one
level deeper. -/
def normAttrLoop (ents : List Entity)
    (rec : Span → TextBuffer → LD → List Ev → Res (TextBuffer × LD × List Ev)) :
    Nat → Stream → TextBuffer → LD → List Ev → Res (TextBuffer × LD × List Ev)
  | 0, _, _, _, _ => .fuel
  | fuel+1, s, buf, ld, tr =>
    match s.rest with
    | [] => .ok (buf, ld, tr)
    | c :: r =>
      if c != bAmp then
        if c == bLt then errAt txt .invalidAttributeValue s.pos
        else
          let s' : Stream := ⟨s.pos + 1, r⟩
          normAttrLoop ents rec fuel s' (buf.pushFromAttr c s'.currByte?) ld tr
      else do
        let start := s.pos
        let (s', ref) ← s.consumeReference T txt
        match ref with
        | some (.char ch) =>
          let bytes := encodeChar ch
          if ld.depth > 0 then
            if bytes.contains bLt then errFrom txt .invalidAttributeValue start
            else
              normAttrLoop ents rec fuel s' (bytes.foldl (fun b x => b.pushFromAttr x none) buf) ld tr
          else normAttrLoop ents rec fuel s' (buf.pushBytesRaw bytes) ld tr
        | some (.entity name) =>
          match findEntity ents name.bytes with
          | some ent =>
            match ld.incRefs with
            | none => errAt txt .entityReferenceLoop s'.pos
            | some ld1 =>
              let tr := Ev.loop 0 true ld1.depth ld1.refs :: tr
              match ld1.incDepth with
              | none => errAt txt .entityReferenceLoop s'.pos
              | some ld2 => do
                let tr := Ev.loop 1 true ld2.depth ld2.refs :: tr
                let _ ← (Stream.mk ent.value.off ent.value.bytes).skipXmlChars T txt
                let (buf, ld3, tr) ← rec ent.value buf ld2 tr
                let ld4 := ld3.decDepth
                normAttrLoop ents rec fuel s' buf ld4 (Ev.loop 2 true ld4.depth ld4.refs :: tr)
          | none => errFrom txt (.unknownEntityReference name.bytes) start
        | none => errFrom txt .malformedEntityReference start

/-- `_normalize_attribute`: recursion through entity values is on `d`. -/
def normAttrRec (ents : List Entity) : Nat → Span → TextBuffer → LD → List Ev →
    Res (TextBuffer × LD × List Ev)
  | 0, _, _, _, _ => .fuel
  | d+1, text, buf, ld, tr =>
    normAttrLoop T txt ents (normAttrRec ents d) (text.bytes.length + 1) ⟨text.off, text.bytes⟩ buf ld tr

/-- Depth fuel: the loop detector admits at most 10 nested entity levels. -/
def depthFuel : Nat := 12

/-- `normalize_attribute` -/
def normalizeAttribute (c : Ctx) (value : Span) : Res (Ctx × Str) :=
  if value.bytes.any (fun b => b == bAmp || b == bTab || b == bLF || b == bCR) then do
    let (buf, ld, tr) ← normAttrRec T txt c.entities depthFuel value {} c.ld c.trace
    let out ← buf.finish
    pure ({ c with ld := ld, trace := tr }, .owned out)
  else .ok (c, .borrowed value)

/-- `process_attribute` (parse.rs:711-792, with the D4, D5, D12 repairs) -/
def processAttribute (c : Ctx) (range : Range) (qnameLen eqLen : Nat) (pfx loc : Span)
    (value : Span) : Res Ctx := do
  let (c, value) ← normalizeAttribute T txt c value
  let c := c.log (.attrValue value)
  if pfx.bytes == Lit.xmlns then
    if value.bytes == nsXmlnsUri then errPos txt .unexpectedXmlnsUri range.1
    else if loc.bytes == Lit.xmlns then errPos txt .invalidElementNamePrefix range.1
    else
      let isXmlNsUri := value.bytes == nsXmlUri
      if loc.bytes == Lit.xml && !isXmlNsUri then errPos txt .invalidXmlPrefixUri range.1
      else if loc.bytes != Lit.xml && isXmlNsUri then errPos txt .unexpectedXmlUri range.1
      else do
        let ex ← c.doc.ns.exists c.nsStartIdx (some loc.bytes)
        if ex || (isXmlNsUri && c.xmlDeclared) then errPos txt (.duplicatedNamespace loc.bytes) range.1
        else if !isXmlNsUri then do
          let ns ← c.doc.ns.pushNs (some loc) value
          pure { c with doc := { c.doc with ns := ns } }
        else pure { c with xmlDeclared := true }
  else if pfx.bytes.isEmpty && loc.bytes == Lit.xmlns then
    if value.bytes == nsXmlUri then errPos txt .unexpectedXmlUri range.1
    else if value.bytes == nsXmlnsUri then errPos txt .unexpectedXmlnsUri range.1
    else do
      let ex ← c.doc.ns.exists c.nsStartIdx none
      if ex then errPos txt (.duplicatedNamespace []) range.1
      else
        let ns ← c.doc.ns.pushNs none value
        pure { c with doc := { c.doc with ns := ns } }
  else
    pure { c with curAttrs := c.curAttrs ++ [⟨pfx, loc, value, range, qnameLen, eqLen⟩] }

/-! ### Text -/

/-- `process_cdata`: CR LF and lone CR become LF. -/
def cdataNormalize : Bytes → Bytes
  | [] => []
  | 13 :: 10 :: r => 10 :: cdataNormalize r
  | 13 :: r => 10 :: cdataNormalize r
  | b :: r => b :: cdataNormalize r

def processCdata (c : Ctx) (text : Span) (range : Range) : Res Ctx :=
  if !(text.bytes.contains bCR) then c.appendText (.borrowed text) range
  else c.appendText (.owned (cdataNormalize text.bytes)) range

inductive NextChunk where
  | byte (c : UInt8)
  | char (c : Nat)
  | text (fragment : Span)

/-- `parse_next_chunk` -/
def parseNextChunk (ents : List Entity) (s : Stream) : Res (Stream × NextChunk) :=
  match s.rest with
  | [] => .panic "parse_next_chunk: at end"
  | c :: r =>
    if c == bAmp then do
      let start := s.pos
      let (s', ref) ← s.consumeReference T txt
      match ref with
      | some (.char ch) => pure (s', .char ch)
      | some (.entity name) =>
        match findEntity ents name.bytes with
        | some e => pure (s', .text e.value)
        | none => errFrom txt (.unknownEntityReference name.bytes) start
      | none => errFrom txt .malformedEntityReference start
    else .ok (⟨s.pos + 1, r⟩, .byte c)

/-- Feed a token list to a builder step; the builder's first failure stops everything, otherwise
the tokenizer's own outcome decides (`?` on `tokenizer::parse_content`). -/
def feed (step : Token → Ctx → Res Ctx) : List Token → Ctx → Res Ctx
  | [], c => .ok c
  | t :: ts, c =>
    match step t c with
    | .ok c' => feed step ts c'
    | .err e => .err e
    | .panic s => .panic s
    | .fuel => .fuel

def runTokens {α} (step : Token → Ctx → Res Ctx) (toks : List Token) (stop : Res α) (c : Ctx) :
    Res Ctx :=
  match feed step toks c with
  | .ok c' =>
    match stop with
    | .ok _ => .ok c'
    | .err e => .err e
    | .panic s => .panic s
    | .fuel => .fuel
  | r => r

/-- `if !text_buffer.is_empty() { ctx.append_text(Cow::Owned(text_buffer.finish()), range)? }` -/
def flushBuffer (c : Ctx) (buf : TextBuffer) (range : Range) : Res Ctx :=
  if !buf.isEmpty then do
    let out ← buf.finish
    c.appendText (.owned out) range
  else .ok c

/-- The chunk loop of `process_text`; `lower` is the builder one entity level deeper. -/
def processTextLoop (lower : Token → Ctx → Res Ctx) (range : Range) :
    Nat → Stream → TextBuffer → Ctx → Res (TextBuffer × Ctx)
  | 0, _, _, _ => .fuel
  | fuel+1, s, buf, c =>
    if s.atEnd then .ok (buf, c)
    else do
      let (s, chunk) ← parseNextChunk T txt c.entities s
      match chunk with
      | .byte b => processTextLoop lower range fuel s (buf.pushFromText b) c
      | .char ch =>
        let bytes := encodeChar ch
        if c.ld.depth > 0 then processTextLoop lower range fuel s (buf.pushBytesText bytes) c
        else processTextLoop lower range fuel s (buf.pushBytesRaw bytes) c
      | .text fragment => do
        let c ← flushBuffer c buf range
        match c.ld.incRefs with
        | none => errAt txt .entityReferenceLoop s.pos
        | some ld1 =>
          let c := { c with ld := ld1 }.log (.loop 0 true ld1.depth ld1.refs)
          match c.ld.incDepth with
          | none => errAt txt .entityReferenceLoop s.pos
          | some ld2 =>
            let c := { c with ld := ld2 }.log (.loop 1 true ld2.depth ld2.refs)
            let prevTagName := c.tagName
            let prevFloor := c.entityFloor
            let c := { c with tagName := {}, entityFloor := c.parentPrefixes.length,
                              maxDepth := max c.maxDepth ld2.depth }
            let (toks, stop) := tokenizeContent T txt fragment.off fragment.stop
            let c ← runTokens lower toks stop c
            if c.parentPrefixes.length != c.entityFloor then .err .unexpectedEndOfStream
            else
              let c := { c with entityFloor := prevFloor, tagName := prevTagName }
              let ld3 := c.ld.decDepth
              let c := { c with ld := ld3 }.log (.loop 2 true ld3.depth ld3.refs)
              processTextLoop lower range fuel s {} c

/-- `process_text` -/
def processText (lower : Token → Ctx → Res Ctx) (c : Ctx) (text : Span) (range : Range) :
    Res Ctx :=
  if !(text.bytes.any fun b => b == bAmp || b == bCR) then c.appendText (.borrowed text) range
  else do
    let s := Stream.ofRange txt range.1 range.2
    let (buf, c) ← processTextLoop T txt lower range (s.rest.length + 1) s {} c
    flushBuffer c buf range

/-- `<Context as XmlEvents>::token`; `lower` handles tokens that come out of an entity. -/
def tokenStep (lower : Token → Ctx → Res Ctx) (t : Token) (c : Ctx) : Res Ctx := do
  let c := c.log (.token t)
  match t with
  | .pi target value range => do
    let c ← c.resetAfterText
    let (c, _) ← c.appendNode (.pi target value) range
    pure c
  | .comment text range => do
    let c ← c.resetAfterText
    let (c, _) ← c.appendNode (.comment (.borrowed text)) range
    pure c
  | .entityDecl name value => pure { c with entities := c.entities ++ [⟨name, value⟩] }
  | .elementStart pfx loc start => do
    let c ← c.resetAfterText
    if pfx.bytes == Lit.xmlns then errPos txt .invalidElementNamePrefix (start + 1)
    else pure { c with tagName := ⟨pfx.bytes, loc.bytes, loc, start, start + 1⟩ }
  | .attribute range qnameLen eqLen pfx loc value =>
    processAttribute T txt c range qnameLen eqLen pfx loc value
  | .elementEnd e range => do
    let c ← c.resetAfterText
    processElement txt c e range
  | .text text range => processText T txt lower c text range
  | .cdata text range => processCdata c text range

/-- The builder with `d` levels of entity re-entry available. -/
def token : Nat → Token → Ctx → Res Ctx
  | 0 => fun _ _ => .fuel
  | d+1 => tokenStep T txt (token d)

end

end Rox
