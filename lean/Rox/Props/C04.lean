/-
  C04 — Character data is decoded per XML 1.0, one text node per run.
  `Rox.Props.C04Base`: the text buffer against the spec (`decode_pieces`), CDATA, one node per run.
  This file: the builder's text loop end to end.
-/
import Rox.Props.C04Base
import Rox.Lemmas.Decode

namespace Rox.Props.C04
open Rox Rox.Spec Rox.Lemmas

/-- **End to end, entity depth 0** (every text token whose run consists of literal characters,
character references and predefined entity references — `runPieces` reads the run with the
tokenizer's own `consume_reference`): if `process_text` succeeds, what it did is `append_text` of
exactly the XML-defined decoding of the run (`decodePieces`: literal runs §2.11-normalised as
written, referenced characters kept as they are), for every adjacency of CR, LF and references; it
appends nothing exactly when the decoding is empty. -/
theorem text_run_decoded (T : Tables) (txt : Bytes) (lower : Token → Ctx → Res Ctx) (c c' : Ctx)
    (text : Span) (range : Range)
    (hr : range = (text.off, text.off + text.bytes.length))
    (hs : text.bytes = sliceBytes txt text.off (text.off + text.bytes.length))
    (hd : c.ld.depth = 0) (ps : List Piece)
    (hp : runPieces T txt (text.bytes.length + 1) ⟨text.off, text.bytes⟩ = some ps)
    (hamp : text.bytes.any (fun b => b == bAmp || b == bCR) = true)
    (h : processText T txt lower c text range = .ok c') :
    Alternating ps ∧
    (if decodePieces ps = [] then c' = c
     else c.appendText (.owned (decodePieces ps)) range = .ok c') :=
  processText_decodes T txt lower c c' text range hr hs hd ps hp hamp h

end Rox.Props.C04
