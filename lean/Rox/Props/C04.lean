/-
  C04 — Character data is decoded per XML 1.0, one text node per run.
  `Rox.Props.C04Base`: the text buffer against the spec (`decode_pieces`), CDATA, one node per run.
  This file: the builder's text loop end to end.
-/
import Rox.Props.C04Base
import Rox.Lemmas.Decode
import Rox.Lemmas.MirrorAll
import Rox.Lemmas.GrammarTables
import Rox.Props.C01
import Rox.Lemmas.TextEntityMany

namespace Rox.Props.C04
open Rox Rox.Spec Rox.Lemmas

/-- **End to end, entity depth 0** (every text token whose run consists of literal characters,
character references and predefined entity references — `runPieces` reads the run with the
tokenizer's own `consume_reference`): if `process_text` succeeds, what it did is `append_text` of
exactly the XML-defined decoding of the run (`decodePieces`: literal runs §2.11-normalised as
written, referenced characters kept as they are), for every adjacency of CR, LF and references; it
appends nothing exactly when the decoding is empty. -/
theorem text_run_decoded (T : Tables) (txt : Bytes) (lower : Token → Ctx → Res Ctx) (c c' : Ctx)
    (text : Span) (range : Range)
    (hr : range = (text.off, text.off + text.bytes.length))
    (hs : text.bytes = sliceBytes txt text.off (text.off + text.bytes.length))
    (hd : c.ld.depth = 0) (ps : List Piece)
    (hp : runPieces T txt (text.bytes.length + 1) ⟨text.off, text.bytes⟩ = some ps)
    (hamp : text.bytes.any (fun b => b == bAmp || b == bCR) = true)
    (h : processText T txt lower c text range = .ok c') :
    Alternating ps ∧
    (if decodePieces ps = [] then c' = c
     else c.appendText (.owned (decodePieces ps)) range = .ok c') :=
  processText_decodes T txt lower c c' text range hr hs hd ps hp hamp h

/-- **Every text node of every accepted input is the decoding of its run** (every valid UTF-8 input,
`allow_dtd = false`): the text nodes of the tree are exactly the maximal runs of character data and
CDATA sections of the abstract document the input is the concrete syntax of — one node per run,
nothing dropped, duplicated, reordered or split —, each holding `decodeText` of the character data
(§2.11 line ends on the literal parts, references replaced by the denoted character, a referenced
CR or LF kept) concatenated with `lineEnds` of the CDATA sections (`Rox.Spec.Mirror.treeKids`);
white-space-only runs inside the root element are preserved. This is `C03.accepted_tree_mirrors`
read for its text nodes. -/
theorem accepted_text_runs_decoded (txt : Bytes) (hv : ValidUtf8 txt) (opt : Opt)
    (hdtd : opt.allowDtd = false) (d : Doc) (h : parse Generated.tables txt opt = .ok d) :
    ∃ x : Rox.Spec.Grammar.GDoc, Rox.Spec.Grammar.GDocWf Generated.tables x ∧
      Rox.Spec.Mirror.DocNormal Generated.tables x ∧ Rox.Spec.Grammar.RDoc Generated.tables x txt ∧
      d.nodes.toList.map (Rox.Spec.Mirror.viewM d) =
        (none, Rox.Spec.Canon4.YKind.root) ::
          Rox.Spec.Canon4.expectAllY 0 1 (Rox.Spec.Mirror.docTree x) :=
  Rox.Lemmas.accepted_tree_mirrors Generated.tables C01.generated_tables_ok
    Rox.Lemmas.generated_tables_grammar txt hv opt hdtd d h

/-- **A run of character data with any number of entity references is one text node** (builder level,
entity depth 0, `allow_dtd = true`): a text token written as plain pieces and references in any
number and order,

    t0 &n1; t1 &n2; t2 … &nk; tk        (k ≥ 0; the same entity may occur several times)

where every `ti` and every referenced entity's replacement text is plain character data (no `&`, no
`<`; CR and LF allowed), is turned — whenever `process_text` succeeds, starting with no text
pending — into exactly ONE new text node, created when the run is closed, whose value is

    lineEnds t0 ++ lineEnds e1 ++ lineEnds t1 ++ … ++ lineEnds ek ++ lineEnds tk

(`Rox.Lemmas.TextEnt.expectedText`; line ends are normalised per piece, as XML 2.11 prescribes for
each entity on its own): the replacement texts contribute to the run as if they stood in place of the
references, nothing is dropped or duplicated and the pieces are not separate nodes. `RefsOk` / `ValsOk`
say what the reference lexer reads at each `&` and that each value tokenises to one text token.
`Rox.Lemmas.TextManyExample` instantiates every hypothesis on
`<!DOCTYPE r [<!ENTITY e 'x\ry'><!ENTITY f 'z'>]><r>a\r\nb&e;&f;c&e;\r</r>` with the tables of the
build. The generalisation of `text_run_decoded` to runs with references (`Lemmas/TextEntityMany.lean`,
which also proves what else is left unchanged: entity table, attributes, namespaces, open elements). -/
theorem text_run_with_references_is_one_node (T : Tables) (txt : Bytes) (lower2 : Token → Ctx → Res Ctx)
    (c c' c0 : Ctx) (text : Span) (range : Range) (t0 : Bytes) (segs : List Rox.Lemmas.Seg)
    (hr : range = (text.off, text.off + text.bytes.length))
    (hs : text.bytes = sliceBytes txt text.off (text.off + text.bytes.length))
    (hd : c.ld.depth = 0)
    (hval : text.bytes = Rox.Lemmas.valueOf t0 segs)
    (hp : Rox.Lemmas.litOk t0) (hsegs : Rox.Lemmas.SegsOk c.entities segs)
    (hcr : Rox.Lemmas.RefsOk T txt (text.off + t0.length) segs)
    (hvs : Rox.Lemmas.TextEnt.ValsOk T txt segs)
    (hat : c.afterText = []) (hne : Rox.Lemmas.TextEnt.expectedText t0 segs ≠ [])
    (h : processText T txt (tokenStep T txt lower2) c text range = .ok c')
    (hreset : c'.resetAfterText = .ok c0) :
    c0.afterText = [] ∧ c0.doc.nodes.size = c.doc.nodes.size + 1 ∧
    ∃ n X, c0.doc.nodes[c.doc.nodes.size]? = some n ∧ n.kind = .text X ∧
      X.bytes = Rox.Lemmas.TextEnt.expectedText t0 segs :=
  Rox.Lemmas.processText_entities_node T txt lower2 c c' c0 text range t0 segs hr hs hd hval hp hsegs
    hcr hvs hat hne h hreset

end Rox.Props.C04
