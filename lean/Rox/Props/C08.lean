/-
  C08 — Ill-formed documents are rejected.
  `Rox.Props.C08Base`: the lexical tables against XML 1.0 (re-checked against the tables of the
  build on every run). `Rox.Props.C08Reject`: every well-formedness / namespace constraint the
  library checks, stated outright as "in this situation the function returns this error".
  This file: what follows for delivered tokens.
-/
import Rox.Props.C08Base
import Rox.Props.C08Reject
import Rox.Props.C01

namespace Rox.Props.C08
open Rox Rox.Lemmas

/-- **Lexical constraints on everything the tokenizer delivers** (all valid UTF-8 inputs, both
values of `allow_dtd`, tables of the build): no comment contains `--` or ends in `-`, no character
data contains `]]>`, no attribute value contains `<`, element names and PI targets are non-empty,
and every string and range lies inside the input. A document violating one of these is therefore
rejected by the tokenizer (it cannot deliver the offending token), whatever follows. -/
theorem delivered_tokens_lexical (txt : Bytes) (hv : ValidUtf8 txt) (allowDtd : Bool) :
    ∀ t ∈ (tokenize Generated.tables txt allowDtd).1,
      match t with
      | .comment b _ => containsSub b.bytes Lit.dashDash = false ∧ b.bytes.getLast? ≠ some bDash
      | .text b _ => (b.bytes.contains bGt && containsSub b.bytes Lit.cdataEnd) = false
      | .attribute _ _ _ _ _ v => ∀ x ∈ v.bytes, x ≠ bLt
      | .elementStart _ l _ => l.bytes ≠ []
      | .pi tg _ _ => tg.bytes ≠ []
      | _ => True := by
  intro t ht
  have h := C01.tokens_are_slices txt hv allowDtd t ht
  cases t with
  | comment b r => exact ⟨h.2.2.1, h.2.2.2⟩
  | text b r => exact h.2.2.2
  | «attribute» r q e p l v => exact h.2.2.2.2
  | elementStart p l s => exact h.2.2.2.1
  | pi tg v r => exact h.2.2.2
  | _ => trivial

end Rox.Props.C08
