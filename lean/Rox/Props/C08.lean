/-
  C08 — Ill-formed documents are rejected.
  `Rox.Props.C08Base`: the lexical tables against XML 1.0 (re-checked against the tables of the
  build on every run). `Rox.Props.C08Reject`: every well-formedness / namespace constraint the
  library checks, stated outright as "in this situation the function returns this error".
  This file: what follows for delivered tokens.
-/
import Rox.Props.C08Base
import Rox.Props.C08Reject
import Rox.Props.C01
import Rox.Lemmas.GrammarTables

namespace Rox.Props.C08
open Rox Rox.Lemmas

/-- **Lexical constraints on everything the tokenizer delivers** (all valid UTF-8 inputs, both
values of `allow_dtd`, tables of the build): no comment contains `--` or ends in `-`, no character
data contains `]]>`, no attribute value contains `<`, element names and PI targets are non-empty,
and every string and range lies inside the input. A document violating one of these is therefore
rejected by the tokenizer (it cannot deliver the offending token), whatever follows. -/
theorem delivered_tokens_lexical (txt : Bytes) (hv : ValidUtf8 txt) (allowDtd : Bool) :
    ∀ t ∈ (tokenize Generated.tables txt allowDtd).1,
      match t with
      | .comment b _ => containsSub b.bytes Lit.dashDash = false ∧ b.bytes.getLast? ≠ some bDash
      | .text b _ => (b.bytes.contains bGt && containsSub b.bytes Lit.cdataEnd) = false
      | .attribute _ _ _ _ _ v => ∀ x ∈ v.bytes, x ≠ bLt
      | .elementStart _ l _ => l.bytes ≠ []
      | .pi tg _ _ => tg.bytes ≠ []
      | _ => True := by
  intro t ht
  have h := C01.tokens_are_slices txt hv allowDtd t ht
  cases t with
  | comment b r => exact ⟨h.2.2.1, h.2.2.2⟩
  | text b r => exact h.2.2.2
  | «attribute» r q e p l v => exact h.2.2.2.2
  | elementStart p l s => exact h.2.2.2.1
  | pi tg v r => exact h.2.2.2
  | _ => trivial

/-- **Whatever is accepted is well-formed** (every valid UTF-8 input, the default `allow_dtd = false`,
every node limit, with or without positions; tables of the build): if `parse` returns a tree, the
input is the concrete syntax of a well-formed XML 1.0 document in the sense of `Rox.Spec.Grammar` —
production [1] `document` without DOCTYPE: optional BOM, optional XML declaration [23] with exactly
named pseudo-attributes, Misc, ONE root element, Misc; elements with matching start and end tags
[39] or empty-element tags [44]; attributes [41] preceded by white space, unique by name, their
values quoted, without `<`, every `&` starting a character reference to a legal character or a
reference to a predefined entity [66]–[68]; character data [14] without `<`, without `]]>`, every
`&` starting such a reference; CDATA sections [18], comments [15] without `--`, processing
instructions [16] with a Name target separated from their content by white space; names QNames;
every character an XML `Char` [2] — with the documented leniencies spelled out in the grammar
(leading `:` in a name, non-scalar character references, unvalidated pseudo-attribute values,
reserved PI targets). So a conforming XML 1.0 processor accepts it too. Namespace constraints are
the rules of `Rox.Props.C08.Reject`. -/
theorem accepted_is_wellformed (txt : Bytes) (hv : ValidUtf8 txt) (opt : Opt)
    (hdtd : opt.allowDtd = false) (d : Doc) (h : parse Generated.tables txt opt = .ok d) :
    Rox.Spec.Grammar.WellFormed Generated.tables txt :=
  accepted_is_wellformed_generated txt hv opt hdtd d h

/-- The hypotheses are satisfiable: `<a b='1'>x<!--c--><?p v?></a>` is valid UTF-8 and accepted under
the default options — hence well-formed. -/
theorem accepted_is_wellformed_example :
    Rox.Spec.Grammar.WellFormed Generated.tables Rox.Lemmas.exampleDoc :=
  exampleDoc_wellformed

end Rox.Props.C08
