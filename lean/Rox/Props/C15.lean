/-
  C15 — nodes_limit is a hard, monotone cap on tree size.

  The option is read at exactly one place of the model, `Ctx.appendNode` (parse.rs:516). The
  theorems below state what that single reader does; `Rox.Lemmas.Size` lifts them through every
  builder function (`size_le_limit`).
-/
import Rox.Lemmas.Size
import Rox.Lemmas.LimitMono

namespace Rox.Props.C15
open Rox

/-- The only reader of the limit: a node is created exactly when the arena is still below it, and
then the arena grows by one and stays within the limit. -/
theorem appendNode_cap (c c' : Ctx) (k : Kind) (r : Range) (id : Nat)
    (h : c.appendNode k r = .ok (c', id)) :
    c.doc.nodes.size < c.nodesLimit ∧ c'.doc.nodes.size = c.doc.nodes.size + 1 ∧
    c'.doc.nodes.size ≤ c.nodesLimit ∧ c'.nodesLimit = c.nodesLimit ∧ id = c.doc.nodes.size :=
  Lemmas.appendNode_size c c' k r id h

/-- At or above the limit the only possible outcome is `NodesLimitReached`. -/
theorem appendNode_full (c : Ctx) (k : Kind) (r : Range) (h : c.nodesLimit ≤ c.doc.nodes.size) :
    c.appendNode k r = .err .nodesLimitReached := by
  unfold Ctx.appendNode; simp [h]

/-- Raising the limit never changes what a successful append does (monotonicity at the reader). -/
theorem appendNode_mono (c c' : Ctx) (k : Kind) (r : Range) (id : Nat) (L' : Nat)
    (h : c.appendNode k r = .ok (c', id)) (hL : c.nodesLimit ≤ L') :
    ({ c with nodesLimit := L' }).appendNode k r = .ok ({ c' with nodesLimit := L' }, id) :=
  Lemmas.appendNode_mono c c' k r id L' h hL

/-- Hard cap: a successful parse has at most `nodes_limit` nodes, root included, for every input
and every limit. -/
theorem cap (T : Tables) (txt : Bytes) (opt : Opt) (d : Doc)
    (h : parse T txt opt = .ok d) : d.nodes.size ≤ opt.nodesLimit :=
  Lemmas.parse_size_le_limit T txt opt d h

/-- Non-vacuity: `<a/>` with limit 2 parses to two nodes; with limit 1 it is `NodesLimitReached`. -/
example : (match parse ⟨[], [], [], [], [(97, 97)], [(97, 97)], [(0, 255)]⟩ [60, 97, 47, 62] { nodesLimit := 2 } with
    | .ok d => d.nodes.size | _ => 0) = 2 := by decide
example : parse ⟨[], [], [], [], [(97, 97)], [(97, 97)], [(0, 255)]⟩ [60, 97, 47, 62] { nodesLimit := 1 }
    = .err .nodesLimitReached := by decide

/-- **Monotone in the limit** (all inputs, all other options): unless the parse with limit `L` fails
with `NodesLimitReached`, the parse with any larger limit `L'` — `u32::MAX`, the default, included
— returns exactly the same result: the same document, or the same error. So raising the limit can
only turn `NodesLimitReached` into something else, never change an accepted document or another
error. -/
theorem monotone (T : Tables) (txt : Bytes) (opt : Opt) (L L' : Nat) (hle : L ≤ L')
    (h : parse T txt { opt with nodesLimit := L } ≠ .err .nodesLimitReached) :
    parse T txt { opt with nodesLimit := L' } = parse T txt { opt with nodesLimit := L } :=
  Rox.Lemmas.parse_limit_mono T txt opt L L' hle h

end Rox.Props.C15
