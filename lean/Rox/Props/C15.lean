/-
  C15 — nodes_limit is a hard, monotone cap on tree size.

  The option is read at exactly one place of the model, `Ctx.appendNode` (parse.rs:516). The
  theorems below state what that single reader does; `Rox.Lemmas.Size` lifts them through every
  builder function (`size_le_limit`).
-/
import Rox.Lemmas.Size
import Rox.Lemmas.LimitMono
import Rox.Lemmas.LimitExact

namespace Rox.Props.C15
open Rox

/-- The only reader of the limit: a node is created exactly when the arena is still below it, and
then the arena grows by one and stays within the limit. -/
theorem appendNode_cap (c c' : Ctx) (k : Kind) (r : Range) (id : Nat)
    (h : c.appendNode k r = .ok (c', id)) :
    c.doc.nodes.size < c.nodesLimit ∧ c'.doc.nodes.size = c.doc.nodes.size + 1 ∧
    c'.doc.nodes.size ≤ c.nodesLimit ∧ c'.nodesLimit = c.nodesLimit ∧ id = c.doc.nodes.size :=
  Lemmas.appendNode_size c c' k r id h

/-- At or above the limit the only possible outcome is `NodesLimitReached`. -/
theorem appendNode_full (c : Ctx) (k : Kind) (r : Range) (h : c.nodesLimit ≤ c.doc.nodes.size) :
    c.appendNode k r = .err .nodesLimitReached := by
  unfold Ctx.appendNode; simp [h]

/-- Raising the limit never changes what a successful append does (monotonicity at the reader). -/
theorem appendNode_mono (c c' : Ctx) (k : Kind) (r : Range) (id : Nat) (L' : Nat)
    (h : c.appendNode k r = .ok (c', id)) (hL : c.nodesLimit ≤ L') :
    ({ c with nodesLimit := L' }).appendNode k r = .ok ({ c' with nodesLimit := L' }, id) :=
  Lemmas.appendNode_mono c c' k r id L' h hL

/-- Hard cap: a successful parse has at most `nodes_limit` nodes, root included, for every input
and every limit. -/
theorem cap (T : Tables) (txt : Bytes) (opt : Opt) (d : Doc)
    (h : parse T txt opt = .ok d) : d.nodes.size ≤ opt.nodesLimit :=
  Lemmas.parse_size_le_limit T txt opt d h

/-- Non-vacuity: `<a/>` with limit 2 parses to two nodes; with limit 1 it is `NodesLimitReached`. -/
example : (match parse ⟨[], [], [], [], [(97, 97)], [(97, 97)], [(0, 255)]⟩ [60, 97, 47, 62] { nodesLimit := 2 } with
    | .ok d => d.nodes.size | _ => 0) = 2 := by decide
example : parse ⟨[], [], [], [], [(97, 97)], [(97, 97)], [(0, 255)]⟩ [60, 97, 47, 62] { nodesLimit := 1 }
    = .err .nodesLimitReached := by decide

/-- **Monotone in the limit** (all inputs, all other options): unless the parse with limit `L` fails
with `NodesLimitReached`, the parse with any larger limit `L'` — `u32::MAX`, the default, included
— returns exactly the same result: the same document, or the same error. So raising the limit can
only turn `NodesLimitReached` into something else, never change an accepted document or another
error. -/
theorem monotone (T : Tables) (txt : Bytes) (opt : Opt) (L L' : Nat) (hle : L ≤ L')
    (h : parse T txt { opt with nodesLimit := L } ≠ .err .nodesLimitReached) :
    parse T txt { opt with nodesLimit := L' } = parse T txt { opt with nodesLimit := L } :=
  Rox.Lemmas.parse_limit_mono T txt opt L L' hle h

/-- **Every limit below the node count is refused** (all inputs, all other options): if the parse under
some limit `L'` returns a document with `N` nodes (the root node included), then under every limit
`L < N` the parse fails with `NodesLimitReached` — not with another error, and not with a smaller
document. (From `cap` and `monotone`: were the result under `L` anything else, the parse under the
larger of `L`, `L'` would return the same, and a document of `N > L` nodes contradicts the cap.) -/
theorem below_count_fails (T : Tables) (txt : Bytes) (opt : Opt) (L L' : Nat) (d : Doc)
    (h : parse T txt { opt with nodesLimit := L' } = .ok d) (hL : L < d.nodes.size) :
    parse T txt { opt with nodesLimit := L } = .err .nodesLimitReached := by
  have hcap' := cap T txt { opt with nodesLimit := L' } d h
  have hle : L ≤ L' := by
    have : d.nodes.size ≤ L' := hcap'
    omega
  refine Classical.byContradiction fun hne => ?_
  have hm := monotone T txt opt L L' hle hne
  rw [h] at hm
  have := cap T txt { opt with nodesLimit := L } d hm.symm
  have : d.nodes.size ≤ L := this
  omega

/-- **Every limit from the node count upwards gives the identical document** (all inputs, all other
options): if the parse under some limit `L'` returns a document `d` with `N` nodes, then under every
limit `L ≥ N` — smaller or larger than `L'` — the parse returns exactly `d`. The arena only grows
along a run, so every `append_node` of the run happens at a size below `N ≤ L` and passes the check
under `L` as well; nothing else reads the limit (`Lemmas/LimitExact.lean`, the simulation of
`monotone` run in the other direction). With `below_count_fails`: the limit at which a document
starts to be accepted is exactly its node count. -/
theorem at_or_above_count_identical (T : Tables) (txt : Bytes) (opt : Opt) (L L' : Nat) (d : Doc)
    (h : parse T txt { opt with nodesLimit := L' } = .ok d) (hN : d.nodes.size ≤ L) :
    parse T txt { opt with nodesLimit := L } = .ok d :=
  Rox.Lemmas.parse_limit_exact_any T txt opt L L' d h hN

/-- The threshold, in one statement: for a document that parses to `N` nodes under some limit, a
limit `L` is enough exactly when `L ≥ N`. -/
theorem threshold_is_node_count (T : Tables) (txt : Bytes) (opt : Opt) (L L' : Nat) (d : Doc)
    (h : parse T txt { opt with nodesLimit := L' } = .ok d) :
    (parse T txt { opt with nodesLimit := L } = .ok d ↔ d.nodes.size ≤ L) ∧
    (parse T txt { opt with nodesLimit := L } = .err .nodesLimitReached ↔ L < d.nodes.size) := by
  refine ⟨⟨fun hL => cap T txt { opt with nodesLimit := L } d hL, at_or_above_count_identical T txt opt L L' d h⟩,
    ⟨fun hL => ?_, below_count_fails T txt opt L L' d h⟩⟩
  refine Classical.byContradiction fun hnot => ?_
  have hge : d.nodes.size ≤ L := by omega
  have := at_or_above_count_identical T txt opt L L' d h hge
  rw [this] at hL
  cases hL

end Rox.Props.C15
