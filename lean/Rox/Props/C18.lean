/-
  C18 — Borrowed strings are slices of the input; undecoded content is not copied.
  (Fast paths of the builder. That every `Span` the tokenizer delivers is the slice of the input at
  its offset is `Rox.Props.C18Tok`.)
-/
import Rox.Lemmas.Size
import Rox.Lemmas.DocSpans
import Rox.Props.C01
import Rox.Lemmas.MirrorStorage
import Rox.Lemmas.GrammarTables

namespace Rox.Props.C18
open Rox Rox.Lemmas

/-- A text token without `&` and CR is handed to the tree as it is: borrowed, same slice. -/
theorem text_fast_path (T : Tables) (txt : Bytes) (lower : Token → Ctx → Res Ctx) (c : Ctx)
    (t : Span) (r : Range) (h : ∀ b ∈ t.bytes, b ≠ bAmp ∧ b ≠ bCR) :
    processText T txt lower c t r = c.appendText (.borrowed t) r := by
  unfold processText
  have : (t.bytes.any fun b => b == bAmp || b == bCR) = false := by
    rw [List.any_eq_false]; intro b hb; simpa using h b hb
  simp [this]

/-- A CDATA section without CR is borrowed as well. -/
theorem cdata_fast_path (c : Ctx) (t : Span) (r : Range) (h : bCR ∉ t.bytes) :
    processCdata c t r = c.appendText (.borrowed t) r := by
  unfold processCdata
  simp [h]

/-- An attribute value without `&`, TAB, LF, CR is stored borrowed: the very slice of the token,
and neither the loop detector nor anything else is touched. -/
theorem attr_fast_path (T : Tables) (txt : Bytes) (c : Ctx) (v : Span)
    (h : ∀ b ∈ v.bytes, b ≠ bAmp ∧ b ≠ bTab ∧ b ≠ bLF ∧ b ≠ bCR) :
    normalizeAttribute T txt c v = .ok (c, .borrowed v) := by
  unfold normalizeAttribute
  have : (v.bytes.any fun b => b == bAmp || b == bTab || b == bLF || b == bCR) = false := by
    rw [List.any_eq_false]; intro b hb; have := h b hb; simp [this.1, this.2.1, this.2.2.1, this.2.2.2]
  simp [this]

/-- The first fragment of a run creates the Text node with exactly the storage it was given
(borrowed stays borrowed). -/
theorem appendText_first_storage (c c' : Ctx) (t : Str) (r : Range) (h : c.appendText t r = .ok c')
    (hemp : c.afterText = []) :
    c'.doc.nodes.size = c.doc.nodes.size + 1 ∧ c'.afterText = [t] := by
  unfold Ctx.appendText at h
  dsimp only at h
  have : (c.log (Ev.textFragment t r)).afterText.isEmpty = true := by simp [Ctx.log, hemp]
  simp only [this, if_true] at h
  rw [Res.bind_eq_ok] at h
  obtain ⟨⟨c2, id⟩, h2, h⟩ := h
  res_norm at h
  subst h
  obtain ⟨_, hs, _, _, _⟩ := appendNode_size _ _ _ _ _ h2
  refine ⟨by simpa [Ctx.log] using hs, ?_⟩
  have haft : c2.afterText = c.afterText := by
    unfold Ctx.appendNode at h2
    split at h2
    · simp at h2
    · rw [Res.bind_eq_ok] at h2
      obtain ⟨nid, _, h2⟩ := h2
      try dsimp only at h2
      split at h2
      · simp at h2
      · split at h2
        · simp at h2
        · split at h2
          · simp at h2
          · rw [Res.bind_eq_ok] at h2
            obtain ⟨nodes', _, h2⟩ := h2
            res_norm at h2
            rw [← h2.1]; simp [Ctx.log]
  simp [haft, hemp]

/-- `merge_text` (the only place that copies a text run) runs only for two or more fragments: a
run delivered as one fragment keeps its storage. -/
theorem single_fragment_not_copied (c c' : Ctx) (h : c.resetAfterText = .ok c')
    (h1 : c.afterText.length ≤ 1) : c'.doc = c.doc := by
  unfold Ctx.resetAfterText at h
  split at h
  · res_norm at h; subst h; rfl
  · have : ¬ c.afterText.length > 1 := by omega
    simp only [this, if_false] at h
    res_norm at h; subst h; rfl

/-- Comments are always borrowed; PI targets/values and names are `Span`s (never copied) by the
type of `Kind`. -/
theorem comment_borrowed (T : Tables) (txt : Bytes) (lower : Token → Ctx → Res Ctx) (c c' : Ctx)
    (t : Span) (r : Range) (h : tokenStep T txt lower (.comment t r) c = .ok c') :
    ∃ c1 id, (c.log (.token (.comment t r))).resetAfterText = .ok c1 ∧
      c1.appendNode (.comment (.borrowed t)) r = .ok (c', id) := by
  unfold tokenStep at h
  dsimp only at h
  rw [Res.bind_eq_ok] at h
  obtain ⟨c1, h1, h⟩ := h
  rw [Res.bind_eq_ok] at h
  obtain ⟨⟨c2, id⟩, h2, h⟩ := h
  res_norm at h
  subst h
  exact ⟨c1, id, h1, h2⟩

/-- **Every string with the input lifetime is a slice of the input** (all valid UTF-8 inputs, all
options, tables of the built crate): in every parsed document each element local name, PI target
and value, borrowed comment / text value, attribute local name, borrowed attribute value,
namespace prefix and borrowed namespace URI — the implicit `xml` binding (table entry 0, static
strings) apart — is the slice of the input at its recorded offset: `SpanOk txt sp` says
`sp.bytes = txt[sp.off .. sp.off + len]` and that range lies inside the input. Nodes created from
inside an entity expansion included. -/
theorem parsed_borrowed_are_slices (txt : Bytes) (hv : ValidUtf8 txt) (opt : Opt) (d : Doc)
    (h : parse Generated.tables txt opt = .ok d) :
    (∀ (i : Nat) (n : NodeData), d.nodes[i]? = some n → KindSpans txt n.kind) ∧
    (∀ (k : Nat) (a : AttrData), d.attrs[k]? = some a → SpanOk txt a.localName ∧ StrOk txt a.value) ∧
    (∀ (k : Nat) (v : Namespace), d.ns.values[k]? = some v → 0 < k → (∀ nm, v.name = some nm → SpanOk txt nm) ∧ StrOk txt v.uri) := by
  have hs := parse_docSpans Generated.tables C01.generated_tables_ok txt hv opt d h
  exact ⟨fun i n hn => (hs.nodes i n hn).1, fun k a ha => ⟨(hs.attrs k a ha).1, (hs.attrs k a ha).2.1⟩, hs.ns⟩

/-- **Which strings are borrowed, for every accepted document** (every valid UTF-8 input accepted under
the default `allow_dtd = false`; a storage-aware refinement of `C03.accepted_tree_mirrors`, for the
same abstract document `x` the input is the concrete syntax of): reading every string of the arena
back as (bytes, borrowed?) gives exactly `docTreeS x`, which computes the flag from the document's raw
syntax alone —

* an attribute value is **borrowed exactly when** its raw text between the quotes contains none of
  `&`, TAB, LF, CR (`Rox.Spec.Mirror.attrBorrowed`), and owned (normalised) otherwise;
* a text node is **borrowed exactly when** its run is a single piece of character data without `&`
  and CR (`textBorrowed`), or a single CDATA section without CR (`cdataBorrowed`); a run of two or
  more adjacent pieces (text next to CDATA …) is merged into an owned string;
* element and attribute local names, comment bodies, PI targets and PI values are always borrowed.

With `parsed_borrowed_are_slices` (every borrowed string is the slice of the input at its offset):
undecoded content is never copied. `Lemmas/MirrorStorage.lean` (2 300 lines). -/
theorem accepted_storage_mirrors (txt : Bytes) (hv : ValidUtf8 txt) (opt : Opt)
    (hdtd : opt.allowDtd = false) (d : Doc) (h : parse Generated.tables txt opt = .ok d) :
    ∃ x : Rox.Spec.Grammar.GDoc, Rox.Spec.Grammar.GDocWf Generated.tables x ∧
      Rox.Spec.Mirror.DocNormal Generated.tables x ∧ Rox.Spec.Grammar.RDoc Generated.tables x txt ∧
      d.nodes.toList.map (Rox.Spec.Mirror.viewM d) =
        (none, Rox.Spec.Canon4.YKind.root) ::
          Rox.Spec.Canon4.expectAllY 0 1 (Rox.Spec.Mirror.docTree x) ∧
      d.nodes.toList.map (Rox.Spec.Mirror.viewS d) =
        (none, Rox.Spec.Mirror.SKind.root) ::
          Rox.Spec.Mirror.expectAllS 0 1 (Rox.Spec.Mirror.docTreeS x) :=
  Rox.Lemmas.accepted_storage_mirrors Generated.tables C01.generated_tables_ok
    Rox.Lemmas.generated_tables_grammar txt hv opt hdtd d h

end Rox.Props.C18
