/-
  C18 — Borrowed strings are slices of the input; undecoded content is not copied.
  (Fast paths of the builder. That every `Span` the tokenizer delivers is the slice of the input at
  its offset is `Rox.Props.C18Tok`.)
-/
import Rox.Lemmas.Size

namespace Rox.Props.C18
open Rox Rox.Lemmas

/-- A text token without `&` and CR is handed to the tree as it is: borrowed, same slice. -/
theorem text_fast_path (T : Tables) (txt : Bytes) (lower : Token → Ctx → Res Ctx) (c : Ctx)
    (t : Span) (r : Range) (h : ∀ b ∈ t.bytes, b ≠ bAmp ∧ b ≠ bCR) :
    processText T txt lower c t r = c.appendText (.borrowed t) r := by
  unfold processText
  have : (t.bytes.any fun b => b == bAmp || b == bCR) = false := by
    rw [List.any_eq_false]; intro b hb; simpa using h b hb
  simp [this]

/-- A CDATA section without CR is borrowed as well. -/
theorem cdata_fast_path (c : Ctx) (t : Span) (r : Range) (h : bCR ∉ t.bytes) :
    processCdata c t r = c.appendText (.borrowed t) r := by
  unfold processCdata
  simp [h]

/-- An attribute value without `&`, TAB, LF, CR is stored borrowed: the very slice of the token,
and neither the loop detector nor anything else is touched. -/
theorem attr_fast_path (T : Tables) (txt : Bytes) (c : Ctx) (v : Span)
    (h : ∀ b ∈ v.bytes, b ≠ bAmp ∧ b ≠ bTab ∧ b ≠ bLF ∧ b ≠ bCR) :
    normalizeAttribute T txt c v = .ok (c, .borrowed v) := by
  unfold normalizeAttribute
  have : (v.bytes.any fun b => b == bAmp || b == bTab || b == bLF || b == bCR) = false := by
    rw [List.any_eq_false]; intro b hb; have := h b hb; simp [this.1, this.2.1, this.2.2.1, this.2.2.2]
  simp [this]

/-- The first fragment of a run creates the Text node with exactly the storage it was given
(borrowed stays borrowed). -/
theorem appendText_first_storage (c c' : Ctx) (t : Str) (r : Range) (h : c.appendText t r = .ok c')
    (hemp : c.afterText = []) :
    c'.doc.nodes.size = c.doc.nodes.size + 1 ∧ c'.afterText = [t] := by
  unfold Ctx.appendText at h
  dsimp only at h
  have : (c.log (Ev.textFragment t r)).afterText.isEmpty = true := by simp [Ctx.log, hemp]
  simp only [this, if_true] at h
  rw [Res.bind_eq_ok] at h
  obtain ⟨⟨c2, id⟩, h2, h⟩ := h
  res_norm at h
  subst h
  obtain ⟨_, hs, _, _, _⟩ := appendNode_size _ _ _ _ _ h2
  refine ⟨by simpa [Ctx.log] using hs, ?_⟩
  have haft : c2.afterText = c.afterText := by
    unfold Ctx.appendNode at h2
    split at h2
    · simp at h2
    · rw [Res.bind_eq_ok] at h2
      obtain ⟨nid, _, h2⟩ := h2
      try dsimp only at h2
      split at h2
      · simp at h2
      · split at h2
        · simp at h2
        · split at h2
          · simp at h2
          · rw [Res.bind_eq_ok] at h2
            obtain ⟨nodes', _, h2⟩ := h2
            res_norm at h2
            rw [← h2.1]; simp [Ctx.log]
  simp [haft, hemp]

/-- `merge_text` (the only place that copies a text run) runs only for two or more fragments: a
run delivered as one fragment keeps its storage. -/
theorem single_fragment_not_copied (c c' : Ctx) (h : c.resetAfterText = .ok c')
    (h1 : c.afterText.length ≤ 1) : c'.doc = c.doc := by
  unfold Ctx.resetAfterText at h
  split at h
  · res_norm at h; subst h; rfl
  · have : ¬ c.afterText.length > 1 := by omega
    simp only [this, if_false] at h
    res_norm at h; subst h; rfl

/-- Comments are always borrowed; PI targets/values and names are `Span`s (never copied) by the
type of `Kind`. -/
theorem comment_borrowed (T : Tables) (txt : Bytes) (lower : Token → Ctx → Res Ctx) (c c' : Ctx)
    (t : Span) (r : Range) (h : tokenStep T txt lower (.comment t r) c = .ok c') :
    ∃ c1 id, (c.log (.token (.comment t r))).resetAfterText = .ok c1 ∧
      c1.appendNode (.comment (.borrowed t)) r = .ok (c', id) := by
  unfold tokenStep at h
  dsimp only at h
  rw [Res.bind_eq_ok] at h
  obtain ⟨c1, h1, h⟩ := h
  rw [Res.bind_eq_ok] at h
  obtain ⟨⟨c2, id⟩, h2, h⟩ := h
  res_norm at h
  subst h
  exact ⟨c1, id, h1, h2⟩

end Rox.Props.C18
