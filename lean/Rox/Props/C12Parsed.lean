/-
  C12 on parsed documents — the name-based lookups agree with the enumerated attributes and
  namespaces on every node of every document `parse` returns. `Rox.Props.C12` states the
  agreement for an arbitrary `Doc` under "this accessor returned `.ok`"; `Rox.Props.C10` shows
  that on a parsed document no accessor panics or runs out of fuel; none of them has an error
  exit. Together: the statements hold with no hypothesis about the accessors.
-/
import Rox.Props.C12Base
import Rox.Props.C10

namespace Rox.Props.C12
open Rox Rox.Api Rox.Spec Rox.Lemmas

/-- The computation has no `Err` outcome. -/
def NoErr {α} (r : Res α) : Prop := ∀ e, r ≠ .err e

theorem noErr_ok {α} (a : α) : NoErr (.ok a : Res α) := by intro e h; cases h

theorem noErr_panic {α} (s : String) : NoErr (.panic s : Res α) := by intro e h; cases h

theorem noErr_bind {α β} (m : Res α) (k : α → Res β) (hm : NoErr m) (hk : ∀ a, NoErr (k a)) :
    NoErr (m >>= k) := by
  cases m with
  | ok a => exact hk a
  | err e => exact absurd rfl (hm e)
  | panic s => intro e h; cases h
  | fuel => intro e h; cases h

/-- A computation that neither panics, nor runs out of fuel, nor has an error exit returns. -/
theorem ok_of_total {α} {r : Res α} (hs : Total r) (he : NoErr r) : ∃ a, r = .ok a := by
  cases r with
  | ok a => exact ⟨a, rfl⟩
  | err e => exact absurd rfl (he e)
  | panic s => exact hs.elim
  | fuel => exact hs.elim

theorem getNodeUnwrap_noErr (d : Doc) (i : Nat) : NoErr (getNodeUnwrap d i) := by
  unfold getNodeUnwrap
  split
  · exact noErr_ok _
  · exact noErr_panic _

theorem attributes_noErr (d : Doc) (i : Nat) : NoErr (attributes d i) := by
  unfold attributes
  refine noErr_bind _ _ (getNodeUnwrap_noErr d i) ?_
  intro n
  split
  · split
    · exact noErr_ok _
    · exact noErr_panic _
  · exact noErr_ok _

theorem namespaces_noErr (d : Doc) (i : Nat) : NoErr (namespaces d i) := by
  unfold namespaces
  refine noErr_bind _ _ (getNodeUnwrap_noErr d i) ?_
  intro n
  split
  · split
    · exact noErr_ok _
    · exact noErr_panic _
  · exact noErr_ok _

theorem nsAt_noErr (d : Doc) (k : Nat) : NoErr (nsAt d k) := by
  unfold nsAt
  split
  · exact noErr_panic _
  · split
    · exact noErr_ok _
    · exact noErr_panic _

theorem nsByIdx_noErr (d : Doc) (k : Nat) : NoErr (nsByIdx d k) := by
  unfold nsByIdx
  split
  · exact noErr_ok _
  · exact noErr_panic _

theorem mapMLoop_noErr {α β : Type} (f : α → Res β) (hf : ∀ a, NoErr (f a)) :
    ∀ (l : List α) (acc : List β), NoErr (List.mapM.loop f l acc)
  | [], acc => by simp only [List.mapM.loop]; exact noErr_ok _
  | a :: r, acc => by
    simp only [List.mapM.loop]
    exact noErr_bind _ _ (hf a) (fun b => mapMLoop_noErr f hf r (b :: acc))

theorem namespaceList_noErr (d : Doc) (i : Nat) : NoErr (namespaceList d i) := by
  unfold namespaceList
  refine noErr_bind _ _ (namespaces_noErr d i) ?_
  intro it
  unfold List.mapM
  exact mapMLoop_noErr _ (nsAt_noErr d) _ _

theorem attrAt_noErr (d : Doc) (k : Nat) : NoErr (attrAt d k) := by
  unfold attrAt
  split
  · exact noErr_ok _
  · exact noErr_panic _

theorem expandedName_noErr (d : Doc) (nsIdx : Option Nat) (loc : Span) :
    NoErr (expandedName d nsIdx loc) := by
  unfold expandedName
  split
  · exact noErr_ok _
  · exact noErr_bind _ _ (nsByIdx_noErr d _) (fun _ => noErr_ok _)

theorem attrExpanded_noErr (d : Doc) (k : Nat) : NoErr (attrExpanded d k) := by
  unfold attrExpanded
  exact noErr_bind _ _ (attrAt_noErr d k) (fun a => expandedName_noErr d _ _)

theorem findAttr_noErr (d : Doc) (ns : Option Bytes) (name : Bytes) :
    ∀ l : List Nat, NoErr (findAttr d ns name l)
  | [] => by simp only [findAttr]; exact noErr_ok _
  | k :: r => by
    simp only [findAttr]
    refine noErr_bind _ _ (attrExpanded_noErr d k) ?_
    intro en
    split
    · exact noErr_ok _
    · exact findAttr_noErr d ns name r

theorem attributeNode_noErr (d : Doc) (i : Nat) (ns : Option Bytes) (name : Bytes) :
    NoErr (attributeNode d i ns name) := by
  unfold attributeNode
  exact noErr_bind _ _ (attributes_noErr d i) (fun it => findAttr_noErr d ns name _)

/-- **On every node of every parsed document** (all valid UTF-8 inputs, all options) the
in-scope namespace list `namespaces()` is produced, and the three name-based namespace lookups
answer from it: `default_namespace()` is the URI of the first binding without a prefix,
`lookup_namespace_uri(p)` the URI of the first binding whose prefix is `p`, and
`lookup_prefix(u)` (for `u` other than the XML namespace URI, which always answers `xml`) the
prefix of the first binding whose URI is `u`; each is `None` when no binding matches. -/
theorem parsed_lookups_first (txt : Bytes) (hv : ValidUtf8 txt) (opt : Opt)
    (hlim : opt.nodesLimit ≤ 4294967295) (d : Doc) (h : parse Generated.tables txt opt = .ok d)
    (i : Nat) (hi : i < d.nodes.size) :
    ∃ l, namespaceList d i = .ok l ∧
      defaultNamespace d i = .ok ((l.find? fun ns => ns.name.isNone).map (·.uri.bytes)) ∧
      (∀ p, lookupNamespaceUri d i p =
        .ok ((l.find? fun ns => ns.nameBytes == p).map (·.uri.bytes))) ∧
      (∀ u, u ≠ nsXmlUri →
        lookupPrefix d i u =
          .ok (((l.find? fun ns => ns.uri.bytes == u).map (·.nameBytes)).getD none)) := by
  have ht := (C10.parsed_api_total txt hv opt hlim d h i hi none [] [] none Axis.ancestors).1.2.2.1
  obtain ⟨l, hl⟩ := ok_of_total ht (namespaceList_noErr d i)
  exact ⟨l, hl, lookups_first d i l hl⟩

/-- **On every node of every parsed document**, for every queried name (an optional namespace
URI and a local name): `attributes()` is produced, the expanded name of each of its attributes
can be read, and `attribute_node(name)` returns. If it returns an attribute, that attribute is
the FIRST one of `attributes()` whose expanded name equals the query (every earlier one has a
different expanded name), `attribute(name)` is its value and `has_attribute(name)` is true. If
it returns `None`, no attribute of `attributes()` has that expanded name, `attribute(name)` is
`None` and `has_attribute(name)` is false. -/
theorem parsed_attribute_lookup (txt : Bytes) (hv : ValidUtf8 txt) (opt : Opt)
    (hlim : opt.nodesLimit ≤ 4294967295) (d : Doc) (h : parse Generated.tables txt opt = .ok d)
    (i : Nat) (hi : i < d.nodes.size) (ns : Option Bytes) (name : Bytes) :
    ∃ it r, attributes d i = .ok it ∧ attributeNode d i ns name = .ok r ∧
      match r with
      | some k =>
        (∃ pre post, it.toList = pre ++ k :: post ∧ attrExpanded d k = .ok (ns, name) ∧
          ∀ j ∈ pre, ∃ e, attrExpanded d j = .ok e ∧ e ≠ (ns, name)) ∧
        ∃ a, attrAt d k = .ok a ∧ attributeValue d i ns name = .ok (some a.value.bytes) ∧
          hasAttribute d i ns name = .ok true
      | none =>
        (∀ j ∈ it.toList, ∃ e, attrExpanded d j = .ok e ∧ e ≠ (ns, name)) ∧
        attributeValue d i ns name = .ok none ∧ hasAttribute d i ns name = .ok false := by
  have ht := (C10.parsed_api_total txt hv opt hlim d h i hi ns name [] none Axis.ancestors).1
  obtain ⟨it, hit⟩ := ok_of_total ht.1 (attributes_noErr d i)
  obtain ⟨r, hr⟩ := ok_of_total ht.2.2.2.2.2.1 (attributeNode_noErr d i ns name)
  refine ⟨it, r, hit, hr, ?_⟩
  cases r with
  | some k =>
    have hf := attributeNode_first d i ns name it hit k hr
    obtain ⟨pre, post, hl, hk, hpre⟩ := hf
    have hk' := hk
    unfold attrExpanded at hk'
    rw [Res.bind_eq_ok] at hk'
    obtain ⟨a, ha, _⟩ := hk'
    exact ⟨⟨pre, post, hl, hk, hpre⟩, a, ha, attributeValue_eq d i ns name k a hr ha⟩
  | none =>
    exact ⟨attributeNode_none d i ns name it hit hr, attributeValue_none d i ns name hr⟩

/-- The enumerated attributes of every node of every parsed document all have a readable
expanded name (so the comparison in `parsed_attribute_lookup` is between actual names). -/
theorem parsed_attributes_expanded (txt : Bytes) (hv : ValidUtf8 txt) (opt : Opt)
    (hlim : opt.nodesLimit ≤ 4294967295) (d : Doc) (h : parse Generated.tables txt opt = .ok d)
    (i : Nat) (hi : i < d.nodes.size) :
    ∃ it, attributes d i = .ok it ∧ ∀ j ∈ it.toList, ∃ e, attrExpanded d j = .ok e := by
  obtain ⟨st, hn⟩ := C10.parsed_tables_ok txt hv opt hlim d h
  have hs := attributes_spec d st hn i hi
  obtain ⟨it, hit⟩ := ok_of_total hs.safe (attributes_noErr d i)
  refine ⟨it, hit, ?_⟩
  intro j hj
  have hb := sliceIt_mem_toList it j hj
  have := (hs.post it hit).2
  exact ok_of_total (attrExpanded_safe d st hn j (by omega)).safe (attrExpanded_noErr d j)

end Rox.Props.C12
