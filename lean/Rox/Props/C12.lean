/-
  C12 — Name-based lookups agree with the enumerated attributes and namespaces.
  `Rox.Props.C12Base`: the lookups against the enumerations, for any arena on which the accessors
  return; `Rox.Props.C12Parsed`: the same with no accessor hypothesis left — on every node of every
  parsed document (every valid UTF-8 input, every option value) the accessors return and the
  lookups select the first matching attribute / binding.
-/
import Rox.Props.C12Base
import Rox.Props.C12Parsed
