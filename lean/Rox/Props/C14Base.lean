/-
  C14 — Text positions and error reports are accurate.
-/
import Rox.Stream

namespace Rox.Props.C14
open Rox

/-- 0 and the end of the text are boundaries. -/
theorem boundary_zero (txt : Bytes) : isCharBoundary txt 0 = true := by simp [isCharBoundary]

theorem floorBoundary_le (txt : Bytes) (p : Nat) : floorBoundary txt p ≤ p := by
  induction p with
  | zero => simp [floorBoundary]
  | succ p ih => unfold floorBoundary; split <;> omega

theorem floorBoundary_isBoundary (txt : Bytes) (p : Nat) :
    isCharBoundary txt (floorBoundary txt p) = true := by
  induction p with
  | zero => simp [floorBoundary, isCharBoundary]
  | succ p ih => unfold floorBoundary; split <;> simp_all

/-- An offset that already is a boundary is left where it is. -/
theorem floorBoundary_of_boundary (txt : Bytes) (p : Nat) (h : isCharBoundary txt p = true) :
    floorBoundary txt p = p := by
  cases p with
  | zero => rfl
  | succ p => simp [floorBoundary, h]

/-- `text_pos_at(p)` returns normally for EVERY byte offset: past the end it is clamped, inside
a multi-byte character it is moved to the character's first byte (this is the D3 repair). -/
theorem textPosAt_total (txt : Bytes) (p : Nat) :
    textPosAt txt p = .ok ⟨calcRow txt (floorBoundary txt (min p txt.length)),
                           calcCol txt (floorBoundary txt (min p txt.length))⟩ := by
  unfold textPosAt genTextPosFrom genTextPos
  have h1 : floorBoundary txt (min p txt.length) ≤ txt.length :=
    Nat.le_trans (floorBoundary_le _ _) (Nat.min_le_right _ _)
  simp [h1, floorBoundary_isBoundary]

/-- Offsets past the end are clamped to the end. -/
theorem textPosAt_clamp (txt : Bytes) (p : Nat) (h : txt.length ≤ p) :
    textPosAt txt p = textPosAt txt txt.length := by
  rw [textPosAt_total, textPosAt_total]; simp [Nat.min_eq_right h]

/-- Number of lines of a text: 1 + number of LF. -/
def lineCount (txt : Bytes) : Nat := 1 + txt.count 10

/-- Rows are in bounds: `1 ≤ row ≤ number of lines`. -/
theorem row_in_bounds (txt : Bytes) (e : Nat) : 1 ≤ calcRow txt e ∧ calcRow txt e ≤ lineCount txt := by
  unfold calcRow lineCount
  have : (txt.take e).count 10 ≤ txt.count 10 := (List.take_sublist e txt).count_le 10
  omega

/-- Columns are at least 1. -/
theorem col_ge_one (txt : Bytes) (e : Nat) : 1 ≤ calcCol txt e := by unfold calcCol; omega

/-- The row is 1 + the number of line breaks before the offset, for every offset. -/
theorem row_spec (txt : Bytes) (e : Nat) : calcRow txt e = 1 + ((txt.take e).filter (· == 10)).length := by
  simp [calcRow, List.count_eq_length_filter]

private theorem takeWhile_all {α} (p : α → Bool) (l : List α) (h : ∀ b ∈ l, p b = true) :
    l.takeWhile p = l := by
  induction l with
  | nil => rfl
  | cons a r ih => simp [List.takeWhile, h a (by simp), ih (fun b hb => h b (by simp [hb]))]

private theorem takeWhile_append_stop {α} (p : α → Bool) (l r : List α)
    (h : ∀ b ∈ r, p b = false) : (l ++ r).takeWhile p = l.takeWhile p := by
  induction l with
  | nil =>
    cases r with
    | nil => rfl
    | cons b r => simp [List.takeWhile, h b (by simp)]
  | cons a l ih => simp only [List.cons_append, List.takeWhile]; split <;> simp [ih]

/-- Inserting `k` line breaks ahead of the text shifts every row by exactly `k` and leaves the
column alone. -/
theorem shift_rows (txt : Bytes) (k p : Nat) :
    calcRow (List.replicate k 10 ++ txt) (k + p) = calcRow txt p + k ∧
    calcCol (List.replicate k 10 ++ txt) (k + p) = calcCol txt p := by
  have htake : (List.replicate k (10 : UInt8) ++ txt).take (k + p) = List.replicate k 10 ++ txt.take p := by
    rw [List.take_append]; simp
  constructor
  · unfold calcRow; rw [htake]; simp [List.count_append]; omega
  · unfold calcCol; rw [htake]
    simp only [List.reverse_append, List.reverse_replicate]
    rw [takeWhile_append_stop]
    intro b hb
    simp only [List.mem_replicate] at hb
    rw [hb.2]; decide

/-- Inserting `k` spaces ahead of the text on the first line shifts the column of every offset
on that line by exactly `k` (and no row). -/
theorem shift_cols (txt : Bytes) (k p : Nat) (hline : ∀ b ∈ txt.take p, b ≠ 10) :
    calcRow (List.replicate k 32 ++ txt) (k + p) = calcRow txt p ∧
    calcCol (List.replicate k 32 ++ txt) (k + p) = calcCol txt p + k := by
  have htake : (List.replicate k (32 : UInt8) ++ txt).take (k + p) = List.replicate k 32 ++ txt.take p := by
    rw [List.take_append]; simp
  constructor
  · unfold calcRow; rw [htake]; simp [List.count_append, List.count_replicate]
  · unfold calcCol; rw [htake]
    have h1 : ((List.replicate k (32 : UInt8) ++ txt.take p).reverse.takeWhile (· != 10)) =
        (List.replicate k 32 ++ txt.take p).reverse := by
      apply takeWhile_all
      intro b hb
      simp only [List.mem_reverse, List.mem_append, List.mem_replicate] at hb
      rcases hb with ⟨_, rfl⟩ | hb
      · decide
      · simpa using hline b hb
    have h2 : ((txt.take p).reverse.takeWhile (· != 10)) = (txt.take p).reverse := by
      apply takeWhile_all
      intro b hb
      simpa using hline b (List.mem_reverse.mp hb)
    rw [h1, h2]
    simp only [countChars, List.reverse_append, List.filter_append, List.length_append,
      List.filter_reverse, List.length_reverse]
    have : ((List.replicate k (32 : UInt8)).filter fun b => !(isCont b)).length = k := by
      rw [List.filter_replicate]; simp [isCont]
    omega

/-- Every position-less error variant reports `1:1`; every other variant reports the position it
carries (`Error::pos`). -/
theorem posless_is_1_1 :
    Err.noRootNode.pos = ⟨1, 1⟩ ∧ Err.unclosedRootNode.pos = ⟨1, 1⟩ ∧ Err.dtdDetected.pos = ⟨1, 1⟩ ∧
    Err.nodesLimitReached.pos = ⟨1, 1⟩ ∧ Err.attributesLimitReached.pos = ⟨1, 1⟩ ∧
    Err.namespacesLimitReached.pos = ⟨1, 1⟩ ∧ Err.unexpectedEndOfStream.pos = ⟨1, 1⟩ := by
  simp [Err.pos]

/-- Every error the model constructs through `errAt`/`errFrom` takes its position from
`gen_text_pos` at an offset inside the text, hence (by `row_in_bounds`, `col_ge_one`) inside it. -/
theorem errFrom_pos {α} (txt : Bytes) (mk : TextPos → Err) (p : Nat) :
    (errFrom txt mk p : Res α) =
      .err (mk ⟨calcRow txt (floorBoundary txt (min p txt.length)),
                calcCol txt (floorBoundary txt (min p txt.length))⟩) := by
  unfold errFrom
  have := textPosAt_total txt p
  unfold textPosAt at this
  rw [this]

/-- Non-vacuity / regression of D3: offset 4 of "<a>é</a>" is inside `é` and reports the column
of `é`. -/
example : textPosAt [60, 97, 62, 0xC3, 0xA9, 60, 47, 97, 62] 4 = .ok ⟨1, 4⟩ := by decide

end Rox.Props.C14
