/-
  C17 (continued) — `Ord` coincides with document order: sorting any set of nodes of one document
  lists them in the order in which `descendants()` of the root yields them.
-/
import Rox.Props.C17Base
import Rox.Props.C11

namespace Rox.Props.C17
open Rox Rox.Api Rox.Spec Rox.Lemmas

/-- In a well-formed arena every node is the root or a descendant of the root. -/
private theorem anc_zero {a : Arena} (h : LinkWF a) : ∀ j, j < a.size → Anc a 0 j := by
  intro j
  induction j using Nat.strongRecOn with
  | _ j ih =>
    intro hj
    by_cases h0 : j = 0
    · subst h0; exact anc_refl _ _
    · obtain ⟨p, hp, hpl, _⟩ := h.parent_lt j (by omega) hj
      rw [anc_step a h.parentLt 0 j p hp]
      exact Or.inr (ih p hpl (by omega))

/-- No node of a well-formed arena lies after the subtree of the root. -/
private theorem nextSubtreeSpec_root {a : Arena} (h : LinkWF a) : nextSubtreeSpec a 0 = none := by
  unfold nextSubtreeSpec
  rw [find_range'_none]
  intro k hk1 hk2
  have := anc_zero h k (by omega)
  unfold Anc at this
  simp [this]

/-- `descendants()` of the root of every parsed document is the whole id interval `0 .. n-1`: it
enumerates every node of the document exactly once, ascending by id. -/
theorem root_descendants_all (T : Tables) (txt : Bytes) (opt : Opt) (d : Doc)
    (hlim : opt.nodesLimit ≤ 4294967295) (h : parse T txt opt = .ok d) :
    0 < d.nodes.size ∧ descendants d 0 = .ok ⟨0, d.nodes.size⟩ := by
  have hw := parse_linkWF T txt opt d h
  have h0 : 0 < d.nodes.size := hw.nonempty
  refine ⟨h0, ?_⟩
  have := (Rox.Props.C11.traversals_are_functions_of_the_tree T txt opt d hlim h 0 h0
    Axis.ancestors).2.2.2.2.2
  rw [this, nextSubtreeSpec_root hw]
  rfl

/-- The items of the root's `descendants()` are exactly the ids `0 .. n-1` in ascending order. -/
theorem root_descendants_toList (n : Nat) : (SliceIt.mk 0 n).toList = List.range n := by
  simp [SliceIt.toList]

/-- The order in which any `descendants()` iterator yields its nodes is strictly ascending under
`Ord`. -/
theorem descendants_strictly_ascending (addr : Nat) (it : SliceIt) :
    (it.toList.map (fun k => NodeRef.mk addr k)).Pairwise (fun a b => a.cmp b = .lt) := by
  rw [List.pairwise_map]
  unfold SliceIt.toList
  rw [List.pairwise_map]
  refine List.Pairwise.imp ?_ (List.pairwise_lt_range (n := it.hi - it.lo))
  intro x y hxy
  refine (doc_order ⟨addr, x + it.lo⟩ ⟨addr, y + it.lo⟩ rfl).mpr ?_
  show x + it.lo < y + it.lo
  omega

/-- A strictly ascending list of naturals below `n` is a sublist of `0, 1, …, n-1`. -/
private theorem sublist_range : ∀ (n : Nat) (l : List Nat), (∀ x ∈ l, x < n) → l.Pairwise (· < ·) →
    l.Sublist (List.range n) := by
  intro n
  induction n with
  | zero =>
    intro l hl _
    cases l with
    | nil => exact List.Sublist.refl _
    | cons x l => exact absurd (hl x (by simp)) (by omega)
  | succ n ih =>
    intro l hl hp
    rw [List.range_succ]
    by_cases hm : n ∈ l
    · -- `n` is the greatest element, hence the last one
      obtain ⟨s, t, rfl⟩ := List.append_of_mem hm
      have ht : t = [] := by
        cases t with
        | nil => rfl
        | cons y t =>
          have h1 : n < y := by
            have := (List.pairwise_append.mp hp).2.1
            exact List.rel_of_pairwise_cons this (by simp)
          have h2 := hl y (by simp)
          omega
      subst ht
      refine List.Sublist.append (ih s ?_ (List.pairwise_append.mp hp).1) (List.Sublist.refl _)
      intro x hx
      have h1 : x < n := (List.pairwise_append.mp hp).2.2 x hx n (by simp)
      exact h1
    · refine (ih l ?_ hp).trans (List.sublist_append_left _ _)
      intro x hx
      have := hl x hx
      have : x ≠ n := fun e => hm (e ▸ hx)
      omega

/-- Sorting any set of nodes of one document puts them in document order: a list of nodes of the
document at `addr` (ids below the node count `n`) that is sorted without duplicates under `Ord` is a
sublist of `0, 1, …, n-1` — of what `descendants()` of the root yields (`root_descendants_all`) —
i.e. it lists its nodes in the same relative order as `descendants()` does. -/
theorem sorted_is_descendants_order (addr n : Nat) (l : List NodeRef)
    (hl : ∀ x ∈ l, x.addr = addr ∧ x.id < n) (hs : l.Pairwise (fun a b => a.cmp b = .lt)) :
    l.Sublist ((List.range n).map (fun k => NodeRef.mk addr k)) := by
  have hmap : l = (l.map (·.id)).map (fun k => NodeRef.mk addr k) := by
    rw [List.map_map]
    conv => lhs; rw [← List.map_id l]
    apply List.map_congr_left
    intro x hx
    have := (hl x hx).1
    cases x; simp_all
  rw [hmap]
  apply List.Sublist.map
  apply sublist_range
  · intro x hx
    rw [List.mem_map] at hx
    obtain ⟨y, hy, rfl⟩ := hx
    exact (hl y hy).2
  · rw [List.pairwise_map]
    refine List.Pairwise.imp_of_mem ?_ hs
    intro a b ha hb hab
    exact (doc_order a b ((hl a ha).1.trans (hl b hb).1.symm)).mp hab

/-- Non-vacuity: nodes 1 and 3 of a four-node document at address 100, sorted, appear in the order
of the root's `descendants()`; the reversed list is not sorted. -/
example :
    [NodeRef.mk 100 1, NodeRef.mk 100 3].Pairwise (fun a b => a.cmp b = .lt) ∧
    [NodeRef.mk 100 1, NodeRef.mk 100 3].Sublist ((List.range 4).map (fun k => NodeRef.mk 100 k)) ∧
    ¬ [NodeRef.mk 100 3, NodeRef.mk 100 1].Pairwise (fun a b => a.cmp b = .lt) := by
  decide

end Rox.Props.C17
