/-
  C16 — DTD processing is off by default; `allow_dtd` changes nothing else.
  `Rox.Props.C16Base`: the dichotomy, no entity declared or expanded under default options.
  This file: the consequence for the size of the content.
-/
import Rox.Props.C16Base
import Rox.Lemmas.ContentLen

namespace Rox.Props.C16
open Rox Rox.Lemmas

/-- **No amplification under default options** (all valid UTF-8 inputs, every option value with
`allow_dtd = false`): the text and attribute content of an accepted document — the total length of
all text-node strings plus all attribute values — never exceeds the length of the input. -/
theorem content_never_exceeds_input (T : Tables) (hT : TablesOK T) (txt : Bytes) (hv : ValidUtf8 txt)
    (opt : Opt) (hdtd : opt.allowDtd = false) (d : Doc) (h : parse T txt opt = .ok d) :
    docContent d ≤ txt.length :=
  parse_content_le_input T hT txt hv opt hdtd d h

end Rox.Props.C16
