/-
  C12 — Name-based lookups agree with the enumerated attributes and namespaces.
-/
import Rox.Api

namespace Rox.Props.C12
open Rox Rox.Api

/-- `findAttr` returns the first index of the list whose expanded name equals the query, and
`none` only if no index matches (all under "no accessor panics"). -/
theorem findAttr_spec (d : Doc) (ns : Option Bytes) (name : Bytes) :
    ∀ (l : List Nat) (r : Option Nat), findAttr d ns name l = .ok r →
      match r with
      | some k => ∃ pre post, l = pre ++ k :: post ∧ attrExpanded d k = .ok (ns, name) ∧
                    ∀ j ∈ pre, ∃ e, attrExpanded d j = .ok e ∧ e ≠ (ns, name)
      | none => ∀ j ∈ l, ∃ e, attrExpanded d j = .ok e ∧ e ≠ (ns, name) := by
  intro l
  induction l with
  | nil => intro r h; simp [findAttr] at h; subst h; simp
  | cons k rest ih =>
    intro r h
    simp only [findAttr] at h
    cases hk : attrExpanded d k with
    | ok e =>
      rw [hk] at h
      simp only [bind, Res.bind] at h
      by_cases he : e = (ns, name)
      · subst he
        simp at h
        subst h
        exact ⟨[], rest, rfl, hk, by simp⟩
      · have : (e == (ns, name)) = false := by simpa using he
        simp only [this] at h
        have := ih r h
        cases r with
        | some k' =>
          obtain ⟨pre, post, hl, hk', hpre⟩ := this
          refine ⟨k :: pre, post, by simp [hl], hk', ?_⟩
          intro j hj
          rcases List.mem_cons.mp hj with rfl | hj
          · exact ⟨e, hk, he⟩
          · exact hpre j hj
        | none =>
          intro j hj
          rcases List.mem_cons.mp hj with rfl | hj
          · exact ⟨e, hk, he⟩
          · exact this j hj
    | err e => rw [hk] at h; simp [bind, Res.bind] at h
    | panic s => rw [hk] at h; simp [bind, Res.bind] at h
    | fuel => rw [hk] at h; simp [bind, Res.bind] at h

/-- `attribute_node(n)` selects the first attribute of `attributes()` whose expanded name is `n`. -/
theorem attributeNode_first (d : Doc) (i : Nat) (ns : Option Bytes) (name : Bytes) (it : SliceIt)
    (hit : attributes d i = .ok it) (k : Nat) (h : attributeNode d i ns name = .ok (some k)) :
    ∃ pre post, it.toList = pre ++ k :: post ∧ attrExpanded d k = .ok (ns, name) ∧
      ∀ j ∈ pre, ∃ e, attrExpanded d j = .ok e ∧ e ≠ (ns, name) := by
  unfold attributeNode at h
  rw [hit] at h
  exact findAttr_spec d ns name it.toList (some k) h

/-- `attribute_node(n)` is `None` only when no enumerated attribute has that expanded name. -/
theorem attributeNode_none (d : Doc) (i : Nat) (ns : Option Bytes) (name : Bytes) (it : SliceIt)
    (hit : attributes d i = .ok it) (h : attributeNode d i ns name = .ok none) :
    ∀ j ∈ it.toList, ∃ e, attrExpanded d j = .ok e ∧ e ≠ (ns, name) := by
  unfold attributeNode at h
  rw [hit] at h
  exact findAttr_spec d ns name it.toList none h

/-- `attribute(n)` is the value of `attribute_node(n)`, `has_attribute(n)` its presence. -/
theorem attributeValue_eq (d : Doc) (i : Nat) (ns : Option Bytes) (name : Bytes) (k : Nat)
    (a : AttrData) (h : attributeNode d i ns name = .ok (some k)) (ha : attrAt d k = .ok a) :
    attributeValue d i ns name = .ok (some a.value.bytes) ∧ hasAttribute d i ns name = .ok true := by
  simp [attributeValue, hasAttribute, h, ha, bind, Res.bind]

theorem attributeValue_none (d : Doc) (i : Nat) (ns : Option Bytes) (name : Bytes)
    (h : attributeNode d i ns name = .ok none) :
    attributeValue d i ns name = .ok none ∧ hasAttribute d i ns name = .ok false := by
  simp [attributeValue, hasAttribute, h, bind, Res.bind]

/-- A bare name (no namespace given) only ever selects an attribute without a namespace. -/
theorem bare_name_no_namespace (d : Doc) (i : Nat) (name : Bytes) (it : SliceIt)
    (hit : attributes d i = .ok it) (k : Nat) (h : attributeNode d i none name = .ok (some k)) :
    ∃ e, attrExpanded d k = .ok e ∧ e.1 = none := by
  obtain ⟨_, _, _, hk, _⟩ := attributeNode_first d i none name it hit k h
  exact ⟨_, hk, rfl⟩

/-- `has_tag_name`: only elements; the local name must be equal; a given namespace must be equal
too (so it never matches an element without namespace), and no namespace given matches any. -/
theorem hasTagName_iff (d : Doc) (i : Nat) (n : NodeData) (hn : d.nodes[i]? = some n)
    (nsq : Option Bytes) (name : Bytes) (uri : Option Bytes) (loc : Bytes)
    (htn : tagName d i = .ok (uri, loc)) (hel : n.kind.isElement = true) :
    hasTagName d i nsq name = .ok (loc == name && (nsq.isNone || nsq == uri)) := by
  unfold hasTagName tagName kindOf getNodeUnwrap at *
  simp only [hn, bind, Res.bind, pure] at *
  cases hk : n.kind with
  | element nsIdx l a nss =>
    rw [hk] at htn
    simp only at htn
    cases nsq with
    | none =>
      simp only [Option.isNone_none, Bool.true_or, Bool.and_true]
      unfold expandedName at htn
      cases nsIdx with
      | none => simp at htn; simp [htn.2]
      | some vi =>
        simp only [bind, Res.bind] at htn
        cases hv : nsByIdx d vi with
        | ok v => rw [hv] at htn; simp at htn; simp [htn.2]
        | err e => rw [hv] at htn; simp at htn
        | panic s => rw [hv] at htn; simp at htn
        | fuel => rw [hv] at htn; simp at htn
    | some q =>
      simp only [htn, Res.ok.injEq, Option.isNone_some, Bool.false_or]
      rw [Bool.eq_iff_iff]
      simp only [beq_iff_eq, Prod.mk.injEq, Bool.and_eq_true]
      constructor
      · rintro ⟨h1, h2⟩; exact ⟨h2, h1.symm⟩
      · rintro ⟨h1, h2⟩; exact ⟨h2.symm, h1⟩
  | root => rw [hk] at hel; simp [Kind.isElement] at hel
  | pi _ _ => rw [hk] at hel; simp [Kind.isElement] at hel
  | comment _ => rw [hk] at hel; simp [Kind.isElement] at hel
  | text _ => rw [hk] at hel; simp [Kind.isElement] at hel

/-- `has_tag_name` is false and `tag_name()` is the empty name without namespace on non-elements. -/
theorem non_element (d : Doc) (i : Nat) (n : NodeData) (hn : d.nodes[i]? = some n)
    (hel : n.kind.isElement = false) (nsq : Option Bytes) (name : Bytes) :
    hasTagName d i nsq name = .ok false ∧ tagName d i = .ok (none, []) := by
  unfold hasTagName tagName kindOf getNodeUnwrap
  simp only [hn, bind, Res.bind, pure]
  cases hk : n.kind <;> simp_all [Kind.isElement]

/-- `lookup_prefix` answers `xml` for the XML namespace URI on every node. -/
theorem lookupPrefix_xml (d : Doc) (i : Nat) : lookupPrefix d i nsXmlUri = .ok (some Lit.xml) := by
  simp [lookupPrefix]

/-- The namespace lookups return the first matching binding of `namespaces()`. -/
theorem lookups_first (d : Doc) (i : Nat) (l : List Namespace) (h : namespaceList d i = .ok l) :
    defaultNamespace d i = .ok ((l.find? fun ns => ns.name.isNone).map (·.uri.bytes)) ∧
    (∀ p, lookupNamespaceUri d i p = .ok ((l.find? fun ns => ns.nameBytes == p).map (·.uri.bytes))) ∧
    (∀ u, u ≠ nsXmlUri →
      lookupPrefix d i u = .ok (((l.find? fun ns => ns.uri.bytes == u).map (·.nameBytes)).getD none)) := by
  refine ⟨by simp [defaultNamespace, h, bind, Res.bind], ?_, ?_⟩
  · intro p; simp [lookupNamespaceUri, h, bind, Res.bind]
  · intro u hu
    have : (u == nsXmlUri) = false := by simpa using hu
    simp [lookupPrefix, this, h, bind, Res.bind]

/-- Two attributes compare equal exactly when expanded name and value are equal. -/
theorem attrEq_iff (d : Doc) (k1 k2 : Nat) (a1 a2 : AttrData) (e1 e2 : Option Bytes × Bytes)
    (h1 : attrAt d k1 = .ok a1) (h2 : attrAt d k2 = .ok a2)
    (he1 : expandedName d a1.nsIdx a1.localName = .ok e1)
    (he2 : expandedName d a2.nsIdx a2.localName = .ok e2) :
    attrEq d k1 k2 = .ok (e1 == e2 && a1.value.bytes == a2.value.bytes) := by
  simp [attrEq, h1, h2, he1, he2, bind, Res.bind]

end Rox.Props.C12
