/-
  Rox.Lemmas.Reject — C08, decision logic stated outright: each well-formedness / namespace
  constraint the library checks, as a theorem "in this situation the function returns this error"
  (for every context and every argument that meets the stated condition — not for sampled ones).

  Conventions.
  * An error built with `errPos` / `errFrom` carries the position computed by `gen_text_pos_from`,
    which cannot fail (`Rox.Props.C14.errFrom_pos`); the conclusion is `∃ pos, f … = .err (E … pos)`.
  * An error built with `errAt` is located at the cursor; it is the named error when the cursor
    is a cursor of the input (`SOk txt s`, true of every cursor of a real run — `Rox.Lemmas.TokSpec`,
    `Rox.Lemmas.SafeText`, `Rox.Lemmas.SafeAttr`).
  * Rules that sit in a fuel loop are stated for one unfolding (`fuel + 1`) with the cursor / list
    in the triggering shape: "the next step of the loop rejects".
  * Where a function first runs preparatory steps (`normalize_attribute` before the namespace
    checks of `process_attribute`; `resolve_namespaces` / `resolve_attributes` before the end-tag
    checks of `process_element`), their success is a hypothesis and the rule is about what happens
    next; `*_clean` corollaries discharge these hypotheses in the situation of a real run.
  * After each rule an `example` instantiates its hypotheses on a small concrete value (no rule is
    vacuous).
-/
import Rox.Parse
import Rox.Lemmas.Size
import Rox.Lemmas.SafeDefs
import Rox.Lemmas.SingleRoot
import Rox.Lemmas.LdRefine
import Rox.Lemmas.DocSpans
import Rox.Props.C08Base
import Rox.Props.C14Base
import Rox.Props.C16Base

namespace Rox.Props.C08.Reject
open Rox Rox.TM Rox.Lemmas

/-! ### How the model builds a positioned error -/

/-- `errFrom` always yields the error it was asked for (the position computation is total). -/
theorem errFrom_err {α} (txt : Bytes) (mk : TextPos → Err) (p : Nat) :
    ∃ pos, (errFrom txt mk p : Res α) = .err (mk pos) :=
  ⟨_, Rox.Props.C14.errFrom_pos txt mk p⟩

/-- `errPos` (= `doc.text_pos_at`) always yields the error it was asked for. -/
theorem errPos_err {α} (txt : Bytes) (mk : TextPos → Err) (p : Nat) :
    ∃ pos, (errPos txt mk p : Res α) = .err (mk pos) := errFrom_err txt mk p

/-- `errAt` at a position that is a character boundary inside the text yields the error it was
asked for, located there. -/
theorem errAt_err_of_boundary {α} (txt : Bytes) (mk : TextPos → Err) (p : Nat)
    (h1 : p ≤ txt.length) (h2 : isCharBoundary txt p = true) :
    (errAt txt mk p : Res α) = .err (mk ⟨calcRow txt p, calcCol txt p⟩) := by
  unfold errAt genTextPos
  simp [h1, h2]

/-- `errAt` at the position of a cursor of the input yields the error it was asked for. -/
theorem errAt_err {α} {txt : Bytes} {s : Stream} (hs : SOk txt s) (mk : TextPos → Err) :
    ∃ pos, (errAt txt mk s.pos : Res α) = .err (mk pos) :=
  ⟨_, errAt_err_of_boundary txt mk s.pos hs.pos_boundary.1 hs.pos_boundary.2⟩

/-! ### Rules 1, 2 — end tags (`process_element` on `ElementEnd::Close`)

`process_element` first resolves the pending namespace declarations and attributes (for an end tag
there are none in a real run), then looks at the end tag. `ClosePrelude` names the success of
these two preparatory steps. -/

/-- The two preparatory steps of `process_element` succeed, leaving the context `c2`. -/
def ClosePrelude (txt : Bytes) (c c2 : Ctx) : Prop :=
  ∃ c1 nss attrs, resolveNamespaces c = .ok (c1, nss) ∧
    resolveAttributes txt { c1 with nsStartIdx := c1.doc.ns.treeOrder.size, xmlDeclared := false } nss = .ok (c2, attrs)

/-- The preparatory steps keep the open-element stack, the entity floor, the current parent and
the node arena. -/
theorem ClosePrelude.keep {txt : Bytes} {c c2 : Ctx} (h : ClosePrelude txt c c2) :
    c2.parentPrefixes = c.parentPrefixes ∧ c2.entityFloor = c.entityFloor ∧
    c2.parentId = c.parentId ∧ c2.doc.nodes = c.doc.nodes := by
  obtain ⟨c1, nss, attrs, h1, h2⟩ := h
  obtain ⟨k1, n1⟩ := resolveNamespaces_keep c c1 nss h1
  obtain ⟨k2, n2⟩ := resolveAttributes_keep txt _ c2 nss attrs h2
  exact ⟨k2.pp.trans k1.pp, k2.floor.trans k1.floor, k2.pid.trans k1.pid, n2.trans n1⟩

/-- In the situation of a real run at an end tag — no attribute pending, no namespace declaration
pending (and no `xmlns:xml` seen: the flag is reset by every `process_element` and is initially
off), the current parent is a node of the arena — the preparatory steps succeed and change nothing. -/
theorem closePrelude_clean (txt : Bytes) (c : Ctx) (p : NodeData)
    (hp : c.doc.nodes[c.parentId]? = some p) (hattrs : c.curAttrs = [])
    (hns : c.nsStartIdx = c.doc.ns.treeOrder.size) (hxd : c.xmlDeclared = false) :
    ClosePrelude txt c c := by
  have hc : ({ c with nsStartIdx := c.doc.ns.treeOrder.size, xmlDeclared := false } : Ctx) = c := by
    rw [← hns, ← hxd]
  have hra : ∀ nss, resolveAttributes txt c nss = .ok (c, (0, 0)) := by
    intro nss; unfold resolveAttributes; simp [hattrs]
  unfold ClosePrelude resolveNamespaces
  simp only [Ctx.nodeAt, hp, Res.bind_ok]
  split
  · rename_i parentNs _
    refine ⟨c, parentNs, (0, 0), ?_, ?_⟩
    · simp [hns]
    · rw [hc]; exact hra _
  · exact ⟨c, _, (0, 0), rfl, by rw [hc]; exact hra _⟩

/-- what `process_element` does with an end tag once the preparatory steps are done -/
theorem processElement_close_unfold (txt : Bytes) (c c2 : Ctx) (pfx loc : Span) (r : Range)
    (htag : c.tagName.name ≠ []) (hpre : ClosePrelude txt c c2) :
    processElement txt c (.close pfx loc) r =
      (if c2.parentPrefixes.length ≤ c2.entityFloor then
        errPos txt .unexpectedEntityCloseTag r.1
      else do
        let p ← c2.nodeAt c2.parentId
        match c2.parentPrefixes with
        | [] => .panic "parent_prefixes.last().unwrap()"
        | parentPrefix :: restPrefixes =>
          let p := if c2.positions then { p with range := (p.range.1, r.2) } else p
          let c3 := c2.setNode c2.parentId p
          let mismatch : Option (Bytes × Bytes) :=
            match p.kind with
            | .element _ tn _ _ =>
              if pfx.bytes != parentPrefix || loc.bytes != tn.bytes then
                some (genQNameString parentPrefix tn.bytes, genQNameString pfx.bytes loc.bytes)
              else none
            | _ => none
          match mismatch with
          | some (exp, act) => errPos txt (.unexpectedCloseTag exp act) r.1
          | none =>
            let c4 := { c3 with awaiting := c3.awaiting ++ [c3.parentId] }
            match p.parent with
            | some id => pure { c4 with parentId := id, parentPrefixes := restPrefixes }
            | none => errPos txt .unexpectedEntityCloseTag r.1) := by
  obtain ⟨c1, nss, attrs, h1, h2⟩ := hpre
  have he : c.tagName.name.isEmpty = false := by
    cases hn : c.tagName.name with
    | nil => exact absurd hn htag
    | cons _ _ => rfl
  unfold processElement
  simp only [he, Bool.false_eq_true, if_false, h1, Res.bind_ok, h2]
  rfl

/-- **Rule 1 — mismatched end tag** (XML 1.0 WFC "Element Type Match"): an end tag `</pfx:loc>`
while the innermost open element is `<ppfx:tn>` with a different prefix or a different local name
is rejected with `UnexpectedCloseTag(expected, actual)`. -/
theorem reject_mismatched_close (txt : Bytes) (c c2 : Ctx) (pfx loc : Span) (r : Range)
    (htag : c.tagName.name ≠ []) (hpre : ClosePrelude txt c c2)
    (hfloor : c.entityFloor < c.parentPrefixes.length)
    (p : NodeData) (hp : c.doc.nodes[c.parentId]? = some p)
    (ppfx : Bytes) (rest : List Bytes) (hpp : c.parentPrefixes = ppfx :: rest)
    (nsIdx : Option Nat) (tn : Span) (as ns : Range) (hk : p.kind = .element nsIdx tn as ns)
    (hne : pfx.bytes ≠ ppfx ∨ loc.bytes ≠ tn.bytes) :
    ∃ pos, processElement txt c (.close pfx loc) r =
      .err (.unexpectedCloseTag (genQNameString ppfx tn.bytes)
              (genQNameString pfx.bytes loc.bytes) pos) := by
  obtain ⟨k1, k2, k3, k4⟩ := hpre.keep
  rw [processElement_close_unfold txt c c2 pfx loc r htag hpre]
  have hnf : ¬ (c.parentPrefixes.length ≤ c.entityFloor) := by omega
  have hcond : (pfx.bytes != ppfx || loc.bytes != tn.bytes) = true := by
    rcases hne with h | h <;> simp [h]
  simp only [Ctx.nodeAt, k1, k2, k3, k4, hnf, if_false, hp, Res.bind_ok]
  simp only [hpp]
  have hk' : (if c2.positions = true then { p with range := (p.range.1, r.2) } else p).kind =
      .element nsIdx tn as ns := by split <;> exact hk
  simp only [hk', hcond, if_true]
  exact errPos_err _ _ _

/-- Rule 1 in the situation of a real run (nothing pending at the end tag). -/
theorem reject_mismatched_close_clean (txt : Bytes) (c : Ctx) (pfx loc : Span) (r : Range)
    (htag : c.tagName.name ≠ []) (hattrs : c.curAttrs = [])
    (hns : c.nsStartIdx = c.doc.ns.treeOrder.size) (hxd : c.xmlDeclared = false)
    (hfloor : c.entityFloor < c.parentPrefixes.length)
    (p : NodeData) (hp : c.doc.nodes[c.parentId]? = some p)
    (ppfx : Bytes) (rest : List Bytes) (hpp : c.parentPrefixes = ppfx :: rest)
    (nsIdx : Option Nat) (tn : Span) (as ns : Range) (hk : p.kind = .element nsIdx tn as ns)
    (hne : pfx.bytes ≠ ppfx ∨ loc.bytes ≠ tn.bytes) :
    ∃ pos, processElement txt c (.close pfx loc) r =
      .err (.unexpectedCloseTag (genQNameString ppfx tn.bytes)
              (genQNameString pfx.bytes loc.bytes) pos) :=
  reject_mismatched_close txt c c pfx loc r htag (closePrelude_clean txt c p hp hattrs hns hxd) hfloor
    p hp ppfx rest hpp nsIdx tn as ns hk hne

/-- **Rule 2a — end tag with nothing to close**: when the current parent is a node without a
parent (the root: every end tag has already been matched) the end tag is rejected with
`UnexpectedEntityCloseTag`. -/
theorem reject_close_at_root (txt : Bytes) (c c2 : Ctx) (pfx loc : Span) (r : Range)
    (htag : c.tagName.name ≠ []) (hpre : ClosePrelude txt c c2)
    (hfloor : c.entityFloor < c.parentPrefixes.length)
    (p : NodeData) (hp : c.doc.nodes[c.parentId]? = some p)
    (hk : p.kind.isElement = false) (hroot : p.parent = none) :
    ∃ pos, processElement txt c (.close pfx loc) r = .err (.unexpectedEntityCloseTag pos) := by
  obtain ⟨k1, k2, k3, k4⟩ := hpre.keep
  rw [processElement_close_unfold txt c c2 pfx loc r htag hpre]
  have hnf : ¬ (c.parentPrefixes.length ≤ c.entityFloor) := by omega
  simp only [Ctx.nodeAt, k1, k2, k3, k4, hnf, if_false, hp, Res.bind_ok]
  cases hpp : c.parentPrefixes with
  | nil => rw [hpp] at hfloor; simp at hfloor
  | cons ppfx rest =>
    cases hkk : p.kind with
    | element a b c d => rw [hkk] at hk; simp [Kind.isElement] at hk
    | _ =>
      cases hpos : c2.positions <;> simp only [hkk, hroot, if_true, if_false, Bool.false_eq_true] <;>
        exact errPos_err _ _ _

/-- **Rule 2b — an end tag cannot close an element opened outside the entity** (XML 1.0 WFC:
replacement text of an entity must be well-balanced; the D9 repair): inside an entity's
replacement text (`entityFloor` = depth at entry), an end tag met when no element opened by the
entity is open is rejected with `UnexpectedEntityCloseTag` — before any name comparison. -/
theorem reject_close_below_entity_floor (txt : Bytes) (c c2 : Ctx) (pfx loc : Span) (r : Range)
    (htag : c.tagName.name ≠ []) (hpre : ClosePrelude txt c c2)
    (hfloor : c.parentPrefixes.length ≤ c.entityFloor) :
    ∃ pos, processElement txt c (.close pfx loc) r = .err (.unexpectedEntityCloseTag pos) := by
  obtain ⟨k1, k2, _, _⟩ := hpre.keep
  rw [processElement_close_unfold txt c c2 pfx loc r htag hpre]
  have hf : c2.parentPrefixes.length ≤ c2.entityFloor := by rw [k1, k2]; exact hfloor
  simp only [hf, if_true]
  exact errPos_err _ _ _

/-- **Rule 2c — an end tag before any start tag of the entity**: on entry into an entity the
remembered tag name is cleared; an end tag met while it is still empty is rejected with
`UnexpectedEntityCloseTag` outright. -/
theorem reject_close_first_in_entity (txt : Bytes) (c : Ctx) (pfx loc : Span) (r : Range)
    (htag : c.tagName.name = []) :
    ∃ pos, processElement txt c (.close pfx loc) r = .err (.unexpectedEntityCloseTag pos) := by
  unfold processElement
  simp only [htag, List.isEmpty_nil, if_true]
  exact errPos_err _ _ _

/-! A small concrete builder state: the arena of `<a>` (root, then the open element `a`), the
cursor inside `a`. -/

/-- root node + one open element `a` -/
def exDoc : Doc :=
  { nodes := #[rootNode (0, 0),
      { parent := some 0, prevSibling := none, nextSubtree := none, lastChild := none,
        kind := .element none ⟨1, [97]⟩ (0, 0) (0, 0), range := (0, 0) }] }

/-- the builder inside `<a>`: parent = node 1, one open element, nothing pending -/
def exCtx : Ctx :=
  { nodesLimit := 100, positions := true, nsStartIdx := 0, doc := exDoc, parentId := 1,
    parentPrefixes := [[], []], tagName := ⟨[], [97], ⟨1, [97]⟩, 0, 1⟩ }

/-- Rule 1 is not vacuous: `</b>` inside `<a>` (for every input text). -/
example (txt : Bytes) : ∃ pos, processElement txt exCtx (.close ⟨3, []⟩ ⟨5, [98]⟩) (3, 7) =
    .err (.unexpectedCloseTag [97] [98] pos) :=
  reject_mismatched_close_clean txt exCtx _ _ _ (by decide) rfl rfl rfl (by decide) _ rfl [] [[]] rfl
    none ⟨1, [97]⟩ (0, 0) (0, 0) rfl (Or.inr (by decide))

/-- Rule 2a is not vacuous: an end tag while the current parent is the root. -/
example (txt : Bytes) : ∃ pos,
    processElement txt { exCtx with parentId := 0, parentPrefixes := [[]] } (.close ⟨3, []⟩ ⟨5, [97]⟩) (3, 7) =
      .err (.unexpectedEntityCloseTag pos) :=
  reject_close_at_root txt _ _ _ _ _ (by decide) (closePrelude_clean txt _ _ rfl rfl rfl rfl) (by decide)
    (rootNode (0, 0)) rfl rfl rfl

/-- Rule 2b is not vacuous: inside an entity entered at depth 2, `</a>` with no element opened by
the entity (D9). -/
example (txt : Bytes) : ∃ pos,
    processElement txt { exCtx with entityFloor := 2 } (.close ⟨3, []⟩ ⟨5, [97]⟩) (3, 7) =
      .err (.unexpectedEntityCloseTag pos) :=
  reject_close_below_entity_floor txt _ _ _ _ _ (by decide) (closePrelude_clean txt _ _ rfl rfl rfl rfl)
    (by decide)

/-- Rule 2c is not vacuous. -/
example (txt : Bytes) : ∃ pos,
    processElement txt { exCtx with tagName := {} } (.close ⟨3, []⟩ ⟨5, [97]⟩) (3, 7) =
      .err (.unexpectedEntityCloseTag pos) :=
  reject_close_first_in_entity txt _ _ _ _ rfl

/-! ### Rule 4 — the final checks of `parse` -/

/-- **Rule 4a — no root element** (XML 1.0 production [1] `document`: exactly one root element):
if the root node has no element child, `parse` fails with `NoRootNode`. -/
theorem reject_no_root_element (c : Ctx) (h : rootHasElement c.doc = .ok false) :
    finish c = .err .noRootNode := by
  unfold finish
  simp [h]

/-- **Rule 4b — root element not closed** (production [39] `element`: a start tag needs its end
tag): if an element is still open at the end of the input, `parse` fails with
`UnclosedRootNode`. -/
theorem reject_unclosed_root (c : Ctx) (h : rootHasElement c.doc = .ok true)
    (hopen : c.parentPrefixes.length > 1) : finish c = .err .unclosedRootNode := by
  unfold finish
  simp [h, hopen]

/-- Rule 4a is not vacuous: a document with only the root node. -/
example : finish { exCtx with doc := { nodes := #[rootNode (0, 0)] } } = .err .noRootNode :=
  reject_no_root_element _ (by decide)

/-- Rule 4b is not vacuous: `<a>` and the input ends. -/
example : finish { exCtx with doc := { nodes := #[{ rootNode (0, 0) with lastChild := some 1 },
      { parent := some 0, prevSibling := none, nextSubtree := none, lastChild := none,
        kind := .element none ⟨1, [97]⟩ (0, 0) (0, 0), range := (0, 0) }] } } =
    .err .unclosedRootNode :=
  reject_unclosed_root _ (by decide) (by decide)

/-- Whatever fails in the builder or the tokenizer, or in the final checks, `parse` returns that
error — never a tree. -/
theorem reject_parse_of_run (T : Tables) (txt : Bytes) (opt : Opt) (c0 : Ctx) (e : Err)
    (h0 : initCtx txt opt = .ok c0)
    (h : runTokens (token T txt depthFuel) (tokenize T txt opt.allowDtd).1
          (tokenize T txt opt.allowDtd).2 c0 = .err e) :
    parse T txt opt = .err e := by
  unfold parse parseCtx
  simp only [h0, Res.bind_ok]
  rw [h]
  rfl

/-- The final checks' error is `parse`'s error. -/
theorem reject_parse_of_finish (T : Tables) (txt : Bytes) (opt : Opt) (c0 c : Ctx) (e : Err)
    (h0 : initCtx txt opt = .ok c0)
    (h : runTokens (token T txt depthFuel) (tokenize T txt opt.allowDtd).1
          (tokenize T txt opt.allowDtd).2 c0 = .ok c)
    (hf : finish c = .err e) : parse T txt opt = .err e := by
  unfold parse parseCtx
  simp only [h0, Res.bind_ok]
  rw [h]
  simp only [Res.bind_ok, hf]
  rfl

/-- The builder's first rejection stops the run: if the tokens before `t` are accepted and `t` is
rejected, the run is rejected with that error, whatever follows and however the tokenizer
stopped. -/
theorem reject_run_of_step {α} (step : Token → Ctx → Res Ctx) (pre post : List Token) (t : Token)
    (stop : Res α) (c c' : Ctx) (e : Err) (hpre : feed step pre c = .ok c')
    (ht : step t c' = .err e) : runTokens step (pre ++ t :: post) stop c = .err e := by
  unfold runTokens
  rw [Rox.Props.C16.feed_append, hpre]
  simp only [feed, ht]

/-- The tokenizer's rejection is the run's rejection when the builder accepted every token
delivered before it. -/
theorem reject_run_of_tokenizer {α} (step : Token → Ctx → Res Ctx) (toks : List Token) (c c' : Ctx)
    (e : Err) (hfeed : feed step toks c = .ok c') :
    runTokens step toks (.err e : Res α) c = .err e := by
  unfold runTokens
  rw [hfeed]

/-! ### Rule 9 — entity references in character data (`parse_next_chunk`) -/

section
variable (T : Tables) (txt : Bytes)

/-- **Rule 9a — undefined entity in text** (XML 1.0 WFC "Entity Declared"): a reference `&name;`
in character data whose name is none of the declared entities (nor one of the five predefined
ones, which `consume_reference` resolves itself) is rejected with `UnknownEntityReference(name)`. -/
theorem reject_unknown_entity_text (ents : List Entity) (s s' : Stream) (r : Bytes) (name : Span)
    (hr : s.rest = bAmp :: r)
    (href : s.consumeReference T txt = .ok (s', some (.entity name)))
    (hfind : findEntity ents name.bytes = none) :
    ∃ pos, parseNextChunk T txt ents s = .err (.unknownEntityReference name.bytes pos) := by
  unfold parseNextChunk
  simp only [hr, beq_self_eq_true, if_true]
  rw [href]
  simp only [Res.bind_ok, hfind]
  exact errFrom_err _ _ _

/-- **Rule 9b — malformed reference in text** (productions [66]–[68]: `&` must start `&name;`,
`&#d;` or `&#xh;` denoting an XML character): an `&` in character data that `consume_reference`
cannot read as a reference is rejected with `MalformedEntityReference`. -/
theorem reject_malformed_reference_text (ents : List Entity) (s s' : Stream) (r : Bytes)
    (hr : s.rest = bAmp :: r) (href : s.consumeReference T txt = .ok (s', none)) :
    ∃ pos, parseNextChunk T txt ents s = .err (.malformedEntityReference pos) := by
  unfold parseNextChunk
  simp only [hr, beq_self_eq_true, if_true]
  rw [href]
  simp only [Res.bind_ok]
  exact errFrom_err _ _ _

/-! ### Rules 3, 13 — entity expansion in character data (`process_text`) -/

/-- The context with which the replacement text of an entity is tokenized: loop detector
advanced, remembered tag name cleared, `entityFloor` = the current depth. -/
def enterEntity (c : Ctx) (ld1 ld2 : LD) : Ctx :=
  let c := ({ c with ld := ld1 } : Ctx).log (.loop 0 true ld1.depth ld1.refs)
  let c := ({ c with ld := ld2 } : Ctx).log (.loop 1 true ld2.depth ld2.refs)
  { c with tagName := {}, entityFloor := c.parentPrefixes.length,
           maxDepth := max c.maxDepth ld2.depth }

/-- **Rule 3 — an entity must be balanced** (XML 1.0 WFC on entity replacement text /
production [43] `content`): if, after the tokens of an entity's replacement text have been
processed, the element depth differs from the depth at entry (an element opened in the entity is
still open), the next step of the text loop fails with `UnexpectedEndOfStream`. -/
theorem reject_entity_depth_changed (lower : Token → Ctx → Res Ctx) (range : Range) (fuel : Nat)
    (s s1 : Stream) (buf : TextBuffer) (c c1 c2 : Ctx) (fragment : Span) (ld1 ld2 : LD)
    (hend : s.atEnd = false)
    (hchunk : parseNextChunk T txt c.entities s = .ok (s1, .text fragment))
    (hflush : flushBuffer c buf range = .ok c1)
    (hrefs : c1.ld.incRefs = some ld1) (hdepth : ld1.incDepth = some ld2)
    (hrun : runTokens lower (tokenizeContent T txt fragment.off fragment.stop).1
              (tokenizeContent T txt fragment.off fragment.stop).2 (enterEntity c1 ld1 ld2) = .ok c2)
    (hne : c2.parentPrefixes.length ≠ c2.entityFloor) :
    processTextLoop T txt lower range (fuel + 1) s buf c = .err .unexpectedEndOfStream := by
  unfold enterEntity at hrun
  simp only [Ctx.log] at hrun
  simp only [processTextLoop, hend, Bool.false_eq_true, if_false, hchunk, Res.bind_ok, hflush, hrefs,
    Ctx.log, hdepth, hrun]
  simp [hne]

/-- `inc_references` refuses exactly at the 256th reference inside an entity. -/
theorem incRefs_none_iff (ld : LD) : ld.incRefs = none ↔ ld.depth ≠ 0 ∧ ld.refs = 255 := by
  unfold LD.incRefs
  split
  · rename_i h; simp at h; simp [h]
  · rename_i h; simp at h
    split
    · rename_i h2; simp at h2; simp [h, h2]
    · rename_i h2; simp at h2; simp [h2]

/-- `inc_depth` refuses exactly at nesting depth 10. -/
theorem incDepth_none_iff (ld : LD) : ld.incDepth = none ↔ 10 ≤ ld.depth := by
  unfold LD.incDepth
  split
  · rename_i h; simp; omega
  · rename_i h; simp; omega

/-- **Rule 13a — loop detector, reference count, in text** (XML 1.0 WFC "No Recursion", enforced
as a bound: at most 255 references while inside an entity): when `inc_references` refuses, the
next step of the text loop fails with `EntityReferenceLoop`. -/
theorem reject_entity_refs_limit_text (lower : Token → Ctx → Res Ctx) (range : Range) (fuel : Nat)
    (s s1 : Stream) (buf : TextBuffer) (c c1 : Ctx) (fragment : Span)
    (hend : s.atEnd = false)
    (hchunk : parseNextChunk T txt c.entities s = .ok (s1, .text fragment))
    (hflush : flushBuffer c buf range = .ok c1) (hs1 : SOk txt s1)
    (hrefs : c.ld.incRefs = none) :
    ∃ pos, processTextLoop T txt lower range (fuel + 1) s buf c = .err (.entityReferenceLoop pos) := by
  have hld : c1.ld = c.ld := flushBuffer_ld c c1 buf range hflush
  simp only [processTextLoop, hend, Bool.false_eq_true, if_false, hchunk, Res.bind_ok, hflush, hld,
    hrefs]
  exact errAt_err hs1 _

/-- **Rule 13b — loop detector, nesting depth, in text** (XML 1.0 WFC "No Recursion", enforced as
a bound: entity expansions nest at most 10 deep): when `inc_depth` refuses, the next step of the
text loop fails with `EntityReferenceLoop`. A self-referencing entity reaches this after 10
levels. -/
theorem reject_entity_depth_limit_text (lower : Token → Ctx → Res Ctx) (range : Range) (fuel : Nat)
    (s s1 : Stream) (buf : TextBuffer) (c c1 : Ctx) (fragment : Span) (ld1 : LD)
    (hend : s.atEnd = false)
    (hchunk : parseNextChunk T txt c.entities s = .ok (s1, .text fragment))
    (hflush : flushBuffer c buf range = .ok c1) (hs1 : SOk txt s1)
    (hrefs : c.ld.incRefs = some ld1) (hdepth : ld1.incDepth = none) :
    ∃ pos, processTextLoop T txt lower range (fuel + 1) s buf c = .err (.entityReferenceLoop pos) := by
  have hld : c1.ld = c.ld := flushBuffer_ld c c1 buf range hflush
  simp only [processTextLoop, hend, Bool.false_eq_true, if_false, hchunk, Res.bind_ok, hflush, hld,
    hrefs, Ctx.log, hdepth]
  exact errAt_err hs1 _

/-- An undefined or malformed reference met by the text loop is the text loop's error (rule 9 at
the level of `process_text`). -/
theorem reject_text_loop_of_chunk (lower : Token → Ctx → Res Ctx) (range : Range) (fuel : Nat)
    (s : Stream) (buf : TextBuffer) (c : Ctx) (e : Err) (hend : s.atEnd = false)
    (hchunk : parseNextChunk T txt c.entities s = .err e) :
    processTextLoop T txt lower range (fuel + 1) s buf c = .err e := by
  simp only [processTextLoop, hend, Bool.false_eq_true, if_false, hchunk, Res.bind_err]

/-! ### Rules 9, 10, 13 in attribute values (`_normalize_attribute`) -/

/-- the type of the "one entity level deeper" argument of the attribute-value loop -/
abbrev AttrRec := Span → TextBuffer → LD → List Ev → Res (TextBuffer × LD × List Ev)

/-- **Rule 10a — a literal `<` in an attribute value** (XML 1.0 WFC "No < in Attribute Values"):
when the next byte of the value (or of an entity's replacement text expanded inside the value) is
`<`, the next step of the normalisation loop fails with `InvalidAttributeValue`. -/
theorem reject_lt_in_attr_value (ents : List Entity) (rec : AttrRec) (fuel : Nat) (s : Stream)
    (r : Bytes) (buf : TextBuffer) (ld : LD) (tr : List Ev)
    (hr : s.rest = bLt :: r) (hs : SOk txt s) :
    ∃ pos, normAttrLoop T txt ents rec (fuel + 1) s buf ld tr = .err (.invalidAttributeValue pos) := by
  simp only [normAttrLoop, hr]
  have h1 : (bLt != bAmp) = true := by decide
  simp only [h1, if_true, beq_self_eq_true]
  exact errAt_err hs _

/-- Rule 10a for a cursor of the byte-wise loop (`WOk`: it may stand anywhere in the input; a
`<` byte is always on a character boundary). -/
theorem reject_lt_in_attr_value_w (ents : List Entity) (rec : AttrRec) (fuel : Nat) (s : Stream)
    (r : Bytes) (buf : TextBuffer) (ld : LD) (tr : List Ev)
    (hr : s.rest = bLt :: r) (hw : WOk txt s) :
    ∃ pos, normAttrLoop T txt ents rec (fuel + 1) s buf ld tr = .err (.invalidAttributeValue pos) := by
  simp only [normAttrLoop, hr]
  have h1 : (bLt != bAmp) = true := by decide
  simp only [h1, if_true, beq_self_eq_true]
  have hb := hw.bound
  have hsl := hw.slice
  rw [hr] at hb hsl
  simp only [List.length_cons] at hb hsl
  refine ⟨_, errAt_err_of_boundary txt _ s.pos (by omega) ?_⟩
  unfold isCharBoundary
  by_cases h0 : s.pos = 0
  · simp [h0]
  · unfold sliceBytes at hsl
    cases hd : txt.drop s.pos with
    | nil => rw [hd] at hsl; simp at hsl
    | cons b' r' =>
      rw [hd, show s.pos + (r.length + 1) - s.pos = r.length + 1 by omega, List.take_succ_cons] at hsl
      simp only [List.cons.injEq] at hsl
      simp only [h0, beq_iff_eq, if_false, ← hsl.1]
      decide

/-- **Rule 10b — `<` brought into an attribute value by a character reference inside an entity**
(XML 1.0 WFC "No < in Attribute Values": the replacement text of an entity referred to in an
attribute value must not contain `<`; the D6 repair): inside an entity (`depth > 0`) a character
reference whose character encodes with a `<` byte is rejected with `InvalidAttributeValue`. -/
theorem reject_lt_charref_in_entity_attr (ents : List Entity) (rec : AttrRec) (fuel : Nat)
    (s s' : Stream) (r : Bytes) (buf : TextBuffer) (ld : LD) (tr : List Ev) (ch : Nat)
    (hr : s.rest = bAmp :: r)
    (href : s.consumeReference T txt = .ok (s', some (.char ch)))
    (hdepth : ld.depth > 0) (hlt : (encodeChar ch).contains bLt = true) :
    ∃ pos, normAttrLoop T txt ents rec (fuel + 1) s buf ld tr = .err (.invalidAttributeValue pos) := by
  simp only [normAttrLoop, hr]
  have h1 : (bAmp != bAmp) = false := by decide
  simp only [h1, Bool.false_eq_true, if_false]
  rw [href]
  simp only [Res.bind_ok, hdepth, if_true, hlt]
  exact errFrom_err _ _ _

/-- Rule 10b for the reference `&#60;` / `&#x3C;` / `&lt;` itself: the character `<`. -/
theorem reject_lt_ref_in_entity_attr (ents : List Entity) (rec : AttrRec) (fuel : Nat)
    (s s' : Stream) (r : Bytes) (buf : TextBuffer) (ld : LD) (tr : List Ev)
    (hr : s.rest = bAmp :: r)
    (href : s.consumeReference T txt = .ok (s', some (.char 60)))
    (hdepth : ld.depth > 0) :
    ∃ pos, normAttrLoop T txt ents rec (fuel + 1) s buf ld tr = .err (.invalidAttributeValue pos) :=
  reject_lt_charref_in_entity_attr T txt ents rec fuel s s' r buf ld tr 60 hr href hdepth (by decide)

/-- **Rule 9c — undefined entity in an attribute value** (XML 1.0 WFC "Entity Declared"):
rejected with `UnknownEntityReference(name)`. -/
theorem reject_unknown_entity_attr (ents : List Entity) (rec : AttrRec) (fuel : Nat)
    (s s' : Stream) (r : Bytes) (buf : TextBuffer) (ld : LD) (tr : List Ev) (name : Span)
    (hr : s.rest = bAmp :: r)
    (href : s.consumeReference T txt = .ok (s', some (.entity name)))
    (hfind : findEntity ents name.bytes = none) :
    ∃ pos, normAttrLoop T txt ents rec (fuel + 1) s buf ld tr =
      .err (.unknownEntityReference name.bytes pos) := by
  simp only [normAttrLoop, hr]
  have h1 : (bAmp != bAmp) = false := by decide
  simp only [h1, Bool.false_eq_true, if_false]
  rw [href]
  simp only [Res.bind_ok, hfind]
  exact errFrom_err _ _ _

/-- **Rule 9d — malformed reference in an attribute value**: rejected with
`MalformedEntityReference`. -/
theorem reject_malformed_reference_attr (ents : List Entity) (rec : AttrRec) (fuel : Nat)
    (s s' : Stream) (r : Bytes) (buf : TextBuffer) (ld : LD) (tr : List Ev)
    (hr : s.rest = bAmp :: r) (href : s.consumeReference T txt = .ok (s', none)) :
    ∃ pos, normAttrLoop T txt ents rec (fuel + 1) s buf ld tr = .err (.malformedEntityReference pos) := by
  simp only [normAttrLoop, hr]
  have h1 : (bAmp != bAmp) = false := by decide
  simp only [h1, Bool.false_eq_true, if_false]
  rw [href]
  simp only [Res.bind_ok]
  exact errFrom_err _ _ _

/-- **Rule 13c — loop detector, reference count, in an attribute value**: a reference to a
declared entity when `inc_references` refuses is rejected with `EntityReferenceLoop`. -/
theorem reject_entity_refs_limit_attr (ents : List Entity) (rec : AttrRec) (fuel : Nat)
    (s s' : Stream) (r : Bytes) (buf : TextBuffer) (ld : LD) (tr : List Ev) (name : Span) (ent : Entity)
    (hr : s.rest = bAmp :: r)
    (href : s.consumeReference T txt = .ok (s', some (.entity name)))
    (hfind : findEntity ents name.bytes = some ent) (hs' : SOk txt s')
    (hrefs : ld.incRefs = none) :
    ∃ pos, normAttrLoop T txt ents rec (fuel + 1) s buf ld tr = .err (.entityReferenceLoop pos) := by
  simp only [normAttrLoop, hr]
  have h1 : (bAmp != bAmp) = false := by decide
  simp only [h1, Bool.false_eq_true, if_false]
  rw [href]
  simp only [Res.bind_ok, hfind, hrefs]
  exact errAt_err hs' _

/-- **Rule 13d — loop detector, nesting depth, in an attribute value**: a reference to a declared
entity when `inc_depth` refuses (10 levels) is rejected with `EntityReferenceLoop`. -/
theorem reject_entity_depth_limit_attr (ents : List Entity) (rec : AttrRec) (fuel : Nat)
    (s s' : Stream) (r : Bytes) (buf : TextBuffer) (ld ld1 : LD) (tr : List Ev) (name : Span)
    (ent : Entity) (hr : s.rest = bAmp :: r)
    (href : s.consumeReference T txt = .ok (s', some (.entity name)))
    (hfind : findEntity ents name.bytes = some ent) (hs' : SOk txt s')
    (hrefs : ld.incRefs = some ld1) (hdepth : ld1.incDepth = none) :
    ∃ pos, normAttrLoop T txt ents rec (fuel + 1) s buf ld tr = .err (.entityReferenceLoop pos) := by
  simp only [normAttrLoop, hr]
  have h1 : (bAmp != bAmp) = false := by decide
  simp only [h1, Bool.false_eq_true, if_false]
  rw [href]
  simp only [Res.bind_ok, hfind, hrefs, hdepth]
  exact errAt_err hs' _

/-- The cursor after a reference read at a cursor of the input is a cursor of the input: the
hypothesis `SOk txt s'` of rules 13 follows from `SOk txt s`. -/
theorem sOk_after_reference (s s' : Stream) (r : Bytes) (ref : Reference) (hs : SOk txt s)
    (hr : s.rest = bAmp :: r) (href : s.consumeReference T txt = .ok (s', some ref)) :
    SOk txt s' :=
  ((consumeReference_amp T txt hs r hr).post _ href rfl).1.2

end

/-! #### Concrete instances for rules 3, 9, 10, 13 (a hand-made table: names are `a`–`z`) -/

/-- a tiny table: name characters `a`–`z`, space, the usual XML characters below U+D800 -/
def T0 : Tables :=
  { nameStart := [(97, 122)], name := [(97, 122)], xmlChar := [(9, 10), (13, 13), (32, 55295)],
    byteSpace := [(32, 32)], byteNameStart := [(97, 122)], byteName := [(97, 122)],
    byteXmlChar := [(9, 10), (13, 13), (32, 127)] }

/-- the text `<b>&e;` — the cursor of the examples stands on `&e;`, the entity `e` is given the
replacement text `<b>` (the first three bytes) -/
def exTxt : Bytes := [60, 98, 62, 38, 101, 59]

def exRefCursor : Stream := ⟨3, [38, 101, 59]⟩
def exEntity : Entity := ⟨⟨4, [101]⟩, ⟨0, [60, 98, 62]⟩⟩

theorem exRefCursor_sOk : SOk exTxt exRefCursor :=
  ⟨by decide, by decide, by unfold ValidUtf8; decide, by decide⟩

theorem exEndCursor_sOk : SOk exTxt ⟨6, []⟩ :=
  ⟨by decide, by decide, by unfold ValidUtf8; decide, by decide⟩

theorem ex_ref_entity :
    exRefCursor.consumeReference T0 exTxt = .ok (⟨6, []⟩, some (.entity ⟨4, [101]⟩)) := by decide

/-- `&;` is not a reference -/
theorem ex_ref_malformed :
    (Stream.mk 3 [38, 59]).consumeReference T0 exTxt = .ok (⟨4, [59]⟩, none) := by decide

/-- `&#60;` is the character `<` -/
theorem ex_ref_lt :
    (Stream.mk 3 [38, 35, 54, 48, 59]).consumeReference T0 exTxt = .ok (⟨8, []⟩, some (.char 60)) := by
  decide

theorem ex_chunk : parseNextChunk T0 exTxt [exEntity] exRefCursor = .ok (⟨6, []⟩, .text ⟨0, [60, 98, 62]⟩) := by
  unfold parseNextChunk
  simp only [exRefCursor, show ((38 : UInt8) == bAmp) = true by decide, if_true]
  rw [show (Stream.mk 3 [38, 101, 59]) = exRefCursor from rfl, ex_ref_entity]
  rfl

/-- Rule 9a is not vacuous: `&e;` in text with no entity declared. -/
example : ∃ pos, parseNextChunk T0 exTxt [] exRefCursor = .err (.unknownEntityReference [101] pos) :=
  reject_unknown_entity_text T0 exTxt [] exRefCursor _ _ ⟨4, [101]⟩ rfl ex_ref_entity rfl

/-- Rule 9b is not vacuous: `&;` in text. -/
example : ∃ pos, parseNextChunk T0 exTxt [] ⟨3, [38, 59]⟩ = .err (.malformedEntityReference pos) :=
  reject_malformed_reference_text T0 exTxt [] _ _ _ rfl ex_ref_malformed

/-- Rule 9c is not vacuous: `&e;` in an attribute value with no entity declared. -/
example (rec : AttrRec) : ∃ pos, normAttrLoop T0 exTxt [] rec 1 exRefCursor {} {} [] =
    .err (.unknownEntityReference [101] pos) :=
  reject_unknown_entity_attr T0 exTxt [] rec 0 exRefCursor _ _ {} {} [] ⟨4, [101]⟩ rfl ex_ref_entity rfl

/-- Rule 9d is not vacuous: `&;` in an attribute value. -/
example (rec : AttrRec) : ∃ pos, normAttrLoop T0 exTxt [] rec 1 ⟨3, [38, 59]⟩ {} {} [] =
    .err (.malformedEntityReference pos) :=
  reject_malformed_reference_attr T0 exTxt [] rec 0 _ _ _ {} {} [] rfl ex_ref_malformed

/-- Rule 10a is not vacuous: the cursor of the attribute-value loop on the `<` of `<b>` (as when
the entity `e` = `<b>` is expanded inside an attribute value). -/
example (rec : AttrRec) : ∃ pos, normAttrLoop T0 exTxt [] rec 1 ⟨0, [60, 98, 62]⟩ {} ⟨1, 1⟩ [] =
    .err (.invalidAttributeValue pos) :=
  reject_lt_in_attr_value T0 exTxt [] rec 0 _ _ {} _ [] rfl
    ⟨by decide, by decide, by unfold ValidUtf8; decide, by decide⟩

/-- Rule 10a (byte-wise cursor) is not vacuous. -/
example (rec : AttrRec) : ∃ pos, normAttrLoop T0 exTxt [] rec 1 ⟨0, [60, 98, 62]⟩ {} ⟨1, 1⟩ [] =
    .err (.invalidAttributeValue pos) :=
  reject_lt_in_attr_value_w T0 exTxt [] rec 0 _ _ {} _ [] rfl ⟨by decide, by decide, by decide⟩

/-- Rule 10b is not vacuous: `&#60;` met at entity depth 1 (D6). -/
example (rec : AttrRec) : ∃ pos, normAttrLoop T0 exTxt [] rec 1 ⟨3, [38, 35, 54, 48, 59]⟩ {} ⟨1, 1⟩ [] =
    .err (.invalidAttributeValue pos) :=
  reject_lt_ref_in_entity_attr T0 exTxt [] rec 0 _ _ _ {} _ [] rfl ex_ref_lt (by decide)

/-- Rule 13c is not vacuous: the 256th reference inside an entity, in an attribute value. -/
example (rec : AttrRec) : ∃ pos, normAttrLoop T0 exTxt [exEntity] rec 1 exRefCursor {} ⟨1, 255⟩ [] =
    .err (.entityReferenceLoop pos) :=
  reject_entity_refs_limit_attr T0 exTxt _ rec 0 exRefCursor _ _ {} _ [] ⟨4, [101]⟩ exEntity rfl
    ex_ref_entity (by decide) exEndCursor_sOk (by decide)

/-- Rule 13d is not vacuous: a reference at nesting depth 10, in an attribute value. -/
example (rec : AttrRec) : ∃ pos, normAttrLoop T0 exTxt [exEntity] rec 1 exRefCursor {} ⟨10, 3⟩ [] =
    .err (.entityReferenceLoop pos) :=
  reject_entity_depth_limit_attr T0 exTxt _ rec 0 exRefCursor _ _ {} _ ⟨10, 4⟩ [] ⟨4, [101]⟩ exEntity rfl
    ex_ref_entity (by decide) exEndCursor_sOk (by decide) (by decide)

/-- the builder inside `<a>` with the entity `e` = `<b>` declared -/
def exCtxE : Ctx := { exCtx with entities := [exEntity] }

/-- Rule 13a is not vacuous: the 256th reference inside an entity, in text. -/
example (lower : Token → Ctx → Res Ctx) : ∃ pos,
    processTextLoop T0 exTxt lower (3, 6) 1 exRefCursor {} { exCtxE with ld := ⟨1, 255⟩ } =
      .err (.entityReferenceLoop pos) :=
  reject_entity_refs_limit_text T0 exTxt lower _ 0 exRefCursor _ {} _ _ _ (by decide) ex_chunk rfl
    exEndCursor_sOk (by decide)

/-- Rule 13b is not vacuous: a reference at nesting depth 10, in text. -/
example (lower : Token → Ctx → Res Ctx) : ∃ pos,
    processTextLoop T0 exTxt lower (3, 6) 1 exRefCursor {} { exCtxE with ld := ⟨10, 3⟩ } =
      .err (.entityReferenceLoop pos) :=
  reject_entity_depth_limit_text T0 exTxt lower _ 0 exRefCursor _ {} _ _ _ ⟨10, 4⟩ (by decide) ex_chunk
    rfl exEndCursor_sOk (by decide) (by decide)

/-- a successful run whose result satisfies a decidable condition, from one evaluation -/
theorem ok_of_eval {α} (r : Res α) (P : α → Bool) (h : r.toOption.map P = some true) :
    ∃ a, r = .ok a ∧ P a = true := by
  cases r with
  | ok a => exact ⟨a, rfl, by simpa [Res.toOption] using h⟩
  | err e => simp [Res.toOption] at h
  | panic s => simp [Res.toOption] at h
  | fuel => simp [Res.toOption] at h

/-- Rule 3 is not vacuous: inside `<a>`, `&e;` with `e` = `<b>` — the entity opens `b` and ends. -/
example : processTextLoop T0 exTxt (token T0 exTxt 1) (3, 6) 1 exRefCursor {} exCtxE =
    .err .unexpectedEndOfStream := by
  obtain ⟨c2, h2, hp⟩ := ok_of_eval
    (runTokens (token T0 exTxt 1) (tokenizeContent T0 exTxt 0 3).1 (tokenizeContent T0 exTxt 0 3).2
      (enterEntity exCtxE ⟨0, 0⟩ ⟨1, 0⟩))
    (fun c2 => decide (c2.parentPrefixes.length ≠ c2.entityFloor)) (by decide)
  exact reject_entity_depth_changed T0 exTxt _ _ 0 exRefCursor _ {} exCtxE exCtxE c2 _ ⟨0, 0⟩ ⟨1, 0⟩
    (by decide) ex_chunk rfl (by decide) (by decide) h2 (by simpa using hp)

/-! ### Rule 7 — undeclared prefix (`get_ns_idx_by_prefix`) -/

/-- the local scan of `get_ns_idx_by_prefix` finds nothing when no listed namespace has the prefix -/
theorem find_none (doc : Doc) (po : Option Bytes) : ∀ (l : List Nat),
    (∀ idx ∈ l, ∃ v, doc.ns.values[idx]? = some v ∧ v.nameBytes ≠ po) →
    getNsIdxByPrefix.find doc po l = .ok none
  | [], _ => rfl
  | idx :: t, h => by
    obtain ⟨v, hv, hne⟩ := h idx (by simp)
    simp only [getNsIdxByPrefix.find, hv]
    have : (v.nameBytes == po) = false := by simpa using hne
    simp only [this, Bool.false_eq_true, if_false]
    exact find_none doc po t (fun i hi => h i (by simp [hi]))

/-- **Rule 7 — undeclared prefix** (Namespaces in XML, NSC "Prefix Declared"): a non-empty prefix
other than `xml` that none of the namespace declarations in scope (`tree_order[nss]`) binds is
rejected with `UnknownNamespace(prefix)`. -/
theorem reject_unknown_prefix (txt : Bytes) (doc : Doc) (nss : Range) (prefixPos : Nat) (pfx : Bytes)
    (hne : pfx ≠ []) (hxml : pfx ≠ Lit.xml)
    (hrange : nss.1 ≤ nss.2 ∧ nss.2 ≤ doc.ns.treeOrder.size)
    (hscope : ∀ idx ∈ (doc.ns.treeOrder.toList.drop nss.1).take (nss.2 - nss.1),
      ∃ v, doc.ns.values[idx]? = some v ∧ v.nameBytes ≠ some pfx) :
    ∃ pos, getNsIdxByPrefix txt doc nss prefixPos pfx = .err (.unknownNamespace pfx pos) := by
  have he : pfx.isEmpty = false := by cases pfx <;> simp_all
  have hx : (pfx == Lit.xml) = false := by simpa using hxml
  unfold getNsIdxByPrefix
  simp only [he, hx, Bool.false_eq_true, if_false, hrange.1, hrange.2, decide_true, Bool.and_self,
    Bool.not_true, Bool.not_false, if_true]
  rw [find_none doc (some pfx) _ hscope]
  simp only [Res.bind_ok]
  exact errPos_err _ _ _

/-- **Rule 7 on an attribute name**: the next attribute of the element has a non-empty prefix,
not `xml`, that is not declared in scope — the attribute loop rejects with
`UnknownNamespace(prefix)`. -/
theorem reject_unknown_attr_prefix (txt : Bytes) (positions : Bool) (nss : Range) (startIdx : Nat)
    (a : TempAttr) (rest : List TempAttr) (doc : Doc)
    (hne : a.pfx.bytes ≠ []) (hxml : a.pfx.bytes ≠ Lit.xml)
    (hrange : nss.1 ≤ nss.2 ∧ nss.2 ≤ doc.ns.treeOrder.size)
    (hscope : ∀ idx ∈ (doc.ns.treeOrder.toList.drop nss.1).take (nss.2 - nss.1),
      ∃ v, doc.ns.values[idx]? = some v ∧ v.nameBytes ≠ some a.pfx.bytes) :
    ∃ pos, resolveAttrsLoop txt positions nss startIdx (a :: rest) doc =
      .err (.unknownNamespace a.pfx.bytes pos) := by
  obtain ⟨pos, h⟩ := reject_unknown_prefix txt doc nss a.range.1 a.pfx.bytes hne hxml hrange hscope
  have he : a.pfx.bytes.isEmpty = false := by cases hb : a.pfx.bytes <;> simp_all
  have hx : (a.pfx.bytes == Lit.xml) = false := by simpa using hxml
  refine ⟨pos, ?_⟩
  simp only [resolveAttrsLoop, attrNsIdx, hx, he, Bool.false_eq_true, if_false, h, Res.bind_err]

/-- **Rule 7 on an element name** (start tag `<p:n ...>` or empty-element tag `<p:n .../>`): once
the namespace declarations and attributes of the tag are resolved (to the context `c2` and the
scope `nss`), an element prefix that is not `xml` and not declared in scope is rejected with
`UnknownNamespace(prefix)`. -/
theorem reject_unknown_element_prefix (txt : Bytes) (c c1 c2 : Ctx) (nss attrs : Range) (e : EndKind)
    (r : Range) (he : e = .open ∨ e = .empty)
    (htag : c.tagName.name ≠ [])
    (h1 : resolveNamespaces c = .ok (c1, nss))
    (h2 : resolveAttributes txt { c1 with nsStartIdx := c1.doc.ns.treeOrder.size, xmlDeclared := false } nss = .ok (c2, attrs))
    (hne : c2.tagName.pfx ≠ []) (hxml : c2.tagName.pfx ≠ Lit.xml)
    (hrange : nss.1 ≤ nss.2 ∧ nss.2 ≤ c2.doc.ns.treeOrder.size)
    (hscope : ∀ idx ∈ (c2.doc.ns.treeOrder.toList.drop nss.1).take (nss.2 - nss.1),
      ∃ v, c2.doc.ns.values[idx]? = some v ∧ v.nameBytes ≠ some c2.tagName.pfx) :
    ∃ pos, processElement txt c e r = .err (.unknownNamespace c2.tagName.pfx pos) := by
  obtain ⟨pos, h⟩ :=
    reject_unknown_prefix txt c2.doc nss c2.tagName.prefixPos c2.tagName.pfx hne hxml hrange hscope
  have hem : c.tagName.name.isEmpty = false := by
    cases hn : c.tagName.name with
    | nil => exact absurd hn htag
    | cons _ _ => rfl
  refine ⟨pos, ?_⟩
  unfold processElement
  rcases he with rfl | rfl <;>
    simp only [hem, Bool.false_eq_true, if_false, h1, Res.bind_ok, h2, h, Res.bind_err]

/-- the builder at the end of the start tag `<p:a>` with no declaration for `p` -/
def exCtxP : Ctx := { exCtx with tagName := ⟨[112], [97], ⟨5, [97]⟩, 3, 4⟩ }

/-- Rule 7 is not vacuous: prefix `p`, nothing in scope. -/
example (txt : Bytes) : ∃ pos, getNsIdxByPrefix txt exDoc (0, 0) 4 [112] = .err (.unknownNamespace [112] pos) :=
  reject_unknown_prefix txt exDoc (0, 0) 4 [112] (by decide) (by decide) (by decide)
    (by intro idx h; simp at h)

/-- Rule 7 (attribute) is not vacuous: `p:x="…"` with nothing in scope. -/
example (txt : Bytes) : ∃ pos, resolveAttrsLoop txt true (0, 0) 0
    [⟨⟨3, [112]⟩, ⟨5, [120]⟩, .owned [], (3, 9), 3, 1⟩] exDoc = .err (.unknownNamespace [112] pos) :=
  reject_unknown_attr_prefix txt true (0, 0) 0 _ [] exDoc (by decide) (by decide) (by decide)
    (by intro idx h; simp at h)

/-- Rule 7 (element) is not vacuous: `<p:a>` inside `<a>` with nothing in scope. -/
example (txt : Bytes) : ∃ pos, processElement txt exCtxP .open (6, 7) = .err (.unknownNamespace [112] pos) :=
  reject_unknown_element_prefix txt exCtxP exCtxP exCtxP (0, 0) (0, 0) .open (6, 7) (Or.inl rfl)
    (by decide) rfl rfl (by decide) (by decide) (by decide) (by intro idx h; simp at h)

/-! ### Rule 5 — duplicate attribute (`resolve_attributes`) -/

/-- a lazy `any` that meets a `true` answers `true`, provided no earlier test fails -/
theorem anyM_true (f : Nat → Res Bool) : ∀ (l : List Nat),
    (∀ y ∈ l, ∃ b, f y = .ok b) → (∃ x ∈ l, f x = .ok true) → l.anyM f = .ok true
  | [], _, h => by obtain ⟨x, hx, _⟩ := h; simp at hx
  | y :: t, hall, hex => by
    obtain ⟨b, hb⟩ := hall y (by simp)
    rw [List.anyM_cons, hb]
    cases b with
    | true => rfl
    | false =>
      simp only [Res.bind_ok]
      refine anyM_true f t (fun z hz => hall z (by simp [hz])) ?_
      obtain ⟨x, hx, hfx⟩ := hex
      rcases List.mem_cons.mp hx with rfl | hx
      · rw [hb] at hfx; cases hfx
      · exact ⟨x, hx, hfx⟩

/-- **Rule 5 — duplicate attribute** (XML 1.0 WFC "Unique Att Spec" together with Namespaces in
XML NSC "Attributes Unique": no two attributes of a tag with the same expanded name): when an
attribute already resolved for this element (`doc.attrs[startIdx..]`) has the same expanded name
(namespace URI, local name) as the next attribute, the loop rejects with
`DuplicatedAttribute(local name)`. -/
theorem reject_duplicate_attribute (txt : Bytes) (positions : Bool) (nss : Range) (startIdx : Nat)
    (a : TempAttr) (rest : List TempAttr) (doc : Doc) (nsIdx : Option Nat) (en : Option Bytes × Bytes)
    (hns : attrNsIdx txt doc nss a = .ok nsIdx)
    (hen : Api.expandedName doc nsIdx a.loc = .ok en)
    (hall : ∀ k, startIdx ≤ k → k < doc.attrs.size → ∃ e, Api.attrExpanded doc k = .ok e)
    (k : Nat) (hk1 : startIdx ≤ k) (hk2 : k < doc.attrs.size)
    (hdup : Api.attrExpanded doc k = .ok en) :
    ∃ pos, resolveAttrsLoop txt positions nss startIdx (a :: rest) doc =
      .err (.duplicatedAttribute a.loc.bytes pos) := by
  have hany : ((List.range (doc.attrs.size - startIdx)).map (· + startIdx)).anyM
      (fun k => do let e ← Api.attrExpanded doc k; pure (e == en)) = .ok true := by
    apply anyM_true
    · intro y hy
      simp only [List.mem_map, List.mem_range] at hy
      obtain ⟨i, hi, rfl⟩ := hy
      obtain ⟨e, he⟩ := hall (i + startIdx) (by omega) (by omega)
      exact ⟨e == en, by rw [he]; rfl⟩
    · refine ⟨k, ?_, by rw [hdup]; simp⟩
      simp only [List.mem_map, List.mem_range]
      exact ⟨k - startIdx, by omega, by omega⟩
  simp only [resolveAttrsLoop, hns, Res.bind_ok, hen, hany, if_true]
  exact errPos_err _ _ _

/-- a document whose arena already holds the attribute `x` (no namespace) of the current element -/
def exDocX : Doc :=
  { exDoc with attrs := #[{ nsIdx := none, localName := ⟨3, [120]⟩, value := .owned [], range := (3, 8),
                            qnameLen := 1, eqLen := 1 }] }

/-- Rule 5 is not vacuous: a second `x="…"` on the same element. -/
example (txt : Bytes) : ∃ pos, resolveAttrsLoop txt true (0, 0) 0
    [⟨⟨9, []⟩, ⟨9, [120]⟩, .owned [], (9, 14), 1, 1⟩] exDocX = .err (.duplicatedAttribute [120] pos) :=
  reject_duplicate_attribute txt true (0, 0) 0 _ [] exDocX none (none, [120]) rfl rfl
    (by intro k _ hk
        have : k = 0 := by simp [exDocX] at hk; omega
        subst this; exact ⟨_, rfl⟩)
    0 (by decide) (by decide) rfl

/-! ### Rules 6, 8 — namespace declarations (`process_attribute`), element prefix `xmlns`

`process_attribute` first normalises the attribute value (`normalize_attribute`: references
expanded, white space normalised); the checks below are on the *normalised* value `value`. -/

section
variable (T : Tables) (txt : Bytes)

/-- `normalize_attribute` leaves the document, the start of the element's declarations and the
`xmlns:xml`-seen flag alone -/
theorem normalizeAttribute_frame (c c1 : Ctx) (v : Span) (value : Str)
    (h : normalizeAttribute T txt c v = .ok (c1, value)) :
    c1.doc = c.doc ∧ c1.nsStartIdx = c.nsStartIdx ∧ c1.xmlDeclared = c.xmlDeclared := by
  unfold normalizeAttribute at h
  split at h
  · rw [Res.bind_eq_ok] at h
    obtain ⟨⟨buf, ld, tr⟩, _, h⟩ := h
    rw [Res.bind_eq_ok] at h
    obtain ⟨out, _, h⟩ := h
    res_norm at h
    rw [← h.1]; exact ⟨rfl, rfl, rfl⟩
  · res_norm at h; rw [← h.1]; exact ⟨rfl, rfl, rfl⟩

/-- A value without `&`, tab, LF, CR is its own normal form: the hypothesis
`normalizeAttribute … = .ok (c, .borrowed v)` of the rules below holds for every such value. -/
theorem normalizeAttribute_plain (c : Ctx) (v : Span)
    (h : v.bytes.any (fun b => b == bAmp || b == bTab || b == bLF || b == bCR) = false) :
    normalizeAttribute T txt c v = .ok (c, .borrowed v) := by
  unfold normalizeAttribute
  simp [h]

/-- **Rule 8a — a prefix bound to the `xmlns` namespace name** (Namespaces in XML, NSC "Reserved
Prefixes and Namespace Names": no prefix may be bound to `http://www.w3.org/2000/xmlns/`):
`xmlns:p="http://www.w3.org/2000/xmlns/"`, for any `p`, is rejected with `UnexpectedXmlnsUri`. -/
theorem reject_prefix_bound_to_xmlns_uri (c c1 : Ctx) (range : Range) (q e : Nat) (pfx loc v : Span)
    (value : Str) (hn : normalizeAttribute T txt c v = .ok (c1, value))
    (hpfx : pfx.bytes = Lit.xmlns) (huri : value.bytes = nsXmlnsUri) :
    ∃ pos, processAttribute T txt c range q e pfx loc v = .err (.unexpectedXmlnsUri pos) := by
  unfold processAttribute
  simp only [hn, Res.bind_ok, hpfx, huri, beq_self_eq_true, if_true]
  exact errPos_err _ _ _

/-- **Rule 8b — declaring the prefix `xmlns`** (NSC "Reserved Prefixes and Namespace Names": the
prefix `xmlns` must not be declared; the D5 repair): `xmlns:xmlns="…"` (with any other URI — the
`xmlns` URI is rule 8a) is rejected with `InvalidElementNamePrefix`. -/
theorem reject_xmlns_prefix_declared (c c1 : Ctx) (range : Range) (q e : Nat) (pfx loc v : Span)
    (value : Str) (hn : normalizeAttribute T txt c v = .ok (c1, value))
    (hpfx : pfx.bytes = Lit.xmlns) (hloc : loc.bytes = Lit.xmlns) (huri : value.bytes ≠ nsXmlnsUri) :
    ∃ pos, processAttribute T txt c range q e pfx loc v = .err (.invalidElementNamePrefix pos) := by
  have h1 : (value.bytes == nsXmlnsUri) = false := by simpa using huri
  unfold processAttribute
  simp only [hn, Res.bind_ok, hpfx, hloc, h1, beq_self_eq_true, if_true, Bool.false_eq_true, if_false]
  exact errPos_err _ _ _

/-- **Rule 8c — the prefix `xml` bound to another namespace name** (NSC "Reserved Prefixes and
Namespace Names": `xml` is bound to `http://www.w3.org/XML/1998/namespace` only): `xmlns:xml="u"`
with any other `u` is rejected with `InvalidXmlPrefixUri`. -/
theorem reject_xml_prefix_wrong_uri (c c1 : Ctx) (range : Range) (q e : Nat) (pfx loc v : Span)
    (value : Str) (hn : normalizeAttribute T txt c v = .ok (c1, value))
    (hpfx : pfx.bytes = Lit.xmlns) (hloc : loc.bytes = Lit.xml)
    (huri1 : value.bytes ≠ nsXmlnsUri) (huri2 : value.bytes ≠ nsXmlUri) :
    ∃ pos, processAttribute T txt c range q e pfx loc v = .err (.invalidXmlPrefixUri pos) := by
  have h1 : (value.bytes == nsXmlnsUri) = false := by simpa using huri1
  have h2 : (value.bytes == nsXmlUri) = false := by simpa using huri2
  have h3 : (Lit.xml == Lit.xmlns) = false := by decide
  unfold processAttribute
  simp only [hn, Res.bind_ok, hpfx, hloc, h1, h2, h3, beq_self_eq_true, if_true, Bool.false_eq_true,
    if_false, Bool.not_false, Bool.and_self]
  exact errPos_err _ _ _

/-- **Rule 8d — another prefix bound to the `xml` namespace name** (NSC "Reserved Prefixes and
Namespace Names"): `xmlns:p="http://www.w3.org/XML/1998/namespace"` with `p` other than `xml`
(and other than `xmlns`, which is rule 8b) is rejected with `UnexpectedXmlUri`. -/
theorem reject_xml_uri_other_prefix (c c1 : Ctx) (range : Range) (q e : Nat) (pfx loc v : Span)
    (value : Str) (hn : normalizeAttribute T txt c v = .ok (c1, value))
    (hpfx : pfx.bytes = Lit.xmlns) (hloc1 : loc.bytes ≠ Lit.xmlns) (hloc2 : loc.bytes ≠ Lit.xml)
    (huri : value.bytes = nsXmlUri) :
    ∃ pos, processAttribute T txt c range q e pfx loc v = .err (.unexpectedXmlUri pos) := by
  have h1 : (nsXmlUri == nsXmlnsUri) = false := by decide
  have h2 : (loc.bytes == Lit.xmlns) = false := by simpa using hloc1
  have h3 : (loc.bytes == Lit.xml) = false := by simpa using hloc2
  unfold processAttribute
  simp only [hn, Res.bind_ok, hpfx, huri, h1, h2, h3, beq_self_eq_true, if_true, Bool.false_eq_true,
    if_false, Bool.not_true, Bool.and_false, Bool.false_and, bne, Bool.not_false, Bool.and_self]
  exact errPos_err _ _ _

/-- **Rule 8e — the default namespace set to the `xml` namespace name** (NSC "Reserved Prefixes
and Namespace Names": it must not be declared as the default namespace):
`xmlns="http://www.w3.org/XML/1998/namespace"` is rejected with `UnexpectedXmlUri`. -/
theorem reject_default_ns_xml_uri (c c1 : Ctx) (range : Range) (q e : Nat) (pfx loc v : Span)
    (value : Str) (hn : normalizeAttribute T txt c v = .ok (c1, value))
    (hpfx : pfx.bytes = []) (hloc : loc.bytes = Lit.xmlns) (huri : value.bytes = nsXmlUri) :
    ∃ pos, processAttribute T txt c range q e pfx loc v = .err (.unexpectedXmlUri pos) := by
  have h0 : (([] : Bytes) == Lit.xmlns) = false := by decide
  unfold processAttribute
  simp only [hn, Res.bind_ok, hpfx, hloc, huri, h0, beq_self_eq_true, if_true, Bool.false_eq_true,
    if_false, List.isEmpty_nil, Bool.and_self]
  exact errPos_err _ _ _

/-- **Rule 8f — the default namespace set to the `xmlns` namespace name** (NSC "Reserved Prefixes
and Namespace Names"): `xmlns="http://www.w3.org/2000/xmlns/"` is rejected with
`UnexpectedXmlnsUri`. -/
theorem reject_default_ns_xmlns_uri (c c1 : Ctx) (range : Range) (q e : Nat) (pfx loc v : Span)
    (value : Str) (hn : normalizeAttribute T txt c v = .ok (c1, value))
    (hpfx : pfx.bytes = []) (hloc : loc.bytes = Lit.xmlns) (huri : value.bytes = nsXmlnsUri) :
    ∃ pos, processAttribute T txt c range q e pfx loc v = .err (.unexpectedXmlnsUri pos) := by
  have h0 : (([] : Bytes) == Lit.xmlns) = false := by decide
  have h1 : (nsXmlnsUri == nsXmlUri) = false := by decide
  unfold processAttribute
  simp only [hn, Res.bind_ok, hpfx, hloc, huri, h0, h1, beq_self_eq_true, if_true, Bool.false_eq_true,
    if_false, List.isEmpty_nil, Bool.and_self]
  exact errPos_err _ _ _

/-- **Rule 6a — the same prefix declared twice on one element** (XML 1.0 WFC "Unique Att Spec":
`xmlns:p` twice is the same attribute name twice): `xmlns:p="u"` (a declaration that passes rules
8a–8d) when a declaration of `p` has already been recorded for this element
(`tree_order[nsStartIdx..]`) is rejected with `DuplicatedNamespace(p)`. -/
theorem reject_duplicate_prefix_declaration (c c1 : Ctx) (range : Range) (q e : Nat) (pfx loc v : Span)
    (value : Str) (hn : normalizeAttribute T txt c v = .ok (c1, value))
    (hpfx : pfx.bytes = Lit.xmlns) (hloc : loc.bytes ≠ Lit.xmlns) (huri : value.bytes ≠ nsXmlnsUri)
    (hxml : loc.bytes = Lit.xml ↔ value.bytes = nsXmlUri)
    (hex : c.doc.ns.exists c.nsStartIdx (some loc.bytes) = .ok true) :
    ∃ pos, processAttribute T txt c range q e pfx loc v = .err (.duplicatedNamespace loc.bytes pos) := by
  obtain ⟨hd, hs, hx⟩ := normalizeAttribute_frame T txt c c1 v value hn
  have h1 : (value.bytes == nsXmlnsUri) = false := by simpa using huri
  have h2 : (loc.bytes == Lit.xmlns) = false := by simpa using hloc
  unfold processAttribute
  simp only [hn, Res.bind_ok, hpfx, h1, h2, beq_self_eq_true, if_true, Bool.false_eq_true, if_false,
    Ctx.log, hd, hs, hex]
  by_cases hx : loc.bytes = Lit.xml
  · have hv := hxml.mp hx
    simp only [hx, hv, beq_self_eq_true, Bool.not_true, Bool.and_false, Bool.false_eq_true, if_false,
      bne_self_eq_false, Bool.false_and]
    exact errPos_err _ _ _
  · have hv : value.bytes ≠ nsXmlUri := fun hv => hx (hxml.mpr hv)
    have h3 : (loc.bytes == Lit.xml) = false := by simpa using hx
    have h4 : (value.bytes == nsXmlUri) = false := by simpa using hv
    simp only [h3, h4, bne, Bool.not_false, Bool.false_and, Bool.and_false, Bool.false_eq_true, if_false]
    exact errPos_err _ _ _

/-- **Rule 6b — the default namespace declared twice on one element** (XML 1.0 WFC "Unique Att
Spec": `xmlns` twice; the D4 repair): `xmlns="u"` (a declaration that passes rules 8e, 8f) when a
default-namespace declaration has already been recorded for this element is rejected with
`DuplicatedNamespace("")`. -/
theorem reject_duplicate_default_namespace (c c1 : Ctx) (range : Range) (q e : Nat) (pfx loc v : Span)
    (value : Str) (hn : normalizeAttribute T txt c v = .ok (c1, value))
    (hpfx : pfx.bytes = []) (hloc : loc.bytes = Lit.xmlns)
    (huri1 : value.bytes ≠ nsXmlUri) (huri2 : value.bytes ≠ nsXmlnsUri)
    (hex : c.doc.ns.exists c.nsStartIdx none = .ok true) :
    ∃ pos, processAttribute T txt c range q e pfx loc v = .err (.duplicatedNamespace [] pos) := by
  obtain ⟨hd, hs, hx⟩ := normalizeAttribute_frame T txt c c1 v value hn
  have h0 : (([] : Bytes) == Lit.xmlns) = false := by decide
  have h1 : (value.bytes == nsXmlUri) = false := by simpa using huri1
  have h2 : (value.bytes == nsXmlnsUri) = false := by simpa using huri2
  unfold processAttribute
  simp only [hn, Res.bind_ok, hpfx, hloc, h0, h1, h2, beq_self_eq_true, if_true, Bool.false_eq_true,
    if_false, List.isEmpty_nil, Bool.and_self, Ctx.log, hd, hs, hex]
  exact errPos_err _ _ _

/-- **Rule 8g — an element name with the prefix `xmlns`** (NSC "Reserved Prefixes and Namespace
Names": element names must not have the prefix `xmlns`): the start of a tag `<xmlns:n` is
rejected with `InvalidElementNamePrefix` (whatever follows in the tag). -/
theorem reject_element_prefix_xmlns (lower : Token → Ctx → Res Ctx) (c c1 : Ctx) (pfx loc : Span)
    (start : Nat) (hreset : (c.log (.token (.elementStart pfx loc start))).resetAfterText = .ok c1)
    (hpfx : pfx.bytes = Lit.xmlns) :
    ∃ pos, tokenStep T txt lower (.elementStart pfx loc start) c = .err (.invalidElementNamePrefix pos) := by
  unfold tokenStep
  simp only [hreset, Res.bind_ok, hpfx, beq_self_eq_true, if_true]
  exact errPos_err _ _ _

/-- Each token handler's rejection is the builder step's rejection: attributes. -/
theorem reject_step_of_attribute (lower : Token → Ctx → Res Ctx) (c : Ctx) (range : Range) (q e : Nat)
    (pfx loc v : Span) (err : Err)
    (h : processAttribute T txt (c.log (.token (.attribute range q e pfx loc v))) range q e pfx loc v = .err err) :
    tokenStep T txt lower (.attribute range q e pfx loc v) c = .err err := by
  unfold tokenStep
  exact h

/-- Each token handler's rejection is the builder step's rejection: tag ends. -/
theorem reject_step_of_element (lower : Token → Ctx → Res Ctx) (c c1 : Ctx) (ek : EndKind) (range : Range)
    (err : Err) (hreset : (c.log (.token (.elementEnd ek range))).resetAfterText = .ok c1)
    (h : processElement txt c1 ek range = .err err) :
    tokenStep T txt lower (.elementEnd ek range) c = .err err := by
  unfold tokenStep
  simp only [hreset, Res.bind_ok, h]

end

/-- the namespace table after `xmlns:p="u"` and `xmlns="u"` on the current element (entry 0 is the
implicit `xml` binding) -/
def exNs : Namespaces :=
  { values := #[⟨some ⟨0, Lit.xml⟩, .borrowed ⟨0, nsXmlUri⟩⟩, ⟨some ⟨9, [112]⟩, .owned [117]⟩,
                ⟨none, .owned [117]⟩],
    treeOrder := #[0, 1, 2], sortedOrder := #[2, 1, 0] }

/-- the builder in the start tag of an element that already carries `xmlns:p="u" xmlns="u"` -/
def exCtxNs : Ctx := { exCtx with nsStartIdx := 1, doc := { exDoc with ns := exNs } }

/-- Rule 8a is not vacuous: `xmlns:p="http://www.w3.org/2000/xmlns/"`. -/
example (txt : Bytes) : ∃ pos, processAttribute T0 txt exCtx (0, 0) 7 1 ⟨0, Lit.xmlns⟩ ⟨6, [112]⟩ ⟨9, nsXmlnsUri⟩ =
    .err (.unexpectedXmlnsUri pos) :=
  reject_prefix_bound_to_xmlns_uri T0 txt _ _ _ _ _ _ _ _ _
    (normalizeAttribute_plain T0 txt _ _ (by decide)) rfl rfl

/-- Rule 8b is not vacuous: `xmlns:xmlns="u"` (D5). -/
example (txt : Bytes) : ∃ pos, processAttribute T0 txt exCtx (0, 0) 11 1 ⟨0, Lit.xmlns⟩ ⟨6, Lit.xmlns⟩ ⟨13, [117]⟩ =
    .err (.invalidElementNamePrefix pos) :=
  reject_xmlns_prefix_declared T0 txt _ _ _ _ _ _ _ _ _
    (normalizeAttribute_plain T0 txt _ _ (by decide)) rfl rfl (by decide)

/-- Rule 8c is not vacuous: `xmlns:xml="u"`. -/
example (txt : Bytes) : ∃ pos, processAttribute T0 txt exCtx (0, 0) 9 1 ⟨0, Lit.xmlns⟩ ⟨6, Lit.xml⟩ ⟨11, [117]⟩ =
    .err (.invalidXmlPrefixUri pos) :=
  reject_xml_prefix_wrong_uri T0 txt _ _ _ _ _ _ _ _ _
    (normalizeAttribute_plain T0 txt _ _ (by decide)) rfl rfl (by decide) (by decide)

/-- Rule 8d is not vacuous: `xmlns:p="http://www.w3.org/XML/1998/namespace"`. -/
example (txt : Bytes) : ∃ pos, processAttribute T0 txt exCtx (0, 0) 7 1 ⟨0, Lit.xmlns⟩ ⟨6, [112]⟩ ⟨9, nsXmlUri⟩ =
    .err (.unexpectedXmlUri pos) :=
  reject_xml_uri_other_prefix T0 txt _ _ _ _ _ _ _ _ _
    (normalizeAttribute_plain T0 txt _ _ (by decide)) rfl (by decide) (by decide) rfl

/-- Rule 8e is not vacuous: `xmlns="http://www.w3.org/XML/1998/namespace"`. -/
example (txt : Bytes) : ∃ pos, processAttribute T0 txt exCtx (0, 0) 5 1 ⟨0, []⟩ ⟨0, Lit.xmlns⟩ ⟨7, nsXmlUri⟩ =
    .err (.unexpectedXmlUri pos) :=
  reject_default_ns_xml_uri T0 txt _ _ _ _ _ _ _ _ _
    (normalizeAttribute_plain T0 txt _ _ (by decide)) rfl rfl rfl

/-- Rule 8f is not vacuous: `xmlns="http://www.w3.org/2000/xmlns/"`. -/
example (txt : Bytes) : ∃ pos, processAttribute T0 txt exCtx (0, 0) 5 1 ⟨0, []⟩ ⟨0, Lit.xmlns⟩ ⟨7, nsXmlnsUri⟩ =
    .err (.unexpectedXmlnsUri pos) :=
  reject_default_ns_xmlns_uri T0 txt _ _ _ _ _ _ _ _ _
    (normalizeAttribute_plain T0 txt _ _ (by decide)) rfl rfl rfl

/-- Rule 6a is not vacuous: a second `xmlns:p="w"` on the element. -/
example (txt : Bytes) : ∃ pos, processAttribute T0 txt exCtxNs (0, 0) 7 1 ⟨20, Lit.xmlns⟩ ⟨26, [112]⟩ ⟨29, [119]⟩ =
    .err (.duplicatedNamespace [112] pos) :=
  reject_duplicate_prefix_declaration T0 txt _ _ _ _ _ _ _ _ _
    (normalizeAttribute_plain T0 txt _ _ (by decide)) rfl (by decide) (by decide) (by decide) (by decide)

/-- Rule 6b is not vacuous: a second `xmlns="w"` on the element (D4). -/
example (txt : Bytes) : ∃ pos, processAttribute T0 txt exCtxNs (0, 0) 5 1 ⟨20, []⟩ ⟨20, Lit.xmlns⟩ ⟨27, [119]⟩ =
    .err (.duplicatedNamespace [] pos) :=
  reject_duplicate_default_namespace T0 txt _ _ _ _ _ _ _ _ _
    (normalizeAttribute_plain T0 txt _ _ (by decide)) rfl rfl (by decide) (by decide) (by decide)

/-- Rule 8g is not vacuous: `<xmlns:a`. -/
example (txt : Bytes) (lower : Token → Ctx → Res Ctx) : ∃ pos,
    tokenStep T0 txt lower (.elementStart ⟨4, Lit.xmlns⟩ ⟨10, [97]⟩ 3) exCtx = .err (.invalidElementNamePrefix pos) :=
  reject_element_prefix_xmlns T0 txt lower _ _ _ _ _ rfl rfl

/-! ### Rules 11, 12, 14, 10 — the tokenizer -/

section
variable (T : Tables) (txt : Bytes)

/-- **Rule 11a — `--` inside a comment** (XML 1.0 production [15] `Comment`): when the scan of
`<!-- … -->` succeeds with a body that contains `--`, `parse_comment` emits nothing and fails with
`InvalidComment`. -/
theorem reject_comment_double_dash (s s1 s2 s3 : Stream) (text : Span)
    (h1 : s.advance 4 = .ok s1)
    (h2 : s1.consumeChars T txt (fun s c => !(c == 45 && s.startsWith Lit.commentEnd)) = .ok (s2, text))
    (h3 : s2.skipString txt Lit.commentEnd = .ok s3)
    (hdd : containsSub text.bytes Lit.dashDash = true) :
    ∃ pos, parseComment T txt s = ([], .err (.invalidComment pos)) := by
  obtain ⟨pos, hp⟩ := errFrom_err (α := Stream) txt .invalidComment s.pos
  refine ⟨pos, ?_⟩
  unfold parseComment
  simp only [bind, TM.bind', TM.lift, h1, h2, h3, hdd, hp]
  simp
  rfl

/-- **Rule 11b — a comment body ending in `-`** (production [15]: `--->` is not a comment end):
when the scan succeeds with a body whose last byte is `-`, `parse_comment` emits nothing and fails
with `InvalidComment`. -/
theorem reject_comment_trailing_dash (s s1 s2 s3 : Stream) (text : Span)
    (h1 : s.advance 4 = .ok s1)
    (h2 : s1.consumeChars T txt (fun s c => !(c == 45 && s.startsWith Lit.commentEnd)) = .ok (s2, text))
    (h3 : s2.skipString txt Lit.commentEnd = .ok s3)
    (hld : text.bytes.getLast? = some bDash) :
    ∃ pos, parseComment T txt s = ([], .err (.invalidComment pos)) := by
  obtain ⟨pos, hp⟩ := errFrom_err (α := Stream) txt .invalidComment s.pos
  refine ⟨pos, ?_⟩
  unfold parseComment
  simp only [bind, TM.bind', TM.lift, h1, h2, h3, hld, hp]
  simp
  cases containsSub text.bytes Lit.dashDash <;> rfl

/-- a byte string that contains `]]>` contains `>` -/
theorem contains_gt_of_cdataEnd : ∀ (l : Bytes), containsSub l Lit.cdataEnd = true → l.contains bGt = true
  | [], h => by simp [containsSub, Lit.cdataEnd] at h
  | b :: r, h => by
    simp only [containsSub, Bool.or_eq_true] at h
    rcases h with h | h
    · obtain ⟨t, ht⟩ := List.isPrefixOf_iff_prefix.mp h
      rw [← ht]
      simp [Lit.cdataEnd, bGt]
    · have := contains_gt_of_cdataEnd r h
      simp only [List.contains_cons, this, Bool.or_true]

/-- **Rule 12 — `]]>` in character data** (XML 1.0 production [14] `CharData`): when the run of
character data up to the next `<` contains `]]>`, `parse_text` emits nothing and fails with
`InvalidCharacterData`. -/
theorem reject_cdata_end_in_text (s s1 : Stream) (text : Span) (hs : SOk txt s)
    (h1 : s.consumeChars T txt (fun _ c => c != 60) = .ok (s1, text))
    (hcd : containsSub text.bytes Lit.cdataEnd = true) :
    ∃ pos, parseText T txt s = ([], .err (.invalidCharacterData pos)) := by
  have hs1 : SOk txt s1 := ((consumeChars_spec T txt _ hs).post _ h1).1.2
  obtain ⟨pos, hp⟩ := errAt_err (α := Stream) hs1 .invalidCharacterData
  refine ⟨pos, ?_⟩
  unfold parseText
  simp only [bind, TM.bind', TM.lift, h1, contains_gt_of_cdataEnd _ hcd, hcd, Bool.and_self, hp]
  simp
  rfl

/-- **Rule 14 — DTD when not allowed** (`ParsingOptions::allow_dtd = false`, the default): when
the prolog (BOM, XML declaration, comments, PIs, white space) ends in front of `<!DOCTYPE`, the
tokenizer stops with `DtdDetected`, having delivered only the prolog's tokens. -/
theorem reject_dtd_detected (toks : List Token) (s : Stream)
    (hp : parseProlog T txt = (toks, .ok s)) (hd : s.startsWith Lit.doctype = true) :
    tokenize T txt false = (toks, .err .dtdDetected) := by
  unfold tokenize parseDocument
  simp only [bind, TM.bind', hp, hd, TM.lift]
  simp

/-- Rule 14 at the level of `parse`: if the builder accepts the prolog's comments and PIs, the
result is `DtdDetected` — never a tree. -/
theorem reject_dtd_detected_parse (opt : Opt) (hopt : opt.allowDtd = false) (toks : List Token)
    (s : Stream) (c0 c : Ctx) (hp : parseProlog T txt = (toks, .ok s))
    (hd : s.startsWith Lit.doctype = true) (h0 : initCtx txt opt = .ok c0)
    (hfeed : feed (token T txt depthFuel) toks c0 = .ok c) :
    parse T txt opt = .err .dtdDetected := by
  apply reject_parse_of_run T txt opt c0 _ h0
  rw [hopt, reject_dtd_detected T txt toks s hp hd]
  exact reject_run_of_tokenizer _ _ _ _ _ hfeed

/-- **Rule 10c — `<` in an attribute value, at the tokenizer** (XML 1.0 production [10]
`AttValue`): the scan of an attribute value stops at the closing quote or at `<`; if it stopped at
`<`, the closing quote that must follow is missing and the tokenizer fails with
`InvalidChar(quote, '<')` — no attribute token is delivered; and the scanned value itself contains
neither the quote nor `<`. -/
theorem reject_lt_in_attr_value_tokenizer (s s' : Stream) (q : UInt8) (v : Span) (r : Bytes)
    (hscan : s.advanceUntil2 q bLt = .ok (s', v)) (hstop : s'.rest = bLt :: r) (hq : q ≠ bLt)
    (hs' : SOk txt s') :
    (∀ b ∈ v.bytes, b ≠ q ∧ b ≠ bLt) ∧
    ∃ pos, s'.consumeByte txt q = .err (.invalidChar q bLt pos) := by
  refine ⟨(Rox.Props.C08.advanceUntil2_stops s s' q v hscan).1, ?_⟩
  unfold Stream.consumeByte
  have : (bLt != q) = true := by simpa using fun h => hq h.symm
  simp only [hstop, this, if_true]
  exact errAt_err hs' _

end

/-- `<!--a--b-->` -/
def exComment1 : Bytes := [60, 33, 45, 45, 97, 45, 45, 98, 45, 45, 62]
/-- `<!--a--->` -/
def exComment2 : Bytes := [60, 33, 45, 45, 97, 45, 45, 45, 62]
/-- `a]]>` -/
def exText : Bytes := [97, 93, 93, 62]
/-- `<!DOCTYPE a>` -/
def exDtd : Bytes := [60, 33, 68, 79, 67, 84, 89, 80, 69, 32, 97, 62]

/-- Rule 11a is not vacuous: `<!--a--b-->`. -/
example : ∃ pos, parseComment T0 exComment1 ⟨0, exComment1⟩ = ([], .err (.invalidComment pos)) :=
  reject_comment_double_dash T0 exComment1 _ ⟨4, [97, 45, 45, 98, 45, 45, 62]⟩ ⟨8, [45, 45, 62]⟩ ⟨11, []⟩
    ⟨4, [97, 45, 45, 98]⟩ (by decide) (by decide) (by decide) (by decide)

/-- Rule 11b is not vacuous: `<!--a--->`. -/
example : ∃ pos, parseComment T0 exComment2 ⟨0, exComment2⟩ = ([], .err (.invalidComment pos)) :=
  reject_comment_trailing_dash T0 exComment2 _ ⟨4, [97, 45, 45, 45, 62]⟩ ⟨6, [45, 45, 62]⟩ ⟨9, []⟩
    ⟨4, [97, 45]⟩ (by decide) (by decide) (by decide) (by decide)

/-- Rule 12 is not vacuous: the character data `a]]>`. -/
example : ∃ pos, parseText T0 exText ⟨0, exText⟩ = ([], .err (.invalidCharacterData pos)) :=
  reject_cdata_end_in_text T0 exText _ ⟨4, []⟩ ⟨0, exText⟩
    ⟨by decide, by decide, by unfold ValidUtf8; decide, by decide⟩ (by decide) (by decide)

/-- Rule 14 is not vacuous: `<!DOCTYPE a>` with the default options. -/
example : tokenize T0 exDtd false = ([], .err .dtdDetected) :=
  reject_dtd_detected T0 exDtd [] ⟨0, exDtd⟩
    (by rfl) (by decide)

/-- Rule 14 at the level of `parse` is not vacuous: `<!DOCTYPE a>` with the default options. -/
example : parse T0 exDtd {} = .err .dtdDetected :=
  reject_dtd_detected_parse T0 exDtd {} rfl [] ⟨0, exDtd⟩ _ _ (by rfl) (by decide) rfl rfl

/-- Rule 10c is not vacuous: the value scan of `"a<"` (after the opening quote) stops at `<`. -/
example : ∃ pos, (Stream.mk 1 [60, 34]).consumeByte [97, 60, 34] bQuot = .err (.invalidChar bQuot bLt pos) :=
  And.right <| reject_lt_in_attr_value_tokenizer [97, 60, 34] ⟨0, [97, 60, 34]⟩ _ bQuot ⟨0, [97]⟩ [34] (by decide) rfl
    (by decide) ⟨by decide, by decide, by unfold ValidUtf8; decide, by decide⟩

/-- **What is delivered has passed the tokenizer's checks** (rules 10, 11, 12 seen from the
builder): on every valid UTF-8 input, no delivered attribute value contains `<`, no delivered
comment contains `--` or ends in `-`, no delivered text contains `]]>`. -/
theorem delivered_tokens_checked (T : Tables) (hT : TablesOK T) (txt : Bytes) (hv : ValidUtf8 txt)
    (allowDtd : Bool) (t : Token) (ht : t ∈ (tokenize T txt allowDtd).1) :
    (∀ r q e p l v, t = .attribute r q e p l v → ∀ b ∈ v.bytes, b ≠ bLt) ∧
    (∀ b r, t = .comment b r → containsSub b.bytes Lit.dashDash = false ∧ b.bytes.getLast? ≠ some bDash) ∧
    (∀ b r, t = .text b r → containsSub b.bytes Lit.cdataEnd = false) := by
  have hok : TokOk txt t := (parseDocument_spec T hT txt hv allowDtd).toks t ht
  refine ⟨?_, ?_, ?_⟩
  · rintro r q e p l v rfl; exact hok.2.2.2.2
  · rintro b r rfl; exact ⟨hok.2.2.1, hok.2.2.2⟩
  · rintro b r rfl
    have h := hok.2.2.2
    cases hc : containsSub b.bytes Lit.cdataEnd with
    | false => rfl
    | true => rw [contains_gt_of_cdataEnd _ hc, hc] at h; simp at h

/-- The same for the tokens of an entity's replacement text (the tokens the builder is re-entered
with during entity expansion). -/
theorem delivered_entity_tokens_checked (T : Tables) (hT : TablesOK T) (txt : Bytes) (v : Span)
    (hv : SpanU txt v) (t : Token) (ht : t ∈ (tokenizeContent T txt v.off v.stop).1) :
    (∀ r q e p l w, t = .attribute r q e p l w → ∀ b ∈ w.bytes, b ≠ bLt) ∧
    (∀ b r, t = .comment b r → containsSub b.bytes Lit.dashDash = false ∧ b.bytes.getLast? ≠ some bDash) ∧
    (∀ b r, t = .text b r → containsSub b.bytes Lit.cdataEnd = false) := by
  have hok : TokOk txt t := tokenizeContent_tokOk T hT txt v hv t ht
  refine ⟨?_, ?_, ?_⟩
  · rintro r q e p l w rfl; exact hok.2.2.2.2
  · rintro b r rfl; exact ⟨hok.2.2.1, hok.2.2.2⟩
  · rintro b r rfl
    have h := hok.2.2.2
    cases hc : containsSub b.bytes Lit.cdataEnd with
    | false => rfl
    | true => rw [contains_gt_of_cdataEnd _ hc, hc] at h; simp at h

/-! ### Rule 6c — `xmlns:xml` declared twice on one start tag (the D16 repair)

`xmlns:xml="http://www.w3.org/XML/1998/namespace"` is legal once, and is not recorded in the
namespace table (the `xml` binding is implicit, entry 0, outside every element's own range), so
rule 6a cannot see a repetition. The context flag `xmlDeclared` (`xml_prefix_declared` in the
crate) remembers that the current start tag has made this declaration; it is set by the first
declaration, checked by the next one, and reset by `process_element`. -/

section
variable (T : Tables) (txt : Bytes)

/-- **Rule 6c — the prefix `xml` declared twice on one element** (XML 1.0 WFC "Unique Att Spec":
`xmlns:xml` twice is the same attribute name twice; the D16 repair): a second
`xmlns:xml="http://www.w3.org/XML/1998/namespace"` on the same start tag (`xmlDeclared` is set) is
rejected with `DuplicatedNamespace("xml")`. (`hex`: the scan of the element's own declarations
does not fail — whatever it answers.) -/
theorem reject_duplicate_xml_prefix_declaration (c c1 : Ctx) (range : Range) (q e : Nat)
    (pfx loc v : Span) (value : Str) (b : Bool)
    (hn : normalizeAttribute T txt c v = .ok (c1, value))
    (hpfx : pfx.bytes = Lit.xmlns) (hloc : loc.bytes = Lit.xml) (huri : value.bytes = nsXmlUri)
    (hex : c.doc.ns.exists c.nsStartIdx (some Lit.xml) = .ok b)
    (hxd : c.xmlDeclared = true) :
    ∃ pos, processAttribute T txt c range q e pfx loc v = .err (.duplicatedNamespace Lit.xml pos) := by
  obtain ⟨hd, hs, hx⟩ := normalizeAttribute_frame T txt c c1 v value hn
  have h1 : (nsXmlUri == nsXmlnsUri) = false := by decide
  have h3 : (Lit.xml == Lit.xmlns) = false := by decide
  unfold processAttribute
  simp only [hn, Res.bind_ok, hpfx, hloc, huri, h1, h3, beq_self_eq_true, if_true, Bool.false_eq_true,
    if_false, Bool.not_true, Bool.and_false, bne_self_eq_false, Bool.false_and, Ctx.log, hd, hs, hx, hxd,
    hex, Bool.and_self, Bool.or_true]
  exact errPos_err _ _ _

/-- The first `xmlns:xml="http://www.w3.org/XML/1998/namespace"` of a start tag is accepted,
changes neither the document nor the start of the element's declarations, and sets the flag — so
that a repetition meets the hypothesis of rule 6c. -/
theorem xmlns_xml_declaration_sets_flag (c c1 : Ctx) (range : Range) (q e : Nat)
    (pfx loc v : Span) (value : Str)
    (hn : normalizeAttribute T txt c v = .ok (c1, value))
    (hpfx : pfx.bytes = Lit.xmlns) (hloc : loc.bytes = Lit.xml) (huri : value.bytes = nsXmlUri)
    (hex : c.doc.ns.exists c.nsStartIdx (some Lit.xml) = .ok false)
    (hxd : c.xmlDeclared = false) :
    ∃ c', processAttribute T txt c range q e pfx loc v = .ok c' ∧ c'.xmlDeclared = true ∧
      c'.doc = c.doc ∧ c'.nsStartIdx = c.nsStartIdx := by
  obtain ⟨hd, hs, hx⟩ := normalizeAttribute_frame T txt c c1 v value hn
  have h1 : (nsXmlUri == nsXmlnsUri) = false := by decide
  have h3 : (Lit.xml == Lit.xmlns) = false := by decide
  refine ⟨{ c1.log (.attrValue value) with xmlDeclared := true }, ?_, rfl, hd, hs⟩
  unfold processAttribute
  simp only [hn, Res.bind_ok, hpfx, hloc, huri, h1, h3, beq_self_eq_true, if_true, Bool.false_eq_true,
    if_false, Bool.not_true, Bool.and_false, bne_self_eq_false, Bool.false_and, Ctx.log, hd, hs, hx, hxd,
    hex, Bool.and_false, Bool.or_self, Res.pure_eq]

/-- `resolve_attributes` does not touch the flag -/
theorem resolveAttributes_xmlDeclared (c c' : Ctx) (nss r : Range)
    (h : resolveAttributes txt c nss = .ok (c', r)) : c'.xmlDeclared = c.xmlDeclared := by
  unfold resolveAttributes at h
  split at h
  · res_norm at h; rw [← h.1]
  · split at h
    · simp at h
    · rw [Res.bind_eq_ok] at h
      obtain ⟨doc, _, h⟩ := h
      res_norm at h
      rw [← h.1]

/-- `append_node` does not touch the flag -/
theorem appendNode_xmlDeclared (c c' : Ctx) (k : Kind) (r : Range) (id : Nat)
    (h : c.appendNode k r = .ok (c', id)) : c'.xmlDeclared = c.xmlDeclared := by
  unfold Ctx.appendNode at h
  split at h
  · simp at h
  · rw [Res.bind_eq_ok] at h
    obtain ⟨newId, _, h⟩ := h
    simp only at h
    split at h
    · simp at h
    · split at h
      · simp at h
      · split at h
        · simp at h
        · rw [Res.bind_eq_ok] at h
          obtain ⟨nodes', _, h⟩ := h
          simp only [pure, Res.ok.injEq, Prod.mk.injEq] at h
          rw [← h.1]

/-- **`process_element` resets the flag**: after the end of any tag (`>`, `/>`, or an end tag)
has been processed, `xmlDeclared` is off — the next start tag begins with a clean slate, and
rule 6c is about one start tag only. -/
theorem processElement_resets_xmlDeclared (c c' : Ctx) (e : EndKind) (r : Range)
    (h : processElement txt c e r = .ok c') : c'.xmlDeclared = false := by
  unfold processElement at h
  split at h
  · split at h
    · exact absurd h (errPos_ne_ok _ _ _ _)
    · simp at h
  · rw [Res.bind_eq_ok] at h
    obtain ⟨⟨c1, nss⟩, h1, h⟩ := h
    try dsimp only at h
    rw [Res.bind_eq_ok] at h
    obtain ⟨⟨c2, attrs⟩, h2, h⟩ := h
    have x2 : c2.xmlDeclared = false := resolveAttributes_xmlDeclared txt _ _ _ _ h2
    try dsimp only at h
    split at h
    · rw [Res.bind_eq_ok] at h
      obtain ⟨tagNs, _, h⟩ := h
      rw [Res.bind_eq_ok] at h
      obtain ⟨⟨c3, newId⟩, h3, h⟩ := h
      res_norm at h
      subst h
      exact (appendNode_xmlDeclared _ _ _ _ _ h3).trans x2
    · split at h
      · exact absurd h (errPos_ne_ok _ _ _ _)
      · rw [Res.bind_eq_ok] at h
        obtain ⟨p, _, h⟩ := h
        split at h
        · simp at h
        · split at h
          · exact absurd h (errPos_ne_ok _ _ _ _)
          · split at h
            · res_norm at h
              subst h
              exact x2
            · exact absurd h (errPos_ne_ok _ _ _ _)
    · rw [Res.bind_eq_ok] at h
      obtain ⟨tagNs, _, h⟩ := h
      rw [Res.bind_eq_ok] at h
      obtain ⟨⟨c3, newId⟩, h3, h⟩ := h
      res_norm at h
      subst h
      exact (appendNode_xmlDeclared _ _ _ _ _ h3).trans x2

end

/-- Rule 6c is not vacuous: a second `xmlns:xml="http://www.w3.org/XML/1998/namespace"` on the
start tag (D16). -/
example (txt : Bytes) : ∃ pos,
    processAttribute T0 txt { exCtx with xmlDeclared := true } (0, 0) 9 1 ⟨50, Lit.xmlns⟩ ⟨56, Lit.xml⟩
      ⟨61, nsXmlUri⟩ = .err (.duplicatedNamespace Lit.xml pos) :=
  reject_duplicate_xml_prefix_declaration T0 txt _ _ _ _ _ _ _ _ _ false
    (normalizeAttribute_plain T0 txt _ _ (by decide)) rfl rfl rfl (by decide) rfl

/-- …and the first one is accepted and sets the flag. -/
example (txt : Bytes) : ∃ c',
    processAttribute T0 txt exCtx (0, 0) 9 1 ⟨3, Lit.xmlns⟩ ⟨9, Lit.xml⟩ ⟨14, nsXmlUri⟩ = .ok c' ∧
      c'.xmlDeclared = true ∧ c'.doc = exCtx.doc ∧ c'.nsStartIdx = exCtx.nsStartIdx :=
  xmlns_xml_declaration_sets_flag T0 txt _ _ _ _ _ _ _ _ _
    (normalizeAttribute_plain T0 txt _ _ (by decide)) rfl rfl rfl (by decide) rfl

end Rox.Props.C08.Reject
